// Package verifkit is the shared harness library of /verif. It is overlaid into the
// repository at build time as github.com/ElrondNetwork/elrond-go/verifkit (it does not
// exist in /repo). It must not import any elrond-go package (import cycles).
package verifkit

import (
	"encoding/binary"
	"encoding/json"
	"flag"
	"fmt"
	"hash/fnv"
	"os"
	"path/filepath"
	"runtime/debug"
	"sort"
	"strconv"
	"strings"
	"sync"
	"testing"

	logger "github.com/ElrondNetwork/elrond-go-logger"
	"pgregory.net/rapid"
)

// Budget is the number of generated cases per process for each tier, and the average
// number of t.Repeat steps (0 = rapid default of 30).
type Budget struct {
	Quick    int
	Thorough int
	Steps    int
}

type knownAbort struct{ key string }

// stats of one Run (one test function), flushed at the end of the test function.
type stats struct {
	mu        sync.Mutex
	id        string
	test      string
	cases     int
	classes   map[string]int
	nontriv   map[uint64]struct{}
	ntTotal   int
	samples   []string
	ntSeen    int
	excluded  map[string]int
	rule      string
	notes     []string
	requested int
}

const maxDistinct = 4 << 20

var (
	knownOnce sync.Once
	knownKeys map[string]string
)

type knownEntry struct {
	Property string `json:"property"`
	Key      string `json:"key"`
	Status   string `json:"status"`
	What     string `json:"what"`
}

func loadKnown() {
	knownKeys = map[string]string{}
	p := os.Getenv("VERIF_KNOWN")
	if p == "" {
		return
	}
	b, err := os.ReadFile(p)
	if err != nil {
		return
	}
	var f struct {
		Findings []knownEntry `json:"findings"`
	}
	if json.Unmarshal(b, &f) != nil {
		return
	}
	for _, e := range f.Findings {
		if e.Status == "known" {
			knownKeys[e.Key] = e.What
		}
	}
}

// IsKnown reports whether a violation key is listed as a known finding.
func IsKnown(key string) bool {
	knownOnce.Do(loadKnown)
	_, ok := knownKeys[key]
	return ok
}

// Tier returns "quick" or "thorough".
func Tier() string {
	if os.Getenv("VERIF_TIER") == "thorough" {
		return "thorough"
	}
	return "quick"
}

// Thorough reports whether the thorough tier is running.
func Thorough() bool { return Tier() == "thorough" }

func envInt(name string, def int) int {
	v, err := strconv.Atoi(os.Getenv(name))
	if err != nil {
		return def
	}
	return v
}

func envFloat(name string, def float64) float64 {
	v, err := strconv.ParseFloat(os.Getenv(name), 64)
	if err != nil {
		return def
	}
	return v
}

// Seed returns the rapid seed for this process: a pure function of VERIF_SEED and the shard index.
func Seed() uint64 {
	base := uint64(envInt("VERIF_SEED", 1))
	shard := uint64(envInt("VERIF_SHARD", 0))
	s := base*1000003 + shard*7919 + 12345
	if s == 0 {
		s = 1
	}
	return s
}

func seedFor(test string) uint64 {
	h := fnv.New64a()
	_, _ = h.Write([]byte(test))
	s := Seed() ^ (h.Sum64() >> 1)
	if s == 0 {
		s = 1
	}
	return s
}

// Case is the per-generated-case handle passed to properties.
type Case struct {
	st *stats
	rt *rapid.T
	nt []string
}

// Class counts the case (or an event inside it) under a label.
func (c *Case) Class(label string) {
	c.st.mu.Lock()
	c.st.classes[label]++
	c.st.mu.Unlock()
}

// NonTrivial marks the current case as non-trivial; key is a canonical description of the case
// (or of its non-trivial part) used to count distinct non-trivial cases.
func (c *Case) NonTrivial(key string) {
	h := fnv.New64a()
	_, _ = h.Write([]byte(key))
	v := h.Sum64()
	c.st.mu.Lock()
	c.st.ntTotal++
	if len(c.st.nontriv) < maxDistinct {
		c.st.nontriv[v] = struct{}{}
	}
	c.st.mu.Unlock()
}

// Sample offers a written-out case for the evidence file (a few are kept).
func (c *Case) Sample(format string, args ...interface{}) {
	c.st.mu.Lock()
	defer c.st.mu.Unlock()
	c.st.ntSeen++
	n := c.st.ntSeen
	// keep the first 4, then every power of two (deterministic reservoir of <= ~20)
	if n <= 4 || n&(n-1) == 0 {
		s := fmt.Sprintf(format, args...)
		if len(s) > 1500 {
			s = s[:1500] + "…"
		}
		if len(c.st.samples) < 24 {
			c.st.samples = append(c.st.samples, s)
		}
	}
}

// Violation reports a property violation of class key. If key is a listed known finding the case is
// counted as excluded and aborted successfully (the search continues); otherwise the test fails
// (rapid then shrinks).
func (c *Case) Violation(key string, format string, args ...interface{}) {
	msg := fmt.Sprintf(format, args...)
	if IsKnown(key) {
		c.st.mu.Lock()
		c.st.excluded[key]++
		c.st.mu.Unlock()
		panic(knownAbort{key})
	}
	recordViolation(c.st.id, c.st.test, key, msg)
	c.rt.Fatalf("VERIF-VIOLATION key=%s: %s", key, msg)
}

// Excluded counts a case (or sub-case) excluded by construction because it belongs to a known finding,
// without aborting the case.
func (c *Case) Excluded(key string) {
	c.st.mu.Lock()
	c.st.excluded[key]++
	c.st.mu.Unlock()
}

// NoPanic runs f and converts a panic of the code under test into a violation of class key.
func (c *Case) NoPanic(key string, f func()) {
	defer func() {
		if r := recover(); r != nil {
			if _, ok := r.(knownAbort); ok {
				panic(r)
			}
			if isRapidInternal(r) {
				panic(r)
			}
			c.Violation(key, "panic: %v\n%s", r, trimStack(debug.Stack()))
		}
	}()
	f()
}

func isRapidInternal(r interface{}) bool {
	// rapid signals Fatalf/Skip/invalid data through panics of unexported types of package rapid.
	tn := fmt.Sprintf("%T", r)
	return strings.HasPrefix(tn, "rapid.") || strings.HasPrefix(tn, "*rapid.")
}

func trimStack(b []byte) string {
	s := string(b)
	if len(s) > 3000 {
		s = s[:3000]
	}
	return s
}

func recordViolation(id, test, key, msg string) {
	dir := os.Getenv("VERIF_OUT")
	if dir == "" {
		return
	}
	f, err := os.OpenFile(filepath.Join(dir, fmt.Sprintf("%s.%d.violations.jsonl", id, os.Getpid())), os.O_APPEND|os.O_CREATE|os.O_WRONLY, 0o644)
	if err != nil {
		return
	}
	defer f.Close()
	if len(msg) > 4000 {
		msg = msg[:4000]
	}
	b, _ := json.Marshal(map[string]string{"property": id, "test": test, "key": key, "msg": msg})
	_, _ = f.Write(append(b, '\n'))
}

// FailPlain reports a violation from a plain (non-rapid) regression test.
func FailPlain(t *testing.T, id, key, format string, args ...interface{}) {
	t.Helper()
	msg := fmt.Sprintf(format, args...)
	if IsKnown(key) {
		t.Logf("KNOWN key=%s: %s", key, msg)
		recordExcludedPlain(id, t.Name(), key)
		return
	}
	recordViolation(id, t.Name(), key, msg)
	t.Fatalf("VERIF-VIOLATION key=%s: %s", key, msg)
}

func recordExcludedPlain(id, test, key string) {
	dir := os.Getenv("VERIF_OUT")
	if dir == "" {
		return
	}
	f, err := os.OpenFile(filepath.Join(dir, fmt.Sprintf("%s.%d.excluded.jsonl", id, os.Getpid())), os.O_APPEND|os.O_CREATE|os.O_WRONLY, 0o644)
	if err != nil {
		return
	}
	defer f.Close()
	b, _ := json.Marshal(map[string]string{"property": id, "test": test, "key": key})
	_, _ = f.Write(append(b, '\n'))
}

var silenceOnce sync.Once

// Silence turns the elrond logger off.
func Silence() {
	silenceOnce.Do(func() { _ = logger.SetLogLevel("*:NONE") })
}

// Run executes a generated-input property under rapid with the tier's budget, collecting
// statistics for the evidence file. id is the property id (e.g. "C25"); rule describes generation
// and the non-triviality rule of this test function.
func Run(t *testing.T, id string, b Budget, rule string, prop func(rt *rapid.T, c *Case)) {
	t.Helper()
	Silence()
	n := b.Quick
	if Thorough() {
		n = b.Thorough
	}
	scale := envFloat("VERIF_SCALE", 1)
	n = int(float64(n) * scale)
	if n < 1 {
		n = 1
	}
	_ = flag.Set("rapid.checks", strconv.Itoa(n))
	if os.Getenv("VERIF_REPLAY") == "" {
		_ = flag.Set("rapid.seed", strconv.FormatUint(seedFor(t.Name()), 10))
	}
	if b.Steps > 0 {
		_ = flag.Set("rapid.steps", strconv.Itoa(b.Steps))
	} else {
		_ = flag.Set("rapid.steps", "30")
	}
	st := &stats{
		id: id, test: t.Name(), classes: map[string]int{}, nontriv: map[uint64]struct{}{},
		excluded: map[string]int{}, rule: rule, requested: n,
	}
	defer st.flush()
	rapid.Check(t, func(rt *rapid.T) {
		st.mu.Lock()
		st.cases++
		st.mu.Unlock()
		c := &Case{st: st, rt: rt}
		defer func() {
			if r := recover(); r != nil {
				if _, ok := r.(knownAbort); ok {
					return // case ends successfully; search continues
				}
				panic(r)
			}
		}()
		prop(rt, c)
	})
}

// Plain collects statistics for a non-rapid (enumerative / regression) test function.
type Plain struct {
	st *stats
	t  *testing.T
}

// NewPlain starts statistics collection for an enumerative test; call Done (defer) at the end.
func NewPlain(t *testing.T, id, rule string) *Plain {
	Silence()
	return &Plain{t: t, st: &stats{id: id, test: t.Name(), classes: map[string]int{}, nontriv: map[uint64]struct{}{},
		excluded: map[string]int{}, rule: rule}}
}

// Eval counts n evaluations.
func (p *Plain) Eval(n int) { p.st.mu.Lock(); p.st.cases += n; p.st.mu.Unlock() }

// Class counts under a label.
func (p *Plain) Class(label string, n int) { p.st.mu.Lock(); p.st.classes[label] += n; p.st.mu.Unlock() }

// NonTrivial records a distinct non-trivial case by 64-bit key.
func (p *Plain) NonTrivial(key string) {
	h := fnv.New64a()
	_, _ = h.Write([]byte(key))
	p.st.mu.Lock()
	p.st.ntTotal++
	if len(p.st.nontriv) < maxDistinct {
		p.st.nontriv[h.Sum64()] = struct{}{}
	}
	p.st.mu.Unlock()
}

// NonTrivialN records a distinct non-trivial case by integer key (cheap, for exhaustive loops).
func (p *Plain) NonTrivialN(key uint64) {
	p.st.mu.Lock()
	p.st.ntTotal++
	if len(p.st.nontriv) < maxDistinct {
		p.st.nontriv[key] = struct{}{}
	}
	p.st.mu.Unlock()
}

// Sample keeps a written-out case.
func (p *Plain) Sample(format string, args ...interface{}) {
	p.st.mu.Lock()
	defer p.st.mu.Unlock()
	p.st.ntSeen++
	n := p.st.ntSeen
	if (n <= 4 || n&(n-1) == 0) && len(p.st.samples) < 24 {
		p.st.samples = append(p.st.samples, fmt.Sprintf(format, args...))
	}
}

// Violation fails the test unless key is a known finding (then it is counted and false is returned).
func (p *Plain) Violation(key, format string, args ...interface{}) {
	p.t.Helper()
	msg := fmt.Sprintf(format, args...)
	if IsKnown(key) {
		p.st.mu.Lock()
		p.st.excluded[key]++
		p.st.mu.Unlock()
		return
	}
	recordViolation(p.st.id, p.st.test, key, msg)
	p.st.flush()
	p.t.Fatalf("VERIF-VIOLATION key=%s: %s", key, msg)
}

// Exhaustive marks the enumeration as exhaustive over its finite space.
func (p *Plain) Exhaustive() { p.st.mu.Lock(); p.st.notes = append(p.st.notes, "exhaustive"); p.st.mu.Unlock() }

// Done flushes the statistics.
func (p *Plain) Done() { p.st.flush() }

func (st *stats) flush() {
	dir := os.Getenv("VERIF_OUT")
	if dir == "" {
		return
	}
	st.mu.Lock()
	defer st.mu.Unlock()
	base := filepath.Join(dir, fmt.Sprintf("%s.%d.%s", st.id, os.Getpid(), sanitize(st.test)))
	hashes := make([]uint64, 0, len(st.nontriv))
	for h := range st.nontriv {
		hashes = append(hashes, h)
	}
	sort.Slice(hashes, func(i, j int) bool { return hashes[i] < hashes[j] })
	buf := make([]byte, 8*len(hashes))
	for i, h := range hashes {
		binary.LittleEndian.PutUint64(buf[8*i:], h)
	}
	_ = os.WriteFile(base+".nt.bin", buf, 0o644)
	out := map[string]interface{}{
		"property":       st.id,
		"test":           st.test,
		"cases":          st.cases,
		"requested":      st.requested,
		"classes":        st.classes,
		"nontrivial":     st.ntTotal,
		"distinct":       len(st.nontriv),
		"samples":        st.samples,
		"excluded_known": st.excluded,
		"rule":           st.rule,
		"notes":          st.notes,
		"seed":           Seed(),
		"tier":           Tier(),
	}
	b, _ := json.MarshalIndent(out, "", " ")
	_ = os.WriteFile(base+".stats.json", b, 0o644)
}

func sanitize(s string) string {
	return strings.Map(func(r rune) rune {
		if r == '/' || r == ' ' {
			return '_'
		}
		return r
	}, s)
}
