#!/usr/bin/env python3
import subprocess, sys, os, json
WT = "/tmp/wt-trieB-mut"
BASE = "/tmp/trieB-run/base-fixes.patch"

M = {
 # ---------------- C04
 "C04-M1-leaf-suffix-compare": ("C04", "data/trie/leafNode.go",
   "	if bytes.Equal(key, ln.Key) {\n		return true, nil, nil\n	}\n\n	return false, nil, nil",
   "	if bytes.HasSuffix(key, ln.Key) {\n		return true, nil, nil\n	}\n\n	return false, nil, nil"),
 "C04-M2-branch-ignores-key0": ("C04", "data/trie/branchNode.go",
   "	wantHash := bn.EncodedChildren[key[0]]\n	nextKey := key[1:]",
   "	wantHash := bn.EncodedChildren[key[0]]\n	for i := range bn.EncodedChildren {\n		if len(bn.EncodedChildren[i]) != 0 {\n			wantHash = bn.EncodedChildren[i]\n			break\n		}\n	}\n	nextKey := key[1:]"),
 "C04-M3-no-hash-comparison": ("C04", "data/trie/patriciaMerkleTrie.go",
   "		if !bytes.Equal(wantHash, hash) {\n			return false, nil\n		}\n\n		n, err := decodeNode(encodedNode, tr.marshalizer, tr.hasher)",
   "		if len(wantHash) != len(hash) {\n			return false, nil\n		}\n\n		n, err := decodeNode(encodedNode, tr.marshalizer, tr.hasher)"),
 "C04-M4-ext-length-check-only": ("C04", "data/trie/extensionNode.go",
   "	keysDontMatch := !bytes.Equal(en.Key, key[:len(en.Key)])\n	if keysDontMatch {\n		return false, nil, nil\n	}\n\n	nextKey := key[len(en.Key):]",
   "	nextKey := key[len(en.Key):]"),
 "C04-M5-ext-compare-off-by-one": ("C04", "data/trie/extensionNode.go",
   "	keysDontMatch := !bytes.Equal(en.Key, key[:len(en.Key)])\n	if keysDontMatch {\n		return false, nil, nil\n	}\n\n	nextKey := key[len(en.Key):]",
   "	keysDontMatch := !bytes.Equal(en.Key[:len(en.Key)-1], key[:len(en.Key)-1])\n	if keysDontMatch {\n		return false, nil, nil\n	}\n\n	nextKey := key[len(en.Key):]"),
 "C04-M6-ext-compare-first-nibble-only": ("C04", "data/trie/extensionNode.go",
   "	keysDontMatch := !bytes.Equal(en.Key, key[:len(en.Key)])\n	if keysDontMatch {\n		return false, nil, nil\n	}\n\n	nextKey := key[len(en.Key):]",
   "	keysDontMatch := en.Key[0] != key[0]\n	if keysDontMatch {\n		return false, nil, nil\n	}\n\n	nextKey := key[len(en.Key):]"),
 "C04-M7-getproof-drops-collapsed-leaf": ("C04", "data/trie/patriciaMerkleTrie.go",
   "		if currentNode == nil {\n			return proof, nil\n		}\n	}\n}",
   "		if currentNode == nil {\n			if len(proof) > int(tr.maxTrieLevelInMemory)+2 {\n				return proof[:len(proof)-1], nil\n			}\n			return proof, nil\n		}\n	}\n}"),
 "C04-M8-ext-too-short-check-missing": ("C04", "data/trie/extensionNode.go",
   "	keyTooShort := len(key) < len(en.Key)\n	if keyTooShort {\n		return false, nil, nil\n	}\n	keysDontMatch := !bytes.Equal(en.Key, key[:len(en.Key)])",
   "	keysDontMatch := len(key) >= len(en.Key) && !bytes.Equal(en.Key, key[:len(en.Key)])"),
 # ---------------- C05
 "C05-S1-branch-loadchildren-skips-pos16": ("C05", "data/trie/branchNode.go",
   "	missingChildren := make([][]byte, 0)\n	for i := range bn.EncodedChildren {\n		if len(bn.EncodedChildren[i]) == 0 {",
   "	missingChildren := make([][]byte, 0)\n	for i := range bn.EncodedChildren[:nrOfChildren-1] {\n		if len(bn.EncodedChildren[i]) == 0 {"),
 "C05-S2-doublelist-drops-node-at-hardcap": ("C05", "data/trie/doubleListSync.go",
   "		if len(missingChildrenHashes) > 0 && len(d.missingHashes) > d.maxHardCapForMissingNodes {\n			break\n		}\n\n		delete(d.existingNodes, hash)",
   "		delete(d.existingNodes, hash)\n\n		if len(missingChildrenHashes) > 0 && len(d.missingHashes) > d.maxHardCapForMissingNodes {\n			break\n		}"),
 "C05-S3-doublelist-synced-ignores-existing": ("C05", "data/trie/doubleListSync.go",
   "	return len(d.missingHashes)+len(d.existingNodes) == 0, nil",
   "	return len(d.missingHashes) == 0, nil"),
 "C05-S4-extension-loadchildren-hides-missing": ("C05", "data/trie/extensionNode.go",
   "		return [][]byte{en.EncodedChild}, nil, nil",
   "		return nil, nil, nil"),
 "C05-S5-doublelist-skips-subtree-of-node-in-db": ("C05", "data/trie/doubleListSync.go",
   "	for hash := range d.missingHashes {\n		n, err := d.getNode([]byte(hash))",
   "	for hash := range d.missingHashes {\n		if _, errDb := d.db.Get([]byte(hash)); errDb == nil {\n			delete(d.missingHashes, hash)\n			continue\n		}\n		n, err := d.getNode([]byte(hash))"),
 "C05-S6-oldsyncer-does-not-store-leaves": ("C05", "data/trie/sync.go",
   "			_, err = encodeNodeAndCommitToDB(currentNode, ts.db)\n			if err != nil {\n				return false, err\n			}\n			ts.resetWatchdog()",
   "			if len(nextNodes) > 0 {\n				_, err = encodeNodeAndCommitToDB(currentNode, ts.db)\n				if err != nil {\n					return false, err\n				}\n			}\n			ts.resetWatchdog()"),
 "C05-S7-intercepted-hash-of-received-bytes": ("C05", "data/trie/interceptedNode.go",
   "		hash:           n.getHash(),",
   "		hash:           hasher.Compute(string(buff)),"),
 "C05-S8-branch-length-check-lower-bound-only": ("C05", "data/trie/node.go",
   "	if isBranchNode && len(bn.EncodedChildren) != nrOfChildren {",
   "	if isBranchNode && len(bn.EncodedChildren) < nrOfChildren {"),
}

def sh(cmd, **kw):
    return subprocess.run(cmd, shell=True, stdout=subprocess.PIPE, stderr=subprocess.STDOUT, text=True, **kw).stdout

def reset():
    sh("cd %s && git checkout -- . && git apply %s" % (WT, BASE))

def main():
    names = sys.argv[1:] or list(M)
    for name in names:
        pid, f, old, new = M[name]
        reset()
        p = os.path.join(WT, f)
        s = open(p).read()
        if s.count(old) != 1:
            print("%s: PATTERN NOT FOUND/AMBIGUOUS (%d)" % (name, s.count(old)), flush=True)
            continue
        open(p, "w").write(s.replace(old, new))
        b = sh("cd %s && GOFLAGS=-mod=mod GOPROXY=off GOSUMDB=off GOTOOLCHAIN=local go build ./data/trie/ 2>&1 | tail -5" % WT)
        if b.strip():
            print("%s: DOES NOT COMPILE: %s" % (name, b), flush=True)
            continue
        if os.environ.get("REPOTESTS"):
            r = sh("cd %s && GOFLAGS=-mod=mod GOPROXY=off GOSUMDB=off GOTOOLCHAIN=local go test -count=1 ./data/trie/ 2>&1 | tail -3" % WT)
            print("%s: repo tests: %s" % (name, r.strip().replace("\n", " | ")[:300]), flush=True)
            continue
        out = sh("cd /verif && VERIF_REPO=%s ./check %s 2>&1 | tail -4" % (WT, pid))
        last = [l for l in out.strip().splitlines() if l.startswith(("OK", "VIOLATION", "INCONCLUSIVE", "BUILD", "violation detail"))]
        print("%s: %s" % (name, " || ".join(l[:260] for l in last)), flush=True)
    reset()

main()
