#!/usr/bin/env python3
"""Mutants used for the C01/C02/C03 sensitivity runs (results: notes/reports/C01..C03.md).
Usage: python3 C01-C03-trie-mutants.py <name>   -- edits the scratch worktree /tmp/wt-trieA (exact-string replacement, must match once)"""
import sys
W='/tmp/wt-trieA/data/trie/'
M={
 # ---- C01
 'bn-delete-keeps-encoded-child': ('branchNode.go', "\tif newNode == nil {\n\t\tbn.EncodedChildren[childPos] = nil\n\t}\n", ""),
 'leaf-reduce-drops-pos': ('leafNode.go', "\tk := append([]byte{byte(pos)}, ln.Key...)\n\n\tnewLn, err", "\tk := append([]byte{}, ln.Key...)\n\n\tnewLn, err"),
 'hexToKeyBytes-nibbles-swapped': ('node.go', "key[i] = hex[hexSliceIndex+1]<<nibbleSize | hex[hexSliceIndex]", "key[i] = hex[hexSliceIndex]<<nibbleSize | hex[hexSliceIndex+1]"),
 'leaf-enumerate-without-prefix': ('leafNode.go', "\tnodeKey := append(key, ln.Key...)\n", "\tnodeKey := append([]byte{}, ln.Key...)\n"),
 'leaf-same-length-value-ignored': ('leafNode.go', "\tif bytes.Equal(ln.Value, n.Value) {\n\t\treturn nil, [][]byte{}, nil", "\tif len(ln.Value) == len(n.Value) {\n\t\treturn nil, [][]byte{}, nil"),
 'bn-reduce-skips-resolve': ('branchNode.go', "\t\terr = resolveIfCollapsed(bn, byte(pos), db)\n\t\tif err != nil {\n\t\t\treturn false, nil, emptyHashes, err\n\t\t}\n\n\t\terr = resolveIfCollapsed(bn.children[pos], byte(pos), db)", "\t\terr = resolveIfCollapsed(bn.children[pos], byte(pos), db)"),
 'ext-reduce-child-not-resolved': ('branchNode.go', "\t\terr = resolveIfCollapsed(bn.children[pos], byte(pos), db)\n\t\tif err != nil {\n\t\t\treturn false, nil, emptyHashes, err\n\t\t}\n\n", ""),
 'ext-delete-prefix-compare-off-by-one': ('extensionNode.go', "\tkeyMatchLen := prefixLen(key, en.Key)\n\tif keyMatchLen < len(en.Key) {\n\t\treturn false, en, emptyHashes, nil", "\tkeyMatchLen := prefixLen(key, en.Key)\n\tif keyMatchLen < len(en.Key)-1 {\n\t\treturn false, en, emptyHashes, nil"),
 'bn-enumerate-skips-child16': ('branchNode.go', "\tfor i := range bn.children {\n\t\tselect {\n\t\tcase <-chanClose:", "\tfor i := 0; i < nrOfChildren-1; i++ {\n\t\tselect {\n\t\tcase <-chanClose:"),
 # ---- C02
 'bn-hashNode-stale-encoded-children': ('branchNode.go', "\tfor i := range bn.EncodedChildren {\n\t\tif bn.children[i] != nil {\n\t\t\tvar encChild []byte", "\tfor i := range bn.EncodedChildren {\n\t\tif bn.children[i] != nil && len(bn.EncodedChildren[i]) == 0 {\n\t\t\tvar encChild []byte"),
 'ext-delete-no-ext-merge': ('extensionNode.go', "\tcase *extensionNode:\n\t\tn, err = newExtensionNode(concat(en.Key, newNode.Key...), newNode.child, en.marsh, en.hasher)", "\tcase *extensionNode:\n\t\tn, err = newExtensionNode(en.Key, newNode, en.marsh, en.hasher)"),
 'ext-delete-no-leaf-merge': ('extensionNode.go', "\tcase *leafNode:\n\t\tn, err = newLeafNode(concat(en.Key, newNode.Key...), newNode.Value, en.marsh, en.hasher)", "\tcase *leafNode:\n\t\tn, err = newExtensionNode(en.Key, newNode, en.marsh, en.hasher)"),
 'bn-delete-keeps-cached-hash': ('branchNode.go', "\tbn.hash = nil\n\tbn.children[childPos] = newNode\n\tif newNode == nil {", "\tbn.children[childPos] = newNode\n\tif newNode == nil {"),
 'ext-insert-keeps-empty-extension': ('extensionNode.go', "\tif len(followingExtensionNode.Key) < 1 {\n\t\tbn.children[oldChildPos] = en.child\n\t} else {\n\t\tbn.children[oldChildPos] = followingExtensionNode\n\t}", "\tbn.children[oldChildPos] = followingExtensionNode"),
 'bn-insert-keeps-cached-hash': ('branchNode.go', "\tbn.children[childPos] = newNode\n\tbn.dirty = true\n\tbn.hash = nil\n", "\tbn.children[childPos] = newNode\n\tbn.dirty = true\n\tif newNode.isDirty() && newNode.getHash() == nil {\n\t\tbn.hash = nil\n\t}\n"),
 'empty-trie-hash-after-delete-all': ('patriciaMerkleTrie.go', "\t_, newRoot, oldHashes, err := tr.root.delete(hexKey, tr.trieStorage.Database())\n\tif err != nil {\n\t\treturn err\n\t}\n\ttr.root = newRoot", "\t_, newRoot, oldHashes, err := tr.root.delete(hexKey, tr.trieStorage.Database())\n\tif err != nil {\n\t\treturn err\n\t}\n\tif newRoot != nil {\n\t\ttr.root = newRoot\n\t}"),
 'leaf-overwrite-keeps-cached-hash': ('leafNode.go', "\tln.dirty = true\n\tln.hash = nil\n\treturn ln, oldHashes, nil", "\tln.dirty = true\n\treturn ln, oldHashes, nil"),
 'ext-reduce-key-order': ('extensionNode.go', "\tk := append([]byte{byte(pos)}, en.Key...)\n", "\tk := append(append([]byte{}, en.Key...), byte(pos))\n"),
 # ---- C03
 'bn-commit-skips-child16': ('branchNode.go', "\tfor i := range bn.children {\n\t\tif bn.children[i] == nil {\n\t\t\tcontinue\n\t\t}\n\n\t\terr = bn.children[i].commitDirty(", "\tfor i := 0; i < nrOfChildren-1; i++ {\n\t\tif bn.children[i] == nil {\n\t\t\tcontinue\n\t\t}\n\n\t\terr = bn.children[i].commitDirty("),
 'resolve-without-given-hash': ('branchNode.go', "\t\tchild.setGivenHash(bn.EncodedChildren[pos])\n", ""),
 'commit-early-return-when-hash-cached': ('patriciaMerkleTrie.go', "\tif !tr.root.isDirty() {\n\t\treturn nil\n\t}\n\terr := tr.root.setRootHash()", "\tif !tr.root.isDirty() || tr.root.getHash() != nil {\n\t\treturn nil\n\t}\n\terr := tr.root.setRootHash()"),
 'leaf-overwrite-not-dirty': ('leafNode.go', "\tln.Value = n.Value\n\tln.dirty = true\n", "\tln.Value = n.Value\n"),
 'ext-commit-collapses-before-child-commit': ('extensionNode.go', "\tif en.child != nil {\n\t\terr = en.child.commitDirty(level, maxTrieLevelInMemory, originDb, targetDb)", "\tif en.child != nil && uint(level) != maxTrieLevelInMemory {\n\t\terr = en.child.commitDirty(level, maxTrieLevelInMemory, originDb, targetDb)"),
 'ext-insert-same-en-reuses-clean-flag': ('extensionNode.go', "\tnewEn, err := newExtensionNode(en.Key, newNode, en.marsh, en.hasher)\n\tif err != nil {\n\t\treturn nil, [][]byte{}, err\n\t}\n\n\treturn newEn, oldHashes, nil", "\tnewEn, err := newExtensionNode(en.Key, newNode, en.marsh, en.hasher)\n\tif err != nil {\n\t\treturn nil, [][]byte{}, err\n\t}\n\tnewEn.dirty = en.dirty\n\n\treturn newEn, oldHashes, nil"),
 'bn-delete-dirty-not-propagated': ('branchNode.go', "\tbn.dirty = dirty\n\n\treturn true, bn, oldHashes, nil", "\treturn true, bn, oldHashes, nil"),
}
name=sys.argv[1]
f,old,new=M[name]
s=open(W+f).read()
if s.count(old)!=1:
    print("MUTANT %s: pattern matches %d times"%(name,s.count(old))); sys.exit(3)
open(W+f,'w').write(s.replace(old,new))
print("applied",name,"to",f)
