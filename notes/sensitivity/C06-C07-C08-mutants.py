import subprocess, sys, os, re, time
WT='/tmp/wt-stateA2'
def sh(c):
    return subprocess.run(c, shell=True, capture_output=True, text=True)
MUTANTS = {
 # id: (property, file, old, new)
 'C06-M1-code-revert-skips-new-entry': ('C06','data/state/journalEntries.go',
   "	err = jea.revertNewCodeEntry()\n	if err != nil {\n		return nil, err\n	}\n\n	return nil, nil", "	return nil, nil"),
 'C06-M2-revert-loop-bound': ('C06','data/state/accountsDB.go', "i >= snapshot; i--", "i > snapshot; i--"),
 'C06-M3-datatrie-revert-keeps-roothash': ('C06','data/state/journalEntries.go', "	jedtu.account.SetRootHash(rootHash)\n", "	_ = rootHash\n"),
 'C06-M4-oldvalues-skip-absent-keys': ('C06','data/state/accountsDB.go', "		oldValues[k] = val\n", "		if len(val) != 0 {\n			oldValues[k] = val\n		}\n"),
 'C06-M5-remove-does-not-journal-account': ('C06','data/state/accountsDB.go',
   "	entry, err := NewJournalEntryAccount(acnt)\n	if err != nil {\n		return err\n	}\n	adb.journalize(entry)\n\n	err = adb.removeCodeAndDataTrie(acnt)",
   "	_, err = NewJournalEntryAccount(acnt)\n	if err != nil {\n		return err\n	}\n\n	err = adb.removeCodeAndDataTrie(acnt)"),
 'C06-M6-datatrie-revert-skips-added-keys': ('C06','data/state/journalEntries.go', "	for key := range jedtu.trieUpdates {\n", "	for key := range jedtu.trieUpdates {\n		if len(jedtu.trieUpdates[key]) == 0 {\n			continue\n		}\n"),
 'C06-M7-creation-revert-noop-when-code': ('C06','data/state/accountsDB.go', "	if check.IfNil(oldAccount) {\n		entry, err = NewJournalEntryAccountCreation(account.AddressBytes(), adb.mainTrie)", "	if check.IfNil(oldAccount) {\n		entry, err = NewJournalEntryAccountCreation(append([]byte{}, account.AddressBytes()[:31]...), adb.mainTrie)"),
 'C07-M1-old-entry-lt-1': ('C07','data/state/accountsDB.go', "	if oldCodeEntry.NumReferences <= 1 {", "	if oldCodeEntry.NumReferences < 1 {"),
 'C07-M2-removecode-not-journalled': ('C07','data/state/accountsDB.go', "	adb.journalize(codeChangeEntry)\n", "	_ = codeChangeEntry\n"),
 'C07-M3-revert-new-entry-lt-1': ('C07','data/state/journalEntries.go', "	if newCodeEntry.NumReferences <= 1 {", "	if newCodeEntry.NumReferences < 1 {"),
 'C07-M4-savecode-ignores-old-hash': ('C07','data/state/accountsDB.go', "	if !check.IfNil(oldAcc) {\n		oldCodeHash = oldAcc.GetCodeHash()\n	}", "	if !check.IfNil(oldAcc) && len(oldAcc.GetCodeMetadata()) > 0 {\n		oldCodeHash = oldAcc.GetCodeHash()\n	}"),
 'C07-M5-same-code-shortcut-counts-again': ('C07','data/state/accountsDB.go', "	if bytes.Equal(oldCodeHash, newCodeHash) {\n		newAcc.SetCodeHash(newCodeHash)\n		return nil\n	}", "	if bytes.Equal(oldCodeHash, newCodeHash) && len(newCodeHash) == 0 {\n		newAcc.SetCodeHash(newCodeHash)\n		return nil\n	}"),
 'C08-M1-trim-off-by-one': ('C08','data/state/trackableDataTrie.go', "	dataLength := len(value) - tailLength\n", "	dataLength := len(value) - tailLength - 1\n"),
 'C08-M2-retrieve-ignores-dirty': ('C08','data/state/trackableDataTrie.go', "	if value, found := tdaw.dirtyData[string(key)]; found {", "	if value, found := tdaw.dirtyData[string(key)]; found && tdaw.tr == nil {"),
 'C08-M3-delete-not-recorded': ('C08','data/state/trackableDataTrie.go', "		tdaw.dirtyData[string(key)] = make([]byte, 0)\n		return nil", "		return nil"),
 'C08-M4-value-copied-key-still-aliased': ('C08','data/state/trackableDataTrie.go',
   "	valueWithSuffix := make([]byte, 0, len(value)+len(key)+len(tdaw.identifier))\n	valueWithSuffix = append(valueWithSuffix, value...)\n	valueWithSuffix = append(valueWithSuffix, key...)\n	valueWithSuffix = append(valueWithSuffix, tdaw.identifier...)\n",
   "	suffix := append(key, tdaw.identifier...)\n	valueWithSuffix := make([]byte, 0, len(value)+len(suffix))\n	valueWithSuffix = append(valueWithSuffix, value...)\n	valueWithSuffix = append(valueWithSuffix, suffix...)\n"),
 'C08-M5-dirty-key-trimmed-at-32': ('C08','data/state/trackableDataTrie.go', "	tdaw.dirtyData[string(key)] = valueWithSuffix\n", "	if len(key) > 32 {\n		key = key[:32]\n	}\n	tdaw.dirtyData[string(key)] = valueWithSuffix\n"),
}
sel = sys.argv[1:] or list(MUTANTS)
for mid in sel:
    prop, f, old, new = MUTANTS[mid]
    p = os.path.join(WT, f)
    src = open(p).read()
    if src.count(old) != 1:
        print(mid, 'PATTERN-COUNT', src.count(old)); continue
    open(p,'w').write(src.replace(old,new))
    t=time.time()
    r = sh('cd /tmp/sa-prof && VERIF_REPO=%s /verif/check %s 2>&1 | tail -3' % (WT, prop))
    open(p,'w').write(src)
    out = r.stdout.strip().splitlines()
    verdict = [l for l in out if l.startswith(('OK','VIOLATION','INCONCLUSIVE'))]
    detail = [l for l in out if l.startswith('violation detail')]
    print(mid, '=>', (verdict or out[-1:])[0][:100], '| %.0fs |' % (time.time()-t), (detail[0][:260] if detail else ''))
    sys.stdout.flush()
