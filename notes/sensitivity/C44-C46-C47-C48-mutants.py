#!/usr/bin/env python3
"""apply one mutant at a time to /tmp/wt-misc (on top of the fixes), run the quick tier, restore."""
import subprocess, sys, os, re, json, shutil

WT = "/tmp/wt-misc"
LS = "p2p/libp2p/networksharding/listsSharder.go"
HR = "core/dblookupext/historyRepository.go"
AP = "genesis/parsing/accountsParser.go"
B32 = "core/pubkeyConverter/bech32PubkeyConverter.go"
HEX = "core/pubkeyConverter/hexPubkeyConverter.go"

M = [
 # ---------------- C44
 ("C44", "m1-spare-off-by-one", LS, "\t\treturn existing, maximum - existing\n", "\t\treturn existing, maximum - existing + 1\n"),
 ("C44", "m2-evict-keeps-one-more", LS, "\tevictedPD := distances[numKeep:]\n", "\tif numKeep+1 >= len(distances) {\n\t\treturn make([]peer.ID, 0)\n\t}\n\tevictedPD := distances[numKeep+1:]\n"),
 ("C44", "m3-seeders-use-spare", LS, "computeUsedAndSpare(existingNumSeeders, ls.maxSeeders)", "computeUsedAndSpare(existingNumSeeders, ls.maxSeeders+remaining)"),
 ("C44", "m4-full-history-not-evicted", LS, "\te = evict(peerDistances[fullHistoryObservers], numFullHistoryObservers)\n\tevictionProposed = append(evictionProposed, e...)\n", "\t_ = numFullHistoryObservers\n"),
 ("C44", "m5-preferred-after-unknown", LS,
  "\t\tpid := core.PeerID(p)\n\t\tif ls.preferredPeersHolder.Contains(pid) {\n\t\t\tcontinue\n\t\t}\n\n",
  "\t\tpid := core.PeerID(p)\n"),  # second edit below
 ("C44", "m6-unknown-appended-twice", LS, "\te = evict(peerDistances[unknown], numUnknown)\n\tevictionProposed = append(evictionProposed, e...)\n", "\te = evict(peerDistances[unknown], numUnknown)\n\tevictionProposed = append(evictionProposed, e...)\n\tevictionProposed = append(evictionProposed, e...)\n"),
 ("C44", "m7-cross-observers-cascade-reset", LS, "computeUsedAndSpare(existingNumCrossShardObservers, ls.maxCrossShardObservers+remaining)", "computeUsedAndSpare(existingNumCrossShardObservers, ls.maxCrossShardObservers+ls.maxIntraShardObservers)"),
 # ---------------- C46
 ("C46", "m1-fix-without-reindex", HR, "\t\thr.indexTransactionsOfMiniblock(miniblock, miniblockHash)\n\t\treturn nil\n", "\t\treturn nil\n"),
 ("C46", "m2-pending-dropped-when-metadata-missing", HR, "\t\t\t// Maybe not yet committed / saved in storer\n\t\t\tcontinue\n", "\t\t\tpendingMap.Remove(key)\n\t\t\tcontinue\n"),
 ("C46", "m3-at-both-ignores-to-meta", HR, "\tisNotarizedAtBoth := isIntra || isToMeta\n", "\tisNotarizedAtBoth := isIntra\n\t_ = isToMeta\n"),
 ("C46", "m4-destination-patch-writes-source", HR, "\t\tmetadata.NotarizedAtDestinationInMetaNonce = notification.metaNonce\n\t\tmetadata.NotarizedAtDestinationInMetaHash = notification.metaHash\n\t})\n\n\thr.consumePendingNotificationsNoLock(hr.pendingNotarizedAtBothNotifications",
  "\t\tmetadata.NotarizedAtSourceInMetaNonce = notification.metaNonce\n\t\tmetadata.NotarizedAtDestinationInMetaHash = notification.metaHash\n\t})\n\n\thr.consumePendingNotificationsNoLock(hr.pendingNotarizedAtBothNotifications"),
 ("C46", "m5-no-dedup-at-all", HR, "\tlastBlockHeaderHash, ok := value.([]byte)\n\treturn ok && bytes.Equal(lastBlockHeaderHash, blockHeaderHash)\n", "\tlastBlockHeaderHash, ok := value.([]byte)\n\treturn ok && bytes.Equal(lastBlockHeaderHash, blockHeaderHash) && false\n"),
 ("C46", "m6-dedup-key-epoch-header-mb-no-aba", HR, "\treturn ok && bytes.Equal(lastBlockHeaderHash, blockHeaderHash)\n", "\treturn ok && (bytes.Equal(lastBlockHeaderHash, blockHeaderHash) || hr.seenBefore(miniblockHash, blockHeaderHash))\n"),
 ("C46", "m7-epoch-index-not-refreshed-in-same-call", HR, "\terr = hr.epochByHashIndex.saveEpochByHash(miniblockHash, epoch)\n", "\t_, errGet := hr.epochByHashIndex.getEpochByHash(miniblockHash)\n\tif errGet != nil {\n\t\terr = hr.epochByHashIndex.saveEpochByHash(miniblockHash, epoch)\n\t}\n"),
 ("C46", "m8-reinsert-without-lock", HR, "\thr.consumePendingNotificationsMutex.Lock()\n\terr = hr.putMiniblockMetadata(miniblockHash, miniblockMetadata)\n\thr.consumePendingNotificationsMutex.Unlock()\n", "\terr = hr.putMiniblockMetadata(miniblockHash, miniblockMetadata)\n"),
 # ---------------- C47
 ("C47", "m1-supply-check-ge", AP, "initialAccount.Supply.Cmp(sum) == 0", "initialAccount.Supply.Cmp(sum) >= 0"),
 ("C47", "m2-sc-check-on-delegation-address", AP, "core.IsSmartContractAddress(initialAccount.AddressBytes())", "core.IsSmartContractAddress(initialAccount.Delegation.AddressBytes())"),
 ("C47", "m3-total-check-lt", AP, "if totalSupply.Cmp(ap.entireSupply) != 0 {", "if totalSupply.Cmp(ap.entireSupply) < 0 {"),
 ("C47", "m4-duplicates-skip-neighbour", AP, "for idx2 := idx1 + 1; idx2 < len(ap.initialAccounts); idx2++ {", "for idx2 := idx1 + 2; idx2 < len(ap.initialAccounts); idx2++ {"),
 ("C47", "m5-duplicates-case-folded-text", AP, "if bytes.Equal(ia1.AddressBytes(), ia2.AddressBytes()) {", "if ia1.Address == ia2.Address || (len(ia1.Address) > 0 && ia1.Address[0] == 'e' && bytes.Equal(ia1.AddressBytes(), ia2.AddressBytes())) {"),
 # ---------------- C48
 ("C48", "m1-bech32-no-length-check", B32, "\tif len(decodedBytes) != bpc.len {", "\tif len(decodedBytes) < 0 {"),
 ("C48", "m2-bech32-prefix-hasprefix", B32, "\tif decodedPrefix != bech32Config.prefix {", "\tif len(decodedPrefix) < 3 || decodedPrefix[:3] != bech32Config.prefix {"),
 ("C48", "m3-bech32-decode-pad-flipped", B32, "bech32Config.toBits, bech32Config.fromBits, !bech32Config.pad)", "bech32Config.toBits, bech32Config.fromBits, bech32Config.pad)"),
 ("C48", "m4-hex-accepts-shorter", HEX, "\tif len(buff) != ppc.len {", "\tif len(buff) > ppc.len {"),
 ("C48", "m5-bech32-encode-no-length-check", B32, "\tif len(pkBytes) != bpc.len {", "\tif len(pkBytes) > bpc.len {"),
 ("C48", "m6-bech32-length-check-le", B32, "\tif len(decodedBytes) != bpc.len {", "\tif len(decodedBytes) > bpc.len {"),
]

EXTRA = {
 # second edit of C44 m5: put the preferred check after the unknown-peer branch
 "m5-preferred-after-unknown": (LS, "\t\tisCrossShard := peerInfo.ShardID != selfPeerInfo.ShardID\n", "\t\tif ls.preferredPeersHolder.Contains(pid) {\n\t\t\tcontinue\n\t\t}\n\n\t\tisCrossShard := peerInfo.ShardID != selfPeerInfo.ShardID\n"),
 # helper for C46 m6: a set of (header, miniblock) pairs ever inserted = dedup keyed by (header hash, miniblock hash)
 "m6-dedup-key-epoch-header-mb-no-aba": (HR, "func (hr *historyRepository) markMiniblockMetadataAsRecentlyInserted(miniblockHash []byte, blockHeaderHash []byte) {\n",
   "var verifSeen = map[string]bool{}\n\nfunc (hr *historyRepository) seenBefore(miniblockHash []byte, blockHeaderHash []byte) bool {\n\treturn verifSeen[fmt.Sprintf(\"%p_%x_%x\", hr, blockHeaderHash, miniblockHash)]\n}\n\nfunc (hr *historyRepository) markMiniblockMetadataAsRecentlyInserted(miniblockHash []byte, blockHeaderHash []byte) {\n\tverifSeen[fmt.Sprintf(\"%p_%x_%x\", hr, blockHeaderHash, miniblockHash)] = true\n"),
}

def run(prop):
    env = dict(os.environ, VERIF_REPO=WT)
    p = subprocess.run(["./check", prop], cwd="/verif", env=env, stdout=subprocess.PIPE, stderr=subprocess.STDOUT, text=True)
    out = p.stdout
    last = [l for l in out.strip().splitlines() if l.startswith(("OK", "VIOLATION", "INCONCLUSIVE"))]
    keys = sorted(set(re.findall(r"key=(C\d\d:[\w:.-]+)", out)))
    return p.returncode, (last[-1] if last else out[-300:]), keys

def main():
    only = sys.argv[1:]
    for prop, name, path, old, new in M:
        if only and prop not in only and name not in only:
            continue
        edits = [(path, old, new)]
        if name in EXTRA:
            edits.append(EXTRA[name])
        saved = {}
        ok = True
        for (pth, o, n) in edits:
            full = os.path.join(WT, pth)
            if full not in saved:
                saved[full] = open(full).read()
            cur = open(full).read()
            if cur.count(o) != 1:
                print("MUTANT %s %s: pattern found %d times in %s" % (prop, name, cur.count(o), pth), flush=True)
                ok = False
                break
            open(full, "w").write(cur.replace(o, n))
        if ok:
            rc, last, keys = run(prop)
            print("MUTANT %s %-45s rc=%d %s keys=%s" % (prop, name, rc, last.split(" replay=")[0], keys), flush=True)
        for full, txt in saved.items():
            open(full, "w").write(txt)

main()
