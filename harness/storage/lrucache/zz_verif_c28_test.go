package lrucache_test

import (
	"fmt"
	"strings"
	"testing"

	"github.com/ElrondNetwork/elrond-go/storage/lrucache"
	kit "github.com/ElrondNetwork/elrond-go/verifkit"
	"pgregory.net/rapid"
)

// C28 (wrapper): lrucache.NewCacheWithSizeInBytes (the storage.Cacher used by storage units) against the
// same reference LRU as the in-package check of storage/lrucache/capacity.

type verifC28WEntry struct {
	key  string
	val  int
	size int64
}

type verifC28WModel struct {
	size int
	cap  int64
	ents []verifC28WEntry // oldest -> newest
	log  []string
}

func (m *verifC28WModel) idx(key string) int {
	for i, e := range m.ents {
		if e.key == key {
			return i
		}
	}
	return -1
}

func (m *verifC28WModel) bytes() int64 {
	var b int64
	for _, e := range m.ents {
		b += e.size
	}
	return b
}

func (m *verifC28WModel) touch(i int) {
	e := m.ents[i]
	m.ents = append(append(m.ents[:i:i], m.ents[i+1:]...), e)
}

func (m *verifC28WModel) evict() int {
	n := 0
	for len(m.ents) > 1 && (len(m.ents) > m.size || m.bytes() > m.cap) {
		m.ents = m.ents[1:]
		n++
	}
	return n
}

func (m *verifC28WModel) describe() string {
	return fmt.Sprintf("NewCacheWithSizeInBytes(size=%d, sizeInBytes=%d) program: %s", m.size, m.cap, strings.Join(m.log, "; "))
}

func (m *verifC28WModel) order() string {
	parts := make([]string, len(m.ents))
	for i, e := range m.ents {
		parts[i] = fmt.Sprintf("%s:%d", e.key, e.size)
	}
	return "[" + strings.Join(parts, " ") + "]"
}

func verifC28WProgram(rt *rapid.T, c *kit.Case) {
	m := &verifC28WModel{
		size: rapid.IntRange(1, 6).Draw(rt, "size"),
		cap:  int64(rapid.IntRange(1, 100).Draw(rt, "sizeInBytes")),
	}
	cache, err := lrucache.NewCacheWithSizeInBytes(m.size, m.cap)
	if err != nil {
		rt.Fatalf("fixture: %v", err)
	}
	allKeys := []string{"a", "b", "c", "d", "e", "f", "g", "h"}
	keyGen := rapid.SampledFrom(allKeys[:rapid.SampledFrom([]int{2, 2, 3, 3, 3, 4, 4, 5}).Draw(rt, "numKeys")])
	sizeGen := rapid.OneOf(
		rapid.IntRange(0, 120),
		rapid.IntRange(0, 120),
		rapid.IntRange(0, 8),
		rapid.IntRange(int(m.cap)-2, int(m.cap)+2),
		rapid.IntRange(int(m.cap)/2-1, int(m.cap)/2+1),
		rapid.Just(-1),
	)
	val := 0
	nonTrivial := false
	logf := func(format string, args ...interface{}) {
		if len(m.log) < 300 {
			m.log = append(m.log, fmt.Sprintf(format, args...))
		}
	}

	put := func(t *rapid.T) {
		k, sz := keyGen.Draw(t, "key"), sizeGen.Draw(t, "size")
		val++
		var got bool
		c.NoPanic("C28:wrapper-panic", func() { got = cache.Put([]byte(k), val, sz) })
		logf("Put(%s,%d)=%v", k, sz, got)
		if sz < 0 {
			c.Class("negative-size")
			if got {
				c.Violation("C28:wrapper-evicted-flag", "Put with a negative size reports an eviction; %s", m.describe())
			}
			return
		}
		if i := m.idx(k); i >= 0 {
			old := m.ents[i].size
			m.ents[i].val, m.ents[i].size = val, int64(sz)
			m.touch(i)
			n := m.evict()
			if old != int64(sz) {
				c.Class("update-with-new-size")
				if n > 0 {
					nonTrivial = true
					c.Class("update-with-new-size-evicts")
				}
			}
			return // the flag of an update is not compared (see report)
		}
		m.ents = append(m.ents, verifC28WEntry{k, val, int64(sz)})
		n := m.evict()
		if got != (n > 0) {
			c.Violation("C28:wrapper-evicted-flag", "Put of a new key reports evicted=%v, reference evicted %d; %s", got, n, m.describe())
		}
	}
	rt.Repeat(map[string]func(*rapid.T){
		"Put":  put,
		"Put2": put,
		"Put3": put,
		"HasOrAdd": func(t *rapid.T) {
			k, sz := keyGen.Draw(t, "key"), sizeGen.Draw(t, "size")
			val++
			var has, added bool
			c.NoPanic("C28:wrapper-panic", func() { has, added = cache.HasOrAdd([]byte(k), val, sz) })
			logf("HasOrAdd(%s,%d)=%v,%v", k, sz, has, added)
			if sz < 0 {
				c.Class("negative-size")
				return // nothing is added; the returned flags for this rejected input are not compared
			}
			present := m.idx(k) >= 0
			if has != present || added != !present {
				c.Violation("C28:wrapper-has-or-add", "HasOrAdd(%s)=%v,%v, reference present=%v; %s", k, has, added, present, m.describe())
			}
			if !present {
				m.ents = append(m.ents, verifC28WEntry{k, val, int64(sz)})
				m.evict()
			}
		},
		"Get": func(t *rapid.T) {
			k := keyGen.Draw(t, "key")
			var v interface{}
			var ok bool
			c.NoPanic("C28:wrapper-panic", func() { v, ok = cache.Get([]byte(k)) })
			logf("Get(%s)", k)
			i := m.idx(k)
			if ok != (i >= 0) || (ok && v != interface{}(m.ents[i].val)) {
				c.Violation("C28:wrapper-get", "Get(%s)=%v,%v, reference present=%v; %s", k, v, ok, i >= 0, m.describe())
			}
			if i >= 0 {
				m.touch(i)
			}
		},
		"Peek": func(t *rapid.T) {
			k := keyGen.Draw(t, "key")
			var v interface{}
			var ok bool
			c.NoPanic("C28:wrapper-panic", func() { v, ok = cache.Peek([]byte(k)) })
			logf("Peek(%s)", k)
			i := m.idx(k)
			if ok != (i >= 0) || (ok && v != interface{}(m.ents[i].val)) {
				c.Violation("C28:wrapper-peek", "Peek(%s)=%v,%v, reference present=%v; %s", k, v, ok, i >= 0, m.describe())
			}
		},
		"Has": func(t *rapid.T) {
			k := keyGen.Draw(t, "key")
			var ok bool
			c.NoPanic("C28:wrapper-panic", func() { ok = cache.Has([]byte(k)) })
			logf("Has(%s)", k)
			if ok != (m.idx(k) >= 0) {
				c.Violation("C28:wrapper-has", "Has(%s)=%v; %s", k, ok, m.describe())
			}
		},
		"Remove": func(t *rapid.T) {
			k := keyGen.Draw(t, "key")
			c.NoPanic("C28:wrapper-panic", func() { cache.Remove([]byte(k)) })
			logf("Remove(%s)", k)
			if i := m.idx(k); i >= 0 {
				m.ents = append(m.ents[:i:i], m.ents[i+1:]...)
			}
		},
		"Clear": func(t *rapid.T) {
			if rapid.IntRange(0, 4).Draw(t, "reallyClear") != 0 {
				t.Skip()
			}
			c.NoPanic("C28:wrapper-panic", func() { cache.Clear() })
			logf("Clear")
			m.ents = nil
		},
		"": func(t *rapid.T) {
			keys := cache.Keys()
			ok := len(keys) == len(m.ents)
			if ok {
				for i, k := range keys {
					if string(k) != m.ents[i].key {
						ok = false
						break
					}
				}
			}
			if !ok {
				ks := make([]string, len(keys))
				for i, k := range keys {
					ks[i] = string(k)
				}
				c.Violation("C28:wrapper-keys-differ", "Keys() (oldest->newest) = %v, reference LRU holds %s; %s", ks, m.order(), m.describe())
			}
			if cache.Len() != len(m.ents) {
				c.Violation("C28:wrapper-len", "Len()=%d, reference %d; %s", cache.Len(), len(m.ents), m.describe())
			}
			if cache.SizeInBytesContained() != uint64(m.bytes()) {
				c.Violation("C28:wrapper-size-in-bytes", "SizeInBytesContained()=%d, sum of sizes present %d; %s", cache.SizeInBytesContained(), m.bytes(), m.describe())
			}
			if cache.MaxSize() != m.size {
				c.Violation("C28:wrapper-maxsize", "MaxSize()=%d, configured %d", cache.MaxSize(), m.size)
			}
		},
	})
	if nonTrivial {
		c.NonTrivial(m.describe())
		c.Sample("%s", m.describe())
	}
}

func TestVerifC28_Wrapper(t *testing.T) {
	kit.Run(t, "C28", kit.Budget{Quick: 4000, Thorough: 40000, Steps: 40},
		"lrucache.NewCacheWithSizeInBytes(size 1..6, sizeInBytes 1..100); programs over 8 keys of Put/HasOrAdd (sizes -1, 0..120, around the capacity), Get, Peek, Has, Remove, Clear; after every step Keys() order, Len, SizeInBytesContained compared with a reference LRU; non-trivial = an update of an existing key with a different size evicts",
		verifC28WProgram)
}
