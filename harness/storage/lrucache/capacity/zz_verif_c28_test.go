package capacity

import (
	"fmt"
	"strings"
	"testing"

	kit "github.com/ElrondNetwork/elrond-go/verifkit"
	"pgregory.net/rapid"
)

// C28: Size-bounded LRU cache matches a reference LRU.
//
// Reference: a slice ordered oldest -> newest. After each mutation entries are dropped from the oldest end
// while more than one entry is left and (entries > item limit or bytes > byte limit). A negative size is a no-op.

type verifC28Entry struct {
	key  string
	val  int
	size int64
}

type verifC28Model struct {
	size int
	cap  int64
	ents []verifC28Entry
	log  []string
}

func (m *verifC28Model) idx(key string) int {
	for i, e := range m.ents {
		if e.key == key {
			return i
		}
	}
	return -1
}

func (m *verifC28Model) bytes() int64 {
	var b int64
	for _, e := range m.ents {
		b += e.size
	}
	return b
}

func (m *verifC28Model) touch(i int) {
	e := m.ents[i]
	m.ents = append(append(m.ents[:i:i], m.ents[i+1:]...), e)
}

func (m *verifC28Model) evict() []verifC28Entry {
	var out []verifC28Entry
	for len(m.ents) > 1 && (len(m.ents) > m.size || m.bytes() > m.cap) {
		out = append(out, m.ents[0])
		m.ents = m.ents[1:]
	}
	return out
}

// add returns (wasPresent, evicted entries)
func (m *verifC28Model) add(key string, val int, size int64) (bool, []verifC28Entry) {
	if size < 0 {
		return m.idx(key) >= 0, nil
	}
	i := m.idx(key)
	if i >= 0 {
		m.ents[i].val = val
		m.ents[i].size = size
		m.touch(i)
		return true, m.evict()
	}
	m.ents = append(m.ents, verifC28Entry{key, val, size})
	return false, m.evict()
}

func (m *verifC28Model) logf(format string, args ...interface{}) {
	if len(m.log) < 300 {
		m.log = append(m.log, fmt.Sprintf(format, args...))
	}
}

func (m *verifC28Model) describe() string {
	return fmt.Sprintf("NewCapacityLRU(size=%d, byteCapacity=%d) program: %s", m.size, m.cap, strings.Join(m.log, "; "))
}

func (m *verifC28Model) order() string {
	parts := make([]string, len(m.ents))
	for i, e := range m.ents {
		parts[i] = fmt.Sprintf("%s:%d", e.key, e.size)
	}
	return "[" + strings.Join(parts, " ") + "]"
}

func verifC28Check(c *kit.Case, lru *capacityLRU, m *verifC28Model) {
	keys := lru.Keys()
	ok := len(keys) == len(m.ents)
	if ok {
		for i, k := range keys {
			if s, isStr := k.(string); !isStr || s != m.ents[i].key {
				ok = false
				break
			}
		}
	}
	if !ok {
		c.Violation("C28:keys-differ", "Keys() (oldest->newest) = %v, reference LRU holds %s; %s", keys, m.order(), m.describe())
	}
	if lru.Len() != len(m.ents) {
		c.Violation("C28:len-differs", "Len()=%d, reference %d; %s", lru.Len(), len(m.ents), m.describe())
	}
	if lru.SizeInBytesContained() != uint64(m.bytes()) {
		c.Violation("C28:size-in-bytes", "SizeInBytesContained()=%d, sum of sizes of the items present %d (%s); %s", lru.SizeInBytesContained(), m.bytes(), m.order(), m.describe())
	}
}

var verifC28Keys = []string{"a", "b", "c", "d", "e", "f", "g", "h"}

func verifC28SizeGen(capacity int64) *rapid.Generator[int64] {
	return rapid.OneOf(
		rapid.Int64Range(0, 120),
		rapid.Int64Range(0, 120),
		rapid.Int64Range(0, 8),
		rapid.Int64Range(capacity-2, capacity+2),
		rapid.Int64Range(capacity/2-1, capacity/2+1),
		rapid.Just(int64(-1)),
	)
}

func verifC28Program(rt *rapid.T, c *kit.Case) {
	m := &verifC28Model{
		size: rapid.IntRange(1, 6).Draw(rt, "size"),
		cap:  int64(rapid.IntRange(1, 100).Draw(rt, "byteCapacity")),
	}
	lru, err := NewCapacityLRU(m.size, m.cap)
	if err != nil {
		rt.Fatalf("fixture: %v", err)
	}
	keyGen := rapid.SampledFrom(verifC28Keys[:rapid.IntRange(2, len(verifC28Keys)).Draw(rt, "numKeys")])
	sizeGen := verifC28SizeGen(m.cap)
	val := 0
	nonTrivial := false

	noteUpdate := func(present bool, oldSize, size int64, evicted []verifC28Entry) {
		if present && size >= 0 && size != oldSize {
			c.Class("update-with-new-size")
			if len(evicted) > 0 {
				nonTrivial = true
				c.Class("update-with-new-size-evicts")
			}
		}
		if !present && len(evicted) > 0 {
			c.Class("insert-evicts")
		}
	}
	oldSizeOf := func(k string) int64 {
		if i := m.idx(k); i >= 0 {
			return m.ents[i].size
		}
		return 0
	}

	addSized := func(t *rapid.T) {
		k, sz := keyGen.Draw(t, "key"), sizeGen.Draw(t, "size")
		val++
		old := oldSizeOf(k)
		var got bool
		c.NoPanic("C28:panic", func() { got = lru.AddSized(k, val, sz) })
		present, evicted := m.add(k, val, sz)
		m.logf("AddSized(%s,%d)=%v", k, sz, got)
		noteUpdate(present, old, sz, evicted)
		if !present || sz < 0 {
			// the reported flag is compared for insertions; for updates of an existing key see the report
			if got != (len(evicted) > 0) {
				c.Violation("C28:evicted-flag", "AddSized of a new key reports evicted=%v, reference evicted %d entries; %s", got, len(evicted), m.describe())
			}
		} else if got != (len(evicted) > 0) {
			c.Class("update-eviction-not-reported")
		}
	}
	rt.Repeat(map[string]func(*rapid.T){
		"AddSized":  addSized,
		"AddSized2": addSized,
		"AddSizedIfMissing": func(t *rapid.T) {
			k, sz := keyGen.Draw(t, "key"), sizeGen.Draw(t, "size")
			val++
			var has, ev bool
			c.NoPanic("C28:panic", func() { has, ev = lru.AddSizedIfMissing(k, val, sz) })
			m.logf("AddSizedIfMissing(%s,%d)=%v,%v", k, sz, has, ev)
			if sz < 0 {
				c.Class("negative-size")
				if has || ev {
					c.Violation("C28:negative-size-result", "AddSizedIfMissing with a negative size reports %v,%v; %s", has, ev, m.describe())
				}
				return
			}
			if m.idx(k) >= 0 {
				if !has || ev {
					c.Violation("C28:add-if-missing-result", "AddSizedIfMissing(%s) for a present key reports found=%v evicted=%v; %s", k, has, ev, m.describe())
				}
				return
			}
			_, evicted := m.add(k, val, sz)
			noteUpdate(false, 0, sz, evicted)
			if has || ev != (len(evicted) > 0) {
				c.Violation("C28:add-if-missing-result", "AddSizedIfMissing(%s) for an absent key reports found=%v evicted=%v, reference evicted %d; %s", k, has, ev, len(evicted), m.describe())
			}
		},
		"AddSizedAndReturnEvicted": func(t *rapid.T) {
			k, sz := keyGen.Draw(t, "key"), sizeGen.Draw(t, "size")
			val++
			old := oldSizeOf(k)
			var got map[interface{}]interface{}
			c.NoPanic("C28:panic", func() { got = lru.AddSizedAndReturnEvicted(k, val, sz) })
			present, evicted := m.add(k, val, sz)
			m.logf("AddSizedAndReturnEvicted(%s,%d)=%v", k, sz, got)
			noteUpdate(present, old, sz, evicted)
			want := map[string]int{}
			for _, e := range evicted {
				want[e.key] = e.val
			}
			// nothing invented: every reported pair was evicted by the reference too
			for gk, gv := range got {
				ks, _ := gk.(string)
				wv, ok := want[ks]
				if !ok || gv != interface{}(wv) {
					c.Violation("C28:evicted-map", "AddSizedAndReturnEvicted reports %v=%v which the reference did not evict (%v); %s", gk, gv, want, m.describe())
				}
			}
			if len(got) != len(want) {
				if !present || sz < 0 {
					c.Violation("C28:evicted-map", "AddSizedAndReturnEvicted of a new key reports %v, reference evicted %v; %s", got, want, m.describe())
				}
				c.Class("update-eviction-not-reported")
			}
		},
		"Get": func(t *rapid.T) {
			k := keyGen.Draw(t, "key")
			var v interface{}
			var ok bool
			c.NoPanic("C28:panic", func() { v, ok = lru.Get(k) })
			m.logf("Get(%s)", k)
			i := m.idx(k)
			if ok != (i >= 0) || (ok && v != interface{}(m.ents[i].val)) {
				c.Violation("C28:get-result", "Get(%s)=%v,%v, reference present=%v; %s", k, v, ok, i >= 0, m.describe())
			}
			if i >= 0 {
				m.touch(i)
			}
		},
		"Peek": func(t *rapid.T) {
			k := keyGen.Draw(t, "key")
			var v interface{}
			var ok bool
			c.NoPanic("C28:panic", func() { v, ok = lru.Peek(k) })
			m.logf("Peek(%s)", k)
			i := m.idx(k)
			if ok != (i >= 0) || (ok && v != interface{}(m.ents[i].val)) {
				c.Violation("C28:peek-result", "Peek(%s)=%v,%v, reference present=%v; %s", k, v, ok, i >= 0, m.describe())
			}
		},
		"Contains": func(t *rapid.T) {
			k := keyGen.Draw(t, "key")
			var ok bool
			c.NoPanic("C28:panic", func() { ok = lru.Contains(k) })
			m.logf("Contains(%s)", k)
			if ok != (m.idx(k) >= 0) {
				c.Violation("C28:contains-result", "Contains(%s)=%v; %s", k, ok, m.describe())
			}
		},
		"Remove": func(t *rapid.T) {
			k := keyGen.Draw(t, "key")
			var ok bool
			c.NoPanic("C28:panic", func() { ok = lru.Remove(k) })
			m.logf("Remove(%s)", k)
			i := m.idx(k)
			if ok != (i >= 0) {
				c.Violation("C28:remove-result", "Remove(%s)=%v, reference present=%v; %s", k, ok, i >= 0, m.describe())
			}
			if i >= 0 {
				m.ents = append(m.ents[:i:i], m.ents[i+1:]...)
			}
		},
		"Purge": func(t *rapid.T) {
			if rapid.IntRange(0, 4).Draw(t, "reallyPurge") != 0 {
				t.Skip()
			}
			c.NoPanic("C28:panic", func() { lru.Purge() })
			m.logf("Purge")
			m.ents = nil
			c.Class("purge")
		},
		"": func(t *rapid.T) {
			verifC28Check(c, lru, m)
		},
	})
	if nonTrivial {
		c.NonTrivial(m.describe())
		c.Sample("%s", m.describe())
	}
}

func TestVerifC28_Capacity(t *testing.T) {
	kit.Run(t, "C28", kit.Budget{Quick: 6000, Thorough: 60000, Steps: 40},
		"NewCapacityLRU(size 1..6, byteCapacity 1..100); programs over 8 keys of AddSized/AddSizedIfMissing/AddSizedAndReturnEvicted (sizes -1, 0..120, around capacity and capacity/2), Get, Peek, Contains, Remove, Purge; after every step Keys() order, Len, SizeInBytesContained and the results are compared with a reference LRU; non-trivial = an update of an existing key with a different size evicts; distinct by config+program",
		verifC28Program)
}

// regression table: single-step facts that every tier re-checks.
func TestVerifC28_Regress(t *testing.T) {
	kit.Silence()
	lru, err := NewCapacityLRU(3, 10)
	if err != nil {
		t.Fatalf("fixture: %v", err)
	}
	lru.AddSized("a", 1, 4)
	lru.AddSized("b", 2, 4)
	lru.Get("a")            // order b, a
	lru.AddSized("a", 3, 7) // update grows a: 11 bytes > 10: b goes
	if got := fmt.Sprint(lru.Keys()); got != "[a]" || lru.SizeInBytesContained() != 7 {
		kit.FailPlain(t, "C28", "C28:keys-differ", "after growing update: Keys()=%s size=%d, want [a] 7", got, lru.SizeInBytesContained())
	}
	lru.AddSized("c", 4, 100) // oversize newest is kept alone
	if got := fmt.Sprint(lru.Keys()); got != "[c]" || lru.SizeInBytesContained() != 100 {
		kit.FailPlain(t, "C28", "C28:keys-differ", "after oversize insert: Keys()=%s size=%d, want [c] 100", got, lru.SizeInBytesContained())
	}
}
