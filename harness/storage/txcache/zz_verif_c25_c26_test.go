package txcache

import (
	"bytes"
	"fmt"
	"os"
	"runtime"
	"sort"
	"strings"
	"sync"
	"testing"

	"github.com/ElrondNetwork/elrond-go/data/transaction"
	"github.com/ElrondNetwork/elrond-go/testscommon/txcachemocks"
	kit "github.com/ElrondNetwork/elrond-go/verifkit"
	"pgregory.net/rapid"
)

// C25: Transaction pool indexes stay consistent.
// C26: Transaction selection respects nonce order.
//
// One state machine serves both properties: a generated program of add / add duplicate /
// removeByHash / select / sweep / notifyAccountNonce operations on a TxCache with eviction enabled
// and small thresholds. In mode 25 the index invariants and the per-sender limits are checked after
// every step; in mode 26 every selection result is checked against the per-sender lists read
// (in-package) just before the call and against a model of the account-nonce notifications.

const verifC25TypicalSize = 10 // "s": typical transaction size in bytes

var verifC25GasPrices = []uint64{1_000_000_000, 2_000_000_000, 5_000_000_000}

// content of a generated transaction; the hash is a function of the whole content
type verifC25Content struct {
	sender int
	nonce  uint64
	price  int // index in verifC25GasPrices
	size   int64
	tag    int
}

func (x verifC25Content) hash() string {
	return fmt.Sprintf("h/s%d/n%d/p%d/z%d/t%d", x.sender, x.nonce, x.price, x.size, x.tag)
}

func (x verifC25Content) String() string {
	return fmt.Sprintf("{s%d n%d p%d z%d t%d}", x.sender, x.nonce, x.price, x.size, x.tag)
}

func verifC25SenderAddr(i int) string {
	b := bytes.Repeat([]byte{byte('A' + i)}, 32)
	return string(b)
}

func verifC25SenderIndex(addr string) int {
	if len(addr) == 0 {
		return -1
	}
	return int(addr[0] - 'A')
}

func verifC25Wrap(x verifC25Content) *WrappedTransaction {
	return &WrappedTransaction{
		Tx: &transaction.Transaction{
			SndAddr:  []byte(verifC25SenderAddr(x.sender)),
			Nonce:    x.nonce,
			GasPrice: verifC25GasPrices[x.price],
			// gas limit >= the minimum move gas (interceptors reject anything below)
			GasLimit: 50000 + 1500*uint64(x.size),
		},
		TxHash: []byte(x.hash()),
		Size:   x.size,
	}
}

func verifC25GasHandler() TxGasHandler {
	return &txcachemocks.TxGasHandlerMock{
		MinimumGasMove:       50000,
		MinimumGasPrice:      1_000_000_000,
		GasProcessingDivisor: 100,
	}
}

func verifC25DescribeTx(tx *WrappedTransaction) string {
	if tx == nil || tx.Tx == nil {
		return "<nil>"
	}
	return fmt.Sprintf("(s%d n%d p%d z%d)", verifC25SenderIndex(string(tx.Tx.GetSndAddr())), tx.Tx.GetNonce(), tx.Tx.GetGasPrice()/1_000_000_000, tx.Size)
}

func verifC25DescribeList(l []*WrappedTransaction) string {
	parts := make([]string, len(l))
	for i, tx := range l {
		parts[i] = verifC25DescribeTx(tx)
	}
	return "[" + strings.Join(parts, " ") + "]"
}

// snapshot of the per-sender index, read through in-package access
type verifC25Snap struct {
	senders []string // registered sender keys, sorted
	lists   []*txListForSender
	items   [][]*WrappedTransaction
}

func verifC25TakeSnap(cache *TxCache) verifC25Snap {
	s := verifC25Snap{}
	keys := cache.txListBySender.backingMap.Keys()
	sort.Strings(keys)
	for _, k := range keys {
		item, ok := cache.txListBySender.backingMap.Get(k)
		if !ok {
			continue
		}
		l := item.(*txListForSender)
		txs := make([]*WrappedTransaction, 0, l.items.Len())
		for e := l.items.Front(); e != nil; e = e.Next() {
			txs = append(txs, e.Value.(*WrappedTransaction))
		}
		s.senders = append(s.senders, k)
		s.lists = append(s.lists, l)
		s.items = append(s.items, txs)
	}
	return s
}

// ptr returns the list object registered for the sender key (nil: none)
func (s verifC25Snap) ptr(k string) *txListForSender {
	for i, x := range s.senders {
		if x == k {
			return s.lists[i]
		}
	}
	return nil
}

// txs returns the transactions held for the sender key, in list order
func (s verifC25Snap) txs(k string) []*WrappedTransaction {
	for i, x := range s.senders {
		if x == k {
			return s.items[i]
		}
	}
	return nil
}

func (s verifC25Snap) totals() (count int, numBytes int64) {
	for _, k := range s.senders {
		for _, tx := range s.txs(k) {
			count++
			numBytes += tx.Size
		}
	}
	return
}

func (s verifC25Snap) describe() string {
	var sb strings.Builder
	for _, k := range s.senders {
		fmt.Fprintf(&sb, "s%d:%s ", verifC25SenderIndex(k), verifC25DescribeList(s.txs(k)))
	}
	return sb.String()
}

// model of what the cache knows about one registered sender list (C26)
type verifC26ListModel struct {
	known        bool
	accountNonce uint64
	// possible values of the "consecutive failed selections" counter: bit i set <=> value i possible
	// (bit 3 stands for "3 or more")
	failed uint8
}

func verifC26Inc(set uint8) uint8 {
	var r uint8
	for v := uint(0); v < 4; v++ {
		if set&(1<<v) != 0 {
			n := v + 1
			if n > 3 {
				n = 3
			}
			r |= 1 << n
		}
	}
	return r
}

// what the machine needs from kit.Case; kit.Plain is adapted for the exhaustive enumerations
type verifC25Reporter interface {
	Violation(key string, format string, args ...interface{})
	Class(label string)
	NoPanic(key string, f func())
	Excluded(key string)
}

type verifC25PlainReporter struct{ p *kit.Plain }

func (r verifC25PlainReporter) Violation(key string, format string, args ...interface{}) {
	r.p.Violation(key, format, args...)
}
func (r verifC25PlainReporter) Class(label string) { r.p.Class(label, 1) }

// Excluded: kit.Plain counts an exclusion through Violation with a key listed as known (it returns); if the key is
// not listed the event is only classified (the exclusion is by construction, it does not depend on the list)
func (r verifC25PlainReporter) Excluded(key string) {
	if kit.IsKnown(key) {
		r.p.Violation(key, "excluded by construction")
		return
	}
	r.p.Class("excluded-unlisted:"+key, 1)
}
func (r verifC25PlainReporter) NoPanic(key string, f func()) {
	defer func() {
		if x := recover(); x != nil {
			r.p.Violation(key, "panic: %v", x)
		}
	}()
	f()
}

type verifC25Machine struct {
	c        verifC25Reporter
	mode     int
	cfg      ConfigSourceMe
	cache    *TxCache
	nSenders int
	maxNonce int

	universe map[string]verifC25Content // every hash ever generated
	uniOrder []string

	trace []string
	dead  bool // the case ended early (known-finding class reached)

	// model of the sweeping list: list objects collected by the selections since the last sweep rule
	pendingSweep []*txListForSender
	sweptSender  bool

	concContended bool // concurrent test: some round had >= 2 goroutines starting with the same new sender

	// C25 non-triviality
	sawBigSenderEviction bool
	overLimit            map[*txListForSender]bool // list objects left over their limit by a known-shape event
	sawGlobalEviction    bool
	removedSender        map[int]bool
	sawAddAfterRemoval   bool

	// C26
	lists      map[*txListForSender]*verifC26ListModel
	c26NonTriv bool
}

func (m *verifC25Machine) logf(format string, args ...interface{}) {
	m.trace = append(m.trace, fmt.Sprintf(format, args...))
}

func (m *verifC25Machine) traceString() string {
	return fmt.Sprintf("config=%s program=%s", m.cfg.String(), strings.Join(m.trace, "; "))
}

func verifC25GenConfig(rt *rapid.T, mode int) ConfigSourceMe {
	s := verifC25TypicalSize
	cfg := ConfigSourceMe{
		Name:                          "verif",
		NumChunks:                     uint32(rapid.IntRange(1, 4).Draw(rt, "numChunks")),
		EvictionEnabled:               true,
		NumSendersToPreemptivelyEvict: uint32(rapid.IntRange(1, 3).Draw(rt, "sendersToEvict")),
	}
	if mode == 25 {
		cfg.CountThreshold = uint32(rapid.IntRange(4, 12).Draw(rt, "countThreshold"))
		cfg.NumBytesThreshold = uint32(rapid.IntRange(4*s, 40*s).Draw(rt, "bytesThreshold"))
		cfg.CountPerSenderThreshold = uint32(rapid.IntRange(1, 5).Draw(rt, "countPerSender"))
		cfg.NumBytesPerSenderThreshold = uint32(rapid.IntRange(s, 6*s).Draw(rt, "bytesPerSender"))
	} else {
		// selection needs somewhat longer lists: same shape, wider thresholds
		cfg.CountThreshold = uint32(rapid.IntRange(4, 30).Draw(rt, "countThreshold"))
		cfg.NumBytesThreshold = uint32(rapid.IntRange(8*s, 120*s).Draw(rt, "bytesThreshold"))
		cfg.CountPerSenderThreshold = uint32(rapid.IntRange(1, 9).Draw(rt, "countPerSender"))
		cfg.NumBytesPerSenderThreshold = uint32(rapid.IntRange(2*s, 30*s).Draw(rt, "bytesPerSender"))
	}
	return cfg
}

func verifC25NewMachine(rt *rapid.T, c *kit.Case, mode int) *verifC25Machine {
	cfg := verifC25GenConfig(rt, mode)
	maxSenders := 5
	if kit.Thorough() {
		maxSenders = 7
	}
	nSenders := rapid.IntRange(1, maxSenders).Draw(rt, "nSenders")
	m, err := verifC25NewMachineWith(c, mode, cfg, nSenders)
	if err != nil {
		rt.Fatalf("fixture: NewTxCache(%s): %v", cfg.String(), err)
	}
	return m
}

func verifC25NewMachineWith(c verifC25Reporter, mode int, cfg ConfigSourceMe, nSenders int) (*verifC25Machine, error) {
	m := &verifC25Machine{
		c: c, mode: mode, cfg: cfg, nSenders: nSenders, maxNonce: 8,
		universe:      map[string]verifC25Content{},
		removedSender: map[int]bool{},
		overLimit:     map[*txListForSender]bool{},
		lists:         map[*txListForSender]*verifC26ListModel{},
	}
	if kit.Thorough() {
		m.maxNonce = 11
	}
	cache, err := NewTxCache(cfg, verifC25GasHandler())
	if err != nil {
		return nil, err
	}
	m.cache = cache
	return m, nil
}

func (m *verifC25Machine) genContent(t *rapid.T) verifC25Content {
	s := verifC25TypicalSize
	x := verifC25Content{}
	x.sender = rapid.IntRange(0, m.nSenders-1).Draw(t, "sender")
	switch rapid.IntRange(0, 5).Draw(t, "nonceKind") {
	case 0:
		x.nonce = 0
	case 1:
		x.nonce = uint64(rapid.IntRange(0, 2).Draw(t, "lowNonce"))
	default:
		x.nonce = uint64(rapid.IntRange(0, m.maxNonce).Draw(t, "nonce"))
	}
	x.price = rapid.IntRange(0, len(verifC25GasPrices)-1).Draw(t, "price")
	switch rapid.IntRange(0, 3).Draw(t, "sizeKind") {
	case 0:
		x.size = int64(rapid.IntRange(1, s/2).Draw(t, "smallSize"))
	case 1:
		x.size = int64(s)
	case 2:
		x.size = int64(rapid.IntRange(2*s, 4*s).Draw(t, "bigSize"))
	default:
		x.size = int64(rapid.IntRange(1, 4*s).Draw(t, "size"))
	}
	x.tag = rapid.IntRange(0, 1).Draw(t, "tag")
	return x
}

func (m *verifC25Machine) remember(x verifC25Content) {
	h := x.hash()
	if _, ok := m.universe[h]; !ok {
		m.universe[h] = x
		m.uniOrder = append(m.uniOrder, h)
	}
}

// pooled hashes in deterministic order
func (m *verifC25Machine) pooled(s verifC25Snap) []string {
	var r []string
	for _, k := range s.senders {
		for _, tx := range s.txs(k) {
			r = append(r, string(tx.TxHash))
		}
	}
	return r
}

// ---------------------------------------------------------------- C25 oracle

func (m *verifC25Machine) checkIndexes(where string) {
	if m.mode != 25 {
		return
	}
	c := m.c
	s := verifC25TakeSnap(m.cache)
	inLists := map[string]*WrappedTransaction{}
	for _, k := range s.senders {
		l := s.txs(k)
		for i, tx := range l {
			h := string(tx.TxHash)
			if _, dup := inLists[h]; dup {
				c.Violation("C25:list-duplicate-hash", "%s: hash %s occurs twice in the per-sender lists; lists=%s; %s", where, h, s.describe(), m.traceString())
			}
			inLists[h] = tx
			if string(tx.Tx.GetSndAddr()) != k {
				c.Violation("C25:list-wrong-sender", "%s: tx %s is held in the list of sender s%d; %s", where, verifC25DescribeTx(tx), verifC25SenderIndex(k), m.traceString())
			}
			if i > 0 {
				p := l[i-1]
				if p.Tx.GetNonce() > tx.Tx.GetNonce() || (p.Tx.GetNonce() == tx.Tx.GetNonce() && p.Tx.GetGasPrice() < tx.Tx.GetGasPrice()) {
					c.Violation("C25:list-order", "%s: list of s%d is not ordered by nonce asc / gas price desc: %s; %s", where, verifC25SenderIndex(k), verifC25DescribeList(l), m.traceString())
				}
			}
		}
	}
	// (1) hash index == lists
	keys := m.cache.txByHash.keys()
	inHash := map[string]bool{}
	for _, k := range keys {
		inHash[string(k)] = true
	}
	for h := range inHash {
		if _, ok := inLists[h]; !ok {
			c.Violation("C25:hash-not-in-lists", "%s: %s is in the hash index but in no sender list; lists=%s; %s", where, h, s.describe(), m.traceString())
		}
	}
	for h := range inLists {
		if !inHash[h] {
			c.Violation("C25:list-not-in-hash", "%s: %s is in a sender list but not in the hash index; lists=%s; %s", where, h, s.describe(), m.traceString())
		}
	}
	for _, h := range m.uniOrder {
		tx, found := m.cache.GetByTxHash([]byte(h))
		_, want := inLists[h]
		if found != want {
			c.Violation("C25:getbyhash-mismatch", "%s: GetByTxHash(%s) found=%v, held in lists=%v; %s", where, h, found, want, m.traceString())
		}
		if found && (tx == nil || string(tx.TxHash) != h) {
			c.Violation("C25:getbyhash-wrong-tx", "%s: GetByTxHash(%s) returned %s; %s", where, h, verifC25DescribeTx(tx), m.traceString())
		}
	}
	// (2) counters
	count, numBytes := s.totals()
	if m.cache.CountTx() != uint64(count) {
		c.Violation("C25:count-tx", "%s: CountTx()=%d, lists hold %d; lists=%s; %s", where, m.cache.CountTx(), count, s.describe(), m.traceString())
	}
	if m.cache.Len() != count {
		c.Violation("C25:count-tx", "%s: Len()=%d, lists hold %d; %s", where, m.cache.Len(), count, m.traceString())
	}
	if int64(m.cache.NumBytes()) != numBytes {
		c.Violation("C25:num-bytes", "%s: NumBytes()=%d, sizes sum to %d; lists=%s; %s", where, m.cache.NumBytes(), numBytes, s.describe(), m.traceString())
	}
	if m.cache.CountSenders() != uint64(len(s.senders)) {
		c.Violation("C25:count-senders", "%s: CountSenders()=%d, %d sender lists registered; lists=%s; %s", where, m.cache.CountSenders(), len(s.senders), s.describe(), m.traceString())
	}
	for _, k := range s.senders {
		if len(s.txs(k)) == 0 {
			c.Class("empty-list-registered")
			break
		}
	}
}

func verifC25ListBytes(l []*WrappedTransaction) int64 {
	var n int64
	for _, tx := range l {
		n += tx.Size
	}
	return n
}

// Known finding C25:sender-limit:needs-multiple-evictions (not repaired in the repository because an existing
// repository test pins the outcome): applySizeConstraints evicts at most one transaction per add. The known shape
// is exactly: after an add the sender's byte (or count) limit is exceeded AND that add already evicted exactly one
// transaction of this sender (so more than one eviction was needed). Such an event is counted
// (c.Excluded) and the program continues - the oracle keeps no model of the pool contents, it re-reads both indexes
// after every step, so nothing has to be adjusted. Any other shape (limit exceeded after an add that evicted nothing,
// or that evicted two or more) is reported under the ordinary keys and fails.
// One consequence is tolerated: a duplicate add (a no-op: list identical before and after) on a list object that is
// still over its limit from an earlier known-shape event is not a new event (class limit-carried-over-by-noop-add).
const verifC25KnownLimitKey = "C25:sender-limit:needs-multiple-evictions"

func verifC25SameList(a, b []*WrappedTransaction) bool {
	if len(a) != len(b) {
		return false
	}
	for i := range a {
		if a[i] != b[i] {
			return false
		}
	}
	return true
}

// (4) limits of the sender right after an addition; evictedOfSender = number of transactions of this sender
// (the added one included) that this add removed from its list
func (m *verifC25Machine) checkSenderLimits(x verifC25Content, before, after verifC25Snap, evictedOfSender int) {
	if m.mode != 25 {
		return
	}
	addr := verifC25SenderAddr(x.sender)
	l := after.txs(addr)
	nb := verifC25ListBytes(l)
	tooMany := len(l) > int(m.cfg.CountPerSenderThreshold)
	tooBig := nb > int64(m.cfg.NumBytesPerSenderThreshold)
	if !tooMany && !tooBig {
		return
	}
	ptr := after.ptr(addr)
	if evictedOfSender == 1 {
		m.c.Excluded(verifC25KnownLimitKey)
		m.c.Class("excluded:sender-limit-needs-multiple-evictions")
		m.overLimit[ptr] = true
		m.sawBigSenderEviction = true // an add that needed >= 2 evictions of its sender
		return
	}
	if evictedOfSender == 0 && m.overLimit[ptr] && before.ptr(addr) == ptr && verifC25SameList(before.txs(addr), l) {
		m.c.Class("limit-carried-over-by-noop-add")
		return
	}
	if tooMany {
		m.c.Violation("C25:sender-count-limit", "after adding %s (which evicted %d txs of the sender) sender s%d holds %d txs > CountPerSenderThreshold %d: before=%s after=%s; %s",
			x, evictedOfSender, x.sender, len(l), m.cfg.CountPerSenderThreshold, verifC25DescribeList(before.txs(addr)), verifC25DescribeList(l), m.traceString())
	}
	m.c.Violation("C25:sender-bytes-limit", "after adding %s (which evicted %d txs of the sender) sender s%d holds %d bytes > NumBytesPerSenderThreshold %d: before=%s after=%s; %s",
		x, evictedOfSender, x.sender, nb, m.cfg.NumBytesPerSenderThreshold, verifC25DescribeList(before.txs(addr)), verifC25DescribeList(l), m.traceString())
}

// ---------------------------------------------------------------- actions

func (m *verifC25Machine) addTx(x verifC25Content, label string) {
	c := m.c
	m.remember(x)
	before := verifC25TakeSnap(m.cache)
	addr := verifC25SenderAddr(x.sender)
	// will the global eviction pass run? (capacity exceeded before the add)
	cnt, nb := before.totals()
	globalDue := nb > int64(m.cfg.NumBytesThreshold) || cnt > int(m.cfg.CountThreshold) || len(before.senders) > int(m.cfg.CountThreshold)
	m.logf("%s%s", label, x)
	tx := verifC25Wrap(x)
	c.NoPanic(fmt.Sprintf("C%d:add-panic", m.mode), func() { m.cache.AddTx(tx) })
	after := verifC25TakeSnap(m.cache)
	c.Class("op:" + label)
	if globalDue {
		c.Class("add-with-global-eviction-pass")
		m.sawGlobalEviction = true
	}
	// per-sender evictions of this add: txs of the sender (the added one included) that are not in its list
	// afterwards. Base = the list before the add if the same list object is still registered; if the sender was
	// not registered, or was dropped by the global eviction pass of this very add and registered anew, the base is empty.
	var base []*WrappedTransaction
	if before.ptr(addr) != nil && before.ptr(addr) == after.ptr(addr) {
		base = before.txs(addr)
	}
	still := map[string]bool{}
	for _, tx := range after.txs(addr) {
		still[string(tx.TxHash)] = true
	}
	gone := 0
	present := false
	for _, tx := range base {
		if !still[string(tx.TxHash)] {
			gone++
		}
		if string(tx.TxHash) == x.hash() {
			present = true
		}
	}
	if !still[x.hash()] && !present {
		gone++
	}
	if gone >= 1 {
		c.Class("add-with-sender-eviction")
	}
	if gone >= 2 {
		c.Class("add-with-sender-eviction>=2")
		m.sawBigSenderEviction = true
	}
	if m.removedSender[x.sender] {
		m.sawAddAfterRemoval = true
	}
	m.checkSenderLimits(x, before, after, gone)
}

func (m *verifC25Machine) opAdd(t *rapid.T) {
	m.addTx(m.genContent(t), "add")
}

func (m *verifC25Machine) opAddDuplicate(t *rapid.T) {
	s := verifC25TakeSnap(m.cache)
	p := m.pooled(s)
	if len(p) == 0 {
		m.opAdd(t)
		return
	}
	h := rapid.SampledFrom(p).Draw(t, "dupHash")
	x, ok := m.universe[h]
	if !ok {
		t.Fatalf("fixture: pooled hash %s unknown to the harness", h)
	}
	m.addTx(x, "dup")
}

// a variation of an already pooled transaction: same sender and nonce, other price / size / tag
func (m *verifC25Machine) opAddSameNonce(t *rapid.T) {
	s := verifC25TakeSnap(m.cache)
	p := m.pooled(s)
	if len(p) == 0 {
		m.opAdd(t)
		return
	}
	h := rapid.SampledFrom(p).Draw(t, "baseHash")
	x := m.universe[h]
	y := m.genContent(t)
	y.sender, y.nonce = x.sender, x.nonce
	m.addTx(y, "add")
}

func (m *verifC25Machine) opRemove(t *rapid.T) {
	s := verifC25TakeSnap(m.cache)
	p := m.pooled(s)
	var h string
	present := len(p) > 0 && rapid.IntRange(0, 4).Draw(t, "removeAbsent") != 0
	if present {
		h = rapid.SampledFrom(p).Draw(t, "removeHash")
	} else if len(m.uniOrder) > 0 && rapid.Bool().Draw(t, "removeOld") {
		h = rapid.SampledFrom(m.uniOrder).Draw(t, "oldHash")
	} else {
		h = m.genContent(t).hash()
	}
	m.logf("remove(%s)", h)
	m.c.NoPanic(fmt.Sprintf("C%d:remove-panic", m.mode), func() { m.cache.RemoveTxByHash([]byte(h)) })
	if x, ok := m.universe[h]; ok {
		m.removedSender[x.sender] = true
	}
	if present {
		m.c.Class("op:remove-present")
	} else {
		m.c.Class("op:remove-other")
	}
}

func (m *verifC25Machine) listModel(l *txListForSender) *verifC26ListModel {
	lm, ok := m.lists[l]
	if !ok {
		lm = &verifC26ListModel{failed: 1} // counter starts at 0
		m.lists[l] = lm
	}
	return lm
}

func (m *verifC25Machine) opNotify(t *rapid.T) {
	sender := rapid.IntRange(0, m.nSenders-1).Draw(t, "notifySender")
	addr := verifC25SenderAddr(sender)
	s := verifC25TakeSnap(m.cache)
	var nonce uint64
	if l := s.txs(addr); len(l) > 0 && rapid.IntRange(0, 3).Draw(t, "notifyRelative") != 0 {
		// below / equal / above the lowest pooled nonce
		d := rapid.SampledFrom([]int{-3, -2, -1, -1, 0, 0, 1, 2}).Draw(t, "notifyDelta")
		v := int(l[0].Tx.GetNonce()) + d
		if v < 0 {
			v = 0
		}
		nonce = uint64(v)
	} else {
		nonce = uint64(rapid.IntRange(0, m.maxNonce+1).Draw(t, "notifyNonce"))
	}
	m.doNotify(sender, nonce)
}

func (m *verifC25Machine) doNotify(sender int, nonce uint64) {
	addr := verifC25SenderAddr(sender)
	s := verifC25TakeSnap(m.cache)
	m.logf("notify(s%d,%d)", sender, nonce)
	m.c.NoPanic(fmt.Sprintf("C%d:notify-panic", m.mode), func() { m.cache.NotifyAccountNonce([]byte(addr), nonce) })
	// the notification reaches the list registered for the sender at this moment (none: it is dropped)
	if l := s.ptr(addr); l != nil {
		lm := m.listModel(l)
		lm.known = true
		lm.accountNonce = nonce
		m.c.Class("op:notify")
	} else {
		m.c.Class("op:notify-unregistered-sender")
	}
}

// Known schedule finding C25:sweep-stale-list: the sweeping list keeps *list objects* collected by a selection; if
// such a sender is dropped from the map (last tx removed, global eviction) and registered again by a later add
// BETWEEN the selection that collected it and the sweep that follows that selection, the sweep removes the sender
// key - i.e. the new list - while only the hashes of the old list are removed from the hash index.
// The exclusion is precise: the harness keeps its own model of which selection collected which list objects
// (pendingSweep = the objects appended to the sweeping list by the selections since the last sweep rule; a correct
// implementation re-initialises its list at every sweep). Only a stale object in THIS model (collected since the last
// sweep, no longer the list registered for its sender, while another list is) is the known class: the case is counted
// and ends before the sweep. A list object that an earlier, completed sweep already handled is not pending in the
// model; if the implementation sweeps it again and thereby drops a re-registered sender, the sweep runs and the index
// invariants fail (hash-not-in-lists / count-senders).
func (m *verifC25Machine) staleSweepPending() bool {
	s := verifC25TakeSnap(m.cache)
	for _, l := range m.pendingSweep {
		if cur := s.ptr(l.sender); cur != nil && cur != l {
			return true
		}
	}
	return false
}

func (m *verifC25Machine) doSweep() {
	if m.mode == 25 && m.staleSweepPending() {
		m.c.Excluded("C25:sweep-stale-list")
		m.c.Class("excluded:sweep-stale-list")
		m.logf("sweep(excluded: stale list pending)")
		m.dead = true
		return
	}
	before := m.cache.CountSenders()
	m.logf("sweep")
	m.c.NoPanic(fmt.Sprintf("C%d:sweep-panic", m.mode), func() { m.cache.sweepSweepable() })
	m.c.Class("op:sweep")
	if len(m.pendingSweep) > 0 {
		m.c.Class("sweep-with-collected-senders")
		m.sweptSender = true
	}
	if m.cache.CountSenders() < before {
		m.c.Class("sweep-dropped-a-sender")
	}
	m.pendingSweep = m.pendingSweep[:0]
}

func (m *verifC25Machine) opSweep(t *rapid.T) {
	m.doSweep()
}

// A sender is starved until it is swept: account nonce notified below its lowest pooled nonce, then three
// selections, each followed by its sweep (what production does when nothing else happens in between).
func (m *verifC25Machine) opStarve(t *rapid.T) {
	s := verifC25TakeSnap(m.cache)
	var candidates []int
	for i, k := range s.senders {
		if len(s.items[i]) > 0 && s.items[i][0].Tx.GetNonce() > 0 {
			candidates = append(candidates, verifC25SenderIndex(k))
		}
	}
	if len(candidates) == 0 {
		m.opAdd(t)
		return
	}
	sender := rapid.SampledFrom(candidates).Draw(t, "starveSender")
	lowest := s.txs(verifC25SenderAddr(sender))[0].Tx.GetNonce()
	m.c.Class("op:starve")
	m.doNotify(sender, uint64(rapid.IntRange(0, int(lowest)-1).Draw(t, "starveNonce")))
	b := rapid.IntRange(1, 5).Draw(t, "starveBatch")
	for i := 0; i < 3 && !m.dead; i++ {
		m.doSelect(40, b)
		m.doSweep()
	}
}

func (m *verifC25Machine) opSelect(t *rapid.T) {
	var n int
	if rapid.IntRange(0, 2).Draw(t, "fewRequested") == 0 {
		n = rapid.IntRange(0, 6).Draw(t, "numRequestedSmall")
	} else {
		n = rapid.IntRange(0, 40).Draw(t, "numRequested")
	}
	b := rapid.IntRange(1, 5).Draw(t, "batchSize")
	m.doSelect(n, b)
	// production sweeps right after a selection (in a goroutine); "sweep" is also a rule of its own
	if rapid.Bool().Draw(t, "sweepNow") {
		m.opSweep(t)
	}
}

func (m *verifC25Machine) doSelect(n, b int) {
	before := verifC25TakeSnap(m.cache)
	var res []*WrappedTransaction
	collectedBefore := len(m.cache.sweepingListOfSenders)
	m.c.NoPanic(fmt.Sprintf("C%d:select-panic", m.mode), func() { res = m.cache.doSelectTransactions(n, b) })
	// which list objects did this selection collect as sweepable (appended to the sweeping list)
	if sl := m.cache.sweepingListOfSenders; len(sl) >= collectedBefore {
		m.pendingSweep = append(m.pendingSweep, sl[collectedBefore:]...)
	}
	m.logf("select(%d,%d)->%s", n, b, verifC25DescribeList(res))
	m.c.Class("op:select")
	if m.mode == 26 {
		m.checkSelection(before, n, b, res)
	}
}

// ---------------------------------------------------------------- C26 oracle

func (m *verifC25Machine) checkSelection(before verifC25Snap, numRequested, batch int, res []*WrappedTransaction) {
	c := m.c
	ctx := func() string {
		return fmt.Sprintf("select(numRequested=%d, batchSizePerSender=%d) -> %s; lists before=%s; %s", numRequested, batch, verifC25DescribeList(res), before.describe(), m.traceString())
	}
	if len(res) > numRequested {
		c.Violation("C26:too-many", "%d transactions returned; %s", len(res), ctx())
	}
	seen := map[string]bool{}
	bySender := map[string][]*WrappedTransaction{}
	for i, tx := range res {
		if tx == nil || tx.Tx == nil {
			c.Violation("C26:nil-entry", "entry %d is nil; %s", i, ctx())
		}
		h := string(tx.TxHash)
		if seen[h] {
			c.Violation("C26:duplicate", "%s returned twice; %s", h, ctx())
		}
		seen[h] = true
		k := string(tx.Tx.GetSndAddr())
		pooled := false
		for _, p := range before.txs(k) {
			if string(p.TxHash) == h {
				pooled = true
			}
		}
		if !pooled {
			c.Violation("C26:not-pooled", "%s %s is not in the sender's list; %s", h, verifC25DescribeTx(tx), ctx())
		}
		bySender[k] = append(bySender[k], tx)
	}
	full := len(res) >= numRequested
	if full {
		c.Class("select-result-full")
	}
	for _, k := range before.senders {
		l := before.txs(k)
		sel := bySender[k]
		si := verifC25SenderIndex(k)
		for i, tx := range sel {
			if i >= len(l) || !bytes.Equal(l[i].TxHash, tx.TxHash) {
				c.Violation("C26:not-prefix", "selection of s%d %s is not a prefix of its list %s; %s", si, verifC25DescribeList(sel), verifC25DescribeList(l), ctx())
			}
			if i > 0 && tx.Tx.GetNonce() > sel[i-1].Tx.GetNonce()+1 {
				key := "C26:nonce-skip"
				if sel[i-1].Tx.GetNonce() == 0 {
					key = "C26:nonce-skip-after-zero"
				}
				c.Violation(key, "selection of s%d skips from nonce %d to nonce %d: %s; %s", si, sel[i-1].Tx.GetNonce(), tx.Tx.GetNonce(), verifC25DescribeList(sel), ctx())
			}
		}
		// initial gap and grace period
		lm := m.listModel(before.ptr(k))
		gap := lm.known && len(l) > 0 && l[0].Tx.GetNonce() > lm.accountNonce
		visitedForSure := !full || len(sel) > 0
		if gap {
			c.Class("select-sender-with-initial-gap")
			graceEntry := lm.failed&(1<<1) != 0 // counter may be 1 -> this may be the 2nd consecutive failed selection
			if len(sel) > 1 {
				c.Violation("C26:initial-gap-more-than-one", "s%d has account nonce %d, lowest pooled nonce %d, but contributes %d txs %s; %s", si, lm.accountNonce, l[0].Tx.GetNonce(), len(sel), verifC25DescribeList(sel), ctx())
			}
			if len(sel) == 1 && !graceEntry {
				c.Violation("C26:initial-gap-selected", "s%d has account nonce %d, lowest pooled nonce %d, is not in its grace period (failed selections so far in set %04b) but contributes %s; %s", si, lm.accountNonce, l[0].Tx.GetNonce(), lm.failed, verifC25DescribeList(sel), ctx())
			}
			switch {
			case len(sel) == 1:
				lm.failed = 1 << 2
				c.Class("select-grace-period-tx")
			case visitedForSure:
				lm.failed = verifC26Inc(lm.failed)
			default:
				lm.failed |= verifC26Inc(lm.failed)
			}
		} else {
			if visitedForSure {
				lm.failed = 1
			} else {
				lm.failed |= 1
			}
		}
		// non-trivial: list starts at nonce 0 and has a gap right after it, or initial gap with known account nonce
		if len(l) >= 2 && l[0].Tx.GetNonce() == 0 {
			for i := 1; i < len(l); i++ {
				if l[i].Tx.GetNonce() == 0 {
					continue
				}
				if l[i].Tx.GetNonce() > 1 {
					m.c26NonTriv = true
					c.Class("select-gap-right-after-nonce-0")
				}
				break
			}
		}
		if gap {
			m.c26NonTriv = true
		}
		if len(l) >= 2 {
			for i := 1; i < len(l); i++ {
				if l[i].Tx.GetNonce() > l[i-1].Tx.GetNonce()+1 {
					c.Class("select-sender-with-middle-gap")
					break
				}
			}
		}
	}
	// forget lists that are not registered any more
	for p := range m.lists {
		alive := false
		for _, k := range before.senders {
			if before.ptr(k) == p {
				alive = true
			}
		}
		if !alive {
			delete(m.lists, p)
		}
	}
}

// ---------------------------------------------------------------- program

type verifC25Weights struct {
	add, sameNonce, dup, remove, sel, sweep, notify, starve int
}

func (m *verifC25Machine) step(t *rapid.T, w verifC25Weights) {
	if m.dead {
		return
	}
	total := w.add + w.sameNonce + w.dup + w.remove + w.sel + w.sweep + w.notify + w.starve
	r := rapid.IntRange(0, total-1).Draw(t, "op")
	switch {
	case r < w.add:
		m.opAdd(t)
	case r < w.add+w.sameNonce:
		m.opAddSameNonce(t)
	case r < w.add+w.sameNonce+w.dup:
		m.opAddDuplicate(t)
	case r < w.add+w.sameNonce+w.dup+w.remove:
		m.opRemove(t)
	case r < w.add+w.sameNonce+w.dup+w.remove+w.sel:
		m.opSelect(t)
	case r < w.add+w.sameNonce+w.dup+w.remove+w.sel+w.sweep:
		m.opSweep(t)
	case r < w.add+w.sameNonce+w.dup+w.remove+w.sel+w.sweep+w.starve:
		m.opStarve(t)
	default:
		m.opNotify(t)
	}
}

func verifC25Steps() int {
	if kit.Thorough() {
		return 60
	}
	return 40
}

const verifC25Rule = "programs of ~40 steps (thorough ~60, up to 7 senders, nonces 0..11) (add / add same nonce / add duplicate / removeByHash present+absent / select(n 0..40, batch 1..5) / sweep / notifyAccountNonce) over 1-5 senders, nonces 0..8, 3 gas prices, sizes 1..40 bytes, on a TxCache with eviction enabled, NumChunks 1..4, CountThreshold 4..12, NumBytesThreshold 40..400, CountPerSender 1..5, NumBytesPerSender 10..60, NumSendersToPreemptivelyEvict 1..3; after every step: hash index == per-sender lists (both directions, GetByTxHash over every hash ever generated), CountTx/NumBytes/CountSenders == contents, every list ordered by nonce asc / gas price desc without duplicates; after every add: sender's count and byte limits; non-trivial = an add evicted >=2 txs of its sender or ran a global eviction pass, and a removal precedes a later add of the same sender; distinct by program"

func TestVerifC25_Program(t *testing.T) {
	kit.Run(t, "C25", kit.Budget{Quick: 3000, Thorough: 30000, Steps: verifC25Steps()}, verifC25Rule,
		func(rt *rapid.T, c *kit.Case) {
			m := verifC25NewMachine(rt, c, 25)
			w := verifC25Weights{add: 40, sameNonce: 8, dup: 5, remove: 15, sel: 12, sweep: 6, notify: 10, starve: 4}
			m.checkIndexes("initially")
			rt.Repeat(map[string]func(*rapid.T){
				"step": func(t *rapid.T) { m.step(t, w) },
				"": func(t *rapid.T) {
					if m.dead {
						return
					}
					last := "start"
					if len(m.trace) > 0 {
						last = m.trace[len(m.trace)-1]
					}
					m.checkIndexes("after " + last)
				},
			})
			if (m.sawBigSenderEviction || m.sawGlobalEviction) && m.sawAddAfterRemoval {
				c.NonTrivial(m.traceString())
				c.Sample("%s", m.traceString())
			}
		})
}

const verifC26Rule = "pool built by a C25 program (same operations, thresholds widened: CountPerSender 1..9, NumBytesPerSender 20..300, CountThreshold 4..30, NumBytesThreshold 80..1200) with more selections and nonce notifications (below / equal / above the lowest pooled nonce); every selection result: size <= numRequested, distinct, pooled, per sender a prefix of its list (read just before the call), consecutive nonces never skip, sender with known account nonce below its lowest pooled nonce contributes nothing (one tx at most, and only if the model allows this to be its 2nd consecutive failed selection); non-trivial = some selection sees a sender whose list starts at nonce 0 with a gap right after it, or a sender with an initial gap and known account nonce; distinct by program"

func TestVerifC26_Program(t *testing.T) {
	kit.Run(t, "C26", kit.Budget{Quick: 3000, Thorough: 30000, Steps: verifC25Steps()}, verifC26Rule,
		func(rt *rapid.T, c *kit.Case) {
			m := verifC25NewMachine(rt, c, 26)
			w := verifC25Weights{add: 40, sameNonce: 5, dup: 2, remove: 8, sel: 25, sweep: 4, notify: 16, starve: 2}
			rt.Repeat(map[string]func(*rapid.T){
				"step": func(t *rapid.T) { m.step(t, w) },
				"":     func(t *rapid.T) {},
			})
			if m.c26NonTriv {
				c.NonTrivial(m.traceString())
				c.Sample("%s", m.traceString())
			}
		})
}

// ---------------------------------------------------------------- concurrent additions (quiescence invariant)

type verifC25ConcOp struct {
	add  bool
	x    verifC25Content // add
	hash string          // remove
}

func (o verifC25ConcOp) String() string {
	if o.add {
		return "add" + o.x.String()
	}
	return "remove(" + o.hash + ")"
}

// One round: G goroutines wait behind a barrier, then run their (pre-generated) operations; after all of them
// returned (quiescence) the same index invariants as in the sequential program are checked. Nothing depends on timing.
// Domain (what the cache supports on the unmodified tree, see the assumptions in props/C25.json): thresholds are so
// large that no eviction runs; in a round a sender is either new (not registered before the round; its first
// transactions are added concurrently - every goroutine starts with such an add), add-only, or remove-only
// (removals never race with additions to the same sender: TxCache documents those as "slight inconsistencies").
func (m *verifC25Machine) concurrentRound(rt *rapid.T, round int, nextSender *int) {
	snap := verifC25TakeSnap(m.cache)
	nNew := rapid.IntRange(1, 3).Draw(rt, "newSenders")
	newSenders := make([]int, nNew)
	for i := range newSenders {
		newSenders[i] = *nextSender
		*nextSender++
	}
	// bias towards one hot new sender
	hot := newSenders[0]
	var addOnly []int
	var removable []string
	for i, k := range snap.senders {
		if rapid.Bool().Draw(rt, "removeOnly") {
			for _, tx := range snap.items[i] {
				removable = append(removable, string(tx.TxHash))
			}
		} else {
			addOnly = append(addOnly, verifC25SenderIndex(k))
		}
	}
	g := rapid.IntRange(2, 8).Draw(rt, "goroutines")
	progs := make([][]verifC25ConcOp, g)
	for gi := range progs {
		nOps := rapid.IntRange(1, 3).Draw(rt, "opsPerGoroutine")
		for oi := 0; oi < nOps; oi++ {
			kind := 0
			if oi > 0 {
				kind = rapid.IntRange(0, 3).Draw(rt, "concKind")
			}
			x := m.genContent(rt)
			x.size = int64(rapid.IntRange(1, 40).Draw(rt, "concSize"))
			switch {
			case kind == 2 && len(addOnly) > 0:
				x.sender = rapid.SampledFrom(addOnly).Draw(rt, "addOnlySender")
				progs[gi] = append(progs[gi], verifC25ConcOp{add: true, x: x})
			case kind == 3 && len(removable) > 0:
				progs[gi] = append(progs[gi], verifC25ConcOp{hash: rapid.SampledFrom(removable).Draw(rt, "concRemove")})
			default:
				x.sender = hot
				if rapid.IntRange(0, 3).Draw(rt, "otherNew") == 0 {
					x.sender = rapid.SampledFrom(newSenders).Draw(rt, "newSender")
				}
				progs[gi] = append(progs[gi], verifC25ConcOp{add: true, x: x})
			}
		}
	}
	firstAdds := 0
	for gi, prog := range progs {
		for _, o := range prog {
			if o.add {
				m.remember(o.x)
			}
		}
		if prog[0].x.sender == hot {
			firstAdds++
		}
		m.logf("round %d goroutine %d: %v", round, gi, prog)
	}
	if firstAdds >= 2 {
		m.concContended = true
	}

	var wg, ready sync.WaitGroup
	start := make(chan struct{})
	var mu sync.Mutex
	var panics []string
	for gi := range progs {
		wg.Add(1)
		ready.Add(1)
		go func(prog []verifC25ConcOp) {
			defer wg.Done()
			defer func() {
				if r := recover(); r != nil {
					mu.Lock()
					panics = append(panics, fmt.Sprint(r))
					mu.Unlock()
				}
			}()
			txs := make([]*WrappedTransaction, len(prog))
			for i, o := range prog {
				if o.add {
					txs[i] = verifC25Wrap(o.x)
				}
			}
			ready.Done()
			<-start
			for i, o := range prog {
				if o.add {
					m.cache.AddTx(txs[i])
				} else {
					m.cache.RemoveTxByHash([]byte(o.hash))
				}
			}
		}(progs[gi])
	}
	ready.Wait()
	close(start)
	wg.Wait()
	m.c.Class("concurrent-round")
	if len(panics) > 0 {
		m.c.Violation("C25:concurrent-panic", "panic in a concurrent round: %v; %s", panics, m.traceString())
	}
	m.checkIndexes(fmt.Sprintf("at quiescence after concurrent round %d", round))
}

const verifC25ConcRule = "concurrent rounds on one TxCache (thresholds far away, no eviction): per round 2-8 goroutines behind a barrier, each 1-3 operations; every goroutine starts by adding a first transaction of one of 1-3 senders that are new in this round (mostly the same one), further operations: more such adds, adds to established add-only senders, removals of transactions of established remove-only senders; 4-10 rounds per case; at quiescence after every round the same index invariants as in the sequential program (hash index == lists both ways, GetByTxHash, CountTx/NumBytes/CountSenders == contents, list order, no duplicates); non-trivial = a round in which >= 2 goroutines start with a first transaction of the same new sender; distinct by program"

func TestVerifC25_Concurrent(t *testing.T) {
	// the interleavings of interest need real parallelism (or at least OS-level preemption between threads)
	if prev := runtime.GOMAXPROCS(0); prev < 4 {
		runtime.GOMAXPROCS(4)
		defer runtime.GOMAXPROCS(prev)
	}
	kit.Run(t, "C25", kit.Budget{Quick: 600, Thorough: 6000}, verifC25ConcRule,
		func(rt *rapid.T, c *kit.Case) {
			cfg := ConfigSourceMe{Name: "verif", NumChunks: uint32(rapid.IntRange(1, 4).Draw(rt, "numChunks")), EvictionEnabled: true,
				NumBytesThreshold: 1 << 30, CountThreshold: 1 << 20, NumBytesPerSenderThreshold: 1 << 24, CountPerSenderThreshold: 1 << 16, NumSendersToPreemptivelyEvict: 1}
			m, err := verifC25NewMachineWith(c, 25, cfg, 1)
			if err != nil {
				rt.Fatalf("fixture: %v", err)
			}
			rounds := rapid.IntRange(4, 10).Draw(rt, "rounds")
			nextSender := 0
			for r := 0; r < rounds; r++ {
				m.concurrentRound(rt, r, &nextSender)
			}
			if m.concContended {
				c.NonTrivial(m.traceString())
				c.Sample("%s", m.traceString())
			}
		})
}

// ---------------------------------------------------------------- bounded exhaustive enumerations

// the enumerations are deterministic: one process (shard 0) runs them, the other shards would only repeat them
func verifC25FirstShard() bool {
	sh := os.Getenv("VERIF_SHARD")
	return sh == "" || sh == "0"
}

// All add sequences of length <= 3 (thorough: <= 4) of one sender over a 12-transaction alphabet
// (nonce 0..2 x 2 gas prices x sizes 4 / 25), for 6 limit configurations (count limit 1..3 x byte limit 10 / 30):
// after every add the sender limits and all index invariants.
func TestVerifC25_EnumAdds(t *testing.T) {
	if !verifC25FirstShard() {
		return
	}
	maxLen := 3
	if kit.Thorough() {
		maxLen = 4
	}
	p := kit.NewPlain(t, "C25", fmt.Sprintf("exhaustive: every add sequence of length 1..%d of one sender over 12 transactions (nonce 0..2, 2 gas prices, size 4 or 25; repeating a transaction = duplicate add), count limit 1..3, byte limit 10 or 30, global thresholds not reached; non-trivial = some add needs >= 2 evictions", maxLen))
	defer p.Done()
	var alphabet []verifC25Content
	for n := uint64(0); n < 3; n++ {
		for pr := 0; pr < 2; pr++ {
			for _, z := range []int64{4, 25} {
				alphabet = append(alphabet, verifC25Content{0, n, pr, z, 0})
			}
		}
	}
	rep := verifC25PlainReporter{p}
	seq := make([]int, 0, maxLen)
	var rec func(countLimit, bytesLimit uint32)
	caseNo := uint64(0)
	rec = func(countLimit, bytesLimit uint32) {
		if len(seq) > 0 {
			caseNo++
			cfg := ConfigSourceMe{Name: "verif", NumChunks: 1, EvictionEnabled: true, NumBytesThreshold: 100000, CountThreshold: 1000,
				NumBytesPerSenderThreshold: bytesLimit, CountPerSenderThreshold: countLimit, NumSendersToPreemptivelyEvict: 1}
			m, err := verifC25NewMachineWith(rep, 25, cfg, 1)
			if err != nil {
				t.Fatalf("fixture: %v", err)
			}
			for _, i := range seq {
				m.addTx(alphabet[i], "add")
				m.checkIndexes("after add")
			}
			p.Eval(1)
			if m.sawBigSenderEviction {
				p.NonTrivialN(caseNo)
				p.Sample("%s", m.traceString())
			}
		}
		if len(seq) == maxLen {
			return
		}
		for i := range alphabet {
			seq = append(seq, i)
			rec(countLimit, bytesLimit)
			seq = seq[:len(seq)-1]
		}
	}
	for countLimit := uint32(1); countLimit <= 3; countLimit++ {
		for _, bytesLimit := range []uint32{10, 30} {
			rec(countLimit, bytesLimit)
		}
	}
	p.Exhaustive()
}

// All single-sender pools with nonces 0..4 and 0-2 transactions per nonce (two gas prices), account nonce
// unknown or 0..5, batch size 1..3, numRequested 0..7: four consecutive selections, each checked.
func TestVerifC26_EnumSingleSender(t *testing.T) {
	if !verifC25FirstShard() {
		return
	}
	p := kit.NewPlain(t, "C26", "exhaustive: every pool of one sender with nonces 0..4, 0-2 transactions per nonce (243 pools), account nonce unknown / 0..5, batchSizePerSender 1..3, numRequested 0..7, four consecutive selections with the same arguments; same oracle as the generated check; non-trivial = list starts at nonce 0 with a gap right after it, or known account nonce below the lowest pooled nonce")
	defer p.Done()
	rep := verifC25PlainReporter{p}
	cfg := ConfigSourceMe{Name: "verif", NumChunks: 1, EvictionEnabled: true, NumBytesThreshold: 100000, CountThreshold: 1000,
		NumBytesPerSenderThreshold: 10000, CountPerSenderThreshold: 100, NumSendersToPreemptivelyEvict: 1}
	caseNo := uint64(0)
	for pool := 0; pool < 243; pool++ {
		for account := -1; account <= 5; account++ {
			for batch := 1; batch <= 3; batch++ {
				for n := 0; n <= 7; n++ {
					caseNo++
					m, err := verifC25NewMachineWith(rep, 26, cfg, 1)
					if err != nil {
						t.Fatalf("fixture: %v", err)
					}
					code := pool
					for nonce := uint64(0); nonce < 5; nonce++ {
						k := code % 3
						code /= 3
						if k >= 1 {
							m.addTx(verifC25Content{0, nonce, 0, 10, 0}, "add")
						}
						if k == 2 {
							m.addTx(verifC25Content{0, nonce, 1, 10, 0}, "add")
						}
					}
					if account >= 0 {
						m.doNotify(0, uint64(account))
					}
					for i := 0; i < 4; i++ {
						m.doSelect(n, batch)
						p.Eval(1)
					}
					if m.c26NonTriv {
						p.NonTrivialN(caseNo)
						p.Sample("%s", m.traceString())
					}
				}
			}
		}
	}
	p.Exhaustive()
}

// ---------------------------------------------------------------- regressions (run in every tier)

func verifC25RegressCache(t *testing.T, cfg ConfigSourceMe) *TxCache {
	kit.Silence()
	cfg.Name = "verif"
	cfg.EvictionEnabled = true
	cache, err := NewTxCache(cfg, verifC25GasHandler())
	if err != nil {
		t.Fatalf("fixture: %v", err)
	}
	return cache
}

// Minimal counterexamples of the applySizeConstraints defect (at most one eviction per add: the sender's byte limit
// stays exceeded after an addition). The defect is a known finding (verifC25KnownLimitKey): the table runs through the
// same machine and oracle as the generated programs, so on the unrepaired tree the two known-shape cases are counted as
// excluded, on a repaired tree they simply pass; any other limit or index violation fails.
func TestVerifC25_Regress(t *testing.T) {
	p := kit.NewPlain(t, "C25", "regression table: minimal add sequences of the one-eviction-per-add defect and a lone oversize tx; same oracle as the generated programs")
	defer p.Done()
	rep := verifC25PlainReporter{p}
	cases := []struct {
		name           string
		countPerSender uint32
		bytesPerSender uint32
		adds           []verifC25Content
	}{
		// shrunk by rapid: the second tx (same nonce, same price) goes in front; evicting the 1-byte tx is not enough
		{"shrunk", 1, 10, []verifC25Content{{0, 0, 0, 1, 0}, {0, 0, 0, 20, 0}}},
		// a big tx with a low nonce arrives after two small ones: two evictions are needed
		{"low-nonce-big-tx", 5, 300, []verifC25Content{{0, 1, 0, 100, 0}, {0, 2, 0, 100, 0}, {0, 0, 0, 250, 0}}},
		// the same, followed by a duplicate add (no-op on a list that is still over its limit) and a further add
		{"carried-over", 5, 300, []verifC25Content{{0, 1, 0, 100, 0}, {0, 2, 0, 100, 0}, {0, 0, 0, 250, 0}, {0, 0, 0, 250, 0}, {0, 3, 0, 10, 0}}},
		// a lone oversize tx is evicted
		{"lone-oversize", 5, 30, []verifC25Content{{0, 3, 1, 31, 0}}},
	}
	for _, tc := range cases {
		cfg := ConfigSourceMe{Name: "verif", NumChunks: 1, EvictionEnabled: true, NumBytesThreshold: 100000, CountThreshold: 1000,
			NumBytesPerSenderThreshold: tc.bytesPerSender, CountPerSenderThreshold: tc.countPerSender, NumSendersToPreemptivelyEvict: 1}
		m, err := verifC25NewMachineWith(rep, 25, cfg, 1)
		if err != nil {
			t.Fatalf("fixture: %v", err)
		}
		m.logf("regress %s", tc.name)
		for _, x := range tc.adds {
			m.addTx(x, "add")
			m.checkIndexes("after add")
		}
		p.Eval(1)
	}
}

// Minimal counterexamples of the selectBatchTo defect (gap right after nonce 0 not detected).
func TestVerifC26_Regress(t *testing.T) {
	cases := []struct {
		name     string
		nonces   []uint64
		n, batch int
	}{
		{"shrunk: gap at a batch boundary", []uint64{0, 2}, 2, 1},
		{"gap inside one batch", []uint64{0, 5}, 10, 5},
		{"no gap after 0, gap after 1", []uint64{0, 1, 3}, 10, 2},
		{"gap after 1", []uint64{1, 3}, 10, 1},
	}
	for _, tc := range cases {
		cache := verifC25RegressCache(t, ConfigSourceMe{NumChunks: 1, NumBytesThreshold: 100000, CountThreshold: 1000,
			NumBytesPerSenderThreshold: 10000, CountPerSenderThreshold: 100, NumSendersToPreemptivelyEvict: 1})
		for _, n := range tc.nonces {
			cache.AddTx(verifC25Wrap(verifC25Content{0, n, 0, 10, 0}))
		}
		res := cache.doSelectTransactions(tc.n, tc.batch)
		var got []uint64
		for _, tx := range res {
			got = append(got, tx.Tx.GetNonce())
		}
		for i := 1; i < len(got); i++ {
			if got[i] > got[i-1]+1 {
				key := "C26:nonce-skip"
				if got[i-1] == 0 {
					key = "C26:nonce-skip-after-zero"
				}
				kit.FailPlain(t, "C26", key, "%s: pooled nonces %v, select(%d,%d) returned nonces %v (skips from %d to %d)", tc.name, tc.nonces, tc.n, tc.batch, got, got[i-1], got[i])
			}
		}
	}
}
