package pruning_test

import (
	"bytes"
	"fmt"
	"os"
	"path/filepath"
	"sort"
	"strings"
	"testing"

	"github.com/ElrondNetwork/elrond-go/data/block"
	"github.com/ElrondNetwork/elrond-go/epochStart"
	"github.com/ElrondNetwork/elrond-go/storage"
	"github.com/ElrondNetwork/elrond-go/storage/leveldb"
	"github.com/ElrondNetwork/elrond-go/storage/mock"
	"github.com/ElrondNetwork/elrond-go/storage/pruning"
	"github.com/ElrondNetwork/elrond-go/storage/storageUnit"
	"github.com/ElrondNetwork/elrond-go/testscommon"
	kit "github.com/ElrondNetwork/elrond-go/verifkit"
	"pgregory.net/rapid"
)

// C30: Epoch-partitioned storage keeps and removes data as promised.
//
// A value put while the put-epoch is an open epoch stays readable through plain reads while that epoch is
// among the active epochs, and through epoch-specific reads while the epoch is retained. After a key is
// removed, no read returns it from any active epoch.

// ---------------------------------------------------------------------------------------------------------
// persister factory: one in-memory store per path that survives close / reopen (like a database directory);
// a handle returns errors once closed; Remove of a missing key succeeds (LevelDB semantics)

type verifC30Store struct {
	data        map[string][]byte
	openHandles int
}

type verifC30DB struct {
	st     *verifC30Store
	closed bool
}

func (d *verifC30DB) Put(key, val []byte) error {
	if d.closed {
		return storage.ErrSerialDBIsClosed
	}
	d.st.data[string(key)] = append([]byte(nil), val...)
	return nil
}

func (d *verifC30DB) Get(key []byte) ([]byte, error) {
	if d.closed {
		return nil, storage.ErrSerialDBIsClosed
	}
	v, ok := d.st.data[string(key)]
	if !ok {
		return nil, storage.ErrKeyNotFound
	}
	return append([]byte(nil), v...), nil
}

func (d *verifC30DB) Has(key []byte) error {
	if d.closed {
		return storage.ErrSerialDBIsClosed
	}
	if _, ok := d.st.data[string(key)]; !ok {
		return storage.ErrKeyNotFound
	}
	return nil
}

func (d *verifC30DB) Init() error { return nil }

func (d *verifC30DB) Close() error {
	if !d.closed {
		d.closed = true
		d.st.openHandles--
	}
	return nil
}

func (d *verifC30DB) Remove(key []byte) error {
	if d.closed {
		return storage.ErrSerialDBIsClosed
	}
	delete(d.st.data, string(key))
	return nil
}

func (d *verifC30DB) Destroy() error {
	_ = d.Close()
	d.st.data = map[string][]byte{}
	return nil
}

func (d *verifC30DB) DestroyClosed() error { return d.Destroy() }

func (d *verifC30DB) RangeKeys(_ func(key []byte, val []byte) bool) {}

func (d *verifC30DB) IsInterfaceNil() bool { return d == nil }

// closed-tracking wrapper for real LevelDB handles (so the harness can close leaked handles exactly once)
type verifC30LevelDB struct {
	storage.Persister
	closed bool
}

func (d *verifC30LevelDB) Close() error {
	if d.closed {
		return nil
	}
	d.closed = true
	return d.Persister.Close()
}

type verifC30Factory struct {
	stores     map[string]*verifC30Store
	levelDBDir string // "" = in-memory stores
	levelDBs   []*verifC30LevelDB
	doubleOpen int
	creates    int
}

func (f *verifC30Factory) Create(path string) (storage.Persister, error) {
	f.creates++
	if f.levelDBDir != "" {
		db, err := leveldb.NewSerialDB(filepath.Join(f.levelDBDir, path), 1, 10, 10)
		if err != nil {
			return nil, err
		}
		w := &verifC30LevelDB{Persister: db}
		f.levelDBs = append(f.levelDBs, w)
		return w, nil
	}
	st, ok := f.stores[path]
	if !ok {
		st = &verifC30Store{data: map[string][]byte{}}
		f.stores[path] = st
	}
	if st.openHandles > 0 {
		f.doubleOpen++
	}
	st.openHandles++
	return &verifC30DB{st: st}, nil
}

func (f *verifC30Factory) CreateDisabled() storage.Persister {
	return &verifC30DB{st: &verifC30Store{data: map[string][]byte{}}, closed: true}
}

func (f *verifC30Factory) IsInterfaceNil() bool { return f == nil }

func (f *verifC30Factory) closeAll() {
	for _, db := range f.levelDBs {
		_ = db.Close()
	}
}

// ---------------------------------------------------------------------------------------------------------

type verifC30Storer interface {
	Put(key, data []byte) error
	PutInEpoch(key, data []byte, epoch uint32) error
	Get(key []byte) ([]byte, error)
	GetFromEpoch(key []byte, epoch uint32) ([]byte, error)
	GetBulkFromEpoch(keys [][]byte, epoch uint32) (map[string][]byte, error)
	Has(key []byte) error
	SearchFirst(key []byte) ([]byte, error)
	Remove(key []byte) error
	ClearCache()
	SetEpochForPutOperation(epoch uint32)
	Close() error
	GetActivePersistersEpochs() []uint32
	VerifC30MapEpochs() map[uint32]bool
}

const (
	verifC30None    = 0 // no claim: never written, or its epoch is not retained any more
	verifC30Copy    = 1 // one copy of the key exists: (epoch, val)
	verifC30Removed = 2 // Remove was called while the copy was in an active epoch: no read may return it
	verifC30Stale   = 3 // Remove was called while the copy was in a non-active epoch: the copy stays, no claim
)

type verifC30Key struct {
	state int
	epoch uint32
	val   []byte
}

type verifC30Cfg struct {
	active, keep   uint32
	cacheCap       uint32
	bloom          bool
	start          uint32
	pruningEnabled bool
	fullHistory    bool
	oldActive      uint32
	shouldClean    bool
	levelDB        bool
}

type verifC30Harness struct {
	c        *kit.Case
	cfg      verifC30Cfg
	s        verifC30Storer
	handler  epochStart.ActionHandler
	factory  *verifC30Factory
	keys     [][]byte
	model    []verifC30Key
	cur      uint32 // current epoch
	putEpoch uint32
	stuck    uint32 // oldest epoch of the last finalized headers (monotone)
	actLow   uint32 // oldest epoch that was active at construction
	mapLow   uint32 // oldest epoch that was retained at construction
	changes  int
	// number of Has/SearchFirst claims made for a key whose epoch is active only through a stuck-shard extension
	extendedClaims int
	valCtr         int
	trace          []string
}

func (h *verifC30Harness) logf(format string, args ...interface{}) {
	h.trace = append(h.trace, fmt.Sprintf(format, args...))
}

func (h *verifC30Harness) ctx() string {
	return fmt.Sprintf("cfg %+v; active(observed, newest first)=%v retained(observed)=%v; trace: %s", h.cfg, h.s.GetActivePersistersEpochs(), verifC30SortedEpochs(h.s.VerifC30MapEpochs()), strings.Join(h.trace, " | "))
}

func verifC30SortedEpochs(m map[uint32]bool) []uint32 {
	r := make([]uint32, 0, len(m))
	for e := range m {
		r = append(r, e)
	}
	sort.Slice(r, func(i, j int) bool { return r[i] < r[j] })
	return r
}

// newestN: the documented default window - the newest NumOfActivePersisters epochs (of those that were ever
// active). Plain Get scans exactly this window.
func (h *verifC30Harness) newestN() map[uint32]bool {
	res := map[uint32]bool{}
	if !h.cfg.pruningEnabled {
		res[0] = true
		return res
	}
	for i := uint32(0); i < h.cfg.active; i++ {
		if h.cur < i || h.cur-i < h.actLow {
			break
		}
		res[h.cur-i] = true
	}
	return res
}

// activeAll: the default window plus whatever the storer itself lists as active (stuck-shard extension).
func (h *verifC30Harness) activeAll() map[uint32]bool {
	res := h.newestN()
	for _, e := range h.s.GetActivePersistersEpochs() {
		res[e] = true
	}
	return res
}

// retained: the newest NumOfEpochsToKeep epochs plus whatever the storer itself still maps.
func (h *verifC30Harness) retained() map[uint32]bool {
	res := map[uint32]bool{}
	if !h.cfg.pruningEnabled {
		return res
	}
	for i := uint32(0); i < h.cfg.keep; i++ {
		if h.cur < i || h.cur-i < h.mapLow {
			break
		}
		res[h.cur-i] = true
	}
	for e := range h.s.VerifC30MapEpochs() {
		res[e] = true
	}
	return res
}

func (h *verifC30Harness) newVal() []byte {
	h.valCtr++
	return []byte(fmt.Sprintf("v%d", h.valCtr))
}

// dropUnreachable: a copy whose epoch is no longer retained cannot be reached through the storer any more.
func (h *verifC30Harness) dropUnreachable() {
	if !h.cfg.pruningEnabled {
		return
	}
	ret := h.retained()
	for i := range h.model {
		m := &h.model[i]
		if (m.state == verifC30Copy || m.state == verifC30Stale) && !ret[m.epoch] && !h.cfg.fullHistory {
			m.state = verifC30None
		}
	}
}

// eligible keys for a write into epoch e: no copy of the key may exist in another epoch (domain restriction:
// the code defines no precedence between copies of one key in different epochs)
func (h *verifC30Harness) eligible(e uint32) []int {
	var r []int
	for i, m := range h.model {
		if m.state == verifC30None || m.state == verifC30Removed || m.epoch == e {
			r = append(r, i)
		}
	}
	return r
}

func (h *verifC30Harness) checkKey(i int) {
	c, s, k, m := h.c, h.s, h.keys[i], h.model[i]
	switch m.state {
	case verifC30Copy:
		if h.newestN()[m.epoch] {
			var v []byte
			var err error
			c.NoPanic("C30:get-panic", func() { v, err = s.Get(k) })
			if err != nil || !bytes.Equal(v, m.val) {
				c.Violation("C30:get-live-active", "Get(%s) = %q, %v; the key was put in epoch %d (one of the newest %d epochs) with value %q; %s", k, v, err, m.epoch, h.cfg.active, m.val, h.ctx())
			}
		}
		if h.activeAll()[m.epoch] {
			var v []byte
			var err error
			if !h.newestN()[m.epoch] {
				h.extendedClaims++
			}
			c.NoPanic("C30:has-panic", func() { err = s.Has(k) })
			if err != nil {
				c.Violation("C30:has-live-active", "Has(%s) = %v; the key was put in active epoch %d; %s", k, err, m.epoch, h.ctx())
			}
			c.NoPanic("C30:searchfirst-panic", func() { v, err = s.SearchFirst(k) })
			if err != nil || !bytes.Equal(v, m.val) {
				c.Violation("C30:searchfirst-live-active", "SearchFirst(%s) = %q, %v; the key was put in active epoch %d with value %q; %s", k, v, err, m.epoch, m.val, h.ctx())
			}
		}
		if h.retained()[m.epoch] {
			var v []byte
			var err error
			c.NoPanic("C30:getfromepoch-panic", func() { v, err = s.GetFromEpoch(k, m.epoch) })
			if err != nil || !bytes.Equal(v, m.val) {
				c.Violation("C30:getfromepoch-live-retained", "GetFromEpoch(%s, %d) = %q, %v; the key was put in that retained epoch with value %q; %s", k, m.epoch, v, err, m.val, h.ctx())
			}
			var bulk map[string][]byte
			c.NoPanic("C30:getbulk-panic", func() { bulk, err = s.GetBulkFromEpoch([][]byte{k}, m.epoch) })
			if err != nil || !bytes.Equal(bulk[string(k)], m.val) {
				c.Violation("C30:getbulk-live-retained", "GetBulkFromEpoch([%s], %d) = %q, %v; the key was put in that retained epoch with value %q; %s", k, m.epoch, bulk[string(k)], err, m.val, h.ctx())
			}
		}
	case verifC30Removed:
		var v []byte
		var err error
		c.NoPanic("C30:get-panic", func() { v, err = s.Get(k) })
		if err == nil {
			c.Violation("C30:get-after-remove", "Get(%s) = %q after the key was removed; %s", k, v, h.ctx())
		}
		c.NoPanic("C30:has-panic", func() { err = s.Has(k) })
		if err == nil {
			c.Violation("C30:has-after-remove", "Has(%s) succeeds after the key was removed; %s", k, h.ctx())
		}
		c.NoPanic("C30:searchfirst-panic", func() { v, err = s.SearchFirst(k) })
		if err == nil {
			c.Violation("C30:searchfirst-after-remove", "SearchFirst(%s) = %q after the key was removed; %s", k, v, h.ctx())
		}
		if !h.cfg.pruningEnabled {
			return
		}
		mapped := s.VerifC30MapEpochs()
		act := verifC30SortedEpochs(h.activeAll())
		for _, e := range act {
			if h.cfg.fullHistory {
				// the full history storer also looks into epoch e+1 and creates its persister when it is not
				// mapped yet: query only epochs whose successor exists
				if _, ok := mapped[e+1]; !ok {
					continue
				}
			}
			c.NoPanic("C30:getfromepoch-panic", func() { v, err = s.GetFromEpoch(k, e) })
			if err == nil {
				c.Violation("C30:getfromepoch-after-remove", "GetFromEpoch(%s, %d) = %q after the key was removed (epoch %d is active); %s", k, e, v, e, h.ctx())
			}
			var bulk map[string][]byte
			c.NoPanic("C30:getbulk-panic", func() { bulk, err = s.GetBulkFromEpoch([][]byte{k}, e) })
			if _, found := bulk[string(k)]; found {
				c.Violation("C30:getbulk-after-remove", "GetBulkFromEpoch([%s], %d) returns the key after it was removed (epoch %d is active); %s", k, e, e, h.ctx())
			}
		}
	}
}

func (h *verifC30Harness) checkAll() {
	h.dropUnreachable()
	for i := range h.keys {
		h.checkKey(i)
	}
}

func verifC30GenCfg(rt *rapid.T) verifC30Cfg {
	cfg := verifC30Cfg{}
	cfg.active = uint32(rapid.IntRange(1, 3).Draw(rt, "active"))
	cfg.keep = uint32(rapid.IntRange(int(cfg.active), 5).Draw(rt, "keep"))
	cfg.cacheCap = uint32(rapid.IntRange(2, 10).Draw(rt, "cacheCap"))
	cfg.bloom = rapid.Bool().Draw(rt, "bloom")
	cfg.start = uint32(rapid.IntRange(0, 3).Draw(rt, "start"))
	cfg.pruningEnabled = rapid.IntRange(0, 9).Draw(rt, "pruningDisabled") != 9
	cfg.fullHistory = rapid.IntRange(0, 4).Draw(rt, "fullHistory") == 4
	cfg.oldActive = uint32(rapid.IntRange(1, 3).Draw(rt, "oldActive"))
	cfg.shouldClean = rapid.IntRange(0, 3).Draw(rt, "noClean") != 3
	return cfg
}

func verifC30New(cfg verifC30Cfg, c *kit.Case, levelDBDir string) (*verifC30Harness, error) {
	h := &verifC30Harness{c: c, cfg: cfg}
	h.factory = &verifC30Factory{stores: map[string]*verifC30Store{}, levelDBDir: levelDBDir}
	notifier := &mock.EpochStartNotifierStub{RegisterHandlerCalled: func(handler epochStart.ActionHandler) { h.handler = handler }}
	args := &pruning.StorerArgs{
		Identifier:       "id",
		ShardCoordinator: mock.NewShardCoordinatorMock(0, 2),
		CacheConf:        storageUnit.CacheConfig{Type: storageUnit.LRUCache, Capacity: cfg.cacheCap, Shards: 1},
		PathManager: &testscommon.PathManagerStub{PathForEpochCalled: func(shardId string, epoch uint32, identifier string) string {
			return fmt.Sprintf("Epoch_%d/Shard_%s/%s", epoch, shardId, identifier)
		}},
		DbPath:                 "Epoch_0/Shard_0/id",
		PersisterFactory:       h.factory,
		Notifier:               notifier,
		OldDataCleanerProvider: &testscommon.OldDataCleanerProviderStub{ShouldCleanCalled: func() bool { return cfg.shouldClean }},
		MaxBatchSize:           1,
		NumOfEpochsToKeep:      cfg.keep,
		NumOfActivePersisters:  cfg.active,
		StartingEpoch:          cfg.start,
		PruningEnabled:         cfg.pruningEnabled,
	}
	if cfg.bloom {
		args.BloomFilterConf = storageUnit.BloomConfig{Size: 2048, HashFunc: []storageUnit.HasherType{storageUnit.Keccak, storageUnit.Blake2b, storageUnit.Fnv}}
	}
	var err error
	if cfg.fullHistory {
		h.s, err = pruning.NewFullHistoryPruningStorer(&pruning.FullHistoryStorerArgs{StorerArgs: args, NumOfOldActivePersisters: cfg.oldActive})
	} else {
		h.s, err = pruning.NewPruningStorer(args)
	}
	if err != nil {
		return nil, err
	}
	if h.handler == nil {
		return nil, fmt.Errorf("the storer did not register an epoch start handler")
	}
	for i := 0; i < 6; i++ {
		h.keys = append(h.keys, []byte(fmt.Sprintf("k%d", i)))
	}
	h.model = make([]verifC30Key, len(h.keys))
	h.cur = cfg.start
	h.putEpoch = cfg.start
	h.stuck = cfg.start
	if cfg.pruningEnabled {
		if cfg.start+1 > cfg.active {
			h.actLow = cfg.start + 1 - cfg.active
		}
		if cfg.start+1 > cfg.keep {
			h.mapLow = cfg.start + 1 - cfg.keep
		}
	}
	return h, nil
}

func (h *verifC30Harness) close() {
	_ = h.s.Close()
	h.factory.closeAll()
}

// --- operations -------------------------------------------------------------------------------------------

func (h *verifC30Harness) targetEpoch() uint32 {
	if !h.cfg.pruningEnabled {
		return 0
	}
	return h.putEpoch
}

func (h *verifC30Harness) opPut(rt *rapid.T) {
	if h.cfg.pruningEnabled && !h.activeAll()[h.putEpoch] {
		// as the block processors do at every commit: the put-epoch follows the current epoch
		h.s.SetEpochForPutOperation(h.cur)
		h.putEpoch = h.cur
		h.logf("SetEpochForPut(%d)", h.cur)
	}
	e := h.targetEpoch()
	el := h.eligible(e)
	if len(el) == 0 {
		rt.Skip()
	}
	i := rapid.SampledFrom(el).Draw(rt, "key")
	v := h.newVal()
	var err error
	h.c.NoPanic("C30:put-panic", func() { err = h.s.Put(h.keys[i], v) })
	h.logf("Put(%s,%s)@%d", h.keys[i], v, e)
	if err != nil {
		h.c.Violation("C30:put-error", "Put(%s) while the put-epoch %d is open failed: %v; %s", h.keys[i], e, err, h.ctx())
	}
	h.model[i] = verifC30Key{state: verifC30Copy, epoch: e, val: v}
}

func (h *verifC30Harness) opPutInEpoch(rt *rapid.T) {
	if !h.cfg.pruningEnabled {
		rt.Skip()
	}
	epochs := verifC30SortedEpochs(h.retained())
	e := rapid.SampledFrom(epochs).Draw(rt, "epoch")
	el := h.eligible(e)
	if len(el) == 0 {
		rt.Skip()
	}
	i := rapid.SampledFrom(el).Draw(rt, "key")
	v := h.newVal()
	var err error
	h.c.NoPanic("C30:putinepoch-panic", func() { err = h.s.PutInEpoch(h.keys[i], v, e) })
	h.logf("PutInEpoch(%s,%s,%d)", h.keys[i], v, e)
	if err != nil {
		h.c.Violation("C30:putinepoch-error", "PutInEpoch(%s, %d) into a retained epoch failed: %v; %s", h.keys[i], e, err, h.ctx())
	}
	h.model[i] = verifC30Key{state: verifC30Copy, epoch: e, val: v}
}

func (h *verifC30Harness) opRemove(rt *rapid.T, nonTrivial *bool) {
	i := rapid.IntRange(0, len(h.keys)-1).Draw(rt, "key")
	m := &h.model[i]
	act := h.activeAll()
	var err error
	h.c.NoPanic("C30:remove-panic", func() { err = h.s.Remove(h.keys[i]) })
	h.logf("Remove(%s)=%v", h.keys[i], err)
	switch m.state {
	case verifC30Copy, verifC30Stale:
		if act[m.epoch] {
			newest := h.s.GetActivePersistersEpochs()[0]
			if m.epoch < newest && h.changes > 0 {
				*nonTrivial = true
				h.c.Class("remove-from-older-active-epoch")
			}
			m.state = verifC30Removed
		} else {
			m.state = verifC30Stale
			h.c.Class("remove-while-copy-in-non-active-epoch")
		}
	case verifC30None:
		// nothing known about the key (a copy may sit in an unreachable epoch, the cache may hold it): no claim
	}
}

func (h *verifC30Harness) opEpochChange(rt *rapid.T) {
	e := h.cur + 1
	// oldest epoch among the last finalized headers: monotone, at most 6 behind
	lo := h.stuck
	if e > 6 && lo < e-6 {
		lo = e - 6
	}
	var oldest uint32
	switch rapid.IntRange(0, 3).Draw(rt, "finalizedKind") {
	case 0:
		oldest = e // all shards already in the new epoch
	case 1:
		oldest = e - 1
	default:
		oldest = uint32(rapid.IntRange(int(lo), int(e)).Draw(rt, "oldestFinalizedEpoch"))
	}
	if oldest < lo {
		oldest = lo
	}
	h.stuck = oldest
	nShards := rapid.IntRange(1, 3).Draw(rt, "shards")
	meta := &block.MetaBlock{Epoch: e}
	for i := 0; i < nShards; i++ {
		ep := e
		if i == 0 {
			ep = oldest
		} else if oldest < e {
			ep = uint32(rapid.IntRange(int(oldest), int(e)).Draw(rt, "finalizedEpoch"))
		}
		meta.EpochStart.LastFinalizedHeaders = append(meta.EpochStart.LastFinalizedHeaders, block.EpochStartShardData{ShardID: uint32(i), Epoch: ep})
	}
	asMeta := rapid.Bool().Draw(rt, "actionWithMetaBlock")
	h.c.NoPanic("C30:epoch-change-panic", func() {
		h.handler.EpochStartPrepare(meta, nil)
		if asMeta {
			h.handler.EpochStartAction(meta)
		} else {
			h.handler.EpochStartAction(&block.Header{Epoch: e})
		}
	})
	h.cur = e
	h.changes++
	h.logf("EpochChange(%d, oldestFinalized=%d, meta=%v)->active%v", e, oldest, asMeta, h.s.GetActivePersistersEpochs())
	if oldest+1 < e {
		h.c.Class("epoch-change-with-stuck-shard")
	}
}

func (h *verifC30Harness) opRenotify() {
	h.c.NoPanic("C30:renotify-panic", func() { h.handler.EpochStartAction(&block.Header{Epoch: h.cur}) })
	h.logf("Renotify(%d)->active%v", h.cur, h.s.GetActivePersistersEpochs())
}

func verifC30RunCase(rt *rapid.T, c *kit.Case, cfg verifC30Cfg, levelDBDir string) {
	h, err := verifC30New(cfg, c, levelDBDir)
	if err != nil {
		rt.Fatalf("fixture: %v (cfg %+v)", err, cfg)
	}
	defer h.close()
	nonTrivial := false
	rt.Repeat(map[string]func(*rapid.T){
		"put":        h.opPut,
		"put2":       h.opPut,
		"putInEpoch": h.opPutInEpoch,
		"setPutEpoch": func(rt *rapid.T) {
			if !cfg.pruningEnabled {
				rt.Skip()
			}
			e := rapid.SampledFrom(verifC30SortedEpochs(h.activeAll())).Draw(rt, "epoch")
			h.s.SetEpochForPutOperation(e)
			h.putEpoch = e
			h.logf("SetEpochForPut(%d)", e)
		},
		"read": func(rt *rapid.T) {
			h.checkKey(rapid.IntRange(0, len(h.keys)-1).Draw(rt, "key"))
		},
		"remove":      func(rt *rapid.T) { h.opRemove(rt, &nonTrivial) },
		"clearCache":  func(rt *rapid.T) { h.s.ClearCache(); h.logf("ClearCache") },
		"epochChange": h.opEpochChange,
		"renotify": func(rt *rapid.T) {
			if rapid.IntRange(0, 2).Draw(rt, "really") != 0 {
				rt.Skip()
			}
			h.opRenotify()
		},
		"": func(rt *rapid.T) {
			if levelDBDir != "" {
				// real LevelDB is slow (every read of a closed epoch reopens a database): one key per step,
				// all keys at the end of the program
				h.dropUnreachable()
				h.checkKey(rapid.IntRange(0, len(h.keys)-1).Draw(rt, "checkedKey"))
				return
			}
			h.checkAll()
			if rapid.IntRange(0, 2).Draw(rt, "clearCacheInCheck") == 0 {
				h.s.ClearCache()
				h.logf("ClearCache")
				h.checkAll()
			}
		},
	})
	if levelDBDir != "" {
		h.checkAll()
		h.s.ClearCache()
		h.logf("ClearCache")
		h.checkAll()
	}
	if h.factory.doubleOpen > 0 {
		c.Class("path-opened-while-open")
	}
	switch {
	case !cfg.pruningEnabled:
		c.Class("cfg-pruning-disabled")
	case cfg.fullHistory:
		c.Class("cfg-full-history")
	default:
		c.Class("cfg-pruning")
	}
	if h.changes > 0 {
		c.Class("with-epoch-change")
	}
	if h.extendedClaims > 0 {
		c.Class("with-read-claims-in-extended-epoch")
	}
	if nonTrivial {
		c.NonTrivial(fmt.Sprintf("%+v %s", cfg, strings.Join(h.trace, "|")))
		c.Sample("cfg %+v: %s", cfg, strings.Join(h.trace, " | "))
	}
}

func TestVerifC30_Model(t *testing.T) {
	kit.Run(t, "C30", kit.Budget{Quick: 2500, Thorough: 15000, Steps: 40},
		"config: active persisters 1..3, epochs to keep active..5, LRU cache 2..10, bloom on/off, starting epoch 0..3, pruning disabled (10 %), full-history storer (20 %), cleaner on/off; program over 6 keys of Put, PutInEpoch(retained epoch), SetEpochForPutOperation(active epoch), reads, Remove, ClearCache, epoch change e->e+1 through the registered handler (prepare + action, shard header or meta block, last-finalized epochs drawn: stuck shards), re-notification of the current epoch; in-memory persister per path that survives close/reopen; model = key -> one copy (value, epoch) | removed; non-trivial = Remove of a key whose copy sits in an older, still active epoch after >= 1 epoch change; distinct by (config, trace)",
		func(rt *rapid.T, c *kit.Case) {
			verifC30RunCase(rt, c, verifC30GenCfg(rt), "")
		})
}

// Same programs against real LevelDB (SerialDB, the production persister) in a temporary directory.
func TestVerifC30_LevelDB(t *testing.T) {
	base := t.TempDir()
	n := 0
	kit.Run(t, "C30", kit.Budget{Quick: 6, Thorough: 40, Steps: 12},
		"same generator and model with real LevelDB (leveldb.NewSerialDB) persisters in a temporary directory",
		func(rt *rapid.T, c *kit.Case) {
			n++
			dir := filepath.Join(base, fmt.Sprintf("case%d", n))
			defer func() { _ = os.RemoveAll(dir) }()
			cfg := verifC30GenCfg(rt)
			cfg.levelDB = true
			verifC30RunCase(rt, c, cfg, dir)
		})
}

// Regression: minimal counterexample of the Remove defect (suspicion 12), with the in-memory persister and
// with real LevelDB.
func TestVerifC30_Regress(t *testing.T) {
	kit.Silence()
	for _, useLevelDB := range []bool{false, true} {
		dir := ""
		if useLevelDB {
			dir = t.TempDir()
		}
		cfg := verifC30Cfg{active: 2, keep: 2, cacheCap: 10, pruningEnabled: true, shouldClean: true, levelDB: useLevelDB}
		h, err := verifC30New(cfg, nil, dir)
		if err != nil {
			t.Fatalf("fixture: %v", err)
		}
		k, v := []byte("k0"), []byte("v1")
		if err = h.s.Put(k, v); err != nil {
			t.Fatalf("fixture: put: %v", err)
		}
		meta := &block.MetaBlock{Epoch: 1, EpochStart: block.EpochStart{LastFinalizedHeaders: []block.EpochStartShardData{{Epoch: 1}}}}
		h.handler.EpochStartPrepare(meta, nil)
		h.handler.EpochStartAction(&block.Header{Epoch: 1})
		if got, errGet := h.s.Get(k); errGet != nil || !bytes.Equal(got, v) {
			h.close()
			kit.FailPlain(t, "C30", "C30:get-live-active", "Get after an epoch change = %q, %v (active epochs %v)", got, errGet, h.s.GetActivePersistersEpochs())
		}
		_ = h.s.Remove(k)
		got, errGet := h.s.Get(k)
		errHas := h.s.Has(k)
		_, errSearch := h.s.SearchFirst(k)
		_, errEpoch := h.s.GetFromEpoch(k, 0)
		active := h.s.GetActivePersistersEpochs()
		h.close()
		if errGet == nil {
			kit.FailPlain(t, "C30", "C30:get-after-remove", "levelDB=%v: Put(k0)@0, epoch change to 1 (active %v), Remove(k0), Get(k0) = %q", useLevelDB, active, got)
		}
		if errHas == nil {
			kit.FailPlain(t, "C30", "C30:has-after-remove", "levelDB=%v: Has(k0) succeeds after Remove", useLevelDB)
		}
		if errSearch == nil {
			kit.FailPlain(t, "C30", "C30:searchfirst-after-remove", "levelDB=%v: SearchFirst(k0) succeeds after Remove", useLevelDB)
		}
		if errEpoch == nil {
			kit.FailPlain(t, "C30", "C30:getfromepoch-after-remove", "levelDB=%v: GetFromEpoch(k0, 0) succeeds after Remove", useLevelDB)
		}
	}
}
