package pruning

// Bridge for the C30 harness (package pruning_test): read-only view of persistersMapByEpoch.

// VerifC30MapEpochs returns the epochs that currently have an entry in persistersMapByEpoch (the
// retained epochs) together with their closed flag.
func (ps *PruningStorer) VerifC30MapEpochs() map[uint32]bool {
	ps.lock.RLock()
	defer ps.lock.RUnlock()

	res := make(map[uint32]bool, len(ps.persistersMapByEpoch))
	for e, pd := range ps.persistersMapByEpoch {
		res[e] = pd.getIsClosed()
	}
	return res
}
