package immunitycache

import (
	"fmt"
	"strings"
	"testing"

	kit "github.com/ElrondNetwork/elrond-go/verifkit"
	"pgregory.net/rapid"
)

// C27: Cross-shard pool cache never evicts immune items and keeps admitting.
//
// Model: key -> (size, payload, immune), set of immune keys (present or future), per chunk the key
// admitted last. The model never predicts WHICH non-immune item is evicted: after every step the
// model is reconciled with the cache (a non-immune key that disappeared is "evicted"), and only the
// stated facts are asserted.

type verifC27Item struct {
	size    int
	payload string
	immune  bool
}

type verifC27Model struct {
	cfg          CacheConfig
	perItems     int // configured per chunk: total / number of chunks (rounded down)
	perBytes     int
	items        map[string]*verifC27Item
	immuneKeys   map[string]struct{}
	lastAdmitted map[uint32]string
	universe     []string
	chunkOf      map[string]uint32
	log          []string
	fullAdmit    bool
}

func (m *verifC27Model) logf(format string, args ...interface{}) {
	if len(m.log) < 400 {
		m.log = append(m.log, fmt.Sprintf(format, args...))
	}
}

func (m *verifC27Model) describe() string {
	return fmt.Sprintf("config{NumChunks:%d MaxNumItems:%d MaxNumBytes:%d NumItemsToPreemptivelyEvict:%d} program: %s",
		m.cfg.NumChunks, m.cfg.MaxNumItems, m.cfg.MaxNumBytes, m.cfg.NumItemsToPreemptivelyEvict, strings.Join(m.log, "; "))
}

// chunkState computes, from the model only, the state of one chunk.
func (m *verifC27Model) chunkState(chunk uint32) (count, bytes, nonImmune int) {
	for k, it := range m.items {
		if m.chunkOf[k] != chunk {
			continue
		}
		count++
		bytes += it.size
		if !it.immune {
			nonImmune++
		}
	}
	return
}

// verifC27PerChunk is the per-chunk share of a configured total: total / chunks rounded down, but at
// least 1 (a chunk limit of 0 could never admit, which the statement's third sentence excludes; on a tree
// where such a chunk admits nothing the bound is trivially respected).
func verifC27PerChunk(total, numChunks uint32) int {
	v := int(total / numChunks)
	if v < 1 {
		v = 1
	}
	return v
}

func verifC27GenConfig(rt *rapid.T) CacheConfig {
	var numChunks uint32
	if rapid.IntRange(0, 3).Draw(rt, "chunksKind") == 0 {
		numChunks = uint32(rapid.IntRange(1, 128).Draw(rt, "numChunks"))
	} else {
		numChunks = rapid.SampledFrom([]uint32{1, 2, 3, 7, 16, 128}).Draw(rt, "numChunksBiased")
	}
	// every field = perChunk*numChunks + remainder: perChunk 0 and non-zero remainders are the interesting part
	part := func(label string, perChunkMax int, floor uint32) uint32 {
		per := uint32(rapid.IntRange(0, perChunkMax).Draw(rt, label+"PerChunk"))
		rem := uint32(0)
		if numChunks > 1 && rapid.IntRange(0, 2).Draw(rt, label+"RemKind") > 0 {
			rem = uint32(rapid.IntRange(0, int(numChunks)-1).Draw(rt, label+"Rem"))
		}
		v := per*numChunks + rem
		if v < floor {
			v = floor
		}
		return v
	}
	cfg := CacheConfig{Name: "verif", NumChunks: numChunks}
	cfg.MaxNumItems = part("items", 6, 0)
	if rapid.IntRange(0, 2).Draw(rt, "bytesKind") == 0 {
		cfg.MaxNumBytes = part("bytes", 60, 0)
	} else {
		cfg.MaxNumBytes = part("bytesLarge", 4000, 0)
	}
	cfg.NumItemsToPreemptivelyEvict = part("evict", 3, 0)
	// values below the documented lower bounds are drawn rarely (they must be rejected by Verify)
	if rapid.IntRange(0, 19).Draw(rt, "belowBounds") != 0 {
		if cfg.MaxNumItems < maxNumItemsLowerBound {
			cfg.MaxNumItems = maxNumItemsLowerBound
		}
		if cfg.MaxNumBytes < maxNumBytesLowerBound {
			cfg.MaxNumBytes = maxNumBytesLowerBound
		}
		if cfg.NumItemsToPreemptivelyEvict < numItemsToPreemptivelyEvictLowerBound {
			cfg.NumItemsToPreemptivelyEvict = numItemsToPreemptivelyEvictLowerBound
		}
	}
	return cfg
}

// verifC27Universe picks keys so that several fall into the same (focus) chunks.
func verifC27Universe(rt *rapid.T, cache *ImmunityCache, m *verifC27Model) {
	numChunks := m.cfg.NumChunks
	nFocus := rapid.IntRange(1, 3).Draw(rt, "numFocusChunks")
	quota := map[uint32]int{}
	for i := 0; i < nFocus; i++ {
		f := uint32(rapid.IntRange(0, int(numChunks)-1).Draw(rt, "focusChunk"))
		quota[f] = m.perItems + 4
		if quota[f] > 12 {
			quota[f] = 12
		}
	}
	others := 5
	for i := 0; i < 200000 && (len(quota) > 0 || others > 0); i++ {
		k := fmt.Sprintf("k%d", i)
		ch := cache.getChunkIndexByKey(k)
		if q, ok := quota[ch]; ok {
			m.universe = append(m.universe, k)
			m.chunkOf[k] = ch
			if q == 1 {
				delete(quota, ch)
			} else {
				quota[ch] = q - 1
			}
			continue
		}
		if others > 0 {
			others--
			m.universe = append(m.universe, k)
			m.chunkOf[k] = ch
		}
	}
}

// verifC27Reconcile compares the cache with the model over the whole key universe and asserts the
// stated invariants; non-immune keys that disappeared are taken over as evictions.
func verifC27Reconcile(c *kit.Case, cache *ImmunityCache, m *verifC27Model) {
	for _, k := range m.universe {
		it, inModel := m.items[k]
		v, ok := cache.Get([]byte(k))
		switch {
		case inModel && !ok:
			if it.immune {
				c.Violation("C27:immune-item-evicted", "immune key %s is no longer in the cache; %s", k, m.describe())
			}
			delete(m.items, k)
			c.Class("evicted")
		case !inModel && ok:
			c.Violation("C27:phantom-item", "key %s is in the cache but was never added / was removed; %s", k, m.describe())
		case inModel && ok:
			if s, isString := v.(string); !isString || s != it.payload {
				c.Violation("C27:wrong-payload", "key %s holds %v, want %s; %s", k, v, it.payload, m.describe())
			}
		}
	}
	// (4) counters equal the sums over the items that are present
	count, bytes := 0, 0
	for _, it := range m.items {
		count++
		bytes += it.size
	}
	if cache.Count() != count || cache.Len() != count {
		c.Violation("C27:count-mismatch", "Count()=%d, %d keys present; %s", cache.Count(), count, m.describe())
	}
	if cache.NumBytes() != bytes {
		c.Violation("C27:numbytes-mismatch", "NumBytes()=%d, sum of present sizes %d; %s", cache.NumBytes(), bytes, m.describe())
	}
	// (2) per chunk: non-immune items within the configured per-chunk limits (bytes: before each admission)
	type acc struct{ n, b int }
	per := map[uint32]*acc{}
	for k, it := range m.items {
		if it.immune {
			continue
		}
		ch := m.chunkOf[k]
		a := per[ch]
		if a == nil {
			a = &acc{}
			per[ch] = a
		}
		a.n++
		if m.lastAdmitted[ch] != k {
			a.b += it.size
		}
	}
	for ch, a := range per {
		if a.n > m.perItems {
			c.Violation("C27:chunk-items-over-limit", "chunk %d holds %d non-immune items, per-chunk limit %d; %s", ch, a.n, m.perItems, m.describe())
		}
		if a.b > m.perBytes {
			c.Violation("C27:chunk-bytes-over-limit", "chunk %d holds %d non-immune bytes besides the item admitted last, per-chunk limit %d; %s", ch, a.b, m.perBytes, m.describe())
		}
	}
}

func verifC27Add(c *kit.Case, cache *ImmunityCache, m *verifC27Model, k string, size int, seq int, viaPut bool) {
	payload := fmt.Sprintf("%s/%d/%d", k, size, seq)
	ch := m.chunkOf[k]
	_, wasPresent := m.items[k]
	count, bytes, nonImmune := m.chunkState(ch)
	atCapacity := count >= m.perItems || bytes >= m.perBytes
	// a refusal is explained only by a chunk that is full of immune items
	refusalJustified := nonImmune == 0 && count >= 1 && atCapacity

	var has, added bool
	if viaPut {
		c.NoPanic("C27:panic", func() { cache.Put([]byte(k), payload, size) })
		got, ok := cache.Get([]byte(k))
		added = ok && got == interface{}(payload)
		has = ok && !added
		m.logf("Put(%s,%d)", k, size)
	} else {
		c.NoPanic("C27:panic", func() { has, added = cache.HasOrAdd([]byte(k), payload, size) })
		m.logf("HasOrAdd(%s,%d)=%v,%v", k, size, has, added)
	}

	if !wasPresent {
		c.Class("add-new")
		if atCapacity {
			c.Class("add-new-to-full-chunk")
			if nonImmune > 0 {
				m.fullAdmit = true
			}
		}
		if has && !viaPut {
			c.Violation("C27:has-for-absent-key", "HasOrAdd(%s) reports has=true for a key that is not in the cache; %s", k, m.describe())
		}
		if !added {
			if !refusalJustified {
				c.Violation("C27:not-admitted", "new key %s (chunk %d: %d items, %d bytes, %d non-immune; per-chunk limits %d items, %d bytes) was not admitted; %s",
					k, ch, count, bytes, nonImmune, m.perItems, m.perBytes, m.describe())
			}
			c.Class("refused-chunk-full-of-immune")
		}
	}
	if added {
		got, ok := cache.Get([]byte(k))
		if !ok || got != interface{}(payload) {
			c.Violation("C27:added-not-retrievable", "HasOrAdd(%s) returned added=true but Get gives %v,%v; %s", k, got, ok, m.describe())
		}
		_, immune := m.immuneKeys[k]
		m.items[k] = &verifC27Item{size: size, payload: payload, immune: immune}
		m.lastAdmitted[ch] = k
		if immune {
			c.Class("added-immune-by-earlier-immunize")
		}
	}
}

func verifC27Program(rt *rapid.T, c *kit.Case) {
	cfg := verifC27GenConfig(rt)
	if err := cfg.Verify(); err != nil {
		c.Class("rejected-by-Verify")
		if _, err2 := NewImmunityCache(cfg); err2 == nil {
			c.Violation("C27:constructor-accepts-rejected-config", "Verify() rejects %+v but NewImmunityCache accepts it", cfg)
		}
		return
	}
	cache, err := NewImmunityCache(cfg)
	if err != nil {
		c.Violation("C27:constructor-rejects-verified-config", "Verify() accepts %+v but NewImmunityCache fails: %v", cfg, err)
	}
	m := &verifC27Model{
		cfg:          cfg,
		perItems:     verifC27PerChunk(cfg.MaxNumItems, cfg.NumChunks),
		perBytes:     verifC27PerChunk(cfg.MaxNumBytes, cfg.NumChunks),
		items:        map[string]*verifC27Item{},
		immuneKeys:   map[string]struct{}{},
		lastAdmitted: map[uint32]string{},
		chunkOf:      map[string]uint32{},
	}
	verifC27Universe(rt, cache, m)
	if len(m.universe) == 0 {
		rt.Fatalf("fixture: empty key universe")
	}
	keyGen := rapid.SampledFrom(m.universe)
	sizeGen := rapid.OneOf(rapid.IntRange(0, 3), rapid.IntRange(0, 50), rapid.IntRange(0, 50), rapid.Just(1))
	seq := 0

	rt.Repeat(map[string]func(*rapid.T){
		"add": func(t *rapid.T) {
			seq++
			verifC27Add(c, cache, m, keyGen.Draw(t, "key"), sizeGen.Draw(t, "size"), seq, false)
		},
		"addMore": func(t *rapid.T) {
			seq++
			verifC27Add(c, cache, m, keyGen.Draw(t, "key"), sizeGen.Draw(t, "size"), seq, false)
		},
		"put": func(t *rapid.T) {
			seq++
			verifC27Add(c, cache, m, keyGen.Draw(t, "key"), sizeGen.Draw(t, "size"), seq, true)
		},
		"immunize": func(t *rapid.T) {
			keys := rapid.SliceOfN(keyGen, 1, 4).Draw(t, "keys")
			bkeys := make([][]byte, len(keys))
			for i, k := range keys {
				bkeys[i] = []byte(k)
			}
			var now, future int
			c.NoPanic("C27:panic", func() { now, future = cache.ImmunizeKeys(bkeys) })
			m.logf("Immunize(%s)=%d,%d", strings.Join(keys, ","), now, future)
			// the cache refuses an immunization as a whole when the immune keys would outnumber MaxNumItems
			// (storage.ErrImmuneItemsCapacityReached) and then reports 0,0; the gate itself is not part of the property
			if now+future == 0 {
				c.Class("immunize-refused-capacity")
				return
			}
			if now+future != len(keys) {
				t.Fatalf("fixture: ImmunizeKeys of %d keys reports %d now + %d future", len(keys), now, future)
			}
			c.Class("immunize")
			for _, k := range keys {
				m.immuneKeys[k] = struct{}{}
				if it, ok := m.items[k]; ok {
					it.immune = true
					c.Class("immunize-present-key")
				}
			}
		},
		"remove": func(t *rapid.T) {
			k := keyGen.Draw(t, "key")
			_, present := m.items[k]
			var removed bool
			c.NoPanic("C27:panic", func() { removed = cache.RemoveWithResult([]byte(k)) })
			m.logf("Remove(%s)=%v", k, removed)
			if removed != present {
				c.Violation("C27:remove-result", "RemoveWithResult(%s)=%v, key present: %v; %s", k, removed, present, m.describe())
			}
			delete(m.items, k)
			delete(m.immuneKeys, k)
			c.Class("remove")
		},
		"clear": func(t *rapid.T) {
			if rapid.IntRange(0, 3).Draw(t, "reallyClear") != 0 {
				t.Skip()
			}
			c.NoPanic("C27:panic", func() { cache.Clear() })
			m.logf("Clear")
			m.items = map[string]*verifC27Item{}
			m.immuneKeys = map[string]struct{}{}
			m.lastAdmitted = map[uint32]string{}
			c.Class("clear")
		},
		"": func(t *rapid.T) {
			verifC27Reconcile(c, cache, m)
		},
	})

	uneven := cfg.MaxNumItems%cfg.NumChunks != 0 || cfg.MaxNumBytes%cfg.NumChunks != 0 || cfg.NumItemsToPreemptivelyEvict%cfg.NumChunks != 0
	if m.fullAdmit && uneven {
		c.NonTrivial(m.describe())
		c.Sample("%s", m.describe())
	}
	if m.fullAdmit {
		c.Class("case-with-admission-to-full-chunk")
	}
}

func TestVerifC27_Program(t *testing.T) {
	kit.Run(t, "C27", kit.Budget{Quick: 2500, Thorough: 25000, Steps: 45},
		"CacheConfig = per-chunk part (may be 0) * NumChunks + remainder for MaxNumItems, MaxNumBytes, NumItemsToPreemptivelyEvict, NumChunks 1..128 (biased 1,2,3,7,16,128); configs rejected by Verify() are counted and skipped; programs of HasOrAdd/Put (size 0..50), ImmunizeKeys (present and future keys), RemoveWithResult, Clear over keys chosen to share 1-3 chunks; after every step the cache is compared with the model over the whole key universe; non-trivial = a chunk at capacity holding a non-immune item receives a new key under a configuration where some limit is not a multiple of NumChunks; distinct by config+program",
		verifC27Program)
}

// TestVerifC27_ConfigGrid enumerates a grid of configurations around the multiples of NumChunks: every
// configuration accepted by Verify() must yield a cache in which a chunk keeps admitting new keys
// (no immune items involved).
func TestVerifC27_ConfigGrid(t *testing.T) {
	p := kit.NewPlain(t, "C27", "grid: NumChunks 1..128 x MaxNumItems,MaxNumBytes,NumItemsToPreemptivelyEvict in {lower bound, N-1, N, N+1, 2N-1, 2N+1, 3N+1, large}; for each config accepted by Verify(), perChunk+3 distinct keys of one chunk (size 1) are added: each must be admitted and retrievable, the chunk never holds more than its per-chunk limit; non-trivial = accepted config with a limit that is not a multiple of NumChunks")
	defer p.Done()
	for n := uint32(1); n <= 128; n++ {
		// keys of chunk 0 for this number of chunks
		var keys []string
		for i := 0; len(keys) < 8 && i < 1000000; i++ {
			k := fmt.Sprintf("g%d", i)
			if fnv32Hash(k)%n == 0 {
				keys = append(keys, k)
			}
		}
		cand := func(lower uint32, large uint32) []uint32 {
			vals := []uint32{lower, n - 1, n, n + 1, 2*n - 1, 2*n + 1, 3*n + 1, large}
			out := []uint32{}
			seen := map[uint32]bool{}
			for _, v := range vals {
				if v < lower || seen[v] {
					continue
				}
				seen[v] = true
				out = append(out, v)
			}
			return out
		}
		for _, items := range cand(maxNumItemsLowerBound, 100000) {
			for _, bytes := range cand(maxNumBytesLowerBound, 1<<20) {
				for _, evict := range cand(numItemsToPreemptivelyEvictLowerBound, 1000) {
					cfg := CacheConfig{Name: "grid", NumChunks: n, MaxNumItems: items, MaxNumBytes: bytes, NumItemsToPreemptivelyEvict: evict}
					p.Eval(1)
					if cfg.Verify() != nil {
						p.Class("rejected-by-Verify", 1)
						continue
					}
					cache, err := NewImmunityCache(cfg)
					if err != nil {
						p.Violation("C27:constructor-rejects-verified-config", "%+v: %v", cfg, err)
						continue
					}
					perItems := verifC27PerChunk(items, n)
					num := perItems + 3
					if num > len(keys) {
						num = len(keys)
					}
					if items%n != 0 || bytes%n != 0 || evict%n != 0 {
						p.NonTrivial(fmt.Sprint(cfg))
						p.Sample("%+v", cfg)
					}
					for i := 0; i < num; i++ {
						_, added := cache.HasOrAdd([]byte(keys[i]), i, 1)
						_, ok := cache.Get([]byte(keys[i]))
						if !added || !ok {
							p.Violation("C27:not-admitted", "config %+v (accepted by Verify): key #%d of one chunk (size 1, nothing immune) not admitted: added=%v retrievable=%v", cfg, i+1, added, ok)
							break
						}
						if cache.Count() > perItems {
							p.Violation("C27:chunk-items-over-limit", "config %+v: chunk holds %d items, per-chunk limit %d", cfg, cache.Count(), perItems)
							break
						}
					}
				}
			}
		}
	}
}

// regression: the minimal counterexamples of the getChunkConfig defect.
func TestVerifC27_Regress(t *testing.T) {
	kit.Silence()
	for _, cfg := range []CacheConfig{
		{Name: "r", NumChunks: 16, MaxNumItems: 8, MaxNumBytes: 4000, NumItemsToPreemptivelyEvict: 16},  // per-chunk maxNumItems 0
		{Name: "r", NumChunks: 2, MaxNumItems: 4, MaxNumBytes: 4000, NumItemsToPreemptivelyEvict: 1},    // per-chunk eviction step 0
		{Name: "r", NumChunks: 16, MaxNumItems: 64, MaxNumBytes: 15, NumItemsToPreemptivelyEvict: 1000}, // per-chunk maxNumBytes 0
	} {
		if cfg.Verify() != nil {
			continue // rejected: nothing is promised
		}
		cache, err := NewImmunityCache(cfg)
		if err != nil {
			t.Fatalf("fixture: %v", err)
		}
		var keys []string
		for i := 0; len(keys) < 8; i++ {
			k := fmt.Sprintf("g%d", i)
			if fnv32Hash(k)%cfg.NumChunks == 0 {
				keys = append(keys, k)
			}
		}
		for i, k := range keys {
			_, added := cache.HasOrAdd([]byte(k), i, 1)
			if !added {
				kit.FailPlain(t, "C27", "C27:not-admitted", "config %+v is accepted by Verify() but key #%d of one chunk (size 1, nothing immune) is not admitted", cfg, i+1)
			}
		}
	}
}
