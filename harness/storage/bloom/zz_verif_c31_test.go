package bloom_test

import (
	"fmt"
	"sync"
	"testing"

	"github.com/ElrondNetwork/elrond-go/hashing"
	"github.com/ElrondNetwork/elrond-go/hashing/blake2b"
	"github.com/ElrondNetwork/elrond-go/hashing/fnv"
	"github.com/ElrondNetwork/elrond-go/hashing/keccak"
	"github.com/ElrondNetwork/elrond-go/storage/bloom"
	kit "github.com/ElrondNetwork/elrond-go/verifkit"
	"pgregory.net/rapid"
)

// C31: Bloom filter has no false negatives and is race-free.

var verifC31HasherNames = []string{"keccak", "blake2b", "fnv"}

func verifC31Hashers(mask int) ([]hashing.Hasher, string) {
	all := []hashing.Hasher{keccak.NewKeccak(), blake2b.NewBlake2b(), fnv.NewFnv()}
	var hs []hashing.Hasher
	name := ""
	for i := range all {
		if mask&(1<<i) != 0 {
			hs = append(hs, all[i])
			name += verifC31HasherNames[i] + "+"
		}
	}
	return hs, name
}

// verifC31Filter draws hashers (any non-empty subset of the three the node configures) and a size.
func verifC31Filter(rt *rapid.T, c *kit.Case, maxSize int) (f *bloom.Bloom, size uint, desc string) {
	if rapid.IntRange(0, 29).Draw(rt, "default") == 0 {
		return bloom.NewDefaultFilter(), 2048, "NewDefaultFilter()"
	}
	mask := rapid.IntRange(1, 7).Draw(rt, "hashers")
	hs, name := verifC31Hashers(mask)
	// NewFilter documents size > number of hashers; smaller sizes must be rejected
	switch rapid.IntRange(0, 9).Draw(rt, "sizeKind") {
	case 0:
		size = uint(rapid.IntRange(0, len(hs)).Draw(rt, "tooSmall"))
	case 1, 2, 3, 4, 5:
		size = uint(rapid.IntRange(len(hs)+1, 16).Draw(rt, "smallSize"))
	case 6:
		size = uint(rapid.IntRange(len(hs)+1, 64).Draw(rt, "mediumSize"))
	default:
		size = uint(rapid.IntRange(len(hs)+1, maxSize).Draw(rt, "size"))
	}
	desc = fmt.Sprintf("NewFilter(%d, %s)", size, name)
	f, err := bloom.NewFilter(size, hs)
	if err != nil {
		if size > uint(len(hs)) {
			rt.Fatalf("fixture: %s: %v", desc, err)
		}
		c.Class("rejected")
		return nil, size, desc
	}
	if size <= uint(len(hs)) {
		rt.Fatalf("fixture: %s accepted although documented as too small", desc)
	}
	return f, size, desc
}

func verifC31KeyGen() *rapid.Generator[[]byte] {
	return rapid.OneOf(
		rapid.SliceOfN(rapid.Byte(), 0, 64),
		rapid.SliceOfN(rapid.Byte(), 1, 64),
		rapid.SliceOfN(rapid.Byte(), 0, 3),
		rapid.SliceOfN(rapid.Byte(), 32, 32),
		rapid.SliceOfN(rapid.Byte(), 0, 1),
	)
}

func TestVerifC31_Seq(t *testing.T) {
	kit.Run(t, "C31", kit.Budget{Quick: 3000, Thorough: 30000, Steps: 90},
		"filter of len(hashers)+1..4096 bytes (biased to <=16), hashers any non-empty subset of {keccak, blake2b, fnv} or the default filter; keys of 0..64 bytes (also empty, 32 bytes); interleaved Add / MayContain (mostly of added keys) / Clear; every key added since the last Clear must be reported (checked at queries, before every Clear and at the end for all keys); non-trivial = >=20 distinct keys in a filter of <=16 bytes; distinct by filter+keys",
		func(rt *rapid.T, c *kit.Case) {
			f, size, desc := verifC31Filter(rt, c, 4096)
			if f == nil {
				return
			}
			keyGen := verifC31KeyGen()
			// A caller may build its keys in a buffer that it overwrites for the next call (the filter takes a []byte and
			// must not rely on it afterwards): keys are passed either as a fresh slice or through one of three reused buffers.
			var bufs [3][]byte
			for i := range bufs {
				bufs[i] = make([]byte, 64)
			}
			pass := func(t *rapid.T, k []byte) []byte {
				if rapid.IntRange(0, 2).Draw(t, "viaReusedBuffer") == 0 {
					return k
				}
				b := bufs[rapid.IntRange(0, len(bufs)-1).Draw(t, "buffer")]
				c.Class("key-in-reused-buffer")
				return b[:copy(b, k)]
			}
			var added [][]byte
			seen := map[string]bool{}
			maxDistinct := 0
			steps := 0
			checkAll := func(when string) {
				for _, k := range added {
					if !f.MayContain(k) {
						c.Violation("C31:false-negative", "%s: key %x was added (%d keys since the last Clear) but MayContain is false (%s)", desc, k, len(added), when)
					}
				}
			}
			add := func(t *rapid.T) {
				k := keyGen.Draw(t, "key")
				arg := pass(t, k)
				c.NoPanic("C31:panic", func() { f.Add(arg) })
				steps++
				added = append(added, k)
				if !seen[string(k)] {
					seen[string(k)] = true
					if len(seen) > maxDistinct {
						maxDistinct = len(seen)
					}
				}
				var ok bool
				c.NoPanic("C31:panic", func() { ok = f.MayContain(arg) })
				if !ok {
					c.Violation("C31:false-negative", "%s: MayContain(%x) is false right after Add", desc, k)
				}
			}
			rt.Repeat(map[string]func(*rapid.T){
				"Add":  add,
				"Add2": add,
				"Add3": add,
				"QueryAdded": func(t *rapid.T) {
					if len(added) == 0 {
						t.Skip()
					}
					k := rapid.SampledFrom(added).Draw(t, "addedKey")
					arg := pass(t, k)
					var ok bool
					c.NoPanic("C31:panic", func() { ok = f.MayContain(arg) })
					if !ok {
						c.Violation("C31:false-negative", "%s: key %x was added (%d keys since the last Clear) but MayContain is false", desc, k, len(added))
					}
				},
				"QueryAny": func(t *rapid.T) {
					k := keyGen.Draw(t, "key")
					arg := pass(t, k)
					var ok bool
					c.NoPanic("C31:panic", func() { ok = f.MayContain(arg) })
					if seen[string(k)] {
						if !ok {
							c.Violation("C31:false-negative", "%s: key %x was added but MayContain is false", desc, k)
						}
					} else if ok {
						c.Class("query-not-added-true")
					} else {
						c.Class("query-not-added-false")
					}
				},
				"Clear": func(t *rapid.T) {
					if rapid.IntRange(0, 15).Draw(t, "really") != 0 {
						t.Skip()
					}
					checkAll("before Clear")
					c.NoPanic("C31:panic", func() { f.Clear() })
					added = nil
					seen = map[string]bool{}
					c.Class("clear")
				},
				"": func(t *rapid.T) {},
			})
			checkAll("end of program")
			if maxDistinct >= 20 && size <= 16 {
				c.NonTrivial(fmt.Sprintf("%s %x", desc, added))
				c.Sample("%s with %d distinct keys", desc, maxDistinct)
			}
			if maxDistinct >= 20 {
				c.Class("ge-20-distinct-keys")
			}
		})
}

// ---- concurrent part (target built with -race)

type verifC31Op struct {
	add    bool
	key    []byte
	viaBuf bool // pass the key through the goroutine's reused buffer
}

func TestVerifC31_Race(t *testing.T) {
	kit.Run(t, "C31", kit.Budget{Quick: 300, Thorough: 3000},
		"2-6 goroutines, each a generated program of 5-40 Add / MayContain calls over a pool of shared keys and keys private to the goroutine, started behind a barrier on one filter (size biased to <=16 bytes); two concurrent phases separated by a sequential Clear in some cases; oracle = race detector + every key added in the last phase is reported after the goroutines have joined; non-trivial = one goroutine queries while another adds (both kinds of calls present in different goroutines of a phase)",
		func(rt *rapid.T, c *kit.Case) {
			f, _, desc := verifC31Filter(rt, c, 512)
			if f == nil {
				return
			}
			keyGen := verifC31KeyGen()
			shared := rapid.SliceOfN(keyGen, 1, 6).Draw(rt, "sharedKeys")
			phases := 1
			if rapid.IntRange(0, 3).Draw(rt, "twoPhases") == 0 {
				phases = 2
			}
			nonTrivial := false
			for ph := 0; ph < phases; ph++ {
				ng := rapid.IntRange(2, 6).Draw(rt, "goroutines")
				progs := make([][]verifC31Op, ng)
				adders, queriers := map[int]bool{}, map[int]bool{}
				for g := range progs {
					n := rapid.IntRange(5, 40).Draw(rt, "numOps")
					addBias := rapid.IntRange(0, 4).Draw(rt, "addBias") // 0: only queries, 4: only adds
					for i := 0; i < n; i++ {
						op := verifC31Op{add: rapid.IntRange(1, 4).Draw(rt, "kind") <= addBias}
						if rapid.Bool().Draw(rt, "sharedKey") {
							op.key = rapid.SampledFrom(shared).Draw(rt, "key")
						} else {
							op.key = append([]byte{byte(g)}, keyGen.Draw(rt, "privateKey")...)
						}
						op.viaBuf = rapid.IntRange(0, 2).Draw(rt, "viaReusedBuffer") != 0
						if op.add {
							adders[g] = true
						} else {
							queriers[g] = true
						}
						progs[g] = append(progs[g], op)
					}
				}
				for a := range adders {
					for q := range queriers {
						if a != q {
							nonTrivial = true
						}
					}
				}
				var start, done sync.WaitGroup
				start.Add(1)
				panics := make([]interface{}, ng)
				falseNeg := make([][]byte, ng)
				for g := range progs {
					done.Add(1)
					go func(g int) {
						defer done.Done()
						defer func() { panics[g] = recover() }()
						mine := map[string]bool{}
						buf := make([]byte, 80)
						start.Wait()
						for _, op := range progs[g] {
							arg := op.key
							if op.viaBuf {
								arg = buf[:copy(buf, op.key)]
							}
							if op.add {
								f.Add(arg)
								mine[string(op.key)] = true
							} else if !f.MayContain(arg) && mine[string(op.key)] && falseNeg[g] == nil {
								// this goroutine itself added the key earlier in this phase and nobody clears concurrently
								falseNeg[g] = op.key
							}
						}
					}(g)
				}
				start.Done()
				done.Wait()
				for g := range progs {
					if panics[g] != nil {
						c.Violation("C31:panic-concurrent", "%s: goroutine %d panicked: %v", desc, g, panics[g])
					}
					if falseNeg[g] != nil {
						c.Violation("C31:false-negative-concurrent", "%s: goroutine %d added key %x and later got MayContain false while others were adding", desc, g, falseNeg[g])
					}
				}
				for g := range progs {
					for _, op := range progs[g] {
						if op.add && !f.MayContain(op.key) {
							c.Violation("C31:false-negative-concurrent", "%s: key %x added by goroutine %d is not reported after all goroutines joined", desc, op.key, g)
						}
					}
				}
				if ph+1 < phases {
					f.Clear()
					c.Class("clear-between-phases")
				}
			}
			if nonTrivial {
				c.NonTrivial(fmt.Sprintf("%s %x", desc, shared))
			}
		})
}

// regression: heavy collisions in the smallest filters and the empty key.
func TestVerifC31_Regress(t *testing.T) {
	kit.Silence()
	for mask := 1; mask <= 7; mask++ {
		hs, name := verifC31Hashers(mask)
		f, err := bloom.NewFilter(uint(len(hs)+1), hs)
		if err != nil {
			t.Fatalf("fixture: %v", err)
		}
		keys := [][]byte{{}, {0}, []byte("a"), []byte("key"), make([]byte, 64)}
		for i := 0; i < 40; i++ {
			keys = append(keys, []byte(fmt.Sprintf("k%d", i)))
		}
		for _, k := range keys {
			f.Add(k)
		}
		for _, k := range keys {
			if !f.MayContain(k) {
				kit.FailPlain(t, "C31", "C31:false-negative", "NewFilter(%d,%s): key %x added but not reported", len(hs)+1, name, k)
			}
		}
		// keys passed through one buffer that the caller overwrites between the calls
		g, err := bloom.NewFilter(64, hs)
		if err != nil {
			t.Fatalf("fixture: %v", err)
		}
		buf := make([]byte, 8)
		for _, k := range []string{"key-one", "key-two", "key-3"} {
			g.Add(buf[:copy(buf, k)])
		}
		for _, k := range []string{"key-one", "key-two", "key-3"} {
			if !g.MayContain([]byte(k)) {
				kit.FailPlain(t, "C31", "C31:false-negative", "NewFilter(64,%s): key %q added through a reused buffer but not reported", name, k)
			}
		}
	}
}
