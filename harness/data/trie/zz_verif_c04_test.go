package trie

// C04: Merkle proofs are sound and complete.
//
//   completeness: for every key present in a trie, GetProof succeeds and VerifyProof(key, proof) == (true, nil)
//   soundness:    VerifyProof(key, anyProof) == true  ==>  key is present in the trie with that root
//   robustness:   VerifyProof / GetProof never panic, whatever key and proof bytes are supplied

import (
	"bytes"
	"encoding/hex"
	"fmt"
	"sync"
	"testing"

	"github.com/ElrondNetwork/elrond-go/hashing"
	"github.com/ElrondNetwork/elrond-go/hashing/blake2b"
	"github.com/ElrondNetwork/elrond-go/hashing/sha256"
	kit "github.com/ElrondNetwork/elrond-go/verifkit"
	"pgregory.net/rapid"
)

func verifC04ProofString(proof [][]byte) string {
	var b bytes.Buffer
	b.WriteString("[")
	for i, n := range proof {
		if i > 0 {
			b.WriteString(" ")
		}
		if n == nil {
			b.WriteString("nil")
		} else {
			b.WriteString(hex.EncodeToString(n))
		}
	}
	b.WriteString("]")
	return b.String()
}

func verifC04ShapeString(sh []verifTBNodeShape) string {
	s := ""
	for _, x := range sh {
		switch x.kind {
		case branch:
			s += "B"
		case extension:
			s += fmt.Sprintf("E%d", x.keyLen)
		case leaf:
			s += fmt.Sprintf("L%d", x.keyLen)
		}
	}
	return s
}

// verifC04Relation classifies an absent key against a present key whose genuine proof has the given node
// shapes. extOnly: both paths have the same length and every differing position lies inside the key range of
// an extension node of the proof (so every branch choice and the leaf remainder agree). lenOnly: one key is a
// proper byte-suffix of the other, i.e. the paths agree up to the shorter one's terminator.
func verifC04Relation(absent, present []byte, shapes []verifTBNodeShape) (extOnly, lenOnly bool) {
	pa, pp := verifTBPath(absent), verifTBPath(present)
	if len(pa) != len(pp) {
		short, long := absent, present
		if len(short) > len(long) {
			short, long = long, short
		}
		return false, bytes.HasSuffix(long, short)
	}
	inExt := make([]bool, len(pp))
	pos := 0
	for _, sh := range shapes {
		switch sh.kind {
		case branch:
			pos++
		case extension:
			for i := pos; i < pos+sh.keyLen && i < len(inExt); i++ {
				inExt[i] = true
			}
			pos += sh.keyLen
		}
	}
	diff := 0
	for i := range pp {
		if pa[i] != pp[i] {
			if !inExt[i] {
				return false, false
			}
			diff++
		}
	}
	return diff > 0, false
}

type verifC04Ctx struct {
	c       *kit.Case
	tr      *patriciaMerkleTrie
	model   *verifTBModel
	hasher  hashing.Hasher
	desc    string
	nVerify int
}

// verify runs VerifyProof under the no-panic guard.
func (x *verifC04Ctx) verify(slug string, key []byte, proof [][]byte) (ok bool, err error) {
	x.nVerify++
	x.c.NoPanic("C04:verify-panic:"+slug, func() { ok, err = x.tr.VerifyProof(key, proof) })
	return ok, err
}

// sound asserts that an accepted (key, proof) pair concerns a present key.
func (x *verifC04Ctx) sound(slug string, key []byte, proof [][]byte, origin string) {
	ok, _ := x.verify(slug, key, proof)
	if ok && !x.model.has(key) {
		x.c.Violation("C04:absent-key-accepted:"+slug,
			"VerifyProof(key=%x, proof) returned true but the key is absent; %s; proof origin: %s; proof=%s; %s",
			key, x.desc, origin, verifC04ProofString(proof), x.model)
	}
}

// verifC04DerivedKeys returns keys derived from a present key k that are likely absent but share k's path.
func verifC04DerivedKeys(rt *rapid.T, k []byte) [][]byte {
	var out [][]byte
	add := func(b []byte) { out = append(out, b) }
	// one nibble changed at each path position
	for i := range k {
		for _, half := range []uint{0, 4} {
			orig := (k[i] >> half) & 0x0f
			alts := []byte{orig ^ 1, orig ^ 8, byte(rapid.IntRange(0, 15).Draw(rt, "altNibble"))}
			for _, a := range alts {
				if a == orig {
					continue
				}
				d := append([]byte{}, k...)
				d[i] = (d[i] &^ (0x0f << half)) | (a << half)
				add(d)
			}
		}
	}
	// truncated by 1..n bytes: from the front (the path becomes a proper prefix of k's path) and from the back
	for n := 1; n <= len(k); n++ {
		add(append([]byte{}, k[n:]...))
		add(append([]byte{}, k[:len(k)-n]...))
	}
	// extended by 1-2 bytes at the front (path continues after k's path) and at the back
	e1 := verifTBGenBytes(rt, "ext", 1, 2)
	add(append(append([]byte{}, e1...), k...))
	add(append(append([]byte{}, k...), e1...))
	add([]byte{0x00})
	add(append([]byte{0x00}, k...))
	add(append(append([]byte{}, k...), 0x00))
	add([]byte{})
	return out
}

func verifC04MutateProof(rt *rapid.T, proof [][]byte, others [][][]byte) ([][]byte, string) {
	cp := func() [][]byte {
		r := make([][]byte, len(proof))
		for i := range proof {
			r[i] = append([]byte(nil), proof[i]...)
		}
		return r
	}
	kind := rapid.IntRange(0, 10).Draw(rt, "mutKind")
	p := cp()
	idx := func() int {
		if len(p) == 0 {
			return 0
		}
		return rapid.IntRange(0, len(p)-1).Draw(rt, "mutIdx")
	}
	switch kind {
	case 0:
		return nil, "nil-proof"
	case 1:
		return [][]byte{}, "empty-proof"
	case 2:
		if len(p) > 0 {
			i := idx()
			p = append(p[:i], p[i+1:]...)
		}
		return p, "drop-node"
	case 3:
		if len(p) > 0 {
			i := idx()
			p = append(p[:i+1], p[i:]...)
		}
		return p, "duplicate-node"
	case 4:
		if len(p) > 1 {
			i, j := idx(), idx()
			p[i], p[j] = p[j], p[i]
		}
		return p, "swap-nodes"
	case 5:
		if len(p) > 0 {
			i := idx()
			if len(p[i]) > 0 {
				j := rapid.IntRange(0, len(p[i])-1).Draw(rt, "flipAt")
				p[i][j] ^= byte(1 << uint(rapid.IntRange(0, 7).Draw(rt, "flipBit")))
			}
		}
		return p, "flip-bit"
	case 6:
		if len(p) > 0 {
			i := idx()
			if len(p[i]) > 0 {
				p[i] = p[i][:rapid.IntRange(0, len(p[i])-1).Draw(rt, "truncTo")]
			}
		}
		return p, "truncate-node"
	case 7:
		if len(p) > 0 {
			p[idx()] = rapid.SliceOfN(rapid.Byte(), 0, 40).Draw(rt, "junk")
		}
		return p, "replace-by-junk"
	case 8:
		if len(p) > 0 {
			p[idx()] = nil
		}
		return p, "nil-entry"
	case 9:
		// splice: head of this proof, tail of another key's proof
		if len(others) > 0 && len(p) > 0 {
			o := others[rapid.IntRange(0, len(others)-1).Draw(rt, "spliceWith")]
			cut := rapid.IntRange(0, len(p)).Draw(rt, "spliceCut")
			ocut := 0
			if len(o) > 0 {
				ocut = rapid.IntRange(0, len(o)).Draw(rt, "spliceOCut")
			}
			p = append(p[:cut], o[ocut:]...)
		}
		return p, "splice"
	default:
		// change only the node-type byte of one node
		if len(p) > 0 {
			i := idx()
			if len(p[i]) > 0 {
				p[i][len(p[i])-1] = byte(rapid.IntRange(0, 4).Draw(rt, "typeByte"))
			}
		}
		return p, "type-byte"
	}
}

func TestVerifC04_Proofs(t *testing.T) {
	kit.Run(t, "C04", kit.Budget{Quick: 700, Thorough: 6000},
		"TF trie (gogo-proto, blake2b|sha256, maxTrieLevelInMemory 1..6, committed or not) over a KG key set of 1-25 keys; every present key is verified with its own proof; absent keys derived from each present key (one nibble changed at every position, truncated at either end, extended at either end, empty key, unrelated pool/random keys, keys of a second trie) are verified against the proof of the key they derive from and against other keys' proofs; mutated proofs (drop/duplicate/swap/flip/truncate/junk/nil/splice/type byte) are verified for present and absent keys. Non-trivial = an absent key whose path agrees with a present key on every branch choice and differs only inside an extension node's key or in length, verified against that present key's genuine proof; distinct by (trie contents, absent key)",
		func(rt *rapid.T, c *kit.Case) {
			g := verifTBNewKeyGen(rt)
			maxKeys := 10
			if rapid.IntRange(0, 4).Draw(rt, "bigTrie") == 0 {
				maxKeys = 25
			}
			model := verifTBGenModel(rt, g, 1, maxKeys)
			h := verifTBGenHasher(rt)
			maxLevel := uint(rapid.IntRange(1, 6).Draw(rt, "maxLevel"))
			commit := rapid.Bool().Draw(rt, "commit")
			db := verifTBNewMapDB()
			tr, err := verifTBBuildTrie(db, h, maxLevel, model, commit)
			if err != nil {
				rt.Fatalf("fixture: build trie: %v", err)
			}
			if commit && rapid.Bool().Draw(rt, "recreate") {
				root, _ := tr.RootHash()
				rtr, errR := tr.Recreate(root)
				if errR != nil {
					rt.Fatalf("fixture: recreate: %v", errR)
				}
				tr = rtr.(*patriciaMerkleTrie)
				c.Class("recreated")
			}
			x := &verifC04Ctx{c: c, tr: tr, model: model, hasher: h,
				desc: fmt.Sprintf("hasher=%T maxLevel=%d commit=%v", h, maxLevel, commit)}

			// (a) completeness
			proofs := make([][][]byte, len(model.kvs))
			shapes := make([][]verifTBNodeShape, len(model.kvs))
			hasExt := false
			for i, kv := range model.kvs {
				var proof [][]byte
				var errP error
				c.NoPanic("C04:getproof-panic:present", func() { proof, errP = tr.GetProof(kv.k) })
				if errP != nil {
					c.Violation("C04:no-proof-for-present-key", "GetProof(%x) failed: %v; %s; %s", kv.k, errP, x.desc, model)
				}
				ok, errV := x.verify("own-proof", kv.k, proof)
				if !ok || errV != nil {
					c.Violation("C04:own-proof-rejected", "VerifyProof(%x, GetProof(%x)) = (%v, %v); %s; proof=%s; %s",
						kv.k, kv.k, ok, errV, x.desc, verifC04ProofString(proof), model)
				}
				proofs[i] = proof
				shapes[i] = verifTBShapes(proof, h)
				if len(shapes[i]) != len(proof) {
					rt.Fatalf("fixture: genuine proof node does not decode")
				}
				for _, s := range shapes[i] {
					if s.kind == extension {
						hasExt = true
					}
				}
			}
			if hasExt {
				c.Class("trie-with-extension")
			}

			// second trie U over the same key pool (foreign proofs)
			var uModel *verifTBModel
			var uTr *patriciaMerkleTrie
			if rapid.IntRange(0, 2).Draw(rt, "withForeign") == 0 {
				uModel = verifTBGenModel(rt, g, 1, 6)
				uTr, err = verifTBBuildTrie(verifTBNewMapDB(), h, maxLevel, uModel, false)
				if err != nil {
					rt.Fatalf("fixture: build foreign trie: %v", err)
				}
			}

			// (b) absent keys derived from present keys
			nontrivialInCase, extOnlyInCase := false, false
			for i, kv := range model.kvs {
				for _, d := range verifC04DerivedKeys(rt, kv.k) {
					if model.has(d) {
						c.Class("derived-key-present")
						continue
					}
					extOnly, lenOnly := verifC04Relation(d, kv.k, shapes[i])
					if extOnly || lenOnly {
						nontrivialInCase = true
						c.NonTrivial(model.keysString() + "|" + hex.EncodeToString(d))
						if extOnly {
							extOnlyInCase = true
							c.Class("absent-differs-only-inside-extension")
							c.Sample("trie keys {%s}: proof of %x has shape %s; absent key %x differs only inside an extension node",
								model.keysString(), kv.k, verifC04ShapeString(shapes[i]), d)
						} else {
							c.Class("absent-differs-in-length-only")
						}
					}
					x.sound("derived-vs-origin-proof", d, proofs[i], fmt.Sprintf("genuine proof of present key %x (shape %s)", kv.k, verifC04ShapeString(shapes[i])))
					// the same absent key against one other present key's proof
					if len(model.kvs) > 1 {
						j := rapid.IntRange(0, len(model.kvs)-1).Draw(rt, "otherProof")
						x.sound("derived-vs-other-proof", d, proofs[j], fmt.Sprintf("genuine proof of present key %x", model.kvs[j].k))
					}
					// GetProof for an absent key: an error is fine; a returned proof must not verify
					var pAbs [][]byte
					var errAbs error
					c.NoPanic("C04:getproof-panic:absent", func() { pAbs, errAbs = tr.GetProof(d) })
					if errAbs == nil {
						c.Class("getproof-absent-returned-proof")
						x.sound("absent-own-proof", d, pAbs, "GetProof of the absent key itself")
					}
				}
			}
			if nontrivialInCase {
				c.Class("case-nontrivial")
			}
			if extOnlyInCase {
				c.Class("case-with-absent-key-differing-only-inside-extension")
			}

			// unrelated keys against every proof
			for n := 0; n < 4; n++ {
				uk := g.key(rt)
				if model.has(uk) {
					continue
				}
				for i := range proofs {
					x.sound("pool-key-vs-proof", uk, proofs[i], fmt.Sprintf("genuine proof of present key %x", model.kvs[i].k))
				}
			}

			// foreign trie: keys of U with U's proofs, verified against S
			if uTr != nil {
				for _, kv := range uModel.kvs {
					var up [][]byte
					var errU error
					c.NoPanic("C04:getproof-panic:foreign", func() { up, errU = uTr.GetProof(kv.k) })
					if errU != nil {
						c.Violation("C04:no-proof-for-present-key", "GetProof(%x) on the second trie failed: %v; %s", kv.k, errU, uModel)
					}
					x.sound("foreign-proof", kv.k, up, "genuine proof of the same key in a different trie "+uModel.String())
					for i := range proofs {
						if !model.has(kv.k) {
							x.sound("foreign-key-vs-proof", kv.k, proofs[i], fmt.Sprintf("genuine proof of present key %x", model.kvs[i].k))
						}
					}
				}
				c.Class("with-foreign-trie")
			}

			// (c) mutated proofs, for the proof's own (present) key and for derived absent keys
			nMut := rapid.IntRange(2, 12).Draw(rt, "numMutations")
			for n := 0; n < nMut; n++ {
				i := rapid.IntRange(0, len(model.kvs)-1).Draw(rt, "mutProofOf")
				mp, what := verifC04MutateProof(rt, proofs[i], proofs)
				c.Class("mut-" + what)
				x.sound("mutated-proof", model.kvs[i].k, mp, what+" of the proof of "+hex.EncodeToString(model.kvs[i].k))
				ders := verifC04DerivedKeys(rt, model.kvs[i].k)
				d := ders[rapid.IntRange(0, len(ders)-1).Draw(rt, "mutDerived")]
				x.sound("mutated-proof", d, mp, what+" of the proof of "+hex.EncodeToString(model.kvs[i].k))
				x.sound("mutated-proof", rapid.SliceOfN(rapid.Byte(), 0, 5).Draw(rt, "rndKey"), mp, what)
			}
			c.Class(fmt.Sprintf("verifications-per-case-log2=%d", verifC04Log2(x.nVerify)))
		})
}

func verifC04Log2(n int) int {
	r := 0
	for n > 1 {
		n >>= 1
		r++
	}
	return r
}

// ---- regression: minimal counterexamples found by the generated check (run in every tier)

func verifC04RegressTrie(t *testing.T, h hashing.Hasher, kvs ...string) *patriciaMerkleTrie {
	m := verifTBNewModel()
	for _, k := range kvs {
		m.put([]byte(k), []byte("v"))
	}
	tr, err := verifTBBuildTrie(verifTBNewMapDB(), h, 5, m, false)
	if err != nil {
		t.Fatalf("fixture: %v", err)
	}
	return tr
}

func verifC04SafeVerify(tr *patriciaMerkleTrie, key []byte, proof [][]byte) (ok bool, err error, panicked interface{}) {
	defer func() {
		if r := recover(); r != nil {
			panicked = r
		}
	}()
	ok, err = tr.VerifyProof(key, proof)
	return
}

func TestVerifC04_Regress(t *testing.T) {
	kit.Silence()
	for _, h := range []hashing.Hasher{sha256.NewSha256(), blake2b.NewBlake2b()} {
		// keys "aXY" and "bXY" share the path of "XY": root = extension(4 nibbles) -> branch -> leaves
		tr := verifC04RegressTrie(t, h, "aXY", "bXY")
		proof, err := tr.GetProof([]byte("aXY"))
		if err != nil {
			t.Fatalf("fixture: %v", err)
		}
		ok, _, p := verifC04SafeVerify(tr, []byte("aXY"), proof)
		if p != nil || !ok {
			kit.FailPlain(t, "C04", "C04:own-proof-rejected", "own proof of aXY rejected (%v, panic %v)", ok, p)
		}
		for _, absent := range []string{"aZZ", "aXZ", "aZY", "a\x00\x00"} {
			ok, _, p = verifC04SafeVerify(tr, []byte(absent), proof)
			if p != nil {
				kit.FailPlain(t, "C04", "C04:verify-panic:derived-vs-origin-proof", "VerifyProof(%q, proofOf(aXY)) panics: %v", absent, p)
			}
			if ok {
				kit.FailPlain(t, "C04", "C04:absent-key-accepted:derived-vs-origin-proof",
					"trie {aXY,bXY}: VerifyProof(%q, GetProof(aXY)) = true although %q is absent (differs from aXY only inside the root extension node)", absent, absent)
			}
		}
		// keys shorter than the extension node's key
		for _, short := range []string{"", "Y"} {
			ok, _, p = verifC04SafeVerify(tr, []byte(short), proof)
			if p != nil {
				kit.FailPlain(t, "C04", "C04:verify-panic:derived-vs-origin-proof", "trie {aXY,bXY}: VerifyProof(%q, GetProof(aXY)) panics: %v", short, p)
			}
			if ok {
				kit.FailPlain(t, "C04", "C04:absent-key-accepted:derived-vs-origin-proof", "VerifyProof(%q, proofOf(aXY)) = true", short)
			}
		}
	}
}

// ---- native fuzz target (thorough tier): FuzzVerifC04VerifyProof(sel, key, blob)
//
// Three fixed tries. The proof is assembled from blob by a small instruction stream so that the fuzzer can
// get past the hash chain: 0 = raw bytes (1 length byte + bytes), 1 = genuine node #i of the trie,
// 2 = nil entry, 3 = the whole genuine proof of present key #i. Oracle: no panic; accepted ==> key present.

type verifC04FuzzTrie struct {
	tr     *patriciaMerkleTrie
	model  *verifTBModel
	proofs [][][]byte
	nodes  [][]byte
}

var (
	verifC04FuzzOnce  sync.Once
	verifC04FuzzTries []*verifC04FuzzTrie
	verifC04FuzzErr   error
)

func verifC04FuzzSetup() {
	kit.Silence()
	sha := sha256.NewSha256()
	var keySets [3][][]byte
	keySets[0] = [][]byte{[]byte("aXY"), []byte("bXY"), []byte("abXY"), []byte("Y")}
	keySets[1] = [][]byte{{}, []byte("a"), []byte("ba"), []byte("cba"), []byte("dcba"), bytes.Repeat([]byte{0x11}, 32),
		append(bytes.Repeat([]byte{0x11}, 31), 0x10), append([]byte{0x12}, bytes.Repeat([]byte{0x11}, 31)...)}
	seed := []byte("verif-c04")
	for i := 0; i < 24; i++ {
		seed = sha.Compute(string(seed))
		n := int(seed[0]%4) + 1
		k := make([]byte, n)
		for j := range k {
			k[j] = []byte{0x00, 0x01, 0x10, 0x11, 0xf0, 0x0f}[int(seed[1+j])%6]
		}
		keySets[2] = append(keySets[2], k)
	}
	hashers := []hashing.Hasher{sha, blake2b.NewBlake2b(), sha}
	for i := range keySets {
		m := verifTBNewModel()
		for j, k := range keySets[i] {
			m.put(k, []byte{byte(j + 1), 0xaa})
		}
		tr, err := verifTBBuildTrie(verifTBNewMapDB(), hashers[i], uint(2+i), m, i != 0)
		if err != nil {
			verifC04FuzzErr = err
			return
		}
		ft := &verifC04FuzzTrie{tr: tr, model: m}
		seen := map[string]bool{}
		for _, kv := range m.kvs {
			p, errP := tr.GetProof(kv.k)
			if errP != nil {
				verifC04FuzzErr = errP
				return
			}
			ft.proofs = append(ft.proofs, p)
			for _, n := range p {
				if !seen[string(n)] {
					seen[string(n)] = true
					ft.nodes = append(ft.nodes, n)
				}
			}
		}
		verifC04FuzzTries = append(verifC04FuzzTries, ft)
	}
}

func verifC04FuzzProof(ft *verifC04FuzzTrie, blob []byte) [][]byte {
	var proof [][]byte
	for i := 0; i < len(blob) && len(proof) < 64; {
		tag := blob[i] % 4
		i++
		arg := 0
		if i < len(blob) {
			arg = int(blob[i])
			i++
		}
		switch tag {
		case 0:
			end := i + arg
			if end > len(blob) {
				end = len(blob)
			}
			proof = append(proof, append([]byte{}, blob[i:end]...))
			i = end
		case 1:
			proof = append(proof, ft.nodes[arg%len(ft.nodes)])
		case 2:
			proof = append(proof, nil)
		default:
			proof = append(proof, ft.proofs[arg%len(ft.proofs)]...)
		}
	}
	return proof
}

func FuzzVerifC04VerifyProof(f *testing.F) {
	verifC04FuzzOnce.Do(verifC04FuzzSetup)
	if verifC04FuzzErr != nil {
		f.Fatalf("fixture: %v", verifC04FuzzErr)
	}
	for s, ft := range verifC04FuzzTries {
		for i, kv := range ft.model.kvs {
			f.Add(uint8(s), kv.k, []byte{3, byte(i)})
			var raw []byte
			for _, n := range ft.proofs[i] {
				if len(n) < 256 {
					raw = append(append(raw, 0, byte(len(n))), n...)
				} else {
					raw = append(raw, 1, 0)
				}
			}
			f.Add(uint8(s), kv.k, raw)
		}
	}
	f.Fuzz(func(t *testing.T, sel uint8, key []byte, blob []byte) {
		ft := verifC04FuzzTries[int(sel)%len(verifC04FuzzTries)]
		proof := verifC04FuzzProof(ft, blob)
		ok, _, p := verifC04SafeVerify(ft.tr, key, proof)
		if p != nil {
			kit.FailPlain(t, "C04", "C04:verify-panic:fuzz", "VerifyProof(key=%x, proof=%s) on fixed trie %d panics: %v", key, verifC04ProofString(proof), int(sel)%3, p)
		}
		if ok && !ft.model.has(key) {
			kit.FailPlain(t, "C04", "C04:absent-key-accepted:fuzz", "VerifyProof(key=%x, proof=%s) = true on fixed trie %d {%s} although the key is absent", key, verifC04ProofString(proof), int(sel)%3, ft.model.keysString())
		}
	})
}
