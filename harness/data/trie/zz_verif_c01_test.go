package trie

import (
	"encoding/binary"
	"fmt"
	"testing"
	"time"

	"github.com/ElrondNetwork/elrond-go/data"
	kit "github.com/ElrondNetwork/elrond-go/verifkit"
	"pgregory.net/rapid"
)

// C01: State trie behaves as a key-value map.
//
// Stateful program (update / update-with-empty-value / delete / commit / enumerate a committed root)
// over structurally colliding keys, against a Go map. After every step every key ever used is read
// back; after commits the enumeration of a committed root (the latest or an older one) is compared
// with the model recorded at that commit, in both directions.

type verifC01Commit struct {
	root  []byte
	model map[string][]byte
}

type verifC01State struct {
	c       *kit.Case
	tr      data.Trie
	pool    *verifTGPool
	model   map[string][]byte
	commits []verifC01Commit
	log     verifTGLog
	nonTriv bool
	dirty   bool // updates since the last commit
	// value slices handed to Update uncopied under several keys, and the harness' private copies
	shared     [][]byte
	sharedCopy [][]byte
	lazy       bool // sparse reads: most steps read only a few keys, so collapsed nodes stay collapsed
}

func (s *verifC01State) fail(slug string, format string, args ...interface{}) {
	s.c.Violation("C01:"+slug, "%s\nhistory: %s", fmt.Sprintf(format, args...), s.log.String())
}

func (s *verifC01State) put(rt *rapid.T) {
	k := s.pool.Key(rt, 4)
	old, live := s.model[string(k)]
	// v is what the model records (private copy); arg is the slice handed to Update. The trie keeps the
	// slice it is given (values are stored by reference), and callers do hand over slices they also use
	// elsewhere: update/genesis/import.go passes the storer's slice straight to dataTrie.Update, and a
	// value read with Get can be written under another key. The harness never modifies such a slice.
	var v, arg []byte
	switch kind := rapid.IntRange(0, 15).Draw(rt, "valueKind"); {
	case kind == 0 && live:
		v = append([]byte{}, old...) // overwrite with an equal value (no-op path)
		s.c.Class("op:update-same-value")
	case kind <= 2 && live:
		// a different value of exactly the same length as the current one
		v = make([]byte, len(old))
		for i := range v {
			v[i] = old[i] ^ byte(rapid.IntRange(0, 255).Draw(rt, "xor"))
		}
		s.c.Class("op:update-same-length")
	case kind <= 5:
		// the SAME slice object written under several keys
		if len(s.shared) < 3 && (len(s.shared) == 0 || rapid.IntRange(0, 2).Draw(rt, "newShared") == 0) {
			var nv []byte
			if live && rapid.Bool().Draw(rt, "sharedSameLen") {
				nv = make([]byte, len(old))
				for i := range nv {
					nv[i] = byte(rapid.IntRange(0, 255).Draw(rt, "sb"))
				}
			} else {
				nv = verifTGValue(rt)
			}
			s.shared = append(s.shared, nv)
			s.sharedCopy = append(s.sharedCopy, append([]byte{}, nv...))
		}
		i := rapid.IntRange(0, len(s.shared)-1).Draw(rt, "sharedIdx")
		arg = s.shared[i]
		v = s.sharedCopy[i]
		s.c.Class("op:update-shared-slice")
	case kind == 6 && len(s.model) > 0:
		// copy the value of another live key: the slice returned by Get is written under k
		ks := verifTGSortedKeys(s.model)
		src := ks[rapid.IntRange(0, len(ks)-1).Draw(rt, "copyFrom")]
		var err error
		s.c.NoPanic("C01:get-panic", func() { arg, err = s.tr.Get([]byte(src)) })
		if err != nil || !verifTGEq(arg, s.model[src]) {
			s.fail("get-mismatch", "Get(%x) = %x (err %v), last written %x", src, arg, err, s.model[src])
		}
		v = s.model[src]
		s.c.Class("op:update-value-read-from-other-key")
	default:
		v = verifTGValue(rt)
	}
	if arg == nil {
		arg = append([]byte{}, v...)
	}
	s.log.Add("U %x=%x", k, v)
	var err error
	s.c.NoPanic("C01:update-panic", func() { err = s.tr.Update(append([]byte{}, k...), arg) })
	if err != nil {
		s.fail("update-error", "Update(%x, %x) returned %v", k, v, err)
	}
	if live {
		s.c.Class("op:overwrite")
		if len(old) == len(v) && !verifTGEq(old, v) {
			s.c.Class("op:overwrite-same-length-different-value")
		}
	} else {
		s.c.Class("op:insert")
	}
	s.model[string(k)] = v
	s.dirty = true
}

func (s *verifC01State) remove(rt *rapid.T, viaUpdate bool) {
	k := s.pool.Key(rt, 8)
	_, present := s.model[string(k)]
	var b0, e0 int
	if present {
		b0, e0 = verifTGShape(s.model)
	}
	var err error
	if viaUpdate {
		s.log.Add("U %x=", k)
		empty := []byte{}
		if rapid.Bool().Draw(rt, "nilValue") {
			empty = nil
		}
		s.c.NoPanic("C01:update-panic", func() { err = s.tr.Update(append([]byte{}, k...), empty) })
		if err != nil {
			s.fail("update-error", "Update(%x, empty) returned %v", k, err)
		}
	} else {
		s.log.Add("D %x", k)
		s.c.NoPanic("C01:delete-panic", func() { err = s.tr.Delete(append([]byte{}, k...)) })
		if err != nil {
			s.fail("delete-error", "Delete(%x) returned %v", k, err)
		}
	}
	if !present {
		s.c.Class("op:delete-absent")
		return
	}
	delete(s.model, string(k))
	s.dirty = true
	b1, e1 := verifTGShape(s.model)
	s.c.Class("op:delete-present")
	if b1 < b0 {
		// a branch with exactly two children lost one: reduceNode
		s.c.Class("op:delete-reduces-branch")
		s.nonTriv = true
	}
	if e1 != e0 {
		s.c.Class("op:delete-changes-extensions")
	}
}

func (s *verifC01State) commit(rt *rapid.T) {
	s.log.Add("C")
	var err error
	var root []byte
	s.c.NoPanic("C01:commit-panic", func() {
		err = s.tr.Commit()
		if err == nil {
			root, err = s.tr.RootHash()
		}
	})
	if err != nil {
		s.fail("commit-error", "Commit/RootHash returned %v", err)
	}
	s.commits = append(s.commits, verifC01Commit{root: append([]byte{}, root...), model: verifTGCopyModel(s.model)})
	s.dirty = false
	s.c.Class("op:commit")
}

func (s *verifC01State) leaves(idx int) {
	cm := s.commits[idx]
	s.log.Add("L %d", idx)
	var got []verifTGPair
	var err error
	s.c.NoPanic("C01:leaves-panic", func() { got, err = verifTGLeaves(s.tr, cm.root) })
	if err != nil {
		s.fail("leaves-error", "GetAllLeavesOnChannel(%x) of commit %d returned %v", cm.root, idx, err)
	}
	if slug, msg := verifTGCompareLeaves(got, cm.model); slug != "" {
		s.fail(slug, "commit %d (root %x): %s", idx, cm.root, msg)
	}
	if idx == len(s.commits)-1 && !s.dirty {
		s.c.Class("op:leaves-current")
	} else {
		s.c.Class("op:leaves-older-root")
	}
}

// readSome is the per-step check of a lazy case: reading every key after every step would pull the
// whole trie into memory and hide defects of the lazy child resolution after Commit.
func (s *verifC01State) readSome(rt *rapid.T) {
	if len(s.pool.used) == 0 {
		return
	}
	switch n := rapid.IntRange(0, 9).Draw(rt, "lazyReads"); {
	case n == 0:
		s.readKeys(s.pool.used)
	case n <= 3:
		i := rapid.IntRange(0, len(s.pool.used)-1).Draw(rt, "readIdx")
		s.readKeys(s.pool.used[i : i+1])
	}
}

func (s *verifC01State) readAll() { s.readKeys(s.pool.used) }

func (s *verifC01State) readKeys(keys [][]byte) {
	for _, k := range keys {
		var got []byte
		var err error
		s.c.NoPanic("C01:get-panic", func() { got, err = s.tr.Get(append([]byte{}, k...)) })
		if err != nil {
			s.fail("get-error", "Get(%x) returned error %v", k, err)
		}
		want, ok := s.model[string(k)]
		if !ok {
			if len(got) != 0 {
				s.fail("get-absent-returns-value", "Get(%x) = %x, the key is not live", k, got)
			}
			continue
		}
		if !verifTGEq(got, want) {
			s.fail("get-mismatch", "Get(%x) = %x, last written %x", k, got, want)
		}
	}
}

func TestVerifC01_MapModel(t *testing.T) {
	steps := 40
	if kit.Thorough() {
		steps = 80
	}
	kit.Run(t, "C01", kit.Budget{Quick: 4000, Thorough: 25000, Steps: steps},
		"stateful programs (update, update with empty/nil value, delete, commit, enumerate a committed root) over keys prefix||suffix with a per-case pool of <=4 suffixes, keys derived from used keys (prepend a byte, flip a nibble, drop first byte), empty, 1-byte, 32-byte keys; maxTrieLevelInMemory 1..6; blake2b|sha256; oracle Go map; per case either all used keys are read after every step or (2/3 of cases) only 0-1 keys on most steps and all keys on 1/10 of the steps and at the end, so that collapsed nodes stay collapsed across operations; enumeration compared both ways; non-trivial = history has a delete of a live key that removes a branch point of the ideal radix tree (forces reduceNode); distinct by op log",
		func(rt *rapid.T, c *kit.Case) {
			hasher := verifTGHasher(rt)
			level := verifTGLevel(rt, "maxLevel")
			s := &verifC01State{c: c, pool: verifTGNewPool(rt), model: map[string][]byte{}}
			s.tr = verifTGNewTrie(rt, verifTGNewTSM(rt), hasher, level)
			s.lazy = rapid.IntRange(0, 2).Draw(rt, "lazyReadsCase") > 0
			s.log.Add("level %d lazy %v", level, s.lazy)
			if s.lazy {
				c.Class("case:sparse-reads")
			} else {
				c.Class("case:read-all-every-step")
			}
			if kit.Thorough() {
				s.pool.maxLen = 120
			}
			defer func() { _ = s.tr.Close() }()

			rt.Repeat(map[string]func(*rapid.T){
				"put":  s.put,
				"put2": s.put,
				"put3": s.put,
				"updateEmpty": func(t *rapid.T) {
					s.remove(t, true)
				},
				"delete": func(t *rapid.T) {
					s.remove(t, false)
				},
				"delete2": func(t *rapid.T) {
					s.remove(t, false)
				},
				"commit": s.commit,
				"rootHash": func(t *rapid.T) {
					// RootHash() without Commit caches hashes on dirty nodes; later updates must invalidate them
					// (a stale hash becomes the storage key of the node at the next commit)
					s.log.Add("H")
					s.c.NoPanic("C01:roothash-panic", func() { _, _ = s.tr.RootHash() })
					s.c.Class("op:roothash-midway")
				},
				"leaves": func(t *rapid.T) {
					if len(s.commits) == 0 {
						t.Skip("no commit yet")
					}
					idx := len(s.commits) - 1
					if rapid.IntRange(0, 2).Draw(t, "olderRoot") == 0 {
						idx = rapid.IntRange(0, len(s.commits)-1).Draw(t, "commitIdx")
					}
					s.leaves(idx)
				},
				"": func(t *rapid.T) {
					if s.lazy {
						s.readSome(t)
					} else {
						s.readAll()
					}
				},
			})

			// every case ends with a commit and an enumeration of the final state
			s.commit(rt)
			s.leaves(len(s.commits) - 1)
			s.readAll()
			if len(s.commits) > 1 {
				s.leaves(0)
			}
			if s.nonTriv {
				c.NonTrivial(s.log.String())
				c.Sample("%s", s.log.String())
			}
		})
}

// verifC01BulkKeys builds n distinct keys: 32-byte hash-like keys (as account addresses) or dense short
// keys (2 bytes + a common suffix) so that branch nodes are full; values are derived from (salt, i).
func verifC01BulkKeys(rt *rapid.T, n int) (keys [][]byte, vals [][]byte) {
	salt := byte(rapid.IntRange(0, 255).Draw(rt, "salt"))
	hashed := rapid.Bool().Draw(rt, "hashedKeys")
	mult := 2*rapid.IntRange(0, 200).Draw(rt, "mult") + 1
	off := rapid.IntRange(0, 65535).Draw(rt, "off")
	sfxLen := rapid.IntRange(0, 2).Draw(rt, "bulkSuffixLen")
	h := verifTGPlainHasher()
	for i := 0; i < n; i++ {
		var k []byte
		if hashed {
			k = h.Compute(fmt.Sprintf("%d/%d", salt, i))
		} else {
			k = make([]byte, 2, 2+sfxLen)
			binary.BigEndian.PutUint16(k, uint16(i*mult+off))
			for j := 0; j < sfxLen; j++ {
				k = append(k, salt)
			}
		}
		v := make([]byte, 1+(i+int(salt))%9)
		for j := range v {
			v[j] = byte(i) ^ byte(i>>8) ^ salt ^ byte(j*37)
		}
		keys = append(keys, k)
		vals = append(vals, v)
	}
	return keys, vals
}

// TestVerifC01_EnumerateWhileWriting: the enumeration of a committed root is delivered through a
// channel that the caller drains at its own pace, while the owner of the trie goes on writing
// (AccountsDB.GetAllLeaves returns the channel after releasing its mutex; process/block/shardblock.go
// runs commitTrieEpochRootHashIfNeeded -> GetAllLeaves(rootHash) of the just committed root in a go
// routine while block processing keeps updating the same main trie; the node API does the same for
// data tries). The channel has capacity 100, so with more than 100 leaves the enumeration is
// necessarily still in progress when the writes below happen. Whatever the interleaving, the
// enumeration must equal the map committed under that root, and the working trie must behave as a map.
func TestVerifC01_EnumerateWhileWriting(t *testing.T) {
	kit.Run(t, "C01", kit.Budget{Quick: 400, Thorough: 4000},
		"bulk trie of 5..300 keys (3/4 of cases >100 = more than the leaves channel holds), Commit, GetAllLeavesOnChannel(current root) NOT drained (4/5 of cases), then 1..40 updates/deletes/inserts (optionally a Commit) on the working trie, then drain: enumeration == map committed under that root (both ways), every key reads as last written, also after the next Commit, and the enumerations of the new and of the old root are exact; non-trivial = >100 leaves, delayed drain and >=1 overwrite/delete of a committed key meanwhile; distinct by (n, key kind, op log)",
		func(rt *rapid.T, c *kit.Case) {
			hasher := verifTGHasher(rt)
			level := verifTGLevel(rt, "maxLevel")
			n := rapid.IntRange(101, 300).Draw(rt, "nLarge")
			if rapid.IntRange(0, 3).Draw(rt, "small") == 0 {
				n = rapid.IntRange(5, 100).Draw(rt, "nSmall")
			}
			keys, vals := verifC01BulkKeys(rt, n)
			tr := verifTGNewTrie(rt, verifTGNewTSM(rt), hasher, level)
			defer func() { _ = tr.Close() }()
			var log verifTGLog
			log.Add("n %d level %d firstKey %x", n, level, keys[0])
			fail := func(slug, format string, args ...interface{}) {
				c.Violation("C01:enum-while-writing:"+slug, "%s\nhistory: %s", fmt.Sprintf(format, args...), log.String())
			}
			model := map[string][]byte{}
			for i, k := range keys {
				if err := tr.Update(append([]byte{}, k...), append([]byte{}, vals[i]...)); err != nil {
					fail("update-error", "Update(%x): %v", k, err)
				}
				model[string(k)] = vals[i]
			}
			commit := func() []byte {
				var root []byte
				var err error
				c.NoPanic("C01:enum-while-writing:commit-panic", func() {
					err = tr.Commit()
					if err == nil {
						root, err = tr.RootHash()
					}
				})
				if err != nil {
					fail("commit-error", "Commit/RootHash: %v", err)
				}
				return append([]byte{}, root...)
			}
			root1 := commit()
			committed := verifTGCopyModel(model)
			log.Add("C")

			delayed := rapid.IntRange(0, 4).Draw(rt, "delayedDrain") > 0
			ch, err := tr.GetAllLeavesOnChannel(root1)
			if err != nil {
				fail("leaves-error", "GetAllLeavesOnChannel(%x) of the just committed root: %v", root1, err)
			}
			var got []verifTGPair
			drain := func() {
				for kv := range ch {
					got = append(got, verifTGPair{append([]byte{}, kv.Key()...), append([]byte{}, kv.Value()...)})
				}
			}
			touchedCommitted := false
			extra := [][]byte{}
			if !delayed {
				drain()
				log.Add("drain")
			} else if n > cap(ch) && rapid.Bool().Draw(rt, "waitUntilFull") {
				// scheduling aid only (no oracle depends on it): let the producer fill the channel
				for i := 0; i < 400 && len(ch) < cap(ch); i++ {
					time.Sleep(25 * time.Microsecond)
				}
			}
			nOps := rapid.IntRange(1, 40).Draw(rt, "nOps")
			for i := 0; i < nOps; i++ {
				switch op := rapid.IntRange(0, 9).Draw(rt, "op"); {
				case op <= 5: // overwrite a committed key (same or other length)
					k := keys[rapid.IntRange(0, n-1).Draw(rt, "keyIdx")]
					v := verifTGValue(rt)
					if old, ok := model[string(k)]; ok && rapid.Bool().Draw(rt, "sameLen") {
						v = make([]byte, len(old))
						for j := range v {
							v[j] = old[j] ^ byte(1+i+j)
						}
					}
					log.Add("U %x=%x", k, v)
					if err = tr.Update(append([]byte{}, k...), append([]byte{}, v...)); err != nil {
						fail("update-error", "Update(%x): %v", k, err)
					}
					model[string(k)] = v
					touchedCommitted = true
				case op <= 7: // delete a committed key
					k := keys[rapid.IntRange(0, n-1).Draw(rt, "keyIdx")]
					log.Add("D %x", k)
					if err = tr.Delete(append([]byte{}, k...)); err != nil {
						fail("delete-error", "Delete(%x): %v", k, err)
					}
					if _, ok := model[string(k)]; ok {
						touchedCommitted = true
					}
					delete(model, string(k))
				case op == 8: // insert a key derived from a committed one (prepend a byte)
					k := append([]byte{byte(rapid.IntRange(0, 255).Draw(rt, "pre"))}, keys[rapid.IntRange(0, n-1).Draw(rt, "keyIdx")]...)
					v := verifTGValue(rt)
					log.Add("U %x=%x", k, v)
					if err = tr.Update(append([]byte{}, k...), append([]byte{}, v...)); err != nil {
						fail("update-error", "Update(%x): %v", k, err)
					}
					model[string(k)] = v
					extra = append(extra, k)
				default:
					log.Add("C")
					_ = commit()
				}
			}
			if delayed {
				drain()
				log.Add("drain")
			}
			if slug, msg := verifTGCompareLeaves(got, committed); slug != "" {
				fail(slug, "enumeration of committed root %x (delayed drain %v): %s", root1, delayed, msg)
			}
			readAll := func(when string) {
				for _, k := range append(append([][]byte{}, keys...), extra...) {
					v, gerr := tr.Get(append([]byte{}, k...))
					if gerr != nil {
						fail("get-error", "%s: Get(%x): %v", when, k, gerr)
					}
					if !verifTGEq(v, model[string(k)]) {
						fail("get-mismatch", "%s: Get(%x) = %x, last written %x", when, k, v, model[string(k)])
					}
				}
			}
			readAll("after the enumeration")
			root2 := commit()
			log.Add("C")
			readAll("after the next commit")
			for _, e := range []struct {
				root []byte
				m    map[string][]byte
				who  string
			}{{root2, model, "new root"}, {root1, committed, "old root"}} {
				lv, lerr := verifTGLeaves(tr, e.root)
				if lerr != nil {
					fail("leaves-error", "%s %x: %v", e.who, e.root, lerr)
				}
				if slug, msg := verifTGCompareLeaves(lv, e.m); slug != "" {
					fail(slug, "%s %x: %s", e.who, e.root, msg)
				}
			}
			if delayed {
				c.Class("drain:delayed")
			} else {
				c.Class("drain:immediate")
			}
			if n > 100 {
				c.Class("leaves>channel-capacity")
			}
			if delayed && n > 100 && touchedCommitted {
				c.NonTrivial(log.String())
				c.Sample("%s", log.String())
			}
		})
}

// TestVerifC01_Regress: fixed shapes that exercise reduceNode on every kind of remaining child
// (leaf, extension, branch, child 16) before and after a commit; run in every tier.
func TestVerifC01_Regress(t *testing.T) {
	kit.Silence()
	type op struct {
		k, v   string
		commit bool
	}
	progs := [][]op{
		// remaining child is a leaf under child 16 (key is a suffix of the other)
		{{k: "\x11", v: "a"}, {k: "\x01\x11", v: "b"}, {commit: true}, {k: "\x01\x11"}, {commit: true}},
		// remaining child is an extension
		{{k: "\x00\x00\x11", v: "a"}, {k: "\x01\x00\x11", v: "b"}, {k: "\x22", v: "c"}, {commit: true}, {k: "\x22"}, {commit: true}},
		// remaining child is a branch
		{{k: "\x01", v: "a"}, {k: "\x11", v: "b"}, {k: "\x02", v: "c"}, {commit: true}, {k: "\x02"}, {commit: true}},
		// extension over extension merge
		{{k: "\x00\x00\x00", v: "a"}, {k: "\x10\x00\x00", v: "b"}, {k: "\x00\x01\x00", v: "c"}, {commit: true}, {k: "\x00\x01\x00"}, {commit: true}},
		// empty key
		{{k: "", v: "a"}, {k: "\x00", v: "b"}, {commit: true}, {k: "\x00"}, {k: "", v: "z"}, {commit: true}},
	}
	for pi, prog := range progs {
		for level := uint(1); level <= 3; level++ {
			tr, err := verifTGPlainTrie(level)
			if err != nil {
				t.Fatalf("fixture: %v", err)
			}
			model := map[string][]byte{}
			for oi, o := range prog {
				switch {
				case o.commit:
					if err = tr.Commit(); err != nil {
						kit.FailPlain(t, "C01", "C01:commit-error", "prog %d op %d: %v", pi, oi, err)
					}
					root, _ := tr.RootHash()
					got, lerr := verifTGLeaves(tr, root)
					if lerr != nil {
						kit.FailPlain(t, "C01", "C01:leaves-error", "prog %d op %d: %v", pi, oi, lerr)
					}
					if slug, msg := verifTGCompareLeaves(got, model); slug != "" {
						kit.FailPlain(t, "C01", "C01:"+slug, "prog %d op %d level %d: %s", pi, oi, level, msg)
					}
				case o.v == "":
					if err = tr.Delete([]byte(o.k)); err != nil {
						kit.FailPlain(t, "C01", "C01:delete-error", "prog %d op %d: %v", pi, oi, err)
					}
					delete(model, o.k)
				default:
					if err = tr.Update([]byte(o.k), []byte(o.v)); err != nil {
						kit.FailPlain(t, "C01", "C01:update-error", "prog %d op %d: %v", pi, oi, err)
					}
					model[o.k] = []byte(o.v)
				}
				for _, q := range prog {
					if q.commit {
						continue
					}
					got, gerr := tr.Get([]byte(q.k))
					if gerr != nil {
						kit.FailPlain(t, "C01", "C01:get-error", "prog %d op %d Get(%x): %v", pi, oi, q.k, gerr)
					}
					if !verifTGEq(got, model[q.k]) {
						kit.FailPlain(t, "C01", "C01:get-mismatch", "prog %d op %d level %d Get(%x)=%x want %x", pi, oi, level, q.k, got, model[q.k])
					}
				}
			}
		}
	}
}

// TestVerifC01_Regress2: (1) one value slice written under two keys, one of them overwritten with
// another value of the same length; (2) 300 keys, the current committed root enumerated but drained
// only after every key was overwritten.
func TestVerifC01_Regress2(t *testing.T) {
	kit.Silence()
	tr, err := verifTGPlainTrie(5)
	if err != nil {
		t.Fatalf("fixture: %v", err)
	}
	shared := []byte("value-AAAA")
	_ = tr.Update([]byte("doe"), []byte("reindeer"))
	_ = tr.Update([]byte("dog"), shared)
	_ = tr.Update([]byte("ddog"), shared)
	_ = tr.Update([]byte("dog"), []byte("value-BBBB"))
	if v, _ := tr.Get([]byte("ddog")); string(v) != "value-AAAA" {
		kit.FailPlain(t, "C01", "C01:get-mismatch", "Get(ddog) = %q after overwriting dog (same slice written under both), last written value-AAAA", v)
	}
	if v, _ := tr.Get([]byte("dog")); string(v) != "value-BBBB" {
		kit.FailPlain(t, "C01", "C01:get-mismatch", "Get(dog) = %q, last written value-BBBB", v)
	}

	tr, err = verifTGPlainTrie(5)
	if err != nil {
		t.Fatalf("fixture: %v", err)
	}
	h := verifTGPlainHasher()
	committed, model := map[string][]byte{}, map[string][]byte{}
	var keys [][]byte
	for i := 0; i < 300; i++ {
		k := h.Compute(fmt.Sprint(i))
		keys = append(keys, k)
		_ = tr.Update(k, []byte{byte(i), 1})
		committed[string(k)] = []byte{byte(i), 1}
	}
	_ = tr.Commit()
	root, _ := tr.RootHash()
	ch, err := tr.GetAllLeavesOnChannel(root)
	if err != nil {
		kit.FailPlain(t, "C01", "C01:enum-while-writing:leaves-error", "%v", err)
		return
	}
	for i := 0; i < 400 && len(ch) < cap(ch); i++ {
		time.Sleep(25 * time.Microsecond)
	}
	for i, k := range keys {
		_ = tr.Update(k, []byte{byte(i), 2, 2})
		model[string(k)] = []byte{byte(i), 2, 2}
	}
	var got []verifTGPair
	for kv := range ch {
		got = append(got, verifTGPair{append([]byte{}, kv.Key()...), append([]byte{}, kv.Value()...)})
	}
	if slug, msg := verifTGCompareLeaves(got, committed); slug != "" {
		kit.FailPlain(t, "C01", "C01:enum-while-writing:"+slug, "%s", msg)
	}
	_ = tr.Commit()
	for _, k := range keys {
		if v, _ := tr.Get(k); !verifTGEq(v, model[string(k)]) {
			kit.FailPlain(t, "C01", "C01:enum-while-writing:get-mismatch", "Get(%x) = %x, last written %x", k, v, model[string(k)])
		}
	}
}
