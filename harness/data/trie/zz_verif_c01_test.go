package trie

import (
	"fmt"
	"testing"

	"github.com/ElrondNetwork/elrond-go/data"
	kit "github.com/ElrondNetwork/elrond-go/verifkit"
	"pgregory.net/rapid"
)

// C01: State trie behaves as a key-value map.
//
// Stateful program (update / update-with-empty-value / delete / commit / enumerate a committed root)
// over structurally colliding keys, against a Go map. After every step every key ever used is read
// back; after commits the enumeration of a committed root (the latest or an older one) is compared
// with the model recorded at that commit, in both directions.

type verifC01Commit struct {
	root  []byte
	model map[string][]byte
}

type verifC01State struct {
	c       *kit.Case
	tr      data.Trie
	pool    *verifTGPool
	model   map[string][]byte
	commits []verifC01Commit
	log     verifTGLog
	nonTriv bool
	dirty   bool // updates since the last commit
	lazy    bool // sparse reads: most steps read only a few keys, so collapsed nodes stay collapsed
}

func (s *verifC01State) fail(slug string, format string, args ...interface{}) {
	s.c.Violation("C01:"+slug, "%s\nhistory: %s", fmt.Sprintf(format, args...), s.log.String())
}

func (s *verifC01State) put(rt *rapid.T) {
	k := s.pool.Key(rt, 4)
	var v []byte
	if old, ok := s.model[string(k)]; ok && rapid.IntRange(0, 7).Draw(rt, "sameValue") == 0 {
		v = append([]byte{}, old...) // overwrite with an equal value (no-op path)
		s.c.Class("op:update-same-value")
	} else {
		v = verifTGValue(rt)
	}
	s.log.Add("U %x=%x", k, v)
	var err error
	s.c.NoPanic("C01:update-panic", func() { err = s.tr.Update(append([]byte{}, k...), append([]byte{}, v...)) })
	if err != nil {
		s.fail("update-error", "Update(%x, %x) returned %v", k, v, err)
	}
	if _, ok := s.model[string(k)]; ok {
		s.c.Class("op:overwrite")
	} else {
		s.c.Class("op:insert")
	}
	s.model[string(k)] = v
	s.dirty = true
}

func (s *verifC01State) remove(rt *rapid.T, viaUpdate bool) {
	k := s.pool.Key(rt, 8)
	_, present := s.model[string(k)]
	var b0, e0 int
	if present {
		b0, e0 = verifTGShape(s.model)
	}
	var err error
	if viaUpdate {
		s.log.Add("U %x=", k)
		empty := []byte{}
		if rapid.Bool().Draw(rt, "nilValue") {
			empty = nil
		}
		s.c.NoPanic("C01:update-panic", func() { err = s.tr.Update(append([]byte{}, k...), empty) })
		if err != nil {
			s.fail("update-error", "Update(%x, empty) returned %v", k, err)
		}
	} else {
		s.log.Add("D %x", k)
		s.c.NoPanic("C01:delete-panic", func() { err = s.tr.Delete(append([]byte{}, k...)) })
		if err != nil {
			s.fail("delete-error", "Delete(%x) returned %v", k, err)
		}
	}
	if !present {
		s.c.Class("op:delete-absent")
		return
	}
	delete(s.model, string(k))
	s.dirty = true
	b1, e1 := verifTGShape(s.model)
	s.c.Class("op:delete-present")
	if b1 < b0 {
		// a branch with exactly two children lost one: reduceNode
		s.c.Class("op:delete-reduces-branch")
		s.nonTriv = true
	}
	if e1 != e0 {
		s.c.Class("op:delete-changes-extensions")
	}
}

func (s *verifC01State) commit(rt *rapid.T) {
	s.log.Add("C")
	var err error
	var root []byte
	s.c.NoPanic("C01:commit-panic", func() {
		err = s.tr.Commit()
		if err == nil {
			root, err = s.tr.RootHash()
		}
	})
	if err != nil {
		s.fail("commit-error", "Commit/RootHash returned %v", err)
	}
	s.commits = append(s.commits, verifC01Commit{root: append([]byte{}, root...), model: verifTGCopyModel(s.model)})
	s.dirty = false
	s.c.Class("op:commit")
}

func (s *verifC01State) leaves(idx int) {
	cm := s.commits[idx]
	s.log.Add("L %d", idx)
	var got []verifTGPair
	var err error
	s.c.NoPanic("C01:leaves-panic", func() { got, err = verifTGLeaves(s.tr, cm.root) })
	if err != nil {
		s.fail("leaves-error", "GetAllLeavesOnChannel(%x) of commit %d returned %v", cm.root, idx, err)
	}
	if slug, msg := verifTGCompareLeaves(got, cm.model); slug != "" {
		s.fail(slug, "commit %d (root %x): %s", idx, cm.root, msg)
	}
	if idx == len(s.commits)-1 && !s.dirty {
		s.c.Class("op:leaves-current")
	} else {
		s.c.Class("op:leaves-older-root")
	}
}

// readSome is the per-step check of a lazy case: reading every key after every step would pull the
// whole trie into memory and hide defects of the lazy child resolution after Commit.
func (s *verifC01State) readSome(rt *rapid.T) {
	if len(s.pool.used) == 0 {
		return
	}
	switch n := rapid.IntRange(0, 9).Draw(rt, "lazyReads"); {
	case n == 0:
		s.readKeys(s.pool.used)
	case n <= 3:
		i := rapid.IntRange(0, len(s.pool.used)-1).Draw(rt, "readIdx")
		s.readKeys(s.pool.used[i : i+1])
	}
}

func (s *verifC01State) readAll() { s.readKeys(s.pool.used) }

func (s *verifC01State) readKeys(keys [][]byte) {
	for _, k := range keys {
		var got []byte
		var err error
		s.c.NoPanic("C01:get-panic", func() { got, err = s.tr.Get(append([]byte{}, k...)) })
		if err != nil {
			s.fail("get-error", "Get(%x) returned error %v", k, err)
		}
		want, ok := s.model[string(k)]
		if !ok {
			if len(got) != 0 {
				s.fail("get-absent-returns-value", "Get(%x) = %x, the key is not live", k, got)
			}
			continue
		}
		if !verifTGEq(got, want) {
			s.fail("get-mismatch", "Get(%x) = %x, last written %x", k, got, want)
		}
	}
}

func TestVerifC01_MapModel(t *testing.T) {
	steps := 40
	if kit.Thorough() {
		steps = 80
	}
	kit.Run(t, "C01", kit.Budget{Quick: 4000, Thorough: 25000, Steps: steps},
		"stateful programs (update, update with empty/nil value, delete, commit, enumerate a committed root) over keys prefix||suffix with a per-case pool of <=4 suffixes, keys derived from used keys (prepend a byte, flip a nibble, drop first byte), empty, 1-byte, 32-byte keys; maxTrieLevelInMemory 1..6; blake2b|sha256; oracle Go map; per case either all used keys are read after every step or (2/3 of cases) only 0-1 keys on most steps and all keys on 1/10 of the steps and at the end, so that collapsed nodes stay collapsed across operations; enumeration compared both ways; non-trivial = history has a delete of a live key that removes a branch point of the ideal radix tree (forces reduceNode); distinct by op log",
		func(rt *rapid.T, c *kit.Case) {
			hasher := verifTGHasher(rt)
			level := verifTGLevel(rt, "maxLevel")
			s := &verifC01State{c: c, pool: verifTGNewPool(rt), model: map[string][]byte{}}
			s.tr = verifTGNewTrie(rt, verifTGNewTSM(rt), hasher, level)
			s.lazy = rapid.IntRange(0, 2).Draw(rt, "lazyReadsCase") > 0
			s.log.Add("level %d lazy %v", level, s.lazy)
			if s.lazy {
				c.Class("case:sparse-reads")
			} else {
				c.Class("case:read-all-every-step")
			}
			if kit.Thorough() {
				s.pool.maxLen = 120
			}
			defer func() { _ = s.tr.Close() }()

			rt.Repeat(map[string]func(*rapid.T){
				"put":  s.put,
				"put2": s.put,
				"put3": s.put,
				"updateEmpty": func(t *rapid.T) {
					s.remove(t, true)
				},
				"delete": func(t *rapid.T) {
					s.remove(t, false)
				},
				"delete2": func(t *rapid.T) {
					s.remove(t, false)
				},
				"commit": s.commit,
				"rootHash": func(t *rapid.T) {
					// RootHash() without Commit caches hashes on dirty nodes; later updates must invalidate them
					// (a stale hash becomes the storage key of the node at the next commit)
					s.log.Add("H")
					s.c.NoPanic("C01:roothash-panic", func() { _, _ = s.tr.RootHash() })
					s.c.Class("op:roothash-midway")
				},
				"leaves": func(t *rapid.T) {
					if len(s.commits) == 0 {
						t.Skip("no commit yet")
					}
					idx := len(s.commits) - 1
					if rapid.IntRange(0, 2).Draw(t, "olderRoot") == 0 {
						idx = rapid.IntRange(0, len(s.commits)-1).Draw(t, "commitIdx")
					}
					s.leaves(idx)
				},
				"": func(t *rapid.T) {
					if s.lazy {
						s.readSome(t)
					} else {
						s.readAll()
					}
				},
			})

			// every case ends with a commit and an enumeration of the final state
			s.commit(rt)
			s.leaves(len(s.commits) - 1)
			s.readAll()
			if len(s.commits) > 1 {
				s.leaves(0)
			}
			if s.nonTriv {
				c.NonTrivial(s.log.String())
				c.Sample("%s", s.log.String())
			}
		})
}

// TestVerifC01_Regress: fixed shapes that exercise reduceNode on every kind of remaining child
// (leaf, extension, branch, child 16) before and after a commit; run in every tier.
func TestVerifC01_Regress(t *testing.T) {
	kit.Silence()
	type op struct {
		k, v   string
		commit bool
	}
	progs := [][]op{
		// remaining child is a leaf under child 16 (key is a suffix of the other)
		{{k: "\x11", v: "a"}, {k: "\x01\x11", v: "b"}, {commit: true}, {k: "\x01\x11"}, {commit: true}},
		// remaining child is an extension
		{{k: "\x00\x00\x11", v: "a"}, {k: "\x01\x00\x11", v: "b"}, {k: "\x22", v: "c"}, {commit: true}, {k: "\x22"}, {commit: true}},
		// remaining child is a branch
		{{k: "\x01", v: "a"}, {k: "\x11", v: "b"}, {k: "\x02", v: "c"}, {commit: true}, {k: "\x02"}, {commit: true}},
		// extension over extension merge
		{{k: "\x00\x00\x00", v: "a"}, {k: "\x10\x00\x00", v: "b"}, {k: "\x00\x01\x00", v: "c"}, {commit: true}, {k: "\x00\x01\x00"}, {commit: true}},
		// empty key
		{{k: "", v: "a"}, {k: "\x00", v: "b"}, {commit: true}, {k: "\x00"}, {k: "", v: "z"}, {commit: true}},
	}
	for pi, prog := range progs {
		for level := uint(1); level <= 3; level++ {
			tr, err := verifTGPlainTrie(level)
			if err != nil {
				t.Fatalf("fixture: %v", err)
			}
			model := map[string][]byte{}
			for oi, o := range prog {
				switch {
				case o.commit:
					if err = tr.Commit(); err != nil {
						kit.FailPlain(t, "C01", "C01:commit-error", "prog %d op %d: %v", pi, oi, err)
					}
					root, _ := tr.RootHash()
					got, lerr := verifTGLeaves(tr, root)
					if lerr != nil {
						kit.FailPlain(t, "C01", "C01:leaves-error", "prog %d op %d: %v", pi, oi, lerr)
					}
					if slug, msg := verifTGCompareLeaves(got, model); slug != "" {
						kit.FailPlain(t, "C01", "C01:"+slug, "prog %d op %d level %d: %s", pi, oi, level, msg)
					}
				case o.v == "":
					if err = tr.Delete([]byte(o.k)); err != nil {
						kit.FailPlain(t, "C01", "C01:delete-error", "prog %d op %d: %v", pi, oi, err)
					}
					delete(model, o.k)
				default:
					if err = tr.Update([]byte(o.k), []byte(o.v)); err != nil {
						kit.FailPlain(t, "C01", "C01:update-error", "prog %d op %d: %v", pi, oi, err)
					}
					model[o.k] = []byte(o.v)
				}
				for _, q := range prog {
					if q.commit {
						continue
					}
					got, gerr := tr.Get([]byte(q.k))
					if gerr != nil {
						kit.FailPlain(t, "C01", "C01:get-error", "prog %d op %d Get(%x): %v", pi, oi, q.k, gerr)
					}
					if !verifTGEq(got, model[q.k]) {
						kit.FailPlain(t, "C01", "C01:get-mismatch", "prog %d op %d level %d Get(%x)=%x want %x", pi, oi, level, q.k, got, model[q.k])
					}
				}
			}
		}
	}
}
