package trie

import (
	"fmt"
	"path/filepath"
	"testing"

	"github.com/ElrondNetwork/elrond-go/data"
	"github.com/ElrondNetwork/elrond-go/hashing"
	kit "github.com/ElrondNetwork/elrond-go/verifkit"
	"pgregory.net/rapid"
)

// C03: Committed trie state is recoverable from its root hash.
//
// Stateful: update / delete / commit / recreate(any committed root) / fork. Every commit stores
// (root -> copy of the model). A "replica set" holds tries that must all behave like the model: the
// working trie plus tries recreated from its last commit (fork), possibly through a trie object with
// another maxTrieLevelInMemory. All later operations are applied to every replica; after each step
// all replicas must read like the model and agree on RootHash. recreate(root_i) replaces the replica
// set by Recreate(root_i) and the model by the stored copy. At the end every committed root is
// recreated once more and checked (RootHash, reads of all keys ever used, enumeration).
// No pruning call is ever made (pruning is C09).

type verifC03Commit struct {
	root  []byte
	model map[string][]byte
}

type verifC03State struct {
	c        *kit.Case
	tsm      data.StorageManager
	hasher   hashing.Hasher
	pool     *verifTGPool
	replicas []data.Trie
	model    map[string][]byte
	commits  []verifC03Commit
	clean    bool // no mutation since the last commit/recreate: replicas equal commits[cleanIdx]
	cleanIdx int
	log      verifTGLog

	lazy             bool // sparse reads: recreated tries are mutated while most of their nodes are still collapsed
	hashEveryStep    bool // RootHash is requested after every step (hashes cached before Commit)
	afterOldRecreate bool // the replica set stems from a root older than the latest commit
	nonTriv          bool
}

func (s *verifC03State) fail(slug, format string, args ...interface{}) {
	s.c.Violation("C03:"+slug, "%s\nhistory: %s", fmt.Sprintf(format, args...), s.log.String())
}

func (s *verifC03State) put(rt *rapid.T) {
	k := s.pool.Key(rt, 4)
	v := verifTGValue(rt)
	s.log.Add("U %x=%x", k, v)
	for i, tr := range s.replicas {
		var err error
		s.c.NoPanic("C03:update-panic", func() { err = tr.Update(append([]byte{}, k...), append([]byte{}, v...)) })
		if err != nil {
			s.fail("update-error", "replica %d: Update(%x,%x): %v", i, k, v, err)
		}
	}
	s.model[string(k)] = v
	s.mutated()
}

func (s *verifC03State) del(rt *rapid.T) {
	k := s.pool.Key(rt, 8)
	viaUpdate := rapid.Bool().Draw(rt, "viaUpdate")
	s.log.Add("D %x", k)
	for i, tr := range s.replicas {
		var err error
		s.c.NoPanic("C03:delete-panic", func() {
			if viaUpdate {
				err = tr.Update(append([]byte{}, k...), nil)
			} else {
				err = tr.Delete(append([]byte{}, k...))
			}
		})
		if err != nil {
			s.fail("delete-error", "replica %d: delete %x: %v", i, k, err)
		}
	}
	if _, ok := s.model[string(k)]; ok {
		delete(s.model, string(k))
		s.mutated()
	}
}

func (s *verifC03State) mutated() {
	s.clean = false
	if s.afterOldRecreate {
		s.nonTriv = true
		s.c.Class("mutation-after-old-recreate")
	}
}

func (s *verifC03State) rootOf(i int) []byte {
	var h []byte
	var err error
	s.c.NoPanic("C03:roothash-panic", func() { h, err = s.replicas[i].RootHash() })
	if err != nil {
		s.fail("roothash-error", "replica %d RootHash: %v", i, err)
	}
	return append([]byte{}, h...)
}

func (s *verifC03State) commit(rt *rapid.T) {
	s.log.Add("C")
	var root []byte
	for i, tr := range s.replicas {
		var err error
		s.c.NoPanic("C03:commit-panic", func() { err = tr.Commit() })
		if err != nil {
			s.fail("commit-error", "replica %d Commit: %v", i, err)
		}
		r := s.rootOf(i)
		if i == 0 {
			root = r
		} else if !verifTGEq(r, root) {
			s.fail("fork-root-diverges", "after Commit replica %d reports root %x, replica 0 %x", i, r, root)
		}
	}
	s.commits = append(s.commits, verifC03Commit{root: root, model: verifTGCopyModel(s.model)})
	s.clean = true
	s.cleanIdx = len(s.commits) - 1
	s.afterOldRecreate = false
	s.c.Class("op:commit")
}

// open recreates a trie for a committed root, optionally through a trie object with another level.
func (s *verifC03State) open(rt *rapid.T, root []byte) data.Trie {
	base := s.replicas[0]
	if rapid.Bool().Draw(rt, "otherLevel") {
		lvl := verifTGLevel(rt, "level")
		s.log.Add("lvl %d", lvl)
		base = verifTGNewTrie(rt, s.tsm, s.hasher, lvl)
	}
	var ntr data.Trie
	var err error
	s.c.NoPanic("C03:recreate-panic", func() { ntr, err = base.Recreate(root) })
	if err != nil || ntr == nil || ntr.IsInterfaceNil() {
		s.fail("recreate-error", "Recreate(%x) of a committed, unpruned root failed: %v", root, err)
	}
	return ntr
}

func (s *verifC03State) checkAgainst(tr data.Trie, who string, root []byte, model map[string][]byte, enumerate bool, read bool) {
	var h []byte
	var err error
	s.c.NoPanic("C03:roothash-panic", func() { h, err = tr.RootHash() })
	if err != nil || !verifTGEq(h, root) {
		s.fail("recreated-root-differs", "%s: RootHash = %x (err %v), recreated from %x", who, h, err, root)
	}
	if read {
		s.readAll(tr, who, model)
	}
	if enumerate {
		var got []verifTGPair
		s.c.NoPanic("C03:leaves-panic", func() { got, err = verifTGLeaves(tr, root) })
		if err != nil {
			s.fail("leaves-error", "%s: GetAllLeavesOnChannel(%x): %v", who, root, err)
		}
		if slug, msg := verifTGCompareLeaves(got, model); slug != "" {
			s.fail("recreated-"+slug, "%s (root %x): %s", who, root, msg)
		}
	}
}

func (s *verifC03State) readAll(tr data.Trie, who string, model map[string][]byte) {
	s.readKeys(tr, who, model, s.pool.used)
}

func (s *verifC03State) readKeys(tr data.Trie, who string, model map[string][]byte, keys [][]byte) {
	for _, k := range keys {
		var got []byte
		var err error
		s.c.NoPanic("C03:get-panic", func() { got, err = tr.Get(append([]byte{}, k...)) })
		if err != nil {
			s.fail("get-error", "%s: Get(%x): %v", who, k, err)
		}
		want := model[string(k)]
		if !verifTGEq(got, want) {
			s.fail("get-mismatch", "%s: Get(%x) = %x, want %x", who, k, got, want)
		}
	}
}

func (s *verifC03State) recreate(rt *rapid.T) {
	if len(s.commits) == 0 {
		rt.Skip("no commit yet")
	}
	idx := rapid.IntRange(0, len(s.commits)-1).Draw(rt, "commitIdx")
	cm := s.commits[idx]
	s.log.Add("R %d", idx)
	ntr := s.open(rt, cm.root)
	s.checkAgainst(ntr, fmt.Sprintf("trie recreated from commit %d", idx), cm.root, cm.model, rapid.Bool().Draw(rt, "enumerate"), !s.lazy)
	for _, old := range s.replicas {
		_ = old.Close()
	}
	s.replicas = []data.Trie{ntr}
	s.model = verifTGCopyModel(cm.model)
	s.clean = true
	s.cleanIdx = idx
	s.afterOldRecreate = idx < len(s.commits)-1
	if s.afterOldRecreate {
		s.c.Class("op:recreate-older-root")
	} else {
		s.c.Class("op:recreate-latest-root")
	}
}

func (s *verifC03State) fork(rt *rapid.T) {
	if len(s.replicas) >= 3 {
		rt.Skip("enough replicas")
	}
	if !s.clean {
		s.commit(rt)
	}
	cm := s.commits[s.cleanIdx]
	s.log.Add("F")
	ntr := s.open(rt, cm.root)
	s.checkAgainst(ntr, "fork", cm.root, cm.model, false, !s.lazy)
	s.replicas = append(s.replicas, ntr)
	s.c.Class("op:fork")
}

func (s *verifC03State) invariant(rt *rapid.T) {
	var root []byte
	keys := s.pool.used
	if s.lazy && len(keys) > 0 {
		// reading everything after every step would resolve every collapsed node before the next mutation
		switch n := rapid.IntRange(0, 9).Draw(rt, "lazyReads"); {
		case n == 0:
		case n <= 3:
			i := rapid.IntRange(0, len(keys)-1).Draw(rt, "readIdx")
			keys = keys[i : i+1]
		default:
			keys = nil
		}
	}
	for i, tr := range s.replicas {
		s.readKeys(tr, fmt.Sprintf("replica %d of %d", i, len(s.replicas)), s.model, keys)
		if len(s.replicas) > 1 || s.hashEveryStep {
			r := s.rootOf(i)
			if i == 0 {
				root = r
			} else if !verifTGEq(r, root) {
				s.fail("fork-root-diverges", "replica %d reports root %x, replica 0 %x after the same operations", i, r, root)
			}
		}
	}
	if s.clean {
		// no mutation since commit/recreate: the root hash must be the committed one
		if r := s.rootOf(0); !verifTGEq(r, s.commits[s.cleanIdx].root) {
			s.fail("recreated-root-differs", "replica 0 reports %x, committed root %d is %x", r, s.cleanIdx, s.commits[s.cleanIdx].root)
		}
	}
}

func TestVerifC03_RecreateFromRoot(t *testing.T) {
	steps := 40
	if kit.Thorough() {
		steps = 70
	}
	dir := t.TempDir()
	caseNo := 0
	kit.Run(t, "C03", kit.Budget{Quick: 3000, Thorough: 25000, Steps: steps},
		"stateful programs update/delete/commit/recreate(any committed root)/fork over C01 keys, storage = trieStorageManager (real, pruning-capable, no prune calls) or trieStorageManagerWithoutPruning over memorydb, maxTrieLevelInMemory 1..6 per trie object; model map per commit; all replicas read like the model (all keys after every step, or in 2/3 of the cases sparse reads so that recreated tries are mutated while still collapsed; all keys at the end) and agree on the root; at the end every committed root is recreated, read and enumerated; non-trivial = recreate of a root older than the latest commit followed by >=1 mutation; distinct by op log",
		func(rt *rapid.T, c *kit.Case) {
			caseNo++
			hasher := verifTGHasher(rt)
			s := &verifC03State{c: c, hasher: hasher, pool: verifTGNewPool(rt), model: map[string][]byte{}}
			if rapid.Bool().Draw(rt, "pruningTSM") {
				s.tsm = verifTGNewPruningTSM(rt, filepath.Join(dir, fmt.Sprintf("snap-%d", caseNo)), hasher)
				c.Class("tsm:pruning-capable")
			} else {
				s.tsm = verifTGNewTSM(rt)
				c.Class("tsm:without-pruning")
			}
			defer func() { _ = s.tsm.Close() }()
			level := verifTGLevel(rt, "maxLevel")
			s.hashEveryStep = rapid.Bool().Draw(rt, "hashEveryStep")
			s.lazy = rapid.IntRange(0, 2).Draw(rt, "lazyReadsCase") > 0
			s.log.Add("lvl %d hashEveryStep %v lazy %v", level, s.hashEveryStep, s.lazy)
			if s.lazy {
				c.Class("case:sparse-reads")
			}
			s.replicas = []data.Trie{verifTGNewTrie(rt, s.tsm, hasher, level)}
			defer func() {
				for _, tr := range s.replicas {
					_ = tr.Close()
				}
			}()

			rt.Repeat(map[string]func(*rapid.T){
				"put":      s.put,
				"put2":     s.put,
				"put3":     s.put,
				"delete":   s.del,
				"delete2":  s.del,
				"commit":   s.commit,
				"commit2":  s.commit,
				"recreate": s.recreate,
				"fork":     s.fork,
				"":         s.invariant,
			})

			// all committed roots are still recreatable (nothing was pruned)
			for i, tr := range s.replicas {
				s.readAll(tr, fmt.Sprintf("end: replica %d of %d", i, len(s.replicas)), s.model)
			}
			s.commit(rt)
			for idx, cm := range s.commits {
				// use a trie object that was not involved with this root's nodes in memory
				base := verifTGNewTrie(rt, s.tsm, hasher, uint(1+idx%6))
				var ntr data.Trie
				var err error
				c.NoPanic("C03:recreate-panic", func() { ntr, err = base.Recreate(cm.root) })
				if err != nil || ntr == nil || ntr.IsInterfaceNil() {
					s.fail("older-root-not-recreatable", "at the end Recreate(%x) (commit %d of %d) failed: %v", cm.root, idx, len(s.commits), err)
				}
				s.checkAgainst(ntr, fmt.Sprintf("end: commit %d of %d", idx, len(s.commits)), cm.root, cm.model, true, true)
				_ = ntr.Close()
			}
			if s.nonTriv {
				c.NonTrivial(s.log.String())
				c.Sample("%s", s.log.String())
			}
		})
}

// TestVerifC03_Regress: fixed history: three commits, recreate the first, mutate, commit, everything
// still recreatable, for levels 1..3.
func TestVerifC03_Regress(t *testing.T) {
	kit.Silence()
	for level := uint(1); level <= 3; level++ {
		tr, err := verifTGPlainTrie(level)
		if err != nil {
			t.Fatalf("fixture: %v", err)
		}
		type cm struct {
			root  []byte
			model map[string][]byte
		}
		var commits []cm
		model := map[string][]byte{}
		put := func(k, v string) {
			_ = tr.Update([]byte(k), []byte(v))
			if v == "" {
				delete(model, k)
			} else {
				model[k] = []byte(v)
			}
		}
		commit := func() {
			_ = tr.Commit()
			r, _ := tr.RootHash()
			commits = append(commits, cm{append([]byte{}, r...), verifTGCopyModel(model)})
		}
		put("\x00\x00\x11", "a")
		put("\x01\x00\x11", "b")
		put("\x11", "c")
		commit()
		put("\x01\x00\x11", "")
		put("\x10\x11", "d")
		commit()
		put("\x11", "")
		put("\x00\x00\x11", "")
		commit()
		ntr, err := tr.Recreate(commits[0].root)
		if err != nil {
			kit.FailPlain(t, "C03", "C03:recreate-error", "level %d: %v", level, err)
			continue
		}
		tr = ntr
		model = verifTGCopyModel(commits[0].model)
		put("\x00\x00\x11", "")
		put("\x21", "e")
		commit()
		for i, c := range commits {
			rt2, err := tr.Recreate(c.root)
			if err != nil {
				kit.FailPlain(t, "C03", "C03:older-root-not-recreatable", "level %d commit %d: %v", level, i, err)
				continue
			}
			h, _ := rt2.RootHash()
			if !verifTGEq(h, c.root) {
				kit.FailPlain(t, "C03", "C03:recreated-root-differs", "level %d commit %d: %x vs %x", level, i, h, c.root)
			}
			got, err := verifTGLeaves(rt2, c.root)
			if err != nil {
				kit.FailPlain(t, "C03", "C03:leaves-error", "level %d commit %d: %v", level, i, err)
			}
			if slug, msg := verifTGCompareLeaves(got, c.model); slug != "" {
				kit.FailPlain(t, "C03", "C03:recreated-"+slug, "level %d commit %d: %s", level, i, msg)
			}
			for _, k := range []string{"\x00\x00\x11", "\x01\x00\x11", "\x11", "\x10\x11", "\x21"} {
				v, _ := rt2.Get([]byte(k))
				if !verifTGEq(v, c.model[k]) {
					kit.FailPlain(t, "C03", "C03:get-mismatch", "level %d commit %d Get(%x)=%x want %x", level, i, k, v, c.model[k])
				}
			}
		}
	}
}
