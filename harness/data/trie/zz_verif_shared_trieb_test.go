package trie

// Helpers shared by the C04/C05 harnesses (prefix verifTB). Independent of zz_verif_shared_triegen_test.go.

import (
	"bytes"
	"encoding/hex"
	"errors"
	"sort"
	"sync"

	"github.com/ElrondNetwork/elrond-go/data"
	"github.com/ElrondNetwork/elrond-go/hashing"
	"github.com/ElrondNetwork/elrond-go/hashing/blake2b"
	"github.com/ElrondNetwork/elrond-go/hashing/sha256"
	"github.com/ElrondNetwork/elrond-go/marshal"
	"pgregory.net/rapid"
)

// verifTBMapDB is a map-backed data.DBWriteCacher that can be enumerated (the repository's memory
// databases cannot). Get of an absent key returns an error, like the real persisters.
type verifTBMapDB struct {
	mu sync.Mutex
	m  map[string][]byte
}

var verifTBErrNotFound = errors.New("verifTB: key not found")

func verifTBNewMapDB() *verifTBMapDB { return &verifTBMapDB{m: map[string][]byte{}} }

func (d *verifTBMapDB) Put(key, val []byte) error {
	d.mu.Lock()
	d.m[string(key)] = append([]byte(nil), val...)
	d.mu.Unlock()
	return nil
}

func (d *verifTBMapDB) Get(key []byte) ([]byte, error) {
	d.mu.Lock()
	v, ok := d.m[string(key)]
	d.mu.Unlock()
	if !ok {
		return nil, verifTBErrNotFound
	}
	return append([]byte(nil), v...), nil
}

func (d *verifTBMapDB) Remove(key []byte) error {
	d.mu.Lock()
	delete(d.m, string(key))
	d.mu.Unlock()
	return nil
}

func (d *verifTBMapDB) Close() error         { return nil }
func (d *verifTBMapDB) IsInterfaceNil() bool { return d == nil }

// sorted keys (deterministic enumeration)
func (d *verifTBMapDB) keys() []string {
	d.mu.Lock()
	ks := make([]string, 0, len(d.m))
	for k := range d.m {
		ks = append(ks, k)
	}
	d.mu.Unlock()
	sort.Strings(ks)
	return ks
}

func (d *verifTBMapDB) len() int {
	d.mu.Lock()
	defer d.mu.Unlock()
	return len(d.m)
}

type verifTBKV struct {
	k []byte
	v []byte
}

// verifTBModel is an insertion-ordered key/value model (no map iteration anywhere).
type verifTBModel struct {
	idx map[string]int
	kvs []verifTBKV
}

func verifTBNewModel() *verifTBModel { return &verifTBModel{idx: map[string]int{}} }

func (m *verifTBModel) put(k, v []byte) {
	if i, ok := m.idx[string(k)]; ok {
		m.kvs[i].v = v
		return
	}
	m.idx[string(k)] = len(m.kvs)
	m.kvs = append(m.kvs, verifTBKV{k: k, v: v})
}

func (m *verifTBModel) has(k []byte) bool { _, ok := m.idx[string(k)]; return ok }

func (m *verifTBModel) get(k []byte) []byte {
	if i, ok := m.idx[string(k)]; ok {
		return m.kvs[i].v
	}
	return nil
}

func (m *verifTBModel) String() string {
	var b bytes.Buffer
	b.WriteString("{")
	for i, kv := range m.kvs {
		if i > 0 {
			b.WriteString(" ")
		}
		b.WriteString(hex.EncodeToString(kv.k))
		b.WriteString(":")
		b.WriteString(hex.EncodeToString(kv.v))
	}
	b.WriteString("}")
	return b.String()
}

func (m *verifTBModel) keysString() string {
	var b bytes.Buffer
	for i, kv := range m.kvs {
		if i > 0 {
			b.WriteString(",")
		}
		b.WriteString(hex.EncodeToString(kv.k))
	}
	return b.String()
}

var verifTBAlphabet = []byte{0x00, 0x01, 0x0f, 0x10, 0x11, 0xf0, 0xff}

func verifTBGenByte(rt *rapid.T, label string) byte {
	i := rapid.IntRange(0, len(verifTBAlphabet)+1).Draw(rt, label)
	if i < len(verifTBAlphabet) {
		return verifTBAlphabet[i]
	}
	return rapid.Byte().Draw(rt, label+"Rnd")
}

func verifTBGenBytes(rt *rapid.T, label string, minLen, maxLen int) []byte {
	n := rapid.IntRange(minLen, maxLen).Draw(rt, label+"Len")
	b := make([]byte, n)
	for i := range b {
		b[i] = verifTBGenByte(rt, label)
	}
	return b
}

// verifTBKeyGen is the "KG" key generator of DESIGN.md: keys are prefix||suffix with the suffix taken
// from a small per-case pool, so that keys share trailing bytes = share the beginning of the
// (reversed-nibble) trie path, which produces extension nodes and nested branches.
type verifTBKeyGen struct {
	suffixes [][]byte
}

func verifTBNewKeyGen(rt *rapid.T) *verifTBKeyGen {
	n := rapid.IntRange(1, 4).Draw(rt, "numSuffixes")
	g := &verifTBKeyGen{}
	for i := 0; i < n; i++ {
		g.suffixes = append(g.suffixes, verifTBGenBytes(rt, "suffix", 0, 3))
	}
	return g
}

func (g *verifTBKeyGen) key(rt *rapid.T) []byte {
	switch rapid.IntRange(0, 39).Draw(rt, "keyKind") {
	case 0:
		return rapid.SliceOfN(rapid.Byte(), 32, 32).Draw(rt, "key32")
	case 1:
		return []byte{}
	case 2:
		return []byte{verifTBGenByte(rt, "key1")}
	default:
		s := g.suffixes[rapid.IntRange(0, len(g.suffixes)-1).Draw(rt, "suffixIdx")]
		p := verifTBGenBytes(rt, "prefix", 0, 3)
		return append(append([]byte{}, p...), s...)
	}
}

func verifTBGenValue(rt *rapid.T) []byte {
	return rapid.SliceOfN(rapid.Byte(), 1, 40).Draw(rt, "value")
}

func verifTBGenModel(rt *rapid.T, g *verifTBKeyGen, minKeys, maxKeys int) *verifTBModel {
	n := rapid.IntRange(minKeys, maxKeys).Draw(rt, "numKeys")
	m := verifTBNewModel()
	for i := 0; i < n || len(m.kvs) < minKeys; i++ {
		m.put(g.key(rt), verifTBGenValue(rt))
		if i > 4*maxKeys+8 {
			break
		}
	}
	return m
}

func verifTBGenHasher(rt *rapid.T) hashing.Hasher {
	if rapid.Bool().Draw(rt, "sha256") {
		return sha256.NewSha256()
	}
	return blake2b.NewBlake2b()
}

var verifTBMarsh marshal.Marshalizer = &marshal.GogoProtoMarshalizer{}

// verifTBBuildTrie creates a TF trie (DESIGN.md) over db holding the model; commits if asked.
func verifTBBuildTrie(db data.DBWriteCacher, h hashing.Hasher, maxLevel uint, m *verifTBModel, commit bool) (*patriciaMerkleTrie, error) {
	tsm, err := NewTrieStorageManagerWithoutPruning(db)
	if err != nil {
		return nil, err
	}
	tr, err := NewTrie(tsm, verifTBMarsh, h, maxLevel)
	if err != nil {
		return nil, err
	}
	for _, kv := range m.kvs {
		if err = tr.Update(kv.k, kv.v); err != nil {
			return nil, err
		}
	}
	if commit {
		if err = tr.Commit(); err != nil {
			return nil, err
		}
	}
	return tr, nil
}

type verifTBNodeShape struct {
	kind   int // extension / leaf / branch constants of the package
	keyLen int // extension or leaf key length (nibbles)
}

// verifTBShapes decodes the nodes of a genuine proof for classification purposes only.
func verifTBShapes(proof [][]byte, h hashing.Hasher) []verifTBNodeShape {
	var out []verifTBNodeShape
	for _, enc := range proof {
		n, err := decodeNode(enc, verifTBMarsh, h)
		if err != nil {
			return out
		}
		switch nn := n.(type) {
		case *branchNode:
			out = append(out, verifTBNodeShape{kind: branch})
		case *extensionNode:
			out = append(out, verifTBNodeShape{kind: extension, keyLen: len(nn.Key)})
		case *leafNode:
			out = append(out, verifTBNodeShape{kind: leaf, keyLen: len(nn.Key)})
		}
	}
	return out
}

// verifTBPath is an independent re-implementation of the key -> trie path mapping: nibbles of the key
// from the last byte to the first, low nibble first, then the terminator 16.
func verifTBPath(key []byte) []byte {
	p := make([]byte, 0, 2*len(key)+1)
	for i := len(key) - 1; i >= 0; i-- {
		p = append(p, key[i]&0x0f, key[i]>>4)
	}
	return append(p, 16)
}
