package trie

import (
	"fmt"
	"sort"
	"testing"

	"github.com/ElrondNetwork/elrond-go/data"
	"github.com/ElrondNetwork/elrond-go/hashing"
	kit "github.com/ElrondNetwork/elrond-go/verifkit"
	"pgregory.net/rapid"
)

// C02: State root hash depends only on trie contents.
//
// Three tries per case, same hasher, independently drawn maxTrieLevelInMemory, separate databases:
//   A: a random history P1 (as in C01) ending in the map M;
//   B: M inserted by pure Update calls in a drawn permutation, never committed before the comparison;
//   C: a different history P2 that also ends in M: per key of M a track (direct / wrong value then
//      final / final, delete, final / wrong, empty-update, final), detour keys that are inserted and
//      deleted again, tracks interleaved at random, commits and Recreate(root) at drawn points.
// Oracle: RootHash(A) == RootHash(B) == RootHash(C); unchanged by a final Commit and by Recreate from
// the committed root; M empty => the hash is EmptyTrieHash (32 zero bytes).

type verifC02Trie struct {
	name    string
	tr      data.Trie
	tsm     data.StorageManager
	hasher  hashing.Hasher
	level   uint
	model   map[string][]byte
	log     verifTGLog
	commits int
	// classification
	mergingDelete       bool
	commitBeforeLastUpd bool
	recreates           int
	committedSinceStart bool
}

func verifC02New(rt *rapid.T, name string, hasher hashing.Hasher) *verifC02Trie {
	level := verifTGLevel(rt, "level"+name)
	tsm := verifTGNewTSM(rt)
	x := &verifC02Trie{name: name, tsm: tsm, hasher: hasher, level: level, model: map[string][]byte{}}
	x.tr = verifTGNewTrie(rt, tsm, hasher, level)
	x.log.Add("%s level %d", name, level)
	return x
}

func (x *verifC02Trie) fail(c *kit.Case, slug, format string, args ...interface{}) {
	c.Violation("C02:"+slug, "%s\nhistory %s", fmt.Sprintf(format, args...), x.log.String())
}

func (x *verifC02Trie) put(c *kit.Case, k, v []byte) {
	x.log.Add("U %x=%x", k, v)
	var err error
	c.NoPanic("C02:update-panic", func() { err = x.tr.Update(append([]byte{}, k...), append([]byte{}, v...)) })
	if err != nil {
		x.fail(c, "update-error", "Update(%x,%x): %v", k, v, err)
	}
	x.model[string(k)] = v
	if x.committedSinceStart {
		x.commitBeforeLastUpd = true
	}
}

func (x *verifC02Trie) del(c *kit.Case, k []byte, viaUpdate bool) {
	_, present := x.model[string(k)]
	b0 := 0
	if present {
		b0, _ = verifTGShape(x.model)
	}
	var err error
	if viaUpdate {
		x.log.Add("U %x=", k)
		c.NoPanic("C02:update-panic", func() { err = x.tr.Update(append([]byte{}, k...), nil) })
	} else {
		x.log.Add("D %x", k)
		c.NoPanic("C02:delete-panic", func() { err = x.tr.Delete(append([]byte{}, k...)) })
	}
	if err != nil {
		x.fail(c, "delete-error", "delete %x: %v", k, err)
	}
	if present {
		delete(x.model, string(k))
		if b1, _ := verifTGShape(x.model); b1 < b0 {
			x.mergingDelete = true
		}
		if x.committedSinceStart {
			x.commitBeforeLastUpd = true
		}
	}
}

func (x *verifC02Trie) commit(c *kit.Case) []byte {
	x.log.Add("C")
	var err error
	var root []byte
	c.NoPanic("C02:commit-panic", func() {
		err = x.tr.Commit()
		if err == nil {
			root, err = x.tr.RootHash()
		}
	})
	if err != nil {
		x.fail(c, "commit-error", "Commit: %v", err)
	}
	x.commits++
	x.committedSinceStart = true
	return root
}

// recreate commits and continues on Recreate(root) (optionally through a trie object with another
// maxTrieLevelInMemory on the same storage).
func (x *verifC02Trie) recreate(rt *rapid.T, c *kit.Case) {
	root := x.commit(c)
	x.log.Add("R")
	base := x.tr
	if rapid.Bool().Draw(rt, "otherLevel") {
		x.level = verifTGLevel(rt, "newLevel")
		x.log.Add("level %d", x.level)
		base = verifTGNewTrie(rt, x.tsm, x.hasher, x.level)
	}
	var ntr data.Trie
	var err error
	c.NoPanic("C02:recreate-panic", func() { ntr, err = base.Recreate(root) })
	if err != nil || ntr == nil {
		x.fail(c, "recreate-error", "Recreate(%x) of a just committed root: %v", root, err)
	}
	x.tr = ntr
	x.recreates++
}

func (x *verifC02Trie) root(c *kit.Case) []byte {
	var h []byte
	var err error
	c.NoPanic("C02:roothash-panic", func() { h, err = x.tr.RootHash() })
	if err != nil {
		x.fail(c, "roothash-error", "RootHash: %v", err)
	}
	return append([]byte{}, h...)
}

type verifC02Op struct {
	k, v      []byte
	del       bool
	viaUpdate bool
}

func TestVerifC02_HistoryIndependence(t *testing.T) {
	kit.Run(t, "C02", kit.Budget{Quick: 5000, Thorough: 40000},
		"triples of tries (random history A, pure inserts in a drawn permutation B, different history C with detours, overwrites, delete+reinsert, commits and Recreate at drawn points) ending in the same map, independent maxTrieLevelInMemory 1..6, same hasher; RootHash must be byte-equal, stable under Commit/Recreate, and the 32-zero-byte hash iff the map is empty; non-trivial = C (or A) has a delete that removes a branch point AND levels differ AND C or A committed before its last update; distinct by the three op logs",
		func(rt *rapid.T, c *kit.Case) {
			hasher := verifTGHasher(rt)
			pool := verifTGNewPool(rt)

			// ---- A: random history
			a := verifC02New(rt, "A", hasher)
			n1 := rapid.IntRange(0, 40).Draw(rt, "stepsA")
			if kit.Thorough() {
				n1 = rapid.IntRange(0, 120).Draw(rt, "stepsA2")
			}
			for i := 0; i < n1; i++ {
				switch rapid.IntRange(0, 11).Draw(rt, "opA") {
				case 10, 11:
					// RootHash() without Commit (what AccountsDB.RootHash does between transactions): hashes are cached
					// on dirty nodes and must be invalidated by later updates
					_ = a.root(c)
					c.Class("A-roothash-midway")
				case 0, 1, 2, 3, 4:
					a.put(c, pool.Key(rt, 3), verifTGValue(rt))
				case 5, 6:
					a.del(c, pool.Key(rt, 8), false)
				case 7:
					a.del(c, pool.Key(rt, 8), true)
				case 8:
					a.commit(c)
				default:
					if rapid.IntRange(0, 2).Draw(rt, "recreateA") == 0 {
						a.recreate(rt, c)
					} else {
						a.commit(c)
					}
				}
			}
			if rapid.IntRange(0, 11).Draw(rt, "clearA") == 0 {
				// delete everything, possibly from a committed trie
				if rapid.Bool().Draw(rt, "commitBeforeClear") {
					a.commit(c)
				}
				for _, k := range verifTGSortedKeys(a.model) {
					a.del(c, []byte(k), rapid.Bool().Draw(rt, "clearViaUpdate"))
				}
				c.Class("A-cleared")
			}
			m := a.model
			keys := verifTGSortedKeys(m)

			// ---- B: pure inserts in a drawn permutation
			b := verifC02New(rt, "B", hasher)
			perm := keys
			if len(keys) > 1 {
				perm = rapid.Permutation(keys).Draw(rt, "permB")
			}
			peekB := rapid.IntRange(0, 3).Draw(rt, "peekB") == 0
			for _, k := range perm {
				b.put(c, []byte(k), m[k])
				if peekB && rapid.Bool().Draw(rt, "peekBnow") {
					_ = b.root(c) // RootHash() between pure inserts, without Commit
				}
			}

			// ---- C: another history ending in M
			x := verifC02New(rt, "C", hasher)
			var tracks [][]verifC02Op
			for _, k := range keys {
				kb, v := []byte(k), m[k]
				switch rapid.IntRange(0, 5).Draw(rt, "trackKind") {
				case 0, 1, 2:
					tracks = append(tracks, []verifC02Op{{k: kb, v: v}})
				case 3:
					tracks = append(tracks, []verifC02Op{{k: kb, v: verifTGValue(rt)}, {k: kb, v: v}})
				case 4:
					tracks = append(tracks, []verifC02Op{{k: kb, v: v}, {k: kb, del: true}, {k: kb, v: v}})
				default:
					tracks = append(tracks, []verifC02Op{{k: kb, v: verifTGValue(rt)}, {k: kb, del: true, viaUpdate: true}, {k: kb, v: v}})
				}
			}
			nDetours := rapid.IntRange(0, 4).Draw(rt, "detours")
			for i := 0; i < nDetours; i++ {
				var dk []byte
				if rapid.Bool().Draw(rt, "detourDerived") {
					dk = pool.Derived(rt)
				} else {
					dk = pool.Fresh(rt)
				}
				if _, inM := m[string(dk)]; inM {
					continue
				}
				dup := false
				for _, tk := range tracks {
					if string(tk[0].k) == string(dk) {
						dup = true
					}
				}
				if dup {
					continue
				}
				tr := []verifC02Op{{k: dk, v: verifTGValue(rt)}}
				if rapid.Bool().Draw(rt, "detourOverwrite") {
					tr = append(tr, verifC02Op{k: dk, v: verifTGValue(rt)})
				}
				tr = append(tr, verifC02Op{k: dk, del: true, viaUpdate: rapid.Bool().Draw(rt, "detourViaUpdate")})
				tracks = append(tracks, tr)
				c.Class("C-detour")
			}
			for len(tracks) > 0 {
				switch rapid.IntRange(0, 14).Draw(rt, "ctlC") {
				case 0, 1:
					x.commit(c)
				case 2:
					x.recreate(rt, c)
				case 12, 13, 14:
					_ = x.root(c) // RootHash() midway, without Commit
					c.Class("C-roothash-midway")
				}
				i := 0
				if len(tracks) > 1 {
					i = rapid.IntRange(0, len(tracks)-1).Draw(rt, "track")
				}
				op := tracks[i][0]
				if len(tracks[i]) == 1 {
					tracks = append(tracks[:i], tracks[i+1:]...)
				} else {
					tracks[i] = tracks[i][1:]
				}
				if op.del {
					x.del(c, op.k, op.viaUpdate)
				} else {
					x.put(c, op.k, op.v)
				}
			}
			// harness self-check: the three models agree (else the generator is wrong, not the trie)
			if len(b.model) != len(m) || len(x.model) != len(m) {
				rt.Fatalf("fixture: generator produced different final maps: %d %d %d", len(m), len(b.model), len(x.model))
			}
			for _, k := range keys {
				if !verifTGEq(b.model[k], m[k]) || !verifTGEq(x.model[k], m[k]) {
					rt.Fatalf("fixture: generator produced different final maps at key %x", k)
				}
			}

			// ---- oracle
			interCommits, interRecreates := a.commits+x.commits, a.recreates+x.recreates
			all := []*verifC02Trie{a, b, x}
			desc := func() string {
				return fmt.Sprintf("final map %s\n%s\n%s\n%s", verifTGModelString(m), a.log.String(), b.log.String(), x.log.String())
			}
			var h [3][]byte
			for i, y := range all {
				h[i] = y.root(c)
			}
			if len(m) == 0 {
				for i, y := range all {
					if !verifTGEq(h[i], EmptyTrieHash) || len(h[i]) != 32 {
						c.Violation("C02:empty-trie-hash", "trie %s holds nothing but RootHash = %x\n%s", y.name, h[i], desc())
					}
				}
				c.Class("final-map-empty")
			} else {
				for i, y := range all {
					if verifTGEq(h[i], EmptyTrieHash) {
						c.Violation("C02:nonempty-has-empty-hash", "trie %s holds %d pairs but reports the empty-trie hash\n%s", y.name, len(m), desc())
					}
				}
			}
			if !verifTGEq(h[0], h[1]) {
				c.Violation("C02:history-vs-pure-inserts", "same contents, different root: A %x, B %x\n%s", h[0], h[1], desc())
			}
			if !verifTGEq(h[0], h[2]) {
				c.Violation("C02:history-vs-history", "same contents, different root: A %x, C %x\n%s", h[0], h[2], desc())
			}
			if !verifTGEq(h[1], h[2]) {
				c.Violation("C02:history-vs-pure-inserts", "same contents, different root: B %x, C %x\n%s", h[1], h[2], desc())
			}
			// commit must not change the hash; a trie recreated from it reports it too
			for i, y := range all {
				r := y.commit(c)
				if !verifTGEq(r, h[i]) {
					c.Violation("C02:commit-changes-root", "trie %s: RootHash %x before Commit, %x after\n%s", y.name, h[i], r, desc())
				}
				var ntr data.Trie
				var err error
				c.NoPanic("C02:recreate-panic", func() { ntr, err = y.tr.Recreate(r) })
				if err != nil || ntr == nil {
					c.Violation("C02:recreate-error", "trie %s: Recreate(%x) after Commit: %v\n%s", y.name, r, err, desc())
				}
				var rr []byte
				c.NoPanic("C02:roothash-panic", func() { rr, err = ntr.RootHash() })
				if err != nil || !verifTGEq(rr, h[i]) {
					c.Violation("C02:recreate-changes-root", "trie %s: recreated trie reports %x (err %v), want %x\n%s", y.name, rr, err, h[i], desc())
				}
			}

			levels := map[uint]struct{}{a.level: {}, b.level: {}, x.level: {}}
			if interCommits > 0 {
				c.Class("with-intermediate-commit")
			}
			if interRecreates > 0 {
				c.Class("with-recreate")
			}
			if a.mergingDelete || x.mergingDelete {
				c.Class("with-merging-delete")
			}
			if (x.mergingDelete || a.mergingDelete) && len(levels) > 1 && (x.commitBeforeLastUpd || a.commitBeforeLastUpd) {
				c.NonTrivial(a.log.String() + "|" + b.log.String() + "|" + x.log.String())
				c.Sample("%s", desc())
			}
		})
}

// TestVerifC02_Regress: fixed shapes (all permutations of small colliding key sets, with and without
// deleting an extra key) must give one root hash per content.
func TestVerifC02_Regress(t *testing.T) {
	kit.Silence()
	sets := [][]string{
		{"\x11", "\x01\x11", "\x10\x01\x11"},
		{"", "\x00", "\x00\x00", "\x10"},
		{"\x00\x00\x00", "\x10\x00\x00", "\x00\x01\x00", "\xf0\x01\x00"},
		{"\x0f", "\xff", "\xf0", "\x00"},
	}
	for si, set := range sets {
		perms := verifC02Perms(len(set))
		var want []byte
		for pi, perm := range perms {
			for level := uint(1); level <= 3; level++ {
				for variant := 0; variant < 3; variant++ {
					tr, err := verifTGPlainTrie(level)
					if err != nil {
						t.Fatalf("fixture: %v", err)
					}
					extra := []byte("\x21\x00\x00")
					if variant > 0 {
						_ = tr.Update(extra, []byte("x"))
					}
					for j, idx := range perm {
						_ = tr.Update([]byte(set[idx]), []byte{byte(idx + 1)})
						if variant == 2 && j == len(perm)/2 {
							_ = tr.Commit()
						}
					}
					if variant > 0 {
						_ = tr.Delete(extra)
					}
					h, err := tr.RootHash()
					if err != nil {
						kit.FailPlain(t, "C02", "C02:roothash-error", "set %d perm %d: %v", si, pi, err)
					}
					if want == nil {
						want = append([]byte{}, h...)
					} else if !verifTGEq(want, h) {
						kit.FailPlain(t, "C02", "C02:history-vs-pure-inserts", "set %d perm %v level %d variant %d: root %x, first permutation gave %x", si, perm, level, variant, h, want)
					}
				}
			}
		}
	}
	tr, _ := verifTGPlainTrie(2)
	_ = tr.Update([]byte("a"), []byte("b"))
	_ = tr.Commit()
	_ = tr.Delete([]byte("a"))
	if h, _ := tr.RootHash(); !verifTGEq(h, make([]byte, 32)) {
		kit.FailPlain(t, "C02", "C02:empty-trie-hash", "emptied trie reports %x", h)
	}
}

func verifC02Perms(n int) [][]int {
	base := make([]int, n)
	for i := range base {
		base[i] = i
	}
	var out [][]int
	var rec func(k int)
	rec = func(k int) {
		if k == n {
			out = append(out, append([]int{}, base...))
			return
		}
		for i := k; i < n; i++ {
			base[k], base[i] = base[i], base[k]
			rec(k + 1)
			base[k], base[i] = base[i], base[k]
		}
	}
	rec(0)
	sort.Slice(out, func(i, j int) bool { return fmt.Sprint(out[i]) < fmt.Sprint(out[j]) })
	return out
}
