package trie

// C05: Trie synchronisation reconstructs exactly the requested trie.
//
// When StartSyncing(root) returns nil: the destination storage holds every node reachable from root (under
// its own hash), Recreate(root) on the destination has root hash == root and the source trie's contents;
// whatever the delivery schedule (delays, duplicates, reordering, foreign and forged nodes). A node is only
// ever used for the hash of its own content. Forged bytes are rejected with an error, never with a panic.

import (
	"bytes"
	"context"
	"encoding/hex"
	"errors"
	"fmt"
	"sort"
	"strings"
	"testing"
	"time"

	"github.com/ElrondNetwork/elrond-go/data"
	"github.com/ElrondNetwork/elrond-go/data/trie/statistics"
	"github.com/ElrondNetwork/elrond-go/hashing"
	"github.com/ElrondNetwork/elrond-go/hashing/blake2b"
	"github.com/ElrondNetwork/elrond-go/hashing/sha256"
	"github.com/ElrondNetwork/elrond-go/process/interceptors/processor"
	"github.com/ElrondNetwork/elrond-go/storage"
	"github.com/ElrondNetwork/elrond-go/storage/lrucache"
	kit "github.com/ElrondNetwork/elrond-go/verifkit"
	"pgregory.net/rapid"
)

type verifC05Requester struct {
	onRequest func(hashes [][]byte)
}

func (r *verifC05Requester) RequestTrieNodes(_ uint32, hashes [][]byte, _ string) {
	r.onRequest(hashes)
}
func (r *verifC05Requester) RequestInterval() time.Duration { return time.Millisecond }
func (r *verifC05Requester) IsInterfaceNil() bool           { return r == nil }

// verifC05FaultyDB is the destination storage as the syncer sees it: a transient storage error makes exactly one
// Put (the failAt-th, counted from 0) fail without storing anything; every other operation goes to the map DB.
// (Real destinations are storageUnit/leveldb persisters behind trieStorageManager.Database(); their Put returns
// errors, e.g. on a full disk or a closing DB: update/sync and epochStart/bootstrap pass that DB to CreateTrieSyncer.)
type verifC05FaultyDB struct {
	*verifTBMapDB
	failAt    int // -1: never
	puts      int
	failedKey []byte
}

var verifC05ErrPut = errors.New("verifC05: transient storage error on Put")

func (d *verifC05FaultyDB) Put(key, val []byte) error {
	n := d.puts
	d.puts++
	if n == d.failAt {
		d.failedKey = append([]byte{}, key...)
		return verifC05ErrPut
	}
	return d.verifTBMapDB.Put(key, val)
}

func (d *verifC05FaultyDB) IsInterfaceNil() bool { return d == nil }

type verifC05TrieInfo struct {
	root       []byte
	reachable  []string          // node hashes reachable from root, sorted
	nodes      map[string][]byte // hash -> canonical encoded node (from the source DB)
	extensions int
	branchLvls int // max number of branch nodes on a root-to-leaf path
}

// verifC05Walk enumerates the nodes reachable from root in db (fixture-side: trusted source storage).
func verifC05Walk(db *verifTBMapDB, root []byte, h hashing.Hasher) (*verifC05TrieInfo, error) {
	info := &verifC05TrieInfo{root: root, nodes: map[string][]byte{}}
	var walk func(hash []byte, lvl int) error
	walk = func(hash []byte, lvl int) error {
		enc, err := db.Get(hash)
		if err != nil {
			return fmt.Errorf("source node %x missing", hash)
		}
		if !bytes.Equal(h.Compute(string(enc)), hash) {
			return fmt.Errorf("source node %x stored under a different hash", hash)
		}
		if _, seen := info.nodes[string(hash)]; seen {
			return nil
		}
		info.nodes[string(hash)] = enc
		n, err := decodeNode(enc, verifTBMarsh, h)
		if err != nil {
			return err
		}
		switch nn := n.(type) {
		case *branchNode:
			lvl++
			if lvl > info.branchLvls {
				info.branchLvls = lvl
			}
			for _, ch := range nn.EncodedChildren {
				if len(ch) != 0 {
					if err = walk(ch, lvl); err != nil {
						return err
					}
				}
			}
		case *extensionNode:
			info.extensions++
			return walk(nn.EncodedChild, lvl)
		}
		return nil
	}
	if err := walk(root, 0); err != nil {
		return nil, err
	}
	for k := range info.nodes {
		info.reachable = append(info.reachable, k)
	}
	sort.Strings(info.reachable)
	return info, nil
}

func verifC05Varint(n int) []byte {
	var b []byte
	for n >= 0x80 {
		b = append(b, byte(n)|0x80)
		n >>= 7
	}
	return append(b, byte(n))
}

func verifC05Field(num int, val []byte) []byte {
	b := []byte{byte(num<<3 | 2)}
	b = append(b, verifC05Varint(len(val))...)
	return append(b, val...)
}

// verifC05ForgedBranch encodes a branch node with an arbitrary number of children.
func verifC05ForgedBranch(rt *rapid.T, n int, hashLen int) []byte {
	var b []byte
	for i := 0; i < n; i++ {
		var ch []byte
		if rapid.IntRange(0, 2).Draw(rt, "forgedChildEmpty") != 0 {
			ch = rapid.SliceOfN(rapid.Byte(), hashLen, hashLen).Draw(rt, "forgedChild")
		}
		b = append(b, verifC05Field(1, ch)...)
	}
	return append(b, branch)
}

// verifC05NonCanonical re-encodes a valid node so that it decodes to the same node but has different bytes.
func verifC05NonCanonical(rt *rapid.T, enc []byte, h hashing.Hasher) []byte {
	body, typ := enc[:len(enc)-1], enc[len(enc)-1]
	switch rapid.IntRange(0, 2).Draw(rt, "nonCanonKind") {
	case 0: // trailing unknown field (number 15, varint)
		out := append(append([]byte{}, body...), 0x78, 0x01)
		return append(out, typ)
	case 1: // leading unknown field
		out := append([]byte{0x78, 0x05}, body...)
		return append(out, typ)
	default: // fields of a leaf/extension in reverse order
		n, err := decodeNode(enc, verifTBMarsh, h)
		if err != nil {
			return enc
		}
		switch nn := n.(type) {
		case *leafNode:
			return append(append(verifC05Field(2, nn.Value), verifC05Field(1, nn.Key)...), typ)
		case *extensionNode:
			return append(append(verifC05Field(2, nn.EncodedChild), verifC05Field(1, nn.Key)...), typ)
		}
		out := append(append([]byte{}, body...), 0x78, 0x00)
		return append(out, typ)
	}
}

func verifC05Forge(rt *rapid.T, valid []byte, h hashing.Hasher) ([]byte, string) {
	switch rapid.IntRange(0, 11).Draw(rt, "forgeKind") {
	case 0:
		return rapid.SliceOfN(rapid.Byte(), 0, 60).Draw(rt, "rndBytes"), "random-bytes"
	case 1:
		b := append([]byte{}, valid...)
		i := rapid.IntRange(0, len(b)-1).Draw(rt, "flipAt")
		b[i] ^= byte(1 << uint(rapid.IntRange(0, 7).Draw(rt, "flipBit")))
		return b, "flipped-bit"
	case 2:
		return verifC05ForgedBranch(rt, 0, h.Size()), "branch-0-children"
	case 3:
		return verifC05ForgedBranch(rt, 1, h.Size()), "branch-1-child"
	case 4:
		return verifC05ForgedBranch(rt, 16, h.Size()), "branch-16-children"
	case 5:
		return verifC05ForgedBranch(rt, 18, h.Size()), "branch-18-children"
	case 6:
		return verifC05ForgedBranch(rt, rapid.IntRange(2, 40).Draw(rt, "forgedN"), h.Size()), "branch-n-children"
	case 7:
		k := verifTBGenBytes(rt, "forgedLeafKey", 0, 4)
		return append(append(verifC05Field(1, k), verifC05Field(2, nil)...), leaf), "leaf-empty-value"
	case 8:
		ch := rapid.SliceOfN(rapid.Byte(), 0, h.Size()).Draw(rt, "forgedExtChild")
		return append(append(verifC05Field(1, nil), verifC05Field(2, ch)...), extension), "extension-empty-key"
	case 9:
		return append([]byte{}, valid[:rapid.IntRange(0, len(valid)-1).Draw(rt, "truncTo")]...), "truncated"
	case 10:
		b := append([]byte{}, valid...)
		b[len(b)-1] = byte(rapid.IntRange(0, 5).Draw(rt, "typeByte"))
		return b, "type-byte"
	default:
		return []byte{byte(rapid.IntRange(0, 3).Draw(rt, "loneType"))}, "lone-type-byte"
	}
}

type verifC05Pending struct {
	due  int
	buff []byte
	kind string
}

func TestVerifC05_Sync(t *testing.T) {
	kit.Run(t, "C05", kit.Budget{Quick: 2000, Thorough: 20000},
		"source trie S (KG keys, 1-40, gogo-proto, blake2b|sha256) committed into its own storage, unrelated trie U over the same key pool; destination storage empty or pre-populated with a subset of S/U nodes; doubleListTrieSyncer or trieSyncer with maxHardCapForMissingNodes in {1,2,3,5,500}; every request round a drawn policy answers each requested hash: deliver / ignore / delay 1-4 rounds / duplicate / forged variant / non-canonical re-encoding, plus unsolicited S nodes, U nodes, stale nodes and forged byte strings; all deliveries go through NewInterceptedTrieNode -> CheckValidity -> TrieNodeInterceptorProcessor.Save into a size-LRU cacher; after a drawn round everything requested is delivered at once. Non-trivial = schedule with >=1 forged or foreign delivery and >=1 delayed node, on a source trie with >=1 extension node and >=2 levels of branch nodes; distinct by (root, schedule trace)",
		func(rt *rapid.T, c *kit.Case) {
			g := verifTBNewKeyGen(rt)
			maxKeys := 12
			if rapid.IntRange(0, 3).Draw(rt, "bigTrie") == 0 {
				maxKeys = 40
			}
			model := verifTBGenModel(rt, g, 1, maxKeys)
			h := verifTBGenHasher(rt)
			srcDB := verifTBNewMapDB()
			srcLevel := uint(rapid.IntRange(1, 6).Draw(rt, "srcMaxLevel"))

			// optional earlier version of S committed first: leaves stale nodes in the source storage
			var stale [][]byte
			if rapid.IntRange(0, 2).Draw(rt, "withStale") == 0 {
				old := verifTBGenModel(rt, g, 1, 6)
				if _, err := verifTBBuildTrie(srcDB, h, srcLevel, old, true); err != nil {
					rt.Fatalf("fixture: stale trie: %v", err)
				}
			}
			preKeys := srcDB.keys()
			src, err := verifTBBuildTrie(srcDB, h, srcLevel, model, true)
			if err != nil {
				rt.Fatalf("fixture: source trie: %v", err)
			}
			root, err := src.RootHash()
			if err != nil {
				rt.Fatalf("fixture: root hash: %v", err)
			}
			info, err := verifC05Walk(srcDB, root, h)
			if err != nil {
				rt.Fatalf("fixture: walk source: %v", err)
			}
			for _, k := range preKeys {
				if _, ok := info.nodes[k]; !ok {
					v, _ := srcDB.Get([]byte(k))
					stale = append(stale, v)
				}
			}

			uModel := verifTBGenModel(rt, g, 1, 8)
			uDB := verifTBNewMapDB()
			uTr, err := verifTBBuildTrie(uDB, h, 5, uModel, true)
			if err != nil {
				rt.Fatalf("fixture: foreign trie: %v", err)
			}
			_ = uTr
			uKeys := uDB.keys()
			foreign := make([][]byte, 0, len(uKeys))
			for _, k := range uKeys {
				if _, ok := info.nodes[k]; ok {
					continue // identical node also part of S
				}
				v, _ := uDB.Get([]byte(k))
				foreign = append(foreign, v)
			}

			// destination
			dstDB := verifTBNewMapDB()
			prepopulated := 0
			if rapid.IntRange(0, 2).Draw(rt, "prepopulate") == 0 {
				for _, k := range info.reachable {
					if rapid.IntRange(0, 2).Draw(rt, "preS") == 0 {
						_ = dstDB.Put([]byte(k), info.nodes[k])
						prepopulated++
					}
				}
				for i, k := range uKeys {
					if rapid.IntRange(0, 3).Draw(rt, "preU") == 0 {
						v, _ := uDB.Get([]byte(uKeys[i]))
						_ = dstDB.Put([]byte(k), v)
					}
				}
				c.Class("destination-prepopulated")
			}

			// fault class: one transient Put failure in the destination storage
			dst := &verifC05FaultyDB{verifTBMapDB: dstDB, failAt: -1}
			if rapid.IntRange(0, 2).Draw(rt, "putFault") == 0 {
				// mostly early Puts (the root and the upper levels are written first), sometimes any
				if rapid.Bool().Draw(rt, "putFaultEarly") {
					dst.failAt = rapid.IntRange(0, 3).Draw(rt, "putFaultAt")
				} else {
					dst.failAt = rapid.IntRange(0, len(info.reachable)).Draw(rt, "putFaultAt")
				}
			}

			hardCap := []int{1, 2, 3, 5, 500, 500}[rapid.IntRange(0, 5).Draw(rt, "hardCap")]
			useOldSyncer := rapid.IntRange(0, 2).Draw(rt, "oldSyncer") == 0
			cacheCap := 1000
			// A cacher smaller than the set of requested nodes evicts deliveries before they are used. With the older
			// trieSyncer and a small hard cap (nodes taken from the cacher are dropped again when the cap is hit) this
			// can starve the sync for ever (liveness, not part of the property; observed: hardCap 1, cacher of 2-12
			// entries, 7 outstanding hashes, > 40000 identical rounds). That combination is excluded by construction.
			smallCacheAllowed := !useOldSyncer || hardCap >= 500
			if smallCacheAllowed && rapid.IntRange(0, 5).Draw(rt, "smallCache") == 0 {
				cacheCap = rapid.IntRange(2, 12).Draw(rt, "cacheCap")
				if useOldSyncer {
					cacheCap += 18 // a branch node and all its children fit
				}
				c.Class("small-cacher")
			}
			var cacher storage.Cacher
			cacher, err = lrucache.NewCacheWithSizeInBytes(cacheCap, 100<<20)
			if err != nil {
				rt.Fatalf("fixture: cacher: %v", err)
			}
			proc, err := processor.NewTrieNodesInterceptorProcessor(cacher)
			if err != nil {
				rt.Fatalf("fixture: processor: %v", err)
			}

			var trace strings.Builder
			nForgedOrForeign, nDelayed, nDelivered := 0, 0, 0

			deliver := func(buff []byte, kind string) {
				nDelivered++
				c.NoPanic("C05:interceptor-panic:"+kind, func() {
					n, errN := NewInterceptedTrieNode(buff, verifTBMarsh, h)
					if errN != nil {
						c.Class("rejected-at-decode:" + kind)
						return
					}
					if errN = n.CheckValidity(); errN != nil {
						c.Class("rejected-at-validity:" + kind)
						return
					}
					_ = n.SizeInBytes()
					_ = n.String()
					if errN = proc.Save(n, "", ""); errN != nil {
						rt.Fatalf("fixture: processor.Save: %v", errN)
					}
					c.Class("saved:" + kind)
				})
			}
			anyValid := func() []byte {
				k := info.reachable[rapid.IntRange(0, len(info.reachable)-1).Draw(rt, "anyS")]
				return info.nodes[k]
			}
			extras := func(maxN int) {
				n := rapid.IntRange(0, maxN).Draw(rt, "numExtras")
				for i := 0; i < n; i++ {
					switch rapid.IntRange(0, 3).Draw(rt, "extraKind") {
					case 0:
						if len(foreign) > 0 {
							deliver(foreign[rapid.IntRange(0, len(foreign)-1).Draw(rt, "foreignIdx")], "foreign-node")
							nForgedOrForeign++
							trace.WriteString("U")
						}
					case 1:
						deliver(anyValid(), "unsolicited-node")
						trace.WriteString("u")
					case 2:
						if len(stale) > 0 {
							deliver(stale[rapid.IntRange(0, len(stale)-1).Draw(rt, "staleIdx")], "stale-node")
							nForgedOrForeign++
							trace.WriteString("s")
						}
					default:
						b, kind := verifC05Forge(rt, anyValid(), h)
						deliver(b, "forged-"+kind)
						nForgedOrForeign++
						trace.WriteString("F")
					}
				}
			}

			honestAfter := rapid.IntRange(1, 25).Draw(rt, "honestAfterRound")
			round := 0
			var pending []verifC05Pending
			var foreignRequest []byte
			req := &verifC05Requester{}
			req.onRequest = func(hashes [][]byte) {
				round++
				sort.Slice(hashes, func(i, j int) bool { return bytes.Compare(hashes[i], hashes[j]) < 0 })
				trace.WriteString(fmt.Sprintf("|%d:", len(hashes)))
				// due delayed deliveries
				keep := pending[:0]
				for _, p := range pending {
					if p.due <= round {
						deliver(p.buff, p.kind)
					} else {
						keep = append(keep, p)
					}
				}
				pending = keep
				for _, hsh := range hashes {
					enc, ok := info.nodes[string(hsh)]
					if !ok {
						if foreignRequest == nil {
							foreignRequest = append([]byte{}, hsh...)
						}
						continue
					}
					if round > honestAfter {
						deliver(enc, "requested-node")
						trace.WriteString("d")
						continue
					}
					switch rapid.IntRange(0, 9).Draw(rt, "answer") {
					case 0, 1, 2:
						deliver(enc, "requested-node")
						trace.WriteString("d")
					case 3:
						trace.WriteString("i") // ignored this round
					case 4, 5:
						d := rapid.IntRange(1, 4).Draw(rt, "delay")
						pending = append(pending, verifC05Pending{due: round + d, buff: enc, kind: "delayed-node"})
						nDelayed++
						trace.WriteString(fmt.Sprintf("w%d", d))
					case 6:
						deliver(enc, "requested-node")
						deliver(enc, "duplicate-node")
						pending = append(pending, verifC05Pending{due: round + 1, buff: enc, kind: "duplicate-node"})
						trace.WriteString("2")
					case 7:
						b, kind := verifC05Forge(rt, enc, h)
						deliver(b, "forged-"+kind)
						nForgedOrForeign++
						trace.WriteString("f")
					case 8:
						deliver(verifC05NonCanonical(rt, enc, h), "non-canonical-encoding")
						trace.WriteString("n")
					default:
						// a foreign node instead of the requested one, the requested one later
						if len(foreign) > 0 {
							deliver(foreign[rapid.IntRange(0, len(foreign)-1).Draw(rt, "foreignIdx")], "foreign-node")
							nForgedOrForeign++
						}
						pending = append(pending, verifC05Pending{due: round + 2, buff: enc, kind: "delayed-node"})
						nDelayed++
						trace.WriteString("x")
					}
				}
				if round <= honestAfter {
					extras(3)
				}
			}

			arg := ArgTrieSyncer{
				Marshalizer:                    verifTBMarsh,
				Hasher:                         h,
				DB:                             dst,
				RequestHandler:                 req,
				InterceptedNodes:               cacher,
				ShardId:                        0,
				Topic:                          "trieNodes",
				TrieSyncStatistics:             statistics.NewTrieSyncStatistics(),
				TimeoutBetweenTrieNodesCommits: time.Hour,
				MaxHardCapForMissingNodes:      hardCap,
			}
			var syncer data.TrieSyncer
			version := "doubleList"
			if useOldSyncer {
				version = "trieSyncer"
				ts, errS := NewTrieSyncer(arg)
				if errS != nil {
					rt.Fatalf("fixture: NewTrieSyncer: %v", errS)
				}
				ts.waitTimeBetweenRequests = 20 * time.Microsecond
				syncer = ts
			} else {
				d, errS := NewDoubleListTrieSyncer(arg)
				if errS != nil {
					rt.Fatalf("fixture: NewDoubleListTrieSyncer: %v", errS)
				}
				d.waitTimeBetweenChecks = 20 * time.Microsecond
				syncer = d
			}
			c.Class("syncer-" + version)
			c.Class(fmt.Sprintf("hardcap-%d", hardCap))

			extras(3) // deliveries that arrive before the sync starts

			ctx, cancel := context.WithTimeout(context.Background(), 60*time.Second)
			var syncErr error
			c.NoPanic("C05:sync-panic:"+version, func() { syncErr = syncer.StartSyncing(root, ctx) })
			cancel()
			fault := "none"
			if dst.failAt >= 0 {
				fault = fmt.Sprintf("Put #%d not reached (%d Puts)", dst.failAt, dst.puts)
				if dst.failedKey != nil {
					fault = fmt.Sprintf("Put #%d (node %x, root=%v) failed once", dst.failAt, dst.failedKey, bytes.Equal(dst.failedKey, root))
				}
			}
			desc := fmt.Sprintf("syncer=%s hardCap=%d hasher=%T nodes=%d prepopulated=%d rounds=%d storageFault=[%s] trace=%s model=%s",
				version, hardCap, h, len(info.reachable), prepopulated, round, fault, trace.String(), model)
			if foreignRequest != nil {
				c.Violation("C05:requested-hash-outside-trie:"+version,
					"the syncer requested hash %x which is not the hash of any node reachable from the requested root %x; %s", foreignRequest, root, desc)
			}
			if syncErr != nil {
				if errors.Is(syncErr, ErrContextClosing) {
					rt.Fatalf("fixture: sync did not finish within the safety timeout (%s)", desc)
				}
				if dst.failedKey != nil {
					c.Class("sync-returned-error-after-put-fault:" + version)
				} else {
					c.Class("sync-returned-error")
				}
				return
			}
			if dst.failedKey != nil {
				c.Class("sync-returned-nil-after-put-fault:" + version)
			} else if dst.failAt >= 0 {
				c.Class("put-fault-not-reached")
			}
			c.Class(fmt.Sprintf("rounds-log2=%d", verifC05Log2(round)))

			// ---- oracle
			for _, k := range info.reachable {
				b, errG := dstDB.Get([]byte(k))
				if errG != nil {
					c.Violation("C05:missing-node-after-sync:"+version,
						"StartSyncing returned nil but node %x reachable from root %x is not in the destination storage (%d of %d nodes present); %s",
						[]byte(k), root, verifC05CountPresent(dstDB, info), len(info.reachable), desc)
				}
				if !bytes.Equal(h.Compute(string(b)), []byte(k)) {
					c.Violation("C05:node-under-wrong-hash:"+version, "destination holds under %x bytes %x hashing to %x; %s", []byte(k), b, h.Compute(string(b)), desc)
				}
			}
			for _, k := range dstDB.keys() {
				b, _ := dstDB.Get([]byte(k))
				if !bytes.Equal(h.Compute(string(b)), []byte(k)) {
					c.Violation("C05:node-under-wrong-hash:"+version, "destination holds under %x bytes %x hashing to %x; %s", []byte(k), b, h.Compute(string(b)), desc)
				}
			}
			dstLevel := uint(rapid.IntRange(1, 6).Draw(rt, "dstMaxLevel"))
			tsm, _ := NewTrieStorageManagerWithoutPruning(dstDB)
			empty, errT := NewTrie(tsm, verifTBMarsh, h, dstLevel)
			if errT != nil {
				rt.Fatalf("fixture: destination trie: %v", errT)
			}
			var rec data.Trie
			c.NoPanic("C05:recreate-panic", func() { rec, errT = empty.Recreate(root) })
			if errT != nil {
				c.Violation("C05:recreate-fails-after-sync:"+version, "Recreate(%x) on the synced storage: %v; %s", root, errT, desc)
			}
			rh, errT := rec.RootHash()
			if errT != nil || !bytes.Equal(rh, root) {
				c.Violation("C05:recreated-root-differs:"+version, "recreated trie has root %x (err %v), requested %x; %s", rh, errT, root, desc)
			}
			for _, kv := range model.kvs {
				v, errG := rec.Get(kv.k)
				if errG != nil || !bytes.Equal(v, kv.v) {
					c.Violation("C05:content-differs:"+version, "synced trie Get(%x) = (%x, %v), source has %x; %s", kv.k, v, errG, kv.v, desc)
				}
			}
			ch, errT := rec.GetAllLeavesOnChannel(root)
			if errT != nil {
				c.Violation("C05:content-differs:"+version, "GetAllLeavesOnChannel on the synced trie: %v; %s", errT, desc)
			}
			seen := map[string]bool{}
			n := 0
			var bad string
			for kvh := range ch {
				n++
				k, v := kvh.Key(), kvh.Value()
				if !model.has(k) || !bytes.Equal(model.get(k), v) || seen[string(k)] {
					bad = fmt.Sprintf("unexpected leaf %x:%x", k, v)
				}
				seen[string(k)] = true
			}
			if bad != "" || n != len(model.kvs) {
				c.Violation("C05:content-differs:"+version, "synced trie enumerates %d leaves, source has %d; %s; %s", n, len(model.kvs), bad, desc)
			}

			if nForgedOrForeign > 0 {
				c.Class("schedule-with-forged-or-foreign")
			}
			if nDelayed > 0 {
				c.Class("schedule-with-delay")
			}
			if info.extensions >= 1 && info.branchLvls >= 2 {
				c.Class("trie-ext-and-2-branch-levels")
			}
			if nForgedOrForeign > 0 && nDelayed > 0 && info.extensions >= 1 && info.branchLvls >= 2 {
				c.NonTrivial(hex.EncodeToString(root) + version + trace.String())
				c.Sample("%s, %d nodes (%d extensions, %d branch levels), %d deliveries in %d rounds, %d forged/foreign, %d delayed; trace %s",
					version, len(info.reachable), info.extensions, info.branchLvls, nDelivered, round, nForgedOrForeign, nDelayed, trace.String())
			}
		})
}

func verifC05CountPresent(db *verifTBMapDB, info *verifC05TrieInfo) int {
	n := 0
	for _, k := range info.reachable {
		if _, err := db.Get([]byte(k)); err == nil {
			n++
		}
	}
	return n
}

func verifC05Log2(n int) int {
	r := 0
	for n > 1 {
		n >>= 1
		r++
	}
	return r
}

// TestVerifC05_Forged: the interceptor entry point alone, on forged byte strings (much cheaper than a sync,
// so many more inputs): construction + validation never panic; an accepted node re-encodes to bytes whose
// hash is the reported hash (a node is only used for the hash of its own content).
func TestVerifC05_Forged(t *testing.T) {
	kit.Run(t, "C05", kit.Budget{Quick: 20000, Thorough: 300000},
		"forged byte strings (random bytes, bit flips / truncations / type-byte changes of valid nodes, branch encodings with 0/1/16/18/n children, leaf with empty value, extension with empty key, non-canonical encodings) through NewInterceptedTrieNode + CheckValidity; non-trivial = input that decodes as a protobuf node of some type (is not rejected by the protobuf decoder); distinct by bytes",
		func(rt *rapid.T, c *kit.Case) {
			h := verifTBGenHasher(rt)
			g := verifTBNewKeyGen(rt)
			model := verifTBGenModel(rt, g, 1, 5)
			db := verifTBNewMapDB()
			tr, err := verifTBBuildTrie(db, h, 5, model, true)
			if err != nil {
				rt.Fatalf("fixture: %v", err)
			}
			_ = tr
			keys := db.keys()
			valid, _ := db.Get([]byte(keys[rapid.IntRange(0, len(keys)-1).Draw(rt, "validIdx")]))
			var buff []byte
			var kind string
			if rapid.IntRange(0, 5).Draw(rt, "nonCanon") == 0 {
				buff, kind = verifC05NonCanonical(rt, valid, h), "non-canonical-encoding"
			} else {
				buff, kind = verifC05Forge(rt, valid, h)
			}
			c.NoPanic("C05:interceptor-panic:forged-"+kind, func() {
				n, errN := NewInterceptedTrieNode(buff, verifTBMarsh, h)
				if errN != nil {
					c.Class("rejected-at-decode:" + kind)
					return
				}
				c.NonTrivial(string(buff))
				errV := n.CheckValidity()
				_ = n.SizeInBytes()
				if errV != nil {
					c.Class("rejected-at-validity:" + kind)
					return
				}
				c.Class("accepted:" + kind)
				c.Sample("accepted %s: %x", kind, buff)
				// own-content hash: decoding the canonical encoding of the accepted node gives the same hash
				enc, errE := n.node.getEncodedNode()
				if errE != nil {
					c.Violation("C05:accepted-node-not-encodable", "accepted node %x cannot be encoded: %v", buff, errE)
				}
				if !bytes.Equal(h.Compute(string(enc)), n.Hash()) {
					c.Violation("C05:intercepted-hash-not-own-content", "accepted node %x reports hash %x but its encoding %x hashes to %x", buff, n.Hash(), enc, h.Compute(string(enc)))
				}
			})
		})
}

// ---- regression: minimal counterexamples (run in every tier)

func verifC05SafeIntercept(buff []byte, h hashing.Hasher) (err error, panicked interface{}) {
	defer func() {
		if r := recover(); r != nil {
			panicked = r
		}
	}()
	n, err := NewInterceptedTrieNode(buff, verifTBMarsh, h)
	if err != nil {
		return err, nil
	}
	return n.CheckValidity(), nil
}

func TestVerifC05_Regress(t *testing.T) {
	kit.Silence()
	hash32 := bytes.Repeat([]byte{7}, 32)
	branchOf := func(children ...[]byte) []byte {
		var b []byte
		for _, ch := range children {
			b = append(b, verifC05Field(1, ch)...)
		}
		return append(b, branch)
	}
	many := func(n int, last []byte) [][]byte {
		r := make([][]byte, n)
		for i := range r {
			r[i] = hash32
		}
		r[n-1] = last
		return r
	}
	cases := []struct {
		name string
		buff []byte
	}{
		{"branch node with 0 children ([]byte{2})", []byte{branch}},
		{"branch node with 1 child", branchOf(hash32)},
		{"branch node with 16 children", branchOf(many(16, hash32)...)},
		{"branch node with 18 children, last one empty", branchOf(many(18, nil)...)},
		{"branch node with 18 children", branchOf(many(18, hash32)...)},
	}
	for _, h := range []hashing.Hasher{sha256.NewSha256(), blake2b.NewBlake2b()} {
		for _, tc := range cases {
			err, p := verifC05SafeIntercept(tc.buff, h)
			if p != nil {
				kit.FailPlain(t, "C05", "C05:interceptor-panic:forged-branch", "NewInterceptedTrieNode/CheckValidity on a forged %s (%x) panics: %v", tc.name, tc.buff, p)
			}
			_ = err
		}
	}
}
