package trie

// Shared generator / model helpers for the C01, C02, C03 harnesses (identifiers prefixed verifTG).
// Nothing here is an oracle on its own: the helpers generate structurally colliding keys, build
// tries over an in-memory database, drain leaf enumerations and compute the *ideal* radix-tree
// shape of a key set (used only to classify cases as non-trivial, never to judge the trie).

import (
	"bytes"
	"encoding/hex"
	"fmt"
	"sort"
	"strings"

	"github.com/ElrondNetwork/elrond-go/config"
	"github.com/ElrondNetwork/elrond-go/data"
	"github.com/ElrondNetwork/elrond-go/data/trie/hashesHolder"
	"github.com/ElrondNetwork/elrond-go/hashing"
	"github.com/ElrondNetwork/elrond-go/hashing/blake2b"
	"github.com/ElrondNetwork/elrond-go/hashing/sha256"
	"github.com/ElrondNetwork/elrond-go/marshal"
	"github.com/ElrondNetwork/elrond-go/storage/memorydb"
	"github.com/ElrondNetwork/elrond-go/storage/storageUnit"
	kit "github.com/ElrondNetwork/elrond-go/verifkit"
	"pgregory.net/rapid"
)

var verifTGAlphabet = []byte{0x00, 0x01, 0x0f, 0x10, 0x11, 0xf0, 0xff}

// verifTGPool is the per-case key source. Keys collide structurally in the reversed-nibble path:
// a key is prefix||suffix with the suffix taken from a small per-case pool (shared trailing bytes
// = shared path prefix = extension nodes), or is derived from an already used key.
type verifTGPool struct {
	suffixes [][]byte
	used     [][]byte
	usedSet  map[string]struct{}
	maxLen   int
}

func verifTGNewPool(rt *rapid.T) *verifTGPool {
	p := &verifTGPool{usedSet: map[string]struct{}{}, maxLen: 40}
	n := rapid.IntRange(1, 4).Draw(rt, "nSuffixes")
	for i := 0; i < n; i++ {
		l := rapid.IntRange(0, 3).Draw(rt, "suffixLen")
		s := make([]byte, l)
		for j := range s {
			s[j] = verifTGAlphaByte(rt)
		}
		p.suffixes = append(p.suffixes, s)
	}
	return p
}

func verifTGAlphaByte(rt *rapid.T) byte {
	i := rapid.IntRange(0, len(verifTGAlphabet)).Draw(rt, "alpha")
	if i == len(verifTGAlphabet) {
		return rapid.Byte().Draw(rt, "rndByte")
	}
	return verifTGAlphabet[i]
}

func (p *verifTGPool) note(k []byte) []byte {
	if _, ok := p.usedSet[string(k)]; !ok {
		p.usedSet[string(k)] = struct{}{}
		p.used = append(p.used, append([]byte{}, k...))
	}
	return k
}

// Fresh draws a key without looking at the used list (it may still coincide with a used key).
func (p *verifTGPool) Fresh(rt *rapid.T) []byte {
	kind := rapid.IntRange(0, 19).Draw(rt, "freshKind")
	switch {
	case kind == 0:
		return p.note([]byte{})
	case kind == 1:
		return p.note([]byte{verifTGAlphaByte(rt)})
	case kind == 2:
		return p.note(rapid.SliceOfN(rapid.Byte(), 32, 32).Draw(rt, "key32"))
	case kind == 3 && kit.Thorough():
		// a long key sharing a pool suffix
		l := rapid.IntRange(4, p.maxLen-3).Draw(rt, "longLen")
		k := make([]byte, l)
		for j := range k {
			k[j] = verifTGAlphaByte(rt)
		}
		return p.note(append(k, p.suffixes[rapid.IntRange(0, len(p.suffixes)-1).Draw(rt, "sfx")]...))
	}
	l := rapid.IntRange(0, 3).Draw(rt, "prefixLen")
	k := make([]byte, 0, l+3)
	for j := 0; j < l; j++ {
		k = append(k, verifTGAlphaByte(rt))
	}
	k = append(k, p.suffixes[rapid.IntRange(0, len(p.suffixes)-1).Draw(rt, "sfx")]...)
	return p.note(k)
}

// Derived draws a key built from a used key: prepend a byte (the old key's path becomes a proper
// prefix of the new path up to the terminator -> child 16 of a branch), change one nibble, or drop
// the first byte.
func (p *verifTGPool) Derived(rt *rapid.T) []byte {
	if len(p.used) == 0 {
		return p.Fresh(rt)
	}
	base := p.used[rapid.IntRange(0, len(p.used)-1).Draw(rt, "base")]
	switch rapid.IntRange(0, 3).Draw(rt, "deriveKind") {
	case 0, 1:
		if len(base) >= p.maxLen {
			return p.note(base)
		}
		return p.note(append([]byte{verifTGAlphaByte(rt)}, base...))
	case 2:
		if len(base) == 0 {
			return p.note([]byte{verifTGAlphaByte(rt)})
		}
		k := append([]byte{}, base...)
		pos := rapid.IntRange(0, 2*len(k)-1).Draw(rt, "nibblePos")
		nib := byte(rapid.IntRange(1, 15).Draw(rt, "nibbleXor"))
		if pos%2 == 0 {
			k[pos/2] ^= nib << 4
		} else {
			k[pos/2] ^= nib
		}
		return p.note(k)
	default:
		if len(base) == 0 {
			return p.note(base)
		}
		return p.note(append([]byte{}, base[1:]...))
	}
}

// Key draws an existing key with weight wUsed, else a fresh or derived one (weights out of 10).
func (p *verifTGPool) Key(rt *rapid.T, wUsed int) []byte {
	r := rapid.IntRange(0, 9).Draw(rt, "keySrc")
	if r < wUsed && len(p.used) > 0 {
		return p.used[rapid.IntRange(0, len(p.used)-1).Draw(rt, "usedIdx")]
	}
	if r%3 == 0 {
		return p.Derived(rt)
	}
	return p.Fresh(rt)
}

// Value draws a non-empty value of 1..40 bytes.
func verifTGValue(rt *rapid.T) []byte {
	if rapid.IntRange(0, 3).Draw(rt, "valKind") == 0 {
		return []byte{rapid.Byte().Draw(rt, "val1")}
	}
	return rapid.SliceOfN(rapid.Byte(), 1, 40).Draw(rt, "val")
}

// verifTGLevel draws maxTrieLevelInMemory in 1..6, small values (early collapse on Commit) twice as likely.
func verifTGLevel(rt *rapid.T, label string) uint {
	return uint(rapid.SampledFrom([]int{1, 1, 2, 2, 3, 4, 5, 6}).Draw(rt, label))
}

func verifTGHasher(rt *rapid.T) hashing.Hasher {
	if rapid.Bool().Draw(rt, "sha256") {
		return sha256.NewSha256()
	}
	return blake2b.NewBlake2b()
}

func verifTGNewTSM(rt *rapid.T) data.StorageManager {
	tsm, err := NewTrieStorageManagerWithoutPruning(memorydb.New())
	if err != nil {
		rt.Fatalf("fixture: storage manager: %v", err)
	}
	return tsm
}

// verifTGNewPruningTSM builds the real trieStorageManager (pruning-capable, snapshot goroutine) over a
// memory database. dir must not exist (no snapshot is ever taken by the callers). Close it at the
// end of the case.
func verifTGNewPruningTSM(rt *rapid.T, dir string, hasher hashing.Hasher) data.StorageManager {
	args := NewTrieStorageManagerArgs{
		DB:          memorydb.New(),
		Marshalizer: &marshal.GogoProtoMarshalizer{},
		Hasher:      hasher,
		SnapshotDbConfig: config.DBConfig{
			FilePath:          dir,
			Type:              string(storageUnit.LvlDBSerial),
			BatchDelaySeconds: 1,
			MaxBatchSize:      1,
			MaxOpenFiles:      10,
		},
		GeneralConfig:          config.TrieStorageManagerConfig{PruningBufferLen: 1000, SnapshotsBufferLen: 10, MaxSnapshots: 2},
		CheckpointHashesHolder: hashesHolder.NewCheckpointHashesHolder(10000000, uint64(hasher.Size())),
	}
	tsm, err := NewTrieStorageManager(args)
	if err != nil {
		rt.Fatalf("fixture: pruning storage manager: %v", err)
	}
	return tsm
}

func verifTGNewTrie(rt *rapid.T, tsm data.StorageManager, hasher hashing.Hasher, level uint) data.Trie {
	tr, err := NewTrie(tsm, &marshal.GogoProtoMarshalizer{}, hasher, level)
	if err != nil {
		rt.Fatalf("fixture: NewTrie: %v", err)
	}
	return tr
}

// verifTGPlainHasher is the production trie hasher.
func verifTGPlainHasher() hashing.Hasher { return blake2b.NewBlake2b() }

// verifTGPlainTrie builds a blake2b trie over a fresh memory database (for plain regression tests).
func verifTGPlainTrie(level uint) (data.Trie, error) {
	tsm, err := NewTrieStorageManagerWithoutPruning(memorydb.New())
	if err != nil {
		return nil, err
	}
	return NewTrie(tsm, &marshal.GogoProtoMarshalizer{}, blake2b.NewBlake2b(), level)
}

type verifTGPair struct{ K, V []byte }

// verifTGLeaves drains GetAllLeavesOnChannel(root).
func verifTGLeaves(tr data.Trie, root []byte) ([]verifTGPair, error) {
	ch, err := tr.GetAllLeavesOnChannel(root)
	if err != nil {
		return nil, err
	}
	var out []verifTGPair
	for kv := range ch {
		out = append(out, verifTGPair{append([]byte{}, kv.Key()...), append([]byte{}, kv.Value()...)})
	}
	return out, nil
}

// verifTGCompareLeaves compares an enumeration with a model in both directions; it returns a
// violation class slug ("" = equal) and a description.
func verifTGCompareLeaves(got []verifTGPair, model map[string][]byte) (string, string) {
	seen := map[string]int{}
	for _, p := range got {
		seen[string(p.K)]++
		want, ok := model[string(p.K)]
		if !ok {
			return "leaves-extra", fmt.Sprintf("enumeration yields key %x (value %x) which is not live; model %s", p.K, p.V, verifTGModelString(model))
		}
		if seen[string(p.K)] > 1 {
			return "leaves-duplicate", fmt.Sprintf("enumeration yields key %x more than once; model %s", p.K, verifTGModelString(model))
		}
		if !bytes.Equal(want, p.V) {
			return "leaves-value", fmt.Sprintf("enumeration yields key %x with value %x, last written %x", p.K, p.V, want)
		}
	}
	for k := range model {
		if seen[k] == 0 {
			return "leaves-missing", fmt.Sprintf("live key %x is not enumerated (%d of %d pairs enumerated); model %s", k, len(got), len(model), verifTGModelString(model))
		}
	}
	return "", ""
}

func verifTGCopyModel(m map[string][]byte) map[string][]byte {
	r := make(map[string][]byte, len(m))
	for k, v := range m {
		r[k] = v // values are never mutated after being stored in a model
	}
	return r
}

func verifTGSortedKeys(m map[string][]byte) []string {
	ks := make([]string, 0, len(m))
	for k := range m {
		ks = append(ks, k)
	}
	sort.Strings(ks)
	return ks
}

func verifTGModelString(m map[string][]byte) string {
	var sb strings.Builder
	sb.WriteString("{")
	for i, k := range verifTGSortedKeys(m) {
		if i > 0 {
			sb.WriteString(" ")
		}
		if i >= 24 {
			sb.WriteString("…")
			break
		}
		sb.WriteString(hex.EncodeToString([]byte(k)))
		sb.WriteString(":")
		v := m[k]
		if len(v) > 4 {
			sb.WriteString(hex.EncodeToString(v[:4]) + "…")
		} else {
			sb.WriteString(hex.EncodeToString(v))
		}
	}
	sb.WriteString("}")
	return sb.String()
}

// verifTGPath is the path of a key in the trie as documented (nibbles of the key in reverse order,
// low nibble of the last byte first, then the terminator 16). Written independently of keyBytesToHex.
func verifTGPath(key string) string {
	p := make([]byte, 0, 2*len(key)+1)
	for i := len(key) - 1; i >= 0; i-- {
		p = append(p, key[i]&0x0f, key[i]>>4)
	}
	p = append(p, 16)
	return string(p)
}

// verifTGShape returns the number of branch and extension nodes of the ideal radix tree holding the
// given key set (classification only).
func verifTGShape(m map[string][]byte) (branches int, exts int) {
	if len(m) < 2 {
		return 0, 0
	}
	paths := make([]string, 0, len(m))
	for k := range m {
		paths = append(paths, verifTGPath(k))
	}
	sort.Strings(paths)
	bset := map[string]struct{}{}
	for i := 0; i+1 < len(paths); i++ {
		a, b := paths[i], paths[i+1]
		l := 0
		for l < len(a) && l < len(b) && a[l] == b[l] {
			l++
		}
		bset[a[:l]] = struct{}{}
	}
	for p := range bset {
		// parent branch = longest proper prefix of p that is a branch point
		parent := -1
		for l := len(p) - 1; l >= 0; l-- {
			if _, ok := bset[p[:l]]; ok {
				parent = l
				break
			}
		}
		gap := len(p) - (parent + 1)
		if gap > 0 {
			exts++
		}
	}
	return len(bset), exts
}

// verifTGLog is a compact op log used as the distinctness key of a case and in messages.
type verifTGLog struct{ sb strings.Builder }

func (l *verifTGLog) Add(format string, args ...interface{}) {
	if l.sb.Len() < 6000 {
		fmt.Fprintf(&l.sb, format, args...)
		l.sb.WriteByte(';')
	}
}

func (l *verifTGLog) String() string { return l.sb.String() }

func verifTGEq(a, b []byte) bool { return bytes.Equal(a, b) }
