package transaction_test

import (
	"bytes"
	"encoding/json"
	"fmt"
	"math/big"
	"sort"
	"strings"
	"testing"
	"unicode/utf8"

	"github.com/ElrondNetwork/elrond-go/core/pubkeyConverter"
	"github.com/ElrondNetwork/elrond-go/data/transaction"
	"github.com/ElrondNetwork/elrond-go/marshal"
	kit "github.com/ElrondNetwork/elrond-go/verifkit"
	"pgregory.net/rapid"
)

// C24: A transaction signature covers every semantic field (signing bytes part).
// Real Transaction.GetDataForSigning + real TxJsonMarshalizer + real bech32 converter.

var verifC24Fields = []string{"nonce", "value", "receiver", "receiverUsername", "sender", "senderUsername",
	"gasPrice", "gasLimit", "data", "chainID", "version", "options"}

func verifC24Bytes(rt *rapid.T, label string, min, max int) []byte {
	switch rapid.IntRange(0, 5).Draw(rt, label+"Kind") {
	case 4:
		// bytes that look like JSON / base64 / bech32 syntax
		alphabet := []byte(`"\{}[]:,=+/@<>& 0aZ` + "\x00\n\xff")
		n := rapid.IntRange(min, max).Draw(rt, label+"Len")
		b := make([]byte, n)
		for i := range b {
			b[i] = alphabet[rapid.IntRange(0, len(alphabet)-1).Draw(rt, label+"Sym")]
		}
		return b
	case 5:
		n := rapid.IntRange(min, max).Draw(rt, label+"Len")
		return bytes.Repeat([]byte{rapid.Byte().Draw(rt, label+"Fill")}, n)
	default:
		return rapid.SliceOfN(rapid.Byte(), min, max).Draw(rt, label)
	}
}

func verifC24ChainID(rt *rapid.T, label string) []byte {
	// chain IDs come from a TOML string: valid UTF-8. 1-8 runes, biased to characters JSON treats specially.
	special := []rune{'"', '\\', '<', '>', '&', '/', ' ', '\n', '\t', 0, 0x7f, 0x2028, 0x2029, 0xfffd, 'é', '1', 'T', 'D', 0x1F600}
	n := rapid.IntRange(1, 8).Draw(rt, label+"Runes")
	var sb strings.Builder
	for i := 0; i < n; i++ {
		if rapid.Bool().Draw(rt, label+"Special") {
			sb.WriteRune(special[rapid.IntRange(0, len(special)-1).Draw(rt, label+"Sp")])
		} else {
			r := rapid.Rune().Draw(rt, label+"Rune")
			if !utf8.ValidRune(r) {
				r = 'x'
			}
			sb.WriteRune(r)
		}
	}
	s := sb.String()
	if !utf8.ValidString(s) {
		s = "1"
	}
	return []byte(s)
}

func verifC24U64(rt *rapid.T, label string) uint64 {
	switch rapid.IntRange(0, 5).Draw(rt, label+"Kind") {
	case 3:
		return 0
	case 4:
		return ^uint64(0) - uint64(rapid.IntRange(0, 3).Draw(rt, label+"Top"))
	case 5:
		return uint64(1)<<uint(rapid.IntRange(0, 63).Draw(rt, label+"Bit")) + uint64(rapid.IntRange(0, 1).Draw(rt, label+"BitPlus"))
	default:
		return rapid.Uint64().Draw(rt, label)
	}
}

func verifC24U32(rt *rapid.T, label string) uint32 {
	switch rapid.IntRange(0, 4).Draw(rt, label+"Kind") {
	case 0:
		return uint32(rapid.IntRange(0, 3).Draw(rt, label+"Small"))
	case 4:
		return ^uint32(0) - uint32(rapid.IntRange(0, 3).Draw(rt, label+"Top"))
	default:
		return rapid.Uint32().Draw(rt, label)
	}
}

func verifC24Value(rt *rapid.T, label string) *big.Int {
	switch rapid.IntRange(0, 5).Draw(rt, label+"Kind") {
	case 0:
		return big.NewInt(int64(rapid.IntRange(0, 1000).Draw(rt, label+"Small")))
	case 1:
		// around 2^63 / 2^64 where a 64-bit rendering would wrap
		v := big.NewInt(0).Lsh(big.NewInt(1), uint(rapid.IntRange(62, 65).Draw(rt, label+"Shift")))
		return v.Add(v, big.NewInt(int64(rapid.IntRange(-2, 2).Draw(rt, label+"Delta"))))
	default:
		b := rapid.SliceOfN(rapid.Byte(), 0, 16).Draw(rt, label) // up to 2^128
		return big.NewInt(0).SetBytes(b)
	}
}

func verifC24GenTx(rt *rapid.T) *transaction.Transaction {
	return &transaction.Transaction{
		Nonce:       verifC24U64(rt, "nonce"),
		Value:       verifC24Value(rt, "value"),
		RcvAddr:     verifC24Bytes(rt, "rcv", 32, 32),
		RcvUserName: verifC24Bytes(rt, "rcvUser", 0, 32),
		SndAddr:     verifC24Bytes(rt, "snd", 32, 32),
		SndUserName: verifC24Bytes(rt, "sndUser", 0, 32),
		GasPrice:    verifC24U64(rt, "gasPrice"),
		GasLimit:    verifC24U64(rt, "gasLimit"),
		Data:        verifC24Bytes(rt, "data", 0, 300),
		ChainID:     verifC24ChainID(rt, "chainID"),
		Version:     verifC24U32(rt, "version"),
		Options:     verifC24U32(rt, "options"),
		Signature:   verifC24Bytes(rt, "sig", 0, 64),
	}
}

func verifC24Clone(tx *transaction.Transaction) *transaction.Transaction {
	cp := func(b []byte) []byte {
		if b == nil {
			return nil
		}
		return append([]byte{}, b...)
	}
	return &transaction.Transaction{
		Nonce: tx.Nonce, Value: big.NewInt(0).Set(tx.Value), RcvAddr: cp(tx.RcvAddr), RcvUserName: cp(tx.RcvUserName),
		SndAddr: cp(tx.SndAddr), SndUserName: cp(tx.SndUserName), GasPrice: tx.GasPrice, GasLimit: tx.GasLimit,
		Data: cp(tx.Data), ChainID: cp(tx.ChainID), Version: tx.Version, Signature: cp(tx.Signature), Options: tx.Options,
	}
}

// verifC24MutBytes returns a byte string different from b with length within [min,max].
func verifC24MutBytes(rt *rapid.T, label string, b []byte, min, max int, fresh func() []byte) []byte {
	out := append([]byte{}, b...)
	switch rapid.IntRange(0, 5).Draw(rt, label+"Mut") {
	case 0:
		if len(out) > 0 {
			i := rapid.IntRange(0, len(out)-1).Draw(rt, label+"Idx")
			out[i] ^= byte(1 << uint(rapid.IntRange(0, 7).Draw(rt, label+"Bit")))
			return out
		}
	case 1:
		if len(out) < max {
			return append(out, rapid.Byte().Draw(rt, label+"App"))
		}
	case 2:
		if len(out) > min {
			return out[:len(out)-1]
		}
	case 3:
		if len(out) > min && len(out) > 0 {
			return out[1:]
		}
	case 4:
		if len(out) < max {
			return append([]byte{0}, out...) // a leading zero byte
		}
	}
	for i := 0; i < 20; i++ {
		f := fresh()
		if !bytes.Equal(f, b) {
			return f
		}
	}
	if len(out) > 0 {
		out[0] ^= 0x55
		return out
	}
	return []byte{1}
}

func verifC24MutU64(rt *rapid.T, label string, v uint64) uint64 {
	switch rapid.IntRange(0, 4).Draw(rt, label+"Mut") {
	case 0:
		return v + 1
	case 1:
		return v - 1
	case 2:
		return v ^ (uint64(1) << uint(rapid.IntRange(0, 63).Draw(rt, label+"Bit")))
	case 3:
		// a change a decimal-digit confusion would miss: x10 or /10 when different
		if w := v * 10; w != v {
			return w
		}
		return v + 1
	default:
		w := verifC24U64(rt, label+"New")
		if w == v {
			return v + 1
		}
		return w
	}
}

func verifC24MutU32(rt *rapid.T, label string, v uint32) uint32 {
	switch rapid.IntRange(0, 3).Draw(rt, label+"Mut") {
	case 0:
		return v + 1
	case 1:
		return v - 1
	case 2:
		return v ^ (uint32(1) << uint(rapid.IntRange(0, 31).Draw(rt, label+"Bit")))
	default:
		w := verifC24U32(rt, label+"New")
		if w == v {
			return v + 1
		}
		return w
	}
}

func verifC24MutValue(rt *rapid.T, v *big.Int) *big.Int {
	w := big.NewInt(0).Set(v)
	switch rapid.IntRange(0, 5).Draw(rt, "valueMut") {
	case 0:
		return w.Add(w, big.NewInt(1))
	case 1:
		if w.Sign() > 0 {
			return w.Sub(w, big.NewInt(1))
		}
		return w.Add(w, big.NewInt(1))
	case 2:
		// the same low 64 bits
		return w.Add(w, big.NewInt(0).Lsh(big.NewInt(int64(rapid.IntRange(1, 5).Draw(rt, "valueHigh"))), 64))
	case 3:
		// the same low 63 bits
		return w.Add(w, big.NewInt(0).Lsh(big.NewInt(1), 63))
	case 4:
		return w.Mul(w.Add(w, big.NewInt(1)), big.NewInt(10))
	default:
		n := verifC24Value(rt, "valueNew")
		if n.Cmp(v) == 0 {
			return n.Add(n, big.NewInt(1))
		}
		return n
	}
}

// verifC24Mutate changes the named fields of tx in place to different values of the same domain.
func verifC24Mutate(rt *rapid.T, tx *transaction.Transaction, fields []string) {
	orig := verifC24Clone(tx)
	for _, f := range fields {
		switch f {
		case "nonce":
			tx.Nonce = verifC24MutU64(rt, "nonce", tx.Nonce)
		case "value":
			tx.Value = verifC24MutValue(rt, tx.Value)
		case "receiver":
			if rapid.IntRange(0, 5).Draw(rt, "rcvIsSender") == 0 && !bytes.Equal(orig.SndAddr, orig.RcvAddr) {
				tx.RcvAddr = append([]byte{}, orig.SndAddr...)
			} else {
				tx.RcvAddr = verifC24MutBytes(rt, "rcv", tx.RcvAddr, 32, 32, func() []byte { return verifC24Bytes(rt, "rcvNew", 32, 32) })
			}
		case "sender":
			if rapid.IntRange(0, 5).Draw(rt, "sndIsReceiver") == 0 && !bytes.Equal(orig.SndAddr, orig.RcvAddr) {
				tx.SndAddr = append([]byte{}, orig.RcvAddr...)
			} else {
				tx.SndAddr = verifC24MutBytes(rt, "snd", tx.SndAddr, 32, 32, func() []byte { return verifC24Bytes(rt, "sndNew", 32, 32) })
			}
		case "receiverUsername":
			if rapid.IntRange(0, 5).Draw(rt, "rcvUserIsSnd") == 0 && !bytes.Equal(orig.SndUserName, orig.RcvUserName) {
				tx.RcvUserName = append([]byte{}, orig.SndUserName...)
			} else {
				tx.RcvUserName = verifC24MutBytes(rt, "rcvUser", tx.RcvUserName, 0, 32, func() []byte { return verifC24Bytes(rt, "rcvUserNew", 0, 32) })
			}
		case "senderUsername":
			if rapid.IntRange(0, 5).Draw(rt, "sndUserIsRcv") == 0 && !bytes.Equal(orig.SndUserName, orig.RcvUserName) {
				tx.SndUserName = append([]byte{}, orig.RcvUserName...)
			} else {
				tx.SndUserName = verifC24MutBytes(rt, "sndUser", tx.SndUserName, 0, 32, func() []byte { return verifC24Bytes(rt, "sndUserNew", 0, 32) })
			}
		case "gasPrice":
			if rapid.IntRange(0, 5).Draw(rt, "priceIsLimit") == 0 && orig.GasLimit != orig.GasPrice {
				tx.GasPrice = orig.GasLimit
			} else {
				tx.GasPrice = verifC24MutU64(rt, "gasPrice", tx.GasPrice)
			}
		case "gasLimit":
			if rapid.IntRange(0, 5).Draw(rt, "limitIsPrice") == 0 && orig.GasLimit != orig.GasPrice {
				tx.GasLimit = orig.GasPrice
			} else {
				tx.GasLimit = verifC24MutU64(rt, "gasLimit", tx.GasLimit)
			}
		case "data":
			tx.Data = verifC24MutBytes(rt, "data", tx.Data, 0, 300, func() []byte { return verifC24Bytes(rt, "dataNew", 0, 300) })
		case "chainID":
			for i := 0; ; i++ {
				n := verifC24ChainID(rt, "chainIDNew")
				if i > 20 {
					n = append(append([]byte{}, orig.ChainID...), 'x')
					if utf8.RuneCount(n) > 8 {
						n = []byte("x")
					}
				}
				if !bytes.Equal(n, orig.ChainID) {
					tx.ChainID = n
					break
				}
			}
		case "version":
			if rapid.IntRange(0, 5).Draw(rt, "versionIsOptions") == 0 && orig.Version != orig.Options {
				tx.Version = orig.Options
			} else {
				tx.Version = verifC24MutU32(rt, "version", tx.Version)
			}
		case "options":
			if rapid.IntRange(0, 5).Draw(rt, "optionsIsVersion") == 0 && orig.Version != orig.Options {
				tx.Options = orig.Version
			} else {
				tx.Options = verifC24MutU32(rt, "options", tx.Options)
			}
		}
	}
}

func verifC24Describe(tx *transaction.Transaction) string {
	return fmt.Sprintf("{nonce=%d value=%s rcv=%x rcvUser=%x snd=%x sndUser=%x gasPrice=%d gasLimit=%d data=%x chainID=%q version=%d options=%d}",
		tx.Nonce, tx.Value, tx.RcvAddr, tx.RcvUserName, tx.SndAddr, tx.SndUserName, tx.GasPrice, tx.GasLimit, tx.Data, string(tx.ChainID), tx.Version, tx.Options)
}

func verifC24PickFields(rt *rapid.T) []string {
	k := 1
	if rapid.IntRange(0, 3).Draw(rt, "multi") == 3 {
		k = rapid.IntRange(2, len(verifC24Fields)).Draw(rt, "numFields")
	}
	perm := rapid.Permutation(verifC24Fields).Draw(rt, "fieldOrder")
	fields := append([]string{}, perm[:k]...)
	sort.Strings(fields)
	return fields
}

func TestVerifC24_SigningBytes(t *testing.T) {
	conv, err := pubkeyConverter.NewBech32PubkeyConverter(32)
	if err != nil {
		t.Fatalf("fixture: %v", err)
	}
	m := &marshal.TxJsonMarshalizer{}
	kit.Run(t, "C24", kit.Budget{Quick: 20000, Thorough: 200000},
		"transaction A with every field drawn over its whole domain (uint64/uint32 incl. 0, max, powers of two; value up to 2^128 incl. around 2^63/2^64; 32-byte addresses; user names 0-32 bytes; data 0-300 bytes incl. JSON/base64 syntax bytes; chain ID = 1-8 runes of valid UTF-8 incl. quotes, backslash, <>&, control characters, U+2028, astral); B = A with a drawn non-empty subset of the 12 semantic fields changed (bit flip, +-1, append/truncate, leading zero byte, value +2^64, swap with the sibling field, fresh value). Oracles: signing bytes of A and B differ; an independent deep copy with another signature gives identical bytes (twice); decoding the signing JSON gives back every field of A. Non-trivial = exactly one field differs (per-field classes); distinct by (A, B)",
		func(rt *rapid.T, c *kit.Case) {
			a := verifC24GenTx(rt)
			fields := verifC24PickFields(rt)
			b := verifC24Clone(a)
			verifC24Mutate(rt, b, fields)

			var bytesA, bytesB, bytesA2, bytesA3 []byte
			var errA, errB, errA2, errA3 error
			c.NoPanic("C24:signing-panic", func() {
				bytesA, errA = a.GetDataForSigning(conv, m)
				bytesB, errB = b.GetDataForSigning(conv, m)
			})
			if errA != nil || errB != nil {
				c.Violation("C24:signing-error", "GetDataForSigning failed: %v / %v for %s / %s", errA, errB, verifC24Describe(a), verifC24Describe(b))
			}
			if bytes.Equal(bytesA, bytesB) {
				c.Violation("C24:collision:"+strings.Join(fields, "+"), "transactions differing in %v have the same signing bytes %s\n A=%s\n B=%s", fields, bytesA, verifC24Describe(a), verifC24Describe(b))
			}

			// identical field values => identical bytes (independent copy, different signature, nil vs empty byte fields)
			a2 := verifC24Clone(a)
			a2.Signature = verifC24Bytes(rt, "sig2", 0, 64)
			if len(a2.Data) == 0 {
				a2.Data = nil
			}
			if len(a2.SndUserName) == 0 {
				a2.SndUserName = nil
			}
			if len(a2.RcvUserName) == 0 {
				a2.RcvUserName = nil
			}
			c.NoPanic("C24:signing-panic", func() {
				bytesA2, errA2 = a2.GetDataForSigning(conv, m)
				bytesA3, errA3 = a.GetDataForSigning(conv, m)
			})
			if errA2 != nil || errA3 != nil || !bytes.Equal(bytesA, bytesA2) || !bytes.Equal(bytesA, bytesA3) {
				c.Violation("C24:not-deterministic", "identical field values give different signing bytes:\n %s\n %s\n %s (errors %v %v) for %s", bytesA, bytesA2, bytesA3, errA2, errA3, verifC24Describe(a))
			}

			// round trip: the signing bytes determine every field
			verifC24RoundTrip(c, conv, a, bytesA)

			for _, f := range fields {
				c.Class("changed:" + f)
			}
			if len(fields) == 1 {
				c.Class("single:" + fields[0])
				c.NonTrivial(verifC24Describe(a) + verifC24Describe(b))
				c.Sample("changed %v: A=%s B=%s bytes(A)=%s", fields, verifC24Describe(a), verifC24Describe(b), bytesA)
			}
		})
}

type verifC24Decoder interface {
	Decode(humanReadable string) ([]byte, error)
}

func verifC24RoundTrip(c *kit.Case, conv verifC24Decoder, a *transaction.Transaction, signing []byte) {
	var ftx transaction.FrontendTransaction
	if err := json.Unmarshal(signing, &ftx); err != nil {
		c.Violation("C24:roundtrip:not-json", "signing bytes are not JSON: %v: %s for %s", err, signing, verifC24Describe(a))
	}
	bad := func(field string, got interface{}) {
		c.Violation("C24:roundtrip:"+field, "field %s is not recoverable from the signing bytes: decoded %v from %s for %s", field, got, signing, verifC24Describe(a))
	}
	if ftx.Nonce != a.Nonce {
		bad("nonce", ftx.Nonce)
	}
	v, ok := big.NewInt(0).SetString(ftx.Value, 10)
	if !ok || v.Cmp(a.Value) != 0 {
		bad("value", ftx.Value)
	}
	rcv, err := conv.Decode(ftx.Receiver)
	if err != nil || !bytes.Equal(rcv, a.RcvAddr) {
		bad("receiver", ftx.Receiver)
	}
	snd, err := conv.Decode(ftx.Sender)
	if err != nil || !bytes.Equal(snd, a.SndAddr) {
		bad("sender", ftx.Sender)
	}
	if !bytes.Equal(ftx.SenderUsername, a.SndUserName) {
		bad("senderUsername", ftx.SenderUsername)
	}
	if !bytes.Equal(ftx.ReceiverUsername, a.RcvUserName) {
		bad("receiverUsername", ftx.ReceiverUsername)
	}
	if ftx.GasPrice != a.GasPrice {
		bad("gasPrice", ftx.GasPrice)
	}
	if ftx.GasLimit != a.GasLimit {
		bad("gasLimit", ftx.GasLimit)
	}
	if !bytes.Equal(ftx.Data, a.Data) {
		bad("data", ftx.Data)
	}
	if ftx.ChainID != string(a.ChainID) {
		bad("chainID", ftx.ChainID)
	}
	if ftx.Version != a.Version {
		bad("version", ftx.Version)
	}
	if ftx.Options != a.Options {
		bad("options", ftx.Options)
	}
	if ftx.Signature != "" {
		bad("signature-present", ftx.Signature)
	}
}

// TestVerifC24_Regress: a fixed base transaction and, per semantic field, a table of classic alternative values
// (the ones a lossy encoder confuses). All variants (including the base) must have pairwise distinct signing bytes,
// also across fields (e.g. data "x" versus sender user name "x"). Runs in every tier; hits every field even at scale 0.
func TestVerifC24_Regress(t *testing.T) {
	conv, err := pubkeyConverter.NewBech32PubkeyConverter(32)
	if err != nil {
		t.Fatalf("fixture: %v", err)
	}
	m := &marshal.TxJsonMarshalizer{}
	p := kit.NewPlain(t, "C24", "fixed base transaction x per-field tables of alternative values; all variants pairwise distinct signing bytes")
	defer p.Done()
	base := func() *transaction.Transaction {
		return &transaction.Transaction{
			Nonce: 7, Value: big.NewInt(1000), RcvAddr: bytes.Repeat([]byte{0xaa}, 32), RcvUserName: []byte("bob"),
			SndAddr: bytes.Repeat([]byte{0xbb}, 32), SndUserName: []byte("alice"), GasPrice: 1000000000, GasLimit: 50000,
			Data: []byte("x@01"), ChainID: []byte("T"), Version: 2, Options: 2,
		}
	}
	two64 := big.NewInt(0).Lsh(big.NewInt(1), 64)
	type variant struct {
		name string
		set  func(tx *transaction.Transaction)
	}
	variants := []variant{{"base", func(tx *transaction.Transaction) {}}}
	add := func(name string, set func(tx *transaction.Transaction)) {
		variants = append(variants, variant{name, set})
	}
	for _, n := range []uint64{0, 6, 8, 70, 7 + 1<<32, 7 + 1<<53, ^uint64(0)} {
		n := n
		add(fmt.Sprint("nonce=", n), func(tx *transaction.Transaction) { tx.Nonce = n })
	}
	for _, v := range []*big.Int{big.NewInt(0), big.NewInt(999), big.NewInt(10000), big.NewInt(0).Add(two64, big.NewInt(1000)),
		big.NewInt(0).Add(big.NewInt(0).Lsh(big.NewInt(1), 63), big.NewInt(1000)), big.NewInt(0).Lsh(big.NewInt(1), 128)} {
		v := v
		add("value="+v.String(), func(tx *transaction.Transaction) { tx.Value = v })
	}
	flip := func(b []byte, i int) []byte { o := append([]byte{}, b...); o[i] ^= 1; return o }
	add("receiver=flip-first", func(tx *transaction.Transaction) { tx.RcvAddr = flip(tx.RcvAddr, 0) })
	add("receiver=flip-last", func(tx *transaction.Transaction) { tx.RcvAddr = flip(tx.RcvAddr, 31) })
	add("receiver=sender", func(tx *transaction.Transaction) { tx.RcvAddr = append([]byte{}, tx.SndAddr...) })
	add("sender=flip-first", func(tx *transaction.Transaction) { tx.SndAddr = flip(tx.SndAddr, 0) })
	add("sender=flip-last", func(tx *transaction.Transaction) { tx.SndAddr = flip(tx.SndAddr, 31) })
	add("sender=receiver", func(tx *transaction.Transaction) { tx.SndAddr = append([]byte{}, tx.RcvAddr...) })
	add("sender<->receiver", func(tx *transaction.Transaction) { tx.SndAddr, tx.RcvAddr = tx.RcvAddr, tx.SndAddr })
	for _, u := range [][]byte{nil, []byte("bo"), []byte("bob\x00"), []byte("\x00bob"), []byte("alice"), []byte("Ym9i"), bytes.Repeat([]byte{0xff}, 32)} {
		u := u
		add(fmt.Sprintf("receiverUsername=%q", u), func(tx *transaction.Transaction) { tx.RcvUserName = u })
	}
	for _, u := range [][]byte{nil, []byte("alic"), []byte("alice\x00"), []byte("\x00alice"), []byte("bob"), []byte("x@01"), bytes.Repeat([]byte{0xff}, 32)} {
		u := u
		add(fmt.Sprintf("senderUsername=%q", u), func(tx *transaction.Transaction) { tx.SndUserName = u })
	}
	add("usernames swapped", func(tx *transaction.Transaction) { tx.SndUserName, tx.RcvUserName = tx.RcvUserName, tx.SndUserName })
	for _, g := range []uint64{0, 999999999, 50000, 10000000000, 1000000000 + 1<<32, ^uint64(0)} {
		g := g
		add(fmt.Sprint("gasPrice=", g), func(tx *transaction.Transaction) { tx.GasPrice = g })
	}
	for _, g := range []uint64{0, 49999, 1000000000, 500000, 50000 + 1<<32, ^uint64(0)} {
		g := g
		add(fmt.Sprint("gasLimit=", g), func(tx *transaction.Transaction) { tx.GasLimit = g })
	}
	add("gasPrice<->gasLimit", func(tx *transaction.Transaction) { tx.GasPrice, tx.GasLimit = tx.GasLimit, tx.GasPrice })
	for _, d := range [][]byte{nil, []byte("x@0"), []byte("x@01\x00"), []byte("\x00x@01"), []byte("X@01"), []byte("eEAwMQ=="), []byte(`x@01","chainID":"D`), bytes.Repeat([]byte{0}, 300)} {
		d := d
		add(fmt.Sprintf("data=%q", d), func(tx *transaction.Transaction) { tx.Data = d })
	}
	for _, ch := range []string{"t", "T ", " T", "T\x00", "D", "1", "\"", "\\", "T\",\"version\":2,\"options\":2}", "<", "<>", " ", "TT"} {
		ch := ch
		add(fmt.Sprintf("chainID=%q", ch), func(tx *transaction.Transaction) { tx.ChainID = []byte(ch) })
	}
	for _, v := range []uint32{0, 1, 3, 20, 2 + 1<<16, ^uint32(0)} {
		v := v
		add(fmt.Sprint("version=", v), func(tx *transaction.Transaction) { tx.Version = v })
	}
	for _, o := range []uint32{0, 1, 3, 20, 2 + 1<<16, ^uint32(0)} {
		o := o
		add(fmt.Sprint("options=", o), func(tx *transaction.Transaction) { tx.Options = o })
	}
	add("version=20,options=3 vs version=3,options=20 (a)", func(tx *transaction.Transaction) { tx.Version, tx.Options = 20, 3 })
	add("version=20,options=3 vs version=3,options=20 (b)", func(tx *transaction.Transaction) { tx.Version, tx.Options = 3, 20 })

	seen := map[string]string{}
	for _, v := range variants {
		tx := base()
		v.set(tx)
		b, err := tx.GetDataForSigning(conv, m)
		if err != nil {
			p.Violation("C24:signing-error", "variant %s: %v", v.name, err)
		}
		p.Eval(1)
		p.NonTrivial(v.name)
		if other, dup := seen[string(b)]; dup {
			p.Violation("C24:collision:regress", "variants %q and %q of the base transaction have the same signing bytes %s", other, v.name, b)
		}
		seen[string(b)] = v.name
	}
	p.Sample("%d variants of the base transaction, all signing bytes distinct", len(variants))
}
