package state_test

import (
	"bytes"
	"encoding/hex"
	"fmt"
	"math/big"
	"sort"
	"strings"
	"testing"

	"github.com/ElrondNetwork/elrond-go/data/state"
	kit "github.com/ElrondNetwork/elrond-go/verifkit"
	"pgregory.net/rapid"
)

// C06: Account state reverts exactly to a journal snapshot.
// C07: Contract code is stored once and reference-counted correctly.
//
// One generated program (a history over a real AccountsDB) serves both properties; the test
// function decides which oracle is evaluated:
//   C06: observation (all fields of all accounts of the case, all storage keys of the case, all
//        code, state root) recorded when JournalLen() is taken == observation after
//        RevertToSnapshot(that length); observation after Commit == observation after
//        RevertToSnapshot(0).
//   C07: after every step, for every code blob of the case: the main-trie leaf under hash(blob)
//        exists iff >=1 model account carries that code, and NumReferences == that number.
// A reference model (Go maps) drives generation and is cross-checked against the observation
// after every step; a disagreement on a step that is not a revert is reported as a fixture
// problem (INCONCLUSIVE), never as a violation of C06.

type verifC06Acc struct {
	nonce   uint64
	balance *big.Int
	owner   []byte
	meta    []byte
	code    []byte // nil = no code
	storage map[string][]byte
	// not named by the property but part of the account record (covered by the state root)
	userName  []byte
	devReward *big.Int
}

type verifC06Model map[int]*verifC06Acc // by address index of the case

func (m verifC06Model) clone() verifC06Model {
	r := verifC06Model{}
	for i, a := range m {
		b := &verifC06Acc{nonce: a.nonce, balance: new(big.Int).Set(a.balance), owner: verifSAClone(a.owner),
			meta: verifSAClone(a.meta), code: verifSAClone(a.code), storage: map[string][]byte{},
			userName: verifSAClone(a.userName), devReward: new(big.Int).Set(a.devReward)}
		for k, v := range a.storage {
			b.storage[k] = verifSAClone(v)
		}
		r[i] = b
	}
	return r
}

func (m verifC06Model) refs(code []byte) int {
	n := 0
	for _, a := range m {
		if len(a.code) > 0 && bytes.Equal(a.code, code) {
			n++
		}
	}
	return n
}

type verifC06Snap struct {
	journalLen int
	model      verifC06Model
	root       []byte
	obs        []string
	opIndex    int
}

// verifC06Commit is the state at one Commit of the case.
type verifC06Commit struct {
	root  []byte
	model verifC06Model
	obs   []string
}

type verifC06OpFlags struct {
	storage, sharedCode, createRemove bool
}

type verifC06Env struct {
	rt    *rapid.T
	c     *kit.Case
	mode  string // "C06" or "C07"
	f     *verifSAFixture
	addrs [][]byte
	keys  [][]byte
	codes [][]byte

	model      verifC06Model
	committed  verifC06Model
	commitObs  []string
	commitRoot []byte
	commits    []verifC06Commit // every Commit of the case: root, model and observation (targets of rollback)
	stack      []verifC06Snap
	ops        []verifC06OpFlags
	trace      []string

	nonTrivial bool
	// addresses whose account was removed since the last commit / revert to zero (see verifC06KnownRecreate)
	removedSinceCommit map[int]bool

	// accounts were written with ImportAccount (which bypasses the journal) since the last commit / revert to zero /
	// rollback: only a revert to zero (or a commit) is a defined way out, see opImport
	importsPending bool

	opAddr []int                 // parallel to ops: the address index the operation touched
	held   map[int]*verifC06Held // account instances the "caller" still holds, by address index
}

// verifC06Held is an account instance kept by the caller after SaveAccount, the way transaction processors keep
// acntSnd/acntDst across several SaveAccount calls (fee, then value; sender == receiver). It may be used again
// (mutated further and saved again without LoadAccount) as long as it is the only instance through which the
// address was changed since it was loaded - also after a RevertToSnapshot(n > 0) that undid some or all of its
// saves ("retry with the same handler"). shadow holds the field values of the instance (what a save of it writes).
type verifC06Held struct {
	acc       state.UserAccountHandler
	shadow    *verifC06Acc
	setCode   bool // SetCode was called on this instance: a save of it (re)establishes shadow.code
	loadedAt  int  // len(ops) when the instance was loaded
	prevTouch int  // index of the last operation that touched the address before the load, -1 if none
}

func (e *verifC06Env) lastTouchBefore(ai int, limit int) int {
	for i := limit - 1; i >= 0; i-- {
		if e.opAddr[i] == ai {
			return i
		}
	}
	return -1
}

// dropHeldAfterRevert keeps only the instances that are still a consistent continuation of the state reverted to:
// the instance was loaded before the snapshot, or it was loaded after it from a state of its address that the
// revert re-establishes (nothing touched the address between the snapshot and the load).
func (e *verifC06Env) dropHeldAfterRevert(opIndex int) {
	for ai, h := range e.held {
		if h.loadedAt >= opIndex && h.prevTouch >= opIndex {
			delete(e.held, ai)
		}
	}
}

// verifC06KnownRecreate is the class key of the defect found by this check (see TestVerifC06_Regress): an account
// that is removed and created again with a storage write (new data trie) before the next commit, followed by a
// revert to a journal length taken before the removal. While the key is listed as "known" in KNOWN_FINDINGS.json
// the generator leaves out, by construction, storage writes on an address removed since the last commit (and
// counts them); otherwise the class is explored like any other.
const verifC06KnownRecreate = "C06:recreated-account-new-data-trie"

func (e *verifC06Env) logf(format string, a ...interface{}) {
	e.trace = append(e.trace, fmt.Sprintf(format, a...))
}

func (e *verifC06Env) traceText() string {
	return strings.Join(e.trace, "; ")
}

func (e *verifC06Env) fixture(err error, what string) {
	if err != nil {
		e.rt.Fatalf("fixture: %s: %v [%s]", what, err, e.traceText())
	}
}

// observe reads everything the property talks about through the public API; a read error is a
// fixture problem.
func (e *verifC06Env) observe() (lines []string, root []byte) {
	lines, root, err := e.tryObserve()
	e.fixture(err, "observation")
	return lines, root
}

func (e *verifC06Env) tryObserve() (lines []string, root []byte, err error) {
	root, err = e.f.Adb.RootHash()
	if err != nil {
		return nil, nil, fmt.Errorf("RootHash: %w", err)
	}
	for i, addr := range e.addrs {
		acc, err := e.f.Adb.GetExistingAccount(addr)
		if err == state.ErrAccNotFound {
			lines = append(lines, fmt.Sprintf("a%d absent", i))
			continue
		}
		if err != nil {
			return nil, nil, fmt.Errorf("GetExistingAccount(a%d): %w", i, err)
		}
		ua, ok := acc.(state.UserAccountHandler)
		if !ok {
			return nil, nil, fmt.Errorf("a%d is not a user account", i)
		}
		var sb strings.Builder
		fmt.Fprintf(&sb, "a%d nonce=%d balance=%s owner=%x meta=%x codeHash=%x code=%x user=%x reward=%s", i, ua.GetNonce(), ua.GetBalance().String(),
			ua.GetOwnerAddress(), ua.GetCodeMetadata(), ua.GetCodeHash(), e.f.Adb.GetCode(ua.GetCodeHash()), ua.GetUserName(), ua.GetDeveloperReward().String())
		for ki, k := range e.keys {
			v, err := ua.DataTrieTracker().RetrieveValue(k)
			if err == state.ErrNilTrie { // account without a data trie: every key reads as empty
				v, err = nil, nil
			}
			if err != nil {
				return nil, nil, fmt.Errorf("a%d RetrieveValue(k%d): %w", i, ki, err)
			}
			if len(v) > 0 {
				fmt.Fprintf(&sb, " k%d=%x", ki, v)
			}
		}
		lines = append(lines, sb.String())
	}
	return lines, root, nil
}

func (e *verifC06Env) modelLines(m verifC06Model) []string {
	var lines []string
	for i := range e.addrs {
		a, ok := m[i]
		if !ok {
			lines = append(lines, fmt.Sprintf("a%d absent", i))
			continue
		}
		var codeHash []byte
		if len(a.code) > 0 {
			codeHash = e.f.Hasher.Compute(string(a.code))
		}
		var sb strings.Builder
		fmt.Fprintf(&sb, "a%d nonce=%d balance=%s owner=%x meta=%x codeHash=%x code=%x user=%x reward=%s", i, a.nonce, a.balance.String(), a.owner, a.meta, codeHash, a.code, a.userName, a.devReward.String())
		for ki, k := range e.keys {
			if v := a.storage[string(k)]; len(v) > 0 {
				fmt.Fprintf(&sb, " k%d=%x", ki, v)
			}
		}
		lines = append(lines, sb.String())
	}
	return lines
}

func verifC06Diff(want, got []string) string {
	for i := range want {
		if i >= len(got) || want[i] != got[i] {
			g := "<missing>"
			if i < len(got) {
				g = got[i]
			}
			return fmt.Sprintf("want {%s} got {%s}", want[i], g)
		}
	}
	return ""
}

func verifC06StripStorage(lines []string) []string {
	r := make([]string, len(lines))
	for i, l := range lines {
		if p := strings.Index(l, " k"); p >= 0 {
			l = l[:p]
		}
		r[i] = l
	}
	return r
}

// sanity: model == observation (fixture problem otherwise).
func (e *verifC06Env) sanity(obs []string, after string) {
	want := e.modelLines(e.model)
	if e.mode == "C07" {
		// C07 does not depend on storage values: keep its verdict independent of C06 findings about them
		want, obs = verifC06StripStorage(want), verifC06StripStorage(obs)
	}
	if d := verifC06Diff(want, obs); d != "" {
		e.rt.Fatalf("fixture: reference model and accounts database disagree after %s: %s [%s]", after, d, e.traceText())
	}
}

// C07 oracle.
func (e *verifC06Env) checkCodeEntries(after string) {
	if e.mode != "C07" {
		return
	}
	tr := e.f.Adb.VerifSAMainTrie()
	for ci, code := range e.codes {
		h := e.f.Hasher.Compute(string(code))
		want := e.model.refs(code)
		entry, err := state.GetCodeEntry(h, tr, e.f.Marsh)
		e.fixture(err, "GetCodeEntry")
		switch {
		case want == 0 && entry != nil:
			e.c.Violation("C07:entry-without-referrer", "after %s: code %d has a code entry (NumReferences %d) but no account refers to it [%s]", after, ci, entry.NumReferences, e.traceText())
		case want > 0 && entry == nil:
			e.c.Violation("C07:entry-missing", "after %s: %d account(s) refer to code %d but there is no code entry [%s]", after, want, ci, e.traceText())
		case want > 0 && int(entry.NumReferences) != want:
			e.c.Violation("C07:wrong-reference-count", "after %s: code %d NumReferences=%d, accounts referring to it: %d [%s]", after, ci, entry.NumReferences, want, e.traceText())
		case want > 0 && !bytes.Equal(entry.Code, code):
			e.c.Violation("C07:wrong-code-bytes", "after %s: code entry %d holds other bytes than the code [%s]", after, ci, e.traceText())
		}
		// GetCode is the reading side of the code entries (VM, scProcessor): it is asked for every code of the case
		// after every step, i.e. also before the revert/removal that drops an entry - a read must not change a later answer
		got := e.f.Adb.GetCode(h)
		if want > 0 && !bytes.Equal(got, code) {
			e.c.Violation("C07:getcode-mismatch", "after %s: GetCode(hash of code %d) = %x, want %x [%s]", after, ci, got, code, e.traceText())
		}
		if want == 0 && len(got) != 0 {
			e.c.Violation("C07:getcode-without-referrer", "after %s: GetCode(hash of code %d) returns %x although no account refers to that code and it has no entry [%s]", after, ci, got, e.traceText())
		}
	}
	// the same invariant read from the accounts themselves (no reference model): every code hash carried by an account
	// of the case has an entry whose counter is the number of accounts carrying it
	carried := map[string]int{}
	var order []string
	for i, addr := range e.addrs {
		acc, err := e.f.Adb.GetExistingAccount(addr)
		if err == state.ErrAccNotFound {
			continue
		}
		if err != nil {
			e.rt.Fatalf("fixture: GetExistingAccount(a%d): %v [%s]", i, err, e.traceText())
		}
		if ch := acc.(state.UserAccountHandler).GetCodeHash(); len(ch) > 0 {
			if carried[string(ch)] == 0 {
				order = append(order, string(ch))
			}
			carried[string(ch)]++
		}
	}
	for _, ch := range order {
		entry, err := state.GetCodeEntry([]byte(ch), tr, e.f.Marsh)
		e.fixture(err, "GetCodeEntry")
		if entry == nil {
			e.c.Violation("C07:account-refers-to-missing-entry", "after %s: %d account(s) carry code hash %x but there is no code entry under it (GetCode returns %x) [%s]", after, carried[ch], ch, e.f.Adb.GetCode([]byte(ch)), e.traceText())
		}
		if int(entry.NumReferences) != carried[ch] {
			e.c.Violation("C07:wrong-reference-count", "after %s: code hash %x NumReferences=%d, accounts carrying it: %d [%s]", after, ch, entry.NumReferences, carried[ch], e.traceText())
		}
		if !bytes.Equal(e.f.Hasher.Compute(string(entry.Code)), []byte(ch)) || !bytes.Equal(e.f.Adb.GetCode([]byte(ch)), entry.Code) {
			e.c.Violation("C07:wrong-code-bytes", "after %s: entry under %x holds bytes with another hash, or GetCode disagrees with the entry [%s]", after, ch, e.traceText())
		}
	}
}

// C07, nothing invented: after a commit every leaf of the main trie is an account of the model or a
// referenced code entry.
func (e *verifC06Env) checkLeavesAfterCommit(root []byte) {
	if e.mode != "C07" {
		return
	}
	ch, err := e.f.Adb.GetAllLeaves(root)
	e.fixture(err, "GetAllLeaves")
	expected := map[string]string{}
	for i := range e.model {
		expected[string(e.addrs[i])] = fmt.Sprintf("account a%d", i)
	}
	for ci, code := range e.codes {
		if e.model.refs(code) > 0 {
			expected[string(e.f.Hasher.Compute(string(code)))] = fmt.Sprintf("code %d", ci)
		}
	}
	var unexpected []string
	n := 0
	for leaf := range ch { // drain completely: the producer goroutine ends when the channel is closed
		n++
		if _, ok := expected[string(leaf.Key())]; !ok {
			unexpected = append(unexpected, hex.EncodeToString(leaf.Key()))
		}
	}
	if len(unexpected) > 0 {
		sort.Strings(unexpected)
		e.c.Violation("C07:stray-leaf", "after commit the main trie holds %d leaf(s) that are neither a live account nor a referenced code entry: %v [%s]", len(unexpected), unexpected, e.traceText())
	}
	if n != len(expected) {
		e.c.Violation("C07:leaf-count", "after commit the main trie holds %d leaves, expected %d (accounts + referenced codes) [%s]", n, len(expected), e.traceText())
	}
}

func (e *verifC06Env) refCounts() []int {
	r := make([]int, len(e.codes))
	for i, code := range e.codes {
		r[i] = e.model.refs(code)
	}
	return r
}

func (e *verifC06Env) classifyRefDrop(before []int, how string) {
	after := e.refCounts()
	for i := range before {
		if (before[i] == 2 && after[i] == 1) || (before[i] == 1 && after[i] == 0) {
			e.c.Class("refdrop-by-" + how)
			if e.mode == "C07" && (how == "remove" || how == "revert") {
				e.nonTrivial = true
			}
			return
		}
	}
}

func (e *verifC06Env) opMutateSave() {
	rt := e.rt
	ai := rapid.IntRange(0, len(e.addrs)-1).Draw(rt, "acc")
	cur, exists := e.model[ai]
	var stateCode []byte
	stateStorage := map[string][]byte{}
	if exists {
		stateCode = cur.code
		for k, v := range cur.storage {
			stateStorage[k] = verifSAClone(v)
		}
	}
	var flags verifC06OpFlags
	flags.createRemove = !exists
	var ua state.UserAccountHandler
	var m *verifC06Acc
	h := e.held[ai]
	reuse := h != nil && rapid.Bool().Draw(rt, "reuseHeldInstance")
	if reuse {
		// the caller goes on with the instance it already holds: what gets saved are the fields of the instance;
		// storage is what the state holds (pending writes were flushed by the earlier save, a revert undid them in
		// the shared data trie); code is the instance's only if SetCode was called on it
		ua = h.acc
		m = verifC06Model{0: h.shadow}.clone()[0]
		m.storage = stateStorage
		if !h.setCode {
			m.code = verifSAClone(stateCode)
		}
		e.c.Class("save-through-held-instance")
		if !exists || !bytes.Equal(m.code, stateCode) || m.nonce != cur.nonce || m.balance.Cmp(cur.balance) != 0 {
			e.c.Class("save-through-held-instance-after-its-save-was-reverted")
		}
	} else {
		acc, err := e.f.Adb.LoadAccount(e.addrs[ai])
		e.fixture(err, "LoadAccount")
		ua = acc.(state.UserAccountHandler)
		h = &verifC06Held{acc: ua, loadedAt: len(e.ops), prevTouch: e.lastTouchBefore(ai, len(e.ops))}
		if exists {
			m = verifC06Model{0: cur}.clone()[0]
		} else {
			m = &verifC06Acc{balance: big.NewInt(0), devReward: big.NewInt(0), storage: map[string][]byte{}}
		}
	}
	before := e.refCounts()
	desc := fmt.Sprintf("save a%d", ai)
	if exists {
		desc = fmt.Sprintf("update a%d", ai)
	}
	if reuse {
		desc += "(held instance)"
	}
	mask := rapid.IntRange(0, 63).Draw(rt, "mutations")
	if rapid.IntRange(0, 5).Draw(rt, "extraFields") == 0 {
		un := verifSAGenBytes(rt, 0, 4, "userName")
		ua.SetUserName(un)
		m.userName = verifSAClone(un)
		rw := big.NewInt(int64(rapid.IntRange(0, 1000).Draw(rt, "devReward")))
		ua.AddToDeveloperReward(rw)
		m.devReward = new(big.Int).Add(m.devReward, rw)
		desc += fmt.Sprintf(" user=%x reward+%s", un, rw.String())
	}
	if mask&1 != 0 {
		if rapid.Bool().Draw(rt, "sub") && m.balance.Sign() > 0 {
			v := new(big.Int).Div(m.balance, big.NewInt(int64(rapid.IntRange(1, 3).Draw(rt, "div"))))
			e.fixture(ua.SubFromBalance(v), "SubFromBalance")
			m.balance = new(big.Int).Sub(m.balance, v)
			desc += " bal-" + v.String()
		} else {
			v := new(big.Int).SetBytes(verifSAGenBytes(rt, 0, 10, "amount"))
			e.fixture(ua.AddToBalance(v), "AddToBalance")
			m.balance = new(big.Int).Add(m.balance, v)
			desc += " bal+" + v.String()
		}
	}
	if mask&2 != 0 {
		n := uint64(rapid.IntRange(1, 3).Draw(rt, "nonceInc"))
		ua.IncreaseNonce(n)
		m.nonce += n
		desc += fmt.Sprintf(" nonce+%d", n)
	}
	if mask&4 != 0 {
		oi := rapid.IntRange(-1, len(e.addrs)-1).Draw(rt, "owner")
		var o []byte
		if oi >= 0 {
			o = verifSAClone(e.addrs[oi])
		}
		ua.SetOwnerAddress(o)
		m.owner = verifSAClone(o)
		desc += fmt.Sprintf(" owner=a%d", oi)
	}
	if mask&8 != 0 {
		md := verifSAGenBytes(rt, 0, 2, "meta")
		ua.SetCodeMetadata(verifSAClone(md))
		m.meta = verifSAClone(md)
		desc += fmt.Sprintf(" meta=%x", md)
	}
	if mask&16 != 0 {
		ci := rapid.SampledFrom([]int{0, 0, 0, 0, 1, 1, 2, -1, -2, -2}).Draw(rt, "code")
		var code []byte
		switch {
		case ci >= 0:
			code = verifSAClone(e.codes[ci])
		case ci == -1:
			code = []byte{}
		}
		h.setCode = true
		ua.SetCode(code)
		if len(code) == 0 {
			m.code = nil
		} else {
			m.code = verifSAClone(code)
		}
		desc += fmt.Sprintf(" code=%d", ci)
	}
	if !bytes.Equal(stateCode, m.code) {
		// shared = the old or the new code is carried by another account as well
		others := e.model.clone()
		delete(others, ai)
		if (len(stateCode) > 0 && others.refs(stateCode) > 0) || (len(m.code) > 0 && others.refs(m.code) > 0) {
			flags.sharedCode = true
		}
	}
	if mask&32 != 0 && e.removedSinceCommit[ai] && kit.IsKnown(verifC06KnownRecreate) {
		e.c.Excluded(verifC06KnownRecreate)
		mask &^= 32
	}
	if mask&32 != 0 {
		nw := rapid.IntRange(1, 3).Draw(rt, "writes")
		for w := 0; w < nw; w++ {
			ki := rapid.IntRange(0, len(e.keys)-1).Draw(rt, "key")
			var v []byte
			if rapid.IntRange(0, 3).Draw(rt, "delete") != 0 {
				maxv := 12
				if kit.Thorough() {
					maxv = 80
				}
				v = verifSAGenBytes(rt, 1, maxv, "value")
			}
			e.fixture(ua.DataTrieTracker().SaveKeyValue(verifSAClone(e.keys[ki]), verifSAClone(v)), "SaveKeyValue")
			if len(v) == 0 {
				if _, had := m.storage[string(e.keys[ki])]; had {
					flags.storage = true
				}
				delete(m.storage, string(e.keys[ki]))
			} else {
				m.storage[string(e.keys[ki])] = verifSAClone(v)
				flags.storage = true
			}
			desc += fmt.Sprintf(" k%d=%x", ki, v)
		}
	}
	e.model[ai] = m
	e.logf("%s", desc)
	e.fixture(e.f.Adb.SaveAccount(ua), "SaveAccount")
	e.ops = append(e.ops, flags)
	e.opAddr = append(e.opAddr, ai)
	h.shadow = verifC06Model{0: m}.clone()[0]
	e.held[ai] = h
	e.c.Class("op-save")
	e.classifyRefDrop(before, "save")
	e.afterStep(desc)
}

func (e *verifC06Env) opRemove() {
	ai := rapid.IntRange(0, len(e.addrs)-1).Draw(e.rt, "acc")
	if _, ok := e.model[ai]; !ok && rapid.IntRange(0, 4).Draw(e.rt, "retarget") != 0 {
		// mostly aim at an existing account (lowest index at or after the drawn one, cyclically)
		for d := 0; d < len(e.addrs); d++ {
			if _, ok2 := e.model[(ai+d)%len(e.addrs)]; ok2 {
				ai = (ai + d) % len(e.addrs)
				break
			}
		}
	}
	_, exists := e.model[ai]
	var obsBefore []string
	var rootBefore []byte
	if exists && e.mode == "C06" {
		obsBefore, rootBefore = e.observe()
	}
	jl := e.f.Adb.JournalLen()
	delete(e.held, ai) // whatever the outcome, a held instance of this address is not used any more
	err := e.f.Adb.RemoveAccount(e.addrs[ai])
	if !exists {
		e.c.Class("op-remove-absent")
		if err == nil {
			e.rt.Fatalf("fixture: RemoveAccount of an absent account returned no error")
		}
		return
	}
	if err != nil {
		// RemoveAccount refuses (e.g. "hash not found" for an account whose data trie has not been
		// committed yet) after having journalled part of its work. The production caller
		// (scProcessor.deleteAccounts -> ProcessIfError) reverts to the snapshot it took before:
		// do the same and require the exact previous state.
		e.c.Class("op-remove-rejected")
		e.logf("remove a%d rejected (%v), revert to len %d", ai, err, jl)
		if rerr := e.f.Adb.RevertToSnapshot(jl); rerr != nil {
			if e.mode == "C06" {
				e.c.Violation("C06:revert-error", "RevertToSnapshot(%d) after a rejected removal failed: %v [%s]", jl, rerr, e.traceText())
			}
			e.fixture(rerr, "RevertToSnapshot")
		}
		if jl == 0 { // revert to zero recreates the committed state (pending imports included) and drops the journal
			e.stack = nil
			e.ops = nil
			e.opAddr = nil
			e.held = map[int]*verifC06Held{}
			e.model = e.committed.clone()
			e.importsPending = false
			obsBefore, rootBefore = e.commitObs, e.commitRoot
		}
		e.checkRestored(obsBefore, rootBefore, fmt.Sprintf("RevertToSnapshot(%d) following a rejected RemoveAccount", jl), "rejected-remove")
		e.afterStep("revert of rejected remove")
		return
	}
	before := e.refCounts()
	delete(e.model, ai)
	e.removedSinceCommit[ai] = true
	e.ops = append(e.ops, verifC06OpFlags{createRemove: true})
	e.opAddr = append(e.opAddr, ai)
	e.logf("remove a%d", ai)
	e.c.Class("op-remove")
	e.classifyRefDrop(before, "remove")
	e.afterStep("remove")
}

// opImport writes a plain account (no code, no storage) at an address that holds none with AccountsDB.ImportAccount,
// the entry point of the hardfork state import (update/genesis stateImport.unMarshalAndSaveAccount): it stores the
// account record in the main trie without journalling. Like there, it is used only while the journal is empty (before
// any SaveAccount/RemoveAccount of the block/import). The journal cannot undo an import, so no journal length is
// recorded while imports are pending; the two defined continuations are Commit (the import becomes part of the
// committed state) and RevertToSnapshot(0), which must bring back the last committed state.
func (e *verifC06Env) opImport() {
	if e.f.Adb.JournalLen() != 0 {
		e.opMutateSave()
		return
	}
	ai := rapid.IntRange(0, len(e.addrs)-1).Draw(e.rt, "acc")
	found := false
	for d := 0; d < len(e.addrs); d++ {
		if _, ok := e.model[(ai+d)%len(e.addrs)]; !ok {
			ai, found = (ai+d)%len(e.addrs), true
			break
		}
	}
	if !found {
		e.opMutateSave()
		return
	}
	acc, err := state.NewUserAccount(verifSAClone(e.addrs[ai]))
	e.fixture(err, "NewUserAccount")
	nonce := uint64(rapid.IntRange(0, 5).Draw(e.rt, "importNonce"))
	bal := new(big.Int).SetBytes(verifSAGenBytes(e.rt, 0, 10, "importBalance"))
	acc.IncreaseNonce(nonce)
	e.fixture(acc.AddToBalance(bal), "AddToBalance")
	e.logf("import a%d nonce=%d bal=%s", ai, nonce, bal.String())
	e.fixture(e.f.Adb.ImportAccount(acc), "ImportAccount")
	e.model[ai] = &verifC06Acc{nonce: nonce, balance: bal, devReward: big.NewInt(0), storage: map[string][]byte{}}
	delete(e.held, ai)
	e.importsPending = true
	e.c.Class("op-import")
	e.afterStep("import")
}

func (e *verifC06Env) opSnapshot() {
	if e.importsPending {
		e.c.Class("op-snapshot-skipped-imports-pending")
		return
	}
	obs, root := e.observe()
	e.sanity(obs, "snapshot")
	jl := e.f.Adb.JournalLen()
	e.stack = append(e.stack, verifC06Snap{journalLen: jl, model: e.model.clone(), root: root, obs: obs, opIndex: len(e.ops)})
	e.logf("snapshot#%d(len %d)", len(e.stack)-1, jl)
	e.c.Class("op-snapshot")
}

func (e *verifC06Env) opRevert() {
	if len(e.stack) == 0 {
		e.opSnapshot()
		return
	}
	si := rapid.IntRange(0, len(e.stack)-1).Draw(e.rt, "snapshotIndex")
	s := e.stack[si]
	var undone verifC06OpFlags
	for _, f := range e.ops[s.opIndex:] {
		undone.storage = undone.storage || f.storage
		undone.sharedCode = undone.sharedCode || f.sharedCode
		undone.createRemove = undone.createRemove || f.createRemove
	}
	before := e.refCounts()
	e.logf("revert to snapshot#%d(len %d)", si, s.journalLen)
	err := e.f.Adb.RevertToSnapshot(s.journalLen)
	if err != nil {
		if e.mode == "C06" {
			e.c.Violation("C06:revert-error", "RevertToSnapshot(%d) failed: %v [%s]", s.journalLen, err, e.traceText())
		}
		e.fixture(err, "RevertToSnapshot")
	}
	e.model = s.model.clone()
	e.stack = e.stack[:si+1]
	e.ops = e.ops[:s.opIndex]
	e.opAddr = e.opAddr[:s.opIndex]
	if s.journalLen == 0 {
		// RevertToSnapshot(0) recreates the tries from storage without running the journal: instances loaded
		// before are detached from the new tries
		e.held = map[int]*verifC06Held{}
		e.importsPending = false
	} else {
		e.dropHeldAfterRevert(s.opIndex)
	}
	e.c.Class("op-revert")
	{
		if undone.storage {
			e.c.Class("revert-undoes-storage")
		}
		if undone.sharedCode {
			e.c.Class("revert-undoes-shared-code")
		}
		if undone.createRemove {
			e.c.Class("revert-undoes-create-remove")
		}
	}
	if e.mode == "C06" && undone.storage && undone.sharedCode && undone.createRemove {
		e.nonTrivial = true
	}
	e.classifyRefDrop(before, "revert")
	e.checkRestored(s.obs, s.root, fmt.Sprintf("RevertToSnapshot(%d)", s.journalLen), "snapshot")
	e.afterStep("revert")
}

func (e *verifC06Env) checkRestored(wantObs []string, wantRoot []byte, what, slug string) {
	if e.mode != "C06" {
		return
	}
	obs, root, err := e.tryObserve()
	if err != nil {
		e.c.Violation("C06:"+slug+":state-unreadable", "after %s the state cannot be read: %v [%s]", what, err, e.traceText())
	}
	if d := verifC06Diff(wantObs, obs); d != "" {
		e.c.Violation("C06:"+slug+":account-state-differs", "after %s: %s [%s]", what, d, e.traceText())
	}
	if !bytes.Equal(root, wantRoot) {
		e.c.Violation("C06:"+slug+":root-hash-differs", "after %s the state root is %x, it was %x when the journal length was recorded (all account fields read equal) [%s]", what, root, wantRoot, e.traceText())
	}
}

func (e *verifC06Env) opCommit() {
	e.logf("commit")
	root, err := e.f.Adb.Commit()
	e.fixture(err, "Commit")
	e.stack = nil
	e.ops = nil
	e.committed = e.model.clone()
	e.removedSinceCommit = map[int]bool{}
	e.importsPending = false
	e.opAddr = nil
	e.held = map[int]*verifC06Held{} // Commit drops the data-trie cache: callers load accounts again
	e.c.Class("op-commit")
	obs, r2 := e.observe()
	e.sanity(obs, "commit")
	if !bytes.Equal(root, r2) {
		e.rt.Fatalf("fixture: Commit returned %x, RootHash says %x", root, r2)
	}
	e.commitObs, e.commitRoot = obs, r2
	e.commits = append(e.commits, verifC06Commit{root: r2, model: e.model.clone(), obs: obs})
	e.checkCodeEntries("commit")
	e.checkLeavesAfterCommit(root)
}

// opRollback moves the accounts database to the root of an earlier Commit of the case with RecreateTrie, the way a
// block rollback does (baseBootstrap.rollBackOneBlock -> blockProcessor.RevertStateToBlock(prevHeader) ->
// accountsDB.RecreateTrie(prevHeader.GetRootHash()); storage bootstrap and the node API do the same with other
// headers). The callers require nothing of the journal (RecreateTrie drops it together with the data-trie cache) and
// go on processing on top of that state; RevertAccountState/RevertCurrentBlock later use RevertToSnapshot(0) to come
// back to it. From here on that commit is "the last committed state". Every committed root of the case is still in
// storage: the harness never calls PruneTrie.
func (e *verifC06Env) opRollback() {
	if len(e.commits) == 0 {
		e.opCommit()
		return
	}
	ci := rapid.IntRange(0, len(e.commits)-1).Draw(e.rt, "rollbackTo")
	if len(e.commits) > 1 && rapid.IntRange(0, 3).Draw(e.rt, "rollbackOlder") != 0 {
		ci = rapid.IntRange(0, len(e.commits)-2).Draw(e.rt, "rollbackToOlder") // a real rollback: not the newest commit
	}
	cm := e.commits[ci]
	before := e.refCounts()
	e.logf("rollback to commit#%d", ci)
	e.fixture(e.f.Adb.RecreateTrie(cm.root), "RecreateTrie")
	if ci == len(e.commits)-1 && bytes.Equal(cm.root, e.commitRoot) {
		e.c.Class("op-rollback-to-current-commit")
	} else {
		e.c.Class("op-rollback-to-other-commit")
	}
	e.model = cm.model.clone()
	e.committed = cm.model.clone()
	e.commitObs, e.commitRoot = cm.obs, cm.root
	e.stack = nil
	e.ops = nil
	e.opAddr = nil
	e.held = map[int]*verifC06Held{}
	e.removedSinceCommit = map[int]bool{}
	e.importsPending = false
	e.classifyRefDrop(before, "rollback")
	e.afterStep("rollback")
}

func (e *verifC06Env) opRevertZero() {
	var undone verifC06OpFlags
	for _, f := range e.ops {
		undone.storage = undone.storage || f.storage
		undone.sharedCode = undone.sharedCode || f.sharedCode
		undone.createRemove = undone.createRemove || f.createRemove
	}
	before := e.refCounts()
	e.logf("revert to 0")
	err := e.f.Adb.RevertToSnapshot(0)
	if err != nil {
		if e.mode == "C06" {
			e.c.Violation("C06:revert-error", "RevertToSnapshot(0) failed: %v [%s]", err, e.traceText())
		}
		e.fixture(err, "RevertToSnapshot(0)")
	}
	e.model = e.committed.clone()
	e.stack = nil
	e.ops = nil
	e.opAddr = nil
	e.held = map[int]*verifC06Held{}
	e.removedSinceCommit = map[int]bool{}
	e.importsPending = false
	e.c.Class("op-revert-zero")
	if e.mode == "C06" && undone.storage && undone.sharedCode && undone.createRemove {
		e.nonTrivial = true
	}
	e.classifyRefDrop(before, "revert")
	e.checkRestored(e.commitObs, e.commitRoot, "RevertToSnapshot(0)", "zero")
	e.afterStep("revert to 0")
}

func (e *verifC06Env) afterStep(after string) {
	e.checkCodeEntries(after)
	obs, _ := e.observe()
	e.sanity(obs, after)
}

func verifC06Program(rt *rapid.T, c *kit.Case, mode string) {
	cfg := verifSAConfig{
		EwlCacheSize:      uint(rapid.IntRange(1, 100).Draw(rt, "ewlSize")),
		MaxTrieLevelInMem: uint(rapid.IntRange(1, 6).Draw(rt, "maxTrieLevel")),
		PruningBufferLen:  1000,
	}
	f, err := verifSANewFixture(cfg)
	if err != nil {
		rt.Fatalf("fixture: %v", err)
	}
	defer f.Close()
	e := &verifC06Env{rt: rt, c: c, mode: mode, f: f, model: verifC06Model{}, committed: verifC06Model{}, removedSinceCommit: map[int]bool{}, held: map[int]*verifC06Held{}}

	nAddr := rapid.IntRange(3, 6).Draw(rt, "nAddr")
	tails := []byte{0x00, 0x01, 0x10, 0x11, 0xff}
	for i := 0; i < nAddr; i++ {
		a := bytes.Repeat([]byte{rapid.Byte().Draw(rt, "addrFill")}, 32)
		a[0] = byte(i) // distinct by construction
		a[31] = rapid.SampledFrom(tails).Draw(rt, "addrTail")
		a[30] = rapid.SampledFrom(tails).Draw(rt, "addrTail2")
		e.addrs = append(e.addrs, a)
	}
	nKeys := rapid.IntRange(2, 6).Draw(rt, "nKeys")
	for i := 0; i < nKeys; i++ {
		k := []byte{byte(i)} // distinct by construction; shared trailing bytes give shared trie paths
		k = append(k, rapid.SliceOfN(rapid.SampledFrom(tails), 0, 3).Draw(rt, "keyTail")...)
		e.keys = append(e.keys, verifSAClone(k))
	}
	for i := 0; i < 3; i++ {
		code := append([]byte{byte(0xc0 + i)}, verifSAGenBytes(rt, 0, 6, "code")...)
		e.codes = append(e.codes, verifSAClone(code))
	}
	e.commitObs, e.commitRoot = e.observe()

	steps := rapid.IntRange(1, 40).Draw(rt, "steps")
	e.opSnapshot() // journal length 0 / the state at the start
	for s := 0; s < steps; s++ {
		switch op := rapid.IntRange(0, 27).Draw(rt, "op"); {
		case op < 14:
			e.opMutateSave()
		case op < 17:
			e.opRemove()
		case op < 20:
			e.opSnapshot()
		case op < 23:
			e.opRevert()
		case op < 24:
			e.opCommit()
		case op < 25:
			e.opRollback()
		case op < 27:
			e.opImport()
		default:
			e.opRevertZero()
		}
	}
	// every program ends with a revert to the oldest snapshot still valid (or to zero)
	if len(e.stack) > 0 {
		e.stack = e.stack[:1]
		e.opRevert()
	} else {
		e.opRevertZero()
	}
	if e.nonTrivial {
		c.NonTrivial(e.traceText())
		c.Sample("%s", e.traceText())
	}
}

func TestVerifC06_RevertRestoresObservation(t *testing.T) {
	kit.Run(t, "C06", kit.Budget{Quick: 2000, Thorough: 40000},
		"histories of <=40 steps over 3-6 accounts, 2-6 storage keys, 3 shared code blobs on a real AccountsDB (pruning-enabled storage manager, eviction waiting list size 1..100): load-or-reuse-held-instance, mutate, save (balance, nonce, owner, metadata, SetCode shared/nil/empty, storage writes and deletes; the instance of the previous save of an address is re-used half of the time, also after a partial journal revert), remove, snapshot (JournalLen), nested revert, commit, rollback (RecreateTrie to the root of any earlier commit of the case, which becomes the last committed state), ImportAccount of plain accounts while the journal is empty (undone only by revert to 0), revert to 0; oracle = everything observable through GetExistingAccount/RetrieveValue/GetCode/RootHash recorded when the journal length was taken equals the observation after the revert; non-trivial = one revert undoes a storage write, a change of a code shared with another account and an account creation or removal together",
		func(rt *rapid.T, c *kit.Case) { verifC06Program(rt, c, "C06") })
}

func TestVerifC07_CodeEntriesMatchReferrers(t *testing.T) {
	kit.Run(t, "C07", kit.Budget{Quick: 2000, Thorough: 40000},
		"same histories as C06 (incl. saves through the account instance the caller still holds, also after a journal revert undid its earlier save); after every step (save, remove, revert, commit, revert to 0) for each of the 3 code blobs: main-trie leaf under hash(code) exists iff >=1 model account carries it, NumReferences equals their number, bytes equal; after each commit every main-trie leaf is a live account or a referenced code entry; non-trivial = a removal or a revert takes a reference count 2->1 or 1->0",
		func(rt *rapid.T, c *kit.Case) { verifC06Program(rt, c, "C07") })
}

// Regression (minimal counterexamples found by TestVerifC06_RevertRestoresObservation on the
// unrepaired tree): an account with storage is removed and created again with a storage write inside
// one journal window; reverting to a journal length taken before the removal restores the account
// record (and the state root) but AccountsDB.dataTries still caches the data trie of the reverted
// incarnation, so reads of the restored account's storage go to the wrong trie.
//
//	scenario 1: the storage of the removed account is committed and its trie is not cached;
//	scenario 2: the storage of the removed account exists only in the cached (uncommitted) trie, which
//	            the second incarnation evicts from the cache (found after a partial repair that
//	            handled scenario 1 only).
func TestVerifC06_Regress(t *testing.T) {
	kit.Silence()
	for scenario := 1; scenario <= 2; scenario++ {
		verifC06RegressScenario(t, scenario)
	}
}

func verifC06RegressScenario(t *testing.T, scenario int) {
	if kit.IsKnown(verifC06KnownRecreate) {
		t.Logf("KNOWN key=%s: scenario %d not evaluated", verifC06KnownRecreate, scenario)
		return
	}
	f, err := verifSANewFixture(verifSAConfig{EwlCacheSize: 100, MaxTrieLevelInMem: 5, PruningBufferLen: 1000})
	if err != nil {
		t.Fatalf("fixture: %v", err)
	}
	defer f.Close()
	must := func(err error, what string) {
		if err != nil {
			t.Fatalf("fixture: scenario %d: %s: %v", scenario, what, err)
		}
	}
	write := func(addr, key, val []byte) {
		acc, err := f.Adb.LoadAccount(addr)
		must(err, "LoadAccount")
		if key != nil {
			must(acc.(state.UserAccountHandler).DataTrieTracker().SaveKeyValue(verifSAClone(key), verifSAClone(val)), "SaveKeyValue")
		}
		must(f.Adb.SaveAccount(acc), "SaveAccount")
	}
	addrA := bytes.Repeat([]byte{0xa1}, 32)
	addrB := bytes.Repeat([]byte{0xb2}, 32)
	key, val := []byte("k"), []byte("value before")
	var story string

	write(addrA, key, val)
	if scenario == 1 {
		_, err = f.Adb.Commit()
		must(err, "Commit")
		story = "a{k=v} committed; save b; n=JournalLen(); RemoveAccount(a); load a, SaveKeyValue(other,x), SaveAccount; RevertToSnapshot(n)"
	} else {
		story = "a{k=v} saved, not committed; save b; n=JournalLen(); a: delete k, SaveAccount; RemoveAccount(a); load a, SaveKeyValue(other,x), SaveAccount; RevertToSnapshot(n)"
	}
	write(addrB, nil, nil) // journal length becomes > 0
	jl := f.Adb.JournalLen()
	rootBefore, _ := f.Adb.RootHash()

	if scenario == 2 {
		write(addrA, key, nil) // the data trie becomes empty, which makes the removal acceptable
	}
	must(f.Adb.RemoveAccount(addrA), "RemoveAccount")
	write(addrA, []byte("other"), []byte("x"))

	must(f.Adb.RevertToSnapshot(jl), "RevertToSnapshot")
	rootAfter, _ := f.Adb.RootHash()
	if !bytes.Equal(rootBefore, rootAfter) {
		kit.FailPlain(t, "C06", "C06:snapshot:root-hash-differs", "%s: state root %x after the revert, %x before", story, rootAfter, rootBefore)
	}
	got, err := f.Adb.GetExistingAccount(addrA)
	if err != nil {
		kit.FailPlain(t, "C06", "C06:snapshot:state-unreadable", "%s: GetExistingAccount(a) fails: %v", story, err)
		return
	}
	v, err := got.(state.UserAccountHandler).DataTrieTracker().RetrieveValue(key)
	if err != nil || !bytes.Equal(v, val) {
		kit.FailPlain(t, "C06", "C06:snapshot:account-state-differs", "%s: a.RetrieveValue(k) = %q (err %v), want %q", story, v, err, val)
	}
}

// Plain deterministic walk through the reference-count transitions (runs in every tier).
func TestVerifC07_Regress(t *testing.T) {
	kit.Silence()
	f, err := verifSANewFixture(verifSAConfig{EwlCacheSize: 100, MaxTrieLevelInMem: 5, PruningBufferLen: 1000})
	if err != nil {
		t.Fatalf("fixture: %v", err)
	}
	defer f.Close()
	code := []byte("shared code")
	hash := f.Hasher.Compute(string(code))
	addr := func(i byte) []byte { return bytes.Repeat([]byte{i}, 32) }
	refs := func() int {
		e, err := state.GetCodeEntry(hash, f.Adb.VerifSAMainTrie(), f.Marsh)
		if err != nil {
			t.Fatalf("fixture: %v", err)
		}
		if e == nil {
			return 0
		}
		if e.NumReferences == 0 {
			return -1 // an entry with a zero counter must not exist
		}
		return int(e.NumReferences)
	}
	expect := func(want int, after string) {
		if got := refs(); got != want {
			kit.FailPlain(t, "C07", "C07:wrong-reference-count", "after %s: code entry references = %d (-1: entry with zero counter, 0: no entry), want %d", after, got, want)
		}
	}
	setCode := func(i byte, c []byte) {
		acc, err := f.Adb.LoadAccount(addr(i))
		if err != nil {
			t.Fatalf("fixture: %v", err)
		}
		acc.(state.UserAccountHandler).SetCode(c)
		if err = f.Adb.SaveAccount(acc); err != nil {
			t.Fatalf("fixture: %v", err)
		}
	}
	expect(0, "start")
	setCode(1, code)
	expect(1, "first deploy")
	setCode(2, code)
	expect(2, "second account with the same code")
	setCode(2, code)
	expect(2, "same code set again")
	if _, err = f.Adb.Commit(); err != nil {
		t.Fatalf("fixture: %v", err)
	}
	expect(2, "commit")
	setCode(3, code)
	jl := f.Adb.JournalLen()
	if err = f.Adb.RemoveAccount(addr(1)); err != nil {
		t.Fatalf("fixture: %v", err)
	}
	expect(2, "third deploy and removal of the first account")
	setCode(2, nil)
	expect(1, "code of the second account cleared")
	setCode(3, []byte("other"))
	expect(0, "last referrer changes its code")
	if err = f.Adb.RevertToSnapshot(jl); err != nil {
		t.Fatalf("fixture: %v", err)
	}
	expect(3, "revert to before the removal")
	if err = f.Adb.RevertToSnapshot(0); err != nil {
		t.Fatalf("fixture: %v", err)
	}
	expect(2, "revert to the committed state")
}
