package state_test

import (
	"fmt"

	"github.com/ElrondNetwork/elrond-go/data"
	"strings"
	"testing"
	"time"

	kit "github.com/ElrondNetwork/elrond-go/verifkit"
	"pgregory.net/rapid"
)

// C10: a snapshot or checkpoint taken for a state root contains every node of the main trie and of
// every account data trie reachable from that root, so the state can be recreated from the snapshot
// alone - even while commits and pruning continue concurrently.
//
// A case builds a state with the block simulator (fixture "AF", pruning queue 0..2), then runs 1-3
// rounds: request SnapshotState(root) or SetStateCheckpoint(root) for a live root, then - without
// waiting - a burst of finalize / rollback / block events (the prune and commit traffic that the
// block processor produces right after the request, metablock.go:1354-1385), then wait until the
// snapshot goroutines are done (poll; a timeout is a fixture failure = inconclusive, never a
// violation), then open the snapshot database that GetSnapshotThatContainsHash(root) returns (what
// patriciaMerkleTrie.recreateFromSnapshotDb does in production) and rebuild the state from that
// database alone with verifSBReadRoot; it must equal the model recorded when root was committed.
// For checkpoints the database is the last snapshot database, i.e. previous snapshot + checkpoint
// writes.

const verifC10WaitTimeout = 60 * time.Second

const verifC10LevelDBDelay = 1 // seconds; production 2. 0 would make the batch timer spin, and SerialDB.Get can miss a key whose batch has been swapped out but not yet queued for writing

// Known-finding class: commitCheckpoint removes every hash it writes from ALL entries of the checkpoint
// hashes holder, trusting the snapshot database it wrote to. When SnapshotState later opens a new
// database for a root S, the holder entries of the commits after S are kept (RemoveCommitted(S)) - minus
// the hashes that an earlier checkpoint already wrote into the previous database: nodes of a
// checkpointed root newer than S, or nodes of an older checkpointed root that a commit after S created
// again (same hash). The next checkpoint finds those nodes neither in the holder nor in the new
// database, so the new database cannot rebuild the checkpointed root. A SnapshotState of a root that
// such a checkpoint already put into the last database is skipped ("snapshot for rootHash already
// taken") and inherits the gap. Classification: the request is served by an existing snapshot
// database and every node missing from it belongs to a root that was checkpointed before that
// database was opened.
const verifC10KeyOlderSnapshot = "C10:checkpoint:incomplete-after-snapshot-of-older-root"

type verifC10Req struct {
	kind string // snapshot | checkpoint
	root *verifSBRoot
	tag  string
}

func verifC10Wait(rt *rapid.T, fx *verifSBFixture, wantCheckpoints uint32, hist func() string) {
	deadline := time.Now().Add(verifC10WaitTimeout)
	stable := 0
	last := uint32(0)
	for {
		n := fx.Adb.GetNumCheckpoints()
		if !fx.Tsm.IsPruningBlocked() && n >= wantCheckpoints {
			// also let checkpoints forced by Commit (not counted by the harness) finish: the counter must
			// stop moving
			if n == last {
				stable++
			} else {
				stable = 0
			}
			if stable >= 3 {
				return
			}
		} else {
			stable = 0
		}
		last = n
		if time.Now().After(deadline) {
			rt.Fatalf("fixture: snapshot/checkpoint did not complete within %v (blocked=%v checkpoints=%d want>=%d); history: %s",
				verifC10WaitTimeout, fx.Tsm.IsPruningBlocked(), n, wantCheckpoints, hist())
		}
		time.Sleep(200 * time.Microsecond)
	}
}

func verifC10Run(rt *rapid.T, c *kit.Case, snapshotDir func() string) {
	cfg := verifSBConfig{
		EwlCacheSize:      uint(rapid.IntRange(1, 100).Draw(rt, "ewlCacheSize")),
		PruningBufferLen:  1000,
		MaxTrieLevelInMem: uint(rapid.IntRange(1, 6).Draw(rt, "maxTrieLevelInMem")),
		MaxSnapshots:      2,
	}
	smallHolder := rapid.IntRange(0, 4).Draw(rt, "smallCheckpointHolder") == 0
	if smallHolder {
		// Commit forces a checkpoint of the new root when the holder is full
		cfg.CheckpointMaxSize = uint64(rapid.IntRange(300, 6000).Draw(rt, "checkpointHolderBytes"))
		c.Class("small-checkpoint-holder")
	}
	if snapshotDir != nil && rapid.IntRange(0, 29).Draw(rt, "levelDBSnapshots") == 0 {
		// "LvlDBSerial" is the persister type of [TrieSnapshotDB] in the shipped config.toml. (The plain
		// "LvlDB" type loses writes: leveldb.DB.Put adds to the batch outside the lock under which
		// batchTimeoutHandle writes and resets the batch - found with this harness, see the C10 report and
		// notes/fixes/C10-leveldb-put-lost-during-batch-flush.patch; no shipped configuration uses it.)
		cfg.SnapshotDBType = "LvlDBSerial"
		cfg.SnapshotBatchSecs = verifC10LevelDBDelay
		cfg.SnapshotPath = snapshotDir()
		c.Class("leveldb-snapshots")
	}
	fx, err := verifSBNewFixture(cfg)
	if err != nil {
		rt.Fatalf("fixture: %v", err)
	}
	defer fx.Close()

	qsize := rapid.IntRange(0, 2).Draw(rt, "pruningQueueSize")
	s := verifSBNewSim(verifSBRapidReporter{rt: rt, c: c}, fx, verifSBNewGen(rt, 4, 30), qsize, false)
	s.asyncBlocking = true

	// state of 3..30 accounts, about a third with data tries of 1..7 keys
	genesis := verifSBBlock{{Ops: []verifSBOp{{Kind: "touch", Addr: 0, DNonce: 0, DBal: 100}}}}
	nGen := rapid.IntRange(2, len(s.g.Addrs)-1).Draw(rt, "genesisAccounts")
	for i := 1; i <= nGen; i++ {
		content := &verifSBAcc{Nonce: uint64(i % 3), Balance: int64(10 * i), Storage: map[string]string{}}
		if rapid.IntRange(0, 1).Draw(rt, "withStorage") == 0 {
			content = s.g.genContent(rt, true)
		}
		genesis = append(genesis, verifSBTx{Ops: []verifSBOp{{Kind: "create", Addr: i, Content: content}}})
	}
	s.execBlock(genesis, "genesis")

	explicitRequests := uint32(0)
	base := fx.Adb.GetNumCheckpoints()
	forcedSeen := uint32(0)                   // checkpoints forced by Commit (holder full), detected through the counter
	lastSnapshotSeq := -1                     // root of the last snapshot
	var lastSnapshotDB data.SnapshotDbHandler // the newest snapshot database
	ckptHashes := map[string]struct{}{}       // node hashes of every root checkpointed so far
	staleCkptHashes := map[string]struct{}{}  // ... of those checkpointed before the newest database was opened
	noteForced := func() {
		// called when the system is quiet: the counter tells whether some Commit since the last call forced a
		// checkpoint; which root it was is not observable, so every known root counts (upper bound)
		// With a small holder every Commit may have forced one - the counter is only used for the statistics,
		// because it moves late when the snapshot databases have a batch delay.
		n := fx.Adb.GetNumCheckpoints() - base - explicitRequests
		if n > forcedSeen {
			forcedSeen = n
			c.Class("checkpoint-forced-by-commit")
		}
		if smallHolder || n > 0 {
			for _, r := range s.known {
				for h := range r.hashes {
					ckptHashes[h] = struct{}{}
				}
			}
		}
	}
	rounds := rapid.IntRange(1, 4).Draw(rt, "rounds")
	nonTrivial := false
	for round := 0; round < rounds; round++ {
		// blocks before the request: some final, some not (those can be finalized or rolled back in the burst)
		for i, n := 0, rapid.IntRange(1, 4).Draw(rt, "blocksBefore"); i < n; i++ {
			if s.unfinalized() < 4 {
				// one block in four changes nothing: baseProcessor.commitAll (baseProcess.go:1127) calls
				// AccountsDB.Commit for every block, also for blocks without transactions, so the same root is
				// committed again (and registered again in the checkpoint hashes holder)
				if rapid.IntRange(0, 3).Draw(rt, "emptyBlock") == 0 {
					s.execBlock(verifSBBlock{}, "emptyBlock")
					c.Class("empty-block")
				} else {
					s.execBlock(s.g.genBlock(rt, s.cur, 3), "block")
				}
			}
			if s.unfinalized() > 0 && rapid.Bool().Draw(rt, "finalizeBefore") {
				s.doFinalize()
			}
		}
		// wait for checkpoints forced by those commits, so that the request below starts from a quiet system
		verifC10Wait(rt, fx, base+explicitRequests, s.history)
		noteForced()

		// the request, as the block processor issues it:
		//   SnapshotState: root of a final block - the last final one (metaProcessor.updateState,
		//     metablock.go:1354-1357) or an older final one that is still live, i.e. still in the pruning
		//     queue (shardProcessor.snapShotEpochStartFromMeta, shardblock.go:1059-1066);
		//   SetStateCheckpoint: root of the block that just became final (updateStateStorage,
		//     baseProcess.go:1097-1101) or the root just committed (AccountsDB.Commit when the checkpoint
		//     hashes holder is full, accountsDB.go:781-786).
		// So a checkpoint root is never older than a root snapshotted before it, and snapshot roots
		// (epoch starts) advance in chain order.
		live := s.liveRoots()
		req := verifC10Req{kind: rapid.SampledFrom([]string{"snapshot", "checkpoint"}).Draw(rt, "reqKind"), root: s.chain[s.final], tag: "last-final-root"}
		if rapid.IntRange(0, 2).Draw(rt, "otherThanLastFinal") == 0 {
			if req.kind == "snapshot" && len(s.inQueue) > 0 {
				if q := live[string(rapid.SampledFrom(s.inQueue).Draw(rt, "queuedRoot"))]; q.seq >= lastSnapshotSeq {
					req.root = q
					req.tag = "queued-final-root"
				}
			}
			if req.kind == "checkpoint" && s.unfinalized() > 0 {
				req.root = s.chain[len(s.chain)-1]
				req.tag = "current-root-not-final"
			}
		}
		// precondition of the property: the root is complete in the main database when the request is
		// made. A live root that already lost nodes there is a pruning defect (C09 - its harness reports
		// it, e.g. C09:safety:live-root-unreadable after a rollback issued while a snapshot was running);
		// a snapshot of it cannot be complete and says nothing about the snapshot code: the case ends.
		if _, errPre := verifSBReadRoot(fx.MainDB, fx.Marsh, fx.Hasher, req.root.root); errPre != nil {
			c.Class("ended: request root already damaged in the main database (C09)")
			return
		}
		c.Class(req.kind + "-of-" + req.tag)
		issue := func() {
			s.logf("%s(%x %s)", req.kind, req.root.root[:2], req.tag)
			if req.kind == "snapshot" {
				lastSnapshotSeq = req.root.seq
				fx.Adb.SnapshotState(verifSBCopy(req.root.root))
			} else {
				for h := range req.root.hashes {
					ckptHashes[h] = struct{}{}
				}
				fx.Adb.SetStateCheckpoint(verifSBCopy(req.root.root))
			}
			explicitRequests++
		}

		// Fault round (1 in 5): the read of one node of the main trie of the requested root fails once in the
		// main trie database (transient storage error) while the snapshot / checkpoint runs; nothing else
		// happens meanwhile (a failing read in the block processor would be a different story). commitSnapshot
		// / commitCheckpoint abort with the error, which trieStorageManager only logs: that operation did not
		// "take" the root and is not verified. The same request is then repeated without any fault and must
		// be complete: a node must not be forgotten because an earlier attempt stumbled over it.
		// Only main-trie nodes: after a fault inside a data trie the main trie root is already in the snapshot
		// database, the repeated request is skipped ("already taken") or does not revisit the account leaf,
		// and the data trie stays incomplete also on the unchanged tree (reported to the coordinator).
		faultFired := false
		faultRound := rapid.IntRange(0, 4).Draw(rt, "faultRound") == 0
		if faultRound {
			victim := rapid.SampledFrom(req.root.main).Draw(rt, "failReadOfNode")
			fx.Flaky.Arm([]byte(victim))
			issue()
			verifC10Wait(rt, fx, base+explicitRequests, s.history)
			faultFired = fx.Flaky.Disarm()
			if faultFired {
				c.Class("transient-read-error-during-" + req.kind)
				s.logf("read of node %x failed once", victim[:2])
				for i, n := 0, rapid.IntRange(0, 2).Draw(rt, "blocksBeforeRetry"); i < n && s.unfinalized() < 5; i++ {
					s.execBlock(s.g.genBlock(rt, s.cur, 2), "block")
				}
				verifC10Wait(rt, fx, base+explicitRequests, s.history)
				issue() // the retry, fault-free
			} else {
				c.Class("transient-read-error-not-reached")
			}
		} else {
			issue()
		}

		// burst, without waiting: cheap prune calls first (they are the ones that have to land inside the
		// snapshot window), then commits
		commitsDuring, prunesDuring := 0, 0
		burstLen := rapid.IntRange(0, 8).Draw(rt, "burst")
		if faultRound {
			burstLen = 0
		}
		for i, n := 0, burstLen; i < n; i++ {
			ev := rapid.SampledFrom([]string{"finalize", "finalize", "rollback", "block", "emptyBlock"}).Draw(rt, "burstEvent")
			// the first two events are a commit and a prune call, so that both have a chance to land inside
			// the snapshot window (which is short: small states)
			if i == 0 {
				ev = "block"
			}
			if i == 1 && ev == "block" {
				ev = "finalize"
			}
			switch ev {
			case "finalize":
				if s.unfinalized() == 0 {
					continue
				}
				before := len(s.inQueue)
				s.doFinalize()
				if fx.Tsm.IsPruningBlocked() && len(s.inQueue) <= before {
					prunesDuring++ // a root left the queue => CancelPrune+PruneTrie were issued, and the snapshot was still running afterwards
				}
			case "emptyBlock":
				if s.unfinalized() >= 5 {
					continue
				}
				s.execBlock(verifSBBlock{}, "emptyBlock")
				c.Class("empty-block")
			case "rollback":
				if s.unfinalized() == 0 {
					continue
				}
				s.doRollback()
				if fx.Tsm.IsPruningBlocked() {
					prunesDuring++
				}
			default:
				if s.unfinalized() >= 5 {
					continue
				}
				s.execBlock(s.g.genBlock(rt, s.cur, 2), "block")
				if fx.Tsm.IsPruningBlocked() {
					commitsDuring++
				}
			}
		}
		if prunesDuring > 0 {
			c.Class("prune-call-while-snapshot-running")
		}
		if commitsDuring > 0 {
			c.Class("commit-while-snapshot-running")
		}

		verifC10Wait(rt, fx, base+explicitRequests, s.history)
		noteForced()

		// oracle
		sdb := fx.Tsm.GetSnapshotThatContainsHash(req.root.root)
		servedByExistingDB := req.kind == "checkpoint" // checkpoints are written into the newest snapshot database
		if req.kind == "checkpoint" && sdb != nil && lastSnapshotDB == nil {
			lastSnapshotDB = sdb // no snapshot yet: the checkpoint opened the first database
		}
		if req.kind == "snapshot" && sdb != nil {
			if sdb == lastSnapshotDB {
				// takeSnapshot found the root in the newest database (an earlier checkpoint put it there) and did
				// nothing ("snapshot for rootHash already taken")
				servedByExistingDB = true
				c.Class("snapshot-served-by-existing-database")
			} else {
				lastSnapshotDB = sdb
				staleCkptHashes = make(map[string]struct{}, len(ckptHashes))
				for h := range ckptHashes {
					staleCkptHashes[h] = struct{}{}
				}
			}
		}
		// key of a failure: the known class iff an existing database served the request and every missing
		// node belongs to a root checkpointed before that database was opened
		key := func(suffix string) string {
			normal := "C10:" + req.kind + ":" + suffix
			if faultFired {
				normal = "C10:" + req.kind + "-after-transient-read-error:" + suffix
			}
			if !servedByExistingDB || len(staleCkptHashes) == 0 {
				return normal
			}
			missing := 0
			for h := range req.root.hashes {
				if sdb != nil {
					if _, errGet := sdb.Get([]byte(h)); errGet == nil {
						continue
					}
				}
				missing++
				if _, ok := staleCkptHashes[h]; !ok {
					return normal
				}
			}
			if missing == 0 {
				return normal
			}
			return verifC10KeyOlderSnapshot
		}
		if sdb == nil {
			c.Violation(key("root-not-in-any-snapshot"), "%s of %s %x finished but no snapshot database contains the root; history: %s",
				req.kind, req.tag, req.root.root[:4], s.history())
		}
		read, errRead := verifSBReadRoot(sdb, fx.Marsh, fx.Hasher, req.root.root)
		if errRead != nil {
			if strings.HasPrefix(errRead.Error(), "fixture:") {
				rt.Fatalf("%v", errRead)
			}
			_, errMain := verifSBReadRoot(fx.MainDB, fx.Marsh, fx.Hasher, req.root.root)
			k := key("incomplete")
			sdb.DecreaseNumReferences()
			c.Violation(k, "%s of %s %x: the state cannot be rebuilt from the snapshot database alone: %v (same root read from the main database now: %v); history: %s",
				req.kind, req.tag, req.root.root[:4], errRead, errMain, s.history())
		}
		sdb.DecreaseNumReferences()
		if d := verifSBDiff(req.root.model, read.State); d != "" {
			c.Violation("C10:"+req.kind+":content", "%s of %s %x: state rebuilt from the snapshot database differs from the model: %s; history: %s",
				req.kind, req.tag, req.root.root[:4], d, s.history())
		}
		if (commitsDuring > 0 && prunesDuring > 0 || faultFired) && req.root.model.numDataTries() >= 2 {
			nonTrivial = true
		}
	}
	if nonTrivial {
		c.NonTrivial(s.history())
		c.Sample("%s", s.history())
	}
	c.Class(fmt.Sprintf("rounds-%d", rounds))
}

func TestVerifC10_SnapshotsAndCheckpoints(t *testing.T) {
	var dirFn func() string
	if kit.Thorough() {
		dirFn = func() string { return t.TempDir() }
	}
	kit.Run(t, "C10", kit.Budget{Quick: 250, Thorough: 1500},
		"state of 3-30 accounts (about 1/3 with data tries of 1-7 keys) built by the block simulator (pruning queue 0..2, eviction list cache 1..100, checkpoint hashes holder large or 300..6000 bytes, snapshot DBs in memory, thorough also LevelDB); 1-3 rounds of: 0-4 blocks (some final), SnapshotState/SetStateCheckpoint of a live root (last final / queued / not final), immediately 0-6 finalize/rollback/block events, wait (poll, timeout = inconclusive), rebuild the state from the snapshot database returned by GetSnapshotThatContainsHash(root) alone and compare with the model of root. one block in four is empty (the same root is committed again). 1 round in 5 is a fault round instead: the read of one main-trie node of the requested root fails once in the main database while the operation runs (no other events), the operation is not verified, the same request is repeated fault-free (after 0-2 blocks) and must be complete. non-trivial = a verified round with >=2 data tries in the snapshotted state and either >=1 commit and >=1 prune call issued while the snapshot was still running, or a fault that fired; distinct by event history",
		func(rt *rapid.T, c *kit.Case) { verifC10Run(rt, c, dirFn) })
}

// TestVerifC10Race_SnapshotsAndCheckpoints runs the same generated programs in a binary built with
// -race (second target of props/C10.json): the snapshot goroutines, the storage loop, commits and
// prune calls of the harness thread share the trie database, the checkpoint hashes holder, the
// eviction waiting list and the snapshot list. All goroutines of a case are awaited (verifC10Wait)
// before the case ends.
func TestVerifC10Race_SnapshotsAndCheckpoints(t *testing.T) {
	kit.Run(t, "C10", kit.Budget{Quick: 40, Thorough: 400},
		"same generator and oracle as TestVerifC10_SnapshotsAndCheckpoints, run under the race detector (smaller budget)",
		func(rt *rapid.T, c *kit.Case) { verifC10Run(rt, c, nil) })
}

// ---------------------------------------------------------------------------------------------
// scripted histories (run in every tier)

func verifC10PlainWait(t *testing.T, fx *verifSBFixture, want uint32) {
	deadline := time.Now().Add(verifC10WaitTimeout)
	for fx.Tsm.IsPruningBlocked() || fx.Adb.GetNumCheckpoints() < want {
		if time.Now().After(deadline) {
			t.Fatalf("fixture: snapshot/checkpoint did not complete within %v", verifC10WaitTimeout)
		}
		time.Sleep(200 * time.Microsecond)
	}
}

func verifC10PlainVerify(t *testing.T, fx *verifSBFixture, what string, r *verifSBRoot, hist string) {
	verifC10PlainVerifyKey(t, fx, what, "", r, hist)
}

// verifC10PlainVerifyKey: fixedKey != "" reports every failure under that (known-finding) key.
func verifC10PlainVerifyKey(t *testing.T, fx *verifSBFixture, what string, fixedKey string, r *verifSBRoot, hist string) {
	key := func(suffix string) string {
		if fixedKey != "" {
			return fixedKey
		}
		return "C10:" + what + ":" + suffix
	}
	sdb := fx.Tsm.GetSnapshotThatContainsHash(r.root)
	if sdb == nil {
		kit.FailPlain(t, "C10", key("root-not-in-any-snapshot"), "%s of %x finished but no snapshot database contains the root; history: %s", what, r.root[:4], hist)
		return
	}
	read, err := verifSBReadRoot(sdb, fx.Marsh, fx.Hasher, r.root)
	sdb.DecreaseNumReferences()
	if err != nil {
		kit.FailPlain(t, "C10", key("incomplete"), "%s of %x: the state cannot be rebuilt from the snapshot database alone: %v; history: %s", what, r.root[:4], err, hist)
		return
	}
	if d := verifSBDiff(r.model, read.State); d != "" {
		kit.FailPlain(t, "C10", key("content"), "%s of %x: %s; history: %s", what, r.root[:4], d, hist)
	}
}

// TestVerifC10_Regress: quiescent snapshot and checkpoint with data tries; then the sequence
// checkpoint(B), snapshot(A) with A an older final root that is still in the pruning queue,
// checkpoint(C): the second checkpoint goes to the database of snapshot A.
func TestVerifC10_Regress(t *testing.T) {
	kit.Silence()
	fx, err := verifSBNewFixture(verifSBConfig{EwlCacheSize: 100, PruningBufferLen: 1000, MaxTrieLevelInMem: 5, MaxSnapshots: 2})
	if err != nil {
		t.Fatalf("fixture: %v", err)
	}
	defer fx.Close()
	s := verifSBNewSim(verifSBPlainReporter{t: t, pid: "C10"}, fx, verifC10ScriptedGen(), 2, false)
	s.asyncBlocking = true
	tx := func(ops ...verifSBOp) verifSBTx { return verifSBTx{Ops: ops} }
	bump := tx(verifSBOp{Kind: "touch", Addr: 0, DNonce: 1, DBal: 1})
	s.execBlock(verifSBBlock{
		tx(verifSBOp{Kind: "touch", Addr: 0, DBal: 100}),
		tx(verifSBOp{Kind: "create", Addr: 1, Content: &verifSBAcc{Balance: 5, Storage: map[string]string{"a": "v1", "b": "v1"}}}),
		tx(verifSBOp{Kind: "create", Addr: 2, Content: &verifSBAcc{Balance: 6, Storage: map[string]string{"a": "v2"}}}),
		tx(verifSBOp{Kind: "create", Addr: 3, Content: &verifSBAcc{Balance: 7, Storage: map[string]string{}}}),
	}, "genesis")
	n := fx.Adb.GetNumCheckpoints()

	s.execBlock(verifSBBlock{bump, tx(verifSBOp{Kind: "sstore", Addr: 1, Key: "a", Val: "v2"})}, "block")
	s.doFinalize()
	rootA := s.chain[s.final]
	s.execBlock(verifSBBlock{bump, tx(verifSBOp{Kind: "sstore", Addr: 2, Key: "b", Val: "v1"})}, "block")
	s.doFinalize()
	rootB := s.chain[s.final]

	s.logf("checkpoint(B)")
	fx.Adb.SetStateCheckpoint(verifSBCopy(rootB.root))
	n++
	verifC10PlainWait(t, fx, n)
	verifC10PlainVerify(t, fx, "checkpoint", rootB, s.history())

	s.logf("snapshot(A)")
	fx.Adb.SnapshotState(verifSBCopy(rootA.root))
	n++
	verifC10PlainWait(t, fx, n)
	verifC10PlainVerify(t, fx, "snapshot", rootA, s.history())

	s.execBlock(verifSBBlock{bump}, "block")
	s.doFinalize()
	rootC := s.chain[s.final]
	s.logf("checkpoint(C)")
	fx.Adb.SetStateCheckpoint(verifSBCopy(rootC.root))
	n++
	verifC10PlainWait(t, fx, n)
	verifC10PlainVerifyKey(t, fx, "checkpoint", verifC10KeyOlderSnapshot, rootC, s.history())
}

func verifC10ScriptedGen() *verifSBGen {
	g := &verifSBGen{History: map[int][]*verifSBAcc{}}
	for i := 0; i < 4; i++ {
		a := make([]byte, 32)
		for j := range a {
			a[j] = 0x11
		}
		a[0], a[16], a[31] = byte(i), byte(i), 0xf0
		g.Addrs = append(g.Addrs, a)
	}
	g.Keys = []string{"a", "b"}
	g.Vals = []string{"v1", "v2"}
	return g
}
