package state_test

import (
	"bytes"
	"fmt"
	"testing"

	kit "github.com/ElrondNetwork/elrond-go/verifkit"
	"pgregory.net/rapid"
)

// C09: State pruning never deletes nodes that a live state root needs; nodes that belong only to
// pruned roots are removed once pruning is unblocked.
//
// The harness drives a real AccountsDB (fixture "AF": real trie storage manager with pruning, real
// storagePruningManager, real evictionWaitingList with a small cache) with the call protocol of the
// block processor, transcribed from process/block/baseProcess.go (trusted transcription):
//
//   updateStateStorage (baseProcess.go:1085-1115), called for every block that becomes final, in
//   chain order, by shardProcessor.updateState / metaProcessor.updateState:
//       if prevRootHash == rootHash: return
//       rootHashToBePruned := statePruningQueue.Add(prevRootHash); if empty: return
//       accounts.CancelPrune(rootHashToBePruned, data.NewRoot)
//       accounts.PruneTrie(rootHashToBePruned, data.OldRoot)
//
//   rollBackOneBlock (process/sync/baseSync.go:773-777) -> RevertStateToBlock(prevHeader)
//   (shardblock.go:330: accounts.RecreateTrie(prevHeader.GetRootHash())) followed by
//   PruneStateOnRollback (baseProcess.go:1139-1154):
//       if rootHash == prevRootHash: continue
//       accounts.CancelPrune(prevRootHash, data.OldRoot)
//       accounts.PruneTrie(rootHash, data.NewRoot)
//
// statePruningQueue is the production core/queue.sliceQueue with a drawn size 0..3 (0 is the value of
// the shipped config: the root before the final one is pruned at once).

func verifC09Run(rt *rapid.T, c *kit.Case) {
	smallBuffer := rapid.IntRange(0, 2).Draw(rt, "smallPruningBuffer") == 0
	bufLen := uint32(1000)
	if smallBuffer {
		// the "buffer full, request dropped" path of pruningBuffer.Add: safety only
		bufLen = uint32(rapid.IntRange(1, 5).Draw(rt, "pruningBufferLen"))
		c.Class("small-pruning-buffer")
	}
	fx, err := verifSBNewFixture(verifSBConfig{
		EwlCacheSize:      uint(rapid.IntRange(1, 4).Draw(rt, "ewlCacheSize")),
		PruningBufferLen:  bufLen,
		MaxTrieLevelInMem: uint(rapid.IntRange(1, 6).Draw(rt, "maxTrieLevelInMem")),
		MaxSnapshots:      2,
	})
	if err != nil {
		rt.Fatalf("fixture: %v", err)
	}
	defer fx.Close()

	// rollbacks issued while pruning is blocked are the trigger of both known findings; they are allowed
	// in about 30 % of the histories only, so that most histories are checked without any exclusion
	allowBlockedRollback := rapid.IntRange(0, 9).Draw(rt, "allowBlockedRollback") < 3
	if allowBlockedRollback {
		c.Class("blocked-rollback-allowed")
	}
	qsize := rapid.IntRange(0, 3).Draw(rt, "pruningQueueSize")
	s := verifSBNewSim(verifSBRapidReporter{rt: rt, c: c}, fx, verifSBNewGen(rt, 3, 8), qsize, !smallBuffer)

	// genesis: the sender and 1-3 accounts with storage
	genesis := verifSBBlock{{Ops: []verifSBOp{{Kind: "touch", Addr: 0, DNonce: 0, DBal: 100}}}}
	nGen := rapid.IntRange(1, 3).Draw(rt, "genesisAccounts")
	for i := 1; i <= nGen && i < len(s.g.Addrs); i++ {
		genesis = append(genesis, verifSBTx{Ops: []verifSBOp{{Kind: "create", Addr: i, Content: s.g.genContent(rt, true)}}})
	}
	s.execBlock(genesis, "genesis")

	rt.Repeat(map[string]func(*rapid.T){
		"block": func(t *rapid.T) {
			if s.unfinalized() >= 5 {
				t.Skip()
			}
			s.lastRolled = nil
			s.execBlock(s.g.genBlock(t, s.cur, 3), "block")
		},
		"emptyBlock": func(t *rapid.T) {
			if rapid.IntRange(0, 3).Draw(t, "rare") != 0 || s.unfinalized() >= 5 {
				t.Skip()
			}
			s.lastRolled = nil
			s.execBlock(verifSBBlock{}, "emptyBlock")
			c.Class("empty-block")
		},
		"reapply": func(t *rapid.T) {
			// the block that was just rolled back is executed again (same transactions => same root)
			if s.lastRolled == nil || !bytes.Equal(s.lastRolled.prevRoot, s.chain[len(s.chain)-1].root) {
				t.Skip()
			}
			blk := s.lastRolled.blk
			s.lastRolled = nil
			s.execBlock(blk, "reapply")
			c.Class("reapply-rolled-back-block")
		},
		"finalize": func(t *rapid.T) {
			if s.unfinalized() == 0 {
				t.Skip()
			}
			s.doFinalize()
		},
		"finalizeAll": func(t *rapid.T) {
			// shardProcessor.updateState walks over every header that became final (shardblock.go:994-1034)
			if s.unfinalized() < 2 {
				t.Skip()
			}
			for s.unfinalized() > 0 {
				s.doFinalize()
			}
		},
		"rollback": func(t *rapid.T) {
			if s.unfinalized() == 0 || (s.blocked() && !allowBlockedRollback) {
				t.Skip()
			}
			s.doRollback()
		},
		"enterBlocking": func(t *rapid.T) {
			if s.blockDepth >= 2 {
				t.Skip()
			}
			s.doEnterBlocking()
		},
		"exitBlocking": func(t *rapid.T) {
			if s.blockDepth == 0 {
				t.Skip()
			}
			s.doExitBlocking()
		},
		"": func(t *rapid.T) { s.invariant() },
	})

	c.Class(fmt.Sprintf("queue-size-%d", qsize))
	if s.nRollback > 0 {
		c.Class("has-rollback")
	}
	if s.rollbackWhileBlocked {
		c.Class("has-rollback-while-blocked")
	}
	if s.nRollback > 0 && s.nPruneBlocked > 0 && s.nDataTrieRemoval > 0 && s.nFinalizeAfter > 0 {
		c.NonTrivial(s.history())
		c.Sample("%s", s.history())
	}
}

func TestVerifC09_PruningHistories(t *testing.T) {
	kit.Run(t, "C09", kit.Budget{Quick: 450, Thorough: 4000, Steps: 32},
		"histories of ~32 events (block with 1-3 txs incl. reverted txs / empty block / re-applied rolled-back block / finalize / rollback / enter+exit pruning-blocked mode) over 3-8 accounts with data tries, pruning queue 0..3, eviction-waiting-list cache 1..4, pruning buffer 1000 (completeness checked) or 1..5 (safety only); after every event every live root is rebuilt from the database alone and compared with the model; after every PruneTrie issued while unblocked every node owned only by pruned roots must be gone. non-trivial = >=1 rollback, >=1 prune issued while blocked, >=1 removal of an account with a data trie, and a finalize after them; distinct by event history",
		verifC09Run)
}

// ---------------------------------------------------------------------------------------------
// scripted histories (run in every tier)

func verifC09ScriptedGen() *verifSBGen {
	g := &verifSBGen{History: map[int][]*verifSBAcc{}}
	for i := 0; i < 4; i++ {
		a := bytes.Repeat([]byte{0x11}, 32)
		a[0], a[16], a[31] = byte(i), byte(i), 0xf0
		g.Addrs = append(g.Addrs, a)
	}
	g.Keys = []string{"a", "b"}
	g.Vals = []string{"v1", "v2"}
	return g
}

func verifC09Tx(ops ...verifSBOp) verifSBTx { return verifSBTx{Ops: ops} }

func verifC09Bump() verifSBTx {
	return verifC09Tx(verifSBOp{Kind: "touch", Addr: 0, DNonce: 1, DBal: 1})
}

// verifC09Scripted runs: genesis; [enterBlocking]; block B1; rollback B1; [exitBlocking]; block B2;
// finalize B2 (queue size 0: prunes the genesis root with pruning not blocked, which also executes
// the buffered requests). The oracles report through kit.FailPlain.
func verifC09Scripted(t *testing.T, blocked bool, reapply bool) {
	fx, err := verifSBNewFixture(verifSBConfig{EwlCacheSize: 100, PruningBufferLen: 1000, MaxTrieLevelInMem: 5, MaxSnapshots: 2})
	if err != nil {
		t.Fatalf("fixture: %v", err)
	}
	defer fx.Close()
	s := verifSBNewSim(verifSBPlainReporter{t: t, pid: "C09"}, fx, verifC09ScriptedGen(), 0, true)
	s.execBlock(verifSBBlock{
		verifC09Tx(verifSBOp{Kind: "touch", Addr: 0, DBal: 100}),
		verifC09Tx(verifSBOp{Kind: "create", Addr: 1, Content: &verifSBAcc{Balance: 5, Storage: map[string]string{"a": "v1"}}}),
	}, "genesis")
	s.invariant()
	if blocked {
		s.doEnterBlocking()
	}
	b1 := verifSBBlock{verifC09Bump(), verifC09Tx(verifSBOp{Kind: "sstore", Addr: 1, Key: "b", Val: "v2"})}
	s.execBlock(b1, "block")
	s.invariant()
	s.doRollback()
	s.invariant()
	if blocked {
		s.doExitBlocking()
	}
	b2 := verifSBBlock{verifC09Bump(), verifC09Tx(verifSBOp{Kind: "create", Addr: 2, Content: &verifSBAcc{Balance: 7, Storage: map[string]string{}}})}
	if reapply {
		b2 = b1
	}
	s.execBlock(b2, "block")
	s.invariant()
	s.doFinalize()
	s.invariant()
}

// verifC09ScriptedStaleCancel is the hand-minimised history of the known finding
// verifSBKeyStaleCancel (11 events after genesis, pruning queue size 0):
//
//	genesis G (a0, a1, a2 with a data trie); block -> X; finalize (G pruned, X = last final root)
//	EnterPruningBufferingMode; block -> S; rollback S->X  (CancelPrune(X, OldRoot) is buffered)
//	ExitPruningBufferingMode
//	block that removes a2 -> T        (Commit re-creates the X|Old entry: root path, leaf and data trie of a2)
//	block -> U; rollback U->T         (PruneTrie with pruning not blocked executes the buffer: the stale
//	                                   cancel evicts the fresh X|Old entry)
//	block that creates a2 again, identical -> V; rollback V->T
//	                                  (PruneTrie(V, NewRoot) finds nobody claiming the leaf / data trie of
//	                                   a2 and deletes them)
//	=> X, the last final root, cannot be rebuilt any more
func verifC09ScriptedStaleCancel(t *testing.T, blocked bool) {
	fx, err := verifSBNewFixture(verifSBConfig{EwlCacheSize: 100, PruningBufferLen: 1000, MaxTrieLevelInMem: 5, MaxSnapshots: 2})
	if err != nil {
		t.Fatalf("fixture: %v", err)
	}
	defer fx.Close()
	s := verifSBNewSim(verifSBPlainReporter{t: t, pid: "C09"}, fx, verifC09ScriptedGen(), 0, true)
	a2 := &verifSBAcc{Balance: 6, Storage: map[string]string{"a": "v1", "b": "v2"}}
	s.execBlock(verifSBBlock{
		verifC09Tx(verifSBOp{Kind: "touch", Addr: 0, DBal: 100}),
		verifC09Tx(verifSBOp{Kind: "create", Addr: 1, Content: &verifSBAcc{Balance: 5, Storage: map[string]string{"a": "v1"}}}),
		verifC09Tx(verifSBOp{Kind: "create", Addr: 2, Content: a2.clone()}),
	}, "genesis")
	s.execBlock(verifSBBlock{verifC09Bump()}, "block") // X
	s.doFinalize()
	s.invariant()
	if blocked {
		s.doEnterBlocking()
	}
	s.execBlock(verifSBBlock{verifC09Bump()}, "block") // S
	s.doRollback()
	if blocked {
		s.doExitBlocking()
	}
	s.invariant()
	s.execBlock(verifSBBlock{verifC09Bump(), verifC09Tx(verifSBOp{Kind: "remove", Addr: 2})}, "block") // T
	s.execBlock(verifSBBlock{verifC09Bump()}, "block")                                                 // U
	s.doRollback()
	s.invariant()
	s.execBlock(verifSBBlock{verifC09Bump(), verifC09Tx(verifSBOp{Kind: "create", Addr: 2, Content: a2.clone()})}, "block") // V
	s.doRollback()
	s.invariant()
}

func TestVerifC09_Regress(t *testing.T) {
	kit.Silence()
	// 1. rollback with pruning not blocked: nothing is lost, nothing is left behind
	verifC09Scripted(t, false, false)
	verifC09Scripted(t, false, true)
	verifC09ScriptedStaleCancel(t, false)
	// 2. the same histories with the rollback issued while pruning is blocked: the nodes of the
	// rolled-back root stay in the database for ever (suspicion 22 of DESIGN.md, class
	// verifSBKeyBlockedRollback) ...
	verifC09Scripted(t, true, false)
	verifC09Scripted(t, true, true)
	// ... and the deferred CancelPrune(prev, OldRoot) lets a later rollback delete nodes of the last
	// final root (class verifSBKeyStaleCancel)
	verifC09ScriptedStaleCancel(t, true)
}
