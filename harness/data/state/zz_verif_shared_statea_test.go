package state_test

import (
	"github.com/ElrondNetwork/elrond-go/config"
	"github.com/ElrondNetwork/elrond-go/data"
	"github.com/ElrondNetwork/elrond-go/data/state"
	"github.com/ElrondNetwork/elrond-go/data/state/factory"
	"github.com/ElrondNetwork/elrond-go/data/state/storagePruningManager"
	"github.com/ElrondNetwork/elrond-go/data/state/storagePruningManager/evictionWaitingList"
	"github.com/ElrondNetwork/elrond-go/data/trie"
	"github.com/ElrondNetwork/elrond-go/data/trie/hashesHolder"
	"github.com/ElrondNetwork/elrond-go/hashing"
	"github.com/ElrondNetwork/elrond-go/hashing/blake2b"
	"github.com/ElrondNetwork/elrond-go/marshal"
	"github.com/ElrondNetwork/elrond-go/storage/memorydb"
	"pgregory.net/rapid"
)

// Common accounts fixture ("AF" of DESIGN.md) used by C06, C07, C08: production components only,
// everything in memory.

type verifSAConfig struct {
	EwlCacheSize      uint // eviction waiting list cache size (small => spills to its DB)
	MaxTrieLevelInMem uint // trie collapse level
	PruningBufferLen  uint32
}

type verifSAFixture struct {
	Adb    *state.AccountsDB
	Tsm    data.StorageManager
	MainDB *memorydb.DB
	Marsh  marshal.Marshalizer
	Hasher hashing.Hasher
}

func verifSANewFixture(cfg verifSAConfig) (*verifSAFixture, error) {
	marsh := &marshal.GogoProtoMarshalizer{}
	hasher := blake2b.NewBlake2b()
	general := config.TrieStorageManagerConfig{
		PruningBufferLen:   cfg.PruningBufferLen,
		SnapshotsBufferLen: 1000,
		MaxSnapshots:       2,
	}
	db := memorydb.New()
	tsm, err := trie.NewTrieStorageManager(trie.NewTrieStorageManagerArgs{
		DB:                     db,
		Marshalizer:            marsh,
		Hasher:                 hasher,
		SnapshotDbConfig:       config.DBConfig{Type: "MemoryDB", BatchDelaySeconds: 0},
		GeneralConfig:          general,
		CheckpointHashesHolder: hashesHolder.NewCheckpointHashesHolder(1<<40, uint64(hasher.Size())),
	})
	if err != nil {
		return nil, err
	}
	tr, err := trie.NewTrie(tsm, marsh, hasher, cfg.MaxTrieLevelInMem)
	if err != nil {
		return nil, err
	}
	ewl, err := evictionWaitingList.NewEvictionWaitingList(cfg.EwlCacheSize, memorydb.New(), marsh)
	if err != nil {
		return nil, err
	}
	spm, err := storagePruningManager.NewStoragePruningManager(ewl, cfg.PruningBufferLen)
	if err != nil {
		return nil, err
	}
	adb, err := state.NewAccountsDB(tr, hasher, marsh, factory.NewAccountCreator(), spm)
	if err != nil {
		return nil, err
	}
	return &verifSAFixture{Adb: adb, Tsm: tsm, MainDB: db, Marsh: marsh, Hasher: hasher}, nil
}

// Close stops the storage manager goroutine and closes the databases.
func (f *verifSAFixture) Close() {
	_ = f.Adb.Close()
	_ = f.Tsm.Close()
}

// verifSAClone returns a copy of b with capacity exactly len(b) (nil stays nil).
func verifSAClone(b []byte) []byte {
	if b == nil {
		return nil
	}
	r := make([]byte, len(b))
	copy(r, b)
	return r
}

// verifSAGenBytes draws a byte string of min..max bytes.
func verifSAGenBytes(rt *rapid.T, min, max int, label string) []byte {
	return rapid.SliceOfN(rapid.Byte(), min, max).Draw(rt, label)
}
