package state_test

import (
	"bytes"
	"fmt"
	"math/big"
	"sort"
	"strings"
	"sync"
	"testing"

	"github.com/ElrondNetwork/elrond-go/config"
	"github.com/ElrondNetwork/elrond-go/core"
	"github.com/ElrondNetwork/elrond-go/core/queue"
	"github.com/ElrondNetwork/elrond-go/data"
	"github.com/ElrondNetwork/elrond-go/data/state"
	"github.com/ElrondNetwork/elrond-go/data/state/factory"
	"github.com/ElrondNetwork/elrond-go/data/state/storagePruningManager"
	"github.com/ElrondNetwork/elrond-go/data/state/storagePruningManager/disabled"
	"github.com/ElrondNetwork/elrond-go/data/state/storagePruningManager/evictionWaitingList"
	"github.com/ElrondNetwork/elrond-go/data/trie"
	"github.com/ElrondNetwork/elrond-go/data/trie/hashesHolder"
	"github.com/ElrondNetwork/elrond-go/hashing"
	"github.com/ElrondNetwork/elrond-go/hashing/blake2b"
	"github.com/ElrondNetwork/elrond-go/marshal"
	"github.com/ElrondNetwork/elrond-go/storage/memorydb"
	kit "github.com/ElrondNetwork/elrond-go/verifkit"
	"pgregory.net/rapid"
)

// Shared helpers of the pruning / snapshot harnesses (C09, C10): the accounts fixture "AF" of
// DESIGN.md with every knob the two properties need, a plain-Go model of the accounts state, a block
// generator, and a reader that rebuilds a state from a database *alone* (the observation point of
// both properties). Production components only; everything except optional LevelDB snapshots is in
// memory.

type verifSBConfig struct {
	EwlCacheSize      uint   // eviction waiting list cache size (small => entries spill to its DB)
	PruningBufferLen  uint32 // storagePruningManager buffer of deferred requests
	MaxTrieLevelInMem uint
	SnapshotDBType    string // "MemoryDB" or "LvlDB"
	SnapshotPath      string // directory for LevelDB snapshots
	SnapshotBatchSecs int    // BatchDelaySeconds of the snapshot databases
	MaxSnapshots      uint32
	CheckpointMaxSize uint64 // checkpoint hashes holder capacity in bytes (small => Commit forces checkpoints)
}

// verifSBFlakyDB is the main trie database handed to the storage manager: the memory database plus
// the possibility to fail the read of one chosen key exactly once (a transient storage error). The
// harness reads through MainDB directly and is never affected.
type verifSBFlakyDB struct {
	*memorydb.DB
	mut     sync.Mutex
	failKey []byte
	fired   int
}

// Get fails once for the armed key, otherwise reads the memory database.
func (f *verifSBFlakyDB) Get(key []byte) ([]byte, error) {
	f.mut.Lock()
	fail := len(f.failKey) > 0 && bytes.Equal(key, f.failKey)
	if fail {
		f.failKey = nil
		f.fired++
	}
	f.mut.Unlock()
	if fail {
		return nil, fmt.Errorf("verif: transient storage read error")
	}
	return f.DB.Get(key)
}

// Arm makes the next read of key fail; Disarm removes the fault and reports whether it fired.
func (f *verifSBFlakyDB) Arm(key []byte) {
	f.mut.Lock()
	f.failKey, f.fired = append([]byte(nil), key...), 0
	f.mut.Unlock()
}

func (f *verifSBFlakyDB) Disarm() bool {
	f.mut.Lock()
	defer f.mut.Unlock()
	f.failKey = nil
	return f.fired > 0
}

type verifSBFixture struct {
	Cfg    verifSBConfig
	Flaky  *verifSBFlakyDB
	Adb    *state.AccountsDB
	Tsm    data.StorageManager
	MainDB *memorydb.DB
	Marsh  marshal.Marshalizer
	Hasher hashing.Hasher
}

func verifSBNewFixture(cfg verifSBConfig) (*verifSBFixture, error) {
	marsh := &marshal.GogoProtoMarshalizer{}
	hasher := blake2b.NewBlake2b()
	if cfg.SnapshotDBType == "" {
		cfg.SnapshotDBType = "MemoryDB"
	}
	if cfg.CheckpointMaxSize == 0 {
		cfg.CheckpointMaxSize = 1 << 40
	}
	general := config.TrieStorageManagerConfig{
		PruningBufferLen:   cfg.PruningBufferLen,
		SnapshotsBufferLen: 100000, // production value is 1000000; must exceed the number of data tries of a state
		MaxSnapshots:       cfg.MaxSnapshots,
	}
	db := memorydb.New()
	flaky := &verifSBFlakyDB{DB: db}
	tsm, err := trie.NewTrieStorageManager(trie.NewTrieStorageManagerArgs{
		DB:          flaky,
		Marshalizer: marsh,
		Hasher:      hasher,
		SnapshotDbConfig: config.DBConfig{
			Type:              cfg.SnapshotDBType,
			FilePath:          cfg.SnapshotPath,
			BatchDelaySeconds: cfg.SnapshotBatchSecs,
			MaxBatchSize:      100,
			MaxOpenFiles:      10,
		},
		GeneralConfig:          general,
		CheckpointHashesHolder: hashesHolder.NewCheckpointHashesHolder(cfg.CheckpointMaxSize, uint64(hasher.Size())),
	})
	if err != nil {
		return nil, err
	}
	tr, err := trie.NewTrie(tsm, marsh, hasher, cfg.MaxTrieLevelInMem)
	if err != nil {
		return nil, err
	}
	ewl, err := evictionWaitingList.NewEvictionWaitingList(cfg.EwlCacheSize, memorydb.New(), marsh)
	if err != nil {
		return nil, err
	}
	spm, err := storagePruningManager.NewStoragePruningManager(ewl, cfg.PruningBufferLen)
	if err != nil {
		return nil, err
	}
	adb, err := state.NewAccountsDB(tr, hasher, marsh, factory.NewAccountCreator(), spm)
	if err != nil {
		return nil, err
	}
	return &verifSBFixture{Cfg: cfg, Flaky: flaky, Adb: adb, Tsm: tsm, MainDB: db, Marsh: marsh, Hasher: hasher}, nil
}

// Close stops the storage manager goroutine and closes the databases.
func (f *verifSBFixture) Close() {
	_ = f.Adb.Close()
	_ = f.Tsm.Close()
}

// ---------------------------------------------------------------------------------------------
// model

type verifSBAcc struct {
	Nonce   uint64
	Balance int64
	Storage map[string]string
}

func (a *verifSBAcc) clone() *verifSBAcc {
	r := &verifSBAcc{Nonce: a.Nonce, Balance: a.Balance, Storage: make(map[string]string, len(a.Storage))}
	for k, v := range a.Storage {
		r.Storage[k] = v
	}
	return r
}

func (a *verifSBAcc) String() string {
	keys := make([]string, 0, len(a.Storage))
	for k := range a.Storage {
		keys = append(keys, k)
	}
	sort.Strings(keys)
	var sb strings.Builder
	fmt.Fprintf(&sb, "{n=%d b=%d", a.Nonce, a.Balance)
	for _, k := range keys {
		fmt.Fprintf(&sb, " %q=%q", k, a.Storage[k])
	}
	sb.WriteString("}")
	return sb.String()
}

// verifSBState maps address (as string) to account content.
type verifSBState map[string]*verifSBAcc

func (s verifSBState) clone() verifSBState {
	r := make(verifSBState, len(s))
	for k, v := range s {
		r[k] = v.clone()
	}
	return r
}

func (s verifSBState) numDataTries() int {
	n := 0
	for _, a := range s {
		if len(a.Storage) > 0 {
			n++
		}
	}
	return n
}

// verifSBDiff returns "" if both states are equal, else a description of the first difference
// (addresses in sorted order, so the text is deterministic).
func verifSBDiff(want, got verifSBState) string {
	addrs := map[string]struct{}{}
	for a := range want {
		addrs[a] = struct{}{}
	}
	for a := range got {
		addrs[a] = struct{}{}
	}
	sorted := make([]string, 0, len(addrs))
	for a := range addrs {
		sorted = append(sorted, a)
	}
	sort.Strings(sorted)
	for _, a := range sorted {
		w, g := want[a], got[a]
		switch {
		case w == nil:
			return fmt.Sprintf("account %x exists with %v but the model has no such account", a[:2], g)
		case g == nil:
			return fmt.Sprintf("account %x missing, model has %v", a[:2], w)
		case w.String() != g.String():
			return fmt.Sprintf("account %x reads %v, model has %v", a[:2], g, w)
		}
	}
	return ""
}

// ---------------------------------------------------------------------------------------------
// reading a state back from one database only

type verifSBRead struct {
	State  verifSBState
	Hashes map[string]struct{} // every node hash of the main trie and of every data trie
	Main   []string            // node hashes of the main trie only, sorted
}

// verifSBReadRoot rebuilds the state with the given root using nothing but db: a storage manager
// without pruning and without snapshots is put over db (so there is no fall-back to another database
// and the pruning-blocked counter of the system under test is not touched), a fresh AccountsDB is
// recreated at root (AccountsAdapter.RecreateTrie, the observation point named by the property), the
// main trie and every data trie are traversed completely (GetAllHashes fails on any missing node)
// and all accounts and storage entries are enumerated. Any failure is returned as an error text.
func verifSBReadRoot(db data.DBWriteCacher, marsh marshal.Marshalizer, hasher hashing.Hasher, root []byte) (*verifSBRead, error) {
	tsm, err := trie.NewTrieStorageManagerWithoutPruning(db)
	if err != nil {
		return nil, fmt.Errorf("fixture: %w", err)
	}
	tr, err := trie.NewTrie(tsm, marsh, hasher, 5)
	if err != nil {
		return nil, fmt.Errorf("fixture: %w", err)
	}
	adb, err := state.NewAccountsDB(tr, hasher, marsh, factory.NewAccountCreator(), disabled.NewDisabledStoragePruningManager())
	if err != nil {
		return nil, fmt.Errorf("fixture: %w", err)
	}
	if err = adb.RecreateTrie(root); err != nil {
		return nil, fmt.Errorf("RecreateTrie(%x): %v", root[:4], err)
	}
	mainTrie, err := adb.GetTrie(root)
	if err != nil {
		return nil, fmt.Errorf("GetTrie(%x): %v", root[:4], err)
	}
	res := &verifSBRead{State: verifSBState{}, Hashes: map[string]struct{}{}}
	hashes, err := mainTrie.GetAllHashes()
	if err != nil {
		return nil, fmt.Errorf("main trie of root %x: traversal failed: %v", root[:4], err)
	}
	for _, h := range hashes {
		res.Hashes[string(h)] = struct{}{}
		res.Main = append(res.Main, string(h))
	}
	sort.Strings(res.Main)
	leaves, err := adb.GetAllLeaves(root)
	if err != nil {
		return nil, fmt.Errorf("GetAllLeaves(%x): %v", root[:4], err)
	}
	var addrs [][]byte
	for leaf := range leaves {
		addrs = append(addrs, append([]byte(nil), leaf.Key()...))
	}
	for _, addr := range addrs {
		handler, errGet := adb.GetExistingAccount(addr)
		if errGet != nil {
			return nil, fmt.Errorf("root %x: GetExistingAccount(%x): %v", root[:4], addr[:2], errGet)
		}
		acc, ok := handler.(state.UserAccountHandler)
		if !ok {
			return nil, fmt.Errorf("root %x: leaf %x is not a user account", root[:4], addr[:2])
		}
		m := &verifSBAcc{Nonce: acc.GetNonce(), Balance: acc.GetBalance().Int64(), Storage: map[string]string{}}
		res.State[string(addr)] = m
		dataRoot := acc.GetRootHash()
		if len(dataRoot) == 0 || bytes.Equal(dataRoot, trie.EmptyTrieHash) {
			continue
		}
		dataTrie, errRec := mainTrie.Recreate(dataRoot)
		if errRec != nil {
			return nil, fmt.Errorf("root %x: data trie %x of account %x cannot be recreated: %v", root[:4], dataRoot[:4], addr[:2], errRec)
		}
		dataHashes, errHashes := dataTrie.GetAllHashes()
		if errHashes != nil {
			return nil, fmt.Errorf("root %x: data trie %x of account %x: traversal failed: %v", root[:4], dataRoot[:4], addr[:2], errHashes)
		}
		for _, h := range dataHashes {
			res.Hashes[string(h)] = struct{}{}
		}
		dataLeaves, errLeaves := dataTrie.GetAllLeavesOnChannel(dataRoot)
		if errLeaves != nil {
			return nil, fmt.Errorf("root %x: data trie %x of account %x: %v", root[:4], dataRoot[:4], addr[:2], errLeaves)
		}
		var keys [][]byte
		for leaf := range dataLeaves {
			keys = append(keys, append([]byte(nil), leaf.Key()...))
		}
		for _, key := range keys {
			// read through the account API (trims the key||address suffix of the stored leaf)
			val, errVal := acc.DataTrieTracker().RetrieveValue(key)
			if errVal != nil {
				return nil, fmt.Errorf("root %x: RetrieveValue(%q) of account %x: %v", root[:4], key, addr[:2], errVal)
			}
			m.Storage[string(key)] = string(val)
		}
	}
	return res, nil
}

// ---------------------------------------------------------------------------------------------
// block generator

// verifSBOp is one load-mutate-save (or remove) of one account.
type verifSBOp struct {
	Kind    string // touch | sstore | remove | create
	Addr    int
	DNonce  uint64
	DBal    int64
	Key     string
	Val     string      // "" deletes the key
	Content *verifSBAcc // create
}

func (o verifSBOp) String() string {
	switch o.Kind {
	case "touch":
		return fmt.Sprintf("touch(a%d n+%d b%+d)", o.Addr, o.DNonce, o.DBal)
	case "sstore":
		return fmt.Sprintf("sstore(a%d %q=%q)", o.Addr, o.Key, o.Val)
	case "remove":
		return fmt.Sprintf("remove(a%d)", o.Addr)
	default:
		return fmt.Sprintf("create(a%d %v)", o.Addr, o.Content)
	}
}

// verifSBTx is a group of operations; a reverted tx is applied and then undone with
// RevertToSnapshot (a failed transaction inside a block).
type verifSBTx struct {
	Ops      []verifSBOp
	Reverted bool
}

type verifSBBlock []verifSBTx

func (b verifSBBlock) String() string {
	var parts []string
	for _, tx := range b {
		s := fmt.Sprint(tx.Ops)
		if tx.Reverted {
			s += "!reverted"
		}
		parts = append(parts, s)
	}
	return strings.Join(parts, ";")
}

// verifSBGen holds the per-case pools.
type verifSBGen struct {
	Addrs   [][]byte
	Keys    []string
	Vals    []string
	History map[int][]*verifSBAcc // address index -> contents the account had at earlier commits
	// states at the last and at the last-but-one recorded commit: the "undo" operation restores an
	// account to what it was before the previous block (sub-tries recur with identical hashes)
	Last, BeforeLast verifSBState
}

var verifSBEdgeBytes = []byte{0x00, 0x01, 0x0f, 0x10, 0x11, 0xf0, 0xff}

func verifSBNewGen(rt *rapid.T, minAddrs, maxAddrs int) *verifSBGen {
	n := rapid.IntRange(minAddrs, maxAddrs).Draw(rt, "numAddrs")
	g := &verifSBGen{History: map[int][]*verifSBAcc{}}
	fill := rapid.SampledFrom(verifSBEdgeBytes).Draw(rt, "addrFill")
	for i := 0; i < n; i++ {
		// 32-byte addresses that share leading and trailing bytes, so that the main trie has extension
		// nodes and several branch levels; byte 15/16 make them unique
		a := bytes.Repeat([]byte{fill}, 32)
		a[0] = rapid.SampledFrom(verifSBEdgeBytes).Draw(rt, "addrFirst")
		a[31] = rapid.SampledFrom(verifSBEdgeBytes).Draw(rt, "addrLast")
		a[30] = rapid.SampledFrom(verifSBEdgeBytes).Draw(rt, "addrLast2")
		a[15] = byte(i >> 8)
		a[16] = byte(i)
		g.Addrs = append(g.Addrs, a)
	}
	g.Keys = []string{"a", "b", "ab", "bb", "\x00", "key-with-a-longer-name-000000000001", "key-with-a-longer-name-000000000002"}
	g.Vals = []string{"v1", "v2", strings.Repeat("w", 40), "\x00"}
	return g
}

func (g *verifSBGen) existing(cur verifSBState) []int {
	var r []int
	for i, a := range g.Addrs {
		if _, ok := cur[string(a)]; ok {
			r = append(r, i)
		}
	}
	return r
}

func (g *verifSBGen) absent(cur verifSBState) []int {
	var r []int
	for i, a := range g.Addrs {
		if _, ok := cur[string(a)]; !ok {
			r = append(r, i)
		}
	}
	return r
}

func (g *verifSBGen) genContent(rt *rapid.T, storageBias bool) *verifSBAcc {
	c := &verifSBAcc{Nonce: uint64(rapid.IntRange(0, 3).Draw(rt, "cNonce")), Balance: int64(rapid.IntRange(0, 1000).Draw(rt, "cBal")), Storage: map[string]string{}}
	maxKeys := 3
	if storageBias {
		maxKeys = len(g.Keys)
	}
	nk := rapid.IntRange(0, maxKeys).Draw(rt, "cKeys")
	if storageBias && nk == 0 {
		nk = 1
	}
	for i := 0; i < nk; i++ {
		k := rapid.SampledFrom(g.Keys).Draw(rt, "cKey")
		c.Storage[k] = rapid.SampledFrom(g.Vals).Draw(rt, "cVal")
	}
	return c
}

// genOp draws one operation that is applicable to cur. Address 0 is the "sender" that every block
// touches (it is never removed).
//
// storageDirty lists the accounts whose storage was written earlier in the same block: they are not
// removed in that block, because AccountsDB.RemoveAccount fails for them ("hash not found":
// removeDataTrie recreates the account's data trie from the database, where the uncommitted root does
// not exist yet) - a behaviour outside the pruning/snapshot properties, see the C09 report. The same map
// records, under key -(i+1), the accounts removed earlier in the block: they are not created again in
// that block, because a journal revert after remove + create leaves a stale data trie in the
// AccountsDB cache (defect found by the C06 harness, notes/fixes/C06-stale-cached-data-trie-after-revert.patch).
func (g *verifSBGen) genOp(rt *rapid.T, cur verifSBState, storageDirty map[int]bool) verifSBOp {
	existing := g.existing(cur)
	absent := g.absent(cur)
	for {
		switch rapid.IntRange(0, 12).Draw(rt, "opKind") {
		case 10, 11, 12:
			if op, ok := g.genUndo(rt, cur, storageDirty); ok {
				return op
			}
			continue
		case 0, 1:
			i := rapid.IntRange(0, len(g.Addrs)-1).Draw(rt, "addr")
			op := verifSBOp{Kind: "touch", Addr: i, DNonce: uint64(rapid.IntRange(0, 1).Draw(rt, "dn")), DBal: int64(rapid.IntRange(-5, 5).Draw(rt, "db"))}
			if a := cur[string(g.Addrs[i])]; a == nil || a.Balance+op.DBal < 0 {
				if op.DBal < 0 {
					op.DBal = -op.DBal
				}
			}
			return op
		case 2, 3, 4:
			// storage write: values come from a small pool, so earlier data-trie states recur
			if len(existing) == 0 {
				continue
			}
			i := rapid.SampledFrom(existing).Draw(rt, "addr")
			return verifSBOp{Kind: "sstore", Addr: i, Key: rapid.SampledFrom(g.Keys).Draw(rt, "key"), Val: rapid.SampledFrom(g.Vals).Draw(rt, "val")}
		case 5:
			// storage delete of an existing key if there is one
			if len(existing) == 0 {
				continue
			}
			i := rapid.SampledFrom(existing).Draw(rt, "addr")
			a := cur[string(g.Addrs[i])]
			if len(a.Storage) == 0 {
				continue
			}
			keys := make([]string, 0, len(a.Storage))
			for k := range a.Storage {
				keys = append(keys, k)
			}
			sort.Strings(keys)
			return verifSBOp{Kind: "sstore", Addr: i, Key: rapid.SampledFrom(keys).Draw(rt, "key"), Val: ""}
		case 6, 7:
			var candidates []int
			for _, i := range existing {
				if i != 0 && !storageDirty[i] {
					candidates = append(candidates, i)
				}
			}
			if len(candidates) == 0 {
				continue
			}
			return verifSBOp{Kind: "remove", Addr: rapid.SampledFrom(candidates).Draw(rt, "addr")}
		default:
			var creatable []int
			for _, i := range absent {
				if !storageDirty[-(i + 1)] {
					creatable = append(creatable, i)
				}
			}
			if len(creatable) == 0 {
				continue
			}
			i := rapid.SampledFrom(creatable).Draw(rt, "addr")
			// half of the time the account comes back exactly as it was at an earlier commit
			if h := g.History[i]; len(h) > 0 && rapid.Bool().Draw(rt, "resurrect") {
				return verifSBOp{Kind: "create", Addr: i, Content: rapid.SampledFrom(h).Draw(rt, "old").clone()}
			}
			return verifSBOp{Kind: "create", Addr: i, Content: g.genContent(rt, true)}
		}
	}
}

// genUndo draws an operation that moves one account back towards its content before the previous block:
// an account created by the previous block is removed, a removed one is created again with its old
// content, a changed storage key gets its old value back. Whole sub-tries then have the hashes they had
// two commits ago (the state root does not: the sender nonce keeps growing).
func (g *verifSBGen) genUndo(rt *rapid.T, cur verifSBState, storageDirty map[int]bool) (verifSBOp, bool) {
	if g.BeforeLast == nil {
		return verifSBOp{}, false
	}
	var ops []verifSBOp
	for i := 1; i < len(g.Addrs); i++ {
		before, now := g.BeforeLast[string(g.Addrs[i])], cur[string(g.Addrs[i])]
		switch {
		case before == nil && now == nil:
		case before == nil:
			if !storageDirty[i] {
				ops = append(ops, verifSBOp{Kind: "remove", Addr: i})
			}
		case now == nil:
			if !storageDirty[-(i + 1)] {
				ops = append(ops, verifSBOp{Kind: "create", Addr: i, Content: before.clone()})
			}
		default:
			keys := map[string]struct{}{}
			for k := range before.Storage {
				keys[k] = struct{}{}
			}
			for k := range now.Storage {
				keys[k] = struct{}{}
			}
			sorted := make([]string, 0, len(keys))
			for k := range keys {
				sorted = append(sorted, k)
			}
			sort.Strings(sorted)
			for _, k := range sorted {
				if before.Storage[k] != now.Storage[k] {
					ops = append(ops, verifSBOp{Kind: "sstore", Addr: i, Key: k, Val: before.Storage[k]})
					break
				}
			}
		}
	}
	if len(ops) == 0 {
		return verifSBOp{}, false
	}
	return ops[rapid.IntRange(0, len(ops)-1).Draw(rt, "undo")], true
}

// genBlock draws a block of 1..maxTx transactions over cur (cur is not modified). The first
// transaction always increases the nonce of the sender account 0: every real block that changes the
// state contains at least one transaction, and a transaction increases its sender's nonce, so the
// state root of a block never equals the root of an earlier, non-adjacent block. Sub-tries (other
// accounts, data tries) do recur with identical node hashes.
func (g *verifSBGen) genBlock(rt *rapid.T, cur verifSBState, maxTx int) verifSBBlock {
	work := cur.clone()
	blk := verifSBBlock{{Ops: []verifSBOp{{Kind: "touch", Addr: 0, DNonce: 1, DBal: int64(rapid.IntRange(0, 3).Draw(rt, "fee"))}}}}
	verifSBApplyModel(g, work, blk[0].Ops[0])
	n := rapid.IntRange(0, maxTx-1).Draw(rt, "numTx")
	storageDirty := map[int]bool{}
	for i := 0; i < n; i++ {
		tx := verifSBTx{Reverted: rapid.IntRange(0, 6).Draw(rt, "revertedTx") == 0}
		txWork := work
		if tx.Reverted {
			txWork = work.clone()
		}
		nops := rapid.IntRange(1, 2).Draw(rt, "numOps")
		for j := 0; j < nops; j++ {
			op := g.genOp(rt, txWork, storageDirty)
			if op.Kind == "sstore" || (op.Kind == "create" && len(op.Content.Storage) > 0) {
				storageDirty[op.Addr] = true
			}
			if op.Kind == "remove" {
				storageDirty[-(op.Addr + 1)] = true
			}
			verifSBApplyModel(g, txWork, op)
			tx.Ops = append(tx.Ops, op)
		}
		blk = append(blk, tx)
	}
	return blk
}

// verifSBApplyModel applies op to the model.
func verifSBApplyModel(g *verifSBGen, s verifSBState, op verifSBOp) {
	addr := string(g.Addrs[op.Addr])
	switch op.Kind {
	case "touch":
		a := s[addr]
		if a == nil {
			a = &verifSBAcc{Storage: map[string]string{}}
			s[addr] = a
		}
		a.Nonce += op.DNonce
		a.Balance += op.DBal
	case "sstore":
		a := s[addr]
		if op.Val == "" {
			delete(a.Storage, op.Key)
		} else {
			a.Storage[op.Key] = op.Val
		}
	case "remove":
		delete(s, addr)
	case "create":
		s[addr] = op.Content.clone()
	}
}

// verifSBApplyAdb applies op to the accounts database through the public adapter API, the way the
// transaction processor does (load, mutate, save). Buffers handed to the API are fresh copies.
func verifSBApplyAdb(g *verifSBGen, adb *state.AccountsDB, op verifSBOp) error {
	addr := append([]byte(nil), g.Addrs[op.Addr]...)
	if op.Kind == "remove" {
		return adb.RemoveAccount(addr)
	}
	handler, err := adb.LoadAccount(addr)
	if err != nil {
		return err
	}
	acc, ok := handler.(state.UserAccountHandler)
	if !ok {
		return fmt.Errorf("not a user account")
	}
	switch op.Kind {
	case "touch":
		acc.IncreaseNonce(op.DNonce)
		if op.DBal >= 0 {
			err = acc.AddToBalance(big.NewInt(op.DBal))
		} else {
			err = acc.SubFromBalance(big.NewInt(-op.DBal))
		}
		if err != nil {
			return err
		}
	case "sstore":
		if err = acc.DataTrieTracker().SaveKeyValue([]byte(op.Key), []byte(op.Val)); err != nil {
			return err
		}
	case "create":
		acc.IncreaseNonce(op.Content.Nonce)
		if err = acc.AddToBalance(big.NewInt(op.Content.Balance)); err != nil {
			return err
		}
		keys := make([]string, 0, len(op.Content.Storage))
		for k := range op.Content.Storage {
			keys = append(keys, k)
		}
		sort.Strings(keys)
		for _, k := range keys {
			if err = acc.DataTrieTracker().SaveKeyValue([]byte(k), []byte(op.Content.Storage[k])); err != nil {
				return err
			}
		}
	}
	return adb.SaveAccount(acc)
}

// verifSBExecBlock executes the block on adb and on the model and commits. It returns the new root.
func verifSBExecBlock(g *verifSBGen, adb *state.AccountsDB, cur verifSBState, blk verifSBBlock) ([]byte, error) {
	for _, tx := range blk {
		if tx.Reverted {
			journalLen := adb.JournalLen()
			scratch := cur.clone()
			for _, op := range tx.Ops {
				if err := verifSBApplyAdb(g, adb, op); err != nil {
					return nil, fmt.Errorf("%v: %w", op, err)
				}
				verifSBApplyModel(g, scratch, op)
			}
			if err := adb.RevertToSnapshot(journalLen); err != nil {
				return nil, fmt.Errorf("RevertToSnapshot(%d): %w", journalLen, err)
			}
			continue
		}
		for _, op := range tx.Ops {
			if err := verifSBApplyAdb(g, adb, op); err != nil {
				return nil, fmt.Errorf("%v: %w", op, err)
			}
			verifSBApplyModel(g, cur, op)
		}
	}
	root, err := adb.Commit()
	if err != nil {
		return nil, fmt.Errorf("Commit: %w", err)
	}
	return root, nil
}

// remember records the committed contents per address for later resurrection draws.
func (g *verifSBGen) remember(s verifSBState) {
	g.BeforeLast, g.Last = g.Last, s.clone()
	for i, a := range g.Addrs {
		acc := s[string(a)]
		if acc == nil {
			continue
		}
		h := g.History[i]
		if len(h) > 0 && h[len(h)-1].String() == acc.String() {
			continue
		}
		if len(h) >= 6 {
			h = h[1:]
		}
		g.History[i] = append(h, acc.clone())
	}
}

// ---------------------------------------------------------------------------------------------
// block-processor simulator: drives the accounts database with the pruning call protocol of
// process/block/baseProcess.go (see the transcription in zz_verif_c09_test.go) and holds the oracles
// of C09. C10 uses it with the oracles switched off, only to produce the concurrent commit / prune
// traffic.

// class of suspicion 22 of DESIGN.md: storagePruningManager.PruneTrie(root, NewRoot) issued while
// pruning is blocked only drops the eviction-waiting-list entry (cancelPrune) instead of buffering the
// removal, and the CancelPrune(prevRoot, OldRoot) buffered just before it is executed after the next
// block has re-created the prevRoot entry.
const verifSBKeyBlockedRollback = "C09:completeness:leak-after-rollback-while-blocked"

// verifSBReporter lets the same simulator run under rapid (generated histories) and in the plain
// regression test (scripted histories).
type verifSBReporter interface {
	Violation(key string, format string, args ...interface{})
	Fatalf(format string, args ...interface{})
	Class(label string)
	Excluded(key string)
}

type verifSBRapidReporter struct {
	rt *rapid.T
	c  *kit.Case
}

func (r verifSBRapidReporter) Violation(key string, format string, args ...interface{}) {
	r.c.Violation(key, format, args...)
}
func (r verifSBRapidReporter) Fatalf(format string, args ...interface{}) {
	r.rt.Fatalf(format, args...)
}
func (r verifSBRapidReporter) Class(label string)  { r.c.Class(label) }
func (r verifSBRapidReporter) Excluded(key string) { r.c.Excluded(key) }

type verifSBPlainReporter struct {
	t   *testing.T
	pid string
}

func (r verifSBPlainReporter) Violation(key string, format string, args ...interface{}) {
	// fails the test unless key is a listed known finding (then it is logged and the script goes on)
	kit.FailPlain(r.t, r.pid, key, format, args...)
}
func (r verifSBPlainReporter) Fatalf(format string, args ...interface{}) { r.t.Fatalf(format, args...) }
func (r verifSBPlainReporter) Class(string)                              {}
func (r verifSBPlainReporter) Excluded(key string)                       { r.t.Logf("KNOWN key=%s (excluded)", key) }

// Known-finding class: CancelPrune(prevRoot, OldRoot) issued by a rollback while pruning is blocked is
// buffered; the next block committed on prevRoot re-creates the prevRoot|Old waiting-list entry; when
// the buffer is executed the stale cancel evicts that fresh entry; a later block that re-creates one of
// the nodes listed in it and is rolled back deletes the node although prevRoot is still live.
const verifSBKeyStaleCancel = "C09:safety:after-rollback-while-blocked"

// verifSBKnown: the class is listed as a known finding => it is excluded by construction.
func verifSBKnown(key string) bool {
	return kit.IsKnown(key)
}

type verifSBRoot struct {
	seq    int      // order of first commit
	main   []string // node hashes of the main trie, sorted
	root   []byte
	model  verifSBState
	hashes map[string]struct{}
}

type verifSBSim struct {
	rep verifSBReporter
	fx  *verifSBFixture
	g   *verifSBGen

	queue   core.Queue
	inQueue [][]byte // roots added to the queue and not yet handed back (mirror, FIFO)
	chain   []*verifSBRoot
	blocks  []verifSBBlock // blocks[i] produced chain[i]
	final   int            // chain[0..final] are final, the rest can be rolled back
	known   map[string]*verifSBRoot
	cur     verifSBState

	blockDepth        int
	checkCompleteness bool
	// asyncBlocking: pruning is blocked by real snapshot goroutines, not by the simulator (C10); the
	// C09 oracles, which need to know the blocked state at every call, are off
	asyncBlocking bool
	// node hashes of roots touched by a rollback that was issued while pruning was blocked (the
	// rolled-back root and the root rolled back to): class verifSBKeyBlockedRollback
	blockedRollbackHashes map[string]struct{}
	// class verifSBKeyStaleCancel: roots that were rolled back to while pruning was blocked and whose
	// buffered CancelPrune(root, OldRoot) may still be pending, and the node hashes that the first
	// block committed on top of such a root removed from it (= the re-created root|Old entry that the
	// stale cancel evicts; only these nodes lose their protection)
	pendingStaleCancel map[string]bool
	exposedHashes      map[string]struct{}
	lastRolled         *verifSBRolled

	nRollback, nPruneBlocked, nDataTrieRemoval, nFinalizeAfter int
	rollbackWhileBlocked                                       bool
	trace                                                      []string
}

type verifSBRolled struct {
	prevRoot []byte
	blk      verifSBBlock
}

func (s *verifSBSim) logf(format string, args ...interface{}) {
	s.trace = append(s.trace, fmt.Sprintf(format, args...))
}

func (s *verifSBSim) history() string {
	return strings.Join(s.trace, " | ")
}

func (s *verifSBSim) blocked() bool {
	if s.asyncBlocking {
		return s.fx.Tsm.IsPruningBlocked()
	}
	return s.blockDepth > 0
}

// liveRoots: the current root, every root that can still be rolled back to, the root of the last
// final block and every root waiting in the pruning queue - i.e. every root for which the protocol
// has not issued PruneTrie.
func (s *verifSBSim) liveRoots() map[string]*verifSBRoot {
	live := map[string]*verifSBRoot{}
	for i := s.final; i < len(s.chain); i++ {
		live[string(s.chain[i].root)] = s.chain[i]
	}
	for _, r := range s.inQueue {
		live[string(r)] = s.known[string(r)]
	}
	return live
}

func verifSBCopy(b []byte) []byte { return append(make([]byte, 0, len(b)), b...) }

// record reads the freshly committed root back from the database, compares it with the model and
// stores its node hash set.
func (s *verifSBSim) record(root []byte) *verifSBRoot {
	if r, ok := s.known[string(root)]; ok {
		return r
	}
	read, err := verifSBReadRoot(s.fx.MainDB, s.fx.Marsh, s.fx.Hasher, root)
	if err != nil && s.asyncBlocking {
		s.asyncDamage("root %x just committed cannot be read back: %v", root[:4], err)
	}
	if err != nil {
		s.rep.Violation("C09:safety:fresh-root-unreadable", "root %x just committed cannot be read back: %v; history: %s", root[:4], err, s.history())
	}
	if d := verifSBDiff(s.cur, read.State); d != "" {
		// a committed state that differs from the model is not a pruning matter: fixture problem
		s.rep.Fatalf("fixture: committed state differs from the model: %s; history: %s", d, s.history())
	}
	r := &verifSBRoot{seq: len(s.known), main: read.Main, root: verifSBCopy(root), model: s.cur.clone(), hashes: read.Hashes}
	s.known[string(root)] = r
	s.g.remember(s.cur)
	return r
}

// checkLive is the safety oracle: every live root is completely readable from the main database and
// equals the model recorded when it was committed.
func (s *verifSBSim) checkLive(where string) {
	live := s.liveRoots()
	keys := make([]string, 0, len(live))
	for k := range live {
		keys = append(keys, k)
	}
	sort.Strings(keys)
	for _, k := range keys {
		r := live[k]
		read, err := verifSBReadRoot(s.fx.MainDB, s.fx.Marsh, s.fx.Hasher, r.root)
		if err != nil {
			s.rep.Violation(s.safetyKey(r, "C09:safety:live-root-unreadable"), "after %s: live root %x (%s) is not readable any more: %v; history: %s", where, r.root[:4], s.describe(r.root), err, s.history())
			continue
		}
		if d := verifSBDiff(r.model, read.State); d != "" {
			s.rep.Violation("C09:safety:live-root-content", "after %s: live root %x reads differently: %s; history: %s", where, r.root[:4], d, s.history())
		}
	}
}

// safetyKey classifies a live root that lost nodes: if every node of r that is missing from the
// database is one that a stale buffered CancelPrune(prev, OldRoot) can have exposed (see
// verifSBKeyStaleCancel) the violation belongs to that class, otherwise to defaultKey.
func (s *verifSBSim) safetyKey(r *verifSBRoot, defaultKey string) string {
	missing := 0
	for h := range r.hashes {
		if _, err := s.fx.MainDB.Get([]byte(h)); err == nil {
			continue
		}
		missing++
		if _, ok := s.exposedHashes[h]; !ok {
			return defaultKey
		}
	}
	if missing == 0 {
		return defaultKey
	}
	return verifSBKeyStaleCancel
}

func (s *verifSBSim) describe(root []byte) string {
	var tags []string
	for i, b := range s.chain {
		if bytes.Equal(b.root, root) {
			switch {
			case i == len(s.chain)-1:
				tags = append(tags, "current")
			case i == s.final:
				tags = append(tags, "last final")
			case i > s.final:
				tags = append(tags, "not final")
			}
		}
	}
	for _, r := range s.inQueue {
		if bytes.Equal(r, root) {
			tags = append(tags, "in pruning queue")
		}
	}
	return strings.Join(tags, ",")
}

// checkRemoved is the completeness oracle, evaluated right after a PruneTrie call made while
// pruning is not blocked (that call first executes every buffered request): a node that belongs only
// to pruned roots (finalized-and-evicted or rolled back) must be gone from the main database.
func (s *verifSBSim) checkRemoved(where string) {
	if !s.checkCompleteness || s.asyncBlocking || s.blocked() {
		return
	}
	liveHashes := map[string]struct{}{}
	for _, r := range s.liveRoots() {
		for h := range r.hashes {
			liveHashes[h] = struct{}{}
		}
	}
	keys := make([]string, 0, len(s.known))
	for k := range s.known {
		keys = append(keys, k)
	}
	sort.Strings(keys)
	live := s.liveRoots()
	for _, k := range keys {
		if _, isLive := live[k]; isLive {
			continue
		}
		r := s.known[k]
		leaked, leakedBlockedRollback := 0, 0
		var first string
		for h := range r.hashes {
			if _, ok := liveHashes[h]; ok {
				continue
			}
			if _, err := s.fx.MainDB.Get([]byte(h)); err != nil {
				continue
			}
			if _, ok := s.blockedRollbackHashes[h]; ok {
				leakedBlockedRollback++
				continue
			}
			leaked++
			if first == "" || h < first {
				first = h
			}
		}
		if leaked > 0 {
			s.rep.Violation("C09:completeness:leak", "after %s (pruning not blocked, buffer executed): %d node(s) that belong only to pruned root %x are still in the database (e.g. %x); history: %s",
				where, leaked, r.root[:4], first[:4], s.history())
		}
		if leakedBlockedRollback > 0 {
			if verifSBKnown(verifSBKeyBlockedRollback) {
				// known finding: exactly the nodes of the two roots of a rollback issued while blocked are exempt
				s.rep.Excluded(verifSBKeyBlockedRollback)
				continue
			}
			s.rep.Violation(verifSBKeyBlockedRollback, "after %s (pruning not blocked, buffer executed): %d node(s) that belong only to pruned root %x are still in the database; a rollback was issued while pruning was blocked; history: %s",
				where, leakedBlockedRollback, r.root[:4], s.history())
		}
	}
}

// updateStateStorage: see the transcription at the top of the file.
func (s *verifSBSim) updateStateStorage(rootHash, prevRootHash []byte) (pruned bool) {
	adb := s.fx.Adb
	if !adb.IsPruningEnabled() {
		s.rep.Fatalf("fixture: pruning is not enabled")
	}
	if bytes.Equal(prevRootHash, rootHash) {
		return false
	}
	rootHashToBePruned := s.queue.Add(verifSBCopy(prevRootHash))
	s.inQueue = append(s.inQueue, prevRootHash)
	if len(rootHashToBePruned) == 0 {
		return false
	}
	if !bytes.Equal(rootHashToBePruned, s.inQueue[0]) {
		s.rep.Fatalf("fixture: queue mirror out of step")
	}
	s.inQueue = s.inQueue[1:]
	if s.blocked() {
		s.nPruneBlocked++
		s.rep.Class("prune-old-while-blocked")
	} else {
		s.rep.Class("prune-old-unblocked")
	}
	adb.CancelPrune(verifSBCopy(rootHashToBePruned), data.NewRoot)
	adb.PruneTrie(verifSBCopy(rootHashToBePruned), data.OldRoot)
	s.afterPruneTrie()
	return true
}

// pruneStateOnRollback: see the transcription at the top of the file.
func (s *verifSBSim) pruneStateOnRollback(rootHash, prevRootHash []byte) (pruned bool) {
	adb := s.fx.Adb
	if bytes.Equal(rootHash, prevRootHash) {
		return false
	}
	if s.blocked() {
		s.nPruneBlocked++
		s.rollbackWhileBlocked = true
		s.pendingStaleCancel[string(prevRootHash)] = true
		s.rep.Class("prune-new-while-blocked")
		for _, r := range [][]byte{rootHash, prevRootHash} {
			for h := range s.known[string(r)].hashes {
				s.blockedRollbackHashes[h] = struct{}{}
			}
		}
	} else {
		s.rep.Class("prune-new-unblocked")
	}
	adb.CancelPrune(verifSBCopy(prevRootHash), data.OldRoot)
	adb.PruneTrie(verifSBCopy(rootHash), data.NewRoot)
	s.afterPruneTrie()
	return true
}

func (s *verifSBSim) execBlock(blk verifSBBlock, what string) {
	before := s.cur.clone()
	root, err := verifSBExecBlock(s.g, s.fx.Adb, s.cur, blk)
	if err != nil {
		// an operation on the current root failed: if a live root lost nodes the safety oracle says so,
		// otherwise the harness applied something inapplicable
		s.cur = before
		if s.asyncBlocking {
			s.asyncDamage("%s failed: %v", what, err)
		}
		s.checkLive(what + " (failed: " + err.Error() + ")")
		s.rep.Fatalf("fixture: %s failed: %v; history: %s", what, err, s.history())
	}
	for _, tx := range blk {
		if tx.Reverted {
			s.rep.Class("tx-reverted-in-block")
			continue
		}
		for _, op := range tx.Ops {
			if op.Kind == "remove" {
				if a := before[string(s.g.Addrs[op.Addr])]; a != nil && len(a.Storage) > 0 {
					s.nDataTrieRemoval++
					s.rep.Class("data-trie-removed")
				}
			}
		}
	}
	r := s.record(root)
	if len(s.chain) > 0 {
		// first block on top of a root that was rolled back to while blocked: the nodes it removes from that
		// root form the re-created root|Old entry, which the stale buffered cancel will evict
		if prev := s.chain[len(s.chain)-1]; !bytes.Equal(prev.root, root) && s.pendingStaleCancel[string(prev.root)] {
			delete(s.pendingStaleCancel, string(prev.root))
			for h := range prev.hashes {
				if _, ok := r.hashes[h]; !ok {
					s.exposedHashes[h] = struct{}{}
				}
			}
		}
	}
	s.chain = append(s.chain, r)
	s.blocks = append(s.blocks, blk)
	s.logf("%s %x: %v", what, root[:2], blk)
}

// asyncDamage is called in the C10 mode when the main trie database turns out to have lost nodes of the
// current chain. C10 does not judge pruning; if the history contains a rollback issued while a snapshot
// was running, the damage is the known pruning finding verifSBKeyStaleCancel (C09): the case ends as
// excluded under that key. Otherwise it is an unexplained fixture failure (inconclusive).
func (s *verifSBSim) asyncDamage(format string, args ...interface{}) {
	msg := fmt.Sprintf(format, args...)
	if s.rollbackWhileBlocked {
		s.rep.Violation(verifSBKeyStaleCancel, "main database damaged while producing traffic for C10: %s; history: %s", msg, s.history())
	}
	s.rep.Fatalf("fixture: %s; history: %s", msg, s.history())
}

// afterPruneTrie: a PruneTrie call made while pruning is not blocked has executed every buffered
// request, so no stale cancel is pending any more.
func (s *verifSBSim) afterPruneTrie() {
	if !s.asyncBlocking && !s.blocked() {
		s.pendingStaleCancel = map[string]bool{}
	}
}

func verifSBNewSim(rep verifSBReporter, fx *verifSBFixture, g *verifSBGen, qsize int, checkCompleteness bool) *verifSBSim {
	s := &verifSBSim{rep: rep, fx: fx, g: g, queue: queue.NewSliceQueue(uint(qsize)),
		known: map[string]*verifSBRoot{}, cur: verifSBState{}, checkCompleteness: checkCompleteness,
		blockedRollbackHashes: map[string]struct{}{}, pendingStaleCancel: map[string]bool{}, exposedHashes: map[string]struct{}{}}
	s.logf("queue=%d ewl=%d buf=%d", qsize, fx.Cfg.EwlCacheSize, fx.Cfg.PruningBufferLen)
	return s
}

func (s *verifSBSim) unfinalized() int { return len(s.chain) - 1 - s.final }

func (s *verifSBSim) doFinalize() {
	i := s.final + 1
	s.final = i
	pruned := s.updateStateStorage(s.chain[i].root, s.chain[i-1].root)
	s.logf("finalize %x%s", s.chain[i].root[:2], map[bool]string{true: " +prune", false: ""}[pruned])
	if s.nRollback > 0 && s.nPruneBlocked > 0 && s.nDataTrieRemoval > 0 {
		s.nFinalizeAfter++
	}
	if pruned {
		s.checkRemoved("finalize")
	}
}

func (s *verifSBSim) doRollback() {
	last := len(s.chain) - 1
	root, prevRoot := s.chain[last].root, s.chain[last-1].root
	// RevertStateToBlock(prevHeader): shardblock.go:330 / metablock.go:1490
	if errRec := s.fx.Adb.RecreateTrie(verifSBCopy(prevRoot)); errRec != nil {
		if s.asyncBlocking {
			s.asyncDamage("rollback: RecreateTrie(%x) failed: %v", prevRoot[:4], errRec)
		}
		s.rep.Violation(s.safetyKey(s.chain[last-1], "C09:safety:rollback-recreate-failed"), "rollback: RecreateTrie(%x) of the previous block's root failed: %v; history: %s", prevRoot[:4], errRec, s.history())
		return
	}
	s.lastRolled = &verifSBRolled{prevRoot: prevRoot, blk: s.blocks[last]}
	s.chain = s.chain[:last]
	s.blocks = s.blocks[:last]
	s.cur = s.chain[last-1].model.clone()
	pruned := s.pruneStateOnRollback(root, prevRoot)
	s.nRollback++
	s.logf("rollback %x->%x%s", root[:2], prevRoot[:2], map[bool]string{true: " blocked", false: ""}[s.blocked()])
	if pruned {
		s.checkRemoved("rollback")
	}
}

func (s *verifSBSim) doEnterBlocking() {
	s.fx.Tsm.EnterPruningBufferingMode()
	s.blockDepth++
	s.logf("enterBlocking")
}

func (s *verifSBSim) doExitBlocking() {
	s.fx.Tsm.ExitPruningBufferingMode()
	s.blockDepth--
	s.logf("exitBlocking")
}

func (s *verifSBSim) invariant() {
	if s.asyncBlocking {
		return
	}
	if s.fx.Tsm.IsPruningBlocked() != s.blocked() {
		s.rep.Fatalf("fixture: blocked state out of step")
	}
	s.checkLive("event " + fmt.Sprint(len(s.trace)))
}
