package state

import "github.com/ElrondNetwork/elrond-go/data"

// VerifSAMainTrie exposes the current main trie of the accounts database to the black-box
// harnesses (the main trie object is replaced on RecreateTrie / RevertToSnapshot(0), so a handle
// kept from construction time would go stale).
func (adb *AccountsDB) VerifSAMainTrie() data.Trie {
	adb.mutOp.Lock()
	defer adb.mutOp.Unlock()
	return adb.mainTrie
}
