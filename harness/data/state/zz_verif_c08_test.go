package state_test

import (
	"bytes"
	"fmt"
	"strings"
	"testing"

	"github.com/ElrondNetwork/elrond-go/core"
	"github.com/ElrondNetwork/elrond-go/data"
	"github.com/ElrondNetwork/elrond-go/data/state"
	kit "github.com/ElrondNetwork/elrond-go/verifkit"
	"pgregory.net/rapid"
)

// C08: Contract storage values read back exactly as written.
//
// One account on a real AccountsDB. Writes go through DataTrieTracker().SaveKeyValue with key and
// value slices laid out in the buffer-sharing patterns a Go caller can produce (exact copies, spare
// capacity, key and value carved from one array, a reused scratch buffer); after the call the
// harness overwrites the caller-side memory. The model keeps private copies taken before the call.
// Reads (before SaveAccount, after it, after Commit and after reloading the account) must return
// the model bytes; the data-trie leaf must be value||key||address built from the copies.

type verifC08Env struct {
	rt   *rapid.T
	c    *kit.Case
	f    *verifSAFixture
	addr []byte
	acc  state.UserAccountHandler
	keys [][]byte

	model  map[string][]byte // absent = empty
	hazard map[string]bool   // the latest write of the key used caller memory that was shared or overwritten afterwards
	arena  []byte            // scratch buffer reused across writes (pattern "reused")
	phase  string
	dirty  bool
	trace  []string

	nonTrivial bool
	recreated  bool
}

// verifC08Array is a backing array of the caller; [usedFrom, usedTo) holds the key and/or value bytes.
type verifC08Array struct {
	b                []byte
	usedFrom, usedTo int
}

func (e *verifC08Env) logf(format string, a ...interface{}) {
	e.trace = append(e.trace, fmt.Sprintf(format, a...))
}

func (e *verifC08Env) traceText() string { return strings.Join(e.trace, "; ") }

func (e *verifC08Env) fixture(err error, what string) {
	if err != nil {
		e.rt.Fatalf("fixture: %s: %v [%s]", what, err, e.traceText())
	}
}

func verifC08Short(b []byte) string {
	if len(b) <= 24 {
		return fmt.Sprintf("%x", b)
	}
	return fmt.Sprintf("%x..(%d bytes)", b[:24], len(b))
}

func (e *verifC08Env) slug(key []byte) string {
	if e.hazard[string(key)] {
		return "caller-buffer:" + e.phase
	}
	return "readback:" + e.phase
}

func (e *verifC08Env) genValue(key []byte) ([]byte, string) {
	rt := e.rt
	kind := rapid.IntRange(0, 9).Draw(rt, "valueKind")
	maxLen := 200
	if kit.Thorough() && rapid.IntRange(0, 30).Draw(rt, "big") == 0 {
		maxLen = 70000
	}
	switch kind {
	case 0:
		return nil, "delete"
	case 1:
		return verifSAGenBytes(rt, 1, 3, "valueShort"), "short"
	case 2:
		return append(verifSAGenBytes(rt, 0, 20, "valuePrefix"), key...), "tail=key"
	case 3:
		return append(verifSAGenBytes(rt, 0, 20, "valuePrefix"), e.addr...), "tail=address"
	case 4:
		v := append(verifSAGenBytes(rt, 0, 20, "valuePrefix"), key...)
		return append(v, e.addr...), "tail=key||address"
	default:
		n := rapid.IntRange(1, maxLen).Draw(rt, "valueLen")
		fill := rapid.Byte().Draw(rt, "valueFill")
		v := make([]byte, n)
		for i := range v {
			v[i] = fill + byte(i*7)
		}
		return v, "plain"
	}
}

func (e *verifC08Env) opWrite() {
	rt := e.rt
	ki := rapid.IntRange(0, len(e.keys)-1).Draw(rt, "key")
	key := e.keys[ki]
	val, vkind := e.genValue(key)
	lk, lv := len(key), len(val)
	tail := lk + len(e.addr)
	extra := rapid.SampledFrom([]int{1, tail - 1, tail, tail + 9, 2*tail + 5}).Draw(rt, "spare")
	if extra < 1 {
		extra = 1
	}
	pattern := rapid.SampledFrom([]string{"exact", "value-spare", "key-spare", "key|value|spare", "value|key|spare", "reused"}).Draw(rt, "pattern")
	after := rapid.SampledFrom([]string{"untouched", "spare-overwritten", "all-overwritten"}).Draw(rt, "after")

	var kbuf, vbuf []byte
	var arrays []verifC08Array // complete backing arrays handed (in part) to SaveKeyValue
	switch pattern {
	case "exact":
		kbuf, vbuf = verifSAClone(key), verifSAClone(val)
		if kbuf == nil {
			kbuf = []byte{}
		}
		arrays = []verifC08Array{{kbuf, 0, lk}, {vbuf, 0, lv}}
	case "value-spare":
		b := make([]byte, lv+extra)
		copy(b, val)
		kbuf, vbuf = verifSAClone(key), b[:lv]
		arrays = []verifC08Array{{kbuf, 0, lk}, {b, 0, lv}}
	case "key-spare":
		b := make([]byte, lk+extra)
		copy(b, key)
		kbuf, vbuf = b[:lk], verifSAClone(val)
		arrays = []verifC08Array{{b, 0, lk}, {vbuf, 0, lv}}
	case "key|value|spare":
		b := make([]byte, lk+lv+extra)
		copy(b, key)
		copy(b[lk:], val)
		kbuf, vbuf = b[:lk], b[lk:lk+lv]
		arrays = []verifC08Array{{b, 0, lk + lv}}
	case "value|key|spare":
		b := make([]byte, lk+lv+extra)
		copy(b, val)
		copy(b[lv:], key)
		vbuf, kbuf = b[:lv], b[lv:lv+lk]
		arrays = []verifC08Array{{b, 0, lk + lv}}
	case "reused":
		need := lk + lv + extra
		if len(e.arena) < need {
			e.arena = make([]byte, need+64)
		}
		b := e.arena
		copy(b, val)
		copy(b[lv:], key)
		vbuf, kbuf = b[:lv], b[lv:lv+lk]
		arrays = []verifC08Array{{b, 0, lk + lv}}
	}
	spare := cap(vbuf) - lv
	e.logf("write k%d=%s(%s,len %d) %s spare=%d then %s", ki, verifC08Short(val), vkind, lv, pattern, spare, after)

	var err error
	e.c.NoPanic("C08:savekeyvalue-panic", func() { err = e.acc.DataTrieTracker().SaveKeyValue(kbuf, vbuf) })
	if err != nil {
		e.c.Violation("C08:write-rejected", "SaveKeyValue(key %d bytes, value %d bytes) returned %v [%s]", lk, lv, err, e.traceText())
	}
	switch after {
	case "spare-overwritten":
		for _, a := range arrays {
			full := a.b[:cap(a.b)]
			for i := range full {
				if i < a.usedFrom || i >= a.usedTo {
					full[i] ^= 0xa5
				}
			}
		}
	case "all-overwritten":
		for _, a := range arrays {
			full := a.b[:cap(a.b)]
			for i := range full {
				full[i] ^= 0xa5
			}
		}
	}
	e.c.Class("pattern-" + pattern)
	if lv == 0 {
		delete(e.model, string(key))
	} else {
		e.model[string(key)] = verifSAClone(val)
	}
	e.hazard[string(key)] = pattern != "exact" || after != "untouched"
	e.dirty = true
	e.phase = "before-save"
	if lv > 0 && spare >= tail && (after != "untouched" || pattern == "reused") {
		e.nonTrivial = true
		e.c.Class("write-with-spare-capacity-then-overwritten")
	}
}

func (e *verifC08Env) readAll() {
	for ki, key := range e.keys {
		want := e.model[string(key)]
		var got []byte
		var err error
		e.c.NoPanic("C08:retrievevalue-panic", func() { got, err = e.acc.DataTrieTracker().RetrieveValue(verifSAClone(key)) })
		if len(want) == 0 {
			// an absent or deleted key reads as empty; RetrieveValue signals "no data trie" / "deleted, not saved
			// yet" with an error next to the empty value, which callers treat as empty
			if err != nil {
				if err != state.ErrNilTrie && err != state.ErrNegativeValue {
					e.c.Violation("C08:"+e.slug(key)+":read-error", "RetrieveValue(k%d) of an empty key returned %v [%s]", ki, err, e.traceText())
				}
				e.c.Class("empty-read-with-error")
			}
			if len(got) != 0 {
				e.c.Violation("C08:"+e.slug(key)+":deleted-key-not-empty", "k%d was deleted or never written but reads %s (%s) [%s]", ki, verifC08Short(got), e.phase, e.traceText())
			}
			continue
		}
		if err != nil {
			e.c.Violation("C08:"+e.slug(key)+":read-error", "RetrieveValue(k%d) returned %v, the key holds %d bytes [%s]", ki, err, len(want), e.traceText())
		}
		if !bytes.Equal(got, want) {
			e.c.Violation("C08:"+e.slug(key)+":value-differs", "k%d reads %s, written %s (%s) [%s]", ki, verifC08Short(got), verifC08Short(want), e.phase, e.traceText())
		}
	}
	e.c.Class("read-" + e.phase)
}

func (e *verifC08Env) checkLeaves() {
	tr := e.acc.DataTrie()
	for ki, key := range e.keys {
		want := e.model[string(key)]
		var leaf []byte
		if tr != nil && !tr.IsInterfaceNil() {
			var err error
			leaf, err = tr.Get(verifSAClone(key))
			e.fixture(err, "DataTrie().Get")
		}
		var expected []byte
		if len(want) > 0 {
			expected = append(append(verifSAClone(want), key...), e.addr...)
		}
		if !bytes.Equal(leaf, expected) {
			e.c.Violation("C08:"+e.slug(key)+":leaf-bytes", "data trie leaf of k%d is %s, expected value||key||address = %s (%s) [%s]", ki, verifC08Short(leaf), verifC08Short(expected), e.phase, e.traceText())
		}
	}
}

func (e *verifC08Env) opSave() {
	e.logf("save")
	e.fixture(e.f.Adb.SaveAccount(e.acc), "SaveAccount")
	e.dirty = false
	e.phase = "after-save"
	e.checkLeaves()
	e.readAll()
}

func (e *verifC08Env) reload(phase string) {
	acc, err := e.f.Adb.LoadAccount(e.addr)
	if err != nil {
		// the account was saved (and possibly committed) without error: not being able to load it again means that
		// nothing of what was written can be read back
		e.c.Violation("C08:readback:"+phase+":account-unloadable", "LoadAccount fails (%s): %v [%s]", phase, err, e.traceText())
	}
	e.acc = acc.(state.UserAccountHandler)
	e.phase = phase
	e.checkLeaves()
	e.readAll()
}

func (e *verifC08Env) opCommit() {
	if e.dirty {
		e.opSave()
	}
	e.logf("commit+reload")
	_, err := e.f.Adb.Commit()
	e.fixture(err, "Commit")
	e.reload("after-commit")
}

// opRecreate: the account is removed and an account is created again at the same address (a contract that is
// destroyed and deployed again between two commits). Nothing of the old storage may be read through the new
// account, and everything written to the new account must be read back like for any other account. No journal
// revert crosses the removal (that is the subject of C06). RemoveAccount refuses accounts whose data trie has
// uncommitted changes ("hash not found") or that were never saved: then the caller reverts to the journal length
// taken just before, as scProcessor does, and goes on with the account as it was.
func (e *verifC08Env) opRecreate() {
	if e.dirty {
		e.opSave()
	}
	how := rapid.SampledFrom([]string{"trie cached (commit, reload)", "trie not cached (commit)", "no commit"}).Draw(e.rt, "recreateHow")
	if how != "no commit" {
		_, err := e.f.Adb.Commit()
		e.fixture(err, "Commit")
		if how == "trie cached (commit, reload)" {
			e.reload("after-commit")
		}
	}
	jl := e.f.Adb.JournalLen()
	err := e.f.Adb.RemoveAccount(e.addr)
	if err != nil {
		e.logf("remove rejected (%s)", how)
		e.c.Class("remove-rejected")
		e.fixture(e.f.Adb.RevertToSnapshot(jl), "RevertToSnapshot")
		e.reload("after-reload")
		return
	}
	e.logf("remove+recreate (%s)", how)
	e.c.Class("recreate: " + how)
	e.model = map[string][]byte{}
	e.hazard = map[string]bool{}
	acc, err := e.f.Adb.LoadAccount(e.addr)
	e.fixture(err, "LoadAccount")
	e.acc = acc.(state.UserAccountHandler)
	e.phase = "after-recreate"
	e.recreated = true
	e.readAll()
}

func (e *verifC08Env) opReload() {
	if e.dirty {
		e.opSave()
	}
	e.logf("reload")
	e.reload("after-reload")
}

func verifC08Program(rt *rapid.T, c *kit.Case) {
	f, err := verifSANewFixture(verifSAConfig{
		EwlCacheSize:      uint(rapid.IntRange(1, 100).Draw(rt, "ewlSize")),
		MaxTrieLevelInMem: uint(rapid.IntRange(1, 6).Draw(rt, "maxTrieLevel")),
		PruningBufferLen:  1000,
	})
	if err != nil {
		rt.Fatalf("fixture: %v", err)
	}
	defer f.Close()
	e := &verifC08Env{rt: rt, c: c, f: f, model: map[string][]byte{}, hazard: map[string]bool{}, phase: "before-save"}
	e.addr = bytes.Repeat([]byte{rapid.Byte().Draw(rt, "addrFill")}, 32)
	e.addr[31] = rapid.Byte().Draw(rt, "addrTail")
	nKeys := rapid.IntRange(1, 5).Draw(rt, "nKeys")
	for i := 0; i < nKeys; i++ {
		var k []byte
		if i == 0 && rapid.IntRange(0, 7).Draw(rt, "emptyKey") == 0 {
			k = []byte{}
		} else {
			// distinct by construction (first byte); shared tails give shared trie paths
			k = append([]byte{byte(i + 1)}, verifSAGenBytes(rt, 0, 39, "keyRest")...)
		}
		e.keys = append(e.keys, k)
	}
	acc, err := f.Adb.LoadAccount(e.addr)
	e.fixture(err, "LoadAccount")
	e.acc = acc.(state.UserAccountHandler)

	steps := rapid.IntRange(1, 25).Draw(rt, "steps")
	for s := 0; s < steps; s++ {
		switch op := rapid.IntRange(0, 20).Draw(rt, "op"); {
		case op < 10:
			e.opWrite()
		case op < 14:
			e.readAll()
		case op < 17:
			e.opSave()
		case op < 18:
			e.opCommit()
		case op < 19:
			e.opReload()
		default:
			e.opRecreate()
		}
	}
	// every program ends with the full chain: read, save, read, reload, read, commit, reload, read
	e.readAll()
	e.opSave()
	e.opReload()
	e.opCommit()
	if e.recreated {
		c.Class("program-with-recreate")
	}
	if e.nonTrivial {
		c.NonTrivial(e.traceText())
		c.Sample("%s", e.traceText())
	}
}

func TestVerifC08_StorageReadBack(t *testing.T) {
	kit.Run(t, "C08", kit.Budget{Quick: 4000, Thorough: 60000},
		"programs of <=25 steps on one account of a real AccountsDB: writes of 1-5 keys (0-40 bytes) with values of 0-200 bytes (thorough: up to 70 000; tails equal to key, address, key||address; empty = delete) passed in 6 buffer layouts (exact copies, value with spare capacity, key with spare capacity, key|value|spare and value|key|spare in one array, reused scratch buffer) and the caller memory left alone / spare overwritten / completely overwritten after the call; the account may be removed and created again at the same address between commits (old data trie cached or not); reads before SaveAccount, after it, after Commit, after reload must equal private copies taken before the call (keys of a removed incarnation read empty); data-trie leaf == value||key||address; non-trivial = a non-empty write whose value buffer has spare capacity >= len(key)+32 and is overwritten or reused afterwards",
		verifC08Program)
}

// Regression: the fixed over-limit probe and the minimal buffer-sharing counterexamples.
func TestVerifC08_Regress(t *testing.T) {
	kit.Silence()
	addr := bytes.Repeat([]byte{0x42}, 32)
	newTracker := func() (*verifSAFixture, state.UserAccountHandler) {
		f, err := verifSANewFixture(verifSAConfig{EwlCacheSize: 100, MaxTrieLevelInMem: 5, PruningBufferLen: 1000})
		if err != nil {
			t.Fatalf("fixture: %v", err)
		}
		acc, err := f.Adb.LoadAccount(addr)
		if err != nil {
			t.Fatalf("fixture: %v", err)
		}
		return f, acc.(state.UserAccountHandler)
	}

	// 1. leaf size limit: one byte over the limit is refused, nothing is stored
	f, acc := newTracker()
	err := acc.DataTrieTracker().SaveKeyValue([]byte("key"), make([]byte, core.MaxLeafSize+1))
	if err != data.ErrLeafSizeTooBig {
		kit.FailPlain(t, "C08", "C08:over-limit-accepted", "value of MaxLeafSize+1 bytes: got error %v, want ErrLeafSizeTooBig", err)
	}
	if len(acc.DataTrieTracker().DirtyData()) != 0 {
		kit.FailPlain(t, "C08", "C08:over-limit-accepted", "a refused value left dirty data behind")
	}
	f.Close()

	// 2. value buffer with spare capacity, overwritten by the caller after the call
	f, acc = newTracker()
	key := []byte("k")
	buf := make([]byte, 5, 5+len(key)+len(addr))
	copy(buf, "hello")
	if err = acc.DataTrieTracker().SaveKeyValue(key, buf); err != nil {
		t.Fatalf("fixture: %v", err)
	}
	copy(buf, "XXXXX") // the caller reuses its buffer
	got, err := acc.DataTrieTracker().RetrieveValue(key)
	if err != nil || string(got) != "hello" {
		kit.FailPlain(t, "C08", "C08:caller-buffer:before-save:value-differs",
			"v := make([]byte,5,38)=\"hello\"; SaveKeyValue(\"k\", v); copy(v,\"XXXXX\"); RetrieveValue(\"k\") = %q (err %v), want \"hello\"", got, err)
	}
	f.Close()

	// 3. key and value carved from one array: the call itself overwrites the value
	f, acc = newTracker()
	arr := make([]byte, 1+5+64)
	arr[0] = 'k'
	copy(arr[1:], "hello")
	if err = acc.DataTrieTracker().SaveKeyValue(arr[:1], arr[1:6]); err != nil {
		t.Fatalf("fixture: %v", err)
	}
	got, err = acc.DataTrieTracker().RetrieveValue([]byte("k"))
	if err != nil || string(got) != "hello" {
		kit.FailPlain(t, "C08", "C08:caller-buffer:before-save:value-differs",
			"arr := \"k\"+\"hello\"+64 spare bytes; SaveKeyValue(arr[:1], arr[1:6]); RetrieveValue(\"k\") = %q (err %v), want \"hello\"", got, err)
	}
	f.Close()
}
