package headerCheck

import (
	"bytes"
	"crypto/sha256"
	"fmt"
	"math/big"
	"math/bits"
	"sort"
	"strings"
	"sync"
	"testing"

	"github.com/ElrondNetwork/elrond-go/core"
	"github.com/ElrondNetwork/elrond-go/crypto"
	"github.com/ElrondNetwork/elrond-go/crypto/signing"
	"github.com/ElrondNetwork/elrond-go/crypto/signing/mcl"
	mclMultiSig "github.com/ElrondNetwork/elrond-go/crypto/signing/mcl/multisig"
	"github.com/ElrondNetwork/elrond-go/crypto/signing/multisig"
	"github.com/ElrondNetwork/elrond-go/data"
	dataBlock "github.com/ElrondNetwork/elrond-go/data/block"
	"github.com/ElrondNetwork/elrond-go/dataRetriever"
	"github.com/ElrondNetwork/elrond-go/fallback"
	"github.com/ElrondNetwork/elrond-go/hashing"
	"github.com/ElrondNetwork/elrond-go/hashing/blake2b"
	"github.com/ElrondNetwork/elrond-go/marshal"
	"github.com/ElrondNetwork/elrond-go/process"
	"github.com/ElrondNetwork/elrond-go/process/mock"
	"github.com/ElrondNetwork/elrond-go/storage"
	"github.com/ElrondNetwork/elrond-go/testscommon"
	kit "github.com/ElrondNetwork/elrond-go/verifkit"
	"pgregory.net/rapid"
)

// C17: Accepted blocks carry a BFT quorum of signatures.
//
// Real HeaderSigVerifier + real BLS multisigner (mcl). The nodes coordinator is a stub that returns
// the drawn group. The aggregated signature is really produced by a drawn signer set S over the real
// header hash; the bitmap is drawn independently of S (exact, plus padding bits, plus bits of
// non-signers, minus bits, random, wrong length).
//
// Oracle (only what the statement says):
//   accepted  =>  |{i < n : bit i of bitmap}| >= threshold          (padding / foreign bits never count)
//   accepted  =>  |S| >= threshold                                  (that many members really contributed)
//   accepted  =>  the same header with the padding bits cleared is accepted too (padding is irrelevant)
// threshold = floor(2n/3)+1, or floor(n/2)+1 in the class where the fallback validator says "fallback".
//
// Known finding C17:padding-bits-counted (see verifC17KeyPadding): verifyConsensusSize counts the padding bits of
// the last bitmap byte. Exactly that class is reported under that key (excluded by the known-findings mechanism,
// the search continues); anything else keeps its own key and stays a violation.

const verifC17PoolSize = 67 // prime: any stride 1..66 enumerates the pool

// verifC17KeyPadding is the one key of the recorded defect (KNOWN_FINDINGS.json): a header is accepted whose bits of
// indices < n are fewer than the threshold while the popcount over the whole bitmap, padding bits of the last byte
// included, reaches it. Every other way of accepting a header below the quorum has another key.
const verifC17KeyPadding = "C17:padding-bits-counted"

type verifC17Fixture struct {
	kg      crypto.KeyGenerator
	ll      crypto.LowLevelSignerBLS
	privs   []crypto.PrivateKey
	pubs    []string
	pubKeys []crypto.PublicKey
	hasher  hashing.Hasher
	marsh   marshal.Marshalizer
	baseMS  crypto.MultiSigner
	initErr error
}

var (
	verifC17Once sync.Once
	verifC17Fix  *verifC17Fixture
)

// deterministic key pool: private key i = sha256("verif-c17-key" || i) with both end bytes cleared so that
// the value is below the group order whatever the byte order of the scalar encoding.
func verifC17GetFixture() *verifC17Fixture {
	verifC17Once.Do(func() {
		f := &verifC17Fixture{}
		verifC17Fix = f
		suite := mcl.NewSuiteBLS12()
		f.kg = signing.NewKeyGenerator(suite)
		msHasher, err := blake2b.NewBlake2bWithSize(multisig.BlsHashSize)
		if err != nil {
			f.initErr = err
			return
		}
		f.ll = &mclMultiSig.BlsMultiSigner{Hasher: msHasher}
		f.hasher = blake2b.NewBlake2b()
		f.marsh = &marshal.GogoProtoMarshalizer{}
		for i := 0; i < verifC17PoolSize; i++ {
			h := sha256.Sum256([]byte(fmt.Sprintf("verif-c17-key-%d", i)))
			h[0], h[31] = 0, 0
			h[1] |= 1
			sk, err := f.kg.PrivateKeyFromByteArray(h[:])
			if err != nil {
				f.initErr = fmt.Errorf("private key %d: %w", i, err)
				return
			}
			pk := sk.GeneratePublic()
			f.pubKeys = append(f.pubKeys, pk)
			pkb, err := pk.ToByteArray()
			if err != nil {
				f.initErr = err
				return
			}
			f.privs = append(f.privs, sk)
			f.pubs = append(f.pubs, string(pkb))
		}
		// the node's own multisigner, as built by factory/cryptoComponents.go (own key only)
		f.baseMS, f.initErr = multisig.NewBLSMultisig(f.ll, []string{f.pubs[0]}, f.privs[0], f.kg, 0)
	})
	return verifC17Fix
}

func verifC17Threshold(n int, fallback bool) int {
	// independent of core.GetPBFTThreshold: the smallest k with 3k > 2n (resp. 2k > n)
	k := 0
	if fallback {
		for 2*k <= n {
			k++
		}
		return k
	}
	for 3*k <= 2*n {
		k++
	}
	return k
}

func verifC17Bit(b []byte, i int) bool {
	return i/8 < len(b) && b[i/8]&(1<<uint(i%8)) != 0
}

func verifC17SetBit(b []byte, i int) {
	if i/8 < len(b) {
		b[i/8] |= 1 << uint(i%8)
	}
}

func verifC17ClearBit(b []byte, i int) {
	if i/8 < len(b) {
		b[i/8] &^= 1 << uint(i%8)
	}
}

func verifC17InGroupCount(b []byte, n int) int {
	c := 0
	for i := 0; i < n; i++ {
		if verifC17Bit(b, i) {
			c++
		}
	}
	return c
}

func verifC17ForeignCount(b []byte, n int) int {
	c := 0
	for i := n; i < 8*len(b); i++ {
		if verifC17Bit(b, i) {
			c++
		}
	}
	return c
}

// sign produces the aggregated BLS multi-signature of the members `signers` (indices into group) over msg:
// every signer creates its share with its own private key, the shares are aggregated together with the public
// keys of exactly the signers, in group order (the low-level calls blsMultiSigner.CreateSignatureShare and
// AggregateSigs make for the leader; calling them directly avoids re-parsing the n public keys per signer).
func (f *verifC17Fixture) sign(group []int, signers []int, msg []byte) ([]byte, error) {
	shares := make([][]byte, 0, len(signers))
	pks := make([]crypto.PublicKey, 0, len(signers))
	for _, s := range signers {
		share, err := f.ll.SignShare(f.privs[group[s]], msg)
		if err != nil {
			return nil, err
		}
		shares = append(shares, share)
		pks = append(pks, f.pubKeys[group[s]])
	}
	return f.ll.AggregateSignatures(f.kg.Suite(), shares, pks)
}

// signViaMultiSigner is the same through the high-level crypto.MultiSigner API (used by the fixture test to
// make sure both ways give the same signature).
func (f *verifC17Fixture) signViaMultiSigner(group []int, signers []int, msg []byte) ([]byte, error) {
	pubs := make([]string, len(group))
	for i, g := range group {
		pubs[i] = f.pubs[g]
	}
	exact := make([]byte, (len(group)+7)/8)
	leader, err := multisig.NewBLSMultisig(f.ll, pubs, f.privs[group[signers[0]]], f.kg, uint16(signers[0]))
	if err != nil {
		return nil, err
	}
	for _, s := range signers {
		ms, err := multisig.NewBLSMultisig(f.ll, pubs, f.privs[group[s]], f.kg, uint16(s))
		if err != nil {
			return nil, err
		}
		share, err := ms.CreateSignatureShare(msg, nil)
		if err != nil {
			return nil, err
		}
		if err = leader.StoreSignatureShare(uint16(s), share); err != nil {
			return nil, err
		}
		verifC17SetBit(exact, s)
	}
	return leader.AggregateSigs(exact)
}

func (f *verifC17Fixture) verifier(group []int, fallback bool) (*HeaderSigVerifier, error) {
	return f.verifierWith(group, &testscommon.FallBackHeaderValidatorStub{
		ShouldApplyFallbackValidationCalled: func(_ data.HeaderHandler) bool { return fallback },
	})
}

func (f *verifC17Fixture) verifierWith(group []int, fallbackValidator process.FallbackHeaderValidator) (*HeaderSigVerifier, error) {
	pubs := make([]string, len(group))
	for i, g := range group {
		pubs[i] = f.pubs[g]
	}
	return NewHeaderSigVerifier(&ArgsHeaderSigVerifier{
		Marshalizer: f.marsh,
		Hasher:      f.hasher,
		NodesCoordinator: &mock.NodesCoordinatorMock{
			GetValidatorsPublicKeysCalled: func(_ []byte, _ uint64, _ uint32, _ uint32) ([]string, error) {
				return pubs, nil
			},
		},
		MultiSigVerifier:        f.baseMS,
		SingleSigVerifier:       &mock.SignerMock{},
		KeyGen:                  f.kg,
		FallbackHeaderValidator: fallbackValidator,
	})
}

func (f *verifC17Fixture) signedHash(h data.HeaderHandler) ([]byte, error) {
	// the signed message: hash of the header without Signature, PubKeysBitmap, LeaderSignature
	// (what consensus/spos/bls subroundEndRound signs), computed here without the verifier's helper.
	c := h.Clone()
	c.SetSignature(nil)
	c.SetPubKeysBitmap(nil)
	c.SetLeaderSignature(nil)
	return core.CalculateHash(f.marsh, f.hasher, c)
}

func verifC17GenHeader(rt *rapid.T) data.HeaderHandler {
	bytesGen := rapid.SliceOfN(rapid.Byte(), 1, 32)
	if rapid.IntRange(0, 3).Draw(rt, "meta") == 3 {
		return &dataBlock.MetaBlock{
			Nonce:                  rapid.Uint64Range(0, 1<<40).Draw(rt, "nonce"),
			Epoch:                  rapid.Uint32Range(0, 3).Draw(rt, "epoch"),
			Round:                  rapid.Uint64Range(0, 1<<40).Draw(rt, "round"),
			PrevHash:               bytesGen.Draw(rt, "prevHash"),
			PrevRandSeed:           bytesGen.Draw(rt, "prevRandSeed"),
			RandSeed:               bytesGen.Draw(rt, "randSeed"),
			RootHash:               bytesGen.Draw(rt, "rootHash"),
			LeaderSignature:        bytesGen.Draw(rt, "leaderSig"),
			ChainID:                []byte("1"),
			AccumulatedFees:        big.NewInt(int64(rapid.IntRange(0, 1000).Draw(rt, "fees"))),
			AccumulatedFeesInEpoch: big.NewInt(0),
			DeveloperFees:          big.NewInt(0),
			DevFeesInEpoch:         big.NewInt(0),
			EpochStart: dataBlock.EpochStart{Economics: dataBlock.Economics{
				TotalSupply: big.NewInt(0), TotalToDistribute: big.NewInt(0), TotalNewlyMinted: big.NewInt(0),
				RewardsPerBlock: big.NewInt(0), NodePrice: big.NewInt(0), RewardsForProtocolSustainability: big.NewInt(0)}},
		}
	}
	return &dataBlock.Header{
		Nonce:           rapid.Uint64Range(0, 1<<40).Draw(rt, "nonce"),
		Epoch:           rapid.Uint32Range(0, 3).Draw(rt, "epoch"),
		Round:           rapid.Uint64Range(0, 1<<40).Draw(rt, "round"),
		ShardID:         rapid.Uint32Range(0, 2).Draw(rt, "shard"),
		PrevHash:        bytesGen.Draw(rt, "prevHash"),
		PrevRandSeed:    bytesGen.Draw(rt, "prevRandSeed"),
		RandSeed:        bytesGen.Draw(rt, "randSeed"),
		RootHash:        bytesGen.Draw(rt, "rootHash"),
		LeaderSignature: bytesGen.Draw(rt, "leaderSig"),
		ChainID:         []byte("1"),
		AccumulatedFees: big.NewInt(int64(rapid.IntRange(0, 1000).Draw(rt, "fees"))),
		DeveloperFees:   big.NewInt(0),
		TxCount:         rapid.Uint32Range(0, 100).Draw(rt, "txCount"),
	}
}

type verifC17Case struct {
	n        int
	group    []int // pool indices
	fallback bool
	thr      int
	signers  []int // sorted member indices
	bitmap   []byte
	mode     string
	tampered bool
	shape    string // large-group cases only: how the signer set and the extra bits were placed
}

func (vc *verifC17Case) String() string {
	s := fmt.Sprintf("n=%d threshold=%d fallback=%v signers(%d)=%v bitmap=%08b mode=%s tampered=%v",
		vc.n, vc.thr, vc.fallback, len(vc.signers), vc.signers, vc.bitmap, vc.mode, vc.tampered)
	if vc.shape != "" {
		s += " shape=" + vc.shape
	}
	return s
}

func verifC17GenCase(rt *rapid.T, maxN int) *verifC17Case {
	return verifC17GenCaseOdds(rt, maxN, 7)
}

// fallbackOdds: the signer count is aimed at the fallback threshold in 1 of fallbackOdds+1 cases
func verifC17GenCaseOdds(rt *rapid.T, maxN int, fallbackOdds int) *verifC17Case {
	vc := &verifC17Case{}
	switch rapid.IntRange(0, 19).Draw(rt, "nKind") { // low draws = simple cases, so that shrinking simplifies
	case 18:
		vc.n = 63
	case 19:
		vc.n = rapid.IntRange(25, verifC17PoolSize).Draw(rt, "nBig")
	default:
		vc.n = rapid.IntRange(1, 24).Draw(rt, "n")
	}
	if vc.n > maxN {
		vc.n = 1 + vc.n%maxN
	}
	n := vc.n
	off := rapid.IntRange(0, verifC17PoolSize-1).Draw(rt, "poolOffset")
	stride := rapid.IntRange(1, verifC17PoolSize-1).Draw(rt, "poolStride")
	for i := 0; i < n; i++ {
		vc.group = append(vc.group, (off+i*stride)%verifC17PoolSize)
	}
	vc.fallback = rapid.IntRange(0, fallbackOdds).Draw(rt, "fallback") == fallbackOdds
	vc.thr = verifC17Threshold(n, vc.fallback)
	t := vc.thr

	// number of real signers, concentrated around the threshold
	var k int
	switch rapid.IntRange(0, 11).Draw(rt, "kKind") {
	case 0:
		k = t - 2
	case 1, 2, 3, 4:
		k = t - 1
	case 5, 6, 7:
		k = t
	case 8:
		k = t + 1
	case 9:
		k = n
	case 10:
		// between the fallback threshold and the normal one
		k = rapid.IntRange(n/2, t).Draw(rt, "kMid")
	default:
		k = rapid.IntRange(1, n).Draw(rt, "k")
	}
	if k < 1 {
		k = 1
	}
	if k > n {
		k = n
	}

	// which members sign
	member := make([]bool, n)
	switch rapid.IntRange(0, 5).Draw(rt, "sKind") {
	case 0: // the first k
		for i := 0; i < k; i++ {
			member[i] = true
		}
	case 1: // leader + the last k-1
		member[0] = true
		for i := 0; i < k-1; i++ {
			member[n-1-i] = true
		}
	default: // random subset; the leader is in unless noLeader is drawn
		perm := make([]int, n)
		for i := range perm {
			perm[i] = i
		}
		start := 1
		if rapid.IntRange(0, 7).Draw(rt, "noLeader") == 7 {
			start = 0
		}
		for i := start; i < n-1; i++ {
			j := rapid.IntRange(i, n-1).Draw(rt, "perm")
			perm[i], perm[j] = perm[j], perm[i]
		}
		for i := 0; i < k; i++ {
			member[perm[i]] = true
		}
	}
	for i := 0; i < n; i++ {
		if member[i] {
			vc.signers = append(vc.signers, i)
		}
	}

	// bitmap
	size := (n + 7) / 8
	exact := make([]byte, size)
	for _, s := range vc.signers {
		verifC17SetBit(exact, s)
	}
	b := append([]byte(nil), exact...)
	padding := make([]int, 0, 8)
	for i := n; i < 8*size; i++ {
		padding = append(padding, i)
	}
	nonSigners := make([]int, 0, n)
	for i := 0; i < n; i++ {
		if !member[i] {
			nonSigners = append(nonSigners, i)
		}
	}
	modeKind := rapid.IntRange(0, 15).Draw(rt, "bitmapMode")
	if len(padding) == 0 && modeKind >= 1 && modeKind <= 6 && rapid.Bool().Draw(rt, "noPaddingFallback") {
		modeKind = 12 // extra byte plays the role of padding when n is a multiple of 8
	}
	switch modeKind {
	case 0:
		vc.mode = "exact"
	case 1, 2, 3:
		vc.mode = "padding-some"
		for _, p := range padding {
			if rapid.Bool().Draw(rt, "padBit") {
				verifC17SetBit(b, p)
			}
		}
	case 4, 5, 6:
		// what a proposer short of signatures would try: claim the quorum with bits that nobody signed for,
		// padding positions first, then non-signers
		vc.mode = "fill-to-quorum"
		want := t + rapid.IntRange(0, 1).Draw(rt, "over")
		have := len(vc.signers)
		for _, p := range padding {
			if have >= want {
				break
			}
			verifC17SetBit(b, p)
			have++
		}
		if rapid.Bool().Draw(rt, "alsoNonSigners") {
			for _, p := range nonSigners {
				if have >= want {
					break
				}
				verifC17SetBit(b, p)
				have++
			}
		}
	case 7, 8:
		vc.mode = "plus-nonsigners"
		if len(nonSigners) > 0 {
			cnt := rapid.IntRange(1, 3).Draw(rt, "extra")
			for i := 0; i < cnt; i++ {
				verifC17SetBit(b, nonSigners[rapid.IntRange(0, len(nonSigners)-1).Draw(rt, "extraIdx")])
			}
		}
	case 9:
		vc.mode = "minus-signers"
		cnt := rapid.IntRange(1, 2).Draw(rt, "drop")
		for i := 0; i < cnt; i++ {
			verifC17ClearBit(b, vc.signers[rapid.IntRange(0, len(vc.signers)-1).Draw(rt, "dropIdx")])
		}
	case 10:
		vc.mode = "all-ones"
		for i := range b {
			b[i] = 0xff
		}
	case 11:
		vc.mode = "random"
		b = rapid.SliceOfN(rapid.Byte(), size, size).Draw(rt, "randomBitmap")
		b[0] |= 1
	case 12, 13:
		vc.mode = "longer"
		extra := rapid.SliceOfN(rapid.Byte(), 1, 2).Draw(rt, "extraBytes")
		if rapid.Bool().Draw(rt, "extraFull") {
			for i := range extra {
				extra[i] = 0xff
			}
		}
		b = append(b, extra...)
	case 14:
		vc.mode = "shorter"
		b = b[:len(b)-1]
	default:
		vc.mode = "padding-all"
		for _, p := range padding {
			verifC17SetBit(b, p)
		}
	}
	vc.bitmap = b
	vc.tampered = rapid.IntRange(0, 11).Draw(rt, "tamper") == 11
	return vc
}

func verifC17Run(t *testing.T, maxN int, budget kit.Budget, rule string) {
	f := verifC17GetFixture()
	if f.initErr != nil {
		t.Fatalf("fixture: %v", f.initErr)
	}
	kit.Run(t, "C17", budget, rule, func(rt *rapid.T, c *kit.Case) {
		vc := verifC17GenCase(rt, maxN)
		hdr := verifC17GenHeader(rt)

		hash, err := f.signedHash(hdr)
		if err != nil {
			rt.Fatalf("fixture: header hash: %v", err)
		}
		sig, err := f.sign(vc.group, vc.signers, hash)
		if err != nil {
			rt.Fatalf("fixture: signing: %v", err)
		}
		contributors := len(vc.signers)
		if vc.tampered {
			// the header is changed after it was signed: nobody contributed to a signature over *this* header
			hdr.SetNonce(hdr.GetNonce() + 1)
			contributors = 0
		}
		hdr.SetSignature(sig)
		hdr.SetPubKeysBitmap(append([]byte(nil), vc.bitmap...))

		hsv, err := f.verifier(vc.group, vc.fallback)
		if err != nil {
			rt.Fatalf("fixture: verifier: %v", err)
		}

		verifC17Judge(c, hsv, hdr, vc, contributors)
	})
}

// verifC17Judge is the oracle shared by the small-group and the large-group test: hdr carries the aggregated
// signature and the bitmap of vc; contributors = number of distinct members that really signed this header.
func verifC17Judge(c *kit.Case, hsv *HeaderSigVerifier, hdr data.HeaderHandler, vc *verifC17Case, contributors int) {
	n, thr := vc.n, vc.thr
	inGroup := verifC17InGroupCount(vc.bitmap, n)
	foreign := verifC17ForeignCount(vc.bitmap, n)
	expectedLen := len(vc.bitmap) == (n+7)/8

	c.Class("mode:" + vc.mode)
	c.Class(fmt.Sprintf("n%%8=%d", n%8))
	if vc.fallback {
		c.Class("fallback")
	}
	if foreign > 0 {
		c.Class("foreign-bits-set")
	}
	if vc.tampered {
		c.Class("tampered-after-signing")
	}
	nearQuorum := len(vc.signers) == thr-1 || len(vc.signers) == thr
	if nearQuorum && expectedLen && verifC17Bit(vc.bitmap, 0) {
		c.NonTrivial(fmt.Sprint(n, vc.fallback, vc.signers, vc.bitmap, vc.tampered))
		if foreign > 0 {
			c.Class("nontrivial-with-padding-bits")
			c.Sample("%s", vc)
		}
	}

	var verdict error
	c.NoPanic("C17:verify-panic", func() { verdict = hsv.VerifySignature(hdr) })
	if verdict != nil {
		c.Class("rejected")
		bitsAreSigners := inGroup == len(vc.signers)
		for _, s := range vc.signers {
			bitsAreSigners = bitsAreSigners && verifC17Bit(vc.bitmap, s)
		}
		if !vc.tampered && expectedLen && foreign == 0 && bitsAreSigners && verifC17Bit(vc.bitmap, 0) && len(vc.signers) >= thr {
			// honest header with a quorum: measured only (completeness is not part of the statement)
			c.Class("honest-quorum-rejected")
		}
		return
	}
	c.Class("accepted")
	if inGroup < thr && expectedLen && inGroup+foreign >= thr {
		// exactly the recorded defect class: the quorum is only reached when the unused (padding) bits of the
		// last bitmap byte are counted as signatures
		c.Violation(verifC17KeyPadding,
			"accepted although only %d bitmap bits belong to group members (< threshold %d): the %d padding bits of the last byte were counted: %s",
			inGroup, thr, foreign, vc)
	}
	if inGroup < thr {
		c.Violation("C17:accepted-below-quorum-bits",
			"accepted although only %d bitmap bits belong to group members (< threshold %d); %d bits outside the group were set: %s",
			inGroup, thr, foreign, vc)
	}
	if contributors < thr {
		c.Violation("C17:accepted-below-quorum-signers",
			"accepted although only %d members contributed to the aggregated signature (< threshold %d): %s",
			contributors, thr, vc)
	}
	if foreign > 0 {
		c.Class("accepted-with-foreign-bits")
		// metamorphic: bits outside the group never matter -> clearing them keeps the header accepted
		clean := append([]byte(nil), vc.bitmap...)
		for i := n; i < 8*len(clean); i++ {
			verifC17ClearBit(clean, i)
		}
		if expectedLen {
			hdr.SetPubKeysBitmap(clean)
			var v2 error
			c.NoPanic("C17:verify-panic", func() { v2 = hsv.VerifySignature(hdr) })
			if v2 != nil {
				c.Violation("C17:padding-bits-changed-verdict",
					"accepted with padding bits set but rejected (%v) once they are cleared: %s", v2, vc)
			}
		}
	}
}

func TestVerifC17_Quorum(t *testing.T) {
	maxN := 24
	if kit.Thorough() {
		maxN = verifC17PoolSize
	}
	verifC17Run(t, maxN, kit.Budget{Quick: 1500, Thorough: 15000},
		"group of n=1..24 (thorough: 5% n=63, 5% n in 25..67) distinct BLS keys; signer set S with |S| around the threshold (t-2..t+1, n, n/2..t, uniform); aggregated signature really produced by S over the real header hash (8% of cases: header changed after signing); bitmap = exact / + padding bits / filled up to the quorum with padding and non-signer bits / + non-signer bits / - signer bits / all ones / random / one or two bytes longer / one byte shorter; 1 in 8 cases uses the fallback threshold n/2+1; non-trivial = |S| in {t-1,t}, bitmap of the expected length with the proposer bit set; distinct by (n, fallback, S, bitmap, tampered)")
}

// Fixture sanity, not a property: an honest header (exact bitmap, leader included, quorum reached) must be
// accepted, otherwise the way this harness signs does not match the verifier and TestVerifC17_Quorum would be
// vacuous. Reported as a fixture failure (INCONCLUSIVE), never as a violation.
func TestVerifC17_FixtureHonestAccepted(t *testing.T) {
	kit.Silence()
	f := verifC17GetFixture()
	if f.initErr != nil {
		t.Fatalf("fixture: %v", f.initErr)
	}
	for _, n := range []int{1, 2, 3, 7, 8, 9, 15, 16, 17, 24} {
		group := make([]int, n)
		for i := range group {
			group[i] = (3 + 5*i) % verifC17PoolSize
		}
		thr := verifC17Threshold(n, false)
		signers := make([]int, 0, thr)
		signers = append(signers, 0)
		for i := n - 1; len(signers) < thr; i-- {
			signers = append(signers, i)
		}
		hdr := &dataBlock.Header{Nonce: uint64(n), PrevRandSeed: []byte("seed"), RandSeed: []byte("rnd"), ChainID: []byte("1"),
			AccumulatedFees: big.NewInt(0), DeveloperFees: big.NewInt(0)}
		hash, err := f.signedHash(hdr)
		if err != nil {
			t.Fatalf("fixture: %v", err)
		}
		sort.Ints(signers)
		sig, err := f.sign(group, signers, hash)
		if err != nil {
			t.Fatalf("fixture: %v", err)
		}
		sort.Ints(signers)
		sig2, err := f.signViaMultiSigner(group, signers, hash)
		if err != nil {
			t.Fatalf("fixture: %v", err)
		}
		if !bytes.Equal(sig, sig2) {
			t.Fatalf("fixture: low-level and MultiSigner aggregation differ for n=%d", n)
		}
		bm := make([]byte, (n+7)/8)
		for _, s := range signers {
			verifC17SetBit(bm, s)
		}
		hdr.Signature = sig
		hdr.PubKeysBitmap = bm
		hsv, err := f.verifier(group, false)
		if err != nil {
			t.Fatalf("fixture: %v", err)
		}
		if err = hsv.VerifySignature(hdr); err != nil {
			t.Fatalf("fixture: honest header with n=%d, %d signers %v, bitmap %08b rejected: %v", n, len(signers), signers, bm, err)
		}
	}
}

// Regression: minimal counterexamples of the padding-bit defect (DESIGN.md section 4, suspicion 5).
func TestVerifC17_Regress(t *testing.T) {
	kit.Silence()
	f := verifC17GetFixture()
	if f.initErr != nil {
		t.Fatalf("fixture: %v", f.initErr)
	}
	type tc struct {
		n       int
		signers int // the first `signers` members sign
		extra   []int
	}
	for _, x := range []tc{
		{n: 2, signers: 1, extra: []int{2}},    // shrunk counterexample: threshold 2, one signer + one padding bit
		{n: 63, signers: 42, extra: []int{63}}, // mainnet shard group: threshold 43, 42 signers + the padding bit
		{n: 4, signers: 1, extra: []int{4, 5}}, // threshold 3, one signer + two padding bits
	} {
		group := make([]int, x.n)
		for i := range group {
			group[i] = i
		}
		signers := make([]int, x.signers)
		for i := range signers {
			signers[i] = i
		}
		hdr := &dataBlock.Header{Nonce: 7, PrevRandSeed: []byte("seed"), RandSeed: []byte("rnd"), ChainID: []byte("1"),
			AccumulatedFees: big.NewInt(0), DeveloperFees: big.NewInt(0)}
		hash, err := f.signedHash(hdr)
		if err != nil {
			t.Fatalf("fixture: %v", err)
		}
		sig, err := f.sign(group, signers, hash)
		if err != nil {
			t.Fatalf("fixture: %v", err)
		}
		bm := make([]byte, (x.n+7)/8)
		for _, s := range signers {
			verifC17SetBit(bm, s)
		}
		for _, e := range x.extra {
			verifC17SetBit(bm, e)
		}
		hdr.Signature = sig
		hdr.PubKeysBitmap = bm
		hsv, err := f.verifier(group, false)
		if err != nil {
			t.Fatalf("fixture: %v", err)
		}
		thr := verifC17Threshold(x.n, false)
		if err = hsv.VerifySignature(hdr); err == nil {
			kit.FailPlain(t, "C17", verifC17KeyPadding,
				"group of %d (threshold %d): header signed by the first %d members accepted with bitmap %08b (padding bits %v set)",
				x.n, thr, x.signers, bm, x.extra)
		}
	}
}

// Exhaustive small scope: for every group size n <= maxN (one bitmap byte), every non-empty signer set S and
// every one of the 256 bitmap bytes, the verdict of VerifySignature is compared with the oracle. Every
// (n, S, bitmap) triple with n <= 4 (quick) / n <= 6 (thorough) is decided, padding bits included.
func TestVerifC17_ExhaustiveOneByte(t *testing.T) {
	f := verifC17GetFixture()
	if f.initErr != nil {
		t.Fatalf("fixture: %v", f.initErr)
	}
	maxN := 4
	if kit.Thorough() {
		maxN = 6
	}
	p := kit.NewPlain(t, "C17", fmt.Sprintf("exhaustive: every group size n<=%d, every non-empty signer set, every bitmap byte 0..255 (normal threshold; fallback threshold for n<=3); non-trivial = |S| in {t-1,t} and proposer bit set", maxN))
	defer p.Done()
	for n := 1; n <= maxN; n++ {
		group := make([]int, n)
		for i := range group {
			group[i] = (11 + 3*i) % verifC17PoolSize
		}
		for _, fallback := range []bool{false, true} {
			if fallback && n > 3 {
				continue
			}
			thr := verifC17Threshold(n, fallback)
			hsv, err := f.verifier(group, fallback)
			if err != nil {
				t.Fatalf("fixture: %v", err)
			}
			for mask := 1; mask < 1<<uint(n); mask++ {
				var signers []int
				for i := 0; i < n; i++ {
					if mask&(1<<uint(i)) != 0 {
						signers = append(signers, i)
					}
				}
				hdr := &dataBlock.Header{Nonce: uint64(100*n + mask), PrevRandSeed: []byte("seed"), RandSeed: []byte("rnd"), ChainID: []byte("1"),
					AccumulatedFees: big.NewInt(0), DeveloperFees: big.NewInt(0)}
				hash, err := f.signedHash(hdr)
				if err != nil {
					t.Fatalf("fixture: %v", err)
				}
				sig, err := f.sign(group, signers, hash)
				if err != nil {
					t.Fatalf("fixture: %v", err)
				}
				hdr.Signature = sig
				for bm := 0; bm < 256; bm++ {
					hdr.PubKeysBitmap = []byte{byte(bm)}
					p.Eval(1)
					inGroup := verifC17InGroupCount(hdr.PubKeysBitmap, n)
					if (len(signers) == thr || len(signers) == thr-1) && bm&1 == 1 {
						p.NonTrivialN(uint64(n)<<32 | uint64(mask)<<16 | uint64(bm)<<1 | uint64(map[bool]int{false: 0, true: 1}[fallback]))
					}
					if hsv.VerifySignature(hdr) != nil {
						continue
					}
					p.Class("accepted", 1)
					if inGroup < thr || len(signers) < thr {
						p.Sample("n=%d S=%v bitmap=%08b", n, signers, bm)
						key := "C17:accepted-below-quorum-bits"
						switch {
						case inGroup < thr && bits.OnesCount8(uint8(bm)) >= thr:
							key = verifC17KeyPadding
						case inGroup >= thr:
							key = "C17:accepted-below-quorum-signers"
						}
						p.Violation(key,
							"group of %d (threshold %d, fallback %v): header signed by members %v accepted with bitmap %08b (%d in-group bits)",
							n, thr, fallback, signers, bm, inGroup)
					}
				}
			}
		}
	}
	p.Exhaustive()
}

// ---------------------------------------------------------------------------------------------------------------
// Large consensus groups (64..400 members; mainnet: 63 per shard, 400 on the metachain).
//
// Same oracle (verifC17Judge), same real verifier and multi-signer. To make a 400-member case affordable in the
// quick tier, the pool of 401 deterministic key pairs is generated once per process, the header is one of two fixed
// headers per process (a shard header and a meta block), so that the signature share of every pool key over each of
// them is computed once and cached; per case only the aggregation (for the drawn signer set) and the verification run.

const verifC17LargePoolSize = 401 // prime: any stride 1..400 enumerates the pool; >= the metachain group of 400

var verifC17LargeSizes = []int{64, 65, 72, 100, 255, 256, 257, 264, 400}

type verifC17LargeFixture struct {
	*verifC17Fixture
	lprivs   []crypto.PrivateKey
	lpubs    []string
	lpubKeys []crypto.PublicKey
	headers  []data.HeaderHandler // fixed, never modified (cases work on clones)
	hashes   [][]byte
	shares   [][][]byte // [header][pool index]
	initErr  error
}

var (
	verifC17LargeOnce sync.Once
	verifC17LargeFix  *verifC17LargeFixture
)

func verifC17GetLargeFixture() *verifC17LargeFixture {
	verifC17LargeOnce.Do(func() {
		lf := &verifC17LargeFixture{verifC17Fixture: verifC17GetFixture()}
		verifC17LargeFix = lf
		f := lf.verifC17Fixture
		if f.initErr != nil {
			lf.initErr = f.initErr
			return
		}
		lf.lprivs = append(lf.lprivs, f.privs...)
		lf.lpubs = append(lf.lpubs, f.pubs...)
		lf.lpubKeys = append(lf.lpubKeys, f.pubKeys...)
		for i := len(lf.lprivs); i < verifC17LargePoolSize; i++ {
			h := sha256.Sum256([]byte(fmt.Sprintf("verif-c17-key-%d", i)))
			h[0], h[31] = 0, 0
			h[1] |= 1
			sk, err := f.kg.PrivateKeyFromByteArray(h[:])
			if err != nil {
				lf.initErr = fmt.Errorf("private key %d: %w", i, err)
				return
			}
			pk := sk.GeneratePublic()
			pkb, err := pk.ToByteArray()
			if err != nil {
				lf.initErr = err
				return
			}
			lf.lprivs = append(lf.lprivs, sk)
			lf.lpubKeys = append(lf.lpubKeys, pk)
			lf.lpubs = append(lf.lpubs, string(pkb))
		}
		seen := map[string]bool{}
		for _, p := range lf.lpubs {
			if seen[p] {
				lf.initErr = fmt.Errorf("key pool contains a public key twice")
				return
			}
			seen[p] = true
		}
		zeroEconomics := dataBlock.Economics{TotalSupply: big.NewInt(0), TotalToDistribute: big.NewInt(0), TotalNewlyMinted: big.NewInt(0),
			RewardsPerBlock: big.NewInt(0), NodePrice: big.NewInt(0), RewardsForProtocolSustainability: big.NewInt(0)}
		lf.headers = []data.HeaderHandler{
			&dataBlock.Header{Nonce: 4711, Epoch: 2, Round: 4800, ShardID: 1, PrevHash: []byte("verif-c17 previous hash"),
				PrevRandSeed: []byte("verif-c17 previous seed"), RandSeed: []byte("verif-c17 seed"), RootHash: []byte("verif-c17 root"),
				LeaderSignature: []byte("leader signature"), ChainID: []byte("1"), AccumulatedFees: big.NewInt(17), DeveloperFees: big.NewInt(0), TxCount: 3},
			&dataBlock.MetaBlock{Nonce: 815, Epoch: 3, Round: 900, PrevHash: []byte("verif-c17 previous meta hash"),
				PrevRandSeed: []byte("verif-c17 previous meta seed"), RandSeed: []byte("verif-c17 meta seed"), RootHash: []byte("verif-c17 meta root"),
				LeaderSignature: []byte("leader signature"), ChainID: []byte("1"), AccumulatedFees: big.NewInt(400),
				AccumulatedFeesInEpoch: big.NewInt(0), DeveloperFees: big.NewInt(0), DevFeesInEpoch: big.NewInt(0),
				EpochStart: dataBlock.EpochStart{Economics: zeroEconomics}},
		}
		for _, h := range lf.headers {
			hash, err := f.signedHash(h)
			if err != nil {
				lf.initErr = err
				return
			}
			lf.hashes = append(lf.hashes, hash)
			shares := make([][]byte, verifC17LargePoolSize)
			for i := range shares {
				shares[i], err = f.ll.SignShare(lf.lprivs[i], hash)
				if err != nil {
					lf.initErr = err
					return
				}
			}
			lf.shares = append(lf.shares, shares)
		}
	})
	return verifC17LargeFix
}

// aggregate = what the leader does with the cached shares of the signers (group order)
func (lf *verifC17LargeFixture) aggregate(hdrIdx int, group []int, signers []int) ([]byte, error) {
	shares := make([][]byte, 0, len(signers))
	pks := make([]crypto.PublicKey, 0, len(signers))
	for _, s := range signers {
		shares = append(shares, lf.shares[hdrIdx][group[s]])
		pks = append(pks, lf.lpubKeys[group[s]])
	}
	return lf.ll.AggregateSignatures(lf.kg.Suite(), shares, pks)
}

func (lf *verifC17LargeFixture) largeVerifier(group []int, fallback bool) (*HeaderSigVerifier, error) {
	pubs := make([]string, len(group))
	for i, g := range group {
		pubs[i] = lf.lpubs[g]
	}
	return NewHeaderSigVerifier(&ArgsHeaderSigVerifier{
		Marshalizer: lf.marsh,
		Hasher:      lf.hasher,
		NodesCoordinator: &mock.NodesCoordinatorMock{
			GetValidatorsPublicKeysCalled: func(_ []byte, _ uint64, _ uint32, _ uint32) ([]string, error) {
				return pubs, nil
			},
		},
		MultiSigVerifier:  lf.baseMS,
		SingleSigVerifier: &mock.SignerMock{},
		KeyGen:            lf.kg,
		FallbackHeaderValidator: &testscommon.FallBackHeaderValidatorStub{
			ShouldApplyFallbackValidationCalled: func(_ data.HeaderHandler) bool { return fallback },
		},
	})
}

// verifC17GenLargeCase draws a group of 64..400 members, a signer set whose size is around the threshold and a bitmap
// crafted around it. Beyond the shapes of the small-group generator:
//   - signer sets: first k / leader + last k-1 / leader + a contiguous run at a drawn offset / random subset /
//     periodic in the member index with a power-of-two period 8..256 (S = {i : i mod p in P}, P grown in a drawn
//     order until |S| reaches k) - the class that tells apart index arithmetic done per byte, per machine word or in
//     a narrower integer type;
//   - the bits that nobody signed for (plus-nonsigners, fill-to-quorum) are taken from a drawn focus region: anywhere /
//     the members beyond the last multiple of the period (for non-periodic sets: of the largest power of two below n;
//     for n > 256 these are indices >= 256) / the last, partial 8-byte chunk of the bitmap / one byte position (0..7) of
//     every 8-byte chunk;
//   - padding bits as before.
func verifC17GenLargeCase(rt *rapid.T) *verifC17Case {
	vc := &verifC17Case{}
	switch kind := rapid.IntRange(0, 13).Draw(rt, "nKind"); {
	case kind < len(verifC17LargeSizes):
		vc.n = verifC17LargeSizes[kind]
	case kind <= 11: // the metachain group
		vc.n = 400
	default:
		vc.n = rapid.IntRange(64, 400).Draw(rt, "nRandom")
	}
	n := vc.n
	off := rapid.IntRange(0, verifC17LargePoolSize-1).Draw(rt, "poolOffset")
	stride := rapid.IntRange(1, verifC17LargePoolSize-1).Draw(rt, "poolStride")
	for i := 0; i < n; i++ {
		vc.group = append(vc.group, (off+i*stride)%verifC17LargePoolSize)
	}
	vc.fallback = rapid.IntRange(0, 7).Draw(rt, "fallback") == 7
	vc.thr = verifC17Threshold(n, vc.fallback)
	t := vc.thr

	var k int
	switch rapid.IntRange(0, 11).Draw(rt, "kKind") {
	case 0:
		k = t - 2
	case 1, 2, 3, 4:
		k = t - 1
	case 5, 6, 7:
		k = t
	case 8:
		k = t + 1
	case 9:
		k = n
	case 10:
		k = rapid.IntRange(n/2, t).Draw(rt, "kMid")
	default:
		k = rapid.IntRange(1, n).Draw(rt, "k")
	}
	if k < 1 {
		k = 1
	}
	if k > n {
		k = n
	}

	// which members sign
	member := make([]bool, n)
	period := 0
	switch sKind := rapid.IntRange(0, 10).Draw(rt, "sKind"); {
	case sKind == 0:
		vc.shape = "first-k"
		for i := 0; i < k; i++ {
			member[i] = true
		}
	case sKind == 1:
		vc.shape = "leader+last"
		member[0] = true
		for i := 0; i < k-1; i++ {
			member[n-1-i] = true
		}
	case sKind == 7:
		vc.shape = "leader+run"
		member[0] = true
		start := rapid.IntRange(1, n-1).Draw(rt, "runStart")
		for i := 0; i < k-1; i++ {
			member[1+(start-1+i)%(n-1)] = true
		}
	case sKind >= 8:
		vc.shape = "random"
		perm := make([]int, n)
		for i := range perm {
			perm[i] = i
		}
		start := 1
		if rapid.IntRange(0, 7).Draw(rt, "noLeader") == 7 {
			start = 0
		}
		for i := start; i < k && i < n-1; i++ {
			j := rapid.IntRange(i, n-1).Draw(rt, "perm")
			perm[i], perm[j] = perm[j], perm[i]
		}
		for i := 0; i < k; i++ {
			member[perm[i]] = true
		}
	default: // 2..6
		var periods []int
		for p := 8; p < n && p <= 256; p *= 2 {
			periods = append(periods, p)
		}
		period = periods[len(periods)-1] // the largest one allows the finest control of |S|
		if rapid.Bool().Draw(rt, "smallerPeriod") {
			period = rapid.SampledFrom(periods).Draw(rt, "period")
		}
		vc.shape = fmt.Sprintf("periodic-%d", period)
		// residues in the order 0, then an affine permutation of the others
		a := rapid.IntRange(0, period-1).Draw(rt, "residueStart")
		m := 2*rapid.IntRange(0, period/2-1).Draw(rt, "residueStep") + 1
		have := 0
		for j := -1; j < period; j++ {
			r := 0
			if j >= 0 {
				r = (a + j*m) % period
				if r == 0 {
					continue
				}
			}
			w := (n - r + period - 1) / period // members i < n with i mod period == r
			if have+w > k && have > 0 {
				continue
			}
			for i := r; i < n; i += period {
				member[i] = true
			}
			have += w
		}
	}
	for i := 0; i < n; i++ {
		if member[i] {
			vc.signers = append(vc.signers, i)
		}
	}

	// focus region for the bits nobody signed for
	size := (n + 7) / 8
	top := period
	if top == 0 {
		top = 8
		for top*2 < n {
			top *= 2
		}
	}
	topFrom := top * ((n - 1) / top)
	chunkFrom := 64 * ((size - 1) / 8)
	column := -1
	var inFocus func(i int) bool
	switch rapid.IntRange(0, 6).Draw(rt, "focus") {
	case 3, 4:
		vc.shape += "/any"
		inFocus = func(int) bool { return true }
	case 0, 1, 2:
		vc.shape += fmt.Sprintf("/top>=%d", topFrom)
		inFocus = func(i int) bool { return i >= topFrom }
	case 5:
		vc.shape += fmt.Sprintf("/last-chunk>=%d", chunkFrom)
		inFocus = func(i int) bool { return i >= chunkFrom }
	default:
		column = rapid.IntRange(0, 7).Draw(rt, "byteColumn")
		vc.shape += fmt.Sprintf("/byte-column-%d", column)
		inFocus = func(i int) bool { return (i/8)%8 == column }
	}

	exact := make([]byte, size)
	for _, s := range vc.signers {
		verifC17SetBit(exact, s)
	}
	b := append([]byte(nil), exact...)
	padding := make([]int, 0, 8)
	for i := n; i < 8*size; i++ {
		padding = append(padding, i)
	}
	nonSigners := make([]int, 0, n)
	for i := 0; i < n; i++ {
		if !member[i] && inFocus(i) {
			nonSigners = append(nonSigners, i)
		}
	}
	if len(nonSigners) == 0 {
		for i := 0; i < n; i++ {
			if !member[i] {
				nonSigners = append(nonSigners, i)
			}
		}
	}
	switch modeKind := rapid.IntRange(0, 15).Draw(rt, "bitmapMode"); {
	case modeKind <= 1:
		vc.mode = "exact"
	case modeKind == 10:
		vc.mode = "padding-some"
		for _, p := range padding {
			if rapid.Bool().Draw(rt, "padBit") {
				verifC17SetBit(b, p)
			}
		}
	case modeKind == 11:
		vc.mode = "padding-all"
		for _, p := range padding {
			verifC17SetBit(b, p)
		}
	case modeKind <= 6:
		// claim the quorum with bits that nobody signed for
		vc.mode = "fill-to-quorum"
		want := t + rapid.IntRange(0, 1).Draw(rt, "over")
		have := len(vc.signers)
		order := rapid.IntRange(0, 2).Draw(rt, "fillOrder")
		if order == 0 && len(padding) > 0 { // padding positions first, then (optionally) non-signers upwards
			for _, p := range padding {
				if have >= want {
					break
				}
				verifC17SetBit(b, p)
				have++
			}
			if !rapid.Bool().Draw(rt, "alsoNonSigners") {
				break
			}
		}
		for i := range nonSigners {
			if have >= want {
				break
			}
			p := nonSigners[i]
			if order == 2 { // from the highest index downwards
				p = nonSigners[len(nonSigners)-1-i]
			}
			verifC17SetBit(b, p)
			have++
		}
	case modeKind <= 9:
		vc.mode = "plus-nonsigners"
		if len(nonSigners) > 0 {
			cnt := rapid.IntRange(1, 3).Draw(rt, "extra")
			for i := 0; i < cnt; i++ {
				verifC17SetBit(b, nonSigners[rapid.IntRange(0, len(nonSigners)-1).Draw(rt, "extraIdx")])
			}
		}
	case modeKind == 12:
		vc.mode = "minus-signers"
		cnt := rapid.IntRange(1, 2).Draw(rt, "drop")
		for i := 0; i < cnt; i++ {
			verifC17ClearBit(b, vc.signers[rapid.IntRange(0, len(vc.signers)-1).Draw(rt, "dropIdx")])
		}
	case modeKind == 13:
		vc.mode = "longer"
		extra := rapid.SliceOfN(rapid.Byte(), 1, 9).Draw(rt, "extraBytes")
		if rapid.Bool().Draw(rt, "extraFull") {
			for i := range extra {
				extra[i] = 0xff
			}
		}
		b = append(b, extra...)
	case modeKind == 14:
		switch rapid.IntRange(0, 1).Draw(rt, "shorterOrOnes") {
		case 0:
			vc.mode = "shorter"
			b = b[:len(b)-1]
		default:
			vc.mode = "all-ones"
			for i := range b {
				b[i] = 0xff
			}
		}
	default:
		vc.mode = "random"
		b = rapid.SliceOfN(rapid.Byte(), size, size).Draw(rt, "randomBitmap")
		b[0] |= 1
	}
	vc.bitmap = b
	vc.tampered = rapid.IntRange(0, 11).Draw(rt, "tamper") == 11
	return vc
}

func TestVerifC17_QuorumLargeGroups(t *testing.T) {
	lf := verifC17GetLargeFixture()
	if lf.initErr != nil {
		t.Fatalf("fixture: %v", lf.initErr)
	}
	kit.Run(t, "C17", kit.Budget{Quick: 200, Thorough: 1000},
		"group of n in {64,65,72,100,255,256,257,264,400 (x2)} (10/12) or uniform in 64..400 (2/12) distinct BLS keys out of a pool of 401; one of two fixed headers (shard header, meta block) whose per-key signature shares are cached; signer set S with |S| around the threshold as for small groups, placed as first k / leader + last k-1 / leader + contiguous run / random subset / periodic in the index with a power-of-two period 8..256; aggregated signature really produced by S (8% of cases: header changed after signing); bitmap = exact / + padding bits / filled up to the quorum / + 1-3 non-signer bits / - signer bits / all ones / random / 1-9 bytes longer / one byte shorter, the non-signer bits taken from a drawn focus region (anywhere, beyond the last power-of-two boundary e.g. indices >= 256, last partial 8-byte chunk, one byte position of every chunk); 1 in 8 cases uses the fallback threshold; non-trivial = |S| in {t-1,t}, bitmap of the expected length with the proposer bit set; distinct by (n, fallback, S, bitmap, tampered)",
		func(rt *rapid.T, c *kit.Case) {
			vc := verifC17GenLargeCase(rt)
			hdrIdx := rapid.IntRange(0, len(lf.headers)-1).Draw(rt, "header")
			sig, err := lf.aggregate(hdrIdx, vc.group, vc.signers)
			if err != nil {
				rt.Fatalf("fixture: aggregation: %v", err)
			}
			hdr := lf.headers[hdrIdx].Clone()
			contributors := len(vc.signers)
			if vc.tampered {
				hdr.SetNonce(hdr.GetNonce() + 1)
				contributors = 0
			}
			hdr.SetSignature(sig)
			hdr.SetPubKeysBitmap(append([]byte(nil), vc.bitmap...))
			hsv, err := lf.largeVerifier(vc.group, vc.fallback)
			if err != nil {
				rt.Fatalf("fixture: verifier: %v", err)
			}
			switch {
			case vc.n <= 64:
				c.Class("size:64")
			case vc.n <= 128:
				c.Class("size:65-128")
			case vc.n <= 256:
				c.Class("size:129-256")
			default:
				c.Class("size:257-400")
			}
			c.Class("shape:" + vc.shape[:strings.IndexByte(vc.shape, '/')])
			c.Class("focus:" + strings.SplitN(vc.shape[strings.IndexByte(vc.shape, '/')+1:], ">", 2)[0])
			verifC17Judge(c, hsv, hdr, vc, contributors)
		})
}

// Fixture sanity for the large groups (see TestVerifC17_FixtureHonestAccepted): an honest quorum header of a large
// group is accepted and the cached shares aggregate to the same signature as the MultiSigner API produces.
func TestVerifC17_FixtureHonestAcceptedLarge(t *testing.T) {
	kit.Silence()
	lf := verifC17GetLargeFixture()
	if lf.initErr != nil {
		t.Fatalf("fixture: %v", lf.initErr)
	}
	for hdrIdx, n := range []int{64, 400} {
		group := make([]int, n)
		for i := range group {
			group[i] = (3 + 5*i) % verifC17LargePoolSize
		}
		thr := verifC17Threshold(n, false)
		signers := []int{0}
		for i := n - 1; len(signers) < thr; i-- {
			signers = append(signers, i)
		}
		sort.Ints(signers)
		sig, err := lf.aggregate(hdrIdx, group, signers)
		if err != nil {
			t.Fatalf("fixture: %v", err)
		}
		if n == 64 {
			// the cached-share path gives the bytes of the high-level API (pool keys < 67 only)
			small := make([]int, n)
			for i := range small {
				small[i] = (3 + 5*i) % verifC17PoolSize
			}
			a, err1 := lf.aggregate(hdrIdx, small, signers)
			b, err2 := lf.signViaMultiSigner(small, signers, lf.hashes[hdrIdx])
			if err1 != nil || err2 != nil || !bytes.Equal(a, b) {
				t.Fatalf("fixture: cached-share aggregation and MultiSigner aggregation differ for n=%d (%v, %v)", n, err1, err2)
			}
		}
		bm := make([]byte, (n+7)/8)
		for _, s := range signers {
			verifC17SetBit(bm, s)
		}
		hdr := lf.headers[hdrIdx].Clone()
		hdr.SetSignature(sig)
		hdr.SetPubKeysBitmap(bm)
		hsv, err := lf.largeVerifier(group, false)
		if err != nil {
			t.Fatalf("fixture: %v", err)
		}
		if err = hsv.VerifySignature(hdr); err != nil {
			t.Fatalf("fixture: honest header with n=%d, %d signers, bitmap %x rejected: %v", n, len(signers), bm, err)
		}
	}
}

// ---------------------------------------------------------------------------------------------------------------
// The REAL fallback validator (fallback.NewFallbackHeaderValidator, wired into the HeaderSigVerifier exactly as
// factory/processComponents.go does: headers pool, internal marshalizer, storage service) instead of the stub.
//
// Documented rule (fallback/headerValidator.go, core.MaxRoundsWithoutCommittedStartInEpochBlock = 50 "maximum rounds
// to wait for start in epoch block to be committed, before a special action to be applied"): the relaxed threshold
// floor(n/2)+1 may be applied only to a metachain header that is a start-of-epoch block, whose previous header
// (PrevHash) is known as a meta block (headers pool, else MetaBlockUnit storage) and whose round is at least 50 rounds
// AFTER the round of that previous header. In every other situation - shard header, ordinary meta block, previous header
// unknown or not a meta block, round difference negative, zero or below 50 - the 2/3+1 quorum is required.
//
// VerifySignature is called on headers received from the network (process/block/interceptedBlocks: InterceptedHeader /
// InterceptedMetaHeader.CheckValidity -> integrity verifier -> headerSigVerifier.VerifySignature), so every field of the
// header, its round and PrevHash included, is chosen by the sender.

const verifC17MaxRoundsWithoutStartOfEpoch = 50 // the documented constant, written out (not read from package core)

func TestVerifC17_QuorumRealFallback(t *testing.T) {
	f := verifC17GetFixture()
	if f.initErr != nil {
		t.Fatalf("fixture: %v", f.initErr)
	}
	kit.Run(t, "C17", kit.Budget{Quick: 600, Thorough: 6000},
		"group/signers/bitmap as in the small-group test (n=1..24) with the signer count aimed at the fallback threshold in half of the cases; REAL fallback validator over a headers-pool stub and a storage stub; header kind = meta start-of-epoch (1-2 LastFinalizedHeaders) / meta ordinary / shard start-of-epoch (EpochStartMetaHash set) / shard ordinary; previous header (PrevHash) = meta block in the pool / meta block only in MetaBlockUnit storage / unknown / a shard header in the pool (and nothing, or a meta block, in storage); round - previous round from {-(1..1000), -1, 0, 1, 49, 50, 51, 50+(1..1000), uniform -60..110}; oracle threshold = floor(n/2)+1 only for a meta start-of-epoch header whose previous meta block is known and at least 50 rounds older, floor(2n/3)+1 otherwise; non-trivial = |S| in {t-1,t} for the oracle threshold t, bitmap of the expected length with the proposer bit set",
		func(rt *rapid.T, c *kit.Case) {
			vc := verifC17GenCaseOdds(rt, 24, 1)
			aimedAtFallback := vc.fallback

			// the previous header and the round difference
			prevRound := rapid.Uint64Range(0, 1<<40).Draw(rt, "prevRound")
			var diff int64
			switch rapid.IntRange(0, 9).Draw(rt, "roundDiffKind") {
			case 0:
				diff = 1
			case 1:
				diff = -int64(rapid.IntRange(1, 1000).Draw(rt, "roundsBefore"))
			case 2:
				diff = -1
			case 3:
				diff = 0
			case 4:
				diff = verifC17MaxRoundsWithoutStartOfEpoch - 1
			case 5:
				diff = verifC17MaxRoundsWithoutStartOfEpoch
			case 6:
				diff = verifC17MaxRoundsWithoutStartOfEpoch + 1
			case 7:
				diff = verifC17MaxRoundsWithoutStartOfEpoch + int64(rapid.IntRange(1, 1000).Draw(rt, "roundsAfter"))
			default:
				diff = int64(rapid.IntRange(-60, 110).Draw(rt, "roundDiff"))
			}
			if diff < 0 && prevRound < uint64(-diff) {
				prevRound = uint64(-diff)
			}
			round := uint64(int64(prevRound) + diff)
			prevHash := rapid.SliceOfN(rapid.Byte(), 1, 32).Draw(rt, "prevHash")
			prevMeta := &dataBlock.MetaBlock{Nonce: rapid.Uint64Range(0, 1<<40).Draw(rt, "prevNonce"), Round: prevRound,
				Epoch: rapid.Uint32Range(0, 3).Draw(rt, "prevEpoch"), RandSeed: []byte("previous seed"), ChainID: []byte("1"),
				AccumulatedFees: big.NewInt(0), AccumulatedFeesInEpoch: big.NewInt(0), DeveloperFees: big.NewInt(0), DevFeesInEpoch: big.NewInt(0)}

			var inPool data.HeaderHandler
			var inStorage *dataBlock.MetaBlock
			prevKnownAsMeta := false
			prevKind := ""
			switch rapid.IntRange(0, 6).Draw(rt, "prevWhere") {
			case 0, 1, 2:
				prevKind, inPool, prevKnownAsMeta = "meta-in-pool", prevMeta, true
			case 3:
				prevKind, inStorage, prevKnownAsMeta = "meta-in-storage", prevMeta, true
			case 4:
				prevKind = "unknown"
			case 5:
				prevKind, inPool = "shard-header-in-pool", &dataBlock.Header{Round: prevRound, ShardID: 1}
			default:
				// the pool answers with a header of the wrong kind, the storage has the meta block
				prevKind, inPool, inStorage, prevKnownAsMeta = "shard-header-in-pool+meta-in-storage", &dataBlock.Header{Round: prevRound, ShardID: 1}, prevMeta, true
			}
			headersPool := &mock.HeadersCacherStub{
				GetHeaderByHashCalled: func(hash []byte) (data.HeaderHandler, error) {
					if inPool != nil && bytes.Equal(hash, prevHash) {
						return inPool, nil
					}
					return nil, fmt.Errorf("header not in pool")
				},
			}
			storageService := &mock.ChainStorerMock{
				GetStorerCalled: func(unit dataRetriever.UnitType) storage.Storer {
					return &testscommon.StorerStub{
						GetCalled: func(key []byte) ([]byte, error) {
							if unit == dataRetriever.MetaBlockUnit && inStorage != nil && bytes.Equal(key, prevHash) {
								return f.marsh.Marshal(inStorage)
							}
							return nil, fmt.Errorf("key not found")
						},
					}
				},
			}
			realFallback, err := fallback.NewFallbackHeaderValidator(headersPool, f.marsh, storageService)
			if err != nil {
				rt.Fatalf("fixture: fallback validator: %v", err)
			}

			// the header
			bytesGen := rapid.SliceOfN(rapid.Byte(), 1, 32)
			var hdr data.HeaderHandler
			hdrKind := ""
			isMetaStartOfEpoch := false
			switch kind := rapid.IntRange(0, 6).Draw(rt, "headerKind"); {
			case kind <= 4: // meta block; 0..3 start of epoch
				mb := &dataBlock.MetaBlock{
					Nonce: prevMeta.Nonce + 1, Epoch: prevMeta.Epoch, Round: round, PrevHash: prevHash,
					PrevRandSeed: bytesGen.Draw(rt, "prevRandSeed"), RandSeed: bytesGen.Draw(rt, "randSeed"), RootHash: bytesGen.Draw(rt, "rootHash"),
					LeaderSignature: bytesGen.Draw(rt, "leaderSig"), ChainID: []byte("1"),
					AccumulatedFees: big.NewInt(0), AccumulatedFeesInEpoch: big.NewInt(0), DeveloperFees: big.NewInt(0), DevFeesInEpoch: big.NewInt(0),
					EpochStart: dataBlock.EpochStart{Economics: dataBlock.Economics{
						TotalSupply: big.NewInt(0), TotalToDistribute: big.NewInt(0), TotalNewlyMinted: big.NewInt(0),
						RewardsPerBlock: big.NewInt(0), NodePrice: big.NewInt(0), RewardsForProtocolSustainability: big.NewInt(0)}},
				}
				hdrKind = "meta-ordinary"
				if kind <= 3 {
					hdrKind, isMetaStartOfEpoch = "meta-start-of-epoch", true
					mb.Epoch = prevMeta.Epoch + 1
					for i := rapid.IntRange(1, 2).Draw(rt, "nLastFinalized"); i > 0; i-- {
						mb.EpochStart.LastFinalizedHeaders = append(mb.EpochStart.LastFinalizedHeaders, dataBlock.EpochStartShardData{
							ShardID: uint32(i - 1), Epoch: prevMeta.Epoch, Round: prevRound, Nonce: 7, HeaderHash: []byte("shard header hash"),
							RootHash: []byte("root"), FirstPendingMetaBlock: []byte("first pending"), LastFinishedMetaBlock: []byte("last finished")})
					}
				}
				hdr = mb
			default:
				sh := &dataBlock.Header{
					Nonce: prevMeta.Nonce + 1, Epoch: prevMeta.Epoch, Round: round, ShardID: rapid.Uint32Range(0, 2).Draw(rt, "shard"), PrevHash: prevHash,
					PrevRandSeed: bytesGen.Draw(rt, "prevRandSeed"), RandSeed: bytesGen.Draw(rt, "randSeed"), RootHash: bytesGen.Draw(rt, "rootHash"),
					LeaderSignature: bytesGen.Draw(rt, "leaderSig"), ChainID: []byte("1"), AccumulatedFees: big.NewInt(0), DeveloperFees: big.NewInt(0),
				}
				hdrKind = "shard-ordinary"
				if kind == 5 {
					hdrKind = "shard-start-of-epoch"
					sh.EpochStartMetaHash = []byte("epoch start meta hash")
				}
				hdr = sh
			}

			// oracle: may the relaxed threshold be applied to this header?
			fallbackAllowed := isMetaStartOfEpoch && prevKnownAsMeta && diff >= verifC17MaxRoundsWithoutStartOfEpoch
			vc.fallback = fallbackAllowed
			vc.thr = verifC17Threshold(vc.n, fallbackAllowed)
			vc.shape = fmt.Sprintf("header=%s previous=%s round=%d previousRound=%d (difference %d) signer-count-aimed-at-fallback-threshold=%v",
				hdrKind, prevKind, round, prevRound, diff, aimedAtFallback)

			hash, err := f.signedHash(hdr)
			if err != nil {
				rt.Fatalf("fixture: header hash: %v", err)
			}
			sig, err := f.sign(vc.group, vc.signers, hash)
			if err != nil {
				rt.Fatalf("fixture: signing: %v", err)
			}
			contributors := len(vc.signers)
			if vc.tampered {
				hdr.SetNonce(hdr.GetNonce() + 1)
				contributors = 0
			}
			hdr.SetSignature(sig)
			hdr.SetPubKeysBitmap(append([]byte(nil), vc.bitmap...))
			hsv, err := f.verifierWith(vc.group, realFallback)
			if err != nil {
				rt.Fatalf("fixture: verifier: %v", err)
			}

			c.Class("header:" + hdrKind)
			c.Class("previous:" + prevKind)
			switch {
			case diff < 0:
				c.Class("round-difference:negative")
			case diff == 0:
				c.Class("round-difference:zero")
			case diff < verifC17MaxRoundsWithoutStartOfEpoch:
				c.Class("round-difference:1..49")
			case diff == verifC17MaxRoundsWithoutStartOfEpoch:
				c.Class("round-difference:50")
			default:
				c.Class("round-difference:>50")
			}
			if fallbackAllowed {
				c.Class("oracle:fallback-threshold-allowed")
			}
			if k := len(vc.signers); !fallbackAllowed && k >= verifC17Threshold(vc.n, true) && k < vc.thr {
				c.Class("signers-between-fallback-and-normal-threshold-while-fallback-not-allowed")
				if isMetaStartOfEpoch {
					c.Class("…of which meta start-of-epoch headers")
				}
			}
			verifC17Judge(c, hsv, hdr, vc, contributors)
		})
}

// Fixture sanity for the real fallback validator: in the documented fallback situation (meta start-of-epoch header, previous
// meta block known, 50 rounds older) a header signed by floor(n/2)+1 members is accepted - otherwise the class
// "fallback allowed" of TestVerifC17_QuorumRealFallback would be vacuous. A failure is a fixture failure (INCONCLUSIVE).
func TestVerifC17_FixtureRealFallbackApplies(t *testing.T) {
	kit.Silence()
	f := verifC17GetFixture()
	if f.initErr != nil {
		t.Fatalf("fixture: %v", f.initErr)
	}
	n := 10
	group := make([]int, n)
	for i := range group {
		group[i] = (5 + 7*i) % verifC17PoolSize
	}
	prevHash := []byte("previous meta block hash")
	pool := &mock.HeadersCacherStub{GetHeaderByHashCalled: func(hash []byte) (data.HeaderHandler, error) {
		if bytes.Equal(hash, prevHash) {
			return &dataBlock.MetaBlock{Round: 1000}, nil
		}
		return nil, fmt.Errorf("not found")
	}}
	realFallback, err := fallback.NewFallbackHeaderValidator(pool, f.marsh, &mock.ChainStorerMock{})
	if err != nil {
		t.Fatalf("fixture: %v", err)
	}
	signers := []int{0, 1, 2, 3, 4, 5} // floor(10/2)+1
	hdr := &dataBlock.MetaBlock{Nonce: 9, Epoch: 2, Round: 1000 + verifC17MaxRoundsWithoutStartOfEpoch, PrevHash: prevHash, PrevRandSeed: []byte("seed"),
		RandSeed: []byte("rnd"), ChainID: []byte("1"), AccumulatedFees: big.NewInt(0), AccumulatedFeesInEpoch: big.NewInt(0),
		DeveloperFees: big.NewInt(0), DevFeesInEpoch: big.NewInt(0),
		EpochStart: dataBlock.EpochStart{LastFinalizedHeaders: []dataBlock.EpochStartShardData{{ShardID: 0}}, Economics: dataBlock.Economics{
			TotalSupply: big.NewInt(0), TotalToDistribute: big.NewInt(0), TotalNewlyMinted: big.NewInt(0),
			RewardsPerBlock: big.NewInt(0), NodePrice: big.NewInt(0), RewardsForProtocolSustainability: big.NewInt(0)}}}
	hash, err := f.signedHash(hdr)
	if err != nil {
		t.Fatalf("fixture: %v", err)
	}
	sig, err := f.sign(group, signers, hash)
	if err != nil {
		t.Fatalf("fixture: %v", err)
	}
	hdr.Signature = sig
	hdr.PubKeysBitmap = []byte{0x3f, 0x00}
	hsv, err := f.verifierWith(group, realFallback)
	if err != nil {
		t.Fatalf("fixture: %v", err)
	}
	if err = hsv.VerifySignature(hdr); err != nil {
		t.Fatalf("fixture: start-of-epoch meta block 50 rounds after its previous block, signed by 6 of 10, rejected: %v", err)
	}
}
