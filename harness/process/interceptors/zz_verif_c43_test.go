package interceptors_test

import (
	"errors"
	"fmt"
	"strconv"
	"strings"
	"sync"
	"testing"
	"time"

	"github.com/ElrondNetwork/elrond-go/core"
	"github.com/ElrondNetwork/elrond-go/core/throttler"
	"github.com/ElrondNetwork/elrond-go/data/batch"
	"github.com/ElrondNetwork/elrond-go/marshal"
	"github.com/ElrondNetwork/elrond-go/p2p"
	"github.com/ElrondNetwork/elrond-go/process"
	"github.com/ElrondNetwork/elrond-go/process/interceptors"
	"github.com/ElrondNetwork/elrond-go/process/mock"
	"github.com/ElrondNetwork/elrond-go/testscommon"
	"github.com/ElrondNetwork/elrond-go/testscommon/p2pmocks"
	kit "github.com/ElrondNetwork/elrond-go/verifkit"
	"pgregory.net/rapid"
)

// C43 at component level: "Components that ask the goroutine throttler before starting work never have more than
// the configured maximum number of tasks running at the same time."
//
// Real MultiDataInterceptor / SingleDataInterceptor with a REAL NumGoRoutinesThrottler; factory, processor,
// antiflood, white list and preferred peers are the stubs of the package's own tests. The processor stub blocks
// every processing goroutine on a per-message gate and counts how many of them are inside at the same time: that
// count is the oracle (it does not look at the throttler's counter). Messages are delivered from ONE goroutine, so
// CanProcess+StartProcessing of different messages never overlap (the check-then-act window of the known finding
// C43:overlapping-admission-window is not exercised here).
//
// Paths that skip CanProcess by design (baseDataInterceptor.shouldSkipAntifloodChecks: message from self to self,
// message relayed by a preferred peer) still take a slot; they are outside the statement and are not counted in
// the bound (they only make the throttler stricter for the others).

const verifC43WaitTimeout = 60 * time.Second

// observation wrapper (not an oracle): lets the harness wait, without sleeping, until the interceptor released
// as many slots as it took
type verifC43ObservedThrottler struct {
	inner  *throttler.NumGoRoutinesThrottler
	mu     sync.Mutex
	starts int
	ends   int
	endCh  chan struct{}
}

func (o *verifC43ObservedThrottler) CanProcess() bool { return o.inner.CanProcess() }

func (o *verifC43ObservedThrottler) StartProcessing() {
	o.mu.Lock()
	o.starts++
	o.mu.Unlock()
	o.inner.StartProcessing()
}

func (o *verifC43ObservedThrottler) EndProcessing() {
	o.inner.EndProcessing()
	o.mu.Lock()
	o.ends++
	o.mu.Unlock()
	select {
	case o.endCh <- struct{}{}:
	default:
	}
}

func (o *verifC43ObservedThrottler) IsInterfaceNil() bool { return o == nil }

func (o *verifC43ObservedThrottler) counts() (int, int) {
	o.mu.Lock()
	defer o.mu.Unlock()
	return o.starts, o.ends
}

type verifC43Msg struct {
	id      int
	kind    string
	items   []string // item kinds: ok, wrongVersion, wrongChain, invalidOther, createErr, otherShard
	bypass  string   // decided by the CONNECTED peer: "", "preferred", "self"
	origin  string   // originator of the message (message.Peer()): "originator", "preferred", "originator-not-eligible"
	hold    bool
	open    bool // gate not closed yet
	gate    chan struct{}
	entered chan struct{}
	topicN  int // number of CanProcessMessagesOnTopic calls seen for this message
}

type verifC43Harness struct {
	mu         sync.Mutex
	max        int
	multi      bool
	msgs       map[int]*verifC43Msg
	inflight   int // processing goroutines of messages that passed CanProcess, inside the processor
	worst      int
	bypassIn   int
	worstTrace string
	th         *verifC43ObservedThrottler
	icp        process.Interceptor
	marsh      marshal.Marshalizer
	held       []int
	trace      []string
	nextID     int
}

var verifC43ErrOther = errors.New("verif: invalid for another reason")
var verifC43ErrCreate = errors.New("verif: can not create")
var verifC43ErrAntiflood = errors.New("verif: antiflood refusal")
var verifC43ErrOriginator = errors.New("verif: originator not eligible")

func verifC43ParseItem(buff []byte) (int, int, string) {
	parts := strings.Split(string(buff), "|")
	if len(parts) != 3 {
		return -1, 0, "createErr"
	}
	id, _ := strconv.Atoi(parts[0])
	idx, _ := strconv.Atoi(parts[1])
	return id, idx, parts[2]
}

func (h *verifC43Harness) msgOfSeq(seq []byte) *verifC43Msg {
	id, err := strconv.Atoi(string(seq))
	if err != nil {
		return nil
	}
	h.mu.Lock()
	defer h.mu.Unlock()
	return h.msgs[id]
}

func verifC43New(max int, multi bool) (*verifC43Harness, error) {
	inner, err := throttler.NewNumGoRoutinesThrottler(int32(max))
	if err != nil {
		return nil, err
	}
	h := &verifC43Harness{max: max, multi: multi, msgs: map[int]*verifC43Msg{}, marsh: &marshal.GogoProtoMarshalizer{}}
	h.th = &verifC43ObservedThrottler{inner: inner, endCh: make(chan struct{}, 1)}
	factory := &mock.InterceptedDataFactoryStub{
		CreateCalled: func(buff []byte) (process.InterceptedData, error) {
			_, _, kind := verifC43ParseItem(buff)
			if kind == "createErr" {
				return nil, verifC43ErrCreate
			}
			return &testscommon.InterceptedDataStub{
				CheckValidityCalled: func() error {
					switch kind {
					case "wrongVersion":
						return process.ErrInvalidTransactionVersion
					case "wrongChain":
						return process.ErrInvalidChainID
					case "invalidOther":
						return verifC43ErrOther
					}
					return nil
				},
				IsForCurrentShardCalled: func() bool { return kind != "otherShard" },
				HashCalled:              func() []byte { return buff },
			}, nil
		},
	}
	processor := &mock.InterceptorProcessorStub{
		ValidateCalled: func(data process.InterceptedData) error { return nil },
		SaveCalled: func(data process.InterceptedData) error {
			id, idx, _ := verifC43ParseItem(data.Hash())
			h.mu.Lock()
			m := h.msgs[id]
			if m == nil {
				h.mu.Unlock()
				return nil
			}
			if idx == 0 {
				if m.bypass == "" {
					h.inflight++
					if h.inflight > h.worst {
						h.worst = h.inflight
					}
				} else {
					h.bypassIn++
				}
			}
			h.mu.Unlock()
			if idx == 0 {
				close(m.entered)
			}
			<-m.gate
			if idx == len(m.items)-1 {
				h.mu.Lock()
				if m.bypass == "" {
					h.inflight--
				} else {
					h.bypassIn--
				}
				h.mu.Unlock()
			}
			return nil
		},
	}
	antiflood := &mock.P2PAntifloodHandlerStub{
		CanProcessMessageCalled: func(message p2p.MessageP2P, _ core.PeerID) error {
			if m := h.msgOfSeq(message.SeqNo()); m != nil && m.kind == "antifloodMsg" {
				return verifC43ErrAntiflood
			}
			return nil
		},
		CanProcessMessagesOnTopicCalled: func(_ core.PeerID, _ string, _ uint32, _ uint64, sequence []byte) error {
			m := h.msgOfSeq(sequence)
			if m == nil {
				return nil
			}
			h.mu.Lock()
			m.topicN++
			n := m.topicN
			h.mu.Unlock()
			if (m.kind == "antifloodTopic" && n == 1) || (m.kind == "antifloodTopic2" && n == 2) {
				return verifC43ErrAntiflood
			}
			return nil
		},
		IsOriginatorEligibleForTopicCalled: func(pid core.PeerID, _ string) error {
			if pid == "originator-not-eligible" {
				return verifC43ErrOriginator
			}
			return nil
		},
	}
	whiteList := &testscommon.WhiteListHandlerStub{IsWhiteListedCalled: func(process.InterceptedData) bool { return false }}
	preferred := &p2pmocks.PeersHolderStub{ContainsCalled: func(peerID core.PeerID) bool { return peerID == "preferred" }}
	if multi {
		h.icp, err = interceptors.NewMultiDataInterceptor(interceptors.ArgMultiDataInterceptor{
			Topic: "verif", Marshalizer: h.marsh, DataFactory: factory, Processor: processor, Throttler: h.th,
			AntifloodHandler: antiflood, WhiteListRequest: whiteList, PreferredPeersHolder: preferred, CurrentPeerId: "self",
		})
	} else {
		h.icp, err = interceptors.NewSingleDataInterceptor(interceptors.ArgSingleDataInterceptor{
			Topic: "verif", DataFactory: factory, Processor: processor, Throttler: h.th,
			AntifloodHandler: antiflood, WhiteListRequest: whiteList, PreferredPeersHolder: preferred, CurrentPeerId: "self",
		})
	}
	if err != nil {
		return nil, err
	}
	return h, nil
}

func (h *verifC43Harness) newMsg(kind string, items []string, bypass string, hold bool) *verifC43Msg {
	h.mu.Lock()
	defer h.mu.Unlock()
	h.nextID++
	m := &verifC43Msg{id: h.nextID, kind: kind, items: items, bypass: bypass, origin: "originator", hold: hold, open: true, gate: make(chan struct{}), entered: make(chan struct{})}
	if kind == "originatorNotEligible" {
		m.origin = "originator-not-eligible"
	}
	h.msgs[m.id] = m
	return m
}

func (h *verifC43Harness) p2pMessage(m *verifC43Msg) (*mock.P2PMessageMock, core.PeerID, error) {
	msg := &mock.P2PMessageMock{SeqNoField: []byte(strconv.Itoa(m.id)), PeerField: core.PeerID(m.origin), TopicField: "verif", FromField: []byte("someone"), SignatureField: []byte("sig")}
	from := core.PeerID("connected")
	switch m.bypass {
	case "preferred":
		from = "preferred"
	case "self":
		from = "self"
		msg.FromField = []byte("self")
		msg.SignatureField = []byte("self")
	}
	buffs := make([][]byte, len(m.items))
	for i, k := range m.items {
		buffs[i] = []byte(fmt.Sprintf("%d|%d|%s", m.id, i, k))
	}
	switch {
	case m.kind == "nilData":
		msg.DataField = nil
	case !h.multi:
		msg.DataField = buffs[0]
	case m.kind == "undecodable":
		msg.DataField = []byte{0xff, 0xff, 0xff, 0xff, 0x01}
	default:
		data, err := h.marsh.Marshal(&batch.Batch{Data: buffs})
		if err != nil {
			return nil, "", err
		}
		if len(data) == 0 {
			data = []byte{} // an empty batch encodes to zero bytes; Data() must not be nil
		}
		msg.DataField = data
	}
	return msg, from, nil
}

// processable: the message is expected to reach the processor when it is admitted
func (h *verifC43Harness) processable(m *verifC43Msg) bool {
	switch m.kind {
	case "valid":
		return true
	case "antifloodMsg":
		// peers that skip the antiflood checks are never asked
		return m.bypass != ""
	case "antifloodTopic":
		// refusal at the first topic-level question: in preProcessMesage for ordinary peers; peers that skip it
		// are asked for the first time at batch level (multi data interceptor only)
		return m.bypass != "" && !h.multi
	case "antifloodTopic2":
		// refusal at the second topic-level question (batch level, multi data interceptor, ordinary peers only)
		return !h.multi || m.bypass != ""
	}
	return false
}

func (h *verifC43Harness) waitChan(ch chan struct{}) bool {
	select {
	case <-ch:
		return true
	case <-time.After(verifC43WaitTimeout):
		return false
	}
}

// waitEnteredOrReleased: the processing goroutine of m entered the processor, or the interceptor holds no slot besides
// those of the held messages (m is not being processed)
func (h *verifC43Harness) waitEnteredOrReleased(m *verifC43Msg) string {
	deadline := time.After(verifC43WaitTimeout)
	for {
		select {
		case <-m.entered:
			return "entered"
		default:
		}
		starts, ends := h.th.counts()
		if ends >= starts-len(h.held) {
			return "released"
		}
		select {
		case <-m.entered:
			return "entered"
		case <-h.th.endCh:
		case <-time.After(50 * time.Millisecond):
		case <-deadline:
			return "timeout"
		}
	}
}

// waitReleased waits until the interceptor released all the slots it took except those of the held messages
func (h *verifC43Harness) waitReleased() bool {
	deadline := time.After(verifC43WaitTimeout)
	for {
		starts, ends := h.th.counts()
		if ends >= starts-len(h.held) {
			return true
		}
		select {
		case <-h.th.endCh:
		case <-time.After(50 * time.Millisecond):
			// the signal channel holds one token only; re-read the counters
		case <-deadline:
			return false
		}
	}
}

func (h *verifC43Harness) closeGate(m *verifC43Msg) {
	h.mu.Lock()
	wasOpen := m.open
	m.open = false
	h.mu.Unlock()
	if wasOpen {
		close(m.gate)
	}
}

// releaseAll lets every processing goroutine finish (also those of messages the harness did not expect to be processed)
func (h *verifC43Harness) releaseAll() {
	h.mu.Lock()
	h.held = nil
	all := make([]*verifC43Msg, 0, len(h.msgs))
	for _, m := range h.msgs {
		all = append(all, m)
	}
	h.mu.Unlock()
	for _, m := range all {
		h.closeGate(m)
	}
}

func (h *verifC43Harness) snapshot() (int, int, int) {
	h.mu.Lock()
	defer h.mu.Unlock()
	return h.inflight, h.worst, h.bypassIn
}

// deliver returns "admitted", "busy", "dropped"
func (h *verifC43Harness) deliver(rt *rapid.T, c *kit.Case, m *verifC43Msg) string {
	msg, from, err := h.p2pMessage(m)
	if err != nil {
		rt.Fatalf("fixture: %v", err)
	}
	var errProc error
	c.NoPanic("C43:component:panic", func() { errProc = h.icp.ProcessReceivedMessage(msg, from) })
	res := "dropped"
	switch {
	case errProc == process.ErrSystemBusy:
		res = "busy"
	case errProc == nil && h.processable(m):
		if !h.waitChan(m.entered) {
			rt.Fatalf("fixture: message %d (%s) was accepted but its processing did not start within %v; trace %v", m.id, m.kind, verifC43WaitTimeout, h.trace)
		}
		res = "admitted"
	case errProc == nil:
		// nil without a prediction: either the slot was given back before returning (nothing is processed) or a
		// processing goroutine is on its way into the processor
		switch h.waitEnteredOrReleased(m) {
		case "entered":
			res = "admitted"
			c.Class("processed-although-a-refusal-was-expected")
		case "timeout":
			rt.Fatalf("fixture: message %d (%s) returned nil, neither processing nor the release of its slot was seen within %v; trace %v", m.id, m.kind, verifC43WaitTimeout, h.trace)
		}
	case h.processable(m):
		// stricter than expected (e.g. a peer that may skip the checks was checked): not a matter of the statement
		c.Class("refused-although-processing-was-expected")
	}
	if res == "admitted" {
		h.held = append(h.held, m.id)
	}
	desc := fmt.Sprintf("%s[from:%s,orig:%s](%s)=%s", m.kind, m.bypass, m.origin, strings.Join(m.items, ","), res)
	h.trace = append(h.trace, desc)
	inflight, worst, bypassIn := h.snapshot()
	if worst > h.max {
		c.Violation("C43:component:more-than-max-running", "%d processing goroutines of messages that passed CanProcess were running at the same time, throttler max %d (now %d running, %d more from peers that skip the check by design); multi=%v; deliveries: %s",
			worst, h.max, inflight, bypassIn, h.multi, strings.Join(h.trace, " "))
	}
	if res == "admitted" && !m.hold {
		// let this one finish before the next delivery
		h.mu.Lock()
		for i, id := range h.held {
			if id == m.id {
				h.held = append(h.held[:i], h.held[i+1:]...)
				break
			}
		}
		h.mu.Unlock()
		h.closeGate(m)
		h.trace = append(h.trace, "release")
	}
	if !h.waitReleased() {
		starts, ends := h.th.counts()
		rt.Fatalf("fixture: slots were not released within %v (StartProcessing %d, EndProcessing %d, held %d); trace %v", verifC43WaitTimeout, starts, ends, len(h.held), h.trace)
	}
	return res
}

func verifC43GenMsg(rt *rapid.T, h *verifC43Harness) *verifC43Msg {
	kinds := []string{"valid", "valid", "valid", "wrongVersion", "wrongChain", "invalidOther", "createErr", "otherShard",
		"antifloodMsg", "antifloodTopic", "antifloodTopic2", "originatorNotEligible", "nilData"}
	if h.multi {
		kinds = append(kinds, "undecodable", "emptyBatch")
	}
	kind := rapid.SampledFrom(kinds).Draw(rt, "kind")
	n := 1
	if h.multi {
		n = rapid.IntRange(1, 3).Draw(rt, "items")
	}
	items := make([]string, n)
	for i := range items {
		items[i] = "ok"
	}
	switch kind {
	case "wrongVersion", "wrongChain", "invalidOther", "createErr", "otherShard":
		items[rapid.IntRange(0, n-1).Draw(rt, "badPos")] = kind
	case "emptyBatch":
		items = nil
	}
	bypass := ""
	switch rapid.IntRange(0, 7).Draw(rt, "bypass") {
	case 6:
		bypass = "preferred"
	case 7:
		bypass = "self"
	}
	m := h.newMsg(kind, items, bypass, rapid.Bool().Draw(rt, "hold"))
	// the originator is independent of the peer the message is received from: a preferred peer's own messages are
	// mostly relayed by ordinary peers, and preferred peers relay messages of others
	if m.origin == "originator" && rapid.IntRange(0, 3).Draw(rt, "originatorIsPreferredPeer") == 0 {
		m.origin = "preferred"
	}
	return m
}

func verifC43RunCase(rt *rapid.T, c *kit.Case, max int, multi bool) {
	h, err := verifC43New(max, multi)
	if err != nil {
		rt.Fatalf("fixture: %v", err)
	}
	defer h.releaseAll()
	rounds := rapid.IntRange(1, 2).Draw(rt, "rounds")
	sawFull, sawBusy, sawErrorPath := false, false, false
	for r := 0; r < rounds; r++ {
		// phase 1: a drawn sequence of messages, some of them kept in processing
		n := rapid.IntRange(0, 12).Draw(rt, "messages")
		for i := 0; i < n; i++ {
			m := verifC43GenMsg(rt, h)
			res := h.deliver(rt, c, m)
			if res == "busy" {
				sawBusy = true
			}
			if res == "dropped" && m.kind != "nilData" && m.kind != "antifloodMsg" {
				sawErrorPath = true
			}
		}
		h.releaseAll()
		h.trace = append(h.trace, "releaseAll")
		if !h.waitReleased() {
			rt.Fatalf("fixture: slots were not released within %v; trace %v", verifC43WaitTimeout, h.trace)
		}
		// phase 2: burst of valid messages from ordinary peers while nothing is in processing: the processing of
		// at most max of them may run together, the others have to be refused
		extra := rapid.IntRange(1, 3).Draw(rt, "burstExtra")
		admitted := 0
		for i := 0; i < max+extra; i++ {
			items := []string{"ok"}
			if multi && rapid.Bool().Draw(rt, "twoItems") {
				items = []string{"ok", "ok"}
			}
			bm := h.newMsg("valid", items, "", true)
			if rapid.IntRange(0, 2).Draw(rt, "burstOriginatorIsPreferredPeer") == 0 {
				bm.origin = "preferred"
			}
			res := h.deliver(rt, c, bm)
			if res == "admitted" {
				admitted++
			}
			if res == "busy" {
				sawBusy = true
			}
		}
		if admitted == max {
			sawFull = true
			c.Class("burst-admitted-exactly-max")
		} else if admitted < max {
			// a slot that is never released: not a violation of the statement (fewer tasks run), only counted
			c.Class("burst-admitted-fewer-than-max")
		}
		h.releaseAll()
		h.trace = append(h.trace, "releaseAll")
		if !h.waitReleased() {
			rt.Fatalf("fixture: slots were not released within %v; trace %v", verifC43WaitTimeout, h.trace)
		}
	}
	if multi {
		c.Class("multi-data-interceptor")
	} else {
		c.Class("single-data-interceptor")
	}
	if sawFull && sawBusy && sawErrorPath {
		c.NonTrivial(fmt.Sprint(max, multi, h.trace))
		c.Sample("max=%d multi=%v: %s", max, multi, strings.Join(h.trace, " "))
	}
}

func TestVerifC43_Interceptors(t *testing.T) {
	kit.Run(t, "C43", kit.Budget{Quick: 300, Thorough: 4000},
		"real MultiDataInterceptor / SingleDataInterceptor with a real NumGoRoutinesThrottler (max 1..4); 1-2 rounds of (0-12 drawn messages: valid batches of 1-3 items, items with ErrInvalidTransactionVersion / ErrInvalidChainID / another validity error / factory error / other shard, undecodable and empty batches, antiflood refusals at message or topic level, originator not eligible, nil data; 25 % received from a preferred peer or from self, which skip CanProcess by design; independently 25 % originated by the preferred peer; each admitted message is either kept in processing or finished at once) followed by a burst of max+1..3 valid messages; oracle = number of processing goroutines (of messages that passed CanProcess) inside the blocking processor stub at the same time <= max; non-trivial = the burst filled the throttler exactly, a message was refused as busy and at least one message took an error path after acquiring a slot; distinct by delivery trace",
		func(rt *rapid.T, c *kit.Case) {
			max := rapid.IntRange(1, 4).Draw(rt, "max")
			multi := rapid.Bool().Draw(rt, "multi")
			verifC43RunCase(rt, c, max, multi)
		})
}
