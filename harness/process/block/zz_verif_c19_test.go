package block_test

import (
	"bytes"
	"fmt"
	"math/big"
	"sort"
	"testing"

	"github.com/ElrondNetwork/elrond-go/core"
	"github.com/ElrondNetwork/elrond-go/data"
	"github.com/ElrondNetwork/elrond-go/data/block"
	"github.com/ElrondNetwork/elrond-go/data/blockchain"
	"github.com/ElrondNetwork/elrond-go/data/state"
	"github.com/ElrondNetwork/elrond-go/hashing"
	"github.com/ElrondNetwork/elrond-go/hashing/blake2b"
	"github.com/ElrondNetwork/elrond-go/marshal"
	blproc "github.com/ElrondNetwork/elrond-go/process/block"
	"github.com/ElrondNetwork/elrond-go/process/mock"
	"github.com/ElrondNetwork/elrond-go/testscommon"
	kit "github.com/ElrondNetwork/elrond-go/verifkit"
	"pgregory.net/rapid"
)

// C19: A block body is accepted only if it matches its header.
//
// Unit under test: baseProcessor.checkHeaderBodyCorrelation, reached through the export_test.go bridges
// shardProcessor/metaProcessor.CheckHeaderBodyCorrelation (ProcessBlock of both processors calls it before it
// touches any state). Processors are the package's own mock-argument processors, with the real
// GogoProtoMarshalizer and blake2b hasher instead of the JSON marshalizer / nil-returning hasher stub.
//
// Oracle (independent, multiset based): accepted => len(header entries) == len(body) and the multiset of header
// tuples (hash, sender, receiver, type, tx count) equals the multiset of tuples computed from the body's
// miniblocks (hash = hasher(marshal(miniblock)) computed here). A nil miniblock matches nothing.

type verifC19Checker interface {
	CheckHeaderBodyCorrelation(hdr *block.Header, body *block.Body) error
}

type verifC19Fixture struct {
	marsh  marshal.Marshalizer
	hasher hashing.Hasher
	procs  map[string]verifC19Checker
	shards []uint32
	noNil  bool // do not generate nil miniblocks (bodies decoded from the wire never contain one)
}

func verifC19NewFixture(t *testing.T) *verifC19Fixture {
	kit.Silence()
	f := &verifC19Fixture{marsh: &marshal.GogoProtoMarshalizer{}, hasher: blake2b.NewBlake2b(), procs: map[string]verifC19Checker{}, shards: verifC19Shards}

	coreComponents, dataComponents, bootstrapComponents, statusComponents := createComponentHolderMocks()
	coreComponents.IntMarsh = f.marsh
	coreComponents.Hash = f.hasher
	sp, err := blproc.NewShardProcessor(CreateMockArguments(coreComponents, dataComponents, bootstrapComponents, statusComponents))
	if err != nil {
		t.Fatalf("fixture: shard processor: %v", err)
	}
	f.procs["shard"] = sp

	coreComponents, dataComponents, bootstrapComponents, statusComponents = createMockComponentHolders()
	coreComponents.IntMarsh = f.marsh
	coreComponents.Hash = f.hasher
	mp, err := blproc.NewMetaProcessor(createMockMetaArguments(coreComponents, dataComponents, bootstrapComponents, statusComponents))
	if err != nil {
		t.Fatalf("fixture: meta processor: %v", err)
	}
	f.procs["meta"] = mp
	return f
}

type verifC19Tuple struct {
	hash     string
	sender   uint32
	receiver uint32
	typ      block.Type
	txCount  uint32
}

func (tp verifC19Tuple) String() string {
	return fmt.Sprintf("{hash %x.. snd %d rcv %d type %d txs %d}", verifC19Short(tp.hash), tp.sender, tp.receiver, tp.typ, tp.txCount)
}

func verifC19Short(s string) string {
	if len(s) > 4 {
		return s[:4]
	}
	return s
}

func verifC19Less(a, b verifC19Tuple) bool {
	if a.hash != b.hash {
		return a.hash < b.hash
	}
	if a.sender != b.sender {
		return a.sender < b.sender
	}
	if a.receiver != b.receiver {
		return a.receiver < b.receiver
	}
	if a.typ != b.typ {
		return a.typ < b.typ
	}
	return a.txCount < b.txCount
}

// independent re-implementation of createMiniBlockHeaders for one miniblock
func (f *verifC19Fixture) tupleOf(mb *block.MiniBlock) (verifC19Tuple, error) {
	buf, err := f.marsh.Marshal(mb)
	if err != nil {
		return verifC19Tuple{}, err
	}
	return verifC19Tuple{
		hash:     string(f.hasher.Compute(string(buf))),
		sender:   mb.SenderShardID,
		receiver: mb.ReceiverShardID,
		typ:      mb.Type,
		txCount:  uint32(len(mb.TxHashes)),
	}, nil
}

func verifC19EntryOf(tp verifC19Tuple) block.MiniBlockHeader {
	return block.MiniBlockHeader{Hash: []byte(tp.hash), SenderShardID: tp.sender, ReceiverShardID: tp.receiver, Type: tp.typ, TxCount: tp.txCount}
}

func verifC19TupleOfEntry(e block.MiniBlockHeader) verifC19Tuple {
	return verifC19Tuple{hash: string(e.Hash), sender: e.SenderShardID, receiver: e.ReceiverShardID, typ: e.Type, txCount: e.TxCount}
}

// matches reports whether header entries and body miniblocks are in bijection on the five fields.
func (f *verifC19Fixture) matches(entries []block.MiniBlockHeader, body *block.Body) (bool, string, error) {
	if len(entries) != len(body.MiniBlocks) {
		return false, fmt.Sprintf("%d header entries, %d body miniblocks", len(entries), len(body.MiniBlocks)), nil
	}
	hs := make([]verifC19Tuple, 0, len(entries))
	bs := make([]verifC19Tuple, 0, len(entries))
	for _, e := range entries {
		hs = append(hs, verifC19TupleOfEntry(e))
	}
	for i, mb := range body.MiniBlocks {
		if mb == nil {
			return false, fmt.Sprintf("body miniblock %d is nil", i), nil
		}
		tp, err := f.tupleOf(mb)
		if err != nil {
			return false, "", err
		}
		bs = append(bs, tp)
	}
	sort.Slice(hs, func(i, j int) bool { return verifC19Less(hs[i], hs[j]) })
	sort.Slice(bs, func(i, j int) bool { return verifC19Less(bs[i], bs[j]) })
	for i := range hs {
		if hs[i] != bs[i] {
			return false, fmt.Sprintf("sorted position %d: header entry %v, body miniblock %v", i, hs[i], bs[i]), nil
		}
	}
	return true, "", nil
}

var verifC19Shards = []uint32{0, 1, 2, core.MetachainShardId, core.AllShardId}
var verifC19Types = []block.Type{block.TxBlock, block.StateBlock, block.PeerBlock, block.SmartContractResultBlock,
	block.InvalidBlock, block.ReceiptBlock, block.RewardsBlock}

func (f *verifC19Fixture) genMiniBlock(rt *rapid.T) *block.MiniBlock {
	mb := &block.MiniBlock{
		SenderShardID:   rapid.SampledFrom(f.shards).Draw(rt, "snd"),
		ReceiverShardID: rapid.SampledFrom(f.shards).Draw(rt, "rcv"),
		Type:            rapid.SampledFrom(verifC19Types).Draw(rt, "type"),
	}
	nTx := rapid.IntRange(0, 4).Draw(rt, "nTx")
	for i := 0; i < nTx; i++ {
		mb.TxHashes = append(mb.TxHashes, rapid.SliceOfN(rapid.Byte(), 1, 8).Draw(rt, "txHash"))
	}
	return mb
}

func verifC19CloneMB(mb *block.MiniBlock) *block.MiniBlock {
	if mb == nil {
		return nil
	}
	c := &block.MiniBlock{SenderShardID: mb.SenderShardID, ReceiverShardID: mb.ReceiverShardID, Type: mb.Type}
	for _, h := range mb.TxHashes {
		c.TxHashes = append(c.TxHashes, append([]byte(nil), h...))
	}
	if mb.Reserved != nil {
		c.Reserved = append([]byte(nil), mb.Reserved...)
	}
	return c
}

func (f *verifC19Fixture) otherShard(rt *rapid.T, cur uint32) uint32 {
	for {
		s := rapid.SampledFrom(f.shards).Draw(rt, "otherShard")
		if s != cur {
			return s
		}
	}
}

func verifC19OtherType(rt *rapid.T, cur block.Type) block.Type {
	for {
		s := rapid.SampledFrom(verifC19Types).Draw(rt, "otherType")
		if s != cur {
			return s
		}
	}
}

// change exactly one field of a miniblock (its hash changes as well: the hash covers every field)
func (f *verifC19Fixture) varyMB(rt *rapid.T, mb *block.MiniBlock) string {
	switch rapid.IntRange(0, 4).Draw(rt, "varyField") {
	case 0:
		mb.Type = verifC19OtherType(rt, mb.Type)
		return "type"
	case 1:
		mb.SenderShardID = f.otherShard(rt, mb.SenderShardID)
		return "sender"
	case 2:
		mb.ReceiverShardID = f.otherShard(rt, mb.ReceiverShardID)
		return "receiver"
	case 3:
		mb.TxHashes = append(mb.TxHashes, rapid.SliceOfN(rapid.Byte(), 1, 8).Draw(rt, "addedTx"))
		return "tx-added"
	default:
		if len(mb.TxHashes) > 0 {
			mb.TxHashes = mb.TxHashes[:len(mb.TxHashes)-1]
			return "tx-dropped"
		}
		mb.Reserved = []byte{1}
		return "reserved"
	}
}

type verifC19Case struct {
	body      *block.Body
	entries   []block.MiniBlockHeader
	mutations []string
}

func (vc *verifC19Case) describe(f *verifC19Fixture) string {
	var b bytes.Buffer
	fmt.Fprintf(&b, "mutations=%v\n  header entries:", vc.mutations)
	for _, e := range vc.entries {
		fmt.Fprintf(&b, " %v", verifC19TupleOfEntry(e))
	}
	fmt.Fprintf(&b, "\n  body miniblocks:")
	for _, mb := range vc.body.MiniBlocks {
		if mb == nil {
			fmt.Fprintf(&b, " nil")
			continue
		}
		tp, _ := f.tupleOf(mb)
		fmt.Fprintf(&b, " %v", tp)
	}
	return b.String()
}

func (f *verifC19Fixture) genCase(rt *rapid.T) *verifC19Case {
	vc := &verifC19Case{body: &block.Body{}}

	// a small pool of miniblocks; the body takes copies and one-field variants of them, so that equal and
	// nearly equal miniblocks meet in one body
	pool := make([]*block.MiniBlock, rapid.IntRange(1, 4).Draw(rt, "poolSize"))
	for i := range pool {
		pool[i] = f.genMiniBlock(rt)
	}
	nBody := rapid.IntRange(0, 6).Draw(rt, "nBody")
	for i := 0; i < nBody; i++ {
		mb := verifC19CloneMB(pool[rapid.IntRange(0, len(pool)-1).Draw(rt, "poolIdx")])
		if rapid.IntRange(0, 2).Draw(rt, "variant") == 2 {
			f.varyMB(rt, mb)
		}
		vc.body.MiniBlocks = append(vc.body.MiniBlocks, mb)
	}

	// header entries of the body as a proposer creates them (independent re-implementation)
	for _, mb := range vc.body.MiniBlocks {
		tp, err := f.tupleOf(mb)
		if err != nil {
			rt.Fatalf("fixture: marshal: %v", err)
		}
		vc.entries = append(vc.entries, verifC19EntryOf(tp))
	}

	nMut := rapid.IntRange(0, 2).Draw(rt, "nMutations")
	for m := 0; m < nMut; m++ {
		nb, nh := len(vc.body.MiniBlocks), len(vc.entries)
		switch rapid.IntRange(0, 12).Draw(rt, "mutation") {
		case 0: // body: one miniblock replaced by a copy of another one (duplicate one, drop another)
			if nb >= 2 {
				i := rapid.IntRange(0, nb-1).Draw(rt, "dst")
				j := rapid.IntRange(0, nb-2).Draw(rt, "src")
				if j >= i {
					j++
				}
				vc.body.MiniBlocks[i] = verifC19CloneMB(vc.body.MiniBlocks[j])
				vc.mutations = append(vc.mutations, "body:replace-by-copy")
			}
		case 1: // body: one field of a miniblock changed after the header was built
			if nb >= 1 {
				i := rapid.IntRange(0, nb-1).Draw(rt, "mbIdx")
				if vc.body.MiniBlocks[i] != nil {
					what := f.varyMB(rt, vc.body.MiniBlocks[i])
					vc.mutations = append(vc.mutations, "body:change-"+what)
				}
			}
		case 2: // body: nil miniblock
			if nb >= 1 && !f.noNil {
				vc.body.MiniBlocks[rapid.IntRange(0, nb-1).Draw(rt, "nilIdx")] = nil
				vc.mutations = append(vc.mutations, "body:nil-miniblock")
			}
		case 3: // body: miniblock dropped / appended
			if nb >= 1 && rapid.Bool().Draw(rt, "dropMB") {
				i := rapid.IntRange(0, nb-1).Draw(rt, "dropIdx")
				vc.body.MiniBlocks = append(vc.body.MiniBlocks[:i:i], vc.body.MiniBlocks[i+1:]...)
				vc.mutations = append(vc.mutations, "body:drop")
			} else {
				vc.body.MiniBlocks = append(vc.body.MiniBlocks, f.genMiniBlock(rt))
				vc.mutations = append(vc.mutations, "body:append")
			}
		case 4: // reorder (must stay a match)
			if nb >= 2 {
				i := rapid.IntRange(0, nb-1).Draw(rt, "swapA")
				j := rapid.IntRange(0, nb-1).Draw(rt, "swapB")
				vc.body.MiniBlocks[i], vc.body.MiniBlocks[j] = vc.body.MiniBlocks[j], vc.body.MiniBlocks[i]
				vc.mutations = append(vc.mutations, "body:swap")
			}
		case 5: // header: entry replaced by a copy of another entry
			if nh >= 2 {
				i := rapid.IntRange(0, nh-1).Draw(rt, "hdst")
				j := rapid.IntRange(0, nh-2).Draw(rt, "hsrc")
				if j >= i {
					j++
				}
				vc.entries[i] = verifC19EntryOf(verifC19TupleOfEntry(vc.entries[j]))
				vc.mutations = append(vc.mutations, "hdr:replace-by-copy")
			}
		case 6: // header: drop / duplicate an entry
			if nh >= 1 {
				i := rapid.IntRange(0, nh-1).Draw(rt, "hIdx")
				if rapid.Bool().Draw(rt, "hDrop") {
					vc.entries = append(vc.entries[:i:i], vc.entries[i+1:]...)
					vc.mutations = append(vc.mutations, "hdr:drop")
				} else {
					vc.entries = append(vc.entries, verifC19EntryOf(verifC19TupleOfEntry(vc.entries[i])))
					vc.mutations = append(vc.mutations, "hdr:duplicate")
				}
			}
		case 7: // header: type changed
			if nh >= 1 {
				i := rapid.IntRange(0, nh-1).Draw(rt, "hIdx")
				vc.entries[i].Type = verifC19OtherType(rt, vc.entries[i].Type)
				vc.mutations = append(vc.mutations, "hdr:change-type")
			}
		case 8: // header: sender / receiver changed
			if nh >= 1 {
				i := rapid.IntRange(0, nh-1).Draw(rt, "hIdx")
				if rapid.Bool().Draw(rt, "hSender") {
					vc.entries[i].SenderShardID = f.otherShard(rt, vc.entries[i].SenderShardID)
					vc.mutations = append(vc.mutations, "hdr:change-sender")
				} else {
					vc.entries[i].ReceiverShardID = f.otherShard(rt, vc.entries[i].ReceiverShardID)
					vc.mutations = append(vc.mutations, "hdr:change-receiver")
				}
			}
		case 9: // header: sender and receiver exchanged
			if nh >= 1 {
				i := rapid.IntRange(0, nh-1).Draw(rt, "hIdx")
				if vc.entries[i].SenderShardID != vc.entries[i].ReceiverShardID {
					vc.entries[i].SenderShardID, vc.entries[i].ReceiverShardID = vc.entries[i].ReceiverShardID, vc.entries[i].SenderShardID
					vc.mutations = append(vc.mutations, "hdr:swap-sender-receiver")
				}
			}
		case 10: // header: tx count changed
			if nh >= 1 {
				i := rapid.IntRange(0, nh-1).Draw(rt, "hIdx")
				d := rapid.SampledFrom([]int{-1, 1, 2, 256}).Draw(rt, "countDelta")
				if int(vc.entries[i].TxCount)+d >= 0 {
					vc.entries[i].TxCount = uint32(int(vc.entries[i].TxCount) + d)
					vc.mutations = append(vc.mutations, "hdr:change-txcount")
				}
			}
		case 11: // header: hash changed
			if nh >= 1 {
				i := rapid.IntRange(0, nh-1).Draw(rt, "hIdx")
				h := append([]byte(nil), vc.entries[i].Hash...)
				hashMut := rapid.IntRange(0, 2).Draw(rt, "hashMut")
				if len(h) == 0 {
					hashMut = 3
				}
				switch hashMut {
				case 3:
					h = []byte{1}
				case 0:
					h[rapid.IntRange(0, len(h)-1).Draw(rt, "hashByte")] ^= 1
				case 1:
					h = h[:len(h)-1]
				default:
					h = nil
				}
				vc.entries[i].Hash = h
				vc.mutations = append(vc.mutations, "hdr:change-hash")
			}
		default: // header: entries reordered (must stay a match)
			if nh >= 2 {
				i := rapid.IntRange(0, nh-1).Draw(rt, "hswapA")
				j := rapid.IntRange(0, nh-1).Draw(rt, "hswapB")
				vc.entries[i], vc.entries[j] = vc.entries[j], vc.entries[i]
				vc.mutations = append(vc.mutations, "hdr:swap")
			}
		}
	}
	return vc
}

func TestVerifC19_Correlation(t *testing.T) {
	f := verifC19NewFixture(t)
	kit.Run(t, "C19", kit.Budget{Quick: 40000, Thorough: 600000},
		"body of 0-6 miniblocks that are copies or one-field variants of 1-4 pool miniblocks (shards {0,1,2,meta,all}, 7 types, 0-4 tx hashes); header entries re-computed independently (blake2b over the gogo-proto encoding) and then 0-2 mutations: body replace-by-copy / field change / nil / drop / append / swap, header replace-by-copy / drop / duplicate / change of type, sender, receiver, tx count, hash / sender-receiver exchange / swap; both shard and meta processor judge every pair; non-trivial = at least one mutation applied and equal lengths; distinct by the written-out pair",
		func(rt *rapid.T, c *kit.Case) {
			vc := f.genCase(rt)
			ok, why, err := f.matches(vc.entries, vc.body)
			if err != nil {
				rt.Fatalf("fixture: oracle: %v", err)
			}
			for _, m := range vc.mutations {
				c.Class("mut:" + m)
			}
			if len(vc.mutations) == 0 {
				c.Class("unmutated")
			}
			if ok {
				c.Class("oracle:match")
			} else {
				c.Class("oracle:mismatch")
			}
			sameLen := len(vc.entries) == len(vc.body.MiniBlocks)
			if len(vc.mutations) > 0 && sameLen {
				c.NonTrivial(vc.describe(f))
				if !ok {
					c.Class("nontrivial-mismatch-equal-length")
					c.Sample("%s", vc.describe(f))
				}
			}
			hdr := &block.Header{MiniBlockHeaders: vc.entries}
			for _, name := range []string{"shard", "meta"} {
				var verdict error
				c.NoPanic("C19:"+name+":panic", func() { verdict = f.procs[name].CheckHeaderBodyCorrelation(hdr, vc.body) })
				if verdict != nil {
					c.Class(name + ":rejected")
					if ok {
						// completeness is not part of the statement; an unmutated pair that is rejected means the
						// harness' notion of a header entry is not the processor's: the check would be vacuous
						if len(vc.mutations) == 0 {
							rt.Fatalf("fixture: %s processor rejects an unmutated header/body pair (%v): %s", name, verdict, vc.describe(f))
						}
						c.Class(name + ":matching-pair-rejected")
					}
					continue
				}
				c.Class(name + ":accepted")
				if !ok {
					key := "C19:accepted-mismatch"
					switch {
					case !sameLen:
						key = "C19:accepted-different-length"
					case verifC19HasNil(vc.body):
						key = "C19:accepted-nil-miniblock"
					}
					c.Violation(key, "%s processor accepted a body that does not match the header (%s)\n%s", name, why, vc.describe(f))
				}
			}
		})
}

func verifC19HasNil(b *block.Body) bool {
	for _, mb := range b.MiniBlocks {
		if mb == nil {
			return true
		}
	}
	return false
}

// Regression: the two minimal counterexamples of DESIGN.md section 4, suspicion 7.
func TestVerifC19_Regress(t *testing.T) {
	f := verifC19NewFixture(t)
	a := &block.MiniBlock{SenderShardID: 0, ReceiverShardID: 1, Type: block.TxBlock, TxHashes: [][]byte{[]byte("a")}}
	b := &block.MiniBlock{SenderShardID: 0, ReceiverShardID: 1, Type: block.TxBlock, TxHashes: [][]byte{[]byte("b")}}
	ta, _ := f.tupleOf(a)
	tb, _ := f.tupleOf(b)

	type tc struct {
		key     string
		what    string
		entries []block.MiniBlockHeader
		body    *block.Body
	}
	wrongType := verifC19EntryOf(ta)
	wrongType.Type = block.SmartContractResultBlock
	wrongCount := verifC19EntryOf(ta)
	wrongCount.TxCount = 7
	cases := []tc{
		{"C19:accepted-mismatch", "header [A,B], body [A,A]",
			[]block.MiniBlockHeader{verifC19EntryOf(ta), verifC19EntryOf(tb)}, &block.Body{MiniBlocks: []*block.MiniBlock{a, verifC19CloneMB(a)}}},
		{"C19:accepted-mismatch", "header [A with type SmartContractResultBlock], body [A of type TxBlock]",
			[]block.MiniBlockHeader{wrongType}, &block.Body{MiniBlocks: []*block.MiniBlock{a}}},
		{"C19:accepted-mismatch", "header [A with tx count 7, A], body [A,A]: the first entry is matched by no miniblock",
			[]block.MiniBlockHeader{wrongCount, verifC19EntryOf(ta)}, &block.Body{MiniBlocks: []*block.MiniBlock{a, verifC19CloneMB(a)}}},
	}
	for _, x := range cases {
		ok, why, err := f.matches(x.entries, x.body)
		if err != nil || ok {
			t.Fatalf("fixture: regression pair %q is a match for the oracle (%v)", x.what, err)
		}
		for _, name := range []string{"shard", "meta"} {
			if err := f.procs[name].CheckHeaderBodyCorrelation(&block.Header{MiniBlockHeaders: x.entries}, x.body); err == nil {
				kit.FailPlain(t, "C19", x.key, "%s processor accepted %s (%s)", name, x.what, why)
			}
		}
	}
}

// End-to-end variant: the verdict is the one of shardProcessor.ProcessBlock. The processor is the one of the
// repository test TestShardProcessor_ProcessBlockOnlyIntraShardShouldPass (mock transaction coordinator, accounts
// stub whose root hash equals the header's) with the real marshalizer and hasher, so that a well-formed block with
// intra-shard miniblocks is accepted and the only check that looks at the body's miniblock list is the correlation
// check. ProcessBlock == nil  =>  header entries and body miniblocks are in bijection.
func TestVerifC19_ProcessBlock(t *testing.T) {
	kit.Silence()
	f := &verifC19Fixture{marsh: &marshal.GogoProtoMarshalizer{}, hasher: blake2b.NewBlake2b(),
		shards: []uint32{0, 0, 0, 0, 0, 1}, // self shard 0 mostly: cross-shard miniblocks need notarizing meta blocks
		noNil:  true}
	randSeed := []byte("rand seed")
	rootHash := []byte("rootHash")
	blkc, _ := blockchain.NewBlockChain(&mock.AppStatusHandlerStub{})
	_ = blkc.SetCurrentBlockHeader(&block.Header{Nonce: 0, RandSeed: randSeed})
	_ = blkc.SetGenesisHeader(&block.Header{Nonce: 0})
	coreComponents, dataComponents, bootstrapComponents, statusComponents := createComponentHolderMocks()
	coreComponents.IntMarsh = f.marsh
	coreComponents.Hash = f.hasher
	dataComponents.DataPool = initDataPool([]byte("tx_hash1"))
	dataComponents.BlockChain = blkc
	arguments := CreateMockArguments(coreComponents, dataComponents, bootstrapComponents, statusComponents)
	arguments.AccountsDB[state.UserAccountsState] = &testscommon.AccountsStub{
		JournalLenCalled:       func() int { return 0 },
		RevertToSnapshotCalled: func(_ int) error { return nil },
		RootHashCalled:         func() ([]byte, error) { return rootHash, nil },
	}
	sp, err := blproc.NewShardProcessor(arguments)
	if err != nil {
		t.Fatalf("fixture: %v", err)
	}

	kit.Run(t, "C19", kit.Budget{Quick: 4000, Thorough: 40000},
		"same pair generator with sender/receiver from {0 (self, 5/6), 1}; verdict of shardProcessor.ProcessBlock on a header (nonce 1, round 1, matching previous hash/rand seed/root hash) carrying the entries; non-trivial = at least one mutation and equal lengths",
		func(rt *rapid.T, c *kit.Case) {
			vc := f.genCase(rt)
			ok, why, err := f.matches(vc.entries, vc.body)
			if err != nil {
				rt.Fatalf("fixture: oracle: %v", err)
			}
			if len(vc.mutations) > 0 && len(vc.entries) == len(vc.body.MiniBlocks) {
				c.NonTrivial(vc.describe(f))
			}
			txCount := uint32(0)
			for _, e := range vc.entries {
				txCount += e.TxCount
			}
			hdr := &block.Header{
				Round: 1, Nonce: 1, PrevHash: []byte(""), PrevRandSeed: randSeed, Signature: []byte("signature"),
				PubKeysBitmap: []byte("00110"), ShardID: 0, RootHash: rootHash, MiniBlockHeaders: vc.entries, TxCount: txCount,
				AccumulatedFees: big.NewInt(0), DeveloperFees: big.NewInt(0),
			}
			var verdict error
			c.NoPanic("C19:processblock:panic", func() { verdict = sp.ProcessBlock(hdr, vc.body, haveTime) })
			if verdict != nil {
				c.Class("rejected")
				if ok {
					c.Class("matching-pair-rejected:" + verdict.Error())
				}
				return
			}
			c.Class("accepted")
			if ok && len(vc.mutations) == 0 {
				c.Class("unmutated-accepted")
			}
			if !ok {
				c.Violation("C19:processblock-accepted-mismatch", "ProcessBlock accepted a body that does not match the header (%s)\n%s", why, vc.describe(f))
			}
		})
}

// End-to-end variant for the metachain: the verdict is the one of metaProcessor.ProcessBlock, on ordinary AND on
// start-of-epoch meta blocks (EpochStart.LastFinalizedHeaders non-empty: ProcessBlock leaves through
// processEpochStartMetaBlock). The processor is built from the package's own createMockComponentHolders /
// createMockMetaArguments (mock transaction coordinator, stubs for the epoch start components, accounts stub whose
// root hash equals the header's) with the real marshalizer and hasher; the chain mock returns a drawn previous meta
// block (ordinary or start-of-epoch, so that processIfFirstBlockAfterEpochStart runs as well) and the epoch start
// trigger stub answers what the real trigger answers in that situation. A well-formed meta block without shard info
// is accepted on both paths, and the only check that looks at the body's miniblock list is the correlation check.
// ProcessBlock == nil  =>  header entries and body miniblocks are in bijection. Nothing is asserted about rejected
// blocks (whatever the error).
func TestVerifC19_MetaProcessBlock(t *testing.T) {
	kit.Silence()
	f := &verifC19Fixture{marsh: &marshal.GogoProtoMarshalizer{}, hasher: blake2b.NewBlake2b(),
		shards: []uint32{0, 1, 2, core.MetachainShardId, core.MetachainShardId, core.AllShardId},
		noNil:  true}
	randSeed := []byte("rand seed")
	rootHash := []byte("rootHash")
	prevHash := []byte("prev meta hash")

	var prevHdr *block.MetaBlock // the chain's current block, drawn per case
	var triggerEpoch uint32
	var triggerIsStart bool
	var triggerStartRound uint64

	coreComponents, dataComponents, bootstrapComponents, statusComponents := createMockComponentHolders()
	coreComponents.IntMarsh = f.marsh
	coreComponents.Hash = f.hasher
	dataComponents.BlockChain = &mock.BlockChainMock{
		GetCurrentBlockHeaderCalled:     func() data.HeaderHandler { return prevHdr },
		GetCurrentBlockHeaderHashCalled: func() []byte { return prevHash },
		GetGenesisHeaderCalled:          func() data.HeaderHandler { return &block.Header{Nonce: 0} },
	}
	arguments := createMockMetaArguments(coreComponents, dataComponents, bootstrapComponents, statusComponents)
	arguments.AccountsDB[state.UserAccountsState] = &testscommon.AccountsStub{
		JournalLenCalled:       func() int { return 0 },
		RevertToSnapshotCalled: func(_ int) error { return nil },
		RootHashCalled:         func() ([]byte, error) { return rootHash, nil },
	}
	arguments.EpochStartTrigger = &mock.EpochStartTriggerStub{
		EpochCalled:           func() uint32 { return triggerEpoch },
		IsEpochStartCalled:    func() bool { return triggerIsStart },
		EpochStartRoundCalled: func() uint64 { return triggerStartRound },
	}
	mp, err := blproc.NewMetaProcessor(arguments)
	if err != nil {
		t.Fatalf("fixture: %v", err)
	}

	kit.Run(t, "C19", kit.Budget{Quick: 4000, Thorough: 40000},
		"same pair generator with sender/receiver from {0,1,2,metachain (2/6),all-shards}; verdict of metaProcessor.ProcessBlock on a meta block (nonce = previous+1, later round, matching previous hash/rand seed/root hash/fees, no shard info) carrying the entries; half of the blocks are start-of-epoch blocks (1-3 EpochStart.LastFinalizedHeaders, epoch = previous+1, trigger in the epoch-start state), a quarter follow a start-of-epoch block; non-trivial = at least one mutation and equal lengths; distinct by (kind of block, written-out pair)",
		func(rt *rapid.T, c *kit.Case) {
			vc := f.genCase(rt)
			ok, why, err := f.matches(vc.entries, vc.body)
			if err != nil {
				rt.Fatalf("fixture: oracle: %v", err)
			}
			startOfEpoch := rapid.Bool().Draw(rt, "startOfEpoch")
			prevIsStart := rapid.IntRange(0, 3).Draw(rt, "prevIsStartOfEpoch") == 3
			prevEpoch := rapid.Uint32Range(0, 3).Draw(rt, "prevEpoch")
			prevNonce := rapid.Uint64Range(0, 50).Draw(rt, "prevNonce")
			prevRound := prevNonce + rapid.Uint64Range(0, 5).Draw(rt, "prevRoundGap")
			round := prevRound + rapid.Uint64Range(1, 3).Draw(rt, "roundGap")

			prevHdr = &block.MetaBlock{Nonce: prevNonce, Round: prevRound, Epoch: prevEpoch, RandSeed: randSeed,
				AccumulatedFeesInEpoch: big.NewInt(int64(rapid.IntRange(0, 9).Draw(rt, "prevFeesInEpoch"))), DevFeesInEpoch: big.NewInt(0)}
			if prevIsStart {
				prevHdr.EpochStart.LastFinalizedHeaders = []block.EpochStartShardData{{ShardID: 0}}
			}
			feesInEpoch := big.NewInt(0)
			if !prevIsStart {
				feesInEpoch.Set(prevHdr.AccumulatedFeesInEpoch)
			}
			txCount := uint32(0)
			for _, e := range vc.entries {
				txCount += e.TxCount
			}
			hdr := &block.MetaBlock{
				Nonce: prevNonce + 1, Round: round, Epoch: prevEpoch, PrevHash: prevHash, PrevRandSeed: randSeed,
				RandSeed: []byte("next rand seed"), Signature: []byte("signature"), PubKeysBitmap: []byte("00110"),
				RootHash: rootHash, MiniBlockHeaders: vc.entries, TxCount: txCount,
				AccumulatedFees: big.NewInt(0), DeveloperFees: big.NewInt(0),
				AccumulatedFeesInEpoch: feesInEpoch, DevFeesInEpoch: big.NewInt(0),
			}
			kind := "ordinary"
			triggerEpoch, triggerIsStart, triggerStartRound = prevEpoch, false, 0
			if startOfEpoch {
				kind = "start-of-epoch"
				hdr.Epoch = prevEpoch + 1
				nFin := rapid.IntRange(1, 3).Draw(rt, "nLastFinalized")
				for i := 0; i < nFin; i++ {
					hdr.EpochStart.LastFinalizedHeaders = append(hdr.EpochStart.LastFinalizedHeaders,
						block.EpochStartShardData{ShardID: uint32(i), Nonce: prevNonce, Round: prevRound, HeaderHash: []byte("shard hdr"), RootHash: rootHash})
				}
				hdr.EpochStart.Economics = block.Economics{TotalSupply: big.NewInt(0), TotalToDistribute: big.NewInt(0),
					TotalNewlyMinted: big.NewInt(0), RewardsPerBlock: big.NewInt(0), NodePrice: big.NewInt(0),
					RewardsForProtocolSustainability: big.NewInt(0)}
				// the real trigger has switched to the epoch-start state in the round of this block or before
				triggerEpoch, triggerIsStart, triggerStartRound = prevEpoch+1, true, round-rapid.Uint64Range(0, 1).Draw(rt, "triggerRoundBefore")
			}
			if !hdr.IsStartOfEpochBlock() == startOfEpoch {
				rt.Fatalf("fixture: IsStartOfEpochBlock()=%v for a %s block", hdr.IsStartOfEpochBlock(), kind)
			}
			c.Class("kind:" + kind)
			if prevIsStart {
				c.Class("previous-is-start-of-epoch")
			}
			if len(vc.mutations) > 0 && len(vc.entries) == len(vc.body.MiniBlocks) {
				c.NonTrivial(kind + " " + vc.describe(f))
				if !ok {
					c.Class("nontrivial-mismatch:" + kind)
				}
			}
			var verdict error
			c.NoPanic("C19:metaprocessblock:panic", func() { verdict = mp.ProcessBlock(hdr, vc.body, haveTime) })
			if verdict != nil {
				c.Class("rejected:" + kind)
				if ok {
					if len(vc.mutations) == 0 {
						// without this the acceptance of meta blocks (and with it the whole test) would be vacuous
						rt.Fatalf("fixture: metaProcessor.ProcessBlock rejects a well-formed %s meta block with an unmutated header/body pair (%v): %s", kind, verdict, vc.describe(f))
					}
					c.Class("matching-pair-rejected:" + verdict.Error())
				}
				return
			}
			c.Class("accepted:" + kind)
			if !ok {
				c.Violation("C19:metaprocessblock-accepted-mismatch", "metaProcessor.ProcessBlock accepted a %s meta block (previous block start-of-epoch: %v) whose body does not match the header (%s)\n%s", kind, prevIsStart, why, vc.describe(f))
			}
		})
}
