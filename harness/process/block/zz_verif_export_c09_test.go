package block

import (
	"github.com/ElrondNetwork/elrond-go/data"
	"github.com/ElrondNetwork/elrond-go/data/state"
)

// VerifC09UpdateStateStorage issues, for one meta block that became final, the two updateStateStorage
// calls that metaProcessor.updateState makes (metablock.go:1371-1385): user accounts trie with
// (RootHash, prev RootHash), peer accounts trie with (ValidatorStatsRootHash, prev
// ValidatorStatsRootHash), each with the processor's own pruning queue. updateState itself also needs
// the previous header in the headers pool and takes the epoch-start snapshot; the pruning schedule is
// entirely inside the real baseProcessor.updateStateStorage called here.
func (mp *metaProcessor) VerifC09UpdateStateStorage(finalHeader data.HeaderHandler, prevHeader data.HeaderHandler) {
	mp.updateStateStorage(
		finalHeader,
		finalHeader.GetRootHash(),
		prevHeader.GetRootHash(),
		mp.accountsDB[state.UserAccountsState],
		mp.userStatePruningQueue,
	)
	mp.updateStateStorage(
		finalHeader,
		finalHeader.GetValidatorStatsRootHash(),
		prevHeader.GetValidatorStatsRootHash(),
		mp.accountsDB[state.PeerAccountsState],
		mp.peerStatePruningQueue,
	)
}
