package interceptedBlocks_test

// C18: Block and transaction hashes cannot be changed without changing signed content
// (shard header, meta header, miniblock; the transaction part lives in process/transaction).

import (
	"bytes"
	"errors"
	"fmt"
	"math"
	"math/big"
	"testing"

	"github.com/ElrondNetwork/elrond-go/config"
	"github.com/ElrondNetwork/elrond-go/core"
	"github.com/ElrondNetwork/elrond-go/data"
	"github.com/ElrondNetwork/elrond-go/data/block"
	"github.com/ElrondNetwork/elrond-go/hashing/blake2b"
	"github.com/ElrondNetwork/elrond-go/marshal"
	"github.com/ElrondNetwork/elrond-go/process"
	"github.com/ElrondNetwork/elrond-go/process/block/interceptedBlocks"
	"github.com/ElrondNetwork/elrond-go/process/headerCheck"
	"github.com/ElrondNetwork/elrond-go/process/mock"
	"github.com/ElrondNetwork/elrond-go/testscommon"
	kit "github.com/ElrondNetwork/elrond-go/verifkit"
	"pgregory.net/rapid"
)

// ---- schemas copied from data/block/proto/block.proto and metaBlock.proto

var verifC18MiniBlockHeaderSchema = &verifC18Schema{Name: "MiniBlockHeader", Fields: []verifC18FieldDef{
	{Num: 1, Kind: verifC18Bytes}, {Num: 2, Kind: verifC18U32}, {Num: 3, Kind: verifC18U32},
	{Num: 4, Kind: verifC18U32}, {Num: 5, Kind: verifC18U32}, {Num: 6, Kind: verifC18Bytes},
}}

var verifC18PeerChangeSchema = &verifC18Schema{Name: "PeerChange", Fields: []verifC18FieldDef{
	{Num: 1, Kind: verifC18Bytes}, {Num: 2, Kind: verifC18U32},
}}

var verifC18MiniBlockSchema = &verifC18Schema{Name: "MiniBlock", Fields: []verifC18FieldDef{
	{Num: 1, Kind: verifC18Bytes, Rep: true}, {Num: 2, Kind: verifC18U32}, {Num: 3, Kind: verifC18U32},
	{Num: 4, Kind: verifC18U32}, {Num: 5, Kind: verifC18Bytes},
}}

var verifC18HeaderSchema = &verifC18Schema{Name: "Header", Fields: []verifC18FieldDef{
	{Num: 1, Kind: verifC18U64}, {Num: 2, Kind: verifC18Bytes}, {Num: 3, Kind: verifC18Bytes}, {Num: 4, Kind: verifC18Bytes},
	{Num: 5, Kind: verifC18Bytes}, {Num: 6, Kind: verifC18U32}, {Num: 7, Kind: verifC18U64}, {Num: 8, Kind: verifC18U64},
	{Num: 9, Kind: verifC18U32}, {Num: 10, Kind: verifC18U32}, {Num: 11, Kind: verifC18Bytes}, {Num: 12, Kind: verifC18Bytes},
	{Num: 13, Kind: verifC18Msg, Rep: true, Sub: verifC18MiniBlockHeaderSchema},
	{Num: 14, Kind: verifC18Msg, Rep: true, Sub: verifC18PeerChangeSchema},
	{Num: 15, Kind: verifC18Bytes}, {Num: 16, Kind: verifC18Bytes, Rep: true}, {Num: 17, Kind: verifC18U32},
	{Num: 18, Kind: verifC18Bytes}, {Num: 19, Kind: verifC18Bytes}, {Num: 20, Kind: verifC18Bytes}, {Num: 21, Kind: verifC18Bytes},
	{Num: 22, Kind: verifC18BigInt}, {Num: 23, Kind: verifC18BigInt}, {Num: 24, Kind: verifC18Bytes},
}}

var verifC18PeerDataSchema = &verifC18Schema{Name: "PeerData", Fields: []verifC18FieldDef{
	{Num: 1, Kind: verifC18Bytes}, {Num: 2, Kind: verifC18Bytes}, {Num: 3, Kind: verifC18U32}, {Num: 4, Kind: verifC18U64},
	{Num: 5, Kind: verifC18BigInt},
}}

var verifC18ShardDataSchema = &verifC18Schema{Name: "ShardData", Fields: []verifC18FieldDef{
	{Num: 1, Kind: verifC18U32}, {Num: 2, Kind: verifC18Bytes},
	{Num: 3, Kind: verifC18Msg, Rep: true, Sub: verifC18MiniBlockHeaderSchema},
	{Num: 4, Kind: verifC18Bytes}, {Num: 5, Kind: verifC18Bytes}, {Num: 6, Kind: verifC18Bytes}, {Num: 7, Kind: verifC18U32},
	{Num: 8, Kind: verifC18U64}, {Num: 9, Kind: verifC18Bytes}, {Num: 10, Kind: verifC18U64}, {Num: 11, Kind: verifC18U32},
	{Num: 12, Kind: verifC18BigInt}, {Num: 13, Kind: verifC18U64}, {Num: 14, Kind: verifC18BigInt},
}}

var verifC18EpochStartShardDataSchema = &verifC18Schema{Name: "EpochStartShardData", Fields: []verifC18FieldDef{
	{Num: 1, Kind: verifC18U32}, {Num: 2, Kind: verifC18Bytes}, {Num: 3, Kind: verifC18Bytes}, {Num: 4, Kind: verifC18Bytes},
	{Num: 5, Kind: verifC18Bytes}, {Num: 6, Kind: verifC18Msg, Rep: true, Sub: verifC18MiniBlockHeaderSchema},
	{Num: 7, Kind: verifC18U64}, {Num: 8, Kind: verifC18U64}, {Num: 9, Kind: verifC18U32},
}}

var verifC18EconomicsSchema = &verifC18Schema{Name: "Economics", Fields: []verifC18FieldDef{
	{Num: 1, Kind: verifC18BigInt}, {Num: 2, Kind: verifC18BigInt}, {Num: 3, Kind: verifC18BigInt}, {Num: 4, Kind: verifC18BigInt},
	{Num: 5, Kind: verifC18BigInt}, {Num: 6, Kind: verifC18BigInt}, {Num: 7, Kind: verifC18U64}, {Num: 8, Kind: verifC18Bytes},
}}

var verifC18EpochStartSchema = &verifC18Schema{Name: "EpochStart", Fields: []verifC18FieldDef{
	{Num: 1, Kind: verifC18Msg, Rep: true, Sub: verifC18EpochStartShardDataSchema},
	{Num: 2, Kind: verifC18Msg, Sub: verifC18EconomicsSchema},
}}

var verifC18MetaBlockSchema = &verifC18Schema{Name: "MetaBlock", Fields: []verifC18FieldDef{
	{Num: 1, Kind: verifC18U64}, {Num: 2, Kind: verifC18U32}, {Num: 3, Kind: verifC18U64}, {Num: 4, Kind: verifC18U64},
	{Num: 5, Kind: verifC18Msg, Rep: true, Sub: verifC18ShardDataSchema},
	{Num: 6, Kind: verifC18Msg, Rep: true, Sub: verifC18PeerDataSchema},
	{Num: 7, Kind: verifC18Bytes}, {Num: 8, Kind: verifC18Bytes}, {Num: 9, Kind: verifC18Bytes}, {Num: 10, Kind: verifC18Bytes},
	{Num: 11, Kind: verifC18Bytes}, {Num: 12, Kind: verifC18Bytes}, {Num: 13, Kind: verifC18Bytes}, {Num: 14, Kind: verifC18Bytes},
	{Num: 16, Kind: verifC18Msg, Rep: true, Sub: verifC18MiniBlockHeaderSchema},
	{Num: 17, Kind: verifC18Bytes},
	{Num: 18, Kind: verifC18Msg, Sub: verifC18EpochStartSchema},
	{Num: 19, Kind: verifC18Bytes}, {Num: 20, Kind: verifC18Bytes},
	{Num: 21, Kind: verifC18BigInt}, {Num: 22, Kind: verifC18BigInt}, {Num: 23, Kind: verifC18BigInt}, {Num: 24, Kind: verifC18BigInt},
	{Num: 25, Kind: verifC18U32}, {Num: 26, Kind: verifC18Bytes},
}}

// ---- fixture

const verifC18NumShards = 3

var verifC18ChainID = []byte("T")
var verifC18Version = []byte("v1")

// verifC18HdrSigModel models the three signatures of a header the way process/headerCheck.HeaderSigVerifier checks
// them: the aggregated signature is over the header with Signature, PubKeysBitmap and LeaderSignature removed
// (copyHeaderWithoutSig) and is verified together with the bitmap; the leader signature is over the header with only
// LeaderSignature removed (copyHeaderWithoutLeaderSig); the rand seed is the leader's signature over PrevRandSeed (the
// leader being a function of PrevRandSeed, round, shard and epoch). Verification succeeds exactly for the triples the
// harness registered from headers it generated itself.
type verifC18HdrSigModel struct {
	valid       map[string]struct{}
	whiteListed bool // the header was requested by this node (CheckBlockAgainstWhitelist)
}

func verifC18NewHdrSigModel(whiteListed bool) *verifC18HdrSigModel {
	return &verifC18HdrSigModel{valid: map[string]struct{}{}, whiteListed: whiteListed}
}

func verifC18HdrSigKeys(h data.HeaderHandler) (agg, leader, rnd string, err error) {
	m := &marshal.GogoProtoMarshalizer{}
	noSig := h.Clone()
	noSig.SetSignature(nil)
	noSig.SetPubKeysBitmap(nil)
	noSig.SetLeaderSignature(nil)
	b1, err := m.Marshal(noSig)
	if err != nil {
		return "", "", "", err
	}
	noLeader := h.Clone()
	noLeader.SetLeaderSignature(nil)
	b2, err := m.Marshal(noLeader)
	if err != nil {
		return "", "", "", err
	}
	agg = fmt.Sprintf("agg|%x|%x|%x", b1, h.GetPubKeysBitmap(), h.GetSignature())
	leader = fmt.Sprintf("leader|%x|%x", b2, h.GetLeaderSignature())
	rnd = fmt.Sprintf("rand|%x|%d|%d|%d|%x", h.GetPrevRandSeed(), h.GetRound(), h.GetShardID(), h.GetEpoch(), h.GetRandSeed())
	return agg, leader, rnd, nil
}

func (s *verifC18HdrSigModel) register(h data.HeaderHandler) error {
	agg, leader, rnd, err := verifC18HdrSigKeys(h)
	if err != nil {
		return err
	}
	s.valid[agg], s.valid[leader], s.valid[rnd] = struct{}{}, struct{}{}, struct{}{}
	return nil
}

var errVerifC18HdrSig = errors.New("verif: header signature does not verify")

func (s *verifC18HdrSigModel) verifier() *mock.HeaderSigVerifierStub {
	has := func(k string) error {
		if _, ok := s.valid[k]; ok {
			return nil
		}
		return errVerifC18HdrSig
	}
	return &mock.HeaderSigVerifierStub{
		VerifySignatureCalled: func(h data.HeaderHandler) error {
			agg, _, _, err := verifC18HdrSigKeys(h)
			if err != nil {
				return err
			}
			return has(agg)
		},
		VerifyRandSeedAndLeaderSignatureCalled: func(h data.HeaderHandler) error {
			_, leader, rnd, err := verifC18HdrSigKeys(h)
			if err != nil {
				return err
			}
			if err = has(rnd); err != nil {
				return err
			}
			return has(leader)
		},
	}
}

func verifC18HeaderArgs(t interface{ Fatalf(string, ...interface{}) }, sm *verifC18HdrSigModel, m marshal.Marshalizer, buff []byte) *interceptedBlocks.ArgInterceptedBlockHeader {
	iv, err := headerCheck.NewHeaderIntegrityVerifier(verifC18ChainID,
		[]config.VersionByEpochs{{StartEpoch: 0, Version: "v1"}, {StartEpoch: 1000, Version: "*"}}, "default", testscommon.NewCacherMock())
	if err != nil {
		t.Fatalf("fixture: integrity verifier: %v", err)
	}
	coord := mock.NewMultiShardsCoordinatorMock(verifC18NumShards)
	coord.CurrentShard = 1
	return &interceptedBlocks.ArgInterceptedBlockHeader{
		HdrBuff:                 buff,
		Marshalizer:             m,
		Hasher:                  blake2b.NewBlake2b(),
		ShardCoordinator:        coord,
		HeaderSigVerifier:       sm.verifier(),
		HeaderIntegrityVerifier: iv,
		// requested headers are white-listed by the interceptors (hash, shard-nonce and epoch identifiers): a modified
		// copy of a requested header is white-listed as well
		ValidityAttester:  &mock.ValidityAttesterStub{CheckBlockAgainstWhitelistCalled: func(process.InterceptedData) bool { return sm.whiteListed }},
		EpochStartTrigger: &mock.EpochStartTriggerStub{},
	}
}

func verifC18Outcomes(hash []byte, content interface{}, err error) verifC18Outcome {
	if err != nil {
		return verifC18Outcome{Err: err.Error()}
	}
	return verifC18Outcome{Accepted: true, Hash: hash, Content: content}
}

func verifC18HeaderTarget(t interface{ Fatalf(string, ...interface{}) }, sm *verifC18HdrSigModel) *verifC18Target {
	return &verifC18Target{Name: "header", Schema: verifC18HeaderSchema, SigFields: []int{4, 5, 11, 12}, // RandSeed, PubKeysBitmap, Signature, LeaderSignature
		Intercept: func(b []byte, m marshal.Marshalizer) verifC18Outcome {
			ih, err := interceptedBlocks.NewInterceptedHeader(verifC18HeaderArgs(t, sm, m, b))
			if err != nil {
				return verifC18Outcomes(nil, nil, err)
			}
			if err = ih.CheckValidity(); err != nil {
				return verifC18Outcomes(nil, nil, err)
			}
			return verifC18Outcomes(ih.Hash(), ih.HeaderHandler(), nil)
		}}
}

func verifC18MetaTarget(t interface{ Fatalf(string, ...interface{}) }, sm *verifC18HdrSigModel) *verifC18Target {
	return &verifC18Target{Name: "metaheader", Schema: verifC18MetaBlockSchema, SigFields: []int{7, 8, 9, 12}, // Signature, LeaderSignature, PubKeysBitmap, RandSeed
		Intercept: func(b []byte, m marshal.Marshalizer) verifC18Outcome {
			ih, err := interceptedBlocks.NewInterceptedMetaHeader(verifC18HeaderArgs(t, sm, m, b))
			if err != nil {
				return verifC18Outcomes(nil, nil, err)
			}
			if err = ih.CheckValidity(); err != nil {
				return verifC18Outcomes(nil, nil, err)
			}
			return verifC18Outcomes(ih.Hash(), ih.HeaderHandler(), nil)
		}}
}

func verifC18MiniblockTarget() *verifC18Target {
	return &verifC18Target{Name: "miniblock", Schema: verifC18MiniBlockSchema, Skip: []string{"bigint-noncanonical", "content-forged"}, // a miniblock carries no signature: any changed miniblock is another valid miniblock
		Intercept: func(b []byte, m marshal.Marshalizer) verifC18Outcome {
			coord := mock.NewMultiShardsCoordinatorMock(verifC18NumShards)
			coord.CurrentShard = 1
			im, err := interceptedBlocks.NewInterceptedMiniblock(&interceptedBlocks.ArgInterceptedMiniblock{
				MiniblockBuff: b, Marshalizer: m, Hasher: blake2b.NewBlake2b(), ShardCoordinator: coord,
			})
			if err != nil {
				return verifC18Outcomes(nil, nil, err)
			}
			if err = im.CheckValidity(); err != nil {
				return verifC18Outcomes(nil, nil, err)
			}
			return verifC18Outcomes(im.Hash(), im.Miniblock(), nil)
		}}
}

// ---- generators of valid values

func verifC18GenBytes(rt *rapid.T, label string, min, max int) []byte {
	return rapid.SliceOfN(rapid.Byte(), min, max).Draw(rt, label)
}

// non-empty short byte string (hash-like fields are opaque to the interceptor; short keeps cases small)
func verifC18Hash(rt *rapid.T, label string) []byte {
	if rapid.IntRange(0, 3).Draw(rt, label+"Long") == 0 {
		return verifC18GenBytes(rt, label, 32, 32)
	}
	return verifC18GenBytes(rt, label, 1, 4)
}

func verifC18OptBytes(rt *rapid.T, label string) []byte {
	if rapid.Bool().Draw(rt, label+"Absent") {
		return nil
	}
	return verifC18GenBytes(rt, label, 1, 6)
}

func verifC18U64Gen(rt *rapid.T, label string) uint64 {
	switch rapid.IntRange(0, 4).Draw(rt, label+"Kind") {
	case 0:
		return 0
	case 1:
		return uint64(rapid.IntRange(1, 127).Draw(rt, label))
	case 2:
		return uint64(rapid.IntRange(128, 1<<21).Draw(rt, label))
	case 3:
		return rapid.Uint64().Draw(rt, label)
	default:
		return uint64(rapid.IntRange(1, 5000).Draw(rt, label))
	}
}

func verifC18U32Gen(rt *rapid.T, label string) uint32 {
	return uint32(verifC18U64Gen(rt, label))
}

func verifC18BigGen(rt *rapid.T, label string) *big.Int {
	switch rapid.IntRange(0, 5).Draw(rt, label+"Kind") {
	case 0:
		return nil
	case 1:
		return big.NewInt(0)
	case 2:
		return big.NewInt(int64(rapid.IntRange(1, 255).Draw(rt, label)))
	case 3:
		return new(big.Int).SetBytes(verifC18GenBytes(rt, label, 2, 12))
	case 4:
		return big.NewInt(-int64(rapid.IntRange(1, 70000).Draw(rt, label)))
	default:
		return big.NewInt(int64(rapid.IntRange(256, 1<<30).Draw(rt, label)))
	}
}

func verifC18ShardID(rt *rapid.T, label string, allowAll bool) uint32 {
	ids := []uint32{0, 1, 2, core.MetachainShardId}
	if allowAll {
		ids = append(ids, core.AllShardId)
	}
	return rapid.SampledFrom(ids).Draw(rt, label)
}

var verifC18Types = []block.Type{block.TxBlock, block.StateBlock, block.PeerBlock, block.SmartContractResultBlock,
	block.InvalidBlock, block.ReceiptBlock, block.RewardsBlock}

func verifC18MbHeaders(rt *rapid.T, label string) []block.MiniBlockHeader {
	n := rapid.IntRange(0, 3).Draw(rt, label+"N")
	var out []block.MiniBlockHeader
	for i := 0; i < n; i++ {
		out = append(out, block.MiniBlockHeader{
			Hash:            verifC18OptBytes(rt, label+"Hash"),
			SenderShardID:   verifC18ShardID(rt, label+"Snd", true),
			ReceiverShardID: verifC18ShardID(rt, label+"Rcv", true),
			TxCount:         verifC18U32Gen(rt, label+"TxCount"),
			Type:            rapid.SampledFrom(verifC18Types).Draw(rt, label+"Type"),
		})
	}
	return out
}

func verifC18GenHeader(rt *rapid.T) *block.Header {
	h := &block.Header{
		Nonce:              verifC18U64Gen(rt, "nonce"),
		PrevHash:           verifC18Hash(rt, "prevHash"),
		PrevRandSeed:       verifC18Hash(rt, "prevRandSeed"),
		RandSeed:           verifC18Hash(rt, "randSeed"),
		PubKeysBitmap:      verifC18GenBytes(rt, "bitmap", 1, 3),
		ShardID:            verifC18ShardID(rt, "shard", false),
		TimeStamp:          verifC18U64Gen(rt, "ts"),
		Round:              verifC18U64Gen(rt, "round"),
		Epoch:              uint32(rapid.IntRange(0, 999).Draw(rt, "epoch")),
		BlockBodyType:      rapid.SampledFrom(verifC18Types).Draw(rt, "bodyType"),
		Signature:          verifC18Hash(rt, "sig"),
		LeaderSignature:    verifC18OptBytes(rt, "leaderSig"),
		MiniBlockHeaders:   verifC18MbHeaders(rt, "mbh"),
		RootHash:           verifC18Hash(rt, "rootHash"),
		TxCount:            verifC18U32Gen(rt, "txCount"),
		EpochStartMetaHash: verifC18OptBytes(rt, "esmh"),
		ReceiptsHash:       verifC18OptBytes(rt, "receipts"),
		ChainID:            verifC18ChainID,
		SoftwareVersion:    verifC18Version,
		AccumulatedFees:    verifC18BigGen(rt, "accFees"),
		DeveloperFees:      verifC18BigGen(rt, "devFees"),
	}
	for i, n := 0, rapid.IntRange(0, 2).Draw(rt, "peerChangesN"); i < n; i++ {
		h.PeerChanges = append(h.PeerChanges, block.PeerChange{PubKey: verifC18OptBytes(rt, "pcKey"), ShardIdDest: verifC18U32Gen(rt, "pcShard")})
	}
	for i, n := 0, rapid.IntRange(0, 3).Draw(rt, "metaHashesN"); i < n; i++ {
		h.MetaBlockHashes = append(h.MetaBlockHashes, verifC18GenBytes(rt, "metaHash", 0, 4))
	}
	return h
}

func verifC18GenMeta(rt *rapid.T) *block.MetaBlock {
	h := &block.MetaBlock{
		Nonce:                  verifC18U64Gen(rt, "nonce"),
		Epoch:                  uint32(rapid.IntRange(0, 999).Draw(rt, "epoch")),
		Round:                  verifC18U64Gen(rt, "round"),
		TimeStamp:              verifC18U64Gen(rt, "ts"),
		Signature:              verifC18Hash(rt, "sig"),
		LeaderSignature:        verifC18OptBytes(rt, "leaderSig"),
		PubKeysBitmap:          verifC18GenBytes(rt, "bitmap", 1, 3),
		PrevHash:               verifC18Hash(rt, "prevHash"),
		PrevRandSeed:           verifC18Hash(rt, "prevRandSeed"),
		RandSeed:               verifC18Hash(rt, "randSeed"),
		RootHash:               verifC18Hash(rt, "rootHash"),
		ValidatorStatsRootHash: verifC18OptBytes(rt, "vsrh"),
		MiniBlockHeaders:       verifC18MbHeaders(rt, "mbh"),
		ReceiptsHash:           verifC18OptBytes(rt, "receipts"),
		ChainID:                verifC18ChainID,
		SoftwareVersion:        verifC18Version,
		AccumulatedFees:        verifC18BigGen(rt, "accFees"),
		AccumulatedFeesInEpoch: verifC18BigGen(rt, "accFeesEpoch"),
		DeveloperFees:          verifC18BigGen(rt, "devFees"),
		DevFeesInEpoch:         verifC18BigGen(rt, "devFeesEpoch"),
		TxCount:                verifC18U32Gen(rt, "txCount"),
	}
	for i, n := 0, rapid.IntRange(0, 2).Draw(rt, "shardInfoN"); i < n; i++ {
		sd := block.ShardData{
			ShardID:               verifC18ShardID(rt, "sdShard", false),
			HeaderHash:            verifC18OptBytes(rt, "sdHash"),
			ShardMiniBlockHeaders: verifC18MbHeaders(rt, "sdMbh"),
			PrevRandSeed:          verifC18OptBytes(rt, "sdPrs"),
			PubKeysBitmap:         verifC18OptBytes(rt, "sdBitmap"),
			Signature:             verifC18OptBytes(rt, "sdSig"),
			Round:                 verifC18U64Gen(rt, "sdRound"),
			PrevHash:              verifC18OptBytes(rt, "sdPrev"),
			Nonce:                 verifC18U64Gen(rt, "sdNonce"),
			AccumulatedFees:       verifC18BigGen(rt, "sdAcc"),
			DeveloperFees:         verifC18BigGen(rt, "sdDev"),
			NumPendingMiniBlocks:  verifC18U32Gen(rt, "sdPending"),
			LastIncludedMetaNonce: verifC18U64Gen(rt, "sdLast"),
			TxCount:               verifC18U32Gen(rt, "sdTx"),
		}
		h.ShardInfo = append(h.ShardInfo, sd)
	}
	for i, n := 0, rapid.IntRange(0, 2).Draw(rt, "peerInfoN"); i < n; i++ {
		h.PeerInfo = append(h.PeerInfo, block.PeerData{
			Address:     verifC18OptBytes(rt, "pdAddr"),
			PublicKey:   verifC18OptBytes(rt, "pdKey"),
			Action:      block.PeerAction(rapid.IntRange(0, 7).Draw(rt, "pdAction")),
			TimeStamp:   verifC18U64Gen(rt, "pdTs"),
			ValueChange: verifC18BigGen(rt, "pdValue"),
		})
	}
	if rapid.IntRange(0, 2).Draw(rt, "epochStart") == 0 {
		for i, n := 0, rapid.IntRange(1, 2).Draw(rt, "esN"); i < n; i++ {
			h.EpochStart.LastFinalizedHeaders = append(h.EpochStart.LastFinalizedHeaders, block.EpochStartShardData{
				ShardID:                 verifC18ShardID(rt, "esShard", false),
				Epoch:                   verifC18U32Gen(rt, "esEpoch"),
				Round:                   verifC18U64Gen(rt, "esRound"),
				Nonce:                   verifC18U64Gen(rt, "esNonce"),
				HeaderHash:              verifC18OptBytes(rt, "esHash"),
				RootHash:                verifC18OptBytes(rt, "esRoot"),
				FirstPendingMetaBlock:   verifC18OptBytes(rt, "esFirst"),
				LastFinishedMetaBlock:   verifC18OptBytes(rt, "esLast"),
				PendingMiniBlockHeaders: verifC18MbHeaders(rt, "esMbh"),
			})
		}
		h.EpochStart.Economics = block.Economics{
			TotalSupply:                      verifC18BigGen(rt, "ecoSupply"),
			TotalToDistribute:                verifC18BigGen(rt, "ecoDistribute"),
			TotalNewlyMinted:                 verifC18BigGen(rt, "ecoMinted"),
			RewardsPerBlock:                  verifC18BigGen(rt, "ecoRewards"),
			RewardsForProtocolSustainability: verifC18BigGen(rt, "ecoSust"),
			NodePrice:                        verifC18BigGen(rt, "ecoPrice"),
			PrevEpochStartRound:              verifC18U64Gen(rt, "ecoRound"),
			PrevEpochStartHash:               verifC18OptBytes(rt, "ecoHash"),
		}
	}
	return h
}

func verifC18GenMiniblock(rt *rapid.T) *block.MiniBlock {
	mb := &block.MiniBlock{
		ReceiverShardID: verifC18ShardID(rt, "rcv", true),
		SenderShardID:   verifC18ShardID(rt, "snd", false),
		Type:            rapid.SampledFrom(verifC18Types).Draw(rt, "type"),
	}
	for i, n := 0, rapid.IntRange(0, 5).Draw(rt, "txHashesN"); i < n; i++ {
		mb.TxHashes = append(mb.TxHashes, verifC18GenBytes(rt, "txHash", 0, 5))
	}
	return mb
}

const verifC18Rule = "a valid random value is marshalled (canonical bytes b0) and re-encoded by one wire-level mutation class " +
	"(reorder, unknown field, non-minimal varint, explicit default, duplicated field, interleaved repeated field, non-canonical big-int bytes, combined; " +
	"garbage that is no valid re-encoding; a changed field value), on the top-level or an embedded message; both byte strings go through the real constructor + CheckValidity " +
	"with the production marshalizer unwrapped or wrapped by the size check (delta 10, 100, 1..300); " +
	"non-trivial = b1 != b0, both accepted, decoded content Equal (or, for a changed value, both accepted with different content); distinct by (class, marshalizer, b1)"

func TestVerifC18_Header(t *testing.T) {
	m := &marshal.GogoProtoMarshalizer{}
	kit.Run(t, "C18", kit.Budget{Quick: 6000, Thorough: 80000}, "shard header: "+verifC18Rule, func(rt *rapid.T, c *kit.Case) {
		h := verifC18GenHeader(rt)
		b0, err := m.Marshal(h)
		if err != nil {
			rt.Fatalf("fixture: marshal: %v", err)
		}
		sm := verifC18NewHdrSigModel(rapid.Bool().Draw(rt, "whiteListed"))
		if err = sm.register(h); err != nil {
			rt.Fatalf("fixture: signed content: %v", err)
		}
		authorise := func(b []byte) bool {
			other := &block.Header{}
			return m.Unmarshal(other, b) == nil && sm.register(other) == nil
		}
		if sm.whiteListed {
			c.Class("header:white-listed")
		}
		verifC18RunCase(rt, c, verifC18HeaderTarget(rt, sm), b0, authorise)
	})
}

func TestVerifC18_MetaHeader(t *testing.T) {
	m := &marshal.GogoProtoMarshalizer{}
	kit.Run(t, "C18", kit.Budget{Quick: 6000, Thorough: 80000}, "meta header: "+verifC18Rule, func(rt *rapid.T, c *kit.Case) {
		h := verifC18GenMeta(rt)
		b0, err := m.Marshal(h)
		if err != nil {
			rt.Fatalf("fixture: marshal: %v", err)
		}
		sm := verifC18NewHdrSigModel(rapid.Bool().Draw(rt, "whiteListed"))
		if err = sm.register(h); err != nil {
			rt.Fatalf("fixture: signed content: %v", err)
		}
		authorise := func(b []byte) bool {
			other := &block.MetaBlock{}
			return m.Unmarshal(other, b) == nil && sm.register(other) == nil
		}
		if sm.whiteListed {
			c.Class("metaheader:white-listed")
		}
		verifC18RunCase(rt, c, verifC18MetaTarget(rt, sm), b0, authorise)
	})
}

func TestVerifC18_Miniblock(t *testing.T) {
	tg := verifC18MiniblockTarget()
	m := &marshal.GogoProtoMarshalizer{}
	kit.Run(t, "C18", kit.Budget{Quick: 6000, Thorough: 80000}, "miniblock: "+verifC18Rule, func(rt *rapid.T, c *kit.Case) {
		b0, err := m.Marshal(verifC18GenMiniblock(rt))
		if err != nil {
			rt.Fatalf("fixture: marshal: %v", err)
		}
		if len(b0) == 0 {
			c.Class("miniblock:empty-encoding")
			return // the constructor rejects an empty buffer
		}
		verifC18RunCase(rt, c, tg, b0, nil)
	})
}

// regression table: one hand-written pair per finding class (runs in every tier)
func TestVerifC18_RegressBlocks(t *testing.T) {
	kit.Silence()
	m := &marshal.GogoProtoMarshalizer{}
	mb := &block.MiniBlock{TxHashes: [][]byte{[]byte("a"), []byte("b")}, ReceiverShardID: 1, SenderShardID: 2}
	b0, _ := m.Marshal(mb)
	tg := verifC18MiniblockTarget()
	top, err := verifC18Parse(tg.Schema, b0)
	if err != nil {
		t.Fatalf("fixture: %v", err)
	}
	// reorder: SenderShardID before ReceiverShardID
	re := verifC18CloneNodes(top)
	re[2], re[3] = re[3], re[2]
	table := []struct {
		class string
		b1    []byte
		delta uint32
	}{
		{"reorder", verifC18Encode(re), 10},
		{"unknown-field", append(append([]byte{}, b0...), 0x38, 0x01), 100},
		{"explicit-default", append(append([]byte{}, b0...), 0x20, 0x00), 100},
		{"nonminimal-varint", bytes.Replace(b0, []byte{0x10, 0x01}, []byte{0x10, 0x81, 0x00}, 1), 100},
	}
	for _, e := range table {
		mm := marshal.NewSizeCheckUnmarshalizer(m, e.delta)
		o0, o1 := tg.Intercept(b0, mm), tg.Intercept(e.b1, mm)
		if !o0.Accepted {
			t.Fatalf("fixture: canonical miniblock rejected: %s", o0.Err)
		}
		if o1.Accepted && o0.Content.(verifC18Equaler).Equal(o1.Content) && !bytes.Equal(o0.Hash, o1.Hash) {
			kit.FailPlain(t, "C18", "C18:miniblock:"+e.class, "miniblock %x and %x (delta %d) decode to the same content, are both accepted, hashes %x / %x", b0, e.b1, e.delta, o0.Hash, o1.Hash)
		}
	}
	// trailing garbage must stay rejected, also without the size check
	for _, g := range [][]byte{{0x00}, {0x80}, {0x3e}, {0x3a, 0x05, 0x01}} {
		o := tg.Intercept(append(append([]byte{}, b0...), g...), m)
		if o.Accepted && mb.Equal(o.Content) {
			kit.FailPlain(t, "C18", "C18:miniblock:garbage-accepted", "miniblock %x with trailing garbage %x accepted with the same content", b0, g)
		}
	}
	// oversize unknown field must be rejected by the size check
	big := append(append([]byte{}, b0...), append([]byte{0x3a, 0x40}, bytes.Repeat([]byte{1}, 64)...)...)
	o := tg.Intercept(big, marshal.NewSizeCheckUnmarshalizer(m, 10))
	if o.Accepted && mb.Equal(o.Content) {
		kit.FailPlain(t, "C18", "C18:miniblock:oversize-accepted", "miniblock of %d bytes accepted as encoding of a %d byte object with delta 10", len(big), len(b0))
	}
	// stacked decorators (a lax one installed first on the shared marshalizer, the node's delta on top, and the reverse):
	// the strictest delta is the bound
	for _, st := range [][]uint32{{math.MaxUint32, 10}, {10, math.MaxUint32}, {100, 10}} {
		var mm marshal.Marshalizer = m
		for _, d := range st {
			mm = marshal.NewSizeCheckUnmarshalizer(mm, d)
		}
		if o = tg.Intercept(big, mm); o.Accepted && mb.Equal(o.Content) {
			kit.FailPlain(t, "C18", "C18:miniblock:oversize-accepted", "miniblock of %d bytes accepted as encoding of a %d byte object with stacked size checks %v", len(big), len(b0), st)
		}
	}
	_ = process.ErrNilBuffer
}
