package interceptedBlocks_test

import (
	"bytes"
	"testing"

	"github.com/ElrondNetwork/elrond-go/data/block"
	"github.com/ElrondNetwork/elrond-go/marshal"
	kit "github.com/ElrondNetwork/elrond-go/verifkit"
)

// FuzzVerifC18_Header: the fuzzer supplies b1; the harness canonicalises (decode -> marshal) to b0 and evaluates the
// C18 statement on the pair (see FuzzVerifC18_Tx in process/transaction).
func FuzzVerifC18_Header(f *testing.F) {
	kit.Silence()
	m := &marshal.GogoProtoMarshalizer{}
	seed := &block.Header{Nonce: 1, PrevHash: []byte("p"), PrevRandSeed: []byte("r"), RandSeed: []byte("s"), PubKeysBitmap: []byte{1},
		ShardID: 1, Round: 2, Signature: []byte("g"), RootHash: []byte("h"), ChainID: verifC18ChainID, SoftwareVersion: verifC18Version,
		MiniBlockHeaders: []block.MiniBlockHeader{{Hash: []byte("m"), SenderShardID: 1, ReceiverShardID: 2, TxCount: 3}},
		MetaBlockHashes:  [][]byte{[]byte("a"), []byte("b")}}
	b, _ := m.Marshal(seed)
	f.Add(b)
	f.Add(append(append([]byte{}, b...), 0xc8, 0x01, 0x01))
	f.Add(append(append([]byte{}, b...), 0x80))
	f.Add(b[:len(b)-8])
	f.Fuzz(func(t *testing.T, b1 []byte) {
		if len(b1) == 0 || len(b1) > 4096 {
			return
		}
		h := &block.Header{}
		if m.Unmarshal(h, b1) != nil {
			return
		}
		b0, err := m.Marshal(h)
		if err != nil || bytes.Equal(b0, b1) || len(b0) == 0 {
			return
		}
		sm := verifC18NewHdrSigModel(len(b1)%2 == 0)
		if sm.register(h) != nil {
			return
		}
		tg := verifC18HeaderTarget(t, sm)
		for _, delta := range []int{-1, 10} {
			var mm marshal.Marshalizer = m
			if delta >= 0 {
				mm = marshal.NewSizeCheckUnmarshalizer(m, uint32(delta))
			}
			o0, o1 := tg.Intercept(b0, mm), tg.Intercept(b1, mm)
			if !o0.Accepted || !o1.Accepted || bytes.Equal(o0.Hash, o1.Hash) {
				continue
			}
			if same, _ := verifC18SameContent(o0.Content, o1.Content); !same {
				continue
			}
			key := "C18:header:combined"
			if !verifC18WellFormed(b1) {
				key = "C18:header:garbage-accepted"
			} else if delta >= 0 && len(b1) > len(b0)+len(b0)*delta/100 {
				key = "C18:header:oversize-accepted"
			}
			if kit.IsKnown(key) {
				continue // known finding class: not reported per input (millions of inputs per campaign)
			}
			kit.FailPlain(t, "C18", key, "header %x (canonical %x), delta %d: both accepted, same content, hashes %x / %x", b1, b0, delta, o1.Hash, o0.Hash)
		}
	})
}
