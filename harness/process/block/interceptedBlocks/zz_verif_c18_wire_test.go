package interceptedBlocks_test

// C18 wire-level mutation engine and the shared case runner.
// NOTE: this file exists twice with identical content except for the package clause:
//   harness/process/block/interceptedBlocks/zz_verif_c18_wire_test.go  (package interceptedBlocks_test)
//   harness/process/transaction/zz_verif_c18_wire_test.go              (package transaction_test)
// Edit the first one and regenerate the second with
//   sed '1s/.*/package transaction_test/' <first> > <second>

import (
	"bytes"
	"encoding/hex"
	"fmt"
	"math"

	"github.com/ElrondNetwork/elrond-go/marshal"
	kit "github.com/ElrondNetwork/elrond-go/verifkit"
	"pgregory.net/rapid"
)

// ---------------------------------------------------------------------------------------------
// schema (hand-copied from the .proto files, independent of the generated code)

type verifC18Kind int

const (
	verifC18U64    verifC18Kind = iota // uint64 varint
	verifC18U32                        // uint32 / enum varint: the decoder keeps the low 32 bits only
	verifC18Bytes                      // bytes
	verifC18BigInt                     // bytes carrying sign byte + magnitude (data.BigIntCaster)
	verifC18Msg                        // embedded message
)

type verifC18FieldDef struct {
	Num  int
	Kind verifC18Kind
	Rep  bool
	Sub  *verifC18Schema
}

type verifC18Schema struct {
	Name   string
	Fields []verifC18FieldDef
}

func (s *verifC18Schema) def(num int) *verifC18FieldDef {
	for i := range s.Fields {
		if s.Fields[i].Num == num {
			return &s.Fields[i]
		}
	}
	return nil
}

func (s *verifC18Schema) maxNum() int {
	m := 0
	for _, f := range s.Fields {
		if f.Num > m {
			m = f.Num
		}
	}
	return m
}

// ---------------------------------------------------------------------------------------------
// parsed wire tree

type verifC18Node struct {
	Num  int
	WT   int
	Val  uint64          // WT 0
	Data []byte          // WT 2 payload (when Kids == nil), WT 1/5 fixed bytes
	Kids []*verifC18Node // parsed embedded message (Sub != nil)
	Sub  *verifC18Schema
	Def  *verifC18FieldDef

	// encoding knobs (all zero = canonical)
	TagPad  int    // extra varint bytes in the tag (-1 = pad to 10 bytes with junk in the dropped bits)
	LenPad  int    // same for the length prefix
	ValPad  int    // same for the varint value
	TagHigh bool   // add 2^32 to the field number (decoder truncates the field number to int32)
	ValHigh uint64 // bits >= 32 OR-ed into a 32-bit value (decoder truncates)
	Raw     []byte // emitted verbatim instead of everything else (garbage)
}

func verifC18Varint(v uint64, pad int, junk byte) []byte {
	var out []byte
	for v >= 0x80 {
		out = append(out, byte(v)|0x80)
		v >>= 7
	}
	out = append(out, byte(v))
	if pad == 0 || len(out) >= 10 {
		return out
	}
	target := len(out) + pad
	if pad < 0 || target > 10 {
		target = 10
	}
	out[len(out)-1] |= 0x80
	for len(out) < target-1 {
		out = append(out, 0x80)
	}
	last := byte(0)
	if target == 10 && pad < 0 {
		// the 10th byte contributes only its lowest bit (shift 63); bits 1..6 are dropped by the decoder
		last = (junk & 0x3f) << 1
	}
	out = append(out, last)
	return out
}

func verifC18ReadVarint(b []byte, i int) (uint64, int, bool) {
	var v uint64
	for shift := uint(0); shift < 64; shift += 7 {
		if i >= len(b) {
			return 0, 0, false
		}
		c := b[i]
		i++
		v |= uint64(c&0x7f) << shift
		if c < 0x80 {
			return v, i, true
		}
	}
	return 0, 0, false
}

// verifC18Parse parses canonical bytes (as produced by Marshal) according to the schema.
func verifC18Parse(s *verifC18Schema, b []byte) ([]*verifC18Node, error) {
	var out []*verifC18Node
	i := 0
	for i < len(b) {
		tag, j, ok := verifC18ReadVarint(b, i)
		if !ok {
			return nil, fmt.Errorf("bad tag at %d", i)
		}
		i = j
		n := &verifC18Node{Num: int(tag >> 3), WT: int(tag & 7)}
		n.Def = s.def(n.Num)
		if n.Def == nil {
			return nil, fmt.Errorf("%s: field %d not in schema", s.Name, n.Num)
		}
		switch n.WT {
		case 0:
			if n.Def.Kind != verifC18U64 && n.Def.Kind != verifC18U32 {
				return nil, fmt.Errorf("%s: field %d kind mismatch", s.Name, n.Num)
			}
			v, j, ok := verifC18ReadVarint(b, i)
			if !ok {
				return nil, fmt.Errorf("bad varint")
			}
			n.Val, i = v, j
		case 2:
			if n.Def.Kind == verifC18U64 || n.Def.Kind == verifC18U32 {
				return nil, fmt.Errorf("%s: field %d kind mismatch", s.Name, n.Num)
			}
			l, j, ok := verifC18ReadVarint(b, i)
			if !ok || j+int(l) > len(b) {
				return nil, fmt.Errorf("bad length")
			}
			n.Data = append([]byte{}, b[j:j+int(l)]...)
			i = j + int(l)
			if n.Def.Kind == verifC18Msg {
				kids, err := verifC18Parse(n.Def.Sub, n.Data)
				if err != nil {
					return nil, err
				}
				n.Kids, n.Sub, n.Data = kids, n.Def.Sub, nil
				if n.Kids == nil {
					n.Kids = []*verifC18Node{}
				}
			}
		default:
			return nil, fmt.Errorf("unexpected wire type %d", n.WT)
		}
		out = append(out, n)
	}
	return out, nil
}

func verifC18Encode(nodes []*verifC18Node) []byte {
	var out []byte
	for _, n := range nodes {
		if n.Raw != nil {
			out = append(out, n.Raw...)
			continue
		}
		num := uint64(n.Num)
		if n.TagHigh {
			num += 1 << 32
		}
		out = append(out, verifC18Varint(num<<3|uint64(n.WT), n.TagPad, 0x2a)...)
		switch n.WT {
		case 0:
			out = append(out, verifC18Varint(n.Val|n.ValHigh, n.ValPad, 0x15)...)
		case 2:
			payload := n.Data
			if n.Kids != nil {
				payload = verifC18Encode(n.Kids)
			}
			out = append(out, verifC18Varint(uint64(len(payload)), n.LenPad, 0x3f)...)
			out = append(out, payload...)
		case 1, 5, 3, 4:
			out = append(out, n.Data...)
		}
	}
	return out
}

func verifC18CloneNodes(nodes []*verifC18Node) []*verifC18Node {
	out := make([]*verifC18Node, len(nodes))
	for i, n := range nodes {
		c := *n
		if n.Data != nil {
			c.Data = append([]byte{}, n.Data...)
		}
		if n.Kids != nil {
			c.Kids = verifC18CloneNodes(n.Kids)
		}
		out[i] = &c
	}
	return out
}

// a level = one message (top level or an embedded one) whose field list can be mutated
type verifC18Level struct {
	schema *verifC18Schema
	nodes  *[]*verifC18Node
	depth  int
}

func verifC18Levels(s *verifC18Schema, nodes *[]*verifC18Node, depth int, out *[]verifC18Level) {
	*out = append(*out, verifC18Level{s, nodes, depth})
	for _, n := range *nodes {
		if n.Kids != nil {
			verifC18Levels(n.Sub, &n.Kids, depth+1, out)
		}
	}
}

// ---------------------------------------------------------------------------------------------
// mutations

// content-preserving classes (expected known findings when the result is accepted and within the size delta)
var verifC18Preserving = []string{
	"reorder", "unknown-field", "nonminimal-varint", "explicit-default", "duplicate-field",
	"interleaved-repeated", "bigint-noncanonical",
}

func verifC18PickLevel(rt *rapid.T, s *verifC18Schema, top *[]*verifC18Node, ok func(l verifC18Level) bool) (verifC18Level, bool) {
	var all []verifC18Level
	verifC18Levels(s, top, 0, &all)
	var cand []verifC18Level
	for _, l := range all {
		if ok(l) {
			cand = append(cand, l)
		}
	}
	if len(cand) == 0 {
		return verifC18Level{}, false
	}
	// prefer the top level
	if cand[0].depth == 0 && (len(cand) == 1 || rapid.IntRange(0, 9).Draw(rt, "topLevel") < 6) {
		return cand[0], true
	}
	return cand[rapid.IntRange(0, len(cand)-1).Draw(rt, "level")], true
}

func verifC18Insert(nodes []*verifC18Node, pos int, n *verifC18Node) []*verifC18Node {
	out := make([]*verifC18Node, 0, len(nodes)+1)
	out = append(out, nodes[:pos]...)
	out = append(out, n)
	out = append(out, nodes[pos:]...)
	return out
}

func verifC18UnknownNum(rt *rapid.T, s *verifC18Schema) int {
	for {
		var n int
		switch rapid.IntRange(0, 5).Draw(rt, "unkKind") {
		case 0:
			n = s.maxNum() + rapid.IntRange(1, 5).Draw(rt, "unkOff")
		case 1:
			n = rapid.IntRange(1, s.maxNum()+1).Draw(rt, "unkGap") // a gap in the numbering, if any
		case 2:
			n = 1<<29 - 1
		case 3:
			n = rapid.IntRange(100, 20000).Draw(rt, "unkMid")
		default:
			n = rapid.IntRange(s.maxNum()+1, 1<<29-1).Draw(rt, "unkAny")
		}
		if s.def(n) == nil {
			return n
		}
		if s.def(s.maxNum()+1) == nil && n <= s.maxNum() {
			n = s.maxNum() + 1
			return n
		}
	}
}

func verifC18UnknownNode(rt *rapid.T, s *verifC18Schema, baseLen int, allow int) (*verifC18Node, string) {
	num := verifC18UnknownNum(rt, s)
	n := &verifC18Node{Num: num}
	var size int
	sizeKind := rapid.IntRange(0, 9).Draw(rt, "unkSize")
	if allow >= 0 && rapid.IntRange(0, 3).Draw(rt, "aroundEffectiveDelta") == 0 {
		sizeKind = 10
	}
	switch sizeKind {
	case 10:
		// around / beyond the padding that the configured (effective) size delta allows
		if rapid.Bool().Draw(rt, "farBeyond") {
			size = allow + rapid.IntRange(8, 8+2*baseLen).Draw(rt, "beyondEffectiveDelta")
		} else {
			size = allow + rapid.IntRange(-6, 6).Draw(rt, "nearEffectiveDelta")
		}
	case 0, 1, 2, 3, 4:
		size = rapid.IntRange(0, 3).Draw(rt, "small")
	case 5, 6:
		size = baseLen/10 + rapid.IntRange(-4, 2).Draw(rt, "aroundDelta10")
	case 7:
		size = baseLen + rapid.IntRange(-6, 3).Draw(rt, "aroundDelta100")
	case 8:
		size = rapid.IntRange(0, 2*baseLen+8).Draw(rt, "anySize")
	default:
		size = 3*baseLen + 64
	}
	if size < 0 {
		size = 0
	}
	switch rapid.IntRange(0, 7).Draw(rt, "unkWT") {
	case 0, 1:
		n.WT = 0
		n.Val = rapid.Uint64().Draw(rt, "unkVal")
		return n, fmt.Sprintf("unknown varint field %d", num)
	case 2:
		n.WT = 1
		n.Data = bytes.Repeat([]byte{0xa5}, 8)
		return n, fmt.Sprintf("unknown fixed64 field %d", num)
	case 3:
		n.WT = 5
		n.Data = bytes.Repeat([]byte{0x5a}, 4)
		return n, fmt.Sprintf("unknown fixed32 field %d", num)
	case 4:
		// group: start-group tag, optional inner varint field, end-group tag (skipped with a depth counter)
		n.WT = 3
		inner := verifC18Encode([]*verifC18Node{{Num: 1, WT: 0, Val: 7}})
		if size == 0 {
			inner = nil
		}
		n.Data = append(inner, verifC18Varint(uint64(num)<<3|4, 0, 0)...)
		return n, fmt.Sprintf("unknown group field %d", num)
	default:
		n.WT = 2
		n.Data = bytes.Repeat([]byte{0xee}, size)
		return n, fmt.Sprintf("unknown bytes field %d of %d bytes", num, size)
	}
}

// verifC18ApplyPreserving applies one content-preserving mutation of the class in place on top.
// It returns a description, or "" when the class is not applicable to this value.
func verifC18ApplyPreserving(rt *rapid.T, class string, s *verifC18Schema, top *[]*verifC18Node, baseLen int, allow int) string {
	switch class {
	case "reorder":
		l, ok := verifC18PickLevel(rt, s, top, func(l verifC18Level) bool {
			nn := *l.nodes
			for i := 1; i < len(nn); i++ {
				if nn[i].Num != nn[0].Num {
					return true
				}
			}
			return false
		})
		if !ok {
			return ""
		}
		nn := *l.nodes
		perm := rapid.Permutation(verifC18Iota(len(nn))).Draw(rt, "perm")
		shuffled := make([]*verifC18Node, len(nn))
		for i, p := range perm {
			shuffled[i] = nn[p]
		}
		// restore the relative order of the elements of every repeated field (same number)
		byNum := map[int][]*verifC18Node{}
		for _, n := range nn {
			byNum[n.Num] = append(byNum[n.Num], n)
		}
		next := map[int]int{}
		changed := false
		for i, n := range shuffled {
			shuffled[i] = byNum[n.Num][next[n.Num]]
			next[n.Num]++
			if shuffled[i] != nn[i] {
				changed = true
			}
		}
		if !changed {
			// rotate the first differing-number node to the front
			for i := 1; i < len(nn); i++ {
				if nn[i].Num != nn[0].Num {
					shuffled = append([]*verifC18Node{nn[i]}, append(append([]*verifC18Node{}, nn[:i]...), nn[i+1:]...)...)
					break
				}
			}
		}
		*l.nodes = shuffled
		return fmt.Sprintf("fields of %s (depth %d) permuted", l.schema.Name, l.depth)

	case "interleaved-repeated":
		l, ok := verifC18PickLevel(rt, s, top, func(l verifC18Level) bool {
			nn := *l.nodes
			for i := 0; i+1 < len(nn); i++ {
				if nn[i].Num == nn[i+1].Num && len(nn) > 2 {
					for _, o := range nn {
						if o.Num != nn[i].Num {
							return true
						}
					}
				}
			}
			return false
		})
		if !ok {
			return ""
		}
		nn := *l.nodes
		var starts []int
		for i := 0; i+1 < len(nn); i++ {
			if nn[i].Num == nn[i+1].Num {
				starts = append(starts, i)
			}
		}
		at := starts[rapid.IntRange(0, len(starts)-1).Draw(rt, "repAt")]
		var others []int
		for i, o := range nn {
			if o.Num != nn[at].Num {
				others = append(others, i)
			}
		}
		mv := others[rapid.IntRange(0, len(others)-1).Draw(rt, "moved")]
		moved := nn[mv]
		var out []*verifC18Node
		for i, n := range nn {
			if i == mv {
				continue
			}
			out = append(out, n)
			if i == at {
				out = append(out, moved)
			}
		}
		*l.nodes = out
		return fmt.Sprintf("field %d moved between two elements of repeated field %d of %s", moved.Num, nn[at].Num, l.schema.Name)

	case "unknown-field":
		l, _ := verifC18PickLevel(rt, s, top, func(verifC18Level) bool { return true })
		k := 1
		if rapid.IntRange(0, 4).Draw(rt, "moreUnknown") == 0 {
			k = rapid.IntRange(2, 3).Draw(rt, "numUnknown")
		}
		desc := ""
		for i := 0; i < k; i++ {
			n, d := verifC18UnknownNode(rt, l.schema, baseLen, allow)
			pos := len(*l.nodes)
			if rapid.IntRange(0, 2).Draw(rt, "unkAppend") != 0 {
				pos = rapid.IntRange(0, len(*l.nodes)).Draw(rt, "unkPos")
			}
			*l.nodes = verifC18Insert(*l.nodes, pos, n)
			desc += fmt.Sprintf("%s at position %d of %s; ", d, pos, l.schema.Name)
		}
		return desc

	case "nonminimal-varint":
		l, ok := verifC18PickLevel(rt, s, top, func(l verifC18Level) bool { return len(*l.nodes) > 0 })
		if !ok {
			return ""
		}
		nn := *l.nodes
		n := nn[rapid.IntRange(0, len(nn)-1).Draw(rt, "nmNode")]
		pad := rapid.SampledFrom([]int{1, 1, 2, 3, 8, -1}).Draw(rt, "pad")
		site := rapid.IntRange(0, 3).Draw(rt, "nmSite")
		switch {
		case site == 0:
			n.TagPad = pad
			return fmt.Sprintf("tag of field %d of %s padded (%d)", n.Num, l.schema.Name, pad)
		case site == 1:
			n.TagHigh = true
			return fmt.Sprintf("tag of field %d of %s written with field number +2^32", n.Num, l.schema.Name)
		case n.WT == 2:
			n.LenPad = pad
			return fmt.Sprintf("length of field %d of %s padded (%d)", n.Num, l.schema.Name, pad)
		case n.WT == 0 && site == 2 && n.Def != nil && n.Def.Kind == verifC18U32:
			n.ValHigh = uint64(rapid.IntRange(1, 1<<20).Draw(rt, "high")) << 32
			return fmt.Sprintf("32-bit value of field %d of %s written with high bits set", n.Num, l.schema.Name)
		default:
			n.ValPad = pad
			return fmt.Sprintf("value of field %d of %s padded (%d)", n.Num, l.schema.Name, pad)
		}

	case "explicit-default":
		absent := func(l verifC18Level) []verifC18FieldDef {
			var r []verifC18FieldDef
			for _, f := range l.schema.Fields {
				if f.Rep || f.Kind == verifC18Msg || f.Kind == verifC18BigInt {
					continue
				}
				present := false
				for _, n := range *l.nodes {
					if n.Num == f.Num {
						present = true
					}
				}
				if !present {
					r = append(r, f)
				}
			}
			return r
		}
		l, ok := verifC18PickLevel(rt, s, top, func(l verifC18Level) bool { return len(absent(l)) > 0 })
		if !ok {
			return ""
		}
		ab := absent(l)
		f := ab[rapid.IntRange(0, len(ab)-1).Draw(rt, "absent")]
		n := &verifC18Node{Num: f.Num, Def: l.schema.def(f.Num)}
		if f.Kind == verifC18Bytes {
			n.WT, n.Data = 2, []byte{}
		}
		pos := rapid.IntRange(0, len(*l.nodes)).Draw(rt, "defPos")
		*l.nodes = verifC18Insert(*l.nodes, pos, n)
		return fmt.Sprintf("absent field %d of %s written with its default value", f.Num, l.schema.Name)

	case "duplicate-field":
		cand := func(l verifC18Level) []int {
			var r []int
			for i, n := range *l.nodes {
				if n.Def != nil && !n.Def.Rep {
					r = append(r, i)
				}
			}
			return r
		}
		l, ok := verifC18PickLevel(rt, s, top, func(l verifC18Level) bool { return len(cand(l)) > 0 })
		if !ok {
			return ""
		}
		cs := cand(l)
		idx := cs[rapid.IntRange(0, len(cs)-1).Draw(rt, "dupIdx")]
		orig := (*l.nodes)[idx]
		if orig.Kids != nil {
			// embedded non-repeated message written in two parts: the decoder merges them
			if len(orig.Kids) < 2 {
				return ""
			}
			cut := rapid.IntRange(1, len(orig.Kids)-1).Draw(rt, "splitAt")
			first := *orig
			first.Kids = append([]*verifC18Node{}, orig.Kids[:cut]...)
			orig.Kids = append([]*verifC18Node{}, orig.Kids[cut:]...)
			*l.nodes = verifC18Insert(*l.nodes, idx, &first)
			return fmt.Sprintf("embedded message field %d of %s written in two parts", orig.Num, l.schema.Name)
		}
		dup := *orig
		switch orig.Def.Kind {
		case verifC18U64, verifC18U32:
			dup.Val = orig.Val + uint64(rapid.IntRange(1, 1000).Draw(rt, "dupDelta"))
		case verifC18Bytes:
			dup.Data = append([]byte{0x77}, orig.Data...)
			if rapid.Bool().Draw(rt, "dupShort") {
				dup.Data = []byte{}
			}
			if bytes.Equal(dup.Data, orig.Data) {
				dup.Data = []byte{0x78}
			}
		case verifC18BigInt:
			dup.Data = []byte{0, 0x6b}
			if bytes.Equal(orig.Data, dup.Data) {
				dup.Data = []byte{0, 0x6c}
			}
		}
		pos := rapid.IntRange(0, idx).Draw(rt, "dupPos")
		*l.nodes = verifC18Insert(*l.nodes, pos, &dup)
		return fmt.Sprintf("field %d of %s written twice, first with another value (last wins)", orig.Num, l.schema.Name)

	case "bigint-noncanonical":
		cand := func(l verifC18Level) []int {
			var r []int
			for i, n := range *l.nodes {
				if n.Def != nil && n.Def.Kind == verifC18BigInt {
					r = append(r, i)
				}
			}
			return r
		}
		l, ok := verifC18PickLevel(rt, s, top, func(l verifC18Level) bool { return len(cand(l)) > 0 })
		if !ok {
			return ""
		}
		cs := cand(l)
		idx := cs[rapid.IntRange(0, len(cs)-1).Draw(rt, "bigIdx")]
		n := (*l.nodes)[idx]
		switch {
		case len(n.Data) == 1:
			// nil big int: any single byte decodes to nil; so does an absent field
			if rapid.Bool().Draw(rt, "nilOmit") {
				*l.nodes = append(append([]*verifC18Node{}, (*l.nodes)[:idx]...), (*l.nodes)[idx+1:]...)
				return fmt.Sprintf("nil big-int field %d of %s omitted", n.Num, l.schema.Name)
			}
			n.Data = []byte{byte(rapid.IntRange(1, 255).Draw(rt, "nilByte"))}
			return fmt.Sprintf("nil big-int field %d of %s written as single byte %x", n.Num, l.schema.Name, n.Data)
		case len(n.Data) == 2 && n.Data[1] == 0 && rapid.Bool().Draw(rt, "negZero"):
			n.Data = []byte{1, 0}
			return fmt.Sprintf("zero big-int field %d of %s written as negative zero", n.Num, l.schema.Name)
		default:
			k := rapid.IntRange(1, 3).Draw(rt, "leadZeros")
			n.Data = append(append([]byte{n.Data[0]}, make([]byte, k)...), n.Data[1:]...)
			return fmt.Sprintf("big-int field %d of %s written with %d leading zero bytes", n.Num, l.schema.Name, k)
		}
	}
	return ""
}

func verifC18Iota(n int) []int {
	r := make([]int, n)
	for i := range r {
		r[i] = i
	}
	return r
}

// verifC18Garbage returns bytes that are not a content-preserving re-encoding: either undecodable
// or decoding to other content. Acceptance with equal content would be a new violation.
func verifC18Garbage(rt *rapid.T, s *verifC18Schema, top []*verifC18Node, b0 []byte) ([]byte, string, string) {
	switch rapid.IntRange(0, 9).Draw(rt, "garbageKind") {
	case 0:
		return append(append([]byte{}, b0...), 0x00), "trailing zero byte (tag 0)", ""
	case 1:
		return append(append([]byte{}, b0...), 0x80), "trailing truncated tag", ""
	case 2:
		wt := rapid.IntRange(6, 7).Draw(rt, "badWT")
		return append(append([]byte{}, b0...), verifC18Varint(uint64(s.maxNum()+3)<<3|uint64(wt), 0, 0)...), fmt.Sprintf("trailing tag with wire type %d", wt), ""
	case 3:
		g := append(verifC18Varint(uint64(s.maxNum()+3)<<3|2, 0, 0), 0x05, 0x01)
		return append(append([]byte{}, b0...), g...), "trailing unknown bytes field whose length runs past the end", ""
	case 4:
		g := verifC18Varint(uint64(s.maxNum()+3)<<3|4, 0, 0)
		return append(append([]byte{}, b0...), g...), "trailing lone end-group tag", ""
	case 5:
		g := append(verifC18Varint(uint64(s.maxNum()+3)<<3|0, 0, 0), bytes.Repeat([]byte{0x80}, 10)...)
		g = append(g, 0x00)
		return append(append([]byte{}, b0...), g...), "trailing unknown varint of 11 bytes", ""
	case 6:
		// known field with the wrong wire type
		f := s.Fields[rapid.IntRange(0, len(s.Fields)-1).Draw(rt, "wrongWTField")]
		n := &verifC18Node{Num: f.Num}
		if f.Kind == verifC18U64 || f.Kind == verifC18U32 {
			n.WT, n.Data = 2, []byte{}
		} else {
			n.WT, n.Val = 0, 0
		}
		return append(append([]byte{}, b0...), verifC18Encode([]*verifC18Node{n})...), fmt.Sprintf("known field %d appended with the wrong wire type", f.Num), ""
	case 7:
		g := verifC18Varint(uint64(s.maxNum()+3)<<3|3, 0, 0)
		return append(append([]byte{}, b0...), g...), "trailing start-group tag never closed", ""
	case 8:
		if len(b0) < 2 {
			return append(append([]byte{}, b0...), 0x00), "trailing zero byte (tag 0)", ""
		}
		cut := rapid.IntRange(1, len(b0)-1).Draw(rt, "cut")
		// a cut on a top-level field boundary that drops only nil big-int fields (encoded as the single byte 0)
		// is a content-preserving re-encoding of the bigint-noncanonical class (an absent big-int field decodes to nil)
		off := 0
		for i, n := range top {
			if off == cut {
				onlyNil := true
				for _, d := range top[i:] {
					if d.Def == nil || d.Def.Kind != verifC18BigInt || len(d.Data) != 1 {
						onlyNil = false
					}
				}
				if onlyNil {
					return append([]byte{}, b0[:cut]...), fmt.Sprintf("trailing nil big-int fields omitted (canonical bytes truncated to %d of %d)", cut, len(b0)), "bigint-noncanonical"
				}
			}
			off += len(verifC18Encode([]*verifC18Node{n}))
		}
		return append([]byte{}, b0[:cut]...), fmt.Sprintf("canonical bytes truncated to %d of %d", cut, len(b0)), ""
	default:
		k := rapid.IntRange(1, 6).Draw(rt, "rawLen")
		raw := rapid.SliceOfN(rapid.Byte(), k, k).Draw(rt, "raw")
		if verifC18WellFormed(raw) {
			// the random suffix happens to be a sequence of well-formed fields: not garbage
			return nil, "", ""
		}
		return append(append([]byte{}, b0...), raw...), fmt.Sprintf("trailing random bytes %x (not a well-formed field sequence)", raw), ""
	}
}

// verifC18WellFormed reports whether b is a sequence of well-formed protobuf fields (any field numbers >= 1,
// wire types 0, 1, 2, 5 and balanced groups), written independently of the generated skip functions.
func verifC18WellFormed(b []byte) bool {
	i, depth := 0, 0
	for i < len(b) {
		tag, j, ok := verifC18ReadVarint(b, i)
		// inside an unknown group the generated skip functions look at wire types only (nested field numbers, incl. 0,
		// and the number of the end-group tag are not validated): such bytes are skipped like any unknown group and
		// belong to the unknown-field class, so they do not count as malformed here
		// field number as the generated decoders see it: int32(wire >> 3), accepted when > 0 (high bits of an over-long
		// tag varint are truncated, so a tag like a2a2a2a2a230 is a well-formed unknown field for them)
		if !ok || (depth == 0 && int32(tag>>3) <= 0) {
			return false
		}
		i = j
		switch tag & 7 {
		case 0:
			if _, j, ok = verifC18ReadVarint(b, i); !ok {
				return false
			}
			i = j
		case 1:
			i += 8
		case 5:
			i += 4
		case 2:
			l, j, ok := verifC18ReadVarint(b, i)
			if !ok || l > uint64(len(b)) {
				return false
			}
			i = j + int(l)
		case 3:
			depth++
		case 4:
			if depth == 0 {
				return false
			}
			depth--
		default:
			return false
		}
		if i > len(b) {
			return false
		}
	}
	return depth == 0
}

// verifC18ContentChange re-encodes canonically with one field value changed (different content).
func verifC18ContentChange(rt *rapid.T, s *verifC18Schema, top *[]*verifC18Node) string {
	nn := *top
	if len(nn) == 0 {
		return ""
	}
	// often the very last byte of the encoding (hash-over-prefix defects)
	var n *verifC18Node
	if rapid.IntRange(0, 2).Draw(rt, "lastField") == 0 {
		n = nn[len(nn)-1]
	} else {
		n = nn[rapid.IntRange(0, len(nn)-1).Draw(rt, "changeIdx")]
	}
	for n.Kids != nil {
		if len(n.Kids) == 0 {
			return ""
		}
		n = n.Kids[len(n.Kids)-1]
	}
	switch n.WT {
	case 0:
		old := n.Val
		if n.Val&0x7f != 0x7f {
			n.Val++
		} else {
			n.Val--
		}
		return fmt.Sprintf("field %d value %d -> %d", n.Num, old, n.Val)
	case 2:
		if len(n.Data) == 0 {
			return ""
		}
		if n.Def != nil && n.Def.Kind == verifC18BigInt && len(n.Data) < 2 {
			return ""
		}
		i := len(n.Data) - 1
		if rapid.IntRange(0, 2).Draw(rt, "lastByte") != 0 {
			i = rapid.IntRange(0, len(n.Data)-1).Draw(rt, "byteIdx")
		}
		if n.Def != nil && n.Def.Kind == verifC18BigInt && i == 0 {
			i = len(n.Data) - 1
		}
		n.Data[i] ^= byte(1 << uint(rapid.IntRange(0, 7).Draw(rt, "bit")))
		return fmt.Sprintf("field %d byte %d flipped", n.Num, i)
	}
	return ""
}

// verifC18ContentForge changes one field and re-encodes canonically; prefers the signature-carrying fields.
func verifC18ContentForge(rt *rapid.T, tg *verifC18Target, top *[]*verifC18Node) string {
	if len(tg.SigFields) == 0 || rapid.IntRange(0, 9).Draw(rt, "forgeAnyField") >= 6 {
		return verifC18ContentChange(rt, tg.Schema, top)
	}
	num := rapid.SampledFrom(tg.SigFields).Draw(rt, "forgedField")
	for _, n := range *top {
		if n.Num != num {
			continue
		}
		if len(n.Data) == 0 {
			n.Data = []byte{0x5a}
			return fmt.Sprintf("empty field %d set to 5a", num)
		}
		switch rapid.IntRange(0, 2).Draw(rt, "forgeHow") {
		case 0:
			i := rapid.IntRange(0, len(n.Data)-1).Draw(rt, "forgeByte")
			n.Data[i] ^= byte(1 << uint(rapid.IntRange(0, 7).Draw(rt, "forgeBit")))
			return fmt.Sprintf("field %d byte %d flipped", num, i)
		case 1:
			n.Data = append(n.Data, byte(rapid.IntRange(0, 255).Draw(rt, "forgeAppend")))
			return fmt.Sprintf("field %d extended by one byte", num)
		default:
			old := n.Data
			n.Data = rapid.SliceOfN(rapid.Byte(), 1, 8).Draw(rt, "forgeReplace")
			if bytes.Equal(old, n.Data) {
				n.Data = append(n.Data, 1)
			}
			return fmt.Sprintf("field %d replaced by %x", num, n.Data)
		}
	}
	// absent (empty) field: write it, at its canonical position
	nn := &verifC18Node{Num: num, WT: 2, Data: []byte{0x5a}, Def: tg.Schema.def(num)}
	pos := 0
	for pos < len(*top) && (*top)[pos].Num < num {
		pos++
	}
	*top = verifC18Insert(*top, pos, nn)
	return fmt.Sprintf("absent field %d written as 5a", num)
}

// ---------------------------------------------------------------------------------------------
// shared case runner

// verifC18Outcome is what an interception of a byte string yields.
type verifC18Outcome struct {
	Accepted bool        // constructor and CheckValidity returned nil
	Err      string      // first error otherwise
	Hash     []byte      // Hash() of the intercepted data
	Content  interface{} // decoded struct (has Equal(interface{}) bool)
}

type verifC18Equaler interface {
	Equal(that interface{}) bool
}

// verifC18SameContent is the generated Equal of the decoded structs; a panic inside it (nil big-int on one side
// only, see data.BigIntCaster.Equal) means the contents differ.
func verifC18SameContent(a, b interface{}) (same bool, panicked bool) {
	defer func() {
		if r := recover(); r != nil {
			same, panicked = false, true
		}
	}()
	return a.(verifC18Equaler).Equal(b), false
}

type verifC18Target struct {
	Name   string // header | metaheader | miniblock | tx
	Schema *verifC18Schema
	Skip   []string // mutation classes that can never apply to this type
	// SigFields are the top-level bytes fields that carry signatures (or are covered by one signature only): the
	// content-forged class changes one of them alone in most cases
	SigFields []int
	// Intercept runs the real constructor + CheckValidity on b with the given internal marshalizer.
	// authorise, when non-nil, lists further byte strings whose decoded content counts as validly signed.
	Intercept func(b []byte, m marshal.Marshalizer) verifC18Outcome
}

// verifC18Mode is the marshalizer configuration of a case. The interceptors containers factories
// (process/factory/interceptorscontainer/{shard,meta}InterceptorsContainerFactory.go: "if args.SizeCheckDelta > 0 {
// NewSizeCheckUnmarshalizer(args.CoreComponents.InternalMarshalizer(), args.SizeCheckDelta); SetInternalMarshalizer }")
// and the hardfork factory (update/factory/fullSyncInterceptors.go, same code, called from exportHandlerFactory.go with
// SizeCheckDelta: math.MaxUint32) all decorate the SHARED core-components marshalizer and set it back, so the
// marshalizer an interceptor decodes with can carry a stack of size checks. Every decorator of the stack applies,
// hence the bound the configuration promises is the strictest delta of the stack.
type verifC18Mode struct {
	name  string
	delta int      // effective (strictest) delta in percent; -1 = unwrapped marshalizer (SizeCheckDelta = 0)
	stack []uint32 // deltas of the decorators, innermost first
}

func verifC18LaxDelta(rt *rapid.T, label string) uint32 {
	switch rapid.IntRange(0, 2).Draw(rt, label+"Kind") {
	case 0:
		return math.MaxUint32 // the hardfork full-sync interceptors
	case 1:
		return 100 // integration tests
	default:
		return uint32(rapid.IntRange(60, 5000).Draw(rt, label))
	}
}

func verifC18StrictDelta(rt *rapid.T, label string) uint32 {
	if rapid.Bool().Draw(rt, label+"Default") {
		return 10 // cmd/node/config/config.toml
	}
	return uint32(rapid.IntRange(1, 50).Draw(rt, label))
}

func verifC18StackMode(name string, stack []uint32) verifC18Mode {
	eff := stack[0]
	for _, d := range stack {
		if d < eff {
			eff = d
		}
	}
	return verifC18Mode{name: name, delta: int(eff), stack: stack}
}

func verifC18DrawMode(rt *rapid.T) verifC18Mode {
	switch rapid.IntRange(0, 10).Draw(rt, "mode") {
	case 0, 1:
		return verifC18Mode{name: "nocheck", delta: -1}
	case 2, 3, 4:
		return verifC18StackMode("delta10", []uint32{10})
	case 5:
		return verifC18StackMode("delta100", []uint32{100})
	case 6:
		return verifC18StackMode("deltaN", []uint32{uint32(rapid.IntRange(1, 300).Draw(rt, "delta"))})
	case 7, 8:
		// a laxer decorator is already installed on the shared marshalizer, the node's own delta is added on top
		return verifC18StackMode("stackLaxThenStrict", []uint32{verifC18LaxDelta(rt, "innerLax"), verifC18StrictDelta(rt, "outerStrict")})
	case 9:
		return verifC18StackMode("stackStrictThenLax", []uint32{verifC18StrictDelta(rt, "innerStrict"), verifC18LaxDelta(rt, "outerLax")})
	default:
		// three factories decorating the same marshalizer, any order
		st := []uint32{verifC18LaxDelta(rt, "lax3"), verifC18StrictDelta(rt, "strict3"), uint32(rapid.IntRange(1, 300).Draw(rt, "any3"))}
		perm := rapid.Permutation(verifC18Iota(3)).Draw(rt, "stackOrder")
		return verifC18StackMode("stack3", []uint32{st[perm[0]], st[perm[1]], st[perm[2]]})
	}
}

func (m verifC18Mode) marshalizer() marshal.Marshalizer {
	var mm marshal.Marshalizer = &marshal.GogoProtoMarshalizer{}
	for _, d := range m.stack {
		mm = marshal.NewSizeCheckUnmarshalizer(mm, d)
	}
	return mm
}

// allowance is the number of extra bytes the configuration tolerates on an object of n canonical bytes (-1: no check)
func (m verifC18Mode) allowance(n int) int {
	if m.delta < 0 {
		return -1
	}
	return n * m.delta / 100
}

func verifC18Hex(b []byte) string {
	if len(b) > 300 {
		return hex.EncodeToString(b[:300]) + fmt.Sprintf("…(%d bytes)", len(b))
	}
	return hex.EncodeToString(b)
}

// verifC18RunCase: b0 are the canonical bytes of a generated valid value (already registered as validly
// signed by the caller). One mutation class is drawn and the statement is evaluated on the pair.
func verifC18RunCase(rt *rapid.T, c *kit.Case, tg *verifC18Target, b0 []byte, authorise func(b []byte) bool) {
	mode := verifC18DrawMode(rt)
	m := mode.marshalizer()

	var o0 verifC18Outcome
	c.NoPanic("C18:"+tg.Name+":panic", func() { o0 = tg.Intercept(b0, m) })
	if !o0.Accepted {
		rt.Fatalf("fixture: canonical %s not accepted: %s (%s)", tg.Name, o0.Err, verifC18Hex(b0))
	}
	top, err := verifC18Parse(tg.Schema, b0)
	if err != nil {
		rt.Fatalf("fixture: canonical %s does not parse with the schema: %v", tg.Name, err)
	}
	if !bytes.Equal(verifC18Encode(top), b0) {
		rt.Fatalf("fixture: schema re-encoding of canonical %s differs", tg.Name)
	}

	classes := append(append([]string{}, verifC18Preserving...), "combined", "combined", "garbage", "garbage", "content-change", "content-change", "content-forged", "content-forged")
	for _, sk := range tg.Skip {
		var kept []string
		for _, cl := range classes {
			if cl != sk {
				kept = append(kept, cl)
			}
		}
		classes = kept
	}
	class := rapid.SampledFrom(classes).Draw(rt, "class")
	var b1 []byte
	desc := ""
	preserving := true
	switch class {
	case "garbage":
		preserving = false
		var reclass string
		b1, desc, reclass = verifC18Garbage(rt, tg.Schema, top, b0)
		if reclass != "" {
			class, preserving = reclass, true
		}
	case "content-change":
		preserving = false
		desc = verifC18ContentChange(rt, tg.Schema, &top)
		b1 = verifC18Encode(top)
	case "content-forged":
		// a copy of the signed value with one field changed and NOT re-signed (never registered with the signature model)
		preserving = false
		desc = verifC18ContentForge(rt, tg, &top)
		b1 = verifC18Encode(top)
	case "combined":
		k := rapid.IntRange(2, 3).Draw(rt, "numCombined")
		for i := 0; i < k; i++ {
			cl := rapid.SampledFrom(verifC18Preserving).Draw(rt, "combinedClass")
			if d := verifC18ApplyPreserving(rt, cl, tg.Schema, &top, len(b0), mode.allowance(len(b0))); d != "" {
				desc += cl + ": " + d + " | "
			}
		}
		b1 = verifC18Encode(top)
	default:
		desc = verifC18ApplyPreserving(rt, class, tg.Schema, &top, len(b0), mode.allowance(len(b0)))
		b1 = verifC18Encode(top)
	}
	label := tg.Name + ":" + class
	if desc == "" || bytes.Equal(b1, b0) {
		c.Class(label + ":not-applicable")
		return
	}
	if class == "content-change" && authorise != nil && !authorise(b1) {
		c.Class(label + ":undecodable")
		return
	}

	var o1 verifC18Outcome
	c.NoPanic("C18:"+tg.Name+":panic", func() { o1 = tg.Intercept(b1, m) })
	if !o1.Accepted {
		if class == "content-forged" {
			c.NonTrivial(label + verifC18Hex(b1))
		}
		c.Class(label + ":rejected")
		c.Class(tg.Name + ":" + mode.name + ":rejected")
		return
	}
	same, equalPanicked := verifC18SameContent(o0.Content, o1.Content)
	if equalPanicked {
		// data.BigIntCaster.Equal(a, b) dereferences b when a != nil and b == nil: the generated Equal panics for
		// values that differ in the nil-ness of a big-int field. Such values are different content.
		c.Class(label + ":generated-Equal-panicked(nil-bigint)")
	}
	if preserving && !same {
		// the engine claims the mutation preserves the content; if the decoder disagrees the pair is outside the
		// premise of the statement (different content): only the converse direction applies
		c.Class(label + ":accepted-decodes-differently")
	}
	if !same && class == "content-forged" {
		// b1 differs from the signed value and was never registered as signed: a relayer-made copy was accepted
		c.Violation("C18:"+tg.Name+":content-change-accepted",
			"%s (marshalizer %s): a copy of a signed %s with a changed field and no new signature passes the constructor and CheckValidity under hash %x (original %x)\n b0=%s\n b1=%s\n mutation: %s",
			tg.Name, mode.name, tg.Name, o1.Hash, o0.Hash, verifC18Hex(b0), verifC18Hex(b1), desc)
	}
	if !same {
		c.Class(label + ":accepted-different-content")
		if bytes.Equal(o0.Hash, o1.Hash) {
			c.Violation("C18:"+tg.Name+":different-content-same-hash",
				"%s: two accepted encodings with different content have the same hash %x\n b0=%s\n b1=%s\n mutation: %s", tg.Name, o0.Hash, verifC18Hex(b0), verifC18Hex(b1), desc)
		}
		if class == "content-change" {
			c.NonTrivial(label + verifC18Hex(b1))
		}
		return
	}

	// both accepted, same content, different bytes
	c.Class(label + ":accepted-same-content")
	c.Class(tg.Name + ":" + mode.name + ":accepted-same-content")
	c.NonTrivial(label + mode.name + verifC18Hex(b1))
	c.Sample("%s mode=%s class=%s: %s; b0=%s b1=%s hashEqual=%v", tg.Name, mode.name, class, desc, verifC18Hex(b0), verifC18Hex(b1), bytes.Equal(o0.Hash, o1.Hash))
	if bytes.Equal(o0.Hash, o1.Hash) {
		return
	}
	key := "C18:" + tg.Name + ":" + class
	if !preserving {
		// an encoding outside the enumerated re-encoding classes was accepted with the same content
		key = "C18:" + tg.Name + ":" + class + "-accepted"
	}
	if mode.delta >= 0 {
		// the configuration promises: input at most delta percent longer than the re-encoded object
		limit := len(b0) + len(b0)*mode.delta/100
		if len(b1) > limit {
			key = "C18:" + tg.Name + ":oversize-accepted"
		}
	}
	c.Violation(key, "%s (marshalizer %s, effective delta %d): two accepted encodings of the same content have different hashes %x / %x\n canonical b0 (%d bytes)=%s\n mutated   b1 (%d bytes)=%s\n mutation: %s",
		tg.Name, fmt.Sprintf("%s stack %v", mode.name, mode.stack), mode.delta, o0.Hash, o1.Hash, len(b0), verifC18Hex(b0), len(b1), verifC18Hex(b1), desc)
}
