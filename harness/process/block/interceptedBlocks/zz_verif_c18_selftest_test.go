package interceptedBlocks_test

import (
	"encoding/hex"
	"testing"
)

// Harness self-test (a failure is a fixture problem, not a property violation): byte strings that the generated gogo
// decoders treat as well-formed unknown fields must be classified as well-formed by the independent checker, otherwise
// a content-preserving re-encoding of a known class would be reported as "garbage accepted". Both inputs were found by
// the thorough tier (native fuzzing / random suffix) on 2026-09-22: the tag varint carries a field number above 2^29-1
// whose high bits the decoders truncate (fieldNum := int32(wire >> 3)).
func TestVerifC18_SelfTestWellFormed(t *testing.T) {
	for _, h := range []string{"808080801000", "a2a2a2a2a23009303030303030303030"} {
		b, _ := hex.DecodeString(h)
		if !verifC18WellFormed(b) {
			t.Fatalf("fixture: %s is accepted by the decoders as an unknown field but the checker calls it malformed", h)
		}
	}
	for _, h := range []string{"00", "80", "8080808000" /* field number 0 */, "0a05", "0e"} {
		b, _ := hex.DecodeString(h)
		if verifC18WellFormed(b) {
			t.Fatalf("fixture: %s must be malformed", h)
		}
	}
}
