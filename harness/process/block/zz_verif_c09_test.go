package block_test

import (
	"bytes"
	"fmt"
	"math/big"
	"sort"
	"strings"
	"testing"

	"github.com/ElrondNetwork/elrond-go/config"
	"github.com/ElrondNetwork/elrond-go/data"
	"github.com/ElrondNetwork/elrond-go/data/block"
	"github.com/ElrondNetwork/elrond-go/data/state"
	"github.com/ElrondNetwork/elrond-go/data/state/factory"
	"github.com/ElrondNetwork/elrond-go/data/state/storagePruningManager"
	"github.com/ElrondNetwork/elrond-go/data/state/storagePruningManager/evictionWaitingList"
	"github.com/ElrondNetwork/elrond-go/data/trie"
	"github.com/ElrondNetwork/elrond-go/data/trie/hashesHolder"
	"github.com/ElrondNetwork/elrond-go/hashing/blake2b"
	"github.com/ElrondNetwork/elrond-go/marshal"
	blproc "github.com/ElrondNetwork/elrond-go/process/block"
	"github.com/ElrondNetwork/elrond-go/process/mock"
	"github.com/ElrondNetwork/elrond-go/storage/memorydb"
	kit "github.com/ElrondNetwork/elrond-go/verifkit"
	"pgregory.net/rapid"
)

// C09, second target: the pruning requests are issued by the REAL block processor. A metaProcessor is
// built from the package's mock arguments, with real AccountsDB (user accounts) and real
// PeerAccountsDB (validator statistics), each over its own pruning trie storage manager, eviction
// waiting list and storagePruningManager. A generated history of meta blocks (each changes the user
// trie, the peer trie or both), finalizations (real baseProcessor.updateStateStorage through the bridge
// VerifC09UpdateStateStorage) and rollbacks (real metaProcessor.RevertStateToBlock and real
// baseProcessor.PruneStateOnRollback, as baseSync.rollBackOneBlock calls them) is executed; after
// every event every root that the schedule has not pruned must be completely traversable in its
// database and must list exactly the leaves it had when it was committed - for both tries.
// (zz_verif_c09_test.go in data/state transcribes the schedule and goes deeper into histories, data
// tries, blocked pruning; this target checks that the processor feeds the right roots to each trie.)

type verifC09bTrie struct {
	name  string
	adb   state.AccountsAdapter
	db    *memorydb.DB
	tsm   data.StorageManager
	queue [][]byte // mirror of the processor's pruning queue for this trie
	qsize int
	known map[string]map[string]string // root -> leaf key -> leaf value, recorded at commit
}

func verifC09bNewTrie(rt *rapid.T, name string, peer bool, qsize int, ewlSize uint) *verifC09bTrie {
	marsh := &marshal.GogoProtoMarshalizer{}
	hasher := blake2b.NewBlake2b()
	db := memorydb.New()
	tsm, err := trie.NewTrieStorageManager(trie.NewTrieStorageManagerArgs{
		DB: db, Marshalizer: marsh, Hasher: hasher,
		SnapshotDbConfig:       config.DBConfig{Type: "MemoryDB"},
		GeneralConfig:          config.TrieStorageManagerConfig{PruningBufferLen: 1000, SnapshotsBufferLen: 1000, MaxSnapshots: 2},
		CheckpointHashesHolder: hashesHolder.NewCheckpointHashesHolder(1<<40, uint64(hasher.Size())),
	})
	if err != nil {
		rt.Fatalf("fixture: %v", err)
	}
	tr, err := trie.NewTrie(tsm, marsh, hasher, 5)
	if err != nil {
		rt.Fatalf("fixture: %v", err)
	}
	ewl, err := evictionWaitingList.NewEvictionWaitingList(ewlSize, memorydb.New(), marsh)
	if err != nil {
		rt.Fatalf("fixture: %v", err)
	}
	spm, err := storagePruningManager.NewStoragePruningManager(ewl, 1000)
	if err != nil {
		rt.Fatalf("fixture: %v", err)
	}
	var adb state.AccountsAdapter
	if peer {
		adb, err = state.NewPeerAccountsDB(tr, hasher, marsh, factory.NewPeerAccountCreator(), spm)
	} else {
		adb, err = state.NewAccountsDB(tr, hasher, marsh, factory.NewAccountCreator(), spm)
	}
	if err != nil {
		rt.Fatalf("fixture: %v", err)
	}
	return &verifC09bTrie{name: name, adb: adb, db: db, tsm: tsm, qsize: qsize, known: map[string]map[string]string{}}
}

// read traverses root completely in the trie's database alone (storage manager without pruning and
// without snapshots) and returns its leaves.
func (t *verifC09bTrie) read(root []byte) (map[string]string, error) {
	tsm, err := trie.NewTrieStorageManagerWithoutPruning(t.db)
	if err != nil {
		return nil, err
	}
	tr, err := trie.NewTrie(tsm, &marshal.GogoProtoMarshalizer{}, blake2b.NewBlake2b(), 5)
	if err != nil {
		return nil, err
	}
	rec, err := tr.Recreate(root)
	if err != nil {
		return nil, fmt.Errorf("recreate: %w", err)
	}
	if _, err = rec.GetAllHashes(); err != nil {
		return nil, fmt.Errorf("traversal: %w", err)
	}
	ch, err := rec.GetAllLeavesOnChannel(root)
	if err != nil {
		return nil, err
	}
	leaves := map[string]string{}
	for l := range ch {
		leaves[string(l.Key())] = string(l.Value())
	}
	return leaves, nil
}

// mirror of updateStateStorage's queue handling, to know which roots are still live
func (t *verifC09bTrie) finalized(root, prevRoot []byte) {
	if bytes.Equal(root, prevRoot) {
		return
	}
	t.queue = append(t.queue, prevRoot)
	if len(t.queue) > t.qsize {
		t.queue = t.queue[1:]
	}
}

type verifC09bBlock struct {
	hdr *block.MetaBlock
}

func verifC09bAddr(i int, fill byte) []byte {
	a := bytes.Repeat([]byte{fill}, 32)
	a[0], a[31] = byte(i), byte(i*17)
	return a
}

func TestVerifC09_BlockProcessorProtocol(t *testing.T) {
	kit.Run(t, "C09", kit.Budget{Quick: 250, Thorough: 2500, Steps: 20},
		"real metaProcessor (mock arguments) with real user AccountsDB and real PeerAccountsDB (pruning storage managers, eviction list cache 1..4, pruning queues 0..2): histories of ~20 events: meta block changing 0-2 user accounts and 0-2 validator accounts (at least one trie changes), finalize (real updateStateStorage for both tries), rollback (real RevertStateToBlock + PruneStateOnRollback); after every event every live root of both tries is traversed completely in its database and its leaves are compared with those recorded at commit. non-trivial = a rollback of a block that changed the peer trie while the previous block (not final yet) had changed it too, and a later finalize; distinct by history",
		func(rt *rapid.T, c *kit.Case) {
			qsize := rapid.IntRange(0, 2).Draw(rt, "pruningQueueSize")
			ewl := uint(rapid.IntRange(1, 4).Draw(rt, "ewlCacheSize"))
			user := verifC09bNewTrie(rt, "user", false, qsize, ewl)
			peer := verifC09bNewTrie(rt, "peer", true, qsize, ewl)
			defer func() {
				_ = user.adb.Close()
				_ = user.tsm.Close()
				_ = peer.adb.Close()
				_ = peer.tsm.Close()
			}()

			coreComponents, dataComponents, bootstrapComponents, statusComponents := createMockComponentHolders()
			arguments := createMockMetaArguments(coreComponents, dataComponents, bootstrapComponents, statusComponents)
			arguments.AccountsDB[state.UserAccountsState] = user.adb
			arguments.AccountsDB[state.PeerAccountsState] = peer.adb
			arguments.Config.StateTriesConfig.UserStatePruningQueueSize = uint(qsize)
			arguments.Config.StateTriesConfig.PeerStatePruningQueueSize = uint(qsize)
			arguments.Config.StateTriesConfig.CheckpointRoundsModulus = 0
			// validatorStatistics.RevertPeerState (process/peer/process.go:843) is peerAdapter.RecreateTrie(header.GetValidatorStatsRootHash())
			arguments.ValidatorStatisticsProcessor = &mock.ValidatorStatisticsProcessorStub{
				RevertPeerStateCalled: func(header data.HeaderHandler) error {
					return peer.adb.RecreateTrie(header.GetValidatorStatsRootHash())
				},
			}
			mp, err := blproc.NewMetaProcessor(arguments)
			if err != nil {
				rt.Fatalf("fixture: %v", err)
			}

			var trace []string
			hist := func() string { return strings.Join(trace, " | ") }
			var chain []verifC09bBlock
			final := 0
			nonce := uint64(0)

			mutate := func(tr *verifC09bTrie, i int, delta int) {
				acc, errLoad := tr.adb.LoadAccount(verifC09bAddr(i, map[bool]byte{true: 0x11, false: 0xf0}[tr == user]))
				if errLoad != nil {
					rt.Fatalf("fixture: LoadAccount: %v; history: %s", errLoad, hist())
				}
				switch a := acc.(type) {
				case state.UserAccountHandler:
					a.IncreaseNonce(1)
					_ = a.AddToBalance(big.NewInt(int64(delta)))
				case state.PeerAccountHandler:
					a.IncreaseLeaderSuccessRate(uint32(delta))
					a.SetTempRating(uint32(50 + delta))
				default:
					rt.Fatalf("fixture: unexpected account type %T", acc)
				}
				if errSave := tr.adb.SaveAccount(acc); errSave != nil {
					rt.Fatalf("fixture: SaveAccount: %v", errSave)
				}
			}
			commit := func(what string, userIdx, peerIdx []int) {
				for _, i := range userIdx {
					mutate(user, i, 1+i)
				}
				for _, i := range peerIdx {
					mutate(peer, i, 1+i)
				}
				ur, errU := user.adb.Commit()
				pr, errP := peer.adb.Commit()
				if errU != nil || errP != nil {
					rt.Fatalf("fixture: Commit: %v %v; history: %s", errU, errP, hist())
				}
				nonce++
				hdr := &block.MetaBlock{Nonce: nonce, Round: nonce, RootHash: append([]byte(nil), ur...), ValidatorStatsRootHash: append([]byte(nil), pr...)}
				for _, x := range []struct {
					tr   *verifC09bTrie
					root []byte
				}{{user, ur}, {peer, pr}} {
					if _, ok := x.tr.known[string(x.root)]; !ok {
						leaves, errRead := x.tr.read(x.root)
						if errRead != nil {
							c.Violation("C09:processor:fresh-root-unreadable", "%s root %x just committed is not readable: %v; history: %s", x.tr.name, x.root[:4], errRead, hist())
						}
						x.tr.known[string(x.root)] = leaves
					}
				}
				chain = append(chain, verifC09bBlock{hdr: hdr})
				trace = append(trace, fmt.Sprintf("%s u%v p%v -> %x/%x", what, userIdx, peerIdx, ur[:2], pr[:2]))
			}
			check := func(where string) {
				for _, tr := range []*verifC09bTrie{user, peer} {
					live := map[string]struct{}{}
					for i := final; i < len(chain); i++ {
						r := chain[i].hdr.GetRootHash()
						if tr == peer {
							r = chain[i].hdr.GetValidatorStatsRootHash()
						}
						live[string(r)] = struct{}{}
					}
					for _, r := range tr.queue {
						live[string(r)] = struct{}{}
					}
					roots := make([]string, 0, len(live))
					for r := range live {
						roots = append(roots, r)
					}
					sort.Strings(roots)
					for _, r := range roots {
						leaves, errRead := tr.read([]byte(r))
						if errRead != nil {
							c.Violation("C09:processor:live-root-unreadable", "after %s: live %s-accounts root %x is not readable any more: %v; history: %s", where, tr.name, r[:4], errRead, hist())
						}
						want := tr.known[r]
						if len(leaves) != len(want) {
							c.Violation("C09:processor:live-root-content", "after %s: live %s-accounts root %x has %d leaves, had %d; history: %s", where, tr.name, r[:4], len(leaves), len(want), hist())
						}
						for k, v := range want {
							if leaves[k] != v {
								c.Violation("C09:processor:live-root-content", "after %s: live %s-accounts root %x: leaf %x changed; history: %s", where, tr.name, r[:4], k[:2], hist())
							}
						}
					}
				}
			}

			// genesis: three accounts in each trie
			commit("genesis", []int{0, 1, 2}, []int{0, 1, 2})
			peerChangedByPrev, interesting, nonTrivial := false, false, false

			rt.Repeat(map[string]func(*rapid.T){
				"block": func(t *rapid.T) {
					if len(chain)-1-final >= 4 {
						t.Skip()
					}
					var u, p []int
					for i, n := 0, rapid.IntRange(0, 2).Draw(t, "userAccounts"); i < n; i++ {
						u = append(u, rapid.IntRange(0, 4).Draw(t, "userAccount"))
					}
					for i, n := 0, rapid.IntRange(0, 2).Draw(t, "peerAccounts"); i < n; i++ {
						p = append(p, rapid.IntRange(0, 4).Draw(t, "peerAccount"))
					}
					if len(u)+len(p) == 0 {
						p = []int{rapid.IntRange(0, 4).Draw(t, "peerAccount")}
					}
					commit("block", u, p)
				},
				"finalize": func(t *rapid.T) {
					if final >= len(chain)-1 {
						t.Skip()
					}
					final++
					cur, prev := chain[final].hdr, chain[final-1].hdr
					mp.VerifC09UpdateStateStorage(cur, prev)
					user.finalized(cur.GetRootHash(), prev.GetRootHash())
					peer.finalized(cur.GetValidatorStatsRootHash(), prev.GetValidatorStatsRootHash())
					trace = append(trace, fmt.Sprintf("finalize %d", cur.Nonce))
					if interesting {
						nonTrivial = true
					}
				},
				"rollback": func(t *rapid.T) {
					last := len(chain) - 1
					if last <= final {
						t.Skip()
					}
					cur, prev := chain[last].hdr, chain[last-1].hdr
					// baseSync.rollBackOneBlock (baseSync.go:773-777)
					if errRev := mp.RevertStateToBlock(prev); errRev != nil {
						c.Violation("C09:processor:rollback-recreate-failed", "RevertStateToBlock(%d) failed: %v; history: %s", prev.Nonce, errRev, hist())
					}
					mp.PruneStateOnRollback(cur, prev)
					if last-1 > final && last >= 2 {
						pp := chain[last-2].hdr
						peerChangedByPrev = !bytes.Equal(pp.GetValidatorStatsRootHash(), prev.GetValidatorStatsRootHash())
						if peerChangedByPrev && !bytes.Equal(cur.GetValidatorStatsRootHash(), prev.GetValidatorStatsRootHash()) {
							interesting = true
							c.Class("rollback-of-peer-change-on-unfinal-peer-change")
						}
					}
					chain = chain[:last]
					trace = append(trace, fmt.Sprintf("rollback %d", cur.Nonce))
				},
				"": func(t *rapid.T) { check(fmt.Sprintf("event %d", len(trace))) },
			})
			if nonTrivial {
				c.NonTrivial(hist())
				c.Sample("%s", hist())
			}
		})
}
