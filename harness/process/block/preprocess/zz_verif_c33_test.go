package preprocess_test

import (
	"fmt"
	"testing"

	"github.com/ElrondNetwork/elrond-go/core"
	"github.com/ElrondNetwork/elrond-go/data/block"
	"github.com/ElrondNetwork/elrond-go/marshal"
	"github.com/ElrondNetwork/elrond-go/process/block/preprocess"
	"github.com/ElrondNetwork/elrond-go/process/throttle"
	kit "github.com/ElrondNetwork/elrond-go/verifkit"
	"pgregory.net/rapid"
)

// C33: Block body size estimate does not undershoot beyond the safety margin.
//
// Whenever the proposer's block size estimate says a body with a given number of miniblocks and transaction
// hashes fits, the actual encoded body (for any shard identifiers and miniblock types) does not exceed the
// network message size limit.

const (
	// production values: cmd/node/config/config.toml [BlockSizeThrottleConfig]
	verifC33ThrottleMin = 104857
	verifC33ThrottleMax = 943718
	// p2p/libp2p.maxSendBuffSize = (1 << 20) - 64 KiB; the constant is unexported, the C33 check contains an
	// overlaid test in p2p/libp2p (zz_verif_c33_test.go there) asserting it still has this value
	verifC33NetworkLimit = (1 << 20) - 64*1024
	// what a proposer can create: one miniblock per (sender shard, receiver shard, type)
	verifC33MaxMiniBlocks = 1800
	verifC33HashLen       = 32
)

var verifC33Types = []block.Type{block.TxBlock, block.StateBlock, block.PeerBlock, block.SmartContractResultBlock,
	block.InvalidBlock, block.ReceiptBlock, block.RewardsBlock}

type verifC33Triple struct {
	snd, rcv uint32
	typ      block.Type
}

func verifC33GenShard(rt *rapid.T, label string) uint32 {
	switch rapid.IntRange(0, 8).Draw(rt, label+"Kind") {
	case 0:
		return 0
	case 1:
		return 1
	case 2:
		return 255
	case 3:
		return 999
	case 4:
		return 1 << 31
	case 5:
		return core.MetachainShardId
	case 6:
		return core.AllShardId
	default:
		return rapid.Uint32().Draw(rt, label)
	}
}

func verifC33VarintLen(v uint64) int {
	n := 1
	for v >= 0x80 {
		v >>= 7
		n++
	}
	return n
}

func verifC33NewComputation(fatal func(string, ...interface{})) (preprocessIface, *marshal.GogoProtoMarshalizer) {
	m := &marshal.GogoProtoMarshalizer{}
	th, err := throttle.NewBlockSizeThrottle(verifC33ThrottleMin, verifC33ThrottleMax)
	if err != nil {
		fatal("fixture: %v", err)
	}
	bsc, err := preprocess.NewBlockSizeComputation(m, th, verifC33ThrottleMax)
	if err != nil {
		fatal("fixture: %v", err)
	}
	return bsc, m
}

type preprocessIface interface {
	Init()
	AddNumMiniBlocks(int)
	AddNumTxs(int)
	IsMaxBlockSizeReached(int, int) bool
	IsMaxBlockSizeWithoutThrottleReached(int, int) bool
}

// verifC33Distribute spreads numTxs over numMbs miniblocks.
func verifC33Distribute(rt *rapid.T, numMbs, numTxs int) ([]int, string) {
	counts := make([]int, numMbs)
	kind := rapid.SampledFrom([]string{"uniform", "one-huge", "geometric", "two-halves"}).Draw(rt, "distribution")
	switch kind {
	case "uniform":
		for i := range counts {
			counts[i] = numTxs / numMbs
		}
		for i := 0; i < numTxs%numMbs; i++ {
			counts[i]++
		}
	case "one-huge":
		counts[rapid.IntRange(0, numMbs-1).Draw(rt, "hugeIdx")] = numTxs
	case "geometric":
		left := numTxs
		for i := 0; i < numMbs-1 && left > 0; i++ {
			counts[i] = (left + 1) / 2
			left -= counts[i]
		}
		counts[numMbs-1] += left
	case "two-halves":
		counts[0] = numTxs / 2
		counts[numMbs-1] += numTxs - numTxs/2
	}
	return counts, kind
}

func TestVerifC33_Estimate(t *testing.T) {
	bsc, m := verifC33NewComputation(t.Fatalf)
	kit.Run(t, "C33", kit.Budget{Quick: 400, Thorough: 5000},
		"production constants (throttle 104857..943718, non-throttled max 943718, network limit 983040); miniblock count M in 1..1800, tx count = largest T accepted by the estimate for M (binary search) minus k (k = 0 in most cases), counters split between Add* and the query arguments, T spread over the miniblocks (uniform / one huge / geometric / two halves), (sender, receiver, type) per miniblock from a per-case palette of 1-6 triples over {0,1,255,999,2^31,meta,all,random uint32} x the 7 miniblock types, 32-byte hashes; oracle: len(Marshal(block.Body)) <= 983040; non-trivial = boundary case (k = 0) with >= 50 miniblocks, all using 5-byte shard ids and non-zero types; distinct by (M, T, palette, distribution)",
		func(rt *rapid.T, c *kit.Case) {
			var numMbs int
			switch rapid.IntRange(0, 5).Draw(rt, "mbKind") {
			case 5:
				numMbs = rapid.IntRange(1, 3).Draw(rt, "mbSmall")
			case 0:
				numMbs = verifC33MaxMiniBlocks - rapid.IntRange(0, 3).Draw(rt, "mbBelowMax")
			case 1:
				numMbs = rapid.IntRange(1000, verifC33MaxMiniBlocks).Draw(rt, "mbLarge")
			default:
				numMbs = rapid.IntRange(1, verifC33MaxMiniBlocks).Draw(rt, "mb")
			}
			// counters may be accumulated through Add* or passed as "new" values
			bsc.Init()
			addedMbs := rapid.IntRange(0, numMbs).Draw(rt, "addedMbs")
			bsc.AddNumMiniBlocks(addedMbs)
			newMbs := numMbs - addedMbs

			// transactions already accounted through AddNumTxs (a proposer adds as it goes and asks about increments)
			addedTxs := 0
			switch rapid.IntRange(0, 3).Draw(rt, "addedTxsKind") {
			case 0:
			case 1:
				addedTxs = rapid.IntRange(0, 27000).Draw(rt, "addedTxsAny")
			default:
				addedTxs = rapid.IntRange(20000, 27000).Draw(rt, "addedTxsLarge")
			}
			bsc.AddNumTxs(addedTxs)

			// largest number of further txs the estimate accepts
			if bsc.IsMaxBlockSizeWithoutThrottleReached(newMbs, 0) {
				c.Class("already-full-after-add")
				return
			}
			lo, hi := 0, 1<<16 // estimate accepts lo, rejects hi
			if !bsc.IsMaxBlockSizeWithoutThrottleReached(newMbs, hi) {
				c.Violation("C33:estimate-accepts-65536-txs", "estimate accepts %d miniblocks with %d txs (> 2 MB of hashes)", numMbs, hi)
			}
			for hi-lo > 1 {
				mid := (lo + hi) / 2
				if bsc.IsMaxBlockSizeWithoutThrottleReached(newMbs, mid) {
					hi = mid
				} else {
					lo = mid
				}
			}
			k := 0
			switch rapid.IntRange(0, 7).Draw(rt, "kKind") {
			case 6:
				k = rapid.IntRange(1, 3).Draw(rt, "kSmall")
			case 7:
				k = rapid.IntRange(0, lo).Draw(rt, "kAny")
			}
			if k > lo {
				k = lo
			}
			newTxs := lo - k
			numTxs := addedTxs + newTxs
			fitsNoThrottle := !bsc.IsMaxBlockSizeWithoutThrottleReached(newMbs, newTxs)
			fitsThrottle := !bsc.IsMaxBlockSizeReached(newMbs, newTxs)
			if !fitsNoThrottle && !fitsThrottle {
				// the estimate is not monotone in the tx count: not a case of the property ("whenever the
				// estimate says it fits"), but never expected
				c.Class("estimate-says-no-below-boundary")
				return
			}

			// palette of (sender, receiver, type) triples
			var palette []verifC33Triple
			worst := rapid.IntRange(0, 1).Draw(rt, "worstPalette") == 0
			np := rapid.IntRange(1, 6).Draw(rt, "paletteSize")
			for i := 0; i < np; i++ {
				var tr verifC33Triple
				if worst {
					tr.snd = rapid.SampledFrom([]uint32{1 << 31, core.MetachainShardId, core.AllShardId, 1 << 28}).Draw(rt, "sndWorst")
					tr.rcv = rapid.SampledFrom([]uint32{1 << 31, core.MetachainShardId, core.AllShardId, 1 << 28}).Draw(rt, "rcvWorst")
					tr.typ = rapid.SampledFrom(verifC33Types[1:]).Draw(rt, "typWorst")
				} else {
					tr.snd = verifC33GenShard(rt, "snd")
					tr.rcv = verifC33GenShard(rt, "rcv")
					tr.typ = rapid.SampledFrom(verifC33Types).Draw(rt, "typ")
				}
				palette = append(palette, tr)
			}
			allBig := true
			for _, tr := range palette {
				if verifC33VarintLen(uint64(tr.snd)) < 5 || verifC33VarintLen(uint64(tr.rcv)) < 5 || tr.typ == 0 {
					allBig = false
				}
			}
			counts, distKind := verifC33Distribute(rt, numMbs, numTxs)

			slab := make([]byte, verifC33HashLen*numTxs)
			for i := range slab {
				slab[i] = byte(i*7 + 1)
			}
			body := &block.Body{MiniBlocks: make([]*block.MiniBlock, numMbs)}
			off := 0
			for i := range body.MiniBlocks {
				tr := palette[i%len(palette)]
				mb := &block.MiniBlock{SenderShardID: tr.snd, ReceiverShardID: tr.rcv, Type: tr.typ}
				if counts[i] > 0 {
					mb.TxHashes = make([][]byte, counts[i])
					for j := range mb.TxHashes {
						mb.TxHashes[j] = slab[off : off+verifC33HashLen]
						off += verifC33HashLen
					}
				}
				body.MiniBlocks[i] = mb
			}
			var buff []byte
			var err error
			c.NoPanic("C33:marshal-panic", func() { buff, err = m.Marshal(body) })
			if err != nil {
				rt.Fatalf("fixture: marshal: %v", err)
			}
			c.Class("distribution-" + distKind)
			switch {
			case len(buff) > verifC33ThrottleMax:
				c.Class("encoded-above-estimate-limit-943718")
			default:
				c.Class("encoded-within-estimate-limit")
			}
			if k == 0 && numMbs >= 50 && allBig {
				c.NonTrivial(fmt.Sprint(numMbs, numTxs, palette, distKind))
				c.Sample("M=%d T=%d (boundary) palette=%v distribution=%s encoded=%d bytes (limit %d, slack %d)", numMbs, numTxs, palette, distKind, len(buff), verifC33NetworkLimit, verifC33NetworkLimit-len(buff))
			}
			if len(buff) > verifC33NetworkLimit {
				c.Violation("C33:encoded-body-exceeds-network-limit", "estimate accepts M=%d miniblocks with T=%d tx hashes (without throttle: %v, throttled: %v) but the encoded body has %d bytes > %d; palette %v, distribution %s",
					numMbs, numTxs, fitsNoThrottle, fitsThrottle, len(buff), verifC33NetworkLimit, palette, distKind)
			}
		})
}

// Regression / fixed worst cases (run in every tier).
func TestVerifC33_Regress(t *testing.T) {
	kit.Silence()
	bsc, m := verifC33NewComputation(t.Fatalf)
	for _, numMbs := range []int{1, 50, 1800} {
		bsc.Init()
		numTxs := 0
		for !bsc.IsMaxBlockSizeWithoutThrottleReached(numMbs, numTxs+1) {
			numTxs++
			if numTxs >= 1<<16 {
				kit.FailPlain(t, "C33", "C33:estimate-accepts-65536-txs", "estimate accepts %d miniblocks with %d txs (> 2 MB of hashes)", numMbs, numTxs)
				return
			}
		}
		hash := make([]byte, verifC33HashLen)
		body := &block.Body{}
		for i := 0; i < numMbs; i++ {
			mb := &block.MiniBlock{SenderShardID: core.MetachainShardId, ReceiverShardID: core.AllShardId, Type: block.RewardsBlock}
			n := numTxs / numMbs
			if i == 0 {
				n += numTxs % numMbs
			}
			for j := 0; j < n; j++ {
				mb.TxHashes = append(mb.TxHashes, hash)
			}
			body.MiniBlocks = append(body.MiniBlocks, mb)
		}
		buff, err := m.Marshal(body)
		if err != nil {
			t.Fatalf("fixture: %v", err)
		}
		if len(buff) > verifC33NetworkLimit {
			kit.FailPlain(t, "C33", "C33:encoded-body-exceeds-network-limit", "M=%d T=%d worst ids/types: encoded %d > %d", numMbs, numTxs, len(buff), verifC33NetworkLimit)
		}
	}
}
