package preprocess_test

import (
	"fmt"
	"strings"
	"testing"

	"github.com/ElrondNetwork/elrond-go/core"
	"github.com/ElrondNetwork/elrond-go/data/block"
	"github.com/ElrondNetwork/elrond-go/marshal"
	kit "github.com/ElrondNetwork/elrond-go/verifkit"
	"pgregory.net/rapid"
)

// C33, incremental assembly: the estimator is driven the way the proposer drives it
// (process/coordinator/process.go, process/block/preprocess/{transactions,smartContractResults,rewardTxPreProcessor,
// validatorInfoPreProcessor}.go): Init(), then content is accounted with AddNumMiniBlocks/AddNumTxs as miniblocks
// are created, and before every addition one of the query forms the callers use is asked:
//
//	IsMaxBlockSizeReached(0, 0)                                  "does what was gathered so far still fit?"
//	IsMaxBlockSizeReached(0|1|2, 1|2)                            per transaction (createAndProcessMiniBlocksFromMe)
//	IsMaxBlockSizeWithoutThrottleReached(1, n)                   whole miniblock (scrs, rewards, validator info)
//	IsMaxBlockSizeWithoutThrottleReached(1+k, n+j) / (numMbs, numTxs)  ProcessMiniBlock / coordinator
//
// Every answer "not reached" is a claim of the statement: the body made of everything accounted so far plus the
// content asked about, once encoded, does not exceed the network message limit. The harness keeps the body
// symbolically (per miniblock: ids, type, hash count) with an exact protobuf size function; the size function is
// cross-checked against the real marshalizer at the end of every case, and a violating body is really marshalled.

type verifC33AsmMb struct {
	tr verifC33Triple
	n  int
}

// encoded length of one miniblock inside block.Body (field 1, length delimited)
func verifC33MbLen(tr verifC33Triple, n int) int {
	size := n * (2 + verifC33HashLen) // tag + length + hash
	if tr.rcv != 0 {
		size += 1 + verifC33VarintLen(uint64(tr.rcv))
	}
	if tr.snd != 0 {
		size += 1 + verifC33VarintLen(uint64(tr.snd))
	}
	if tr.typ != 0 {
		size += 1 + verifC33VarintLen(uint64(tr.typ))
	}
	return 1 + verifC33VarintLen(uint64(size)) + size
}

type verifC33Asm struct {
	c     *kit.Case
	rt    *rapid.T
	bsc   preprocessIface
	mbs   []verifC33AsmMb
	total int // exact encoded length of the accounted body
	txs   int
	forms map[string]bool
	said  map[string]int // "reached" answers per form
	trace []string
}

func (a *verifC33Asm) logf(format string, args ...interface{}) {
	if len(a.trace) < 60 {
		a.trace = append(a.trace, fmt.Sprintf(format, args...))
	}
}

func verifC33Materialize(mbs []verifC33AsmMb) *block.Body {
	n := 0
	for _, mb := range mbs {
		n += mb.n
	}
	slab := make([]byte, verifC33HashLen*n)
	for i := range slab {
		slab[i] = byte(i*13 + 5)
	}
	body := &block.Body{MiniBlocks: make([]*block.MiniBlock, len(mbs))}
	off := 0
	for i, d := range mbs {
		mb := &block.MiniBlock{SenderShardID: d.tr.snd, ReceiverShardID: d.tr.rcv, Type: d.tr.typ}
		if d.n > 0 {
			mb.TxHashes = make([][]byte, d.n)
			for j := range mb.TxHashes {
				mb.TxHashes[j] = slab[off : off+verifC33HashLen]
				off += verifC33HashLen
			}
		}
		body.MiniBlocks[i] = mb
	}
	return body
}

// claim evaluates one answer of the estimator. proposed = the symbolic body (accounted + asked about) and its size.
func (a *verifC33Asm) claim(form string, reached bool, proposed []verifC33AsmMb, proposedTotal int) {
	if !a.forms[form] {
		a.forms[form] = true
	}
	if reached {
		a.said[form]++
		return
	}
	if proposedTotal <= verifC33NetworkLimit {
		return
	}
	m := verifC33MarshalizerForAsm
	buff, err := m.Marshal(verifC33Materialize(proposed))
	if err != nil {
		a.rt.Fatalf("fixture: marshal: %v", err)
	}
	if len(buff) != proposedTotal {
		a.rt.Fatalf("fixture: size model of the harness says %d, the marshalizer %d", proposedTotal, len(buff))
	}
	nTx := 0
	for _, mb := range proposed {
		nTx += mb.n
	}
	a.c.Violation("C33:assembly:estimate-fits-but-encoded-exceeds", "%s answered 'not reached' for a body of %d miniblocks and %d tx hashes whose encoding has %d bytes > %d; steps: %s",
		form, len(proposed), nTx, len(buff), verifC33NetworkLimit, strings.Join(a.trace, " "))
}

func (a *verifC33Asm) withNew(extra []verifC33AsmMb) ([]verifC33AsmMb, int) {
	t := a.total
	for _, e := range extra {
		t += verifC33MbLen(e.tr, e.n)
	}
	p := make([]verifC33AsmMb, 0, len(a.mbs)+len(extra))
	p = append(p, a.mbs...)
	p = append(p, extra...)
	return p, t
}

func (a *verifC33Asm) account(extra []verifC33AsmMb) {
	for _, e := range extra {
		a.mbs = append(a.mbs, e)
		a.total += verifC33MbLen(e.tr, e.n)
		a.txs += e.n
	}
}

// "does what was gathered so far still fit?" (transactionCoordinator.CreateMbsAndProcessCrossShardTransactionsDstMe)
func (a *verifC33Asm) askZero(throttled bool) bool {
	var reached bool
	form := "IsMaxBlockSizeWithoutThrottleReached(0,0)"
	if throttled {
		form = "IsMaxBlockSizeReached(0,0)"
		reached = a.bsc.IsMaxBlockSizeReached(0, 0)
	} else {
		reached = a.bsc.IsMaxBlockSizeWithoutThrottleReached(0, 0)
	}
	a.claim(form, reached, a.mbs, a.total)
	return reached
}

// whole miniblocks asked about with their real sizes, then accounted (ProcessMiniBlock, scrs, rewards, validator
// info, coordinator): returns false when the estimator refused
func (a *verifC33Asm) addGroup(group []verifC33AsmMb, throttled bool) bool {
	nTx := 0
	for _, g := range group {
		nTx += g.n
	}
	var reached bool
	form := fmt.Sprintf("IsMaxBlockSizeWithoutThrottleReached(%d,n)", len(group))
	if throttled {
		form = fmt.Sprintf("IsMaxBlockSizeReached(%d,n)", len(group))
		reached = a.bsc.IsMaxBlockSizeReached(len(group), nTx)
	} else {
		reached = a.bsc.IsMaxBlockSizeWithoutThrottleReached(len(group), nTx)
	}
	p, t := a.withNew(group)
	a.claim(form, reached, p, t)
	if reached {
		return false
	}
	a.bsc.AddNumMiniBlocks(len(group))
	a.bsc.AddNumTxs(nTx)
	a.account(group)
	return true
}

// transactions added one by one into the miniblock idx (-1: a new miniblock with triple tr), as
// createAndProcessMiniBlocksFromMe does; returns the number added and whether the estimator stopped the loop
func (a *verifC33Asm) addTxByTx(idx int, tr verifC33Triple, count int) (int, bool) {
	added := 0
	for i := 0; i < count; i++ {
		newMb := 0
		if idx < 0 {
			newMb = 1
		}
		reached := a.bsc.IsMaxBlockSizeReached(newMb, 1)
		var p []verifC33AsmMb
		var t int
		if idx < 0 {
			p, t = a.withNew([]verifC33AsmMb{{tr: tr, n: 1}})
		} else {
			old := a.mbs[idx]
			t = a.total - verifC33MbLen(old.tr, old.n) + verifC33MbLen(old.tr, old.n+1)
			if !reached && t > verifC33NetworkLimit {
				p = append([]verifC33AsmMb(nil), a.mbs...)
				p[idx].n++
			}
		}
		form := "IsMaxBlockSizeReached(0,1)"
		if newMb == 1 {
			form = "IsMaxBlockSizeReached(1,1)"
		}
		a.claim(form, reached, p, t)
		if reached {
			return added, true
		}
		if idx < 0 {
			a.bsc.AddNumMiniBlocks(1)
			a.mbs = append(a.mbs, verifC33AsmMb{tr: tr})
			a.total += verifC33MbLen(tr, 0)
			idx = len(a.mbs) - 1
		}
		a.bsc.AddNumTxs(1)
		old := a.mbs[idx]
		a.total += verifC33MbLen(old.tr, old.n+1) - verifC33MbLen(old.tr, old.n)
		a.mbs[idx].n++
		a.txs++
		added++
	}
	return added, false
}

var verifC33MarshalizerForAsm = &marshal.GogoProtoMarshalizer{}

func verifC33GenTriple(rt *rapid.T, worst bool) verifC33Triple {
	var tr verifC33Triple
	if worst {
		tr.snd = rapid.SampledFrom([]uint32{1 << 31, core.MetachainShardId, core.AllShardId, 1 << 28}).Draw(rt, "sndWorst")
		tr.rcv = rapid.SampledFrom([]uint32{1 << 31, core.MetachainShardId, core.AllShardId, 1 << 28}).Draw(rt, "rcvWorst")
		tr.typ = rapid.SampledFrom(verifC33Types[1:]).Draw(rt, "typWorst")
	} else {
		tr.snd = verifC33GenShard(rt, "snd")
		tr.rcv = verifC33GenShard(rt, "rcv")
		tr.typ = rapid.SampledFrom(verifC33Types).Draw(rt, "typ")
	}
	return tr
}

func TestVerifC33_Assembly(t *testing.T) {
	bsc, _ := verifC33NewComputation(t.Fatalf)
	kit.Run(t, "C33", kit.Budget{Quick: 250, Thorough: 3000},
		"incremental assembly as the proposer does it: Init, then a drawn mix of steps - (0,0) query followed by a sized group query and Add (cross-shard miniblocks to me), whole miniblock query (1,n) and Add, transactions added one by one with IsMaxBlockSizeReached(0|1,1), groups of 1-3 miniblocks (coordinator form), content accounted after only a (0,0) query (bounded miniblocks <= 2500 hashes) - with batch sizes 1..3000, palette of 1-6 (sender, receiver, type) triples, at most 1800 miniblocks; usually finished by filling transaction by transaction until the estimator says 'reached'; every 'not reached' answer is checked against the exact encoded size of (accounted + asked about), the size model is compared with the real marshalizer at the end of each case; non-trivial = the estimator said 'reached' at least once, >= 3 query forms were used and >= 2 miniblocks exist; distinct by step trace",
		func(rt *rapid.T, c *kit.Case) {
			bsc.Init()
			a := &verifC33Asm{c: c, rt: rt, bsc: bsc, forms: map[string]bool{}, said: map[string]int{}}
			worst := rapid.IntRange(0, 1).Draw(rt, "worstPalette") == 0
			np := rapid.IntRange(1, 6).Draw(rt, "paletteSize")
			palette := make([]verifC33Triple, np)
			for i := range palette {
				palette[i] = verifC33GenTriple(rt, worst)
			}
			batch := func(label string) int {
				switch rapid.IntRange(0, 3).Draw(rt, label+"Kind") {
				case 0:
					return rapid.IntRange(1000, 3000).Draw(rt, label+"Large")
				case 1:
					return rapid.IntRange(100, 1000).Draw(rt, label+"Medium")
				case 2:
					return rapid.IntRange(0, 3).Draw(rt, label+"Tiny")
				default:
					return rapid.IntRange(1, 100).Draw(rt, label+"Small")
				}
			}
			steps := rapid.IntRange(1, 60).Draw(rt, "steps")
			refusals := 0
			for s := 0; s < steps && refusals < 4; s++ {
				room := len(a.mbs) < verifC33MaxMiniBlocks-3
				kind := rapid.SampledFrom([]string{"destMe", "wholeMb", "txByTx", "group", "zeroOnly"}).Draw(rt, "step")
				tr := rapid.SampledFrom(palette).Draw(rt, "triple")
				throttled := rapid.Bool().Draw(rt, "throttledForm")
				switch kind {
				case "destMe":
					// CreateMbsAndProcessCrossShardTransactionsDstMe: (0,0), then ProcessMiniBlock asks with the
					// miniblock and the new intermediate results it produced
					if a.askZero(true) {
						a.logf("destMe:full")
						refusals++
						continue
					}
					if !room {
						continue
					}
					group := []verifC33AsmMb{{tr: tr, n: batch("n")}}
					if rapid.IntRange(0, 2).Draw(rt, "withInterim") == 0 {
						group = append(group, verifC33AsmMb{tr: verifC33Triple{snd: tr.rcv, rcv: tr.snd, typ: block.SmartContractResultBlock}, n: rapid.IntRange(1, 50).Draw(rt, "interimTxs")})
					}
					ok := a.addGroup(group, false)
					a.logf("destMe(%d,%d)=%v", len(group), group[0].n, ok)
					if !ok {
						refusals++
					}
				case "wholeMb":
					if !room {
						continue
					}
					n := batch("n")
					ok := a.addGroup([]verifC33AsmMb{{tr: tr, n: n}}, false)
					a.logf("wholeMb(%d)=%v", n, ok)
					if !ok {
						refusals++
					}
				case "txByTx":
					idx := -1
					if len(a.mbs) > 0 && (!room || rapid.Bool().Draw(rt, "intoExisting")) {
						idx = rapid.IntRange(0, len(a.mbs)-1).Draw(rt, "mbIdx")
					}
					n := batch("n")
					added, stopped := a.addTxByTx(idx, tr, n)
					a.logf("txByTx(%d into %d)=%d", n, idx, added)
					if stopped {
						refusals++
					}
				case "group":
					if !room {
						continue
					}
					g := rapid.IntRange(1, 3).Draw(rt, "groupSize")
					group := make([]verifC33AsmMb, g)
					for i := range group {
						group[i] = verifC33AsmMb{tr: palette[(i+s)%len(palette)], n: batch("n")}
					}
					ok := a.addGroup(group, throttled)
					a.logf("group(%d,throttled=%v)=%v", g, throttled, ok)
					if !ok {
						refusals++
					}
				case "zeroOnly":
					// content accounted after only asking whether what was gathered so far still fits
					if a.askZero(throttled) {
						a.logf("zeroOnly:full")
						refusals++
						continue
					}
					if !room {
						continue
					}
					n := batch("n")
					if n > 2500 {
						n = 2500
					}
					a.bsc.AddNumMiniBlocks(1)
					a.bsc.AddNumTxs(n)
					a.account([]verifC33AsmMb{{tr: tr, n: n}})
					a.logf("zeroOnly(%d)", n)
				}
			}
			filled := false
			if rapid.IntRange(0, 7).Draw(rt, "noFinalFill") != 7 {
				// fill transaction by transaction until the estimator says stop (bounded: 70 000 hashes are > 2 MB)
				idx := -1
				if len(a.mbs) > 0 {
					idx = len(a.mbs) - 1
				}
				added, stopped := a.addTxByTx(idx, palette[0], 70000)
				a.logf("fill=%d", added)
				filled = stopped
			}
			a.askZero(true)
			a.askZero(false)

			// the size model of the harness against the real marshalizer
			buff, err := verifC33MarshalizerForAsm.Marshal(verifC33Materialize(a.mbs))
			if err != nil {
				rt.Fatalf("fixture: marshal: %v", err)
			}
			if len(buff) != a.total {
				rt.Fatalf("fixture: size model of the harness says %d, the marshalizer %d (%d miniblocks)", a.total, len(buff), len(a.mbs))
			}
			nReached := 0
			for _, n := range a.said {
				nReached += n
			}
			if filled {
				c.Class("filled-to-the-boundary")
			}
			if len(buff) > verifC33ThrottleMax {
				c.Class("encoded-above-estimate-limit-943718")
			}
			for f := range a.forms {
				c.Class("form " + f)
			}
			if nReached > 0 && len(a.forms) >= 3 && len(a.mbs) >= 2 {
				key := fmt.Sprint(palette, a.trace, len(a.mbs), a.txs)
				c.NonTrivial(key)
				c.Sample("%d miniblocks, %d hashes, encoded %d bytes (limit %d); steps: %s", len(a.mbs), a.txs, len(buff), verifC33NetworkLimit, strings.Join(a.trace, " "))
			}
		})
}

// Fixed assemblies (run in every tier): miniblocks of a bounded size accounted while the (0,0) query says that what
// was gathered so far fits, and a miniblock-by-miniblock assembly with sized queries.
func TestVerifC33_AssemblyRegress(t *testing.T) {
	kit.Silence()
	bsc, m := verifC33NewComputation(t.Fatalf)
	tr := verifC33Triple{snd: 1, rcv: core.MetachainShardId, typ: block.TxBlock}
	for _, n := range []int{200, 1000} {
		for _, sized := range []bool{false, true} {
			bsc.Init()
			var mbs []verifC33AsmMb
			for i := 0; i < 70000/n; i++ {
				if sized {
					if bsc.IsMaxBlockSizeReached(1, n) {
						break
					}
				} else {
					if bsc.IsMaxBlockSizeReached(0, 0) {
						break
					}
					// the answer is about what was gathered so far
					buff, err := m.Marshal(verifC33Materialize(mbs))
					if err != nil {
						t.Fatalf("fixture: %v", err)
					}
					if len(buff) > verifC33NetworkLimit {
						kit.FailPlain(t, "C33", "C33:assembly:estimate-fits-but-encoded-exceeds", "IsMaxBlockSizeReached(0,0) = false for %d accounted miniblocks of %d hashes: %d bytes", len(mbs), n, len(buff))
						return
					}
				}
				bsc.AddNumMiniBlocks(1)
				bsc.AddNumTxs(n)
				mbs = append(mbs, verifC33AsmMb{tr: tr, n: n})
				if sized {
					buff, err := m.Marshal(verifC33Materialize(mbs))
					if err != nil {
						t.Fatalf("fixture: %v", err)
					}
					if len(buff) > verifC33NetworkLimit {
						kit.FailPlain(t, "C33", "C33:assembly:estimate-fits-but-encoded-exceeds", "IsMaxBlockSizeReached(1,%d) = false before miniblock %d: body of %d bytes", n, len(mbs), len(buff))
						return
					}
				}
			}
		}
	}
}
