package preprocess_test

import (
	"fmt"
	"os"
	"strconv"
	"testing"

	"github.com/ElrondNetwork/elrond-go/data/block"
	"github.com/ElrondNetwork/elrond-go/marshal"
	"github.com/ElrondNetwork/elrond-go/process/block/preprocess"
	"github.com/ElrondNetwork/elrond-go/process/throttle"
	kit "github.com/ElrondNetwork/elrond-go/verifkit"
	"pgregory.net/rapid"
)

// C33 with every internal marshalizer a node can be configured with: config.toml [Marshalizer] Type = "gogo protobuf"
// or "json" (marshal/factory), wrapped by marshal.NewSizeCheckUnmarshalizer when SizeCheckDelta > 0
// (factory/coreComponents.go). A process holds several estimators (one per block processor; tools and tests build
// them with different marshalizers), so instances are constructed in varying order inside one process. The body is
// measured with the SAME marshalizer the estimator was built with (that marshalizer encodes the broadcast body).

var verifC33MarshKinds = []string{"proto", "protoSizeCheck", "json", "jsonSizeCheck"}

func verifC33MarshalizerOf(kind string) marshal.Marshalizer {
	switch kind {
	case "proto":
		return &marshal.GogoProtoMarshalizer{}
	case "protoSizeCheck":
		return marshal.NewSizeCheckUnmarshalizer(&marshal.GogoProtoMarshalizer{}, 20)
	case "json":
		return &marshal.JsonMarshalizer{}
	default:
		return marshal.NewSizeCheckUnmarshalizer(&marshal.JsonMarshalizer{}, 20)
	}
}

type verifC33Instance struct {
	kind string
	m    marshal.Marshalizer
	bsc  preprocessIface
}

func verifC33NewInstance(kind string) (*verifC33Instance, error) {
	m := verifC33MarshalizerOf(kind)
	th, err := throttle.NewBlockSizeThrottle(verifC33ThrottleMin, verifC33ThrottleMax)
	if err != nil {
		return nil, err
	}
	bsc, err := preprocess.NewBlockSizeComputation(m, th, verifC33ThrottleMax)
	if err != nil {
		return nil, err
	}
	return &verifC33Instance{kind: kind, m: m, bsc: bsc}, nil
}

func TestVerifC33_Marshalizers(t *testing.T) {
	// the first instances of this process: construction order rotated / reversed by the shard number, so that the
	// processes of one run construct them in different orders
	shard, _ := strconv.Atoi(os.Getenv("VERIF_SHARD"))
	order := make([]string, 0, len(verifC33MarshKinds))
	for i := range verifC33MarshKinds {
		order = append(order, verifC33MarshKinds[(i+shard)%len(verifC33MarshKinds)])
	}
	if (shard/len(verifC33MarshKinds))%2 == 1 || shard%2 == 1 {
		for i, j := 0, len(order)-1; i < j; i, j = i+1, j-1 {
			order[i], order[j] = order[j], order[i]
		}
	}
	var first []*verifC33Instance
	for _, k := range order {
		inst, err := verifC33NewInstance(k)
		if err != nil {
			t.Fatalf("fixture: %v", err)
		}
		first = append(first, inst)
	}
	kit.Run(t, "C33", kit.Budget{Quick: 40, Thorough: 500},
		"estimators built with gogo protobuf and JSON marshalizers, plain and wrapped by NewSizeCheckUnmarshalizer, several instances per process constructed in varying order (first construction order rotated by shard, then 2-4 fresh instances per case in drawn order); per instance a boundary body (M in {1..3, 50..200, 1000..1800} miniblocks, largest accepted tx count, part of the miniblocks accounted through AddNumMiniBlocks) is encoded with the instance's own marshalizer and compared with the network limit; non-trivial = a case with >= 2 instances of different encodings behind the same Go type; distinct by (order, M)",
		func(rt *rapid.T, c *kit.Case) {
			n := rapid.IntRange(2, 4).Draw(rt, "instances")
			kinds := rapid.Permutation(verifC33MarshKinds).Draw(rt, "order")[:n]
			instances := make([]*verifC33Instance, 0, n+len(first))
			for _, k := range kinds {
				inst, err := verifC33NewInstance(k)
				if err != nil {
					rt.Fatalf("fixture: %v", err)
				}
				instances = append(instances, inst)
			}
			if rapid.Bool().Draw(rt, "alsoFirstInstances") {
				instances = append(instances, first...)
			}
			var numMbs int
			switch rapid.IntRange(0, 2).Draw(rt, "mbKind") {
			case 0:
				numMbs = rapid.IntRange(1000, verifC33MaxMiniBlocks).Draw(rt, "mbLarge")
			case 1:
				numMbs = rapid.IntRange(50, 200).Draw(rt, "mbMedium")
			default:
				numMbs = rapid.IntRange(1, 3).Draw(rt, "mbSmall")
			}
			worst := rapid.Bool().Draw(rt, "worstPalette")
			palette := []verifC33Triple{verifC33GenTriple(rt, worst), verifC33GenTriple(rt, worst)}
			addedMbs := rapid.IntRange(0, numMbs).Draw(rt, "addedMbs")
			wrappedKinds := map[string]bool{}
			for _, inst := range instances {
				if inst.kind == "protoSizeCheck" || inst.kind == "jsonSizeCheck" {
					wrappedKinds[inst.kind] = true
				}
				inst.bsc.Init()
				inst.bsc.AddNumMiniBlocks(addedMbs)
				newMbs := numMbs - addedMbs
				if inst.bsc.IsMaxBlockSizeWithoutThrottleReached(newMbs, 0) {
					c.Class("no-tx-fits " + inst.kind)
					continue
				}
				lo, hi := 0, 1<<16
				if !inst.bsc.IsMaxBlockSizeWithoutThrottleReached(newMbs, hi) {
					c.Violation("C33:estimate-accepts-65536-txs", "%s estimator accepts %d miniblocks with %d txs", inst.kind, numMbs, hi)
				}
				for hi-lo > 1 {
					mid := (lo + hi) / 2
					if inst.bsc.IsMaxBlockSizeWithoutThrottleReached(newMbs, mid) {
						hi = mid
					} else {
						lo = mid
					}
				}
				if inst.bsc.IsMaxBlockSizeReached(newMbs, lo) {
					c.Class("throttled-predicate-stricter")
				}
				mbs := make([]verifC33AsmMb, numMbs)
				for i := range mbs {
					mbs[i] = verifC33AsmMb{tr: palette[i%len(palette)], n: lo / numMbs}
				}
				mbs[0].n += lo % numMbs
				var body *block.Body = verifC33Materialize(mbs)
				buff, err := inst.m.Marshal(body)
				if err != nil {
					rt.Fatalf("fixture: marshal with %s: %v", inst.kind, err)
				}
				c.Class("instance " + inst.kind)
				if len(buff) > verifC33NetworkLimit {
					ks := make([]string, len(instances))
					for i, x := range instances {
						ks[i] = x.kind
					}
					c.Violation("C33:marshalizers:encoded-body-exceeds-network-limit", "the %s estimator accepts M=%d miniblocks with T=%d tx hashes, the body encoded with the same marshalizer has %d bytes > %d; first instances of the process were built in the order %v, this case uses %v; palette %v",
						inst.kind, numMbs, lo, len(buff), verifC33NetworkLimit, order, ks, palette)
				}
			}
			if len(wrappedKinds) == 2 {
				c.NonTrivial(fmt.Sprint(kinds, numMbs, palette))
				c.Sample("instances %v, M=%d, palette %v", kinds, numMbs, palette)
			}
		})
}
