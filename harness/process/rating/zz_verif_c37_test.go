package rating_test

import (
	"fmt"
	"math"
	"sort"
	"testing"

	"github.com/ElrondNetwork/elrond-go/config"
	"github.com/ElrondNetwork/elrond-go/core"
	"github.com/ElrondNetwork/elrond-go/process"
	"github.com/ElrondNetwork/elrond-go/process/mock"
	"github.com/ElrondNetwork/elrond-go/process/rating"
	kit "github.com/ElrondNetwork/elrond-go/verifkit"
	"pgregory.net/rapid"
)

// C37: Validator ratings stay in range and move in the right direction.
//
// Two ways to obtain an accepted configuration:
//  (A) the production path: config.RatingsConfig -> rating.NewRatingsData (validation + step computation) ->
//      rating.NewBlockSigningRater; the configuration is constructed so that it usually passes both validators
//      (the rejected ones are counted, not judged);
//  (B) step values given directly (mock.RatingsInfoMock + rating.NewRatingStepData) inside the value space
//      NewRatingsData can produce: increase steps in [1, MaxInt32], decrease steps in [MinInt32, -1], penalty >= 1;
//      this reaches step magnitudes and rating ranges (up to MaxUint32) the arithmetic of (A) cannot reach quickly.

type verifC37Band struct {
	threshold uint32
	chance    uint32
}

type verifC37Fixture struct {
	rater      *rating.BlockSigningRater
	min, max   uint32
	bands      []verifC37Band // sorted by threshold
	shardSteps process.RatingsStepHandler
	metaSteps  process.RatingsStepHandler
	descr      string
}

func verifC37GenBands(rt *rapid.T, min, max uint32) []verifC37Band {
	// first threshold 0, strictly increasing, last == max; middle thresholds biased to min, max-1 and neighbours
	set := map[uint32]struct{}{0: {}, max: {}}
	want := rapid.IntRange(0, 10).Draw(rt, "middleBands")
	var last uint32
	for i := 0; i < want && max >= 2; i++ {
		var th uint32
		switch rapid.IntRange(0, 5).Draw(rt, "thKind") {
		case 0:
			th = min
		case 1:
			th = max - 1
		case 2:
			th = last + 1 // adjacent thresholds
		case 3:
			th = min + uint32(rapid.IntRange(0, 3).Draw(rt, "thNearMin"))
		default:
			th = rapid.Uint32Range(1, max-1).Draw(rt, "th")
		}
		if th == 0 || th >= max {
			continue
		}
		set[th] = struct{}{}
		last = th
	}
	bands := make([]verifC37Band, 0, len(set))
	for th := range set {
		bands = append(bands, verifC37Band{threshold: th})
	}
	sort.Slice(bands, func(i, j int) bool { return bands[i].threshold < bands[j].threshold })
	for i := range bands {
		bands[i].chance = rapid.Uint32Range(0, 200).Draw(rt, "chance")
	}
	return bands
}

// verifC37Permute returns the bands in a drawn order (the configuration does not have to be sorted).
func verifC37Permute(rt *rapid.T, bands []verifC37Band) []verifC37Band {
	out := append([]verifC37Band(nil), bands...)
	if rapid.IntRange(0, 2).Draw(rt, "shuffleBands") == 0 {
		return out
	}
	for i := len(out) - 1; i > 0; i-- {
		j := rapid.IntRange(0, i).Draw(rt, "swap")
		out[i], out[j] = out[j], out[i]
	}
	return out
}

func verifC37GenPenalty(rt *rapid.T, label string) float32 {
	switch rapid.IntRange(0, 7).Draw(rt, label+"Kind") {
	case 0:
		return 1
	case 1:
		return 1.1
	case 2:
		return 1.5
	case 3:
		return 2
	case 4:
		return 10
	case 5:
		return math.Nextafter32(1, 2)
	default:
		return float32(rapid.Float64Range(1, 20).Draw(rt, label))
	}
}

func verifC37GenFactor(rt *rapid.T, label string) float32 {
	switch rapid.IntRange(0, 4).Draw(rt, label+"Kind") {
	case 0:
		return -1
	case 1:
		return -4
	case 2:
		return -1.5
	default:
		return -float32(rapid.Float64Range(1, 50).Draw(rt, label))
	}
}

type verifC37Chain struct {
	minNodes, consensus uint32
	steps               config.RatingSteps
}

func verifC37GenChain(rt *rapid.T, label string) verifC37Chain {
	var ch verifC37Chain
	switch rapid.IntRange(0, 3).Draw(rt, label+"SizeKind") {
	case 0:
		ch.minNodes = uint32(rapid.IntRange(1, 5).Draw(rt, label+"MinNodes"))
	case 1:
		ch.minNodes = 400
	default:
		ch.minNodes = uint32(rapid.IntRange(1, 2000).Draw(rt, label+"MinNodes"))
	}
	switch rapid.IntRange(0, 2).Draw(rt, label+"ConsKind") {
	case 0:
		ch.consensus = ch.minNodes
	case 1:
		ch.consensus = 1
	default:
		ch.consensus = uint32(rapid.IntRange(1, int(ch.minNodes)).Draw(rt, label+"Consensus"))
	}
	importance := []float32{1, 0.1, 10, 0.5, 2}[rapid.IntRange(0, 4).Draw(rt, label+"ImpKind")]
	if rapid.IntRange(0, 3).Draw(rt, label+"ImpDrawn") == 0 {
		importance = float32(rapid.Float64Range(0.1, 10).Draw(rt, label+"Importance"))
	}
	hours := uint32(rapid.IntRange(1, 100).Draw(rt, label+"Hours"))
	if rapid.IntRange(0, 9).Draw(rt, label+"HoursHuge") == 9 {
		// beyond 1193 hours the product hours*3600000 wraps in uint32 inside computeRatingStep: still an accepted configuration
		hours = []uint32{1193, 1194, 1200, 2386, 5000, 100000}[rapid.IntRange(0, 5).Draw(rt, label+"HoursHugeKind")]
	}
	ch.steps = config.RatingSteps{
		HoursToMaxRatingFromStartRating: hours,
		ProposerValidatorImportance:     importance,
		ProposerDecreaseFactor:          verifC37GenFactor(rt, label+"PropFactor"),
		ValidatorDecreaseFactor:         verifC37GenFactor(rt, label+"ValFactor"),
		ConsecutiveMissedBlocksPenalty:  verifC37GenPenalty(rt, label+"Penalty"),
	}
	return ch
}

// verifC37MinDiff estimates the smallest (max-start) for which both increase steps of the chain are >= 1.
func verifC37MinDiff(ch verifC37Chain, roundMs uint64) float64 {
	// as computeRatingStep does it: the product is formed in uint32 (wraps from 1194 hours on)
	blocks := float64(uint64(ch.steps.HoursToMaxRatingFromStartRating*3600*1000) / roundMs)
	if blocks == 0 {
		return math.Inf(1) // rejected by NewRatingsData (increase step overflow); skipped by the caller
	}
	propProb := blocks / float64(ch.minNodes)
	valProb := propProb * float64(ch.consensus)
	imp := float64(ch.steps.ProposerValidatorImportance)
	return math.Max((imp+1)/imp*propProb, (imp+1)*valProb)
}

// verifC37FromConfig builds a fixture through the production path; ok=false if a validator rejected it.
func verifC37FromConfig(rt *rapid.T, c *kit.Case) (*verifC37Fixture, bool) {
	shard := verifC37GenChain(rt, "shard")
	meta := verifC37GenChain(rt, "meta")
	roundMs := uint64(rapid.IntRange(1000, 6000).Draw(rt, "roundMs"))
	if rapid.IntRange(0, 2).Draw(rt, "roundKind") == 0 {
		roundMs = 6000
	}
	need := math.Max(verifC37MinDiff(shard, roundMs), verifC37MinDiff(meta, roundMs))
	var mult float64
	switch rapid.IntRange(0, 6).Draw(rt, "diffKind") {
	case 0:
		mult = 1.0 // on the acceptance boundary (float32 arithmetic decides)
	case 1:
		mult = 1.001
	case 2:
		mult = 1.99
	case 3:
		mult = 2.0
	default:
		mult = rapid.Float64Range(1, 1000).Draw(rt, "diffMult")
	}
	diffF := math.Ceil(need * mult)
	var min uint32
	switch rapid.IntRange(0, 3).Draw(rt, "minKind") {
	case 0, 1:
		min = 1
	default:
		min = uint32(rapid.IntRange(1, 1000000).Draw(rt, "min"))
	}
	startOff := uint32(0)
	if rapid.IntRange(0, 3).Draw(rt, "startKind") != 0 {
		startOff = uint32(rapid.IntRange(0, 5000000).Draw(rt, "startOff"))
	}
	if diffF < 1 {
		diffF = 1
	}
	if diffF+float64(min)+float64(startOff) > math.MaxUint32 {
		c.Class("A:config-too-large-skipped")
		return nil, false
	}
	start := min + startOff
	max := start + uint32(diffF)
	bands := verifC37GenBands(rt, min, max)
	cfgBands := verifC37Permute(rt, bands)
	cfg := config.RatingsConfig{
		General: config.General{
			StartRating:           start,
			MaxRating:             max,
			MinRating:             min,
			SignedBlocksThreshold: float32(rapid.Float64Range(0, 1).Draw(rt, "signedThreshold")),
		},
		ShardChain: config.ShardChain{RatingSteps: shard.steps},
		MetaChain:  config.MetaChain{RatingSteps: meta.steps},
	}
	for _, b := range cfgBands {
		cfg.General.SelectionChances = append(cfg.General.SelectionChances, &config.SelectionChance{MaxThreshold: b.threshold, ChancePercent: b.chance})
	}
	args := rating.RatingsDataArg{
		Config:                   cfg,
		ShardConsensusSize:       shard.consensus,
		MetaConsensusSize:        meta.consensus,
		ShardMinNodes:            shard.minNodes,
		MetaMinNodes:             meta.minNodes,
		RoundDurationMiliseconds: roundMs,
	}
	var rd *rating.RatingsData
	var err error
	c.NoPanic("C37:new-ratings-data-panic", func() { rd, err = rating.NewRatingsData(args) })
	if err != nil {
		c.Class("A:rejected-by-NewRatingsData")
		return nil, false
	}
	var rater *rating.BlockSigningRater
	c.NoPanic("C37:new-rater-panic", func() { rater, err = rating.NewBlockSigningRater(rd) })
	if err != nil {
		c.Class("A:rejected-by-NewBlockSigningRater")
		return nil, false
	}
	c.Class("A:accepted")
	return &verifC37Fixture{
		rater: rater, min: min, max: max, bands: bands,
		shardSteps: rd.ShardChainRatingsStepHandler(), metaSteps: rd.MetaChainRatingsStepHandler(),
		descr: fmt.Sprintf("config{min %d start %d max %d round %d shard %+v meta %+v bands %v}", min, start, max, roundMs, shard, meta, cfgBands),
	}, true
}

func verifC37GenStep(rt *rapid.T, label string) int32 {
	switch rapid.IntRange(0, 5).Draw(rt, label+"Kind") {
	case 0:
		return 1
	case 1:
		return math.MaxInt32
	case 2:
		return int32(rapid.IntRange(1, 10).Draw(rt, label))
	case 3:
		return int32(rapid.IntRange(math.MaxInt32-3, math.MaxInt32).Draw(rt, label))
	default:
		return int32(rapid.IntRange(1, math.MaxInt32).Draw(rt, label))
	}
}

func verifC37GenStepData(rt *rapid.T, label string) process.RatingsStepHandler {
	pen := verifC37GenPenalty(rt, label+"Penalty")
	if rapid.IntRange(0, 15).Draw(rt, label+"PenaltyHuge") == 0 {
		pen = math.MaxFloat32
	}
	negate := func(v int32) int32 {
		if v == math.MaxInt32 && rapid.Bool().Draw(rt, label+"MinInt") {
			return math.MinInt32
		}
		return -v
	}
	return rating.NewRatingStepData(
		verifC37GenStep(rt, label+"PropInc"),
		negate(verifC37GenStep(rt, label+"PropDec")),
		verifC37GenStep(rt, label+"ValInc"),
		negate(verifC37GenStep(rt, label+"ValDec")),
		pen,
	)
}

func verifC37GenU32(rt *rapid.T, label string, lo, hi uint32) uint32 {
	if lo >= hi {
		return lo
	}
	switch rapid.IntRange(0, 4).Draw(rt, label+"Kind") {
	case 0:
		return lo
	case 1:
		return hi
	case 2:
		d := uint32(rapid.IntRange(0, 5).Draw(rt, label+"Near"))
		if hi-lo < d {
			return lo
		}
		if rapid.Bool().Draw(rt, label+"Side") {
			return lo + d
		}
		return hi - d
	default:
		return rapid.Uint32Range(lo, hi).Draw(rt, label)
	}
}

// verifC37Direct builds a fixture from step values given directly.
func verifC37Direct(rt *rapid.T, c *kit.Case) (*verifC37Fixture, bool) {
	var max uint32
	switch rapid.IntRange(0, 5).Draw(rt, "maxKind") {
	case 0:
		max = math.MaxUint32
	case 1:
		max = uint32(rapid.IntRange(1, 200).Draw(rt, "maxSmall"))
	case 2:
		max = 1<<31 + uint32(rapid.IntRange(-3, 3).Draw(rt, "maxNear2p31"))
	case 3:
		max = 10000000
	default:
		max = rapid.Uint32Range(1, math.MaxUint32).Draw(rt, "max")
	}
	min := verifC37GenU32(rt, "min", 1, max)
	if rapid.IntRange(0, 2).Draw(rt, "minOne") == 0 {
		min = 1
	}
	start := verifC37GenU32(rt, "start", min, max)
	bands := verifC37GenBands(rt, min, max)
	cfgBands := verifC37Permute(rt, bands)
	info := &mock.RatingsInfoMock{
		StartRatingProperty:           start,
		MaxRatingProperty:             max,
		MinRatingProperty:             min,
		SignedBlocksThresholdProperty: 0.01,
		MetaRatingsStepDataProperty:   verifC37GenStepData(rt, "meta"),
		ShardRatingsStepDataProperty:  verifC37GenStepData(rt, "shard"),
	}
	for _, b := range cfgBands {
		info.SelectionChancesProperty = append(info.SelectionChancesProperty, &rating.SelectionChance{MaxThreshold: b.threshold, ChancePercent: b.chance})
	}
	var rater *rating.BlockSigningRater
	var err error
	c.NoPanic("C37:new-rater-panic", func() { rater, err = rating.NewBlockSigningRater(info) })
	if err != nil {
		// constructed to be valid: a rejection here is a harness problem, not a property violation
		rt.Fatalf("fixture: NewBlockSigningRater rejected a configuration built to be valid: %v (min %d start %d max %d bands %v)", err, min, start, max, cfgBands)
	}
	c.Class("B:accepted")
	return &verifC37Fixture{
		rater: rater, min: min, max: max, bands: bands,
		shardSteps: info.ShardRatingsStepDataProperty, metaSteps: info.MetaRatingsStepDataProperty,
		descr: fmt.Sprintf("direct{min %d start %d max %d bands %v}", min, start, max, cfgBands),
	}, true
}

func verifC37StepsString(s process.RatingsStepHandler) string {
	return fmt.Sprintf("{propInc %d propDec %d valInc %d valDec %d penalty %v}", s.ProposerIncreaseRatingStep(), s.ProposerDecreaseRatingStep(),
		s.ValidatorIncreaseRatingStep(), s.ValidatorDecreaseRatingStep(), s.ConsecutiveMissedBlocksPenalty())
}

// verifC37GenRating draws a current rating in [min,max], biased to the bounds, the band thresholds and one step
// away from a bound.
func verifC37GenRating(rt *rapid.T, f *verifC37Fixture, steps process.RatingsStepHandler) (r uint32, nearBound bool) {
	clamp := func(v int64) uint32 {
		if v < int64(f.min) {
			return f.min
		}
		if v > int64(f.max) {
			return f.max
		}
		return uint32(v)
	}
	stepVals := []int64{int64(steps.ProposerIncreaseRatingStep()), int64(steps.ValidatorIncreaseRatingStep()),
		-int64(steps.ProposerDecreaseRatingStep()), -int64(steps.ValidatorDecreaseRatingStep())}
	switch rapid.IntRange(0, 7).Draw(rt, "rKind") {
	case 0:
		return f.min, true
	case 1:
		return f.max, true
	case 2:
		// just inside one step of the upper bound
		s := stepVals[rapid.IntRange(0, 3).Draw(rt, "whichStep")]
		return clamp(int64(f.max) - s + int64(rapid.IntRange(-1, 1).Draw(rt, "off"))), true
	case 3:
		s := stepVals[rapid.IntRange(0, 3).Draw(rt, "whichStep")]
		return clamp(int64(f.min) + s + int64(rapid.IntRange(-1, 1).Draw(rt, "off"))), true
	case 4:
		b := f.bands[rapid.IntRange(0, len(f.bands)-1).Draw(rt, "band")]
		return clamp(int64(b.threshold) + int64(rapid.IntRange(-1, 1).Draw(rt, "off"))), false
	case 5:
		return clamp(int64(f.min) + int64(rapid.IntRange(0, 3).Draw(rt, "off"))), true
	default:
		return rapid.Uint32Range(f.min, f.max).Draw(rt, "r"), false
	}
}

func verifC37ExpectedChance(f *verifC37Fixture, r uint32) uint32 {
	for _, b := range f.bands {
		if b.threshold >= r {
			return b.chance
		}
	}
	return f.bands[0].chance // unreachable for r <= max
}

func verifC37Check(rt *rapid.T, c *kit.Case, f *verifC37Fixture) {
	shardID := []uint32{0, 1, core.MetachainShardId, core.MetachainShardId}[rapid.IntRange(0, 3).Draw(rt, "shard")]
	steps := f.shardSteps
	if shardID == core.MetachainShardId {
		steps = f.metaSteps
	}
	r, nearBound := verifC37GenRating(rt, f, steps)
	ctx := func() string {
		return fmt.Sprintf("%s steps(shard %s meta %s) shardID %d rating %d", f.descr, verifC37StepsString(f.shardSteps), verifC37StepsString(f.metaSteps), shardID, r)
	}
	inRange := func(name string, v uint32) {
		if v < f.min || v > f.max {
			c.Violation("C37:"+name+":out-of-range", "%s = %d is outside [%d, %d]; %s", name, v, f.min, f.max, ctx())
		}
	}
	up := func(name string, v uint32) {
		inRange(name, v)
		if v < r {
			c.Violation("C37:"+name+":lowers", "%s lowered the rating %d -> %d; %s", name, r, v, ctx())
		}
	}
	down := func(name string, v uint32) {
		inRange(name, v)
		if v > r {
			c.Violation("C37:"+name+":raises", "%s raised the rating %d -> %d; %s", name, r, v, ctx())
		}
	}

	var v uint32
	c.NoPanic("C37:panic", func() { v = f.rater.ComputeIncreaseProposer(shardID, r) })
	up("ComputeIncreaseProposer", v)
	c.NoPanic("C37:panic", func() { v = f.rater.ComputeIncreaseValidator(shardID, r) })
	up("ComputeIncreaseValidator", v)
	c.NoPanic("C37:panic", func() { v = f.rater.ComputeDecreaseValidator(shardID, r) })
	down("ComputeDecreaseValidator", v)

	// reverts
	var nrReverts uint32
	switch rapid.IntRange(0, 4).Draw(rt, "revertsKind") {
	case 0:
		nrReverts = uint32(rapid.IntRange(0, 3).Draw(rt, "reverts"))
	case 1:
		nrReverts = math.MaxUint32
	case 2:
		// around the point where step*reverts crosses 2^31 / 2^32
		inc := uint32(steps.ValidatorIncreaseRatingStep())
		target := uint64(1) << uint(rapid.IntRange(31, 33).Draw(rt, "revertsPow"))
		q := target/uint64(inc) + uint64(rapid.IntRange(0, 2).Draw(rt, "revertsOff"))
		if q > math.MaxUint32 {
			q = math.MaxUint32
		}
		nrReverts = uint32(q)
	default:
		nrReverts = rapid.Uint32().Draw(rt, "reverts")
	}
	c.NoPanic("C37:panic", func() { v = f.rater.RevertIncreaseValidator(shardID, r, nrReverts) })
	if v > r {
		c.Violation("C37:RevertIncreaseValidator:raises", "RevertIncreaseValidator with %d reverts raised the rating %d -> %d; %s", nrReverts, r, v, ctx())
	}
	down("RevertIncreaseValidator", v)

	// streak of missed blocks: k = 0..K, each result in range, not above r, non-increasing in k
	penalty := steps.ConsecutiveMissedBlocksPenalty()
	K := uint32(rapid.IntRange(2, 41).Draw(rt, "streak"))
	prev := uint32(0)
	firstFloor := uint32(0)
	for k := uint32(0); k <= K; k++ {
		c.NoPanic("C37:panic", func() { v = f.rater.ComputeDecreaseProposer(shardID, r, k) })
		down("ComputeDecreaseProposer", v)
		if k > 0 && v > prev {
			c.Violation("C37:streak-not-monotone", "ComputeDecreaseProposer(k=%d) = %d > ComputeDecreaseProposer(k=%d) = %d; %s", k, v, k-1, prev, ctx())
		}
		if v == f.min && firstFloor == 0 {
			firstFloor = k + 1
		}
		prev = v
	}
	// very long streaks (the loop in ComputeDecreaseProposer runs k times unless the penalty saturates: keep k
	// moderate for penalties so close to 1 that saturation takes millions of iterations)
	bigKs := []uint32{1000, 100000}
	if penalty >= 1.001 {
		bigKs = append(bigKs, rapid.Uint32Range(100000, math.MaxUint32).Draw(rt, "bigStreak"), math.MaxUint32)
	}
	for _, k := range bigKs {
		c.NoPanic("C37:panic", func() { v = f.rater.ComputeDecreaseProposer(shardID, r, k) })
		down("ComputeDecreaseProposer", v)
		if v > prev {
			c.Violation("C37:streak-not-monotone", "ComputeDecreaseProposer(k=%d) = %d > value %d of a shorter streak; %s", k, v, prev, ctx())
		}
		prev = v
	}

	// chance band
	var chance uint32
	c.NoPanic("C37:panic", func() { chance = f.rater.GetChance(r) })
	if want := verifC37ExpectedChance(f, r); chance != want {
		c.Violation("C37:chance-band", "GetChance(%d) = %d, want %d (bands %v); %s", r, chance, want, f.bands, ctx())
	}
	// and for every threshold and its neighbours
	for _, b := range f.bands {
		for d := int64(-1); d <= 1; d++ {
			x := int64(b.threshold) + d
			if x < int64(f.min) || x > int64(f.max) {
				continue
			}
			c.NoPanic("C37:panic", func() { chance = f.rater.GetChance(uint32(x)) })
			if want := verifC37ExpectedChance(f, uint32(x)); chance != want {
				c.Violation("C37:chance-band", "GetChance(%d) = %d, want %d (bands %v); %s", x, chance, want, f.bands, ctx())
			}
		}
	}

	if nearBound {
		c.Class("rating-near-bound")
	}
	if penalty > 1 {
		c.Class("penalty>1")
	}
	if firstFloor > 1 {
		c.Class("streak-reaches-min-after-k>=1")
	}
	if nearBound || penalty > 1 {
		c.NonTrivial(fmt.Sprint(f.descr, shardID, r))
		c.Sample("%s; streak K=%d reverts=%d", ctx(), K, nrReverts)
	}
}

func TestVerifC37_Config(t *testing.T) {
	kit.Run(t, "C37", kit.Budget{Quick: 12000, Thorough: 120000},
		"ratings configuration built to pass validation (shard/meta min nodes 1..2000, consensus <= nodes, round 1000..6000 ms, hours 1..100, importance 0.1..10, decrease factors <= -1, penalty >= 1, max-start = needed difference x {1, 1.001, 1.99, 2, 1..1000}, 2..12 chance bands in drawn order) through NewRatingsData -> NewBlockSigningRater; rating in [min,max] biased to bounds/one step from a bound/thresholds; shard in {0,1,meta}; all Compute*/Revert results in range and in the right direction, streak k=0..41 + 1000, 10^5, 2^32-1 non-increasing, GetChance vs own band lookup; non-trivial = rating within one step of a bound or penalty > 1 (streak >= 2 always)",
		func(rt *rapid.T, c *kit.Case) {
			f, ok := verifC37FromConfig(rt, c)
			if !ok {
				return
			}
			verifC37Check(rt, c, f)
		})
}

func TestVerifC37_DirectSteps(t *testing.T) {
	kit.Run(t, "C37", kit.Budget{Quick: 12000, Thorough: 120000},
		"step values given directly inside what NewRatingsData can produce (increase steps 1..MaxInt32, decrease steps MinInt32..-1, penalty >= 1 up to MaxFloat32), min/start/max anywhere in uint32 (incl. 2^31 neighbourhood and MaxUint32); same oracle",
		func(rt *rapid.T, c *kit.Case) {
			f, ok := verifC37Direct(rt, c)
			if !ok {
				return
			}
			verifC37Check(rt, c, f)
		})
}

// Regression: the repository's production ratings.toml values (mainnet) at the bounds.
func TestVerifC37_Regress(t *testing.T) {
	kit.Silence()
	thresholds := []uint32{0, 1000000, 2000000, 3000000, 4000000, 5000000, 6000000, 7000000, 8000000, 9000000, 10000000}
	chances := []uint32{5, 0, 16, 17, 18, 19, 20, 21, 22, 23, 24}
	cfg := config.RatingsConfig{General: config.General{StartRating: 5000001, MaxRating: 10000000, MinRating: 1, SignedBlocksThreshold: 0.01}}
	for i := range thresholds {
		cfg.General.SelectionChances = append(cfg.General.SelectionChances, &config.SelectionChance{MaxThreshold: thresholds[i], ChancePercent: chances[i]})
	}
	cfg.ShardChain.RatingSteps = config.RatingSteps{HoursToMaxRatingFromStartRating: 72, ProposerValidatorImportance: 1, ProposerDecreaseFactor: -4, ValidatorDecreaseFactor: -4, ConsecutiveMissedBlocksPenalty: 1.5}
	cfg.MetaChain.RatingSteps = config.RatingSteps{HoursToMaxRatingFromStartRating: 55, ProposerValidatorImportance: 1, ProposerDecreaseFactor: -4, ValidatorDecreaseFactor: -4, ConsecutiveMissedBlocksPenalty: 1.5}
	rd, err := rating.NewRatingsData(rating.RatingsDataArg{Config: cfg, ShardConsensusSize: 63, MetaConsensusSize: 400, ShardMinNodes: 400, MetaMinNodes: 400, RoundDurationMiliseconds: 6000})
	if err != nil {
		t.Fatalf("fixture: %v", err)
	}
	bsr, err := rating.NewBlockSigningRater(rd)
	if err != nil {
		t.Fatalf("fixture: %v", err)
	}
	for _, shardID := range []uint32{0, core.MetachainShardId} {
		if v := bsr.ComputeIncreaseProposer(shardID, 10000000); v != 10000000 {
			kit.FailPlain(t, "C37", "C37:ComputeIncreaseProposer:out-of-range", "increase at max gives %d", v)
		}
		if v := bsr.ComputeDecreaseProposer(shardID, 1, 100); v != 1 {
			kit.FailPlain(t, "C37", "C37:ComputeDecreaseProposer:out-of-range", "decrease at min gives %d", v)
		}
		if v := bsr.RevertIncreaseValidator(shardID, 5000000, math.MaxUint32); v != 1 {
			kit.FailPlain(t, "C37", "C37:RevertIncreaseValidator:raises", "revert with 2^32-1 reverts gives %d", v)
		}
	}
	for i, th := range thresholds[1:] {
		if got := bsr.GetChance(th); got != chances[i+1] {
			kit.FailPlain(t, "C37", "C37:chance-band", "GetChance(%d) = %d want %d", th, got, chances[i+1])
		}
		if got := bsr.GetChance(th - 1); got != chances[i+1] {
			kit.FailPlain(t, "C37", "C37:chance-band", "GetChance(%d) = %d want %d", th-1, got, chances[i+1])
		}
	}
}
