package sync_test

// C20: Fork choice is stable and respects finality.
//  (a) stateful histories: unless a rollback was requested or consensus is stuck, CheckFork never reports a fork
//      at or below GetHighestFinalBlockNonce();
//  (b) metamorphic: the reported fork does not depend on the order in which competing headers arrive.

import (
	"bytes"
	"fmt"
	"math"
	"testing"
	"time"

	"github.com/ElrondNetwork/elrond-go/core"
	"github.com/ElrondNetwork/elrond-go/data"
	"github.com/ElrondNetwork/elrond-go/data/block"
	"github.com/ElrondNetwork/elrond-go/process"
	"github.com/ElrondNetwork/elrond-go/process/mock"
	"github.com/ElrondNetwork/elrond-go/process/sync"
	kit "github.com/ElrondNetwork/elrond-go/verifkit"
	"pgregory.net/rapid"
)

type verifC20Detector interface {
	process.ForkDetector
	LastCheckpointNonce() uint64 // export_test.go bridges (read only)
	LastCheckpointRound() uint64
}

type verifC20SelfNotarizedReceiver interface {
	ReceivedSelfNotarizedFromCrossHeaders(shardID uint32, hdrs []data.HeaderHandler, hashes [][]byte)
}

// verifC20BlackList is a plain set (the production time cache with an unlimited span)
type verifC20BlackList struct {
	mock.BlackListHandlerStub
	set map[string]struct{}
}

func verifC20NewBlackList(active bool) *verifC20BlackList {
	b := &verifC20BlackList{set: map[string]struct{}{}}
	if active {
		b.AddCalled = func(key string) error { b.set[key] = struct{}{}; return nil }
		b.HasCalled = func(key string) bool { _, ok := b.set[key]; return ok }
	}
	return b
}

type verifC20Env struct {
	meta    bool
	round   *mock.RoundHandlerMock
	genesis int64
	durSec  uint64
}

func (e *verifC20Env) kind() string {
	if e.meta {
		return "meta"
	}
	return "shard"
}

func (e *verifC20Env) newDetector(rt *rapid.T, bl process.TimeCacher) verifC20Detector {
	var fd verifC20Detector
	var err error
	if e.meta {
		fd, err = sync.NewMetaForkDetector(e.round, bl, &mock.BlockTrackerMock{}, e.genesis)
	} else {
		fd, err = sync.NewShardForkDetector(e.round, bl, &mock.BlockTrackerMock{}, e.genesis)
	}
	if err != nil {
		rt.Fatalf("fixture: fork detector: %v", err)
	}
	return fd
}

// verifC20Hdr is the harness's identity of a header: the same hash always denotes the same header.
type verifC20Hdr struct {
	nonce   uint64
	round   uint64
	epoch   uint32
	hash    []byte
	badTime bool
}

func (h *verifC20Hdr) String() string {
	return fmt.Sprintf("{n%d r%d e%d %x}", h.nonce, h.round, h.epoch, h.hash)
}

func (e *verifC20Env) build(h *verifC20Hdr) data.HeaderHandler {
	ts := uint64(e.genesis) + h.round*e.durSec
	if h.badTime {
		ts++
	}
	if e.meta {
		return &block.MetaBlock{Nonce: h.nonce, Round: h.round, Epoch: h.epoch, TimeStamp: ts, PrevHash: []byte("p")}
	}
	return &block.Header{Nonce: h.nonce, Round: h.round, Epoch: h.epoch, TimeStamp: ts, PrevHash: []byte("p")}
}

func verifC20DrawEnv(rt *rapid.T) *verifC20Env {
	e := &verifC20Env{
		meta:    rapid.Bool().Draw(rt, "meta"),
		genesis: int64(rapid.IntRange(0, 1000000).Draw(rt, "genesisTime")),
		durSec:  uint64(rapid.SampledFrom([]int{1, 4, 6}).Draw(rt, "roundSeconds")),
	}
	e.round = &mock.RoundHandlerMock{RoundIndex: 1, RoundTimeDuration: time.Duration(e.durSec) * time.Second}
	return e
}

func verifC20StateName(s process.BlockHeaderState) string {
	switch s {
	case process.BHProcessed:
		return "processed"
	case process.BHReceived:
		return "received"
	case process.BHProposed:
		return "proposed"
	case process.BHNotarized:
		return "notarized"
	}
	return fmt.Sprint(int(s))
}

// ---------------------------------------------------------------------------------------------
// (a) invariant over histories

func TestVerifC20_Invariant(t *testing.T) {
	kit.Run(t, "C20", kit.Budget{Quick: 4000, Thorough: 40000, Steps: 40},
		"stateful histories on a shard or meta fork detector: advance round (incl. jumps > 10 rounds), AddHeader processed/received/proposed for nonces around the height with up to 3 competing hashes per nonce "+
			"(rounds >= nonce, timestamps consistent with genesis, sometimes inconsistent), self-notarized lists with matching or conflicting hashes, ReceivedSelfNotarizedFromCrossHeaders, RemoveHeader, ResetFork, "+
			"ResetProbableHighestNonce, SetRollBackNonce, SetFinalToLastCheckpoint, RestoreToGenesis; CheckFork after every step; non-trivial = a history in which a fork between competing hashes is reported; distinct by the op trace",
		func(rt *rapid.T, c *kit.Case) {
			env := verifC20DrawEnv(rt)
			fd := env.newDetector(rt, verifC20NewBlackList(rapid.Bool().Draw(rt, "blacklistActive")))
			ids := map[string]*verifC20Hdr{}
			var known []*verifC20Hdr
			var pending *uint64 // rollback nonce requested and not yet reported
			trace := ""
			natural := 0

			ident := func(nonce uint64, k int) *verifC20Hdr {
				key := fmt.Sprintf("%d/%d", nonce, k)
				if h, ok := ids[key]; ok {
					return h
				}
				r := env.round.RoundIndex + int64(rapid.IntRange(-3, 2).Draw(rt, "roundOffset"))
				if r < int64(nonce) {
					r = int64(nonce)
				}
				h := &verifC20Hdr{nonce: nonce, round: uint64(r),
					hash:  []byte{byte(rapid.IntRange(0, 255).Draw(rt, "hashByte")), byte(nonce), byte(k)},
					epoch: uint32(rapid.SampledFrom([]int{0, 0, 0, 1}).Draw(rt, "epoch")),
				}
				h.badTime = rapid.IntRange(0, 19).Draw(rt, "badTime") == 0
				ids[key] = h
				known = append(known, h)
				return h
			}
			drawNonce := func() uint64 {
				lo := int(fd.GetHighestFinalBlockNonce()) - 1
				if lo < 1 {
					lo = 1
				}
				hi := int(fd.LastCheckpointNonce()) + 2
				if hi < lo {
					hi = lo
				}
				return uint64(rapid.IntRange(lo, hi).Draw(rt, "nonce"))
			}
			notarizedList := func() ([]data.HeaderHandler, [][]byte, string) {
				var hs []data.HeaderHandler
				var hashes [][]byte
				desc := ""
				n := rapid.IntRange(0, 2).Draw(rt, "selfNotarizedN")
				for i := 0; i < n && len(known) > 0; i++ {
					h := known[rapid.IntRange(0, len(known)-1).Draw(rt, "selfNotarizedIdx")]
					hash := h.hash
					if rapid.IntRange(0, 3).Draw(rt, "conflictingNotarization") == 0 {
						hash = ident(h.nonce, rapid.IntRange(0, 2).Draw(rt, "otherK")).hash
					}
					hs = append(hs, env.build(h))
					hashes = append(hashes, hash)
					desc += fmt.Sprintf("n%d:%x ", h.nonce, hash)
				}
				return hs, hashes, desc
			}
			add := func(state process.BlockHeaderState) {
				h := ident(drawNonce(), rapid.IntRange(0, 2).Draw(rt, "k"))
				var sn []data.HeaderHandler
				var snh [][]byte
				d := ""
				if state == process.BHProcessed && !env.meta {
					sn, snh, d = notarizedList()
				}
				err := fd.AddHeader(env.build(h), h.hash, state, sn, snh)
				trace += fmt.Sprintf("add(%s,%s,[%s])=%v;", verifC20StateName(state), h, d, err)
				if err != nil {
					c.Class("add-rejected")
				} else {
					c.Class("add-" + verifC20StateName(state))
				}
			}

			rt.Repeat(map[string]func(*rapid.T){
				"advanceRound": func(*rapid.T) {
					step := int64(rapid.IntRange(1, 3).Draw(rt, "roundStep"))
					if rapid.IntRange(0, 9).Draw(rt, "jump") == 0 {
						step = int64(rapid.IntRange(9, 14).Draw(rt, "roundJump"))
					}
					env.round.RoundIndex += step
					trace += fmt.Sprintf("round=%d;", env.round.RoundIndex)
				},
				"advanceRound2": func(*rapid.T) {
					env.round.RoundIndex++
					trace += fmt.Sprintf("round=%d;", env.round.RoundIndex)
				},
				"addProcessed":  func(*rapid.T) { add(process.BHProcessed) },
				"addProcessed2": func(*rapid.T) { add(process.BHProcessed) },
				"addReceived":   func(*rapid.T) { add(process.BHReceived) },
				"addReceived2":  func(*rapid.T) { add(process.BHReceived) },
				"addProposed":   func(*rapid.T) { add(process.BHProposed) },
				"selfNotarizedFromCross": func(*rapid.T) {
					r, ok := fd.(verifC20SelfNotarizedReceiver)
					if !ok {
						add(process.BHReceived) // the meta detector has no such input
						return
					}
					hs, hashes, d := notarizedList()
					shard := core.MetachainShardId
					if rapid.IntRange(0, 9).Draw(rt, "fromOtherShard") == 0 {
						shard = 0
					}
					r.ReceivedSelfNotarizedFromCrossHeaders(shard, hs, hashes)
					trace += fmt.Sprintf("notarized(%d,[%s]);", shard, d)
				},
				"removeHeader": func(*rapid.T) {
					if len(known) == 0 {
						return
					}
					h := known[rapid.IntRange(0, len(known)-1).Draw(rt, "removeIdx")]
					fd.RemoveHeader(h.nonce, h.hash)
					trace += fmt.Sprintf("remove(%s);", h)
				},
				"resetFork": func(*rapid.T) { fd.ResetFork(); trace += "resetFork;" },
				"resetProbableHighestNonce": func(*rapid.T) {
					fd.ResetProbableHighestNonce()
					trace += "resetProbable;"
				},
				"setRollBackNonce": func(*rapid.T) {
					n := uint64(rapid.IntRange(0, int(fd.LastCheckpointNonce())+1).Draw(rt, "rollBackNonce"))
					fd.SetRollBackNonce(n)
					pending = &n
					trace += fmt.Sprintf("rollback(%d);", n)
				},
				"setFinalToLastCheckpoint": func(*rapid.T) {
					if rapid.IntRange(0, 2).Draw(rt, "doSetFinal") != 0 {
						return
					}
					fd.SetFinalToLastCheckpoint()
					trace += "finalToLast;"
				},
				"restoreToGenesis": func(*rapid.T) {
					if rapid.IntRange(0, 7).Draw(rt, "doRestore") != 0 {
						return
					}
					fd.RestoreToGenesis()
					trace += "restoreToGenesis;"
				},
				"": func(*rapid.T) {
					fi := fd.CheckFork()
					final := fd.GetHighestFinalBlockNonce()
					if fi == nil {
						c.Violation("C20:"+env.kind()+":nil-fork-info", "CheckFork returned nil after %s", trace)
						return
					}
					if !fi.IsDetected {
						c.Class("check-none")
						return
					}
					switch {
					case fi.Nonce == math.MaxUint64 && fi.Hash == nil:
						// "consensus stuck" signature; necessary conditions of being stuck, evaluated by the harness
						c.Class("check-stuck")
						roundsSince := env.round.RoundIndex - int64(fd.LastCheckpointRound())
						syncing := int64(fd.ProbableHighestNonce())-int64(fd.LastCheckpointNonce()) > 0
						if roundsSince <= process.MaxRoundsWithoutCommittedBlock || syncing {
							c.Violation("C20:"+env.kind()+":stuck-signature-when-not-stuck",
								"CheckFork reported the stuck signature %d rounds after the last checkpoint (syncing=%v); trace: %s", roundsSince, syncing, trace)
						}
					case pending != nil && fi.Nonce == *pending && fi.Hash == nil:
						c.Class("check-rollback")
						if fi.Nonce <= final {
							c.Class("check-rollback-at-or-below-final")
						}
						pending = nil
					default:
						c.Class("check-fork")
						natural++
						if fi.Nonce <= final {
							c.Violation("C20:"+env.kind()+":fork-at-or-below-final",
								"%s detector reported a fork at nonce %d (round %d, hash %x) while the highest final nonce is %d, no rollback pending (pending=%v), not the stuck signature; trace: %s",
								env.kind(), fi.Nonce, fi.Round, fi.Hash, final, pending != nil, trace)
						}
						if natural == 1 {
							c.NonTrivial(env.kind() + trace)
							c.Sample("%s: fork nonce=%d round=%d hash=%x final=%d after %s", env.kind(), fi.Nonce, fi.Round, fi.Hash, final, trace)
						}
					}
				},
			})
		})
}

// ---------------------------------------------------------------------------------------------
// (b) arrival order independence

type verifC20Delivery struct {
	h         *verifC20Hdr
	notarized bool // through ReceivedSelfNotarizedFromCrossHeaders (shard detector) instead of AddHeader(received)
}

func (d verifC20Delivery) String() string {
	if d.notarized {
		return "notarized" + d.h.String()
	}
	return "received" + d.h.String()
}

func verifC20Deliver(env *verifC20Env, fd verifC20Detector, d verifC20Delivery) error {
	if d.notarized {
		fd.(verifC20SelfNotarizedReceiver).ReceivedSelfNotarizedFromCrossHeaders(core.MetachainShardId,
			[]data.HeaderHandler{env.build(d.h)}, [][]byte{d.h.hash})
		return nil
	}
	return fd.AddHeader(env.build(d.h), d.h.hash, process.BHReceived, nil, nil)
}

func TestVerifC20_OrderIndependence(t *testing.T) {
	kit.Run(t, "C20", kit.Budget{Quick: 4000, Thorough: 40000},
		"two detectors (shard or meta) get the same prefix of 1-5 processed headers (shard: a prefix of them notarized, so the final checkpoint is set), then, at a fixed round index, the same set of 2-8 competing "+
			"received headers (and, for the shard detector, notarized hashes that differ from the processed one) for nonces above the final checkpoint in two independently drawn orders; CheckFork and the final nonce must agree; "+
			"non-trivial = >= 3 competing headers with two of equal nonce and round but different hashes and a fork reported; distinct by the delivered set",
		func(rt *rapid.T, c *kit.Case) { verifC20OrderCase(rt, c, false) })
}

// Same, but the permuted set may also contain the notarization of processed headers (shard detector), so the final
// checkpoint moves while the competing headers arrive.
func TestVerifC20_OrderIndependenceFinalMoves(t *testing.T) {
	kit.Run(t, "C20", kit.Budget{Quick: 4000, Thorough: 40000},
		"as OrderIndependence on the shard detector, but the permuted set also contains notarizations of processed headers (matching hashes): the final checkpoint advances while competing headers arrive",
		func(rt *rapid.T, c *kit.Case) { verifC20OrderCase(rt, c, true) })
}

func verifC20OrderCase(rt *rapid.T, c *kit.Case, finalMoves bool) {
	{
		{
			env := verifC20DrawEnv(rt)
			if finalMoves {
				env.meta = false
			}
			suffix := ""
			if finalMoves {
				suffix = "-while-final-moves"
			}
			fds := []verifC20Detector{env.newDetector(rt, verifC20NewBlackList(false)), env.newDetector(rt, verifC20NewBlackList(false))}

			// common prefix
			k := rapid.IntRange(1, 5).Draw(rt, "prefixLen")
			var chain []*verifC20Hdr
			round := uint64(0)
			epoch := uint32(0)
			for n := 1; n <= k; n++ {
				round += uint64(rapid.IntRange(1, 3).Draw(rt, "prefixRoundStep"))
				if rapid.IntRange(0, 5).Draw(rt, "epochChange") == 0 {
					epoch++
				}
				chain = append(chain, &verifC20Hdr{nonce: uint64(n), round: round, epoch: epoch,
					hash: []byte{byte(rapid.IntRange(0, 255).Draw(rt, "prefixHash")), byte(n), 0xff}})
			}
			notarizedUpTo := 0
			if !env.meta {
				notarizedUpTo = rapid.IntRange(0, k).Draw(rt, "notarizedUpTo")
			}
			for i, h := range chain {
				env.round.RoundIndex = int64(h.round)
				var sn []data.HeaderHandler
				var snh [][]byte
				if !env.meta && i > 0 && i <= notarizedUpTo {
					// header i+1 carries the notarization of header i (as a metablock seen by the shard would)
					sn, snh = []data.HeaderHandler{env.build(chain[i-1])}, [][]byte{chain[i-1].hash}
				}
				for _, fd := range fds {
					if err := fd.AddHeader(env.build(h), h.hash, process.BHProcessed, sn, snh); err != nil {
						rt.Fatalf("fixture: prefix header %s rejected: %v", h, err)
					}
				}
			}
			if !env.meta && notarizedUpTo == k {
				for _, fd := range fds {
					fd.(verifC20SelfNotarizedReceiver).ReceivedSelfNotarizedFromCrossHeaders(core.MetachainShardId,
						[]data.HeaderHandler{env.build(chain[k-1])}, [][]byte{chain[k-1].hash})
				}
			}
			env.round.RoundIndex = int64(round) + int64(rapid.IntRange(0, 3).Draw(rt, "roundsAfterPrefix"))
			final := fds[0].GetHighestFinalBlockNonce()
			if fds[1].GetHighestFinalBlockNonce() != final {
				rt.Fatalf("fixture: detectors disagree after the identical prefix")
			}
			finalRound := uint64(0)
			if final > 0 {
				finalRound = chain[final-1].round
			}

			// competing set, all for nonces above the final checkpoint
			m := rapid.IntRange(2, 8).Draw(rt, "competing")
			var set []verifC20Delivery
			for i := 0; i < m; i++ {
				if len(set) > 0 && rapid.IntRange(0, 11).Draw(rt, "duplicate") == 0 {
					set = append(set, set[rapid.IntRange(0, len(set)-1).Draw(rt, "dupOf")])
					continue
				}
				if len(set) > 0 && !env.meta && rapid.IntRange(0, 7).Draw(rt, "otherChannel") == 0 {
					// the same header also arrives through the other channel (received from the network / notarized by meta)
					o := set[rapid.IntRange(0, len(set)-1).Draw(rt, "otherChannelOf")]
					isOwn := int(o.h.nonce) <= k && bytes.Equal(chain[o.h.nonce-1].hash, o.h.hash)
					if o.notarized || !isOwn || finalMoves {
						set = append(set, verifC20Delivery{h: o.h, notarized: !o.notarized})
						continue
					}
				}
				nonce := final + uint64(rapid.IntRange(1, int(uint64(k)-final)+2).Draw(rt, "cNonce"))
				var own *verifC20Hdr
				if int(nonce) <= k {
					own = chain[nonce-1]
				}
				h := &verifC20Hdr{nonce: nonce, epoch: uint32(rapid.IntRange(0, int(epoch)+1).Draw(rt, "cEpoch"))}
				// a received header must satisfy round - finalRound >= nonce - final and round <= index + 1
				lo := finalRound + (nonce - final)
				hi := uint64(env.round.RoundIndex) + 1
				if lo > hi {
					continue
				}
				switch {
				case own != nil && own.round >= lo && rapid.IntRange(0, 2).Draw(rt, "sameRoundAsOwn") == 0:
					h.round = own.round
				case len(set) > 0 && rapid.IntRange(0, 1).Draw(rt, "sameAsPrevious") == 0:
					// same nonce and round as an earlier competitor (equal-round ties are decided by the hash)
					p := set[rapid.IntRange(0, len(set)-1).Draw(rt, "previous")].h
					if p.round >= finalRound+(p.nonce-final) {
						nonce, h.nonce, h.round = p.nonce, p.nonce, p.round
						own = nil
						if int(nonce) <= k {
							own = chain[nonce-1]
						}
					} else {
						h.round = uint64(rapid.IntRange(int(lo), int(hi)).Draw(rt, "cRound"))
					}
				default:
					h.round = uint64(rapid.IntRange(int(lo), int(hi)).Draw(rt, "cRound"))
				}
				h.hash = []byte{byte(rapid.IntRange(0, 255).Draw(rt, "cHash")), byte(nonce), byte(rapid.IntRange(0, 3).Draw(rt, "cK"))}
				d := verifC20Delivery{h: h}
				sameAsOwn := 7
				if finalMoves {
					sameAsOwn = 2
				}
				if own != nil && rapid.IntRange(0, sameAsOwn).Draw(rt, "sameHashAsOwn") == 0 {
					*h = *own // the processed header also arrives from the network
				}
				if !env.meta && rapid.IntRange(0, 4).Draw(rt, "asNotarized") == 0 {
					// a notarized hash equal to the processed one would move the final checkpoint: excluded (see assumptions)
					if own == nil || !bytes.Equal(own.hash, h.hash) || finalMoves {
						d.notarized = true
					}
				}
				// the same hash always denotes the same header
				for _, o := range set {
					if bytes.Equal(o.h.hash, h.hash) {
						d.h = o.h
					}
				}
				set = append(set, d)
			}
			if len(set) < 2 {
				c.Class("small-set")
				return
			}
			p1 := rapid.Permutation(verifC20Iota(len(set))).Draw(rt, "order1")
			p2 := rapid.Permutation(verifC20Iota(len(set))).Draw(rt, "order2")
			desc := [2]string{}
			for i, p := range [][]int{p1, p2} {
				for _, j := range p {
					err := verifC20Deliver(env, fds[i], set[j])
					desc[i] += fmt.Sprintf("%s=%v; ", set[j], err)
					if err != nil && i == 0 {
						c.Class("delivery-rejected")
					}
				}
			}
			f1, f2 := fds[0].CheckFork(), fds[1].CheckFork()
			n1, n2 := fds[0].GetHighestFinalBlockNonce(), fds[1].GetHighestFinalBlockNonce()
			prefix := ""
			for _, h := range chain {
				prefix += h.String()
			}
			ctx := fmt.Sprintf("%s detector, prefix %s notarizedUpTo=%d roundIndex=%d final=%d\n order 1: %s\n order 2: %s", env.kind(), prefix, notarizedUpTo, env.round.RoundIndex, final, desc[0], desc[1])
			if n1 != n2 {
				c.Violation("C20:"+env.kind()+":final-nonce-depends-on-order"+suffix, "final nonce %d vs %d; %s", n1, n2, ctx)
			}
			if n1 != final {
				c.Class("final-moved")
			}
			if f1.IsDetected != f2.IsDetected || f1.Nonce != f2.Nonce || f1.Round != f2.Round || !bytes.Equal(f1.Hash, f2.Hash) {
				c.Violation("C20:"+env.kind()+":fork-depends-on-order"+suffix,
					"fork info {detected %v nonce %d round %d hash %x} vs {detected %v nonce %d round %d hash %x}; %s",
					f1.IsDetected, f1.Nonce, f1.Round, f1.Hash, f2.IsDetected, f2.Nonce, f2.Round, f2.Hash, ctx)
			}
			if f1.IsDetected {
				c.Class("fork-detected")
			} else {
				c.Class("no-fork")
			}
			same := false
			for i := range set {
				for j := range set {
					if i != j && set[i].h.nonce == set[j].h.nonce && set[i].h.round == set[j].h.round && !bytes.Equal(set[i].h.hash, set[j].h.hash) {
						same = true
					}
				}
			}
			if len(set) >= 3 && same && f1.IsDetected && !bytes.Equal(verifC20Key(p1), verifC20Key(p2)) {
				c.NonTrivial(ctx)
				c.Sample("%s -> fork nonce=%d round=%d hash=%x", ctx, f1.Nonce, f1.Round, f1.Hash)
			}
		}
	}
}

func verifC20Iota(n int) []int {
	r := make([]int, n)
	for i := range r {
		r[i] = i
	}
	return r
}

func verifC20Key(p []int) []byte {
	b := make([]byte, len(p))
	for i, v := range p {
		b[i] = byte(v)
	}
	return b
}

// ---------------------------------------------------------------------------------------------
// regression examples (run in every tier)

func TestVerifC20_Regress(t *testing.T) {
	kit.Silence()
	// two received headers of equal nonce and round, different hashes, both older than the processed one: whichever arrives first,
	// the lower hash must be reported
	for _, meta := range []bool{false, true} {
		var got [2]*process.ForkInfo
		for o := 0; o < 2; o++ {
			env := &verifC20Env{meta: meta, genesis: 100, durSec: 4}
			env.round = &mock.RoundHandlerMock{RoundIndex: 3, RoundTimeDuration: 4 * time.Second}
			var fd verifC20Detector
			var err error
			if meta {
				fd, err = sync.NewMetaForkDetector(env.round, &mock.BlackListHandlerStub{}, &mock.BlockTrackerMock{}, env.genesis)
			} else {
				fd, err = sync.NewShardForkDetector(env.round, &mock.BlackListHandlerStub{}, &mock.BlockTrackerMock{}, env.genesis)
			}
			if err != nil {
				t.Fatalf("fixture: %v", err)
			}
			own := &verifC20Hdr{nonce: 1, round: 3, hash: []byte{9}}
			a := &verifC20Hdr{nonce: 1, round: 2, hash: []byte{1}}
			b := &verifC20Hdr{nonce: 1, round: 2, hash: []byte{2}}
			if err = fd.AddHeader(env.build(own), own.hash, process.BHProcessed, nil, nil); err != nil {
				t.Fatalf("fixture: %v", err)
			}
			order := []*verifC20Hdr{a, b}
			if o == 1 {
				order = []*verifC20Hdr{b, a}
			}
			for _, h := range order {
				if err = fd.AddHeader(env.build(h), h.hash, process.BHReceived, nil, nil); err != nil {
					t.Fatalf("fixture: %v", err)
				}
			}
			got[o] = fd.CheckFork()
			if got[o].IsDetected && got[o].Nonce <= fd.GetHighestFinalBlockNonce() {
				kit.FailPlain(t, "C20", "C20:regress:fork-at-or-below-final", "fork at nonce %d, final %d", got[o].Nonce, fd.GetHighestFinalBlockNonce())
			}
		}
		if got[0].IsDetected != got[1].IsDetected || got[0].Nonce != got[1].Nonce || !bytes.Equal(got[0].Hash, got[1].Hash) || got[0].Round != got[1].Round {
			kit.FailPlain(t, "C20", "C20:regress:fork-depends-on-order", "meta=%v: %+v vs %+v", meta, *got[0], *got[1])
		}
	}
}
