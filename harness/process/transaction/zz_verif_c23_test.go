package transaction_test

import (
	"errors"
	"fmt"
	"math"
	"math/big"
	"strings"
	"testing"

	"github.com/ElrondNetwork/elrond-go/config"
	"github.com/ElrondNetwork/elrond-go/core"
	"github.com/ElrondNetwork/elrond-go/core/pubkeyConverter"
	"github.com/ElrondNetwork/elrond-go/data"
	"github.com/ElrondNetwork/elrond-go/data/state"
	"github.com/ElrondNetwork/elrond-go/data/state/factory"
	"github.com/ElrondNetwork/elrond-go/data/state/storagePruningManager/disabled"
	dataTx "github.com/ElrondNetwork/elrond-go/data/transaction"
	"github.com/ElrondNetwork/elrond-go/data/trie"
	"github.com/ElrondNetwork/elrond-go/hashing/blake2b"
	"github.com/ElrondNetwork/elrond-go/marshal"
	"github.com/ElrondNetwork/elrond-go/process"
	"github.com/ElrondNetwork/elrond-go/process/block/postprocess"
	"github.com/ElrondNetwork/elrond-go/process/coordinator"
	"github.com/ElrondNetwork/elrond-go/process/economics"
	"github.com/ElrondNetwork/elrond-go/process/mock"
	"github.com/ElrondNetwork/elrond-go/process/smartContract"
	txproc "github.com/ElrondNetwork/elrond-go/process/transaction"
	"github.com/ElrondNetwork/elrond-go/sharding"
	"github.com/ElrondNetwork/elrond-go/storage/memorydb"
	"github.com/ElrondNetwork/elrond-go/testscommon"
	kit "github.com/ElrondNetwork/elrond-go/verifkit"
	"github.com/ElrondNetwork/elrond-vm-common/parsers"
	"pgregory.net/rapid"
)

// C23: Move-balance transactions conserve value and advance the nonce once.
//
// Real txProcessor + real AccountsDB (in-memory trie) + real economicsData + real txTypeHandler +
// real fee accumulator + real one-shard coordinator. Only the smart-contract processor (never reached
// by a transfer between user accounts except IsPayable) and the three forwarders are test doubles.

// verifC23Notifier plays the epoch notifier: every registered component gets the same confirmed epoch,
// as in a node where all of them hang on the one notifier.
type verifC23Notifier struct {
	handlers []core.EpochSubscriberHandler
	epoch    uint32
}

func (n *verifC23Notifier) RegisterNotifyHandler(h core.EpochSubscriberHandler) {
	n.handlers = append(n.handlers, h)
	h.EpochConfirmed(n.epoch, 0)
}
func (n *verifC23Notifier) CurrentEpoch() uint32            { return n.epoch }
func (n *verifC23Notifier) CheckEpoch(_ data.HeaderHandler) {}
func (n *verifC23Notifier) IsInterfaceNil() bool            { return n == nil }
func (n *verifC23Notifier) confirm(e uint32) {
	n.epoch = e
	for _, h := range n.handlers {
		h.EpochConfirmed(e, 0)
	}
}

type verifC23Cfg struct {
	minGasPrice, minGasLimit, gasPerByte, maxGasPerBlock uint64
	modifier                                             float64
	penalizeEpoch, modifierEpoch, metaProtEpoch          uint32
	epoch                                                uint32
	supply                                               *big.Int
}

func (g verifC23Cfg) String() string {
	return fmt.Sprintf("minGasPrice=%d minGasLimit=%d gasPerDataByte=%d maxGasPerBlock=%d modifier=%g penalizeEpoch=%d modifierEpoch=%d metaProtEpoch=%d epoch=%d",
		g.minGasPrice, g.minGasLimit, g.gasPerByte, g.maxGasPerBlock, g.modifier, g.penalizeEpoch, g.modifierEpoch, g.metaProtEpoch, g.epoch)
}

type verifC23Fixture struct {
	cfg      verifC23Cfg
	adb      *state.AccountsDB
	txp      process.TransactionProcessor
	fees     process.TransactionFeeHandler
	econ     process.FeeHandler // the fee handler the processor itself asks: "the fee" of the statement (its formulas are C21's subject)
	notifier *verifC23Notifier
	receipts *mock.IntermediateTransactionHandlerMock
	badTxs   *mock.IntermediateTransactionHandlerMock
	scrs     *mock.IntermediateTransactionHandlerMock
}

func verifC23PickU64(rt *rapid.T, label string, lo, hi uint64, fixed ...uint64) uint64 {
	k := rapid.IntRange(0, len(fixed)).Draw(rt, label+"Kind")
	if k < len(fixed) {
		return fixed[k]
	}
	return rapid.Uint64Range(lo, hi).Draw(rt, label)
}

func verifC23GenCfg(rt *rapid.T) verifC23Cfg {
	g := verifC23Cfg{}
	g.minGasPrice = verifC23PickU64(rt, "minGasPrice", 1000, 1000000000000, 1000, 1000000000, 1000000000000)
	g.minGasLimit = verifC23PickU64(rt, "minGasLimit", 1, 1000000, 1, 50000, 1000000)
	g.gasPerByte = verifC23PickU64(rt, "gasPerDataByte", 1, 10000, 1, 1500, 10000)
	lo := g.minGasLimit * 10
	if need := g.minGasLimit + 64*g.gasPerByte + 16; lo < need {
		lo = need // a transfer with a short memo must be able to fit into a block
	}
	g.maxGasPerBlock = verifC23PickU64(rt, "maxGasPerBlock", lo, 15000000000, lo, 1500000000, 15000000000)
	switch rapid.IntRange(0, 3).Draw(rt, "modifierKind") {
	case 0:
		g.modifier = 1
	case 1:
		g.modifier = 0.5
	case 2:
		g.modifier = 0.01
	default:
		g.modifier = float64(rapid.IntRange(1, 1000).Draw(rt, "modifierMilli")) / 1000
	}
	epochs := []uint32{0, 2, 5}
	g.penalizeEpoch = rapid.SampledFrom(epochs).Draw(rt, "penalizeEpoch")
	g.modifierEpoch = rapid.SampledFrom(epochs).Draw(rt, "modifierEpoch")
	g.metaProtEpoch = rapid.SampledFrom(epochs).Draw(rt, "metaProtEpoch")
	g.epoch = uint32(rapid.IntRange(0, 6).Draw(rt, "epoch"))
	g.supply, _ = big.NewInt(0).SetString("20000000000000000000000000", 10) // 2*10^25
	return g
}

func verifC23BuiltInNames() map[string]struct{} {
	names := []string{
		core.BuiltInFunctionClaimDeveloperRewards, core.BuiltInFunctionChangeOwnerAddress, core.BuiltInFunctionSetUserName,
		core.BuiltInFunctionSaveKeyValue, core.BuiltInFunctionESDTTransfer, core.BuiltInFunctionESDTBurn,
		core.BuiltInFunctionESDTFreeze, core.BuiltInFunctionESDTUnFreeze, core.BuiltInFunctionESDTWipe,
		core.BuiltInFunctionESDTPause, core.BuiltInFunctionESDTUnPause, core.BuiltInFunctionSetESDTRole,
		core.BuiltInFunctionUnSetESDTRole, core.BuiltInFunctionESDTLocalMint, core.BuiltInFunctionESDTLocalBurn,
		core.BuiltInFunctionESDTNFTTransfer, core.BuiltInFunctionESDTNFTCreate, core.BuiltInFunctionESDTNFTAddQuantity,
		core.BuiltInFunctionESDTNFTCreateRoleTransfer, core.BuiltInFunctionESDTNFTBurn,
	}
	m := make(map[string]struct{}, len(names))
	for _, n := range names {
		m[n] = struct{}{}
	}
	return m
}

type verifC23Fataler interface {
	Fatalf(format string, args ...interface{})
}

// verifC23Reporter is what the per-transaction oracle needs: *kit.Case in the generated check, a FailPlain adapter in
// the regression table.
type verifC23Reporter interface {
	Violation(key string, format string, args ...interface{})
	NoPanic(key string, f func())
}

type verifC23Plain struct{ t *testing.T }

func (p verifC23Plain) Violation(key string, format string, args ...interface{}) {
	p.t.Helper()
	kit.FailPlain(p.t, "C23", key, format, args...)
}

func (p verifC23Plain) NoPanic(key string, f func()) {
	defer func() {
		if r := recover(); r != nil {
			kit.FailPlain(p.t, "C23", key, "panic: %v", r)
		}
	}()
	f()
}

func verifC23NewFixture(t verifC23Fataler, g verifC23Cfg) *verifC23Fixture {
	marsh := &marshal.GogoProtoMarshalizer{}
	hasher := blake2b.NewBlake2b()
	tsm, err := trie.NewTrieStorageManagerWithoutPruning(memorydb.New())
	if err != nil {
		t.Fatalf("fixture: storage manager: %v", err)
	}
	tr, err := trie.NewTrie(tsm, marsh, hasher, 5)
	if err != nil {
		t.Fatalf("fixture: trie: %v", err)
	}
	adb, err := state.NewAccountsDB(tr, hasher, marsh, factory.NewAccountCreator(), disabled.NewDisabledStoragePruningManager())
	if err != nil {
		t.Fatalf("fixture: accountsDB: %v", err)
	}
	notifier := &verifC23Notifier{epoch: g.epoch}
	econ, err := economics.NewEconomicsData(economics.ArgsNewEconomicsData{
		BuiltInFunctionsCostHandler: &mock.BuiltInCostHandlerStub{},
		Economics: &config.EconomicsConfig{
			GlobalSettings: config.GlobalSettings{
				GenesisTotalSupply: g.supply.String(),
				MinimumInflation:   0,
				YearSettings:       []*config.YearSetting{{Year: 0, MaximumInflation: 0.01}},
			},
			RewardsSettings: config.RewardsSettings{RewardsConfigByEpoch: []config.EpochRewardSettings{{
				LeaderPercentage: 0.1, DeveloperPercentage: 0.1, ProtocolSustainabilityPercentage: 0.1,
				ProtocolSustainabilityAddress: "erd1932eft30w753xyvme8d49qejgkjc09n5e49w4mwdjtm0neld797su0dlxp",
				TopUpGradientPoint:            "300000000000000000000", TopUpFactor: 0.25, EpochEnable: 0,
			}}},
			FeeSettings: config.FeeSettings{
				MaxGasLimitPerBlock:     fmt.Sprint(g.maxGasPerBlock),
				MaxGasLimitPerMetaBlock: fmt.Sprint(g.maxGasPerBlock),
				MinGasPrice:             fmt.Sprint(g.minGasPrice),
				MinGasLimit:             fmt.Sprint(g.minGasLimit),
				GasPerDataByte:          fmt.Sprint(g.gasPerByte),
				GasPriceModifier:        g.modifier,
			},
		},
		EpochNotifier:                  notifier,
		PenalizedTooMuchGasEnableEpoch: g.penalizeEpoch,
		GasPriceModifierEnableEpoch:    g.modifierEpoch,
	})
	if err != nil {
		t.Fatalf("fixture: economics (%v): %v", g, err)
	}
	pkc, err := pubkeyConverter.NewBech32PubkeyConverter(32)
	if err != nil {
		t.Fatalf("fixture: converter: %v", err)
	}
	sc, err := sharding.NewMultiShardCoordinator(1, 0)
	if err != nil {
		t.Fatalf("fixture: coordinator: %v", err)
	}
	tth, err := coordinator.NewTxTypeHandler(coordinator.ArgNewTxTypeHandler{
		PubkeyConverter:  pkc,
		ShardCoordinator: sc,
		BuiltInFuncNames: verifC23BuiltInNames(),
		ArgumentParser:   parsers.NewCallArgsParser(),
		EpochNotifier:    notifier,
	})
	if err != nil {
		t.Fatalf("fixture: tx type handler: %v", err)
	}
	fees, err := postprocess.NewFeeAccumulator()
	if err != nil {
		t.Fatalf("fixture: fee accumulator: %v", err)
	}
	f := &verifC23Fixture{cfg: g, adb: adb, fees: fees, econ: econ, notifier: notifier,
		receipts: &mock.IntermediateTransactionHandlerMock{},
		badTxs:   &mock.IntermediateTransactionHandlerMock{},
		scrs:     &mock.IntermediateTransactionHandlerMock{},
	}
	txp, err := txproc.NewTxProcessor(txproc.ArgsNewTxProcessor{
		Accounts:         adb,
		Hasher:           hasher,
		PubkeyConv:       pkc,
		Marshalizer:      marsh,
		SignMarshalizer:  &marshal.JsonMarshalizer{},
		ShardCoordinator: sc,
		ScProcessor: &testscommon.SCProcessorMock{
			IsPayableCalled: func(_ []byte) (bool, error) { return true, nil }, // user accounts are always payable
		},
		TxFeeHandler:                   fees,
		TxTypeHandler:                  tth,
		EconomicsFee:                   econ,
		ReceiptForwarder:               f.receipts,
		BadTxForwarder:                 f.badTxs,
		ArgsParser:                     smartContract.NewArgumentParser(),
		ScrForwarder:                   f.scrs,
		RelayedTxEnableEpoch:           g.metaProtEpoch,
		RelayedTxV2EnableEpoch:         g.metaProtEpoch,
		PenalizedTooMuchGasEnableEpoch: g.penalizeEpoch, // one config value feeds both components in a node
		MetaProtectionEnableEpoch:      g.metaProtEpoch,
		EpochNotifier:                  notifier,
	})
	if err != nil {
		t.Fatalf("fixture: tx processor: %v", err)
	}
	f.txp = txp
	return f
}

type verifC23Acc struct {
	bal   *big.Int
	nonce uint64
}

func (f *verifC23Fixture) read(t verifC23Fataler, addr []byte) verifC23Acc {
	a, err := f.adb.LoadAccount(addr)
	if err != nil {
		t.Fatalf("fixture: LoadAccount: %v", err)
	}
	ua, ok := a.(state.UserAccountHandler)
	if !ok {
		t.Fatalf("fixture: not a user account")
	}
	return verifC23Acc{bal: ua.GetBalance(), nonce: ua.GetNonce()}
}

func (f *verifC23Fixture) readAll(t verifC23Fataler, addrs [][]byte) []verifC23Acc {
	r := make([]verifC23Acc, len(addrs))
	for i, a := range addrs {
		r[i] = f.read(t, a)
	}
	return r
}

func (f *verifC23Fixture) create(t verifC23Fataler, addr []byte, bal *big.Int, nonce uint64, userName ...string) {
	a, err := f.adb.LoadAccount(addr)
	if err != nil {
		t.Fatalf("fixture: LoadAccount: %v", err)
	}
	ua := a.(state.UserAccountHandler)
	ua.IncreaseNonce(nonce)
	if len(userName) > 0 && userName[0] != "" {
		ua.SetUserName([]byte(userName[0]))
	}
	if err = ua.AddToBalance(bal); err != nil {
		t.Fatalf("fixture: AddToBalance: %v", err)
	}
	if err = f.adb.SaveAccount(ua); err != nil {
		t.Fatalf("fixture: SaveAccount: %v", err)
	}
}

// setBalance puts an account on a chosen balance (fixture action: the account "has" that balance, as after genesis or
// earlier incoming transfers); returns the change so that the conservation baseline can follow.
func (f *verifC23Fixture) setBalance(t verifC23Fataler, addr []byte, target *big.Int) *big.Int {
	a, err := f.adb.LoadAccount(addr)
	if err != nil {
		t.Fatalf("fixture: LoadAccount: %v", err)
	}
	ua := a.(state.UserAccountHandler)
	d := big.NewInt(0).Sub(target, ua.GetBalance())
	if d.Sign() >= 0 {
		err = ua.AddToBalance(d)
	} else {
		err = ua.SubFromBalance(big.NewInt(0).Neg(d))
	}
	if err != nil {
		t.Fatalf("fixture: set balance (%s): %v", d, err)
	}
	if err = f.adb.SaveAccount(ua); err != nil {
		t.Fatalf("fixture: SaveAccount: %v", err)
	}
	return d
}

func verifC23Mul(a, b uint64) *big.Int {
	return big.NewInt(0).Mul(big.NewInt(0).SetUint64(a), big.NewInt(0).SetUint64(b))
}

// verifC23MoveFee: the fee of a plain transfer as the protocol documents it, computed from the configuration
// numbers only: (minGasLimit + len(data)*gasPerDataByte) * gasPrice.
func (g verifC23Cfg) moveGas(dataLen int) uint64 { return g.minGasLimit + uint64(dataLen)*g.gasPerByte }

type verifC23Tx struct {
	snd, rcv           int
	nonce              uint64
	value              *big.Int
	gasPrice, gasLimit uint64
	data               string
	sndUser, rcvUser   string // only the user-name extension sets these
}

func (x verifC23Tx) String() string {
	u := ""
	if x.sndUser != "" || x.rcvUser != "" {
		u = fmt.Sprintf(" sndUserName=%q rcvUserName=%q", x.sndUser, x.rcvUser)
	}
	return fmt.Sprintf("{snd=%d rcv=%d nonce=%d value=%s gasPrice=%d gasLimit=%d data=%q%s}", x.snd, x.rcv, x.nonce, x.value, x.gasPrice, x.gasLimit, x.data, u)
}

func verifC23Addr(i int, salt byte) []byte {
	a := make([]byte, 32)
	a[0] = byte(0x10 + i) // never a smart-contract address (those start with 8 zero bytes), never the metachain pattern
	for j := 1; j < 32; j++ {
		a[j] = salt + byte(j*7) + byte(i)
	}
	return a
}

func verifC23ClampNonNeg(v *big.Int) *big.Int {
	if v.Sign() < 0 {
		return big.NewInt(0)
	}
	return v
}

func verifC23GenTx(rt *rapid.T, g verifC23Cfg, cur []verifC23Acc) verifC23Tx {
	n := len(cur)
	x := verifC23Tx{}
	x.snd = rapid.IntRange(0, n-1).Draw(rt, "snd")
	if rapid.IntRange(0, 9).Draw(rt, "sndAny") < 9 {
		// mostly a sender that can pay at least the cheapest fee (construction over rejection)
		cheapest := verifC23Mul(g.minGasLimit, g.minGasPrice)
		for k := 0; k < n; k++ {
			if cur[(x.snd+k)%n].bal.Cmp(cheapest) >= 0 {
				x.snd = (x.snd + k) % n
				break
			}
		}
	}
	if rapid.IntRange(0, 4).Draw(rt, "self") == 4 {
		x.rcv = x.snd
	} else {
		x.rcv = rapid.IntRange(0, n-1).Draw(rt, "rcv")
	}
	an := cur[x.snd].nonce
	switch rapid.IntRange(0, 24).Draw(rt, "nonceKind") { // rapid favours small numbers: the usual case sits at 0
	case 22:
		if an > 0 {
			x.nonce = an - 1
		} else {
			x.nonce = an + 1
		}
	case 23:
		x.nonce = an + 1
	case 24:
		x.nonce = an + 5
	default:
		x.nonce = an
	}
	if rapid.IntRange(0, 9).Draw(rt, "hasData") > 6 {
		l := rapid.IntRange(1, 24).Draw(rt, "memoLen")
		x.data = strings.Repeat("memo no. 7 ", 3)[:l] // free text: not a function call, not a built-in, not relayed
	}
	switch rapid.IntRange(0, 39).Draw(rt, "gasPriceKind") {
	case 39:
		x.gasPrice = g.minGasPrice - 1
	case 1, 2, 3, 6, 7, 8:
		x.gasPrice = 3 * g.minGasPrice
	case 4, 9, 10:
		x.gasPrice = rapid.Uint64Range(g.minGasPrice, 1000*g.minGasPrice).Draw(rt, "gasPrice")
	case 38:
		x.gasPrice = math.MaxUint64 - uint64(rapid.IntRange(0, 2).Draw(rt, "hugePriceDelta"))
	default:
		x.gasPrice = g.minGasPrice
	}
	req := g.moveGas(len(x.data))
	switch rapid.IntRange(0, 39).Draw(rt, "gasLimitKind") {
	case 39:
		x.gasLimit = req - 1
	case 1, 2, 3, 9, 10, 11:
		x.gasLimit = 2 * req
	case 4, 5, 12, 13:
		x.gasLimit = req + rapid.Uint64Range(1, 1000).Draw(rt, "gasExtra")
	case 6, 14:
		x.gasLimit = g.maxGasPerBlock - 1
	case 38:
		x.gasLimit = g.maxGasPerBlock
	case 37:
		x.gasLimit = math.MaxUint64
	default:
		x.gasLimit = req
	}
	bal := cur[x.snd].bal
	feeRef := verifC23Mul(req, x.gasPrice)
	if rapid.Bool().Draw(rt, "feeRefFull") {
		feeRef = verifC23Mul(x.gasLimit, x.gasPrice)
	}
	room := big.NewInt(0).Sub(bal, feeRef) // what is left for the value
	switch rapid.IntRange(0, 15).Draw(rt, "valueKind") {
	case 0:
		x.value = big.NewInt(0)
	case 1:
		x.value = big.NewInt(1)
	case 2, 3:
		x.value = big.NewInt(int64(rapid.IntRange(2, 1000000).Draw(rt, "smallValue")))
	case 4, 5:
		x.value = verifC23ClampNonNeg(room)
	case 6, 7:
		x.value = verifC23ClampNonNeg(big.NewInt(0).Add(room, big.NewInt(1)))
	case 8:
		x.value = verifC23ClampNonNeg(big.NewInt(0).Sub(room, big.NewInt(1)))
	case 9:
		x.value = big.NewInt(0).Set(bal)
	case 10:
		x.value = big.NewInt(0).Add(bal, big.NewInt(1))
	case 11:
		switch rapid.IntRange(0, 2).Draw(rt, "supplyKind") {
		case 0:
			x.value = big.NewInt(0).Set(g.supply)
		case 1:
			x.value = big.NewInt(0).Add(g.supply, big.NewInt(1))
		default:
			x.value = big.NewInt(0).Lsh(big.NewInt(1), 100)
		}
	default:
		// a fraction of what is left
		x.value = verifC23ClampNonNeg(big.NewInt(0).Div(verifC23ClampNonNeg(room), big.NewInt(int64(rapid.IntRange(2, 50).Draw(rt, "fraction")))))
	}
	return x
}

func verifC23GenBalance(rt *rapid.T, g verifC23Cfg) *big.Int {
	base := verifC23Mul(g.minGasLimit, g.minGasPrice) // fee of the cheapest transfer
	switch rapid.IntRange(0, 9).Draw(rt, "balKind") {
	case 9:
		return big.NewInt(0)
	case 8:
		return big.NewInt(0).Sub(base, big.NewInt(1))
	case 7:
		return base
	case 3:
		return big.NewInt(0).Add(base, big.NewInt(int64(rapid.IntRange(0, 1000).Draw(rt, "balPlus"))))
	case 4, 5:
		return big.NewInt(0).Mul(base, big.NewInt(int64(rapid.IntRange(2, 40).Draw(rt, "balFees"))))
	case 6:
		return big.NewInt(0).Div(g.supply, big.NewInt(5))
	default:
		v := big.NewInt(0).Mul(base, big.NewInt(int64(rapid.IntRange(2, 400).Draw(rt, "balFees2"))))
		return v.Add(v, big.NewInt(int64(rapid.IntRange(0, 1000000).Draw(rt, "balPlus2"))))
	}
}

func verifC23BuildTx(addrs [][]byte, x verifC23Tx) *dataTx.Transaction {
	tx := &dataTx.Transaction{
		Nonce: x.nonce, Value: big.NewInt(0).Set(x.value), SndAddr: addrs[x.snd], RcvAddr: addrs[x.rcv],
		GasPrice: x.gasPrice, GasLimit: x.gasLimit, Data: []byte(x.data), ChainID: []byte("1"), Version: 1,
	}
	if len(x.data) == 0 {
		tx.Data = nil
	}
	return tx
}

// verifC23Fund puts the sender on a balance at (or inside) one of the decision boundaries of the drawn transaction:
// move fee, the fee in force, gasLimit*gasPrice, each alone and plus the value, one below each, and the middle of the
// two windows [move fee, gasLimit*gasPrice) and [fee, fee+value). Returns the balance change (nil: nothing done).
func verifC23Fund(rt *rapid.T, f *verifC23Fixture, addrs [][]byte, x verifC23Tx) (*big.Int, *big.Int) {
	g := f.cfg
	move := verifC23Mul(g.moveGas(len(x.data)), x.gasPrice)
	capFee := verifC23Mul(x.gasLimit, x.gasPrice)
	fee := f.econ.ComputeTxFee(verifC23BuildTx(addrs, x))
	add := func(a, b *big.Int) *big.Int { return big.NewInt(0).Add(a, b) }
	one := big.NewInt(1)
	minus1 := func(a *big.Int) *big.Int { return big.NewInt(0).Sub(a, one) }
	mid := func(a, b *big.Int) *big.Int { return big.NewInt(0).Rsh(add(a, b), 1) }
	targets := []*big.Int{
		mid(fee, add(fee, x.value)), mid(move, capFee),
		fee, minus1(add(fee, x.value)), add(fee, x.value), minus1(fee),
		move, minus1(capFee), capFee, minus1(move),
		minus1(add(capFee, x.value)), add(capFee, x.value), minus1(add(move, x.value)), add(move, x.value),
	}
	target := targets[rapid.IntRange(0, len(targets)-1).Draw(rt, "fundTarget")]
	if target.Sign() < 0 {
		target = big.NewInt(0)
	}
	if target.Cmp(g.supply) > 0 {
		return nil, nil // nobody holds more than the supply
	}
	return f.setBalance(rt, addrs[x.snd], target), target
}

const (
	verifC23Success = iota
	verifC23Failed
	verifC23Rejected
)

// verifC23Step processes one transaction with the caller protocol of the transactions pre-processor and judges
// the observable effect. Returns the outcome kind and the fee that reached the fee collector.
func verifC23Step(rt verifC23Fataler, c verifC23Reporter, f *verifC23Fixture, addrs [][]byte, names []string, x verifC23Tx, hist string) (int, error) {
	g := f.cfg
	pre := f.readAll(rt, addrs)
	fees0 := f.fees.GetAccumulatedFees()
	tx := verifC23BuildTx(addrs, x)
	// user-name extension (names != nil): the transaction may name the sender/receiver; a name that is not the account's
	// is the deliberate "user name does not match" failure, which charges the fee like an insufficient-funds failure.
	userMismatch := false
	if names != nil {
		if x.sndUser != "" {
			tx.SndUserName = []byte(x.sndUser)
			userMismatch = userMismatch || x.sndUser != names[x.snd]
		}
		if x.rcvUser != "" {
			tx.RcvUserName = []byte(x.rcvUser)
			userMismatch = userMismatch || x.rcvUser != names[x.rcv]
		}
	}
	// the fee this transaction authorises under the flags in force, as the fee handler states it
	var authFee *big.Int
	c.NoPanic("C23:fee-panic", func() { authFee = f.econ.ComputeTxFee(tx) })
	snapshot := f.adb.JournalLen()
	var err error
	c.NoPanic("C23:process-panic", func() { _, err = f.txp.ProcessTransaction(tx) })
	if err != nil && !errors.Is(err, process.ErrFailedTransaction) {
		if rerr := f.adb.RevertToSnapshot(snapshot); rerr != nil {
			c.Violation("C23:revert-error", "RevertToSnapshot after %v: %v; tx %v; %s", err, rerr, x, hist)
		}
	}
	post := f.readAll(rt, addrs)
	F := big.NewInt(0).Sub(f.fees.GetAccumulatedFees(), fees0)

	moveFee := verifC23Mul(g.moveGas(len(x.data)), x.gasPrice)
	capFee := verifC23Mul(x.gasLimit, x.gasPrice)
	ctx := func() string {
		return fmt.Sprintf("tx %v err=%v collectedFee=%s moveFee=%s gasLimit*gasPrice=%s\n before %v\n after  %v\n config %v epoch=%d\n %s",
			x, err, F, moveFee, capFee, verifC23Fmt(pre), verifC23Fmt(post), g, f.notifier.epoch, hist)
	}
	delta := func(i int) *big.Int { return big.NewInt(0).Sub(post[i].bal, pre[i].bal) }
	othersUnchanged := func(key string) {
		for i := range addrs {
			if i == x.snd || i == x.rcv {
				continue
			}
			if delta(i).Sign() != 0 || post[i].nonce != pre[i].nonce {
				c.Violation(key, "account %d is neither sender nor receiver but changed; %s", i, ctx())
			}
		}
	}
	kind := verifC23Rejected
	switch {
	case err == nil:
		kind = verifC23Success
		if F.Cmp(moveFee) < 0 || F.Cmp(capFee) > 0 {
			c.Violation("C23:success-fee-out-of-bounds", "collected fee outside [move fee, gasLimit*gasPrice]; %s", ctx())
		}
		wantSnd := big.NewInt(0).Neg(F)
		if x.snd != x.rcv {
			wantSnd.Sub(wantSnd, x.value)
			if delta(x.rcv).Cmp(x.value) != 0 {
				c.Violation("C23:success-receiver-delta", "receiver balance changed by %s, want +%s; %s", delta(x.rcv), x.value, ctx())
			}
			if post[x.rcv].nonce != pre[x.rcv].nonce {
				c.Violation("C23:success-receiver-nonce", "receiver nonce changed; %s", ctx())
			}
		}
		if delta(x.snd).Cmp(wantSnd) != 0 {
			c.Violation("C23:success-sender-delta", "sender balance changed by %s, want %s (value plus collected fee); %s", delta(x.snd), wantSnd, ctx())
		}
		if post[x.snd].nonce != pre[x.snd].nonce+1 {
			c.Violation("C23:success-nonce", "sender nonce %d -> %d, want +1; %s", pre[x.snd].nonce, post[x.snd].nonce, ctx())
		}
		othersUnchanged("C23:success-third-party")
	case errors.Is(err, process.ErrFailedTransaction):
		kind = verifC23Failed
		// the only failure a transfer between user accounts has is "insufficient funds": the balance covers the fee
		// but not fee plus value. Whatever fee formula is active, the fee is <= gasLimit*gasPrice.
		if !userMismatch && pre[x.snd].bal.Cmp(big.NewInt(0).Add(capFee, x.value)) >= 0 {
			c.Violation("C23:failed-with-sufficient-funds", "fee charged for a failure although balance >= value + gasLimit*gasPrice; %s", ctx())
		}
		if F.Cmp(moveFee) < 0 || F.Cmp(capFee) > 0 {
			c.Violation("C23:failed-fee-out-of-bounds", "collected fee outside [move fee, gasLimit*gasPrice]; %s", ctx())
		}
		if delta(x.snd).Cmp(big.NewInt(0).Neg(F)) != 0 {
			c.Violation("C23:failed-sender-delta", "sender balance changed by %s, want -%s (fee only); %s", delta(x.snd), F, ctx())
		}
		if post[x.snd].nonce != pre[x.snd].nonce+1 {
			c.Violation("C23:failed-nonce", "sender nonce %d -> %d, want +1; %s", pre[x.snd].nonce, post[x.snd].nonce, ctx())
		}
		if x.rcv != x.snd && (delta(x.rcv).Sign() != 0 || post[x.rcv].nonce != pre[x.rcv].nonce) {
			c.Violation("C23:failed-receiver-changed", "receiver changed on a failed transaction; %s", ctx())
		}
		othersUnchanged("C23:failed-third-party")
	default:
		// The statement knows three outcomes: success, the insufficient-funds failure that charges the fee, and
		// rejection "for another reason" without any change. A well-formed transaction (nonce = account nonce, gas price
		// and gas limit inside their bounds, value <= supply, no user name mismatch) whose sender covers the fee has no
		// other reason: it either succeeds or is the charged failure. (Whether it is the one or the other depends on the
		// funds check and is judged only where every fee formula agrees, see failed-with-sufficient-funds.)
		wellFormed := x.nonce == pre[x.snd].nonce && x.gasPrice >= g.minGasPrice &&
			x.gasLimit >= g.moveGas(len(x.data)) && x.gasLimit < g.maxGasPerBlock && x.value.Cmp(g.supply) <= 0 && !userMismatch
		feeSane := authFee != nil && authFee.Cmp(moveFee) >= 0 && authFee.Cmp(capFee) <= 0
		if wellFormed && feeSane && pre[x.snd].bal.Cmp(authFee) >= 0 {
			c.Violation("C23:rejected-although-fee-covered", "well-formed transaction refused without charge although the sender covers the fee %s (insufficient funds must charge the fee and use up the nonce); %s", authFee, ctx())
		}
		if F.Sign() != 0 {
			c.Violation("C23:rejected-fee-collected", "fee collector changed on a rejected transaction; %s", ctx())
		}
		for i := range addrs {
			if delta(i).Sign() != 0 {
				c.Violation("C23:rejected-balance-changed", "account %d balance changed by %s on a rejected transaction; %s", i, delta(i), ctx())
			}
			if post[i].nonce != pre[i].nonce {
				c.Violation("C23:rejected-nonce-changed", "account %d nonce changed on a rejected transaction; %s", i, ctx())
			}
		}
	}
	if names != nil && x.nonce != pre[x.snd].nonce && kind != verifC23Rejected {
		// extension beyond the letter of the statement: a transaction whose nonce is not the account's is never executed
		c.Violation("C23:ext:wrong-nonce-executed", "transaction nonce %d, account nonce %d, yet the transaction was executed (user name mismatch %v); %s", x.nonce, pre[x.snd].nonce, userMismatch, ctx())
	}
	for i := range addrs {
		if post[i].bal.Sign() < 0 {
			c.Violation("C23:negative-balance", "account %d has a negative balance; %s", i, ctx())
		}
	}
	return kind, err
}

func verifC23Fmt(a []verifC23Acc) string {
	var sb strings.Builder
	for i, x := range a {
		fmt.Fprintf(&sb, "[%d: bal=%s nonce=%d] ", i, x.bal, x.nonce)
	}
	return sb.String()
}

func verifC23Total(accs []verifC23Acc, fees *big.Int) *big.Int {
	s := big.NewInt(0).Set(fees)
	for _, a := range accs {
		s.Add(s, a.bal)
	}
	return s
}

// verifC23Windows measures how often the generator reaches the two narrow windows in which only the charged failure is
// a correct outcome (evidence classes only).
func verifC23Windows(rt *rapid.T, c *kit.Case, f *verifC23Fixture, addrs [][]byte, x verifC23Tx) {
	g := f.cfg
	snd := f.read(rt, addrs[x.snd])
	req := g.moveGas(len(x.data))
	if x.nonce != snd.nonce || x.gasPrice < g.minGasPrice || x.gasLimit < req || x.gasLimit >= g.maxGasPerBlock || x.value.Cmp(g.supply) > 0 {
		return
	}
	fee := f.econ.ComputeTxFee(verifC23BuildTx(addrs, x))
	if snd.bal.Cmp(fee) < 0 {
		return
	}
	c.Class("tx-well-formed-fee-covered")
	move := verifC23Mul(req, x.gasPrice)
	capFee := verifC23Mul(x.gasLimit, x.gasPrice)
	if x.snd == x.rcv && snd.bal.Cmp(big.NewInt(0).Add(fee, x.value)) < 0 {
		c.Class("window:self-transfer-fee-covered-value-not")
	}
	if f.notifier.epoch < g.penalizeEpoch && x.gasLimit > req && snd.bal.Cmp(move) >= 0 && snd.bal.Cmp(capFee) < 0 {
		c.Class("window:penalize-flag-off-spare-gas-balance-between-move-fee-and-gasLimit*gasPrice")
	}
}

func TestVerifC23_MoveBalanceSequences(t *testing.T) {
	kit.Run(t, "C23", kit.Budget{Quick: 1500, Thorough: 30000},
		"generated economics (gas price/limit/per-byte, modifier, both fee flags in all combinations via enable epochs 0/2/5 and a confirmed epoch 0..6 that may advance), 3-5 user accounts (some never created, balances around the fee), 1-25 transfers with sender/receiver drawn (incl. equal, incl. non-existing), nonce = account nonce / -1 / +1 / +5, value around balance-fee boundaries and around the supply, gas price min-1/min/3*min/huge, gas limit required-1/required/2*required/block limit/huge, empty data or a short memo; for ~30 % of the transactions the sender balance is put on a decision boundary computed from the drawn transaction (move fee / fee in force / gasLimit*gasPrice, +-value, one below, inside [fee, fee+value) and [move fee, gasLimit*gasPrice)); occasional Commit; caller protocol of the tx pre-processor (snapshot, revert unless nil/ErrFailedTransaction). Oracle from balances, nonces and the fee collector before/after; sum of balances + collected fees constant; a refusal without charge needs a reason (wrong nonce, gas/value out of bounds, fee not covered). Non-trivial = a sequence with a success, an insufficient-funds failure and a nonce rejection; distinct by the whole sequence",
		func(rt *rapid.T, c *kit.Case) {
			g := verifC23GenCfg(rt)
			f := verifC23NewFixture(rt, g)
			defer func() { _ = f.adb.Close() }()
			n := rapid.IntRange(3, 5).Draw(rt, "accounts")
			salt := rapid.Byte().Draw(rt, "salt")
			addrs := make([][]byte, n)
			for i := range addrs {
				addrs[i] = verifC23Addr(i, salt)
				if rapid.IntRange(0, 3).Draw(rt, "exists") < 3 {
					f.create(rt, addrs[i], verifC23GenBalance(rt, g), uint64(rapid.IntRange(0, 3).Draw(rt, "nonce0")))
				}
			}
			if _, err := f.adb.Commit(); err != nil {
				rt.Fatalf("fixture: commit: %v", err)
			}
			total0 := verifC23Total(f.readAll(rt, addrs), f.fees.GetAccumulatedFees())
			steps := rapid.IntRange(1, 25).Draw(rt, "txs")
			var hist strings.Builder
			hist.WriteString("history:")
			seen := [3]bool{}
			nonceRej := false
			for s := 0; s < steps; s++ {
				switch rapid.IntRange(0, 11).Draw(rt, "between") {
				case 0:
					if _, err := f.adb.Commit(); err != nil {
						c.Violation("C23:commit-error", "Commit: %v; %s", err, hist.String())
					}
					hist.WriteString(" commit;")
					c.Class("commit")
				case 1:
					if f.notifier.epoch < 6 {
						f.notifier.confirm(f.notifier.epoch + 1)
						fmt.Fprintf(&hist, " epoch=%d;", f.notifier.epoch)
						c.Class("epoch-advance")
					}
				}
				cur := f.readAll(rt, addrs)
				x := verifC23GenTx(rt, g, cur)
				if rapid.IntRange(0, 9).Draw(rt, "fund") >= 6 {
					// per-case boundary balance computed from the drawn transaction (any account can hold any balance)
					if d, target := verifC23Fund(rt, f, addrs, x); d != nil {
						total0.Add(total0, d)
						fmt.Fprintf(&hist, " balance[%d]:=%s;", x.snd, target)
						c.Class("funded-at-boundary")
					}
				}
				verifC23Windows(rt, c, f, addrs, x)
				kind, err := verifC23Step(rt, c, f, addrs, nil, x, hist.String())
				seen[kind] = true
				switch kind {
				case verifC23Success:
					c.Class("tx-success")
					if x.snd == x.rcv {
						c.Class("tx-success-self")
					}
				case verifC23Failed:
					c.Class("tx-failed-insufficient-funds")
				default:
					c.Class("tx-rejected")
					if errors.Is(err, process.ErrHigherNonceInTransaction) || errors.Is(err, process.ErrLowerNonceInTransaction) {
						nonceRej = true
						c.Class("tx-rejected-nonce")
					} else if errors.Is(err, process.ErrInsufficientFee) {
						c.Class("tx-rejected-insufficient-fee")
					} else {
						c.Class("tx-rejected-values")
					}
				}
				fmt.Fprintf(&hist, " %v->%d;", x, kind)
				total := verifC23Total(f.readAll(rt, addrs), f.fees.GetAccumulatedFees())
				if total.Cmp(total0) != 0 {
					c.Violation("C23:sum-not-conserved", "sum of balances + collected fees %s, was %s at the start; config %v; %s", total, total0, g, hist.String())
				}
			}
			// what the block commit persists is what was observed
			before := f.readAll(rt, addrs)
			if _, err := f.adb.Commit(); err != nil {
				c.Violation("C23:commit-error", "final Commit: %v; %s", err, hist.String())
			}
			after := f.readAll(rt, addrs)
			for i := range addrs {
				if before[i].bal.Cmp(after[i].bal) != 0 || before[i].nonce != after[i].nonce {
					c.Violation("C23:commit-changed-state", "account %d differs after Commit: %v vs %v; %s", i, verifC23Fmt(before), verifC23Fmt(after), hist.String())
				}
			}
			if seen[verifC23Success] && seen[verifC23Failed] && nonceRej {
				c.NonTrivial(hist.String())
				c.Sample("%v accounts=%d %s", g, n, hist.String())
			}
		})
}

// TestVerifC23_Regress: hand-written boundary cases (no defect was found by the generated check; these are the
// minimal shapes the sensitivity mutants were caught on). Runs in every tier through the same per-transaction oracle.
func TestVerifC23_Regress(t *testing.T) {
	kit.Silence()
	supply, _ := big.NewInt(0).SetString("20000000000000000000000000", 10)
	cfgs := []verifC23Cfg{
		{minGasPrice: 1000, minGasLimit: 10, gasPerByte: 1, maxGasPerBlock: 100000, modifier: 0.5, penalizeEpoch: 0, modifierEpoch: 0, epoch: 0, supply: supply}, // both fee flags on
		{minGasPrice: 1000, minGasLimit: 10, gasPerByte: 1, maxGasPerBlock: 100000, modifier: 0.5, penalizeEpoch: 5, modifierEpoch: 5, epoch: 0, supply: supply}, // both off
		{minGasPrice: 1000, minGasLimit: 10, gasPerByte: 1, maxGasPerBlock: 100000, modifier: 1, penalizeEpoch: 0, modifierEpoch: 5, epoch: 2, supply: supply},   // penalize only
	}
	rep := verifC23Plain{t}
	for ci, g := range cfgs {
		fee := int64(10 * 1000)
		type step struct {
			x    verifC23Tx
			want int
			fund int64   // > 0: the sender is put on this balance first
			by   *[3]int // expected outcome per configuration, when it depends on the fee flags
		}
		// accounts: 0 has exactly fee+5, 1 has fee+4, 2 is rich, 3 does not exist
		steps := []step{
			{x: verifC23Tx{snd: 0, rcv: 1, nonce: 1, value: big.NewInt(5), gasPrice: 1000, gasLimit: 10}, want: verifC23Rejected},                            // higher nonce
			{x: verifC23Tx{snd: 0, rcv: 1, nonce: 0, value: big.NewInt(5), gasPrice: 1000, gasLimit: 10}, want: verifC23Success},                             // exact funds
			{x: verifC23Tx{snd: 0, rcv: 1, nonce: 0, value: big.NewInt(0), gasPrice: 1000, gasLimit: 10}, want: verifC23Rejected},                            // replay: lower nonce
			{x: verifC23Tx{snd: 1, rcv: 3, nonce: 0, value: big.NewInt(10), gasPrice: 1000, gasLimit: 10}, want: verifC23Failed},                             // has fee+9, needs fee+10
			{x: verifC23Tx{snd: 2, rcv: 2, nonce: 4, value: big.NewInt(7), gasPrice: 3000, gasLimit: 20}, want: verifC23Success},                             // self transfer, more gas than needed
			{x: verifC23Tx{snd: 2, rcv: 3, nonce: 5, value: big.NewInt(1), gasPrice: 1000, gasLimit: 14, data: "memo"}, want: verifC23Success},               // creates the receiver, data costs gas
			{x: verifC23Tx{snd: 2, rcv: 0, nonce: 6, value: big.NewInt(1), gasPrice: 999, gasLimit: 10}, want: verifC23Rejected},                             // gas price below minimum
			{x: verifC23Tx{snd: 2, rcv: 0, nonce: 6, value: big.NewInt(1), gasPrice: 1000, gasLimit: 9}, want: verifC23Rejected},                             // gas limit below required
			{x: verifC23Tx{snd: 2, rcv: 0, nonce: 6, value: big.NewInt(1), gasPrice: 1000, gasLimit: 100000}, want: verifC23Rejected},                        // gas limit = block limit
			{x: verifC23Tx{snd: 2, rcv: 0, nonce: 6, value: big.NewInt(0).Add(supply, big.NewInt(1)), gasPrice: 1000, gasLimit: 10}, want: verifC23Rejected}, // value above supply
			{x: verifC23Tx{snd: 3, rcv: 0, nonce: 0, value: big.NewInt(12), gasPrice: 1000, gasLimit: 10}, want: verifC23Rejected},                           // account 3 holds 11: cannot pay the fee
			{x: verifC23Tx{snd: 2, rcv: 0, nonce: 6, value: big.NewInt(0), gasPrice: 1000, gasLimit: 10}, want: verifC23Success},                             // zero value
			// self transfer whose value is not covered: the charged failure, as for any other receiver (seeded C23-c)
			{x: verifC23Tx{snd: 2, rcv: 2, nonce: 7, value: big.NewInt(2000000000), gasPrice: 1000, gasLimit: 10}, want: verifC23Failed},
			{x: verifC23Tx{snd: 1, rcv: 1, nonce: 1, value: big.NewInt(1), gasPrice: 1000, gasLimit: 10}, want: verifC23Failed, fund: 10000}, // exactly the fee
			// spare gas, balance between the move fee (10000) and gasLimit*gasPrice (20000): with both fee flags off the fee
			// is the move fee, it is covered, so this is the charged failure; with a flag on the fee (15000 / 20000) is not
			// covered and the transaction is refused (seeded C23-d)
			{x: verifC23Tx{snd: 0, rcv: 1, nonce: 1, value: big.NewInt(1), gasPrice: 1000, gasLimit: 20}, fund: 12000,
				by: &[3]int{verifC23Rejected, verifC23Failed, verifC23Rejected}},
		}
		f := verifC23NewFixture(t, g)
		addrs := [][]byte{verifC23Addr(0, 9), verifC23Addr(1, 9), verifC23Addr(2, 9), verifC23Addr(3, 9)}
		f.create(t, addrs[0], big.NewInt(fee+5), 0)
		f.create(t, addrs[1], big.NewInt(fee+4), 0)
		f.create(t, addrs[2], big.NewInt(1000000000), 4)
		if _, err := f.adb.Commit(); err != nil {
			t.Fatalf("fixture: commit: %v", err)
		}
		total0 := verifC23Total(f.readAll(t, addrs), f.fees.GetAccumulatedFees())
		for si, s := range steps {
			if s.fund > 0 {
				total0.Add(total0, f.setBalance(t, addrs[s.x.snd], big.NewInt(s.fund)))
			}
			if s.by != nil {
				s.want = s.by[ci]
			}
			kind, err := verifC23Step(t, rep, f, addrs, nil, s.x, fmt.Sprintf("regress config %d step %d", ci, si))
			if kind != s.want {
				t.Fatalf("fixture: regress config %d step %d %v: outcome %d (err %v), the table expects %d", ci, si, s.x, kind, err, s.want)
			}
			if total := verifC23Total(f.readAll(t, addrs), f.fees.GetAccumulatedFees()); total.Cmp(total0) != 0 {
				kit.FailPlain(t, "C23", "C23:sum-not-conserved", "regress config %d step %d: sum of balances + fees %s, was %s", ci, si, total, total0)
			}
		}
		_ = f.adb.Close()
	}
}

// TestVerifC23Ext_UserNames is NOT part of the default C23 target (props/C23.json runs ^TestVerifC23_): it extends the
// domain with transaction user names and adds one claim the statement implies only loosely - a transaction whose nonce
// differs from the account nonce is never executed. On the pinned tree this fails (C23:ext:wrong-nonce-executed): the
// user-name check runs before the nonce check. See notes/reports/C23.md.
func TestVerifC23Ext_UserNames(t *testing.T) {
	kit.Run(t, "C23", kit.Budget{Quick: 1500, Thorough: 12000},
		"extension: as TestVerifC23_MoveBalanceSequences plus user names on accounts and on ~30 % of the transactions (matching or not); a name mismatch may fail the transaction and charge the fee; additionally a transaction with nonce != account nonce must change nothing. Non-trivial = a sequence with a mismatching user name on a transaction with a wrong nonce",
		func(rt *rapid.T, c *kit.Case) {
			g := verifC23GenCfg(rt)
			f := verifC23NewFixture(rt, g)
			defer func() { _ = f.adb.Close() }()
			n := rapid.IntRange(3, 4).Draw(rt, "accounts")
			addrs := make([][]byte, n)
			names := make([]string, n)
			for i := range addrs {
				addrs[i] = verifC23Addr(i, 3)
				if rapid.IntRange(0, 3).Draw(rt, "exists") < 3 {
					if rapid.Bool().Draw(rt, "named") {
						names[i] = fmt.Sprintf("user%d.elrond", i)
					}
					f.create(rt, addrs[i], verifC23GenBalance(rt, g), uint64(rapid.IntRange(0, 3).Draw(rt, "nonce0")), names[i])
				}
			}
			if _, err := f.adb.Commit(); err != nil {
				rt.Fatalf("fixture: commit: %v", err)
			}
			total0 := verifC23Total(f.readAll(rt, addrs), f.fees.GetAccumulatedFees())
			steps := rapid.IntRange(1, 20).Draw(rt, "txs")
			var hist strings.Builder
			hist.WriteString("history:")
			nt := false
			for s := 0; s < steps; s++ {
				cur := f.readAll(rt, addrs)
				x := verifC23GenTx(rt, g, cur)
				pick := func(label string, own string) string {
					switch rapid.IntRange(0, 9).Draw(rt, label) {
					case 7, 8:
						return "mallory.elrond"
					case 9:
						return own
					}
					return ""
				}
				x.sndUser = pick("sndUser", names[x.snd])
				x.rcvUser = pick("rcvUser", names[x.rcv])
				mismatch := (x.sndUser != "" && x.sndUser != names[x.snd]) || (x.rcvUser != "" && x.rcvUser != names[x.rcv])
				if mismatch {
					c.Class("tx-user-name-mismatch")
					if x.nonce != cur[x.snd].nonce {
						nt = true
						c.Class("tx-user-name-mismatch-wrong-nonce")
					}
				}
				kind, _ := verifC23Step(rt, c, f, addrs, names, x, hist.String())
				c.Class(fmt.Sprintf("outcome-%d-mismatch-%v", kind, mismatch))
				fmt.Fprintf(&hist, " %v->%d;", x, kind)
				if total := verifC23Total(f.readAll(rt, addrs), f.fees.GetAccumulatedFees()); total.Cmp(total0) != 0 {
					c.Violation("C23:sum-not-conserved", "sum of balances + collected fees %s, was %s at the start; config %v; %s", total, total0, g, hist.String())
				}
			}
			if nt {
				c.NonTrivial(hist.String())
			}
		})
}
