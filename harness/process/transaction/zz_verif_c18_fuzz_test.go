package transaction_test

import (
	"bytes"
	"math/big"
	"testing"

	dataTransaction "github.com/ElrondNetwork/elrond-go/data/transaction"
	"github.com/ElrondNetwork/elrond-go/marshal"
	kit "github.com/ElrondNetwork/elrond-go/verifkit"
)

// FuzzVerifC18_Tx: the fuzzer supplies b1; the harness canonicalises (decode -> marshal) to b0 and evaluates the C18
// statement on the pair. A well-formed protobuf re-encoding within the size delta belongs to the known classes
// (reported under the catch-all key C18:tx:combined); anything else accepted with the same content is a violation.
func FuzzVerifC18_Tx(f *testing.F) {
	kit.Silence()
	m := &marshal.GogoProtoMarshalizer{}
	seed := &dataTransaction.Transaction{Nonce: 7, Value: big.NewInt(5), RcvAddr: bytes.Repeat([]byte{1}, 32), SndAddr: bytes.Repeat([]byte{2}, 32),
		GasPrice: 1, GasLimit: 2, ChainID: verifC18TxChainID, Version: 1, Signature: []byte("s")}
	b, _ := m.Marshal(seed)
	f.Add(b)
	f.Add(append(append([]byte{}, b...), 0x70, 0x01))
	f.Add(append(append([]byte{}, b...), 0x80))
	f.Add(append([]byte{0x08, 0x09}, b...))
	seed.Version, seed.Options, seed.Data = 2, 1, []byte("fn@01")
	b, _ = m.Marshal(seed)
	f.Add(b)
	f.Fuzz(func(t *testing.T, b1 []byte) {
		if len(b1) == 0 || len(b1) > 4096 {
			return
		}
		tx := &dataTransaction.Transaction{}
		if m.Unmarshal(tx, b1) != nil || tx.Value == nil {
			return
		}
		b0, err := m.Marshal(tx)
		if err != nil || bytes.Equal(b0, b1) {
			return
		}
		sm := &verifC18SigModel{valid: map[string]struct{}{}}
		if sm.register(tx) != nil {
			return
		}
		tg := verifC18TxTarget(sm)
		for _, delta := range []int{-1, 10} {
			var mm marshal.Marshalizer = m
			if delta >= 0 {
				mm = marshal.NewSizeCheckUnmarshalizer(m, uint32(delta))
			}
			o0, o1 := tg.Intercept(b0, mm), tg.Intercept(b1, mm)
			if !o0.Accepted || !o1.Accepted || bytes.Equal(o0.Hash, o1.Hash) {
				continue
			}
			if same, _ := verifC18SameContent(o0.Content, o1.Content); !same {
				continue
			}
			key := "C18:tx:combined"
			if !verifC18WellFormed(b1) {
				key = "C18:tx:garbage-accepted"
			} else if delta >= 0 && len(b1) > len(b0)+len(b0)*delta/100 {
				key = "C18:tx:oversize-accepted"
			}
			if kit.IsKnown(key) {
				continue // known finding class: not reported per input (millions of inputs per campaign)
			}
			kit.FailPlain(t, "C18", key, "tx %x (canonical %x), delta %d: both accepted, same content, hashes %x / %x", b1, b0, delta, o1.Hash, o0.Hash)
		}
	})
}
