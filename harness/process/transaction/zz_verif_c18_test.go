package transaction_test

// C18 (transaction part): a transaction hash cannot be changed without changing signed content.

import (
	"bytes"
	"errors"
	"math/big"
	"testing"

	"github.com/ElrondNetwork/elrond-go/core/versioning"
	"github.com/ElrondNetwork/elrond-go/crypto"
	dataTransaction "github.com/ElrondNetwork/elrond-go/data/transaction"
	"github.com/ElrondNetwork/elrond-go/hashing/blake2b"
	"github.com/ElrondNetwork/elrond-go/hashing/keccak"
	"github.com/ElrondNetwork/elrond-go/marshal"
	"github.com/ElrondNetwork/elrond-go/process/mock"
	"github.com/ElrondNetwork/elrond-go/process/smartContract"
	"github.com/ElrondNetwork/elrond-go/process/transaction"
	"github.com/ElrondNetwork/elrond-go/testscommon"
	kit "github.com/ElrondNetwork/elrond-go/verifkit"
	"pgregory.net/rapid"
)

// schema copied from data/transaction/proto/transaction.proto
var verifC18TxSchema = &verifC18Schema{Name: "Transaction", Fields: []verifC18FieldDef{
	{Num: 1, Kind: verifC18U64}, {Num: 2, Kind: verifC18BigInt}, {Num: 3, Kind: verifC18Bytes}, {Num: 4, Kind: verifC18Bytes},
	{Num: 5, Kind: verifC18Bytes}, {Num: 6, Kind: verifC18Bytes}, {Num: 7, Kind: verifC18U64}, {Num: 8, Kind: verifC18U64},
	{Num: 9, Kind: verifC18Bytes}, {Num: 10, Kind: verifC18Bytes}, {Num: 11, Kind: verifC18U32}, {Num: 12, Kind: verifC18Bytes},
	{Num: 13, Kind: verifC18U32},
}}

var verifC18TxChainID = []byte("T")

// verifC18SigModel models a signature scheme: Verify succeeds exactly for the (message, signature) pairs that the
// harness registered from the values it generated itself (never from what the interceptor decoded).
type verifC18SigModel struct {
	valid map[string]struct{}
}

var errVerifC18BadSig = errors.New("verif: signature does not verify")

func (s *verifC18SigModel) register(tx *dataTransaction.Transaction) error {
	msg, err := tx.GetDataForSigning(mock.NewPubkeyConverterMock(32), &marshal.JsonMarshalizer{})
	if err != nil {
		return err
	}
	s.valid[string(msg)+"|"+string(tx.Signature)] = struct{}{}
	// version >= 2 with the hash-sign option: the signed message is the keccak hash of the JSON
	s.valid[string(keccak.NewKeccak().Compute(string(msg)))+"|"+string(tx.Signature)] = struct{}{}
	return nil
}

func (s *verifC18SigModel) signer() crypto.SingleSigner {
	return &mock.SignerMock{VerifyStub: func(_ crypto.PublicKey, msg []byte, sig []byte) error {
		if _, ok := s.valid[string(msg)+"|"+string(sig)]; ok {
			return nil
		}
		return errVerifC18BadSig
	}}
}

func verifC18TxTarget(sm *verifC18SigModel) *verifC18Target {
	return &verifC18Target{Name: "tx", Schema: verifC18TxSchema, Skip: []string{"interleaved-repeated"}, SigFields: []int{12},
		Intercept: func(b []byte, m marshal.Marshalizer) verifC18Outcome {
			coord := mock.NewMultiShardsCoordinatorMock(3)
			coord.CurrentShard = 1
			coord.ComputeIdCalled = func(address []byte) uint32 {
				if len(address) == 0 {
					return 0
				}
				return uint32(address[len(address)-1]) % 3
			}
			itx, err := transaction.NewInterceptedTransaction(
				b, m, &marshal.JsonMarshalizer{}, blake2b.NewBlake2b(),
				&mock.SingleSignKeyGenMock{PublicKeyFromByteArrayCalled: func(b []byte) (crypto.PublicKey, error) {
					return &mock.SingleSignPublicKey{}, nil
				}},
				sm.signer(), mock.NewPubkeyConverterMock(32), coord, &mock.FeeHandlerStub{},
				&testscommon.WhiteListHandlerStub{}, smartContract.NewArgumentParser(), verifC18TxChainID,
				true, keccak.NewKeccak(), versioning.NewTxVersionChecker(1),
			)
			if err != nil {
				return verifC18Outcome{Err: err.Error()}
			}
			if err = itx.CheckValidity(); err != nil {
				return verifC18Outcome{Err: err.Error()}
			}
			return verifC18Outcome{Accepted: true, Hash: itx.Hash(), Content: itx.Transaction()}
		}}
}

func verifC18TxU64(rt *rapid.T, label string) uint64 {
	switch rapid.IntRange(0, 4).Draw(rt, label+"Kind") {
	case 0:
		return 0
	case 1:
		return uint64(rapid.IntRange(1, 127).Draw(rt, label))
	case 2:
		return uint64(rapid.IntRange(128, 1<<30).Draw(rt, label))
	default:
		return rapid.Uint64().Draw(rt, label)
	}
}

func verifC18GenTx(rt *rapid.T) *dataTransaction.Transaction {
	tx := &dataTransaction.Transaction{
		Nonce:     verifC18TxU64(rt, "nonce"),
		RcvAddr:   rapid.SliceOfN(rapid.Byte(), 32, 32).Draw(rt, "rcv"),
		SndAddr:   rapid.SliceOfN(rapid.Byte(), 32, 32).Draw(rt, "snd"),
		GasPrice:  verifC18TxU64(rt, "gasPrice"),
		GasLimit:  verifC18TxU64(rt, "gasLimit"),
		ChainID:   verifC18TxChainID,
		Version:   1,
		Signature: rapid.SliceOfN(rapid.Byte(), 1, 8).Draw(rt, "sig"),
	}
	switch rapid.IntRange(0, 3).Draw(rt, "valueKind") {
	case 0:
		tx.Value = big.NewInt(0)
	case 1:
		tx.Value = big.NewInt(int64(rapid.IntRange(1, 255).Draw(rt, "value")))
	default:
		tx.Value = new(big.Int).SetBytes(rapid.SliceOfN(rapid.Byte(), 1, 12).Draw(rt, "valueBytes"))
	}
	if rapid.IntRange(0, 3).Draw(rt, "rcvZero") == 0 {
		tx.RcvAddr = make([]byte, 32)
	}
	if rapid.Bool().Draw(rt, "hasRcvUser") {
		tx.RcvUserName = rapid.SliceOfN(rapid.Byte(), 1, 32).Draw(rt, "rcvUser")
	}
	if rapid.Bool().Draw(rt, "hasSndUser") {
		tx.SndUserName = rapid.SliceOfN(rapid.Byte(), 1, 32).Draw(rt, "sndUser")
	}
	switch rapid.IntRange(0, 3).Draw(rt, "dataKind") {
	case 0:
	case 1:
		tx.Data = []byte(rapid.SampledFrom([]string{"fn@01@02", "ESDTTransfer@54@0a", "a", "@@", "claim"}).Draw(rt, "call"))
	default:
		tx.Data = rapid.SliceOfN(rapid.Byte(), 1, 20).Draw(rt, "data")
	}
	if rapid.IntRange(0, 2).Draw(rt, "v2") == 0 {
		tx.Version = uint32(rapid.IntRange(2, 3).Draw(rt, "version"))
		tx.Options = uint32(rapid.SampledFrom([]int{0, 1, 2, 3, 1 << 20}).Draw(rt, "options"))
	}
	return tx
}

func TestVerifC18_Transaction(t *testing.T) {
	m := &marshal.GogoProtoMarshalizer{}
	kit.Run(t, "C18", kit.Budget{Quick: 12000, Thorough: 150000},
		"transaction: a valid random transaction (version 1 or >=2 with options, values incl. 0, optional user names and data) is marshalled (b0) and re-encoded by one wire-level mutation class "+
			"(reorder, unknown field, non-minimal varint, explicit default, duplicated field, non-canonical big-int bytes, combined; garbage; a changed field value); both byte strings go through the real "+
			"NewInterceptedTransaction + CheckValidity (JSON sign marshalizer, real version checker and argument parser; the signer accepts exactly the (message, signature) pairs the harness computed from the generated values); "+
			"marshalizer unwrapped or wrapped by the size check; non-trivial = b1 != b0, both accepted, decoded content Equal (or different content accepted for a changed value)",
		func(rt *rapid.T, c *kit.Case) {
			tx := verifC18GenTx(rt)
			b0, err := m.Marshal(tx)
			if err != nil {
				rt.Fatalf("fixture: marshal: %v", err)
			}
			sm := &verifC18SigModel{valid: map[string]struct{}{}}
			if err = sm.register(tx); err != nil {
				rt.Fatalf("fixture: signing data: %v", err)
			}
			authorise := func(b []byte) bool {
				other := &dataTransaction.Transaction{}
				if m.Unmarshal(other, b) != nil || other.Value == nil {
					return false
				}
				return sm.register(other) == nil
			}
			verifC18RunCase(rt, c, verifC18TxTarget(sm), b0, authorise)
		})
}

func TestVerifC18_RegressTx(t *testing.T) {
	kit.Silence()
	m := &marshal.GogoProtoMarshalizer{}
	tx := &dataTransaction.Transaction{Nonce: 7, Value: big.NewInt(5), RcvAddr: bytes.Repeat([]byte{1}, 32), SndAddr: bytes.Repeat([]byte{2}, 32),
		GasPrice: 1, GasLimit: 2, ChainID: verifC18TxChainID, Version: 1, Signature: []byte("s")}
	b0, _ := m.Marshal(tx)
	sm := &verifC18SigModel{valid: map[string]struct{}{}}
	if err := sm.register(tx); err != nil {
		t.Fatalf("fixture: %v", err)
	}
	tg := verifC18TxTarget(sm)
	top, err := verifC18Parse(tg.Schema, b0)
	if err != nil {
		t.Fatalf("fixture: %v", err)
	}
	mk := func(f func(n []*verifC18Node) []*verifC18Node) []byte {
		return verifC18Encode(f(verifC18CloneNodes(top)))
	}
	table := []struct {
		class string
		b1    []byte
	}{
		{"reorder", mk(func(n []*verifC18Node) []*verifC18Node { n[0], n[1] = n[1], n[0]; return n })},
		{"unknown-field", append(append([]byte{}, b0...), 0x70, 0x01)},
		{"nonminimal-varint", mk(func(n []*verifC18Node) []*verifC18Node { n[0].ValPad = 1; return n })},
		{"explicit-default", append(append([]byte{}, b0...), 0x68, 0x00)},
		{"duplicate-field", append([]byte{0x08, 0x09}, b0...)},
		{"bigint-noncanonical", mk(func(n []*verifC18Node) []*verifC18Node { n[1].Data = []byte{0, 0, 5}; return n })},
	}
	mm := marshal.NewSizeCheckUnmarshalizer(m, 10)
	o0 := tg.Intercept(b0, mm)
	if !o0.Accepted {
		t.Fatalf("fixture: canonical tx rejected: %s", o0.Err)
	}
	for _, e := range table {
		o1 := tg.Intercept(e.b1, mm)
		if o1.Accepted && tx.Equal(o1.Content) && !bytes.Equal(o0.Hash, o1.Hash) {
			kit.FailPlain(t, "C18", "C18:tx:"+e.class, "transaction %x and %x (delta 10) decode to the same content, are both accepted, hashes %x / %x", b0, e.b1, o0.Hash, o1.Hash)
		}
	}
	for _, g := range [][]byte{{0x00}, {0x80}, {0x76}, {0x72, 0x05, 0x01}} {
		o := tg.Intercept(append(append([]byte{}, b0...), g...), m)
		if o.Accepted && tx.Equal(o.Content) {
			kit.FailPlain(t, "C18", "C18:tx:garbage-accepted", "transaction %x with trailing garbage %x accepted with the same content", b0, g)
		}
	}
	big := append(append([]byte{}, b0...), append([]byte{0x72, 0x40}, bytes.Repeat([]byte{1}, 64)...)...)
	if o := tg.Intercept(big, mm); o.Accepted && tx.Equal(o.Content) {
		kit.FailPlain(t, "C18", "C18:tx:oversize-accepted", "transaction of %d bytes accepted as encoding of a %d byte object with delta 10", len(big), len(b0))
	}
}
