package transaction_test

import (
	"bytes"
	"errors"
	"fmt"
	"math/big"
	"testing"
	"unicode/utf8"

	"github.com/ElrondNetwork/elrond-go/core"
	"github.com/ElrondNetwork/elrond-go/core/pubkeyConverter"
	"github.com/ElrondNetwork/elrond-go/core/versioning"
	"github.com/ElrondNetwork/elrond-go/crypto"
	"github.com/ElrondNetwork/elrond-go/crypto/signing"
	"github.com/ElrondNetwork/elrond-go/crypto/signing/ed25519"
	"github.com/ElrondNetwork/elrond-go/crypto/signing/ed25519/singlesig"
	dataTx "github.com/ElrondNetwork/elrond-go/data/transaction"
	"github.com/ElrondNetwork/elrond-go/hashing/blake2b"
	"github.com/ElrondNetwork/elrond-go/hashing/keccak"
	"github.com/ElrondNetwork/elrond-go/marshal"
	"github.com/ElrondNetwork/elrond-go/process"
	"github.com/ElrondNetwork/elrond-go/process/mock"
	"github.com/ElrondNetwork/elrond-go/process/smartContract"
	txproc "github.com/ElrondNetwork/elrond-go/process/transaction"
	"github.com/ElrondNetwork/elrond-go/sharding"
	"github.com/ElrondNetwork/elrond-go/testscommon"
	kit "github.com/ElrondNetwork/elrond-go/verifkit"
	"pgregory.net/rapid"
)

// C24 (end-to-end part): a signature made for transaction A is not accepted by the interceptor for a
// transaction B that differs from A in any semantic field. Real ed25519 signer and key generator, real
// TxJsonMarshalizer, real bech32 converter, real protobuf marshalizer, real version checker, real
// InterceptedTransaction.CheckValidity; the fee handler is a stub that accepts every value (so that a rejection
// is the signature's doing), nothing is white-listed.

var verifC24E2EFields = []string{"nonce", "value", "receiver", "receiverUsername", "sender", "senderUsername",
	"gasPrice", "gasLimit", "data", "chainID", "version", "options"}

type verifC24Env struct {
	kg     crypto.KeyGenerator
	signer crypto.SingleSigner
	conv   core.PubkeyConverter
	proto  marshal.Marshalizer
	json   marshal.Marshalizer
	coord  sharding.Coordinator
	vc     process.TxVersionCheckerHandler
}

func verifC24ChainIDE2E(rt *rapid.T, label string) []byte {
	special := []rune{'"', '\\', '<', '>', '&', '1', 'T', 'D', ' ', 0x2028, 'é'}
	n := rapid.IntRange(1, 8).Draw(rt, label+"Runes")
	s := make([]rune, n)
	for i := range s {
		if rapid.Bool().Draw(rt, label+"Special") {
			s[i] = special[rapid.IntRange(0, len(special)-1).Draw(rt, label+"Sp")]
		} else {
			s[i] = rapid.Rune().Draw(rt, label+"Rune")
			if !utf8.ValidRune(s[i]) {
				s[i] = 'x'
			}
		}
	}
	if !utf8.ValidString(string(s)) {
		return []byte("1")
	}
	return []byte(string(s))
}

func (e *verifC24Env) intercept(rt *rapid.T, tx *dataTx.Transaction, enableHashSigning bool) *txproc.InterceptedTransaction {
	buff, err := e.proto.Marshal(tx)
	if err != nil {
		rt.Fatalf("fixture: marshal: %v", err)
	}
	inTx, err := txproc.NewInterceptedTransaction(
		buff, e.proto, e.json, blake2b.NewBlake2b(), e.kg, e.signer, e.conv, e.coord,
		&mock.FeeHandlerStub{CheckValidityTxValuesCalled: func(_ process.TransactionWithFeeHandler) error { return nil }},
		&testscommon.WhiteListHandlerStub{IsWhiteListedCalled: func(_ process.InterceptedData) bool { return false }},
		smartContract.NewArgumentParser(),
		tx.ChainID, // the node's chain is the transaction's: a rejection cannot be blamed on the chain check
		enableHashSigning,
		keccak.NewKeccak(),
		e.vc,
	)
	if err != nil {
		rt.Fatalf("fixture: NewInterceptedTransaction: %v", err)
	}
	return inTx
}

func verifC24E2EClone(tx *dataTx.Transaction) *dataTx.Transaction {
	cp := func(b []byte) []byte { return append([]byte{}, b...) }
	return &dataTx.Transaction{
		Nonce: tx.Nonce, Value: big.NewInt(0).Set(tx.Value), RcvAddr: cp(tx.RcvAddr), RcvUserName: cp(tx.RcvUserName),
		SndAddr: cp(tx.SndAddr), SndUserName: cp(tx.SndUserName), GasPrice: tx.GasPrice, GasLimit: tx.GasLimit,
		Data: cp(tx.Data), ChainID: cp(tx.ChainID), Version: tx.Version, Signature: cp(tx.Signature), Options: tx.Options,
	}
}

func verifC24E2EMutBytes(rt *rapid.T, label string, b []byte, min, max int) []byte {
	out := append([]byte{}, b...)
	switch k := rapid.IntRange(0, 3).Draw(rt, label+"Mut"); {
	case k == 0 && len(out) > 0:
		out[rapid.IntRange(0, len(out)-1).Draw(rt, label+"Idx")] ^= byte(1 << uint(rapid.IntRange(0, 7).Draw(rt, label+"Bit")))
		return out
	case k == 1 && len(out) < max:
		return append(out, rapid.Byte().Draw(rt, label+"App"))
	case k == 2 && len(out) > min:
		return out[:len(out)-1]
	}
	f := append([]byte{}, rapid.SliceOfN(rapid.Byte(), min, max).Draw(rt, label+"New")...)
	if !bytes.Equal(f, b) {
		return f
	}
	if len(f) == 0 {
		return []byte{1}
	}
	f[0] ^= 0x55
	return f
}

func verifC24E2EDescribe(tx *dataTx.Transaction) string {
	return fmt.Sprintf("{nonce=%d value=%s rcv=%x rcvUser=%x snd=%x sndUser=%x gasPrice=%d gasLimit=%d data=%x chainID=%q version=%d options=%d}",
		tx.Nonce, tx.Value, tx.RcvAddr, tx.RcvUserName, tx.SndAddr, tx.SndUserName, tx.GasPrice, tx.GasLimit, tx.Data, string(tx.ChainID), tx.Version, tx.Options)
}

func TestVerifC24_SignatureNotReusable(t *testing.T) {
	conv, err := pubkeyConverter.NewBech32PubkeyConverter(32)
	if err != nil {
		t.Fatalf("fixture: %v", err)
	}
	coord, err := sharding.NewMultiShardCoordinator(1, 0)
	if err != nil {
		t.Fatalf("fixture: %v", err)
	}
	env := &verifC24Env{
		kg: signing.NewKeyGenerator(ed25519.NewEd25519()), signer: &singlesig.Ed25519Signer{},
		conv: conv, proto: &marshal.GogoProtoMarshalizer{}, json: &marshal.TxJsonMarshalizer{},
		coord: coord, vc: versioning.NewTxVersionChecker(1),
	}
	kit.Run(t, "C24", kit.Budget{Quick: 2500, Thorough: 25000},
		"transaction A signed with a real ed25519 key derived from a drawn seed (sender = its public key; version 1-3, options 0 for version 1, else incl. the signed-with-hash bit; value up to 2^128; user names 0-32 bytes; data 0-100 bytes; chain ID 1-8 runes); A must pass InterceptedTransaction.CheckValidity; B = A with one (75 %) or several of the 12 semantic fields changed, carrying A's signature, must be rejected. Non-trivial = exactly one field differs and the rejection is the signature check's; distinct by (A, B)",
		func(rt *rapid.T, c *kit.Case) {
			seed := rapid.SliceOfN(rapid.Byte(), 32, 32).Draw(rt, "seed")
			sk, err := env.kg.PrivateKeyFromByteArray(seed)
			if err != nil {
				rt.Fatalf("fixture: private key: %v", err)
			}
			pkBytes, err := sk.GeneratePublic().ToByteArray()
			if err != nil {
				rt.Fatalf("fixture: public key: %v", err)
			}
			a := &dataTx.Transaction{
				Nonce:       rapid.Uint64().Draw(rt, "nonce"),
				Value:       big.NewInt(0).SetBytes(rapid.SliceOfN(rapid.Byte(), 0, 16).Draw(rt, "value")),
				RcvAddr:     rapid.SliceOfN(rapid.Byte(), 32, 32).Draw(rt, "rcv"),
				RcvUserName: rapid.SliceOfN(rapid.Byte(), 0, 32).Draw(rt, "rcvUser"),
				SndAddr:     pkBytes,
				SndUserName: rapid.SliceOfN(rapid.Byte(), 0, 32).Draw(rt, "sndUser"),
				GasPrice:    rapid.Uint64().Draw(rt, "gasPrice"),
				GasLimit:    rapid.Uint64().Draw(rt, "gasLimit"),
				Data:        rapid.SliceOfN(rapid.Byte(), 0, 100).Draw(rt, "data"),
				ChainID:     verifC24ChainIDE2E(rt, "chainID"),
				Version:     uint32(rapid.IntRange(1, 3).Draw(rt, "version")),
			}
			if a.Version > 1 {
				a.Options = uint32(rapid.IntRange(0, 3).Draw(rt, "options"))
				if rapid.IntRange(0, 5).Draw(rt, "bigOptions") == 5 {
					a.Options = rapid.Uint32().Draw(rt, "optionsAny")
				}
			}
			hashSigned := a.Version > 1 && a.Options&1 == 1
			enable := hashSigned || rapid.Bool().Draw(rt, "enableHashSigning")
			msg, err := a.GetDataForSigning(conv, env.json)
			if err != nil {
				c.Violation("C24:signing-error", "GetDataForSigning: %v for %s", err, verifC24E2EDescribe(a))
			}
			toSign := msg
			if hashSigned {
				toSign = keccak.NewKeccak().Compute(string(msg))
				c.Class("A-signed-with-hash")
			}
			a.Signature, err = env.signer.Sign(sk, toSign)
			if err != nil {
				rt.Fatalf("fixture: sign: %v", err)
			}
			var errA error
			c.NoPanic("C24:e2e-panic", func() { errA = env.intercept(rt, a, enable).CheckValidity() })
			if errA != nil {
				// the property is one-sided (no reuse); a correctly signed A that is refused would make the test vacuous
				rt.Fatalf("fixture: correctly signed transaction refused: %v: %s", errA, verifC24E2EDescribe(a))
			}

			k := 1
			if rapid.IntRange(0, 3).Draw(rt, "multi") == 3 {
				k = rapid.IntRange(2, 4).Draw(rt, "numFields")
			}
			fields := rapid.Permutation(verifC24E2EFields).Draw(rt, "fieldOrder")[:k]
			b := verifC24E2EClone(a)
			for _, f := range fields {
				switch f {
				case "nonce":
					b.Nonce = a.Nonce + uint64(rapid.IntRange(1, 3).Draw(rt, "nonceDelta"))
				case "value":
					switch rapid.IntRange(0, 2).Draw(rt, "valueMut") {
					case 0:
						b.Value = big.NewInt(0).Add(a.Value, big.NewInt(1))
					case 1:
						b.Value = big.NewInt(0).Add(a.Value, big.NewInt(0).Lsh(big.NewInt(1), 64))
					default:
						b.Value = big.NewInt(0).Mul(big.NewInt(0).Add(a.Value, big.NewInt(1)), big.NewInt(10))
					}
				case "receiver":
					b.RcvAddr = verifC24E2EMutBytes(rt, "rcvB", a.RcvAddr, 32, 32)
				case "sender":
					b.SndAddr = verifC24E2EMutBytes(rt, "sndB", a.SndAddr, 32, 32)
				case "receiverUsername":
					b.RcvUserName = verifC24E2EMutBytes(rt, "rcvUserB", a.RcvUserName, 0, 32)
				case "senderUsername":
					b.SndUserName = verifC24E2EMutBytes(rt, "sndUserB", a.SndUserName, 0, 32)
				case "gasPrice":
					b.GasPrice = a.GasPrice ^ (uint64(1) << uint(rapid.IntRange(0, 63).Draw(rt, "gasPriceBit")))
				case "gasLimit":
					b.GasLimit = a.GasLimit ^ (uint64(1) << uint(rapid.IntRange(0, 63).Draw(rt, "gasLimitBit")))
				case "data":
					b.Data = verifC24E2EMutBytes(rt, "dataB", a.Data, 0, 100)
				case "chainID":
					for i := 0; ; i++ {
						n := verifC24ChainIDE2E(rt, "chainIDB")
						if i > 10 {
							n = []byte("zz")
							if bytes.Equal(n, a.ChainID) {
								n = []byte("z")
							}
						}
						if !bytes.Equal(n, a.ChainID) {
							b.ChainID = n
							break
						}
					}
				case "version":
					// stay within versions the checker accepts (>= 1); version 1 demands options 0
					if a.Options != 0 {
						b.Version = 5 - a.Version // 2 <-> 3
					} else {
						b.Version = a.Version%3 + 1
					}
				case "options":
					if a.Version == 1 {
						b.Options = uint32(rapid.IntRange(1, 3).Draw(rt, "optionsB")) // refused by the version rule, whatever the signature
					} else {
						b.Options = a.Options ^ (uint32(1) << uint(rapid.IntRange(0, 31).Draw(rt, "optionsBit")))
					}
				}
			}
			if verifC24E2EDescribe(a) == verifC24E2EDescribe(b) {
				rt.Fatalf("fixture: B equals A after changing %v", fields)
			}
			var errB error
			c.NoPanic("C24:e2e-panic", func() { errB = env.intercept(rt, b, true).CheckValidity() })
			if errB == nil {
				c.Violation("C24:reuse:"+fields[0], "signature of A accepted for B differing in %v\n A=%s\n B=%s\n signing bytes of A: %s", fields, verifC24E2EDescribe(a), verifC24E2EDescribe(b), msg)
			}
			bySig := errors.Is(errB, crypto.ErrEd25519InvalidSignature)
			if bySig {
				c.Class("B-rejected-by-signature")
			} else {
				c.Class("B-rejected-otherwise")
			}
			for _, f := range fields {
				c.Class("changed:" + f)
			}
			if k == 1 && bySig {
				c.Class("single-by-signature:" + fields[0])
				c.NonTrivial(verifC24E2EDescribe(a) + verifC24E2EDescribe(b))
				c.Sample("changed %v: A=%s B=%s", fields, verifC24E2EDescribe(a), verifC24E2EDescribe(b))
			}
		})
}
