package economics_test

import (
	"encoding/hex"
	"fmt"
	"math"
	"math/big"
	"sort"
	"strconv"
	"strings"
	"sync"
	"testing"

	"github.com/ElrondNetwork/elrond-go/config"
	"github.com/ElrondNetwork/elrond-go/core"
	"github.com/ElrondNetwork/elrond-go/data/smartContractResult"
	"github.com/ElrondNetwork/elrond-go/data/transaction"
	"github.com/ElrondNetwork/elrond-go/process"
	"github.com/ElrondNetwork/elrond-go/process/economics"
	"github.com/ElrondNetwork/elrond-go/process/mock"
	"github.com/ElrondNetwork/elrond-go/process/smartContract"
	"github.com/ElrondNetwork/elrond-go/vm/systemSmartContracts/defaults"
	kit "github.com/ElrondNetwork/elrond-go/verifkit"
	"pgregory.net/rapid"
)

// C21: Transaction fees never exceed what the sender authorised.
// C22: Estimated gas limit is affordable.
// Shared: the economics generator "EG" of DESIGN.md (verifC21Gen*): a generated config.EconomicsConfig through the
// production constructor NewEconomicsData with the real builtInFunctionsCost handler, then EpochConfirmed(e).

// verifC21Fee is the part of *economicsData (unexported type) the checks use.
type verifC21Fee interface {
	ComputeTxFee(tx process.TransactionWithFeeHandler) *big.Int
	ComputeMoveBalanceFee(tx process.TransactionWithFeeHandler) *big.Int
	ComputeTxFeeBasedOnGasUsed(tx process.TransactionWithFeeHandler, gasUsed uint64) *big.Int
	ComputeGasUsedAndFeeBasedOnRefundValue(tx process.TransactionWithFeeHandler, refundValue *big.Int) (uint64, *big.Int)
	SplitTxGasInCategories(tx process.TransactionWithFeeHandler) (uint64, uint64)
	CheckValidityTxValues(tx process.TransactionWithFeeHandler) error
	ComputeGasLimit(tx process.TransactionWithFeeHandler) uint64
	ComputeGasLimitBasedOnBalance(tx process.TransactionWithFeeHandler, balance *big.Int) (uint64, error)
	ComputeFeeForProcessing(tx process.TransactionWithFeeHandler, gasToUse uint64) *big.Int
	GasPriceForProcessing(tx process.TransactionWithFeeHandler) uint64
	EpochConfirmed(epoch uint32, timestamp uint64)
}

// the repository's default gas schedule (cmd/node/config/gasSchedules/gasScheduleV3.toml), the two sections the
// built-in cost handler reads
var verifC21GasScheduleV3 = map[string]map[string]uint64{
	core.BuiltInCost: {
		"ChangeOwnerAddress": 5000000, "ClaimDeveloperRewards": 5000000, "SaveUserName": 1000000, "SaveKeyValue": 250000,
		"ESDTTransfer": 250000, "ESDTBurn": 250000, "ESDTLocalMint": 250000, "ESDTLocalBurn": 250000, "ESDTNFTCreate": 500000,
		"ESDTNFTAddQuantity": 500000, "ESDTNFTBurn": 500000, "ESDTNFTTransfer": 500000, "ESDTNFTChangeCreateOwner": 1000000,
	},
	core.BaseOperationCost: {
		"StorePerByte": 50000, "ReleasePerByte": 10000, "DataCopyPerByte": 1000, "PersistPerByte": 10000, "CompilePerByte": 300,
		"AoTPreparePerByte": 300, "GetCode": 1000000,
	},
}

var (
	verifC21HandlersOnce sync.Once
	verifC21Handlers     [2]economics.BuiltInFunctionsCostHandler // [0] real schedule V3, [1] every cost = 1 (as the repo's unit tests)
	verifC21HandlersErr  error
)

func verifC21BuiltInHandlers() ([2]economics.BuiltInFunctionsCostHandler, error) {
	verifC21HandlersOnce.Do(func() {
		h0, err := economics.NewBuiltInFunctionsCost(&economics.ArgsBuiltInFunctionCost{
			GasSchedule: mock.NewGasScheduleNotifierMock(verifC21GasScheduleV3),
			ArgsParser:  smartContract.NewArgumentParser(),
		})
		if err != nil {
			verifC21HandlersErr = err
			return
		}
		h1, err := economics.NewBuiltInFunctionsCost(&economics.ArgsBuiltInFunctionCost{
			GasSchedule: mock.NewGasScheduleNotifierMock(defaults.FillGasMapInternal(map[string]map[string]uint64{}, 1)),
			ArgsParser:  smartContract.NewArgumentParser(),
		})
		if err != nil {
			verifC21HandlersErr = err
			return
		}
		verifC21Handlers = [2]economics.BuiltInFunctionsCostHandler{h0, h1}
	})
	return verifC21Handlers, verifC21HandlersErr
}

type verifC21Env struct {
	ed                  verifC21Fee
	minGasPrice         uint64
	minGasLimit         uint64
	gasPerDataByte      uint64
	maxGasLimitPerBlock uint64
	modifier            float64
	penalizedOn         bool
	modifierOn          bool
	costKind            int // 0 real schedule, 1 unit costs
	supply              *big.Int
	builtIn             economics.BuiltInFunctionsCostHandler
}

func (e *verifC21Env) String() string {
	return fmt.Sprintf("cfg{minGasPrice %d minGasLimit %d gasPerDataByte %d maxGasLimitPerBlock %d modifier %v penalizedFlag %v modifierFlag %v builtInCosts %d}",
		e.minGasPrice, e.minGasLimit, e.gasPerDataByte, e.maxGasLimitPerBlock, e.modifier, e.penalizedOn, e.modifierOn, e.costKind)
}

var verifC21Supply, _ = new(big.Int).SetString("20000000000000000000000000", 10) // 2*10^25

func verifC21GenLog(rt *rapid.T, label string, loExp, hiExp int) uint64 {
	// log-uniform: a power of ten times a drawn mantissa
	e := rapid.IntRange(loExp, hiExp-1).Draw(rt, label+"Exp")
	p := uint64(1)
	for i := 0; i < e; i++ {
		p *= 10
	}
	return rapid.Uint64Range(p, p*10).Draw(rt, label)
}

func verifC21GenEnv(rt *rapid.T) *verifC21Env {
	handlers, err := verifC21BuiltInHandlers()
	if err != nil {
		rt.Fatalf("fixture: built-in cost handler: %v", err)
	}
	env := &verifC21Env{supply: verifC21Supply}
	switch rapid.IntRange(0, 3).Draw(rt, "minGasPriceKind") {
	case 0:
		env.minGasPrice = 1000000000
	case 1:
		env.minGasPrice = 1000
	default:
		env.minGasPrice = verifC21GenLog(rt, "minGasPrice", 3, 12)
	}
	switch rapid.IntRange(0, 3).Draw(rt, "minGasLimitKind") {
	case 0:
		env.minGasLimit = 50000
	case 1:
		env.minGasLimit = 1
	default:
		env.minGasLimit = verifC21GenLog(rt, "minGasLimit", 0, 6)
	}
	switch rapid.IntRange(0, 3).Draw(rt, "gasPerByteKind") {
	case 0:
		env.gasPerDataByte = 1500
	case 1:
		env.gasPerDataByte = 1
	default:
		env.gasPerDataByte = verifC21GenLog(rt, "gasPerDataByte", 0, 4)
	}
	switch rapid.IntRange(0, 3).Draw(rt, "maxGasKind") {
	case 0:
		env.maxGasLimitPerBlock = 1500000000
	case 1:
		env.maxGasLimitPerBlock = 15000000000
	default:
		lo := env.minGasLimit * 10
		if rapid.IntRange(0, 4).Draw(rt, "maxGasRoomForData") != 4 {
			// room for the largest generated data field (otherwise most transactions are rejected for their size)
			if room := env.minGasLimit + 2100*env.gasPerDataByte; room > lo {
				lo = room
			}
		}
		env.maxGasLimitPerBlock = rapid.Uint64Range(lo, 15000000000).Draw(rt, "maxGasLimitPerBlock")
	}
	switch rapid.IntRange(0, 4).Draw(rt, "modifierKind") {
	case 0:
		env.modifier = 1
	case 1:
		env.modifier = 0.5
	case 2:
		env.modifier = 0.01
	default:
		env.modifier = rapid.Float64Range(0.001, 1).Draw(rt, "modifier")
	}
	epochs := []uint32{0, 2, 5}
	penalizedEpoch := epochs[rapid.IntRange(0, 2).Draw(rt, "penalizedEnableEpoch")]
	modifierEpoch := epochs[rapid.IntRange(0, 2).Draw(rt, "modifierEnableEpoch")]
	epoch := uint32(rapid.IntRange(0, 6).Draw(rt, "epoch"))
	env.penalizedOn = epoch >= penalizedEpoch
	env.modifierOn = epoch >= modifierEpoch
	env.costKind = rapid.IntRange(0, 3).Draw(rt, "builtInCosts") / 3 // 0,0,0,1
	env.builtIn = handlers[env.costKind]

	cfg := createDummyEconomicsConfig(config.FeeSettings{
		MaxGasLimitPerBlock:     strconv.FormatUint(env.maxGasLimitPerBlock, 10),
		MaxGasLimitPerMetaBlock: strconv.FormatUint(env.maxGasLimitPerBlock, 10),
		MinGasPrice:             strconv.FormatUint(env.minGasPrice, 10),
		MinGasLimit:             strconv.FormatUint(env.minGasLimit, 10),
		GasPerDataByte:          strconv.FormatUint(env.gasPerDataByte, 10),
		GasPriceModifier:        env.modifier,
	})
	cfg.GlobalSettings.GenesisTotalSupply = env.supply.String()
	ed, err := economics.NewEconomicsData(economics.ArgsNewEconomicsData{
		Economics:                      cfg,
		EpochNotifier:                  &mock.EpochNotifierStub{},
		BuiltInFunctionsCostHandler:    env.builtIn,
		PenalizedTooMuchGasEnableEpoch: penalizedEpoch,
		GasPriceModifierEnableEpoch:    modifierEpoch,
	})
	if err != nil {
		rt.Fatalf("fixture: NewEconomicsData rejected a configuration built to be valid: %v (%s)", err, env)
	}
	ed.EpochConfirmed(epoch, 0)
	env.ed = ed
	return env
}

type verifC21Tx struct {
	tx          *transaction.Transaction
	builtIn     bool   // by construction: a special built-in function call that the fee handler prices separately
	builtInCost uint64 // own model of the built-in cost (0 if not built-in)
	dataKind    string
	hugePrice   bool
}

func (t *verifC21Tx) String() string {
	d := string(t.tx.Data)
	if len(d) > 120 {
		d = d[:120] + fmt.Sprintf("...(%d bytes)", len(t.tx.Data))
	}
	return fmt.Sprintf("tx{gasPrice %d gasLimit %d value %v data(%s) %q rcv %x}", t.tx.GasPrice, t.tx.GasLimit, t.tx.Value, t.dataKind, d, t.tx.RcvAddr)
}

func verifC21HexArg(rt *rapid.T, label string, maxBytes int) (string, int) {
	n := rapid.IntRange(0, maxBytes).Draw(rt, label+"Len")
	b := make([]byte, n)
	fill := rapid.Byte().Draw(rt, label+"Fill")
	for i := range b {
		b[i] = fill + byte(i)
	}
	return hex.EncodeToString(b), n
}

var verifC21BuiltInNames = []string{
	core.BuiltInFunctionESDTTransfer, core.BuiltInFunctionSaveKeyValue, core.BuiltInFunctionESDTNFTCreate, core.BuiltInFunctionClaimDeveloperRewards,
	core.BuiltInFunctionChangeOwnerAddress, core.BuiltInFunctionSetUserName, core.BuiltInFunctionESDTBurn, core.BuiltInFunctionESDTLocalBurn,
	core.BuiltInFunctionESDTLocalMint, core.BuiltInFunctionESDTNFTAddQuantity, core.BuiltInFunctionESDTNFTBurn,
}

func verifC21ModelBuiltInCost(costKind int, function string, argBytes int) uint64 {
	sched := verifC21GasScheduleV3[core.BuiltInCost]
	storePerByte := verifC21GasScheduleV3[core.BaseOperationCost]["StorePerByte"]
	unit := costKind == 1
	get := func(name string) uint64 {
		if unit {
			return 1
		}
		return sched[name]
	}
	if unit {
		storePerByte = 1
	}
	switch function {
	case core.BuiltInFunctionClaimDeveloperRewards:
		return get("ClaimDeveloperRewards")
	case core.BuiltInFunctionChangeOwnerAddress:
		return get("ChangeOwnerAddress")
	case core.BuiltInFunctionSetUserName:
		return get("SaveUserName")
	case core.BuiltInFunctionSaveKeyValue:
		return get("SaveKeyValue")
	case core.BuiltInFunctionESDTTransfer:
		return get("ESDTTransfer")
	case core.BuiltInFunctionESDTBurn:
		return get("ESDTBurn")
	case core.BuiltInFunctionESDTLocalBurn:
		return get("ESDTLocalBurn")
	case core.BuiltInFunctionESDTLocalMint:
		return get("ESDTLocalMint")
	case core.BuiltInFunctionESDTNFTAddQuantity:
		return get("ESDTNFTAddQuantity")
	case core.BuiltInFunctionESDTNFTBurn:
		return get("ESDTNFTBurn")
	case core.BuiltInFunctionESDTNFTCreate:
		return get("ESDTNFTCreate") + uint64(argBytes)*storePerByte
	}
	return 0
}

// verifC21GenData draws the data field and the receiver.
func verifC21GenData(rt *rapid.T, env *verifC21Env) (data []byte, rcv []byte, kind string, builtIn bool, cost uint64) {
	scRcv := rapid.IntRange(0, 3).Draw(rt, "rcvKind") == 0
	rcv = make([]byte, 32)
	fill := rapid.Byte().Draw(rt, "rcvFill")
	for i := range rcv {
		rcv[i] = fill + byte(i) + 1
	}
	if rcv[0] == 0 {
		rcv[0] = 1
	}
	if scRcv {
		for i := 0; i < core.NumInitCharactersForScAddress-core.VMTypeLen; i++ {
			rcv[i] = 0
		}
	}
	switch rapid.IntRange(0, 9).Draw(rt, "dataKind") {
	case 0, 1:
		return nil, rcv, "empty", false, 0
	case 2:
		n := rapid.IntRange(1, 2000).Draw(rt, "plainLen")
		if rapid.Bool().Draw(rt, "plainShort") {
			n = rapid.IntRange(1, 40).Draw(rt, "plainLenShort")
		}
		b := make([]byte, n)
		for i := range b {
			b[i] = 'a' + byte(i%23)
		}
		return b, rcv, "plain", false, 0
	case 3, 4:
		nargs := rapid.IntRange(0, 4).Draw(rt, "scArgs")
		s := []string{"transfer", "increment", "doSomething"}[rapid.IntRange(0, 2).Draw(rt, "scFunc")]
		for i := 0; i < nargs; i++ {
			a, _ := verifC21HexArg(rt, "scArg", 40)
			s += "@" + a
		}
		return []byte(s), rcv, "func@args", false, 0
	default:
		fn := verifC21BuiltInNames[rapid.IntRange(0, len(verifC21BuiltInNames)-1).Draw(rt, "builtInFunc")]
		if rapid.IntRange(0, 2).Draw(rt, "builtInCommon") == 0 {
			fn = core.BuiltInFunctionESDTTransfer
		}
		nargs := rapid.IntRange(0, 4).Draw(rt, "builtInArgs")
		if fn == core.BuiltInFunctionESDTNFTCreate {
			nargs = rapid.IntRange(0, 8).Draw(rt, "nftArgs")
		}
		s := fn
		total := 0
		for i := 0; i < nargs; i++ {
			max := 20
			if fn == core.BuiltInFunctionESDTNFTCreate && rapid.IntRange(0, 3).Draw(rt, "bigArg") == 0 {
				max = 120
			}
			a, n := verifC21HexArg(rt, "biArg", max)
			total += n
			s += "@" + a
		}
		kind = "builtIn:" + fn
		isSCCallAfter := scRcv && nargs > core.MinLenArgumentsESDTTransfer
		if isSCCallAfter {
			return []byte(s), rcv, kind + "+scCall", false, 0
		}
		return []byte(s), rcv, kind, true, verifC21ModelBuiltInCost(env.costKind, fn, total)
	}
}

func verifC21ClampAdd(a, b uint64) uint64 {
	if a+b < a {
		return math.MaxUint64
	}
	return a + b
}

func verifC21ClampMul(a, b uint64) uint64 {
	if b != 0 && a > math.MaxUint64/b {
		return math.MaxUint64
	}
	return a * b
}

// verifC21GenTx draws a transaction for env. forceValid keeps every field inside what CheckValidityTxValues accepts
// (as far as construction can: a data field that needs more gas than a block holds is still rejected).
func verifC21GenTx(rt *rapid.T, env *verifC21Env) *verifC21Tx {
	data, rcv, kind, builtIn, cost := verifC21GenData(rt, env)
	t := &verifC21Tx{dataKind: kind, builtIn: builtIn, builtInCost: cost}
	tx := &transaction.Transaction{Data: data, RcvAddr: rcv, SndAddr: []byte("sender")}
	// one draw decides whether (and how) the transaction is made invalid on purpose: ~8% of the cases
	invalid := rapid.IntRange(0, 59).Draw(rt, "invalidKind")

	gasPriceKind := rapid.IntRange(0, 23).Draw(rt, "gasPriceKind")
	if invalid == 30 {
		gasPriceKind = 24
	}
	switch gasPriceKind {
	case 24:
		tx.GasPrice = env.minGasPrice - 1 // rejected
	case 22, 23:
		// beyond 2^53: float64(gasPrice) is not exact any more
		t.hugePrice = true
		switch rapid.IntRange(0, 5).Draw(rt, "hugePriceKind") {
		case 3, 4:
			sh := uint(rapid.IntRange(0, 11).Draw(rt, "hugePriceShift"))
			tx.GasPrice = rapid.Uint64Range(1<<52, 1<<53-1).Draw(rt, "hugePriceMantissa") << sh
		case 0:
			tx.GasPrice = 1<<53 + uint64(rapid.IntRange(1, 9).Draw(rt, "hugePriceOdd"))
		case 1:
			tx.GasPrice = 1 << uint(rapid.IntRange(53, 63).Draw(rt, "hugePricePow2"))
		case 2:
			tx.GasPrice = math.MaxUint64 - uint64(rapid.IntRange(0, 4096).Draw(rt, "hugePriceTop"))
		default:
			tx.GasPrice = rapid.Uint64Range(1<<53, math.MaxUint64).Draw(rt, "hugePrice")
		}
	case 0, 1, 2, 3:
		tx.GasPrice = env.minGasPrice
	case 4:
		tx.GasPrice = env.minGasPrice + 1
	default:
		tx.GasPrice = rapid.Uint64Range(env.minGasPrice, env.minGasPrice*1000).Draw(rt, "gasPrice")
	}

	required := env.minGasLimit + uint64(len(data))*env.gasPerDataByte
	withCost := verifC21ClampAdd(required, cost)
	lowOff := -2
	if cost == 0 {
		lowOff = 0 // without a built-in cost "around move gas + cost" is around the required gas: stay valid
	}
	gasLimitKind := rapid.IntRange(0, 17).Draw(rt, "gasLimitKind")
	if invalid == 31 || invalid == 32 {
		gasLimitKind = 18 + (invalid - 31)
	}
	switch gasLimitKind {
	case 0:
		tx.GasLimit = required
	case 1:
		tx.GasLimit = required + 1
	case 2, 3, 4:
		// around move gas + built-in cost
		tx.GasLimit = uint64(int64(withCost) + int64(rapid.IntRange(lowOff, 2).Draw(rt, "aroundCost")))
	case 5, 6:
		// around the "too much gas provided" factor
		tx.GasLimit = uint64(int64(verifC21ClampMul(withCost, process.MaxGasFeeHigherFactorAccepted)) + int64(rapid.IntRange(-2, 2).Draw(rt, "aroundFactor")))
	case 7:
		if cost > 0 {
			tx.GasLimit = rapid.Uint64Range(required, withCost).Draw(rt, "belowCost")
		} else {
			tx.GasLimit = required
		}
	case 17:
		tx.GasLimit = env.maxGasLimitPerBlock - 1 - uint64(rapid.IntRange(0, 2).Draw(rt, "belowMax"))
	case 18:
		tx.GasLimit = env.maxGasLimitPerBlock // rejected
	case 19:
		tx.GasLimit = required - 1 // rejected
	default:
		hi := verifC21ClampMul(required, 1000)
		if hi >= env.maxGasLimitPerBlock && env.maxGasLimitPerBlock > required+1 {
			hi = env.maxGasLimitPerBlock - 1
		}
		tx.GasLimit = rapid.Uint64Range(required, hi).Draw(rt, "gasLimit")
	}

	valueKind := rapid.IntRange(0, 9).Draw(rt, "valueKind")
	if invalid == 33 || invalid == 34 {
		valueKind = 10 + (invalid - 33)
	}
	switch valueKind {
	case 0, 1, 2:
		tx.Value = big.NewInt(0)
	case 3:
		tx.Value = new(big.Int).Set(env.supply)
	case 10:
		tx.Value = new(big.Int).Add(env.supply, big.NewInt(1)) // rejected
	case 11:
		tx.Value = new(big.Int).Lsh(big.NewInt(1), 100) // rejected (more bytes than the supply)
	default:
		b := rapid.SliceOfN(rapid.Byte(), 0, 11).Draw(rt, "valueBytes")
		tx.Value = new(big.Int).SetBytes(b)
		if tx.Value.Cmp(env.supply) > 0 {
			tx.Value.Mod(tx.Value, env.supply)
		}
	}
	t.tx = tx
	return t
}

func verifC21Mul(a, b uint64) *big.Int {
	return new(big.Int).Mul(new(big.Int).SetUint64(a), new(big.Int).SetUint64(b))
}

func verifC21GenGasUsed(rt *rapid.T, required, limit uint64) []uint64 {
	vals := []uint64{0, required, limit}
	n := rapid.IntRange(1, 5).Draw(rt, "gasUsedCount")
	for i := 0; i < n; i++ {
		switch rapid.IntRange(0, 6).Draw(rt, "gasUsedKind") {
		case 0:
			vals = append(vals, required-1)
		case 1:
			vals = append(vals, required+1)
		case 2:
			vals = append(vals, limit-1)
		case 3:
			vals = append(vals, verifC21ClampAdd(limit, uint64(rapid.IntRange(1, 1000).Draw(rt, "aboveLimit"))))
		case 4:
			vals = append(vals, verifC21ClampMul(limit, 2))
		default:
			vals = append(vals, rapid.Uint64Range(0, limit).Draw(rt, "gasUsed"))
		}
	}
	sort.Slice(vals, func(i, j int) bool { return vals[i] < vals[j] })
	return vals
}

// verifC21CheckTx judges one validated transaction.
func verifC21CheckTx(rt *rapid.T, c *kit.Case, env *verifC21Env, t *verifC21Tx) {
	ed, tx := env.ed, t.tx
	ctx := func() string { return env.String() + " " + t.String() }
	sfx := ""
	if t.hugePrice {
		sfx = ":gas-price-above-2^53"
	}
	P, L := tx.GasPrice, tx.GasLimit
	required := env.minGasLimit + uint64(len(tx.Data))*env.gasPerDataByte
	moveModel := verifC21Mul(P, required)
	authorised := verifC21Mul(P, L)

	// Known finding (see notes/reports/C21.md): GasPriceForProcessing = uint64(float64(gasPrice)*modifier). A gas price
	// above 2^53 that float64 cannot represent is rounded (up: with a modifier of 1 - or the modifier flag off, where
	// the modifier reads 1 - the processing price exceeds the gas price and fees exceed gasLimit*gasPrice by up to
	// 2^-53 of their value; at 2^64-1024 and above the conversion back to uint64 overflows and is platform-defined).
	// Exactly the gas prices float64 cannot represent are excluded by construction and counted.
	if pf := float64(P); P >= 1<<53 && (pf >= 0x1p64 || uint64(pf) != P) {
		c.Excluded("C21:gas-price-not-representable-in-float64")
		c.Class("excluded:gas-price-not-representable-in-float64")
		return
	}

	var move, full *big.Int
	c.NoPanic("C21:panic", func() { move = ed.ComputeMoveBalanceFee(tx); full = ed.ComputeTxFee(tx) })
	if move.Cmp(moveModel) != 0 {
		c.Violation("C21:move-fee-model"+sfx, "ComputeMoveBalanceFee = %v, want gasPrice*(minGasLimit+len(data)*gasPerDataByte) = %v; %s", move, moveModel, ctx())
	}
	if full.Cmp(moveModel) < 0 {
		c.Violation("C21:fee-below-move-fee"+sfx, "ComputeTxFee = %v < move-balance fee %v; %s", full, moveModel, ctx())
	}
	if full.Cmp(authorised) > 0 {
		c.Violation("C21:fee-above-authorised"+sfx, "ComputeTxFee = %v > gasLimit*gasPrice = %v; %s", full, authorised, ctx())
	}
	var gMove, gProc uint64
	c.NoPanic("C21:panic", func() { gMove, gProc = ed.SplitTxGasInCategories(tx) })
	if sum := new(big.Int).Add(new(big.Int).SetUint64(gMove), new(big.Int).SetUint64(gProc)); sum.Cmp(new(big.Int).SetUint64(L)) != 0 {
		c.Violation("C21:split-sum", "SplitTxGasInCategories = (%d, %d), sum != gasLimit %d; %s", gMove, gProc, L, ctx())
	}

	// "the full fee": ComputeTxFee whenever one of the two flags is on. With both flags off (legacy epochs)
	// ComputeTxFee is by construction only the move-balance fee (contract gas was charged separately, as
	// gasLimit*gasPrice, by the contract processor); there the bound for gas-used based fees is what the sender
	// authorised.
	bound := full
	if !env.penalizedOn && !env.modifierOn {
		bound = authorised
	}

	// fee computed from gas used
	used := verifC21GenGasUsed(rt, required, L)
	var prevFee *big.Int
	var prevUsed uint64
	for _, u := range used {
		var f *big.Int
		c.NoPanic("C21:panic", func() { f = ed.ComputeTxFeeBasedOnGasUsed(tx, u) })
		if f.Cmp(moveModel) < 0 {
			c.Violation("C21:gas-used-fee-below-move-fee"+sfx, "ComputeTxFeeBasedOnGasUsed(%d) = %v < move-balance fee %v; %s", u, f, moveModel, ctx())
		}
		if prevFee != nil && f.Cmp(prevFee) < 0 {
			c.Violation("C21:gas-used-fee-not-monotone"+sfx, "ComputeTxFeeBasedOnGasUsed(%d) = %v < ComputeTxFeeBasedOnGasUsed(%d) = %v; %s", u, f, prevUsed, prevFee, ctx())
		}
		if u <= L && f.Cmp(bound) > 0 {
			c.Violation("C21:gas-used-fee-above-full-fee"+sfx, "ComputeTxFeeBasedOnGasUsed(%d) = %v > full fee %v (gasLimit %d); %s", u, f, bound, L, ctx())
		}
		prevFee, prevUsed = f, u
	}

	// refunds: r in [0, ComputeTxFee - move fee] (a refund cannot exceed what was charged for processing)
	maxRefund := new(big.Int).Sub(full, moveModel)
	procPrice := ed.GasPriceForProcessing(tx)
	if procPrice == 0 {
		rt.Fatalf("fixture: processing price 0 is outside the generated domain (%s)", ctx())
	}
	refunds := []*big.Int{big.NewInt(0)}
	nRef := rapid.IntRange(1, 3).Draw(rt, "refundCount")
	for i := 0; i < nRef && maxRefund.Sign() > 0; i++ {
		var r *big.Int
		switch rapid.IntRange(0, 5).Draw(rt, "refundKind") {
		case 0:
			r = new(big.Int).Set(maxRefund)
		case 1:
			r = big.NewInt(1)
		case 2:
			r = new(big.Int).Sub(maxRefund, big.NewInt(1))
		case 3, 4:
			// a whole number of gas units at the processing price (what the VM refunds)
			units := new(big.Int).Div(maxRefund, new(big.Int).SetUint64(procPrice))
			if units.IsUint64() && units.Sign() > 0 {
				k := rapid.Uint64Range(1, units.Uint64()).Draw(rt, "refundUnits")
				r = verifC21Mul(k, procPrice)
			} else {
				r = new(big.Int).Set(maxRefund)
			}
		default:
			b := rapid.SliceOfN(rapid.Byte(), 1, 12).Draw(rt, "refundBytes")
			r = new(big.Int).SetBytes(b)
			r.Mod(r, new(big.Int).Add(maxRefund, big.NewInt(1)))
		}
		refunds = append(refunds, r)
	}
	positiveRefund := false
	for _, r := range refunds {
		rCopy := new(big.Int).Set(r)
		var g uint64
		var f *big.Int
		c.NoPanic("C21:panic", func() { g, f = ed.ComputeGasUsedAndFeeBasedOnRefundValue(tx, r) })
		if r.Cmp(rCopy) != 0 {
			c.Violation("C21:refund-argument-modified", "refund argument changed from %v to %v; %s", rCopy, r, ctx())
		}
		builtInNoRefund := t.builtIn && r.Sign() == 0
		class := "refund"
		if builtInNoRefund {
			class = "built-in-no-refund"
		}
		if g > L {
			c.Violation("C21:gas-used-above-gas-limit:"+class+sfx, "ComputeGasUsedAndFeeBasedOnRefundValue(refund %v) reports gasUsed %d > gasLimit %d (fee %v, full fee %v, move gas %d, built-in cost %d); %s",
				r, g, L, f, full, required, t.builtInCost, ctx())
		}
		if builtInNoRefund {
			// a built-in call reported without a refund result: the handler prices it itself (move gas + built-in
			// cost); what is stated is only that the fee stays between the move fee and the full fee
			if f.Cmp(moveModel) < 0 || f.Cmp(bound) > 0 {
				c.Violation("C21:built-in-fee-out-of-bounds"+sfx, "ComputeGasUsedAndFeeBasedOnRefundValue(refund 0) fee %v is outside [move fee %v, full fee %v] (gasUsed %d, gasLimit %d, built-in cost %d); %s",
					f, moveModel, bound, g, L, t.builtInCost, ctx())
			}
			continue
		}
		if want := new(big.Int).Sub(full, r); f.Cmp(want) != 0 {
			c.Violation("C21:refund-not-exact"+sfx, "ComputeGasUsedAndFeeBasedOnRefundValue(refund %v) fee %v, want ComputeTxFee - refund = %v; %s", r, f, want, ctx())
		}
		if r.Sign() > 0 {
			positiveRefund = true
		}
	}

	// smart contract results carrying the same fee fields: the formulas must not panic and stay within gasLimit*gasPrice
	scr := &smartContractResult.SmartContractResult{GasPrice: P, GasLimit: L, Data: tx.Data, Value: tx.Value, RcvAddr: tx.RcvAddr}
	var scrFee *big.Int
	c.NoPanic("C21:scr-panic", func() {
		scrFee = ed.ComputeTxFee(scr)
		_ = ed.ComputeMoveBalanceFee(scr)
		_ = ed.ComputeTxFeeBasedOnGasUsed(scr, used[len(used)/2])
		_, _ = ed.SplitTxGasInCategories(scr)
		_ = ed.CheckValidityTxValues(scr)
		_, _ = ed.ComputeGasUsedAndFeeBasedOnRefundValue(scr, big.NewInt(0))
	})
	if scrFee.Cmp(authorised) > 0 {
		c.Violation("C21:scr-fee-above-authorised"+sfx, "ComputeTxFee(SCR) = %v > gasLimit*gasPrice = %v; %s", scrFee, authorised, ctx())
	}

	if t.builtIn {
		c.Class("built-in-call")
		if L < verifC21ClampAdd(required, t.builtInCost) {
			c.Class("built-in-call:gas-below-cost")
		}
	}
	if t.hugePrice {
		c.Class("gas-price-above-2^53")
	}
	c.Class(fmt.Sprintf("flags:penalized=%v,modifier=%v", env.penalizedOn, env.modifierOn))
	if env.modifierOn && L > required && positiveRefund {
		c.NonTrivial(fmt.Sprint(env.String(), P, L, len(tx.Data), refunds))
		c.Sample("%s refunds %v gasUsed %v", ctx(), refunds, used)
	}
}

func TestVerifC21_Fees(t *testing.T) {
	kit.Run(t, "C21", kit.Budget{Quick: 15000, Thorough: 150000},
		"EG (minGasPrice 10^3..10^12, minGasLimit 1..10^6, gasPerDataByte 1..10^4, maxGasLimitPerBlock up to 1.5*10^10, modifier in {1,0.5,0.01,[0.001,1]}, enable epochs {0,2,5} x current epoch 0..6 = all four flag combinations, real built-in cost handler with schedule V3 or unit costs) + tx (gas price min..min*10^3 and ~4% beyond 2^53, data empty/plain/func@args/built-in calls up to 2000 bytes, user or contract receiver, gas limit at required, around move gas + built-in cost, around 10x that, up to required*10^3, value 0..supply; ~10% deliberately invalid); only txs accepted by CheckValidityTxValues are judged; gas used values 0, required+-1, limit+-1, random, above limit; refunds 0, 1, max, max-1, multiples of the processing price, random in [0, fee - move fee]; non-trivial = modifier flag on, gasLimit > required, a refund > 0",
		func(rt *rapid.T, c *kit.Case) {
			env := verifC21GenEnv(rt)
			gt := verifC21GenTx(rt, env)
			var err error
			c.NoPanic("C21:panic", func() { err = env.ed.CheckValidityTxValues(gt.tx) })
			if err != nil {
				c.Class("rejected:" + err.Error())
				c.Class("rejected")
				return
			}
			c.Class("judged")
			verifC21CheckTx(rt, c, env, gt)
		})
}

// ---------------------------------------------------------------------------------------------------------------
// C22

func TestVerifC22_GasLimitBasedOnBalance(t *testing.T) {
	kit.Run(t, "C22", kit.Budget{Quick: 15000, Thorough: 150000},
		"EG + tx as in C21 (gas limit field irrelevant) + balance in [0, 10^30] biased to value, value + move fee (+-1), value + move fee + k processing-price units (+-1); oracle: err == nil => ComputeTxFee(tx with the returned gas limit) <= balance - value; an error is only classified (insufficient funds expected iff balance - value <= 0 or < move fee); non-trivial = err == nil and returned gas limit > required gas",
		func(rt *rapid.T, c *kit.Case) {
			env := verifC21GenEnv(rt)
			gt := verifC21GenTx(rt, env)
			tx := gt.tx
			if tx.GasPrice < env.minGasPrice {
				tx.GasPrice = env.minGasPrice // the estimator is fed API transactions; keep the price in the accepted domain
			}
			if tx.Value.Cmp(env.supply) > 0 {
				tx.Value = new(big.Int).Set(env.supply)
			}
			required := env.minGasLimit + uint64(len(tx.Data))*env.gasPerDataByte
			moveModel := verifC21Mul(tx.GasPrice, required)
			procPrice := env.ed.GasPriceForProcessing(tx)
			if procPrice == 0 {
				rt.Fatalf("fixture: processing price 0 is outside the generated domain (%s %s)", env, gt)
			}

			base := new(big.Int).Add(tx.Value, moveModel)
			var balance *big.Int
			switch rapid.IntRange(0, 11).Draw(rt, "balanceKind") {
			case 9:
				balance = new(big.Int).Set(tx.Value)
			case 10:
				balance = new(big.Int).Add(tx.Value, big.NewInt(1))
			case 4:
				balance = new(big.Int).Add(base, big.NewInt(int64(rapid.IntRange(-2, 2).Draw(rt, "aroundMoveFee"))))
			case 0, 1, 2, 3:
				k := rapid.Uint64Range(0, 2000000000).Draw(rt, "extraGasUnits")
				if rapid.Bool().Draw(rt, "fewUnits") {
					k = rapid.Uint64Range(0, 5).Draw(rt, "extraGasUnitsSmall")
				}
				unit := procPrice
				if rapid.IntRange(0, 3).Draw(rt, "unitIsGasPrice") == 0 {
					unit = tx.GasPrice
				}
				balance = new(big.Int).Add(base, verifC21Mul(k, unit))
				balance.Add(balance, big.NewInt(int64(rapid.IntRange(-2, 2).Draw(rt, "aroundUnit"))))
			case 5:
				balance = new(big.Int).Exp(big.NewInt(10), big.NewInt(30), nil)
			case 11:
				balance = big.NewInt(0)
			default:
				// value + a drawn amount up to 10^30
				b := rapid.SliceOfN(rapid.Byte(), 0, 13).Draw(rt, "balanceBytes")
				balance = new(big.Int).SetBytes(b)
				balance.Mod(balance, new(big.Int).Exp(big.NewInt(10), big.NewInt(30), nil))
				if rapid.Bool().Draw(rt, "aboveValue") {
					balance.Add(balance, tx.Value)
				}
			}
			if balance.Sign() < 0 {
				balance.SetInt64(0)
			}
			balCopy := new(big.Int).Set(balance)
			valCopy := new(big.Int).Set(tx.Value)
			budget := new(big.Int).Sub(balance, tx.Value)
			ctx := func() string { return fmt.Sprintf("%s %s balance %v (balance - value = %v)", env, gt, balance, budget) }

			var g uint64
			var err error
			c.NoPanic("C22:panic", func() { g, err = env.ed.ComputeGasLimitBasedOnBalance(tx, balance) })
			if balance.Cmp(balCopy) != 0 || tx.Value.Cmp(valCopy) != 0 {
				c.Violation("C22:argument-modified", "balance or value changed by the call; %s", ctx())
			}
			expectErr := budget.Sign() <= 0 || budget.Cmp(moveModel) < 0
			if err != nil {
				if expectErr {
					c.Class("error:expected(insufficient funds)")
				} else {
					c.Class("error:with-sufficient-funds")
				}
				return
			}
			if expectErr {
				c.Class("estimate-despite-insufficient-funds")
			}
			tx2 := *tx
			tx2.GasLimit = g
			var fee *big.Int
			c.NoPanic("C22:panic", func() { fee = env.ed.ComputeTxFee(&tx2) })
			if fee.Cmp(budget) > 0 {
				c.Violation("C22:estimate-not-affordable", "ComputeGasLimitBasedOnBalance = %d; ComputeTxFee with that gas limit = %v > balance - value = %v; %s", g, fee, budget, ctx())
			}
			// tightness is not part of the statement: classify only
			if g < math.MaxUint64 {
				tx3 := *tx
				tx3.GasLimit = g + 1
				if env.ed.ComputeTxFee(&tx3).Cmp(budget) > 0 {
					c.Class("estimate-is-maximal")
				} else {
					c.Class("estimate-not-maximal")
				}
			}
			c.Class(fmt.Sprintf("flags:penalized=%v,modifier=%v", env.penalizedOn, env.modifierOn))
			if g > required {
				c.NonTrivial(fmt.Sprint(env.String(), tx.GasPrice, len(tx.Data), tx.Value, balance))
				c.Sample("%s -> gas limit %d, fee %v", ctx(), g, fee)
			}
		})
}

// ---------------------------------------------------------------------------------------------------------------
// regressions (run in every tier)

func verifC21RegressEnv(t *testing.T, modifierEpoch uint32) verifC21Fee {
	kit.Silence()
	handlers, err := verifC21BuiltInHandlers()
	if err != nil {
		t.Fatalf("fixture: %v", err)
	}
	args := createArgsForEconomicsDataRealFees(handlers[0]) // mainnet fee settings: 10^9, 50000, 1500, modifier 0.01
	args.GasPriceModifierEnableEpoch = modifierEpoch
	ed, err := economics.NewEconomicsData(args)
	if err != nil {
		t.Fatalf("fixture: %v", err)
	}
	return ed
}

// suspicion 24: built-in call whose gas limit covers the move-balance gas (so the transaction is valid) but not
// the built-in cost.
func TestVerifC21_Regress(t *testing.T) {
	ed := verifC21RegressEnv(t, 0)
	data := []byte("ESDTTransfer@54474e2d383862383366@0a")
	moveGas := uint64(50000 + 1500*len(data))
	tx := &transaction.Transaction{GasPrice: 1000000000, GasLimit: moveGas, Data: data, Value: big.NewInt(0), RcvAddr: []byte(strings.Repeat("r", 32))}
	if err := ed.CheckValidityTxValues(tx); err != nil {
		t.Fatalf("fixture: the transaction must be valid: %v", err)
	}
	full := ed.ComputeTxFee(tx)
	g, f := ed.ComputeGasUsedAndFeeBasedOnRefundValue(tx, big.NewInt(0))
	if g > tx.GasLimit {
		kit.FailPlain(t, "C21", "C21:gas-used-above-gas-limit:built-in-no-refund", "ESDTTransfer with gasLimit = move gas %d: reported gasUsed %d > gasLimit, fee %v, full fee %v", moveGas, g, f, full)
	}
	if f.Cmp(full) > 0 {
		kit.FailPlain(t, "C21", "C21:built-in-fee-out-of-bounds", "ESDTTransfer with gasLimit = move gas %d: reported fee %v > full fee %v", moveGas, f, full)
	}
	// one gas unit below the cost, and exactly the cost
	for _, limit := range []uint64{moveGas + 250000 - 1, moveGas + 250000} {
		tx.GasLimit = limit
		full = ed.ComputeTxFee(tx)
		g, f = ed.ComputeGasUsedAndFeeBasedOnRefundValue(tx, big.NewInt(0))
		if g > limit {
			kit.FailPlain(t, "C21", "C21:gas-used-above-gas-limit:built-in-no-refund", "ESDTTransfer with gasLimit %d (move gas %d + cost 250000): reported gasUsed %d", limit, moveGas, g)
		}
		if f.Cmp(full) > 0 || f.Cmp(ed.ComputeMoveBalanceFee(tx)) < 0 {
			kit.FailPlain(t, "C21", "C21:built-in-fee-out-of-bounds", "ESDTTransfer with gasLimit %d: reported fee %v, full fee %v", limit, f, full)
		}
	}
}

func TestVerifC22_Regress(t *testing.T) {
	ed := verifC21RegressEnv(t, 0)
	tx := &transaction.Transaction{GasPrice: 1000000000, GasLimit: 0, Data: []byte("hello"), Value: big.NewInt(10)}
	moveFee := big.NewInt(0).Mul(big.NewInt(1000000000), big.NewInt(50000+5*1500))
	// exactly the move fee + 7 processing units (processing price 10^7) + 3
	balance := new(big.Int).Add(moveFee, big.NewInt(10+7*10000000+3))
	g, err := ed.ComputeGasLimitBasedOnBalance(tx, balance)
	if err != nil {
		t.Fatalf("fixture: %v", err)
	}
	tx.GasLimit = g
	if fee := ed.ComputeTxFee(tx); fee.Cmp(new(big.Int).Sub(balance, tx.Value)) > 0 {
		kit.FailPlain(t, "C22", "C22:estimate-not-affordable", "gas limit %d fee %v balance-value %v", g, fee, new(big.Int).Sub(balance, tx.Value))
	}
}
