package floodPreventers_test

import (
	"fmt"
	"strconv"
	"testing"

	"github.com/ElrondNetwork/elrond-go/core"
	"github.com/ElrondNetwork/elrond-go/process/throttle/antiflood/floodPreventers"
	"github.com/ElrondNetwork/elrond-go/storage/lrucache"
	kit "github.com/ElrondNetwork/elrond-go/verifkit"
	"pgregory.net/rapid"
)

// C42: Per-peer flood quotas are enforced.
//
// Between two resets, the number of messages accepted from one peer never exceeds its message quota (at
// least one message is always accepted), and the total size accepted never exceeds its byte quota plus the
// size of the first message.

type verifC42Peer struct {
	seen        bool   // a message was sent since the last reset
	accepted    uint64 // messages accepted since the last reset
	acceptedSum uint64 // bytes accepted since the last reset
	sentSum     uint64 // bytes sent since the last reset (generation only: aims sizes at the boundary)
	firstSize   uint64
	refused     bool // refused at least once in some earlier window
	refusedNow  bool // refused in the current window
	nRefused    int
}

type verifC42Cfg struct {
	base      uint32
	maxTotal  uint64
	reserved  float32
	threshold uint32
	factor    float32
}

func verifC42GenCfg(rt *rapid.T) verifC42Cfg {
	cfg := verifC42Cfg{}
	cfg.base = uint32(rapid.IntRange(1, 50).Draw(rt, "base"))
	cfg.maxTotal = uint64(rapid.IntRange(1, 10000).Draw(rt, "maxTotal"))
	if rapid.IntRange(0, 2).Draw(rt, "largeByteQuota") == 0 {
		// the byte quota is a free uint64 of the configuration (production: a few MB; nothing bounds it): large
		// values biased to powers of two and to values with low-order bits set
		var v uint64
		switch rapid.IntRange(0, 4).Draw(rt, "largeKind") {
		case 0:
			v = uint64(1) << uint(rapid.IntRange(14, 41).Draw(rt, "pow2"))
		case 1:
			v = rapid.SampledFrom([]uint64{100000000, 1000000000, 5000000000, 1 << 24, 1 << 32, 1 << 40}).Draw(rt, "round")
		case 2:
			v = (uint64(1) << uint(rapid.IntRange(14, 40).Draw(rt, "pow2a"))) + (uint64(1) << uint(rapid.IntRange(0, 16).Draw(rt, "pow2b")))
		default:
			v = rapid.Uint64Range(1<<14, 1<<41).Draw(rt, "anyLarge")
		}
		d := uint64(rapid.IntRange(0, 40).Draw(rt, "lowBits"))
		if rapid.Bool().Draw(rt, "minus") && v > d {
			v -= d
		} else {
			v += d
		}
		cfg.maxTotal = v
		if rapid.Bool().Draw(rt, "manyMessages") {
			// enough messages of <= 2^32 bytes to fill the byte quota
			cfg.base = uint32(rapid.IntRange(300, 2000).Draw(rt, "baseLarge"))
		}
	}
	switch rapid.IntRange(0, 3).Draw(rt, "reservedKind") {
	case 0, 1:
		cfg.reserved = 0
	case 2:
		cfg.reserved = float32(rapid.IntRange(0, 90).Draw(rt, "reservedInt"))
	default:
		cfg.reserved = float32(rapid.Float64Range(0, 90).Draw(rt, "reservedFloat"))
	}
	cfg.threshold = uint32(rapid.IntRange(0, 30).Draw(rt, "threshold"))
	switch rapid.IntRange(0, 2).Draw(rt, "factorKind") {
	case 0:
		cfg.factor = 0
	case 1:
		cfg.factor = 1
	default:
		cfg.factor = float32(rapid.Float64Range(0, 4).Draw(rt, "factor"))
	}
	return cfg
}

// verifC42Quota recomputes the message quota from the documented formula (config.toml / ApplyConsensusSize):
// the base value is increased by factor * (consensus size - threshold) once the consensus size reaches the
// threshold; sizes < 1 are invalid and ignored.
func verifC42Quota(cfg verifC42Cfg, current uint32, consensusSize int) uint32 {
	if consensusSize < 1 {
		return current
	}
	if cfg.threshold > uint32(consensusSize) {
		return current
	}
	over := float32(uint32(consensusSize) - cfg.threshold)
	return cfg.base + uint32(over*cfg.factor)
}

type verifC42Ev struct {
	kind  byte // 's' send, 'r' reset, 'c' consensus
	peer  string
	size  uint64
	ok    bool
	quota uint32
	cs    int
}

type verifC42Trace []verifC42Ev

func (tr verifC42Trace) String() string {
	b := make([]byte, 0, 16*len(tr))
	for i := 0; i < len(tr); i++ {
		e := tr[i]
		if i > 0 {
			b = append(b, ' ')
		}
		switch e.kind {
		case 's':
			// run-length encode identical consecutive sends
			n := 1
			for i+1 < len(tr) && tr[i+1] == e {
				i++
				n++
			}
			b = append(b, e.peer...)
			b = append(b, "<-"...)
			b = strconv.AppendUint(b, e.size, 10)
			if e.ok {
				b = append(b, ":ok"...)
			} else {
				b = append(b, ":refused"...)
			}
			if n > 1 {
				b = append(b, 'x')
				b = strconv.AppendInt(b, int64(n), 10)
			}
		case 'r':
			b = append(b, "RESET"...)
		case 'c':
			b = append(b, "CONSENSUS("...)
			b = strconv.AppendInt(b, int64(e.cs), 10)
			b = append(b, ")->quota "...)
			b = strconv.AppendUint(b, uint64(e.quota), 10)
		}
	}
	return string(b)
}

func verifC42Check(c *kit.Case, cfg verifC42Cfg, quota uint32, p *verifC42Peer, peer string, size uint64, err error, trace *verifC42Trace) {
	first := !p.seen
	if first {
		p.seen = true
		p.firstSize = size
	}
	p.sentSum += size
	if err != nil {
		*trace = append(*trace, verifC42Ev{kind: 's', peer: peer, size: size, ok: false})
		p.nRefused++
		if first {
			c.Violation("C42:first-message-refused", "the first message of %s (size %d) after a reset was refused: %v; cfg %+v; trace %s", peer, size, err, cfg, trace.String())
		}
		p.refusedNow = true
		return
	}
	*trace = append(*trace, verifC42Ev{kind: 's', peer: peer, size: size, ok: true})
	p.accepted++
	p.acceptedSum += size
	maxMsgs := uint64(quota)
	if maxMsgs < 1 {
		maxMsgs = 1
	}
	if p.accepted > maxMsgs {
		c.Violation("C42:message-quota-exceeded", "%s: %d messages accepted since the last reset, message quota %d; cfg %+v; trace %s", peer, p.accepted, quota, cfg, trace.String())
	}
	if p.acceptedSum > cfg.maxTotal+p.firstSize {
		c.Violation("C42:byte-quota-exceeded", "%s: %d bytes accepted since the last reset, byte quota %d + first message %d; cfg %+v; trace %s", peer, p.acceptedSum, cfg.maxTotal, p.firstSize, cfg, trace.String())
	}
}

func verifC42GenSize(rt *rapid.T, cfg verifC42Cfg, p *verifC42Peer) uint64 {
	size := verifC42GenSizeRaw(rt, cfg, p)
	if size > 1<<32 {
		// message sizes are message lengths (domain restriction)
		size = 1 << 32
	}
	return size
}

func verifC42GenSizeRaw(rt *rapid.T, cfg verifC42Cfg, p *verifC42Peer) uint64 {
	switch rapid.IntRange(0, 11).Draw(rt, "sizeKind") {
	case 0, 1:
		return 0
	case 2, 3:
		return 1
	case 4:
		return cfg.maxTotal - 1
	case 5:
		return cfg.maxTotal
	case 6:
		return cfg.maxTotal + 1
	case 7:
		// exactly up to / one past the byte quota, counting what was already sent
		d := uint64(rapid.IntRange(0, 2).Draw(rt, "delta"))
		if p.sentSum+1 <= cfg.maxTotal+d {
			return cfg.maxTotal + d - p.sentSum - 1
		}
		return 0
	case 8:
		return 1 << 20
	case 9:
		return rapid.Uint64Range(0, 1<<32).Draw(rt, "sizeAny")
	default:
		return rapid.Uint64Range(0, cfg.maxTotal/4+1).Draw(rt, "sizeSmall")
	}
}

func TestVerifC42_Quota(t *testing.T) {
	kit.Run(t, "C42", kit.Budget{Quick: 2500, Thorough: 40000, Steps: 50},
		"config base 1..50 msgs (300..2000 with large byte quotas), byte quota 1..10000 or (1/3 of the cases) a large value up to 2^41 biased to powers of two, round numbers and values with low-order bits set, reserved 0..90 % (0 in half the cases), threshold 0..30, factor 0..4; program over 4 peers of IncreaseLoad(size in {0,1,quota-1..quota+1, remaining-1..remaining+1, 2^20, any <= 2^32, small}), fill (byte quota of a peer filled to its last bytes with messages <= 2^32, then 1-byte messages), Reset, ApplyConsensusSize(-2..60); real LRU cacher (capacity 100); oracle = harness counters per peer and window; non-trivial = a peer refused in one window and accepted again after a reset; distinct by (config, trace)",
		func(rt *rapid.T, c *kit.Case) {
			cfg := verifC42GenCfg(rt)
			cacher, err := lrucache.NewCache(100)
			if err != nil {
				rt.Fatalf("fixture: %v", err)
			}
			qfp, err := floodPreventers.NewQuotaFloodPreventer(floodPreventers.ArgQuotaFloodPreventer{
				Name:                      "verif",
				Cacher:                    cacher,
				StatusHandlers:            nil,
				MaxTotalSizePerPeer:       cfg.maxTotal,
				PercentReserved:           cfg.reserved,
				IncreaseFactor:            cfg.factor,
				IncreaseThreshold:         cfg.threshold,
				BaseMaxNumMessagesPerPeer: cfg.base,
			})
			if err != nil {
				rt.Fatalf("fixture: constructor rejected a configuration inside its documented domain: %v (%+v)", err, cfg)
			}
			names := []string{"p0", "p1", "p2", "p3"}
			peers := map[string]*verifC42Peer{}
			for _, n := range names {
				peers[n] = &verifC42Peer{}
			}
			quota := cfg.base
			trace := verifC42Trace{}
			nonTrivial := false
			send := func(rt *rapid.T, name string, size uint64) {
				p := peers[name]
				var e error
				c.NoPanic("C42:increase-load-panic", func() { e = qfp.IncreaseLoad(core.PeerID(name), size) })
				verifC42Check(c, cfg, quota, p, name, size, e, &trace)
				if e == nil && p.refused && !nonTrivial {
					nonTrivial = true
				}
			}
			rt.Repeat(map[string]func(*rapid.T){
				"send": func(rt *rapid.T) {
					name := rapid.SampledFrom(names).Draw(rt, "peer")
					send(rt, name, verifC42GenSize(rt, cfg, peers[name]))
				},
				"burst": func(rt *rapid.T) {
					// many small messages from one peer: reaches the message quota
					name := rapid.SampledFrom(names).Draw(rt, "peer")
					n := rapid.IntRange(1, int(quota)+3).Draw(rt, "n")
					if n > 120 {
						n = 120
					}
					size := uint64(rapid.IntRange(0, 1).Draw(rt, "size"))
					for i := 0; i < n; i++ {
						send(rt, name, size)
					}
				},
				"fill": func(rt *rapid.T) {
					// fill the byte quota of one peer to its last bytes with messages of <= 2^32 bytes, then go on
					// byte by byte
					name := rapid.SampledFrom(names).Draw(rt, "peer")
					p := peers[name]
					if !p.seen {
						send(rt, name, uint64(rapid.IntRange(0, 1).Draw(rt, "firstSize")))
					}
					short := uint64(rapid.IntRange(0, 2).Draw(rt, "short"))
					for i := 0; i < 300 && p.sentSum+short < cfg.maxTotal; i++ {
						chunk := cfg.maxTotal - short - p.sentSum
						if chunk > 1<<32 {
							chunk = 1 << 32
						}
						send(rt, name, chunk)
					}
					n := rapid.IntRange(1, 5).Draw(rt, "ones")
					for i := 0; i < n; i++ {
						send(rt, name, 1)
					}
				},
				"reset": func(rt *rapid.T) {
					c.NoPanic("C42:reset-panic", func() { qfp.Reset() })
					trace = append(trace, verifC42Ev{kind: 'r'})
					for _, p := range peers {
						refused := p.refused || p.refusedNow
						*p = verifC42Peer{refused: refused}
						if refused {
							c.Class("peer-window-after-refusal")
						}
					}
				},
				"consensus": func(rt *rapid.T) {
					size := rapid.IntRange(-2, 60).Draw(rt, "consensusSize")
					c.NoPanic("C42:apply-consensus-panic", func() { qfp.ApplyConsensusSize(size) })
					quota = verifC42Quota(cfg, quota, size)
					trace = append(trace, verifC42Ev{kind: 'c', cs: size, quota: quota})
				},
			})
			nAcc, nRef := 0, 0
			for _, e := range trace {
				if e.kind == 's' && e.ok {
					nAcc++
				} else if e.kind == 's' {
					nRef++
				}
			}
			if nRef > 0 {
				c.Class("case-with-refusal")
			}
			if nAcc > 0 {
				c.Class("case-with-acceptance")
			}
			if nonTrivial {
				str := trace.String()
				c.NonTrivial(fmt.Sprintf("%+v %s", cfg, str))
				c.Sample("cfg %+v: %s", cfg, str)
			}
		})
}

// Regression / sanity table on fixed inputs (runs in every tier).
func TestVerifC42_Regress(t *testing.T) {
	kit.Silence()
	cacher, _ := lrucache.NewCache(100)
	qfp, err := floodPreventers.NewQuotaFloodPreventer(floodPreventers.ArgQuotaFloodPreventer{
		Name: "verif", Cacher: cacher, MaxTotalSizePerPeer: 10, PercentReserved: 0, BaseMaxNumMessagesPerPeer: 3,
	})
	if err != nil {
		t.Fatalf("fixture: %v", err)
	}
	pid := core.PeerID("p")
	accepted := 0
	for i := 0; i < 6; i++ {
		if qfp.IncreaseLoad(pid, 0) == nil {
			accepted++
		}
	}
	if accepted > 3 {
		kit.FailPlain(t, "C42", "C42:message-quota-exceeded", "%d messages accepted with quota 3", accepted)
	}
	qfp.Reset()
	if qfp.IncreaseLoad(pid, 1<<20) != nil {
		kit.FailPlain(t, "C42", "C42:first-message-refused", "first message after reset refused")
	}
	sum := uint64(0)
	qfp.Reset()
	_ = qfp.IncreaseLoad(pid, 4)
	for i := 0; i < 4; i++ {
		if qfp.IncreaseLoad(pid, 4) == nil {
			sum += 4
		}
	}
	if sum+4 > 10+4 {
		kit.FailPlain(t, "C42", "C42:byte-quota-exceeded", "%d bytes accepted with byte quota 10 and a first message of 4", sum+4)
	}
}
