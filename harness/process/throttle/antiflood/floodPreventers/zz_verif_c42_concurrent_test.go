package floodPreventers_test

import (
	"fmt"
	"sync"
	"testing"

	"github.com/ElrondNetwork/elrond-go/core"
	"github.com/ElrondNetwork/elrond-go/process/throttle/antiflood/floodPreventers"
	"github.com/ElrondNetwork/elrond-go/storage/lrucache"
	kit "github.com/ElrondNetwork/elrond-go/verifkit"
	"pgregory.net/rapid"
)

// C42, concurrent callers: the flood preventer is called from many p2p goroutines (one per topic validator), a
// flooding peer is seen on several of them at the same time. Generated: 2-16 goroutines behind a barrier, each
// sending its own drawn list of messages for 1-2 shared peers, 1-2 windows separated by Reset. The oracle is the
// one of the sequential check, evaluated at quiescence from per-goroutine counters (no shared state in the
// harness): accepted messages per peer <= max(1, message quota), accepted bytes per peer <= byte quota + size of
// the first message (the largest message sent is used as the bound for "the first message", which is not
// determined under concurrency). The same test runs in a second target built with -race.

type verifC42Plan struct {
	peerOf func(i int) int
	sizeOf func(i int) uint64
	n      int
}

type verifC42Tally struct {
	sent, accepted [2]uint64
	bytes          [2]uint64
}

func TestVerifC42_Concurrent(t *testing.T) {
	budget := kit.Budget{Quick: 1500, Thorough: 20000}
	maxTotalMsgs := 24000
	if verifC42RaceBuild {
		budget = kit.Budget{Quick: 150, Thorough: 1500}
		maxTotalMsgs = 3000
	}
	kit.Run(t, "C42", budget,
		"message quota 1..50 or 50..2000, byte quota huge or near the bytes a window can carry, PercentReserved 0 in 3/4 of the cases; 2-16 goroutines behind a barrier send 1.1-3 x quota messages (sizes 0/1/2 by pattern) for 1-2 shared peers, 1-2 windows separated by Reset; oracle at quiescence from per-goroutine counters; non-trivial = >= 2 goroutines sent to the same peer and that peer was refused at least once; distinct by (config, plan)",
		func(rt *rapid.T, c *kit.Case) {
			var quota uint32
			if rapid.Bool().Draw(rt, "smallQuota") {
				quota = uint32(rapid.IntRange(1, 50).Draw(rt, "quotaSmall"))
			} else {
				quota = uint32(rapid.IntRange(50, 2000).Draw(rt, "quotaMedium"))
			}
			if verifC42RaceBuild && quota > 300 {
				quota = 300
			}
			reserved := float32(0)
			if rapid.IntRange(0, 3).Draw(rt, "reservedKind") == 3 {
				reserved = float32(rapid.IntRange(0, 90).Draw(rt, "reserved"))
			}
			nPeers := rapid.IntRange(1, 2).Draw(rt, "peers")
			g := rapid.IntRange(2, 16).Draw(rt, "goroutines")
			mult := rapid.IntRange(11, 30).Draw(rt, "tenthsOfQuotaSent")
			total := int(quota)*mult/10*nPeers + g
			if total > maxTotalMsgs {
				total = maxTotalMsgs
			}
			byteQuota := uint64(1) << 40
			tightBytes := rapid.Bool().Draw(rt, "tightByteQuota")
			if tightBytes {
				byteQuota = uint64(rapid.IntRange(1, int(quota)+1).Draw(rt, "byteQuota"))
			}
			plans := make([]verifC42Plan, g)
			maxSize := uint64(0)
			for i := range plans {
				n := total / g
				if i < total%g {
					n++
				}
				peerKind := rapid.IntRange(0, 2).Draw(rt, "peerPattern")
				sizeKind := rapid.IntRange(0, 3).Draw(rt, "sizePattern")
				gi := i
				plans[i] = verifC42Plan{
					n: n,
					peerOf: func(j int) int {
						switch {
						case nPeers == 1 || peerKind == 0:
							return 0
						case peerKind == 1:
							return 1
						default:
							return (j + gi) % 2
						}
					},
					sizeOf: func(j int) uint64 {
						switch sizeKind {
						case 0:
							return 0
						case 1:
							return 1
						case 2:
							return uint64((j + gi) % 2)
						default:
							return uint64((j + gi) % 3)
						}
					},
				}
				if sizeKind == 1 || sizeKind == 2 {
					if maxSize < 1 {
						maxSize = 1
					}
				}
				if sizeKind == 3 {
					maxSize = 2
				}
			}
			windows := rapid.IntRange(1, 2).Draw(rt, "windows")

			cacher, err := lrucache.NewCache(100)
			if err != nil {
				rt.Fatalf("fixture: %v", err)
			}
			qfp, err := floodPreventers.NewQuotaFloodPreventer(floodPreventers.ArgQuotaFloodPreventer{
				Name:                      "verif",
				Cacher:                    cacher,
				MaxTotalSizePerPeer:       byteQuota,
				PercentReserved:           reserved,
				BaseMaxNumMessagesPerPeer: quota,
			})
			if err != nil {
				rt.Fatalf("fixture: %v", err)
			}
			pids := []core.PeerID{"peerA", "peerB"}
			nonTrivial := false
			for w := 0; w < windows; w++ {
				tallies := make([]verifC42Tally, g)
				barrier := make(chan struct{})
				var wg sync.WaitGroup
				for gi := 0; gi < g; gi++ {
					wg.Add(1)
					go func(gi int) {
						defer wg.Done()
						p := plans[gi]
						tl := &tallies[gi]
						<-barrier
						for j := 0; j < p.n; j++ {
							pi, size := p.peerOf(j), p.sizeOf(j)
							tl.sent[pi]++
							if qfp.IncreaseLoad(pids[pi], size) == nil {
								tl.accepted[pi]++
								tl.bytes[pi] += size
							}
						}
					}(gi)
				}
				close(barrier)
				wg.Wait()
				for pi := 0; pi < nPeers; pi++ {
					var sent, accepted, bytes uint64
					senders := 0
					for gi := range tallies {
						sent += tallies[gi].sent[pi]
						accepted += tallies[gi].accepted[pi]
						bytes += tallies[gi].bytes[pi]
						if tallies[gi].sent[pi] > 0 {
							senders++
						}
					}
					if senders >= 2 && accepted < sent {
						nonTrivial = true
					}
					maxMsgs := uint64(quota)
					if maxMsgs < 1 {
						maxMsgs = 1
					}
					if accepted > maxMsgs {
						c.Violation("C42:concurrent:message-quota-exceeded", "window %d, %s: %d of %d messages sent by %d goroutines were accepted, message quota %d (reserved %.0f %%, byte quota %d)", w, pids[pi], accepted, sent, senders, quota, reserved, byteQuota)
					}
					if bytes > byteQuota+maxSize {
						c.Violation("C42:concurrent:byte-quota-exceeded", "window %d, %s: %d bytes accepted from %d goroutines, byte quota %d + largest message %d (message quota %d)", w, pids[pi], bytes, senders, byteQuota, maxSize, quota)
					}
					if sent > 0 && accepted == 0 {
						c.Violation("C42:concurrent:no-message-accepted", "window %d, %s: none of %d messages was accepted", w, pids[pi], sent)
					}
				}
				c.NoPanic("C42:reset-panic", func() { qfp.Reset() })
			}
			if tightBytes {
				c.Class("tight-byte-quota")
			}
			if nonTrivial {
				c.NonTrivial(fmt.Sprint(quota, reserved, byteQuota, nPeers, g, total, windows, maxSize))
				c.Sample("quota %d msgs / %d bytes, reserved %.0f %%, %d peers, %d goroutines, %d messages per window, %d windows", quota, byteQuota, reserved, nPeers, g, total, windows)
			}
		})
}
