//go:build race

package floodPreventers_test

// built with the race detector (second target of props/C42.json): smaller concurrent cases
const verifC42RaceBuild = true
