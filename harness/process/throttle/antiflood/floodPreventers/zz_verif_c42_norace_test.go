//go:build !race

package floodPreventers_test

const verifC42RaceBuild = false
