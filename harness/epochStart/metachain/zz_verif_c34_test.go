package metachain

import (
	"fmt"
	"math"
	"runtime"
	"strings"
	"sync"
	"sync/atomic"
	"testing"

	"github.com/ElrondNetwork/elrond-go/data/block"
	kit "github.com/ElrondNetwork/elrond-go/verifkit"
	"pgregory.net/rapid"
)

// C34: Metachain epochs respect the minimum and maximum length.
//
// The harness drives the real metachain start-of-epoch trigger the way metaProcessor does
// (Update(round, nonce) for every header that is created/processed; when the trigger says "epoch start"
// the next block that gets committed is the start-of-epoch block and commitEpochStart calls
// SetProcessed(header) with that block's round) and interleaves forced-start requests with arbitrary
// rounds (what update/trigger.TriggerReceived forwards from the hardfork message).
//
// Model (independent of the trigger's fields): the start round S of the current epoch is the round the
// harness itself passed at the moment the epoch started (Update round), replaced by the round of the
// start-of-epoch block the harness passed to SetProcessed.

type verifC34Model struct {
	rpe, min     uint64
	epoch        uint32
	start        uint64 // S: start round of the current epoch (as fed by the harness)
	trigRound    uint64 // round of the Update call at which the current epoch started
	pending      bool   // epoch started, start-of-epoch block not committed yet
	forcedInCur  bool   // some force request was made since the current epoch started
	forcePast    bool   // ... with a round <= S
	forceInMin   bool   // ... with a round inside the minimum window
	forcePending bool   // ... while the start-of-epoch block was not committed yet
	forceShifted bool   // ... and that block was then committed in a later round than the one the epoch started in
	round, nonce uint64
	committed    bool // the start-of-epoch block of m.round was committed (next header: later round, next nonce)
	starts       int
}

func verifC34StartBlock(epoch uint32, round, nonce uint64) *block.MetaBlock {
	return &block.MetaBlock{
		Epoch: epoch,
		Round: round,
		Nonce: nonce,
		EpochStart: block.EpochStart{
			LastFinalizedHeaders: []block.EpochStartShardData{{ShardID: 0, Epoch: epoch, Round: round}},
		},
	}
}

// verifC34ForceClass names the input shape of the force requests seen in the current epoch
// (stable violation-key suffix).
func (m *verifC34Model) forceClass() string {
	switch {
	case !m.forcedInCur:
		return "no-force"
	case m.forceShifted:
		return "force-before-start-block-committed"
	case m.forcePast:
		return "force-round-before-epoch-start"
	case m.forceInMin:
		return "force-inside-min-window"
	default:
		return "force-other"
	}
}

// verifC34AfterUpdate evaluates the oracle after trig.Update(m.round, m.nonce) was executed.
func verifC34AfterUpdate(c *kit.Case, trig *trigger, m *verifC34Model, wasPending bool, trace *strings.Builder) {
	epochNow := trig.Epoch()
	startedNow := trig.IsEpochStart()
	if wasPending {
		// an epoch start is being processed: nothing may change until the start block is committed
		if epochNow != m.epoch {
			c.Violation("C34:epoch-changed-while-start-pending", "Epoch() went %d -> %d in Update(%d,%d) while the start of epoch %d was still pending\n%s", m.epoch, epochNow, m.round, m.nonce, m.epoch, trace.String())
		}
		return
	}
	mustStart := m.nonce >= minimumNonceToStartEpoch && m.round > m.start+m.rpe
	mustNotStart := !m.forcedInCur && m.round <= m.start+m.rpe
	if !startedNow {
		if epochNow != m.epoch {
			c.Violation("C34:epoch-changed-without-start", "Epoch() went %d -> %d in Update(%d,%d) although IsEpochStart() is false\n%s", m.epoch, epochNow, m.round, m.nonce, trace.String())
		}
		if mustStart {
			c.Violation("C34:max-length:"+m.forceClass(), "no epoch start at Update(round %d, nonce %d): epoch %d started in round %d, RoundsPerEpoch %d\n%s", m.round, m.nonce, m.epoch, m.start, m.rpe, trace.String())
		}
		return
	}
	// an epoch start happened in this Update
	if epochNow != m.epoch+1 {
		c.Violation("C34:epoch-step", "epoch start moved Epoch() %d -> %d (want +1)\n%s", m.epoch, epochNow, trace.String())
	}
	if m.round < m.start || m.round-m.start < m.min {
		c.Violation("C34:min-rounds:"+m.forceClass(), "epoch %d started in round %d, only %d rounds after epoch %d started (round %d); MinRoundsBetweenEpochs %d, RoundsPerEpoch %d\n%s",
			epochNow, m.round, int64(m.round-m.start), m.epoch, m.start, m.min, m.rpe, trace.String())
	}
	if mustNotStart {
		c.Violation("C34:early-start-without-force", "epoch %d started in round %d <= %d + RoundsPerEpoch %d although no forced start was requested in epoch %d\n%s",
			epochNow, m.round, m.start, m.rpe, m.epoch, trace.String())
	}
	if m.forcedInCur {
		c.Class("start:after-force-request")
	} else {
		c.Class("start:normal")
	}
	m.epoch = epochNow
	m.start = m.round
	m.trigRound = m.round
	m.pending = true
	m.forcedInCur, m.forcePast, m.forceInMin, m.forcePending, m.forceShifted = false, false, false, false, false
	m.starts++
}

func verifC34NewTrigger(rpe, min uint64, epoch uint32, startRound uint64) (*trigger, error) {
	args := createMockEpochStartTriggerArguments()
	args.Settings.RoundsPerEpoch = int64(rpe)
	args.Settings.MinRoundsBetweenEpochs = int64(min)
	args.Epoch = epoch
	args.EpochStartRound = startRound
	return NewEpochStartTrigger(args)
}

func verifC34GenForceRound(rt *rapid.T, m *verifC34Model) uint64 {
	var r uint64
	switch rapid.IntRange(0, 11).Draw(rt, "forceKind") {
	case 0:
		r = 0
	case 1:
		r = math.MaxUint64
	case 2: // before the start of the current epoch
		d := rapid.Uint64Range(1, 2*m.rpe+2).Draw(rt, "back")
		if d > m.start {
			d = m.start
		}
		r = m.start - d
	case 3:
		r = m.start
	case 4: // inside the minimum window
		r = m.start + rapid.Uint64Range(0, m.min).Draw(rt, "inMin")
	case 5: // around the current round
		r = m.round + rapid.Uint64Range(0, 3).Draw(rt, "ahead")
	case 6:
		d := rapid.Uint64Range(1, 3).Draw(rt, "behind")
		if d > m.round {
			d = m.round
		}
		r = m.round - d
	case 7: // around the normal end of the epoch
		r = m.start + m.rpe - 1 + rapid.Uint64Range(0, 3).Draw(rt, "aroundEnd")
	case 8: // beyond the next epoch
		r = m.start + m.rpe + rapid.Uint64Range(1, 3*m.rpe).Draw(rt, "beyond")
	case 9: // what the hardfork trigger computes: current round + 10
		r = m.round + 10
	default:
		r = m.start + rapid.Uint64Range(0, m.rpe+1).Draw(rt, "inEpoch")
	}
	return r
}

const verifC34Rule = "RoundsPerEpoch 1..30 (thorough: sometimes up to 300), MinRoundsBetweenEpochs 1..RoundsPerEpoch, start epoch/round drawn (round up to 2^40); program of ~60 steps over the real trigger: Update(round += 0..5 or a long skip, nonce from 0..6 growing by 0/1) followed, when an epoch start is pending, by SetProcessed(start-of-epoch block of the current round) with probability 2/3; ForceEpochStart(r) with r in {0, MaxUint64, before the epoch start, the epoch start, inside the minimum window, around the current round, around/beyond the normal end, current+10}; no-op calls (SetProcessed of a regular block, SetFinalityAttestingRound). Oracle on the harness' own record of start rounds: +1 epoch per start, start-to-start distance >= minimum, no start at round <= start+RoundsPerEpoch without a force request, start at the first Update with round > start+RoundsPerEpoch (nonce >= 4), Epoch() constant elsewhere. Non-trivial = the program contains a force request whose round is <= the current epoch's start round or inside the minimum window, and at least one epoch start follows it; distinct by full program"

func TestVerifC34_EpochLength(t *testing.T) {
	kit.Run(t, "C34", kit.Budget{Quick: 15000, Thorough: 200000, Steps: 60}, verifC34Rule, func(rt *rapid.T, c *kit.Case) {
		maxRpe := 30
		if kit.Thorough() && rapid.IntRange(0, 9).Draw(rt, "bigRpe") == 0 {
			maxRpe = 300
		}
		rpe := uint64(rapid.IntRange(1, maxRpe).Draw(rt, "roundsPerEpoch"))
		min := uint64(rapid.IntRange(1, int(rpe)).Draw(rt, "minRounds"))
		epoch := uint32(rapid.IntRange(0, 1000).Draw(rt, "epoch"))
		var startRound uint64
		switch rapid.IntRange(0, 3).Draw(rt, "startKind") {
		case 0:
			startRound = 0
		case 1:
			startRound = rapid.Uint64Range(1, 100).Draw(rt, "startRound")
		case 2:
			startRound = rapid.Uint64Range(100, 1<<40).Draw(rt, "startRoundBig")
		default:
			startRound = rapid.Uint64Range(0, 2*rpe).Draw(rt, "startRoundNear")
		}
		trig, err := verifC34NewTrigger(rpe, min, epoch, startRound)
		if err != nil {
			rt.Fatalf("fixture: NewEpochStartTrigger: %v", err)
		}
		m := &verifC34Model{rpe: rpe, min: min, epoch: epoch, start: startRound, trigRound: startRound, round: startRound,
			nonce: uint64(rapid.IntRange(0, 6).Draw(rt, "nonce0"))}
		trace := &strings.Builder{}
		fmt.Fprintf(trace, "RoundsPerEpoch=%d MinRoundsBetweenEpochs=%d epoch=%d epochStartRound=%d;", rpe, min, epoch, startRound)
		if trig.Epoch() != epoch || trig.IsEpochStart() {
			rt.Fatalf("fixture: fresh trigger reports epoch %d isEpochStart %v", trig.Epoch(), trig.IsEpochStart())
		}
		ntForce := false // a non-trivial force request was made in the current epoch
		ntCase := false  // ... and an epoch start followed
		unchanged := func(what string) {
			if e := trig.Epoch(); e != m.epoch {
				c.Violation("C34:epoch-changed-outside-update", "Epoch() went %d -> %d in %s\n%s", m.epoch, e, what, trace.String())
			}
			if p := trig.IsEpochStart(); p != m.pending {
				c.Violation("C34:start-flag-changed-outside-update", "IsEpochStart() went %v -> %v in %s\n%s", m.pending, p, what, trace.String())
			}
		}

		rt.Repeat(map[string]func(*rapid.T){
			"update": func(rt *rapid.T) {
				var step uint64
				switch rapid.IntRange(0, 9).Draw(rt, "stepKind") {
				case 0:
					step = 0 // same round again (header created, then processed)
				case 1:
					step = rapid.Uint64Range(1, 2*m.rpe+2).Draw(rt, "skip")
				default:
					step = rapid.Uint64Range(1, 5).Draw(rt, "step")
				}
				if m.committed {
					// a block of the current round was committed: the next header has a later round and the next nonce
					if step == 0 {
						step = 1
					}
					m.nonce++
					m.committed = false
				} else if step > 0 {
					m.nonce += uint64(rapid.IntRange(0, 1).Draw(rt, "nonceStep"))
				}
				m.round += step
				wasPending := m.pending
				startsBefore := m.starts
				fmt.Fprintf(trace, " Update(%d,%d)", m.round, m.nonce)
				c.NoPanic("C34:update-panic", func() { trig.Update(m.round, m.nonce) })
				verifC34AfterUpdate(c, trig, m, wasPending, trace)
				if m.starts > startsBefore {
					fmt.Fprintf(trace, "[epoch %d starts]", m.epoch)
					if ntForce {
						ntCase = true
					}
					ntForce = false
				}
				if m.pending && rapid.IntRange(0, 2).Draw(rt, "commit") > 0 {
					// the start-of-epoch block of this round is committed
					hdr := verifC34StartBlock(trig.Epoch(), m.round, m.nonce)
					fmt.Fprintf(trace, " SetProcessed(start block round %d)", m.round)
					c.NoPanic("C34:setprocessed-panic", func() { trig.SetProcessed(hdr, &block.Body{}) })
					if m.round > m.trigRound {
						c.Class("start-block-committed-later")
						if m.forcePending {
							m.forceShifted = true
							c.Class("start-block-committed-later:after-force-request")
						}
					}
					m.start = m.round
					m.pending = false
					m.committed = true
					unchanged("SetProcessed")
				}
			},
			"force": func(rt *rapid.T) {
				r := verifC34GenForceRound(rt, m)
				fmt.Fprintf(trace, " ForceEpochStart(%d)", r)
				c.NoPanic("C34:force-panic", func() { trig.ForceEpochStart(r) })
				unchanged("ForceEpochStart")
				m.forcedInCur = true
				if m.pending {
					m.forcePending = true
					c.Class("force:while-start-pending")
				}
				switch {
				case r <= m.start:
					m.forcePast = true
					ntForce = true
					c.Class("force:round<=epoch-start")
				case r-m.start < m.min:
					m.forceInMin = true
					ntForce = true
					c.Class("force:inside-min-window")
				case r > m.start+m.rpe:
					c.Class("force:beyond-epoch")
				default:
					c.Class("force:regular")
				}
			},
			"noop": func(rt *rapid.T) {
				if rapid.Bool().Draw(rt, "regularBlock") {
					hdr := &block.MetaBlock{Epoch: m.epoch, Round: m.round, Nonce: m.nonce}
					c.NoPanic("C34:setprocessed-panic", func() { trig.SetProcessed(hdr, &block.Body{}) })
					unchanged("SetProcessed(regular block)")
				} else {
					c.NoPanic("C34:finality-panic", func() { trig.SetFinalityAttestingRound(m.round) })
					unchanged("SetFinalityAttestingRound")
				}
			},
			"": func(rt *rapid.T) {
				unchanged("(invariant)")
			},
		})
		if m.starts > 0 {
			c.Class("case:with-epoch-start")
		}
		if m.starts > 1 {
			c.Class("case:with>=2-epoch-starts")
		}
		if ntCase {
			c.NonTrivial(trace.String())
			c.Sample("%s", trace.String())
		}
	})
}

const verifC34ConcRule = "concurrent class: the trigger is one object shared by the go routines that create and process metachain headers (metaProcessor.CreateNewHeader/CreateBlock from the consensus subround, metaProcessor.ProcessBlock from the consensus message handler and from the sync loop; all call Update(header round, header nonce) and all trigger state sits behind mutTrigger). Per case: RoundsPerEpoch 1..12, minimum 1..RoundsPerEpoch, 10-16 consecutive epochs; for each epoch the rounds up to the boundary are fed sequentially (optionally a forced start inside the epoch), then 8 (half of the time 2..8) go routines released together by a spin barrier call Update for the first round that fulfils the start condition (all the same round, or half of them the next round), optionally with readers of Epoch()/IsEpochStart(). Oracle at quiescence only (no timing): Epoch() == previous + 1 and IsEpochStart(); then the start block is committed. Non-trivial = >= 4 updaters on the same round; distinct by configuration and go routine counts"

// TestVerifC34_ConcurrentUpdate: "the metachain epoch increases by exactly one at each epoch start" also when the
// Update calls for the first round of the new epoch arrive from several go routines at once.
func TestVerifC34_ConcurrentUpdate(t *testing.T) {
	kit.Run(t, "C34", kit.Budget{Quick: 3000, Thorough: 20000}, verifC34ConcRule, func(rt *rapid.T, c *kit.Case) {
		rpe := uint64(rapid.IntRange(1, 12).Draw(rt, "roundsPerEpoch"))
		min := uint64(rapid.IntRange(1, int(rpe)).Draw(rt, "minRounds"))
		epoch := uint32(rapid.IntRange(0, 100).Draw(rt, "epoch"))
		start := rapid.Uint64Range(0, 1000).Draw(rt, "startRound")
		trig, err := verifC34NewTrigger(rpe, min, epoch, start)
		if err != nil {
			rt.Fatalf("fixture: NewEpochStartTrigger: %v", err)
		}
		nEpochs := rapid.IntRange(10, 16).Draw(rt, "epochs")
		nonce := uint64(10)
		round := start
		desc := &strings.Builder{}
		fmt.Fprintf(desc, "RoundsPerEpoch=%d MinRoundsBetweenEpochs=%d epoch=%d epochStartRound=%d;", rpe, min, epoch, start)
		nt := false
		for e := 0; e < nEpochs; e++ {
			// sequential part: rounds inside the epoch, no start expected
			boundary := start + rpe + 1 // first round of the next epoch without forcing
			if rapid.IntRange(0, 3).Draw(rt, "forced") == 0 {
				// a forced start at start+min..start+rpe (accepted; effective as requested)
				boundary = start + min + rapid.Uint64Range(0, rpe-min).Draw(rt, "forcedOffset")
				trig.ForceEpochStart(boundary)
				fmt.Fprintf(desc, " force(%d)", boundary)
			}
			for round+1 < boundary {
				round++
				nonce++
				trig.Update(round, nonce)
			}
			if trig.IsEpochStart() || trig.Epoch() != epoch {
				rt.Fatalf("fixture: epoch %d isEpochStart %v before the boundary round %d (%s)", trig.Epoch(), trig.IsEpochStart(), boundary, desc.String())
			}
			round = boundary
			nonce++
			updaters := 8
			if rapid.Bool().Draw(rt, "fewerUpdaters") {
				updaters = rapid.IntRange(2, 8).Draw(rt, "updaters")
			}
			readers := rapid.IntRange(0, 2).Draw(rt, "readers")
			mixedRounds := rapid.IntRange(0, 4).Draw(rt, "mixedRounds") == 0
			if updaters >= 4 && !mixedRounds {
				nt = true
			}
			fmt.Fprintf(desc, " %dxUpdate(%d) r%d m%v", updaters, round, readers, mixedRounds)
			total := int32(updaters + readers)
			ready := int32(0)
			wg := sync.WaitGroup{}
			wg.Add(int(total))
			barrier := func() {
				atomic.AddInt32(&ready, 1)
				for spins := 0; atomic.LoadInt32(&ready) < total; spins++ {
					if spins > 2000 {
						runtime.Gosched()
					}
				}
			}
			for i := 0; i < updaters; i++ {
				r := round
				if mixedRounds && i%2 == 1 {
					r = round + 1
				}
				go func(r uint64) {
					defer wg.Done()
					barrier()
					trig.Update(r, nonce)
				}(r)
			}
			for i := 0; i < readers; i++ {
				go func() {
					defer wg.Done()
					barrier()
					_ = trig.Epoch()
					_ = trig.IsEpochStart()
					_ = trig.EpochStartRound()
				}()
			}
			wg.Wait()
			c.Class(fmt.Sprintf("concurrent-start:%d-updaters", updaters))
			if got := trig.Epoch(); got != epoch+1 {
				c.Violation("C34:concurrent-update:epoch-step", "after %d concurrent Update(%d, %d) calls for the first round of the new epoch Epoch() went %d -> %d (want +1)\n%s",
					updaters, round, nonce, epoch, got, desc.String())
			}
			if !trig.IsEpochStart() {
				c.Violation("C34:concurrent-update:no-start", "after %d concurrent Update(%d, %d) calls IsEpochStart() is false\n%s", updaters, round, nonce, desc.String())
			}
			epoch++
			if mixedRounds {
				round++
			}
			// the start-of-epoch block of the current round is committed
			trig.SetProcessed(verifC34StartBlock(trig.Epoch(), round, nonce), &block.Body{})
			start = round
		}
		if nt {
			c.NonTrivial(desc.String())
			c.Sample("%s", desc.String())
		}
	})
}

// TestVerifC34_Regress replays the minimal counterexamples found by the generated check.
func TestVerifC34_Regress(t *testing.T) {
	kit.Silence()
	type step struct {
		op    string // "u" update, "f" force, "p" set processed (start block of the current round)
		round uint64
	}
	cases := []struct {
		name            string
		rpe, min, start uint64
		steps           []step
	}{
		// defect #15: requested round before the start of the current epoch -> unsigned underflow skips the clamp
		{"force-round-before-epoch-start", 30, 20, 100, []step{{"f", 99}, {"u", 101}}},
		{"force-round-zero", 30, 20, 100, []step{{"f", 0}, {"u", 100}}},
		{"force-past-after-a-start", 10, 10, 0, []step{{"u", 11}, {"p", 11}, {"f", 5}, {"u", 12}}},
		// request made after the epoch started but before its start-of-epoch block (of a later round) was committed:
		// the clamp was computed against the earlier round
		{"force-before-start-block-committed", 30, 20, 0, []step{{"u", 31}, {"f", 35}, {"u", 34}, {"p", 34}, {"u", 51}, {"u", 53}, {"u", 54}}},
		// clamped requests
		{"force-inside-min-window", 30, 20, 100, []step{{"f", 105}, {"u", 105}, {"u", 119}, {"u", 120}}},
		{"force-at-epoch-start", 30, 20, 100, []step{{"f", 100}, {"u", 101}, {"u", 119}}},
	}
	for _, tc := range cases {
		trig, err := verifC34NewTrigger(tc.rpe, tc.min, 7, tc.start)
		if err != nil {
			t.Fatalf("fixture: %v", err)
		}
		start := tc.start
		epoch := uint32(7)
		for i, s := range tc.steps {
			switch s.op {
			case "f":
				trig.ForceEpochStart(s.round)
			case "p":
				trig.SetProcessed(verifC34StartBlock(trig.Epoch(), s.round, 10), &block.Body{})
				start = s.round
			case "u":
				was := trig.IsEpochStart()
				trig.Update(s.round, 10)
				if !was && trig.IsEpochStart() {
					if trig.Epoch() != epoch+1 {
						kit.FailPlain(t, "C34", "C34:epoch-step", "%s: epoch %d -> %d", tc.name, epoch, trig.Epoch())
					}
					if s.round-start < tc.min {
						kit.FailPlain(t, "C34", "C34:min-rounds:"+tc.name, "%s step %d: epoch %d started in round %d, %d rounds after the previous start (round %d); minimum %d",
							tc.name, i, trig.Epoch(), s.round, s.round-start, start, tc.min)
					}
					epoch = trig.Epoch()
					start = s.round
				}
			}
		}
	}
}
