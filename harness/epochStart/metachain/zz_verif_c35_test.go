package metachain

import (
	"bytes"
	"fmt"
	"math/big"
	"sort"
	"strings"
	"sync"
	"testing"

	"github.com/ElrondNetwork/elrond-go/core"
	"github.com/ElrondNetwork/elrond-go/data/block"
	"github.com/ElrondNetwork/elrond-go/data/state"
	"github.com/ElrondNetwork/elrond-go/epochStart/mock"
	"github.com/ElrondNetwork/elrond-go/process"
	economicsmocks "github.com/ElrondNetwork/elrond-go/testscommon/economicsmocks"
	kit "github.com/ElrondNetwork/elrond-go/verifkit"
	"pgregory.net/rapid"
)

// C35: End-of-epoch rewards distribute exactly the computed amount.
//
// Inputs are built the way the real caller produces them (metaProcessor.createEpochStartBody /
// processEpochStartMetaBlock with economics.ComputeEndOfEpochEconomics):
//   n   = max(1, sum of blocks per shard)
//   T   = rewardsPerBlock0 * n (or the accumulated fees when they are larger; then rewardsPerBlock0 = T / n)
//   D,L,P = developer fees, leader fees, protocol sustainability rewards (parts of T)
//   R   = T - D - L - P   (EconomicsDataProvider.RewardsToBeDistributedForBlocks)
//   RewardsPerBlock = rewardsPerBlock0 - D/n - L/n - P/n   (integer divisions; used by the v1 creator)
//   header: EpochStart.Economics{TotalToDistribute: T, RewardsPerBlock, RewardsForProtocolSustainability: P}, DevFeesInEpoch: D
// Validator statistics are consistent with the block counts: in shard s the NumSelectedInSuccessBlocks add up
// to at most blocks(s) * consensusSize(s), every counter of one node is <= blocks(s), only nodes that led a
// block successfully accumulated fees and these fees add up to at most L.
// Expected: the reward transactions referenced by the returned miniblocks add up to exactly T - D.

type verifC35Input struct {
	nShards            uint32
	cons               map[uint32]int
	blocks             map[uint32]uint64
	vals               map[uint32][]*state.ValidatorInfo
	topUp              map[string]*big.Int // by public key; absent = staking data provider returns an error
	totalTopUp         *big.Int
	T, D, L, P, R, RPB *big.Int
	n                  uint64
	epoch              uint32
	delegEpoch         uint32
	fix1Epoch          uint32
	factor             float64
	gradient           *big.Int
	round              uint64
	// features
	sharedAddr, offline, metaAddr, metaDeleg, hasTopUp bool
}

var (
	verifC35Once     sync.Once
	verifC35BaseArgs BaseRewardsCreatorArgs
	verifC35MetaPool [][]byte        // metachain addresses
	verifC35Deleg    map[string]bool // the ones registered as delegation system SC
)

func verifC35MetaAddress(i byte) []byte {
	a := make([]byte, 32)
	a[9] = 1
	a[28] = i + 1
	a[29], a[30], a[31] = 255, 255, 255
	return a
}

// verifC35Fixture registers the metachain accounts of the shared user accounts DB. A validator's reward address is
// whatever its owner set through the validator SC, so it can be any metachain address; four kinds exist on a real
// metachain: 0 = a real delegation system SC (account whose storage holds DelegationSystemSCKey), 1 = an existing
// account with storage but without that key (staking / validator / ESDT system SC...: RetrieveValue answers nil, nil),
// 2 = an address without account, 3 = an existing account without storage. Only kind 0 may receive rewards.
func verifC35Fixture(t *testing.T) {
	verifC35Once.Do(func() {
		verifC35BaseArgs = getBaseRewardsArguments()
		verifC35Deleg = map[string]bool{}
		adb := verifC35BaseArgs.UserAccountsDB
		for i := byte(0); i < 8; i++ {
			a := verifC35MetaAddress(i)
			verifC35MetaPool = append(verifC35MetaPool, a)
			kind := i % 4
			if kind == 2 {
				continue
			}
			acc, err := adb.LoadAccount(a)
			if err != nil {
				t.Fatalf("fixture: LoadAccount: %v", err)
			}
			userAcc := acc.(state.UserAccountHandler)
			switch kind {
			case 0:
				_ = userAcc.DataTrieTracker().SaveKeyValue([]byte(core.DelegationSystemSCKey), []byte(core.DelegationSystemSCKey))
				_ = userAcc.DataTrieTracker().SaveKeyValue([]byte("otherKey"), []byte("otherValue"))
				verifC35Deleg[string(a)] = true
			case 1:
				_ = userAcc.DataTrieTracker().SaveKeyValue([]byte("someStakingKey"), []byte("someStakingValue"))
			}
			if err = adb.SaveAccount(userAcc); err != nil {
				t.Fatalf("fixture: SaveAccount: %v", err)
			}
		}
		// fixture self-check through the public accounts API (independent of the code under test)
		for i, a := range verifC35MetaPool {
			acc, err := adb.GetExistingAccount(a)
			kind := i % 4
			if (err == nil) != (kind != 2) {
				t.Fatalf("fixture: metachain account %d (kind %d): GetExistingAccount err=%v", i, kind, err)
			}
			if err != nil {
				continue
			}
			val, errGet := acc.(state.UserAccountHandler).DataTrieTracker().RetrieveValue([]byte(core.DelegationSystemSCKey))
			if (len(val) > 0) != (kind == 0) {
				t.Fatalf("fixture: metachain account %d (kind %d): delegation key value %q err %v", i, kind, val, errGet)
			}
		}
	})
}

// verifC35ShardOf is the address -> shard map given to the shard coordinator mock and used by the oracle.
func verifC35ShardOf(addr []byte, nShards uint32) uint32 {
	if len(addr) == 0 {
		return 0
	}
	last := addr[len(addr)-1]
	if last == 255 {
		return core.MetachainShardId
	}
	return uint32(last) % nShards
}

func verifC35GenAmount(rt *rapid.T, label string) *big.Int {
	switch rapid.IntRange(0, 5).Draw(rt, label+"Kind") {
	case 0:
		return big.NewInt(0)
	case 1:
		return big.NewInt(int64(rapid.IntRange(0, 100).Draw(rt, label+"Small")))
	case 2:
		return big.NewInt(int64(rapid.IntRange(0, 1_000_000_000).Draw(rt, label+"Medium")))
	default:
		m := big.NewInt(0).SetUint64(rapid.Uint64Range(1, 1<<40).Draw(rt, label+"Mantissa"))
		e := big.NewInt(0).Exp(big.NewInt(10), big.NewInt(int64(rapid.IntRange(0, 14).Draw(rt, label+"Exp"))), nil)
		return m.Mul(m, e)
	}
}

func verifC35Permille(v *big.Int, pm int) *big.Int {
	r := big.NewInt(0).Mul(v, big.NewInt(int64(pm)))
	return r.Div(r, big.NewInt(1000))
}

func verifC35Gen(rt *rapid.T) *verifC35Input {
	in := &verifC35Input{
		cons:   map[uint32]int{},
		blocks: map[uint32]uint64{},
		vals:   map[uint32][]*state.ValidatorInfo{},
		topUp:  map[string]*big.Int{},
	}
	in.nShards = uint32(rapid.IntRange(1, 3).Draw(rt, "shards"))
	shardIDs := make([]uint32, 0, 4)
	for s := uint32(0); s < in.nShards; s++ {
		shardIDs = append(shardIDs, s)
	}
	shardIDs = append(shardIDs, core.MetachainShardId)
	in.epoch = uint32(rapid.IntRange(1, 10).Draw(rt, "epoch"))
	in.delegEpoch = uint32(rapid.SampledFrom([]int{0, 0, 5, 100}).Draw(rt, "delegationEnableEpoch"))
	in.fix1Epoch = uint32(rapid.SampledFrom([]int{0, 0, 100}).Draw(rt, "rewardsFix1EnableEpoch"))
	in.round = rapid.Uint64Range(0, 1<<32).Draw(rt, "round")

	// reward address pool of the case
	nAddr := rapid.IntRange(1, 6).Draw(rt, "addrPool")
	pool := make([][]byte, 0, nAddr)
	for i := 0; i < nAddr; i++ {
		switch rapid.IntRange(0, 9).Draw(rt, "addrKind") {
		case 0, 1, 2:
			pool = append(pool, verifC35MetaPool[rapid.IntRange(0, len(verifC35MetaPool)-1).Draw(rt, "metaAddr")])
		default:
			a := make([]byte, 32)
			a[0] = 0xa0
			a[1] = byte(i)
			a[31] = byte(rapid.IntRange(0, 254).Draw(rt, "addrLast"))
			pool = append(pool, a)
		}
	}

	offlineBias := rapid.IntRange(0, 3).Draw(rt, "offlineBias")
	usedAddr := map[string]int{}
	keyIdx := 0
	totalBlocks := uint64(0)
	leaders := make([]*state.ValidatorInfo, 0)
	for _, s := range shardIDs {
		c := rapid.IntRange(1, 5).Draw(rt, "consensusSize")
		in.cons[s] = c
		b := uint64(rapid.IntRange(0, 50).Draw(rt, "blocks"))
		in.blocks[s] = b
		totalBlocks += b
		nv := rapid.IntRange(0, 8).Draw(rt, "validators")
		budget := b * uint64(c) // selections available in this shard
		leaderBudget := b
		list := make([]*state.ValidatorInfo, 0, nv)
		for i := 0; i < nv; i++ {
			keyIdx++
			v := &state.ValidatorInfo{
				PublicKey:       []byte(fmt.Sprintf("blsKey-%03d", keyIdx)),
				ShardId:         s,
				Index:           uint32(i),
				AccumulatedFees: big.NewInt(0),
			}
			v.RewardAddress = pool[rapid.IntRange(0, len(pool)-1).Draw(rt, "rewardAddr")]
			switch rapid.IntRange(0, 11).Draw(rt, "list") {
			case 0:
				v.List = string(core.WaitingList)
			case 1:
				v.List = string(core.LeavingList)
			case 2:
				v.List = string(core.JailedList)
			case 3:
				v.List = string(core.InactiveList)
			default:
				v.List = string(core.EligibleList)
			}
			if v.List == string(core.WaitingList) || v.List == string(core.InactiveList) {
				// never part of a consensus group in this epoch: all counters stay zero
				list = append(list, v)
				continue
			}
			maxSel := b
			if budget < maxSel {
				maxSel = budget
			}
			sel := rapid.Uint64Range(0, maxSel).Draw(rt, "numSelected")
			if maxSel > 0 && rapid.IntRange(0, 3).Draw(rt, "selMax") == 0 {
				sel = maxSel
			}
			budget -= sel
			v.NumSelectedInSuccessBlocks = uint32(sel)
			isOffline := rapid.IntRange(0, 5).Draw(rt, "offline") < offlineBias
			if !isOffline && sel > 0 {
				maxLead := sel
				if leaderBudget < maxLead {
					maxLead = leaderBudget
				}
				lead := rapid.Uint64Range(0, maxLead).Draw(rt, "leaderSuccess")
				leaderBudget -= lead
				v.LeaderSuccess = uint32(lead)
				v.ValidatorSuccess = uint32(rapid.Uint64Range(0, sel-lead).Draw(rt, "validatorSuccess"))
				v.ValidatorIgnoredSignatures = uint32(sel-lead) - v.ValidatorSuccess
				if lead > 0 {
					leaders = append(leaders, v)
				}
			} else {
				v.ValidatorIgnoredSignatures = uint32(sel)
			}
			// failures concern blocks that did not succeed (not counted in blocks)
			v.LeaderFailure = uint32(rapid.IntRange(0, 2).Draw(rt, "leaderFailure"))
			v.ValidatorFailure = uint32(rapid.IntRange(0, 2).Draw(rt, "validatorFailure"))
			list = append(list, v)
		}
		in.vals[s] = list
	}
	in.n = totalBlocks
	if in.n == 0 {
		in.n = 1
	}
	n := big.NewInt(0).SetUint64(in.n)

	// economics, as ComputeEndOfEpochEconomics derives them
	var rwd0 *big.Int
	if rapid.IntRange(0, 3).Draw(rt, "feesDominate") == 0 {
		in.T = verifC35GenAmount(rt, "total")
		rwd0 = big.NewInt(0).Div(in.T, n)
	} else {
		rwd0 = verifC35GenAmount(rt, "rwdPerBlock")
		in.T = big.NewInt(0).Mul(rwd0, n)
	}
	pmD := rapid.SampledFrom([]int{0, 0, 1, 30, 100, 300}).Draw(rt, "devPermille")
	pmL := rapid.SampledFrom([]int{0, 1, 10, 100, 300}).Draw(rt, "leaderPermille")
	pmP := rapid.SampledFrom([]int{0, 1, 100, 100, 400}).Draw(rt, "protocolPermille")
	in.D = verifC35Permille(in.T, pmD)
	in.L = verifC35Permille(in.T, pmL)
	in.P = verifC35Permille(in.T, pmP)
	in.R = big.NewInt(0).Sub(in.T, in.D)
	in.R.Sub(in.R, in.L)
	in.R.Sub(in.R, in.P)
	in.RPB = big.NewInt(0).Set(rwd0)
	for _, x := range []*big.Int{in.D, in.L, in.P} {
		in.RPB.Sub(in.RPB, big.NewInt(0).Div(x, n))
	}

	// leader fees are spread over the nodes that led blocks; the remainder (rounding) stays undistributed
	remaining := big.NewInt(0).Set(in.L)
	for i, v := range leaders {
		var part *big.Int
		if i == len(leaders)-1 && rapid.Bool().Draw(rt, "feesExact") {
			part = big.NewInt(0).Set(remaining)
		} else {
			part = verifC35Permille(remaining, rapid.IntRange(0, 1000).Draw(rt, "feeShare"))
		}
		v.AccumulatedFees = part
		remaining.Sub(remaining, part)
	}

	// top-up stake
	in.totalTopUp = big.NewInt(0)
	topUpMode := rapid.IntRange(0, 3).Draw(rt, "topUpMode") // 0: nobody has top-up
	tokens := big.NewInt(0).Exp(big.NewInt(10), big.NewInt(18), nil)
	for _, s := range shardIDs {
		for _, v := range in.vals[s] {
			if rapid.IntRange(0, 15).Draw(rt, "topUpUnknown") == 0 {
				continue // the staking data provider does not know this key
			}
			tu := big.NewInt(0)
			if topUpMode > 0 && rapid.IntRange(0, 3).Draw(rt, "hasTopUp") > 0 {
				tu = big.NewInt(int64(rapid.IntRange(0, 1_000_000).Draw(rt, "topUpTokens")))
				if rapid.Bool().Draw(rt, "topUpWhole") {
					tu.Mul(tu, tokens)
				}
			}
			in.topUp[string(v.PublicKey)] = tu
			if verifC35WasEligible(v) {
				in.totalTopUp.Add(in.totalTopUp, tu)
				if tu.Sign() > 0 {
					in.hasTopUp = true
				}
			}
		}
	}
	in.factor = rapid.SampledFrom([]float64{0, 0.25, 0.25, 0.5, 0.5, 0.999, 1}).Draw(rt, "topUpFactor")
	in.gradient, _ = big.NewInt(0).SetString(rapid.SampledFrom([]string{"1", "1000000000000000000", "2000000000000000000000000", "3000000000000000000000000"}).Draw(rt, "gradientPoint"), 10)

	// features for the statistics
	for _, s := range shardIDs {
		for _, v := range in.vals[s] {
			if v.List == string(core.WaitingList) || v.List == string(core.InactiveList) {
				continue
			}
			usedAddr[string(v.RewardAddress)]++
			if v.LeaderSuccess == 0 && v.ValidatorSuccess == 0 && v.NumSelectedInSuccessBlocks > 0 {
				in.offline = true
			}
			if verifC35ShardOf(v.RewardAddress, in.nShards) == core.MetachainShardId {
				in.metaAddr = true
				if verifC35Deleg[string(v.RewardAddress)] {
					in.metaDeleg = true
				}
			}
		}
	}
	for _, k := range usedAddr {
		if k >= 2 {
			in.sharedAddr = true
		}
	}
	return in
}

// verifC35WasEligible re-states "took part in consensus in this epoch" (eligible, or leaving/jailed with activity).
func verifC35WasEligible(v *state.ValidatorInfo) bool {
	active := v.LeaderFailure > 0 || v.LeaderSuccess > 0 || v.ValidatorSuccess > 0 || v.ValidatorFailure > 0
	switch v.List {
	case string(core.EligibleList):
		return true
	case string(core.LeavingList), string(core.JailedList):
		return active
	}
	return false
}

func (in *verifC35Input) String() string {
	sb := &strings.Builder{}
	fmt.Fprintf(sb, "shards=%d epoch=%d delegationEnableEpoch=%d rewardsFix1EnableEpoch=%d T=%s D=%s L=%s P=%s R=%s rewardsPerBlock=%s topUpFactor=%v gradient=%s totalTopUp=%s;",
		in.nShards, in.epoch, in.delegEpoch, in.fix1Epoch, in.T, in.D, in.L, in.P, in.R, in.RPB, in.factor, in.gradient, in.totalTopUp)
	ids := make([]uint32, 0)
	for s := range in.vals {
		ids = append(ids, s)
	}
	sort.Slice(ids, func(i, j int) bool { return ids[i] < ids[j] })
	for _, s := range ids {
		fmt.Fprintf(sb, " shard %d: consensus=%d blocks=%d [", s, in.cons[s], in.blocks[s])
		for _, v := range in.vals[s] {
			tu := "?"
			if x, ok := in.topUp[string(v.PublicKey)]; ok {
				tu = x.String()
			}
			fmt.Fprintf(sb, "{%s addr=%x..%x(shard %d) sel=%d lead=%d val=%d leadFail=%d valFail=%d fees=%s topUp=%s}", v.List, v.RewardAddress[:2], v.RewardAddress[28:],
				verifC35ShardOf(v.RewardAddress, in.nShards), v.NumSelectedInSuccessBlocks, v.LeaderSuccess, v.ValidatorSuccess, v.LeaderFailure, v.ValidatorFailure, v.AccumulatedFees, tu)
		}
		sb.WriteString("]")
	}
	return sb.String()
}

func (in *verifC35Input) baseArgs() BaseRewardsCreatorArgs {
	args := verifC35BaseArgs
	sc := mock.NewMultiShardsCoordinatorMock(in.nShards)
	sc.CurrentShard = core.MetachainShardId
	nShards := in.nShards
	sc.ComputeIdCalled = func(address []byte) uint32 { return verifC35ShardOf(address, nShards) }
	args.ShardCoordinator = sc
	cons := in.cons
	args.NodesConfigProvider = &mock.NodesCoordinatorStub{ConsensusGroupSizeCalled: func(shardID uint32) int { return cons[shardID] }}
	args.DelegationSystemSCEnableEpoch = in.delegEpoch
	args.RewardsFix1EpochEnable = in.fix1Epoch
	return args
}

func (in *verifC35Input) newV1() (process.RewardsCreator, *baseRewardsCreator, error) {
	rc, err := NewRewardsCreator(ArgsNewRewardsCreator{BaseRewardsCreatorArgs: in.baseArgs()})
	if err != nil {
		return nil, nil, err
	}
	return rc, rc.baseRewardsCreator, nil
}

func (in *verifC35Input) newV2() (process.RewardsCreator, *baseRewardsCreator, error) {
	eco := NewEpochEconomicsStatistics()
	// same calls, same order as ComputeEndOfEpochEconomics
	total := uint64(0)
	for _, b := range in.blocks {
		total += b
	}
	eco.SetNumberOfBlocks(total)
	eco.SetNumberOfBlocksPerShard(in.blocks)
	eco.SetLeadersFees(big.NewInt(0).Set(in.L))
	eco.SetRewardsToBeDistributed(big.NewInt(0).Set(in.T))
	eco.SetRewardsToBeDistributedForBlocks(big.NewInt(0).Set(in.R))
	factor, gradient := in.factor, in.gradient
	topUp, totalTopUp := in.topUp, in.totalTopUp
	args := RewardsCreatorArgsV2{
		BaseRewardsCreatorArgs: in.baseArgs(),
		EconomicsDataProvider:  eco,
		RewardsHandler: &economicsmocks.EconomicsHandlerStub{
			RewardsTopUpGradientPointCalled: func() *big.Int { return big.NewInt(0).Set(gradient) },
			RewardsTopUpFactorCalled:        func() float64 { return factor },
		},
		StakingDataProvider: &mock.StakingDataProviderStub{
			GetTotalTopUpStakeEligibleNodesCalled: func() *big.Int { return big.NewInt(0).Set(totalTopUp) },
			GetNodeStakedTopUpCalled: func(blsKey []byte) (*big.Int, error) {
				v, ok := topUp[string(blsKey)]
				if !ok {
					return nil, fmt.Errorf("unknown key")
				}
				return big.NewInt(0).Set(v), nil
			},
		},
	}
	rc, err := NewRewardsCreatorV2(args)
	if err != nil {
		return nil, nil, err
	}
	return rc, rc.baseRewardsCreator, nil
}

func (in *verifC35Input) header() *block.MetaBlock {
	return &block.MetaBlock{
		Epoch:          in.epoch,
		Round:          in.round,
		Nonce:          10,
		DevFeesInEpoch: big.NewInt(0).Set(in.D),
		EpochStart: block.EpochStart{
			LastFinalizedHeaders: []block.EpochStartShardData{{ShardID: 0}},
			Economics:            *in.economics(),
		},
	}
}

func (in *verifC35Input) economics() *block.Economics {
	return &block.Economics{
		TotalSupply:                      big.NewInt(0).Mul(in.T, big.NewInt(1000)),
		TotalToDistribute:                big.NewInt(0).Set(in.T),
		TotalNewlyMinted:                 big.NewInt(0),
		RewardsPerBlock:                  big.NewInt(0).Set(in.RPB),
		RewardsForProtocolSustainability: big.NewInt(0).Set(in.P),
		NodePrice:                        big.NewInt(0),
	}
}

func (in *verifC35Input) cloneVals() map[uint32][]*state.ValidatorInfo {
	out := make(map[uint32][]*state.ValidatorInfo, len(in.vals))
	for s, l := range in.vals {
		cp := make([]*state.ValidatorInfo, len(l))
		for i, v := range l {
			c := *v
			c.AccumulatedFees = big.NewInt(0).Set(v.AccumulatedFees)
			cp[i] = &c
		}
		out[s] = cp
	}
	return out
}

func verifC35Check(c *kit.Case, rt *rapid.T, ver string, in *verifC35Input, mk func() (process.RewardsCreator, *baseRewardsCreator, error)) {
	rc, brc, err := mk()
	if err != nil {
		rt.Fatalf("fixture: creator: %v", err)
	}
	hdr := in.header()
	var mbs block.MiniBlockSlice
	// the creating node passes the header's own economics (metaProcessor.createEpochStartBody)
	c.NoPanic("C35:"+ver+":create-panic", func() { mbs, err = rc.CreateRewardsMiniBlocks(hdr, in.cloneVals(), &hdr.EpochStart.Economics) })
	if err != nil {
		c.Violation("C35:"+ver+":create-error", "CreateRewardsMiniBlocks: %v\n%s", err, in)
	}
	expected := big.NewInt(0).Sub(in.T, in.D)
	sum := big.NewInt(0)
	protAddr := brc.protocolSustainabilityAddress
	var protocolValue *big.Int
	nTx := 0
	for _, mb := range mbs {
		for _, h := range mb.TxHashes {
			tx, errGet := brc.currTxs.GetTx(h)
			if errGet != nil {
				c.Violation("C35:"+ver+":tx-missing", "miniblock references reward tx %x that is not in the local cache\n%s", h, in)
			}
			nTx++
			val := tx.GetValue()
			sum.Add(sum, val)
			rcv := tx.GetRcvAddr()
			if bytes.Equal(rcv, protAddr) {
				protocolValue = val
				continue
			}
			if val.Sign() <= 0 {
				c.Violation("C35:"+ver+":non-positive-reward", "reward tx to %x has value %s\n%s", rcv, val, in)
			}
			if verifC35ShardOf(rcv, in.nShards) == core.MetachainShardId {
				if in.epoch < in.delegEpoch || !verifC35Deleg[string(rcv)] {
					c.Violation("C35:"+ver+":reward-to-metachain-non-delegation", "reward tx of %s to metachain address %x (delegation SC: %v, delegation enabled: %v)\n%s",
						val, rcv, verifC35Deleg[string(rcv)], in.epoch >= in.delegEpoch, in)
				}
				c.Class(ver + ":reward-to-delegation-sc")
			}
		}
	}
	if protocolValue == nil {
		c.Violation("C35:"+ver+":no-protocol-tx", "no protocol sustainability reward tx among %d txs\n%s", nTx, in)
	}
	if sum.Cmp(expected) != 0 {
		diff := big.NewInt(0).Sub(sum, expected)
		key := "C35:" + ver + ":sum"
		if off := verifC35V1OfflineRewards(in); ver == "v1" && off.Sign() > 0 && diff.Cmp(off) == 0 {
			// legacy creator: the per-block rewards of nodes it treats as offline reach the protocol tx twice
			key = verifC35KeyV1Offline
		}
		if key == verifC35KeyV1Offline && kit.IsKnown(key) {
			c.Excluded(key) // recorded finding; keep checking everything else on this case
		} else {
			c.Violation(key, "reward txs add up to %s, economics say TotalToDistribute - DevFees = %s (difference %s; protocol tx %s, base %s)\n%s",
				sum, expected, diff, protocolValue, in.P, in)
		}
	}
	// The protocol tx is always emitted; it must carry at least the computed P (hence > 0 whenever P > 0).
	// v1 only: economics.go floors D/n, L/n and P/n when it derives RewardsPerBlock, so the per-block payments of the
	// legacy creator can exceed R by less than 3n and the (legal, logged) negative adjustment is taken from the protocol tx.
	floor := big.NewInt(0).Set(in.P)
	if ver == "v1" {
		floor.Sub(floor, big.NewInt(int64(3*in.n)))
	}
	if protocolValue.Cmp(floor) < 0 {
		c.Violation("C35:"+ver+":protocol-below-base", "protocol sustainability tx %s is below the computed %s\n%s", protocolValue, in.P, in)
	}

	// a second node verifies the block: header economics carry the corrected protocol value, computed economics the base one
	hdr.EpochStart.Economics.RewardsForProtocolSustainability.Set(rc.GetProtocolSustainabilityRewards())
	hdr.MiniBlockHeaders = make([]block.MiniBlockHeader, len(mbs))
	for i, mb := range mbs {
		h, errHash := core.CalculateHash(verifC35BaseArgs.Marshalizer, verifC35BaseArgs.Hasher, mb)
		if errHash != nil {
			rt.Fatalf("fixture: hash: %v", errHash)
		}
		hdr.MiniBlockHeaders[i] = block.MiniBlockHeader{Hash: h, SenderShardID: mb.SenderShardID, ReceiverShardID: mb.ReceiverShardID, TxCount: uint32(len(mb.TxHashes)), Type: mb.Type}
	}
	rc2, _, err := mk()
	if err != nil {
		rt.Fatalf("fixture: creator: %v", err)
	}
	c.NoPanic("C35:"+ver+":verify-panic", func() { err = rc2.VerifyRewardsMiniBlocks(hdr, in.cloneVals(), in.economics()) })
	if err != nil {
		c.Violation("C35:"+ver+":verify-rejects-created", "a second creator rejects the created miniblocks: %v\n%s", err, in)
	}
	if len(mbs) > 0 {
		i := rapid.IntRange(0, len(mbs)-1).Draw(rt, "tamperMb")
		hdr.MiniBlockHeaders[i].Hash = append([]byte{hdr.MiniBlockHeaders[i].Hash[0] ^ 1}, hdr.MiniBlockHeaders[i].Hash[1:]...)
		c.NoPanic("C35:"+ver+":verify-panic", func() { err = rc2.VerifyRewardsMiniBlocks(hdr, in.cloneVals(), in.economics()) })
		if err == nil {
			c.Violation("C35:"+ver+":verify-accepts-tampered", "verification accepts a changed miniblock hash\n%s", in)
		}
	}
}

const verifC35KeyV1Offline = "C35:v1:sum:offline-validator-reward-counted-twice"

// verifC35V1OfflineRewards is the amount the legacy creator assigns per block to nodes it treats as offline
// (documented rule: rewardsPerBlock / consensusSize(shard) per selection; offline = no successful leader or
// validator action once rewards-fix-1 is active, before that: no leader success and no validator failure).
func verifC35V1OfflineRewards(in *verifC35Input) *big.Int {
	total := big.NewInt(0)
	fix1 := in.epoch > in.fix1Epoch
	for _, l := range in.vals {
		for _, v := range l {
			offline := v.LeaderSuccess == 0 && v.ValidatorSuccess == 0
			if !fix1 {
				offline = v.LeaderSuccess == 0 && v.ValidatorFailure == 0
			}
			if !offline {
				continue
			}
			rate := big.NewInt(0).Div(in.RPB, big.NewInt(int64(in.cons[v.ShardId])))
			total.Add(total, rate.Mul(rate, big.NewInt(int64(v.NumSelectedInSuccessBlocks))))
		}
	}
	return total
}

func verifC35Classify(c *kit.Case, in *verifC35Input, v2 bool) {
	if in.sharedAddr {
		c.Class("shared-reward-address")
	}
	if in.offline {
		c.Class("offline-validator")
	}
	if in.metaAddr {
		c.Class("metachain-reward-address")
	}
	if in.metaDeleg && in.epoch >= in.delegEpoch {
		c.Class("delegation-sc-address-enabled")
	}
	if in.hasTopUp {
		c.Class("top-up>0")
	}
	if in.T.Sign() == 0 {
		c.Class("total=0")
	}
	if in.sharedAddr && in.offline && in.metaAddr && (!v2 || in.hasTopUp) && in.T.Sign() > 0 {
		s := in.String()
		c.NonTrivial(s)
		c.Sample("%s", s)
	}
}

const verifC35Rule = "1-3 shards + metachain, consensus size 1-5, 0-50 blocks and 0-8 validators per shard (eligible/waiting/leaving/jailed/inactive) with selection and success counters consistent with the block counts (some offline), reward addresses from a per-case pool of 1-6 (shard addresses, metachain addresses of four kinds: delegation SC / existing account with storage but no delegation key / no account / account without storage), economics derived as ComputeEndOfEpochEconomics does (T, D, L, P, R = T-D-L-P, RewardsPerBlock with per-block flooring; amounts from 0 to ~1e26), leader fees spread over the leaders, top-up stake per node (v2), top-up factor in {0,.25,.5,.999,1}, delegation flag and rewards-fix-1 flag on/off. Oracle: sum of reward tx values == T - D exactly; validator txs > 0; protocol tx >= P; receivers in a shard or an enabled delegation SC; a second creator verifies the result and rejects a changed hash. Non-trivial = total > 0 and >= 2 active validators share a reward address and >= 1 offline validator with selections and >= 1 metachain reward address (v2: and top-up > 0); distinct by full input"

func TestVerifC35_RewardsV2(t *testing.T) {
	verifC35Fixture(t)
	kit.Run(t, "C35", kit.Budget{Quick: 6000, Thorough: 80000}, "rewardsCreatorV2: "+verifC35Rule, func(rt *rapid.T, c *kit.Case) {
		in := verifC35Gen(rt)
		verifC35Classify(c, in, true)
		verifC35Check(c, rt, "v2", in, in.newV2)
	})
}

func TestVerifC35_RewardsV1(t *testing.T) {
	verifC35Fixture(t)
	kit.Run(t, "C35", kit.Budget{Quick: 6000, Thorough: 80000}, "rewardsCreator (v1): "+verifC35Rule, func(rt *rapid.T, c *kit.Case) {
		in := verifC35Gen(rt)
		verifC35Classify(c, in, false)
		verifC35Check(c, rt, "v1", in, in.newV1)
	})
}

// verifC35Sum runs one creator on a written-out input and returns the sum of the created reward txs.
func verifC35Sum(t *testing.T, in *verifC35Input, mk func() (process.RewardsCreator, *baseRewardsCreator, error)) *big.Int {
	rc, brc, err := mk()
	if err != nil {
		t.Fatalf("fixture: %v", err)
	}
	hdr := in.header()
	mbs, err := rc.CreateRewardsMiniBlocks(hdr, in.cloneVals(), &hdr.EpochStart.Economics)
	if err != nil {
		t.Fatalf("fixture: CreateRewardsMiniBlocks: %v", err)
	}
	sum := big.NewInt(0)
	for _, mb := range mbs {
		for _, h := range mb.TxHashes {
			tx, errGet := brc.currTxs.GetTx(h)
			if errGet != nil {
				t.Fatalf("fixture: %v", errGet)
			}
			sum.Add(sum, tx.GetValue())
		}
	}
	return sum
}

// TestVerifC35_Regress replays the minimal counterexamples found by the generated checks.
func TestVerifC35_Regress(t *testing.T) {
	verifC35Fixture(t)
	kit.Silence()
	shardAddr := make([]byte, 32)
	shardAddr[0] = 0xa0
	mkInput := func() *verifC35Input {
		return &verifC35Input{
			nShards: 1, epoch: 1, n: 1,
			cons:   map[uint32]int{0: 1, core.MetachainShardId: 1},
			blocks: map[uint32]uint64{0: 1, core.MetachainShardId: 0},
			vals:   map[uint32][]*state.ValidatorInfo{0: {}, core.MetachainShardId: {}},
			topUp:  map[string]*big.Int{}, totalTopUp: big.NewInt(0),
			D: big.NewInt(0), L: big.NewInt(0), P: big.NewInt(0),
			factor: 0.25, gradient: big.NewInt(1),
		}
	}

	// v1: one node that was selected once but never signed; RewardsPerBlock 1, TotalToDistribute 1
	in := mkInput()
	in.T, in.R, in.RPB = big.NewInt(1), big.NewInt(1), big.NewInt(1)
	in.vals[0] = []*state.ValidatorInfo{{PublicKey: []byte("k1"), ShardId: 0, List: string(core.EligibleList), RewardAddress: shardAddr,
		NumSelectedInSuccessBlocks: 1, AccumulatedFees: big.NewInt(0)}}
	if sum := verifC35Sum(t, in, in.newV1); sum.Cmp(big.NewInt(1)) != 0 {
		kit.FailPlain(t, "C35", verifC35KeyV1Offline, "v1: one offline node with 1 selection, RewardsPerBlock 1: reward txs add up to %s, TotalToDistribute - DevFees = 1", sum)
	}
	// same input, node online: exact
	in.vals[0][0].ValidatorSuccess = 1
	if sum := verifC35Sum(t, in, in.newV1); sum.Cmp(big.NewInt(1)) != 0 {
		kit.FailPlain(t, "C35", "C35:v1:sum", "v1: one online node: reward txs add up to %s, want 1", sum)
	}

	// v2: TopUpFactor 1 and total top-up >> gradient point: (2k/pi)*atan(x/p) evaluated in floating point exceeded k = R
	in = mkInput()
	in.factor = 1
	in.blocks[core.MetachainShardId] = 1
	in.n = 2
	in.R, _ = big.NewInt(0).SetString("16470000000000000", 10)
	in.P, _ = big.NewInt(0).SetString("1830000000000000", 10)
	in.T = big.NewInt(0).Add(in.R, in.P)
	in.RPB = big.NewInt(0).Div(in.R, big.NewInt(2))
	in.totalTopUp, _ = big.NewInt(0).SetString("1000000000000000000", 10)
	in.topUp["k1"] = big.NewInt(0).Set(in.totalTopUp)
	in.vals[0] = []*state.ValidatorInfo{{PublicKey: []byte("k1"), ShardId: 0, List: string(core.EligibleList), RewardAddress: shardAddr,
		NumSelectedInSuccessBlocks: 1, LeaderSuccess: 1, AccumulatedFees: big.NewInt(0)}}
	if sum := verifC35Sum(t, in, in.newV2); sum.Cmp(in.T) != 0 {
		kit.FailPlain(t, "C35", "C35:v2:sum", "v2: TopUpFactor 1, gradient point 1, top-up 1e18, 2 blocks, R %s: reward txs add up to %s, TotalToDistribute - DevFees = %s", in.R, sum, in.T)
	}
}
