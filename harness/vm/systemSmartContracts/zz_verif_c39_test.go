package systemSmartContracts

import (
	"bytes"
	"fmt"
	"math/big"
	"strings"
	"testing"

	"github.com/ElrondNetwork/elrond-go/config"
	"github.com/ElrondNetwork/elrond-go/core"
	"github.com/ElrondNetwork/elrond-go/marshal"
	"github.com/ElrondNetwork/elrond-go/vm"
	"github.com/ElrondNetwork/elrond-go/vm/mock"
	kit "github.com/ElrondNetwork/elrond-go/verifkit"
	vmcommon "github.com/ElrondNetwork/elrond-vm-common"
	"pgregory.net/rapid"
)

// C39: Staking queue and staked-node count stay consistent.
//
// User-level operations are transactions to the validator contract (which calls the staking contract through
// ExecuteOnDestContext); system-level operations are transactions to the staking contract from the callers that
// epochStart/metachain/systemSCs.go and the jailing address use. After every transaction the committed storage of
// the staking contract is decoded and the invariants of the statement are evaluated.

const verifC39NodePrice = 1000
const verifC39UnJailPrice = 10
const verifC39FarEpoch = 1000000

type verifC39Cfg struct {
	minNodes, maxNodes uint64
	unBondPeriod       uint64
	minStakeValue      string
	stakeEpoch         uint32
	v2Epoch            uint32
	correctEpoch       uint32
	doubleKeyEpoch     uint32
	unbondV2Epoch      uint32
	startEpoch         uint32
	startNonce         uint64
}

func (c verifC39Cfg) String() string {
	return fmt.Sprintf("min=%d max=%d unbond=%d minStake=%s epochs{stake:%d v2:%d correctLastUnjailed:%d doubleKey:%d unbondV2:%d} start{epoch:%d nonce:%d}",
		c.minNodes, c.maxNodes, c.unBondPeriod, c.minStakeValue, c.stakeEpoch, c.v2Epoch, c.correctEpoch, c.doubleKeyEpoch, c.unbondV2Epoch, c.startEpoch, c.startNonce)
}

type verifC39Fixture struct {
	cfg       verifC39Cfg
	ch        *verifVMBChain
	eei       *vmContext
	staking   *stakingSC
	validator *validatorSC
	notifier  *verifVMBNotifier
	m         marshal.Marshalizer
	keys      [][]byte
	owners    [][]byte
}

func verifC39Key(i int) []byte {
	k := bytes.Repeat([]byte{byte(0xb0 + i)}, 96)
	k[0] = 'K'
	k[1] = byte('0' + i)
	return k
}

func verifC39Owner(i int) []byte {
	o := bytes.Repeat([]byte{byte(0x50 + i)}, 32)
	o[0] = 'O' // not a smart contract address (those start with eight zero bytes)
	o[1] = byte('0' + i)
	return o
}

func verifC39NewFixture(cfg verifC39Cfg, nKeys, nOwners int) (*verifC39Fixture, error) {
	ch := verifVMBNewChain()
	ch.epoch = cfg.startEpoch
	ch.nonce = cfg.startNonce
	ch.round = cfg.startNonce
	eei, err := ch.verifVMBNewEEI()
	if err != nil {
		return nil, err
	}
	f := &verifC39Fixture{cfg: cfg, ch: ch, eei: eei, notifier: &verifVMBNotifier{}, m: &marshal.GogoProtoMarshalizer{}}
	for i := 0; i < nKeys; i++ {
		f.keys = append(f.keys, verifC39Key(i))
	}
	for i := 0; i < nOwners; i++ {
		f.owners = append(f.owners, verifC39Owner(i))
	}
	scConfig := config.StakingSystemSCConfig{
		GenesisNodePrice:         fmt.Sprint(verifC39NodePrice),
		MinStakeValue:            cfg.minStakeValue,
		UnJailValue:              fmt.Sprint(verifC39UnJailPrice),
		MinStepValue:             "10",
		UnBondPeriod:             cfg.unBondPeriod,
		UnBondPeriodInEpochs:     1,
		MaxNumberOfNodesForStake: cfg.maxNodes,
		MinUnstakeTokensValue:    "1",
	}
	epochs := config.EpochConfig{EnableEpochs: config.EnableEpochs{
		StakeEnableEpoch:                 cfg.stakeEpoch,
		StakingV2EnableEpoch:             cfg.v2Epoch,
		CorrectLastUnjailedEnableEpoch:   cfg.correctEpoch,
		DoubleKeyProtectionEnableEpoch:   cfg.doubleKeyEpoch,
		UnbondTokensV2EnableEpoch:        cfg.unbondV2Epoch,
		ValidatorToDelegationEnableEpoch: verifC39FarEpoch,
	}}
	f.staking, err = NewStakingSmartContract(ArgsNewStakingSmartContract{
		StakingSCConfig:      scConfig,
		MinNumNodes:          cfg.minNodes,
		Eei:                  eei,
		StakingAccessAddr:    vm.ValidatorSCAddress,
		JailAccessAddr:       vm.JailingAddress,
		EndOfEpochAccessAddr: vm.EndOfEpochAddress,
		GasCost:              vm.GasCost{},
		Marshalizer:          f.m,
		EpochNotifier:        f.notifier.verifVMBStub(cfg.startEpoch),
		EpochConfig:          epochs,
	})
	if err != nil {
		return nil, err
	}
	f.validator, err = NewValidatorSmartContract(ArgsValidatorSmartContract{
		StakingSCConfig:          scConfig,
		GenesisTotalSupply:       big.NewInt(1000000000),
		Eei:                      eei,
		SigVerifier:              &mock.MessageSignVerifierMock{},
		StakingSCAddress:         vm.StakingSCAddress,
		ValidatorSCAddress:       vm.ValidatorSCAddress,
		GasCost:                  vm.GasCost{},
		Marshalizer:              f.m,
		EpochNotifier:            f.notifier.verifVMBStub(cfg.startEpoch),
		EndOfEpochAddress:        vm.EndOfEpochAddress,
		MinDeposit:               "0",
		DelegationMgrSCAddress:   vm.DelegationManagerSCAddress,
		GovernanceSCAddress:      vm.GovernanceSCAddress,
		DelegationMgrEnableEpoch: verifC39FarEpoch,
		EpochConfig:              epochs,
		ShardCoordinator:         &mock.ShardCoordinatorStub{},
	})
	if err != nil {
		return nil, err
	}
	err = eei.SetSystemSCContainer(verifVMBContainer(map[string]vm.SystemSmartContract{
		string(vm.StakingSCAddress):   f.staking,
		string(vm.ValidatorSCAddress): f.validator,
	}))
	if err != nil {
		return nil, err
	}
	// deployment of both contracts (systemVM.RunSmartContractCreate: the init endpoint under the contract address)
	for _, d := range []struct {
		addr []byte
		sc   vm.SystemSmartContract
	}{{vm.StakingSCAddress, f.staking}, {vm.ValidatorSCAddress, f.validator}} {
		eei.CleanCache()
		eei.SetSCAddress(d.addr)
		rc := d.sc.Execute(verifVMBInput([]byte("deployer"), d.addr, core.SCDeployInitFunctionName, nil))
		if rc != vmcommon.Ok {
			return nil, fmt.Errorf("init returned %s", rc)
		}
		ch.verifVMBCommit(eei.CreateVMOutput())
		eei.CleanCache()
	}
	return f, nil
}

// ---- decoded state of the staking contract -------------------------------------------------------------------

type verifC39State struct {
	cfg         StakingNodesConfig
	headPresent bool
	head        WaitingList
	elems       map[string]*ElementInList  // storage key ("w_"+bls) -> element
	elemKeys    []string                   // sorted
	regs        map[string]*StakedDataV2_0 // bls key -> registration
	regKeys     []string                   // sorted
	walk        []string                   // bls keys in list order (as far as the walk got)
	pos         map[string]int             // bls key -> position in walk
}

func (f *verifC39Fixture) verifC39Decode() (*verifC39State, error) {
	st := &verifC39State{elems: map[string]*ElementInList{}, regs: map[string]*StakedDataV2_0{}, pos: map[string]int{}}
	st.cfg = StakingNodesConfig{MinNumNodes: int64(f.cfg.minNodes), MaxNumNodes: int64(f.cfg.maxNodes)}
	universe := map[string]bool{}
	for _, k := range f.keys {
		universe[string(k)] = true
	}
	for _, k := range f.ch.verifVMBKeys(vm.StakingSCAddress) {
		v := f.ch.verifVMBGet(vm.StakingSCAddress, []byte(k))
		switch {
		case k == nodesConfigKey:
			st.cfg = StakingNodesConfig{}
			if err := f.m.Unmarshal(&st.cfg, v); err != nil {
				return nil, fmt.Errorf("nodes config does not decode: %w", err)
			}
		case k == waitingListHeadKey:
			st.headPresent = true
			if err := f.m.Unmarshal(&st.head, v); err != nil {
				return nil, fmt.Errorf("waiting list head does not decode: %w", err)
			}
		case strings.HasPrefix(k, waitingElementPrefix) && len(k) == len(waitingElementPrefix)+96:
			e := &ElementInList{}
			if err := f.m.Unmarshal(e, v); err != nil {
				return nil, fmt.Errorf("waiting list element does not decode: %w", err)
			}
			st.elems[k] = e
			st.elemKeys = append(st.elemKeys, k)
		case universe[k]:
			r := &StakedDataV2_0{}
			if err := f.m.Unmarshal(r, v); err != nil {
				return nil, fmt.Errorf("registration does not decode: %w", err)
			}
			st.regs[k] = r
			st.regKeys = append(st.regKeys, k)
		case k == ownerKey || strings.HasPrefix(k, "epoch_"):
		default:
			return nil, fmt.Errorf("unexpected storage key %q in the staking contract", k)
		}
	}
	return st, nil
}

func verifC39Name(bls string) string {
	if len(bls) >= 2 && bls[0] == 'K' {
		return "k" + bls[1:2]
	}
	return fmt.Sprintf("%x", bls)
}

func verifC39WKey(k []byte) string {
	if len(k) == 0 {
		return "-"
	}
	s := string(k)
	if strings.HasPrefix(s, waitingElementPrefix) {
		return "w_" + verifC39Name(s[len(waitingElementPrefix):])
	}
	return fmt.Sprintf("%x", k)
}

func (st *verifC39State) String() string {
	if st == nil {
		return "(not decoded)"
	}
	var sb strings.Builder
	fmt.Fprintf(&sb, "config{min:%d max:%d staked:%d jailed:%d} head{present:%v first:%s last:%s len:%d lastJailed:%s} elements[",
		st.cfg.MinNumNodes, st.cfg.MaxNumNodes, st.cfg.StakedNodes, st.cfg.JailedNodes,
		st.headPresent, verifC39WKey(st.head.FirstKey), verifC39WKey(st.head.LastKey), st.head.Length, verifC39WKey(st.head.LastJailedKey))
	for _, k := range st.elemKeys {
		e := st.elems[k]
		fmt.Fprintf(&sb, " %s{prev:%s next:%s}", verifC39WKey([]byte(k)), verifC39WKey(e.PreviousKey), verifC39WKey(e.NextKey))
	}
	sb.WriteString(" ] keys[")
	for _, k := range st.regKeys {
		r := st.regs[k]
		fmt.Fprintf(&sb, " %s{staked:%v waiting:%v jailed:%v numJailed:%d unStakedNonce:%d}", verifC39Name(k), r.Staked, r.Waiting, r.Jailed, r.NumJailed, r.UnStakedNonce)
	}
	sb.WriteString(" ]")
	return sb.String()
}

// ---- operations ------------------------------------------------------------------------------------------------

type verifC39Op struct {
	kind   string
	owner  int
	keys   []int
	value  int64
	amount int64
	list   string
}

func (o verifC39Op) String() string {
	var sb strings.Builder
	sb.WriteString(o.kind)
	sb.WriteString("(")
	if o.owner >= 0 {
		fmt.Fprintf(&sb, "owner%d ", o.owner)
	}
	for _, k := range o.keys {
		fmt.Fprintf(&sb, "k%d ", k)
	}
	if o.value != 0 {
		fmt.Fprintf(&sb, "value=%d ", o.value)
	}
	if o.amount != 0 {
		fmt.Fprintf(&sb, "n=%d ", o.amount)
	}
	if o.list != "" {
		fmt.Fprintf(&sb, "list=%s", o.list)
	}
	return strings.TrimRight(sb.String(), " ") + ")"
}

type verifC39Result struct {
	rcs []string
}

func (f *verifC39Fixture) verifC39Tx(res *verifC39Result, caller, recipient []byte, function string, value int64, args ...[]byte) (vmcommon.ReturnCode, *vmcommon.VMOutput, error) {
	rc, out, err := f.ch.verifVMBRun(f.eei, verifVMBInput(caller, recipient, function, big.NewInt(value), args...))
	if err != nil {
		return rc, out, err
	}
	res.rcs = append(res.rcs, function+":"+rc.String())
	return rc, out, nil
}

func verifC39Num(n int64) []byte { return big.NewInt(n).Bytes() }

func (f *verifC39Fixture) verifC39KeyArgs(idx []int) [][]byte {
	out := make([][]byte, 0, len(idx))
	for _, i := range idx {
		out = append(out, append([]byte(nil), f.keys[i]...))
	}
	return out
}

// verifC39Exec executes one operation (one or several transactions, as the production caller would issue them).
func (f *verifC39Fixture) verifC39Exec(op verifC39Op, before *verifC39State) (*verifC39Result, error) {
	res := &verifC39Result{}
	var err error
	sys := vm.EndOfEpochAddress
	switch op.kind {
	case "stake":
		args := [][]byte{verifC39Num(int64(len(op.keys)))}
		for _, k := range f.verifC39KeyArgs(op.keys) {
			args = append(args, k, []byte("signed"))
		}
		_, _, err = f.verifC39Tx(res, f.owners[op.owner], vm.ValidatorSCAddress, "stake", op.value, args...)
	case "topUp":
		_, _, err = f.verifC39Tx(res, f.owners[op.owner], vm.ValidatorSCAddress, "stake", op.value)
	case "unStake", "unStakeNodes", "unBond", "unBondNodes", "reStakeUnStakedNodes":
		_, _, err = f.verifC39Tx(res, f.owners[op.owner], vm.ValidatorSCAddress, op.kind, 0, f.verifC39KeyArgs(op.keys)...)
	case "unJail":
		_, _, err = f.verifC39Tx(res, f.owners[op.owner], vm.ValidatorSCAddress, "unJail", op.value, f.verifC39KeyArgs(op.keys)...)
	case "unStakeTokens":
		_, _, err = f.verifC39Tx(res, f.owners[op.owner], vm.ValidatorSCAddress, "unStakeTokens", 0, verifC39Num(op.amount))
	case "unBondTokens":
		if op.amount > 0 {
			_, _, err = f.verifC39Tx(res, f.owners[op.owner], vm.ValidatorSCAddress, "unBondTokens", 0, verifC39Num(op.amount))
		} else {
			_, _, err = f.verifC39Tx(res, f.owners[op.owner], vm.ValidatorSCAddress, "unBondTokens", 0)
		}
	case "sys.jail":
		_, _, err = f.verifC39Tx(res, vm.JailingAddress, vm.StakingSCAddress, "jail", 0, f.verifC39KeyArgs(op.keys)...)
	case "sys.switchJailedWithWaiting":
		_, _, err = f.verifC39Tx(res, sys, vm.StakingSCAddress, "switchJailedWithWaiting", 0, f.verifC39KeyArgs(op.keys)...)
	case "sys.unStakeAtEndOfEpoch+stakeNodesFromQueue":
		// systemSCs.go unStakeNodesWithNotEnoughFunds + stakeNodesFromQueue: as many nodes are taken from the
		// queue as staked nodes were unstaked (nodes unstaked out of the queue are not counted:
		// flagCorrectNumNodesToStake semantics)
		n := int64(0)
		for _, k := range f.verifC39KeyArgs(op.keys) {
			wasStaked := false
			cur, errDec := f.verifC39Decode()
			if errDec != nil {
				return res, errDec
			}
			if r := cur.regs[string(k)]; r != nil && r.Staked {
				wasStaked = true
			}
			var rc vmcommon.ReturnCode
			rc, _, err = f.verifC39Tx(res, sys, vm.StakingSCAddress, "unStakeAtEndOfEpoch", 0, k)
			if err != nil {
				return res, err
			}
			if rc == vmcommon.Ok && wasStaked {
				n++
			}
		}
		if n > 0 {
			_, _, err = f.verifC39Tx(res, sys, vm.StakingSCAddress, "stakeNodesFromQueue", 0, verifC39Num(n))
		}
	case "sys.unStakeAtEndOfEpoch":
		_, _, err = f.verifC39Tx(res, sys, vm.StakingSCAddress, "unStakeAtEndOfEpoch", 0, f.verifC39KeyArgs(op.keys)...)
	case "sys.raiseMaxNodes+stakeNodesFromQueue":
		// systemSCs.go updateMaxNodes: set the new maximum, stake (new - previous) nodes from the queue
		var rc vmcommon.ReturnCode
		var out *vmcommon.VMOutput
		rc, out, err = f.verifC39Tx(res, sys, vm.StakingSCAddress, "updateConfigMaxNodes", 0, verifC39Num(before.cfg.MaxNumNodes+op.amount))
		if err == nil && rc == vmcommon.Ok && len(out.ReturnData) > 0 {
			prev := big.NewInt(0).SetBytes(out.ReturnData[0]).Int64()
			d := before.cfg.MaxNumNodes + op.amount - prev
			// systemSCs.go never lowers the maximum, so its (new - previous) formula presumes StakedNodes <= previous
			// maximum; after a generated lowering only the places that really exist are filled
			if room := before.cfg.MaxNumNodes + op.amount - before.cfg.StakedNodes; d > room {
				d = room
			}
			if d > 0 {
				_, _, err = f.verifC39Tx(res, sys, vm.StakingSCAddress, "stakeNodesFromQueue", 0, verifC39Num(d))
			}
		}
	case "sys.updateConfigMaxNodes":
		_, _, err = f.verifC39Tx(res, sys, vm.StakingSCAddress, "updateConfigMaxNodes", 0, verifC39Num(op.amount))
	case "sys.updateConfigMinNodes":
		_, _, err = f.verifC39Tx(res, sys, vm.StakingSCAddress, "updateConfigMinNodes", 0, verifC39Num(op.amount))
	case "sys.stakeNodesFromQueue":
		_, _, err = f.verifC39Tx(res, sys, vm.StakingSCAddress, "stakeNodesFromQueue", 0, verifC39Num(op.amount))
	case "sys.cleanAdditionalQueue":
		_, _, err = f.verifC39Tx(res, sys, vm.StakingSCAddress, "cleanAdditionalQueue", 0)
	case "sys.resetLastUnJailedFromQueue":
		_, _, err = f.verifC39Tx(res, sys, vm.StakingSCAddress, "resetLastUnJailedFromQueue", 0)
	case "env.peerList":
		k := string(f.keys[op.keys[0]])
		if op.list == "none" {
			delete(f.ch.peerList, k)
		} else {
			f.ch.peerList[k] = op.list
		}
		f.ch.badRate[k] = op.amount == 1
	case "env.nonce":
		f.ch.nonce += uint64(op.amount)
		f.ch.round += uint64(op.amount)
	case "env.epoch":
		f.ch.epoch++
		f.ch.nonce++
		f.ch.round++
		f.notifier.verifVMBConfirm(f.ch.epoch)
		if f.ch.epoch == f.cfg.correctEpoch {
			// systemSCs.go: flagCorrectLastUnjailedEnabled is set exactly in the activation epoch -> resetLastUnJailed()
			var rc vmcommon.ReturnCode
			rc, _, err = f.verifC39Tx(res, sys, vm.StakingSCAddress, "resetLastUnJailedFromQueue", 0)
			if err == nil && rc != vmcommon.Ok {
				err = fmt.Errorf("resetLastUnJailedFromQueue returned %s in the activation epoch", rc)
			}
		}
	default:
		err = fmt.Errorf("unknown op %s", op.kind)
	}
	return res, err
}

// ---- generator ---------------------------------------------------------------------------------------------------

type verifC39View struct {
	ownerOf map[string]int // bls key -> owner index holding it in its validator registration
	total   []int64        // per owner total stake value
}

func (f *verifC39Fixture) verifC39ValidatorView() (*verifC39View, error) {
	v := &verifC39View{ownerOf: map[string]int{}, total: make([]int64, len(f.owners))}
	for i, o := range f.owners {
		b := f.ch.verifVMBGet(vm.ValidatorSCAddress, o)
		if len(b) == 0 {
			continue
		}
		d := &ValidatorDataV2{}
		if err := f.m.Unmarshal(d, b); err != nil {
			return nil, err
		}
		for _, k := range d.BlsPubKeys {
			v.ownerOf[string(k)] = i
		}
		if d.TotalStakeValue != nil {
			v.total[i] = d.TotalStakeValue.Int64()
		}
	}
	return v, nil
}

func (f *verifC39Fixture) verifC39Pick(rt *rapid.T, label string, cands []int) int {
	i := rapid.IntRange(0, len(f.keys)-1).Draw(rt, label)
	if len(cands) > 0 && rapid.IntRange(0, 9).Draw(rt, label+"Biased") < 8 {
		return cands[i%len(cands)]
	}
	return i
}

func (f *verifC39Fixture) verifC39Select(st *verifC39State, pred func(k string, r *StakedDataV2_0) bool) []int {
	var out []int
	for i, k := range f.keys {
		if pred(string(k), st.regs[string(k)]) {
			out = append(out, i)
		}
	}
	return out
}

// verifC39Home: the owner that holds the key in its validator registration, else the key's home owner.
func (f *verifC39Fixture) verifC39Home(view *verifC39View, key int) int {
	if o, ok := view.ownerOf[string(f.keys[key])]; ok {
		return o
	}
	return key % len(f.owners)
}

func (f *verifC39Fixture) verifC39OwnerFor(rt *rapid.T, view *verifC39View, key int) int {
	o := f.verifC39Home(view, key)
	if rapid.IntRange(0, 11).Draw(rt, "foreignOwner") == 0 {
		o = rapid.IntRange(0, len(f.owners)-1).Draw(rt, "owner")
	}
	return o
}

var verifC39Kinds = []struct {
	kind   string
	weight int
}{
	{"stake", 10}, {"topUp", 1}, {"unStake", 6}, {"unStakeNodes", 2}, {"unBond", 4}, {"unBondNodes", 1},
	{"reStakeUnStakedNodes", 2}, {"unJail", 6}, {"unStakeTokens", 1}, {"unBondTokens", 1},
	{"sys.jail", 2}, {"sys.switchJailedWithWaiting", 6}, {"sys.unStakeAtEndOfEpoch+stakeNodesFromQueue", 3}, {"sys.unStakeAtEndOfEpoch", 2},
	{"sys.raiseMaxNodes+stakeNodesFromQueue", 2}, {"sys.updateConfigMaxNodes", 1}, {"sys.updateConfigMinNodes", 1},
	{"sys.stakeNodesFromQueue", 2}, {"sys.cleanAdditionalQueue", 1}, {"sys.resetLastUnJailedFromQueue", 1},
	{"env.peerList", 3}, {"env.nonce", 2}, {"env.epoch", 2},
}

// verifC39Profiles: per-program emphasis (weight multipliers by operation kind prefix).
var verifC39Profiles = []struct {
	name string
	mult map[string]int
}{
	{"mixed", nil},
	{"jail-heavy", map[string]int{"sys.switchJailedWithWaiting": 3, "unJail": 3, "sys.jail": 2, "env.peerList": 2}},
	{"end-of-epoch-heavy", map[string]int{"sys.unStakeAtEndOfEpoch+stakeNodesFromQueue": 3, "sys.unStakeAtEndOfEpoch": 3, "sys.stakeNodesFromQueue": 3,
		"sys.cleanAdditionalQueue": 4, "sys.raiseMaxNodes+stakeNodesFromQueue": 3, "sys.updateConfigMaxNodes": 3, "unStakeTokens": 4, "env.epoch": 2}},
	{"queue-churn", map[string]int{"unStake": 3, "unStakeNodes": 3, "unBond": 2, "reStakeUnStakedNodes": 3, "stake": 2}},
}

func verifC39DrawKind(rt *rapid.T, profile int) string {
	weight := func(kind string, w int) int {
		if m, ok := verifC39Profiles[profile].mult[kind]; ok {
			return w * m
		}
		return w
	}
	total := 0
	for _, k := range verifC39Kinds {
		total += weight(k.kind, k.weight)
	}
	x := rapid.IntRange(0, total-1).Draw(rt, "opKind")
	for _, k := range verifC39Kinds {
		w := weight(k.kind, k.weight)
		if x < w {
			return k.kind
		}
		x -= w
	}
	return "env.nonce"
}

func (f *verifC39Fixture) verifC39DrawOp(rt *rapid.T, st *verifC39State, view *verifC39View, profile int) verifC39Op {
	op := verifC39Op{kind: verifC39DrawKind(rt, profile), owner: -1}
	notRegistered := f.verifC39Select(st, func(_ string, r *StakedDataV2_0) bool { return r == nil })
	staked := f.verifC39Select(st, func(_ string, r *StakedDataV2_0) bool { return r != nil && r.Staked })
	stakedOrWaiting := f.verifC39Select(st, func(_ string, r *StakedDataV2_0) bool { return r != nil && (r.Staked || r.Waiting) })
	inactive := f.verifC39Select(st, func(_ string, r *StakedDataV2_0) bool { return r != nil && !r.Staked && !r.Waiting })
	jailed := f.verifC39Select(st, func(k string, r *StakedDataV2_0) bool {
		return r != nil && (r.Jailed || f.ch.peerList[k] == string(core.JailedList))
	})
	waitingMiddle := f.verifC39Select(st, func(k string, _ *StakedDataV2_0) bool {
		p, ok := st.pos[k]
		return ok && p > 0 && p < len(st.walk)-1
	})
	switch op.kind {
	case "stake":
		n := rapid.IntRange(1, 3).Draw(rt, "numKeys")
		op.owner = rapid.IntRange(0, len(f.owners)-1).Draw(rt, "owner")
		var fresh, again []int
		for _, i := range notRegistered {
			if f.verifC39Home(view, i) == op.owner {
				fresh = append(fresh, i)
			}
		}
		for _, i := range inactive {
			if f.verifC39Home(view, i) == op.owner {
				again = append(again, i)
			}
		}
		cands := fresh
		if len(cands) == 0 || (len(again) > 0 && rapid.IntRange(0, 2).Draw(rt, "restake") == 0) {
			cands = again
		}
		for i := 0; i < n; i++ {
			k := f.verifC39Pick(rt, "key", cands)
			if len(cands) > 1 && len(op.keys) > 0 && k == op.keys[len(op.keys)-1] && rapid.IntRange(0, 5).Draw(rt, "keepDuplicate") != 0 {
				for j, cand := range cands {
					if cand == k {
						k = cands[(j+1)%len(cands)]
						break
					}
				}
			}
			op.keys = append(op.keys, k)
		}
		switch rapid.IntRange(0, 9).Draw(rt, "valueKind") {
		case 0:
			op.value = 0
		case 1:
			op.value = verifC39NodePrice
		case 2:
			op.value = int64(n)*verifC39NodePrice + verifC39NodePrice/2
		default:
			op.value = int64(n) * verifC39NodePrice
		}
	case "topUp":
		op.owner = rapid.IntRange(0, len(f.owners)-1).Draw(rt, "owner")
		op.value = int64(rapid.IntRange(0, 2).Draw(rt, "topUpNodes")) * verifC39NodePrice
	case "unStake", "unStakeNodes":
		n := rapid.IntRange(1, 2).Draw(rt, "numKeys")
		cands := stakedOrWaiting
		if len(waitingMiddle) > 0 && rapid.IntRange(0, 2).Draw(rt, "preferMiddle") != 0 {
			cands = waitingMiddle
		}
		for i := 0; i < n; i++ {
			op.keys = append(op.keys, f.verifC39Pick(rt, "key", cands))
		}
		op.owner = f.verifC39OwnerFor(rt, view, op.keys[0])
	case "unBond", "unBondNodes", "reStakeUnStakedNodes":
		n := rapid.IntRange(1, 2).Draw(rt, "numKeys")
		for i := 0; i < n; i++ {
			op.keys = append(op.keys, f.verifC39Pick(rt, "key", inactive))
		}
		op.owner = f.verifC39OwnerFor(rt, view, op.keys[0])
	case "unJail":
		n := rapid.IntRange(1, 2).Draw(rt, "numKeys")
		for i := 0; i < n; i++ {
			op.keys = append(op.keys, f.verifC39Pick(rt, "key", jailed))
		}
		op.owner = f.verifC39OwnerFor(rt, view, op.keys[0])
		op.value = int64(n) * verifC39UnJailPrice
		if rapid.IntRange(0, 15).Draw(rt, "wrongPrice") == 0 {
			op.value--
		}
	case "unStakeTokens", "unBondTokens":
		op.owner = rapid.IntRange(0, len(f.owners)-1).Draw(rt, "owner")
		switch rapid.IntRange(0, 3).Draw(rt, "amountKind") {
		case 0:
			op.amount = 1
		case 1:
			op.amount = verifC39NodePrice
		case 2:
			op.amount = view.total[op.owner]
		default:
			op.amount = 0
		}
		if op.kind == "unStakeTokens" && op.amount == 0 {
			op.amount = verifC39NodePrice / 2
		}
	case "sys.jail":
		n := rapid.IntRange(1, 2).Draw(rt, "numKeys")
		for i := 0; i < n; i++ {
			op.keys = append(op.keys, f.verifC39Pick(rt, "key", stakedOrWaiting))
		}
	case "sys.switchJailedWithWaiting":
		op.keys = []int{f.verifC39Pick(rt, "key", staked)}
	case "sys.unStakeAtEndOfEpoch+stakeNodesFromQueue":
		n := rapid.IntRange(1, 2).Draw(rt, "numKeys")
		cands := stakedOrWaiting
		if len(waitingMiddle) > 0 && rapid.IntRange(0, 2).Draw(rt, "preferMiddle") == 0 {
			cands = waitingMiddle
		}
		for i := 0; i < n; i++ {
			op.keys = append(op.keys, f.verifC39Pick(rt, "key", cands))
		}
	case "sys.unStakeAtEndOfEpoch":
		cands := stakedOrWaiting
		if len(waitingMiddle) > 0 && rapid.IntRange(0, 1).Draw(rt, "preferMiddle") == 0 {
			cands = waitingMiddle
		}
		op.keys = []int{f.verifC39Pick(rt, "key", cands)}
	case "sys.raiseMaxNodes+stakeNodesFromQueue":
		op.amount = int64(rapid.IntRange(1, 2).Draw(rt, "delta"))
	case "sys.updateConfigMaxNodes":
		// MinNumNodes <= MaxNumNodes is kept (constructor invariant of the contract; the update endpoints compare
		// with the construction-time values only and rely on their caller for it)
		op.amount = int64(rapid.IntRange(0, 7).Draw(rt, "newMax"))
		if op.amount > 0 && op.amount < st.cfg.MinNumNodes {
			op.amount = st.cfg.MinNumNodes
		}
	case "sys.updateConfigMinNodes":
		op.amount = int64(rapid.IntRange(0, 6).Draw(rt, "newMin"))
		if op.amount > st.cfg.MaxNumNodes {
			op.amount = st.cfg.MaxNumNodes
		}
	case "sys.stakeNodesFromQueue":
		// the production caller never asks for more nodes than it made room for
		room := st.cfg.MaxNumNodes - st.cfg.StakedNodes
		if room < 0 {
			room = 0
		}
		op.amount = int64(rapid.IntRange(0, int(room)).Draw(rt, "numNodes"))
	case "env.peerList":
		op.keys = []int{f.verifC39Pick(rt, "key", stakedOrWaiting)}
		op.list = rapid.SampledFrom([]string{string(core.JailedList), string(core.JailedList), string(core.EligibleList), string(core.WaitingList),
			string(core.LeavingList), string(core.InactiveList), string(core.NewList), "none", "none"}).Draw(rt, "list")
		if rapid.IntRange(0, 9).Draw(rt, "badRating") == 0 {
			op.amount = 1
		}
	case "env.nonce":
		op.amount = int64(rapid.IntRange(1, 4).Draw(rt, "nonces"))
	}
	return op
}

func verifC39DrawCfg(rt *rapid.T) verifC39Cfg {
	epochChoice := func(label string, onWeight int) uint32 {
		x := rapid.IntRange(0, 9).Draw(rt, label)
		switch {
		case x < onWeight:
			return 0
		case x < onWeight+1:
			return 2 // switches on during the program when the epoch advances
		default:
			return verifC39FarEpoch
		}
	}
	cfg := verifC39Cfg{}
	cfg.minNodes = uint64(rapid.IntRange(1, 3).Draw(rt, "minNodes"))
	cfg.maxNodes = uint64(rapid.IntRange(2, 5).Draw(rt, "maxNodes"))
	if cfg.maxNodes < cfg.minNodes {
		cfg.maxNodes = cfg.minNodes
	}
	cfg.unBondPeriod = uint64(rapid.IntRange(0, 3).Draw(rt, "unBondPeriod"))
	cfg.minStakeValue = rapid.SampledFrom([]string{"1", "1000"}).Draw(rt, "minStakeValue")
	cfg.stakeEpoch = epochChoice("stakeEpoch", 9)
	cfg.v2Epoch = epochChoice("stakingV2Epoch", 5)
	cfg.correctEpoch = epochChoice("correctLastUnjailedEpoch", 5)
	cfg.doubleKeyEpoch = epochChoice("doubleKeyEpoch", 6)
	cfg.unbondV2Epoch = epochChoice("unbondTokensV2Epoch", 5)
	cfg.startEpoch = uint32(rapid.IntRange(0, 1).Draw(rt, "startEpoch"))
	if rapid.IntRange(0, 5).Draw(rt, "genesis") == 0 {
		cfg.startNonce = 0
	} else {
		cfg.startNonce = uint64(rapid.IntRange(1, 20).Draw(rt, "startNonce"))
	}
	return cfg
}

// ---- oracle ------------------------------------------------------------------------------------------------------

type verifC39Trace struct {
	cfg    verifC39Cfg
	ops    []string
	before *verifC39State
	after  *verifC39State
}

func (t *verifC39Trace) String() string {
	return fmt.Sprintf("config %s; operations %v; state before the last operation: %s; state after: %s", t.cfg, t.ops, t.before, t.after)
}

// verifC39Walk follows the list from FirstKey via NextKey and checks the structural clauses of the statement.
func verifC39Walk(c *kit.Case, st *verifC39State, tr fmt.Stringer) {
	if !st.headPresent || st.head.Length == 0 {
		if len(st.elems) != 0 {
			c.Violation("C39:list:length", "list head says length 0 but %d element(s) are stored: %s", len(st.elems), tr)
		}
		if st.headPresent && (len(st.head.FirstKey) != 0 || len(st.head.LastKey) != 0 || len(st.head.LastJailedKey) != 0) {
			c.Violation("C39:list:markers-of-empty-list", "empty list with non-empty markers: %s", tr)
		}
		return
	}
	seen := map[string]bool{}
	cur := st.head.FirstKey
	prev := st.head.FirstKey // the first element's previous key is its own key
	var last []byte
	for len(cur) != 0 {
		e := st.elems[string(cur)]
		if e == nil {
			c.Violation("C39:list:dangling-link", "link to %s which is not a stored element: %s", verifC39WKey(cur), tr)
		}
		if seen[string(cur)] {
			c.Violation("C39:list:cycle", "element %s reached twice: %s", verifC39WKey(cur), tr)
		}
		seen[string(cur)] = true
		if !bytes.Equal(e.PreviousKey, prev) {
			c.Violation("C39:list:previous-link", "element %s has previous %s, expected %s: %s", verifC39WKey(cur), verifC39WKey(e.PreviousKey), verifC39WKey(prev), tr)
		}
		if waitingElementPrefix+string(e.BLSPublicKey) != string(cur) {
			c.Violation("C39:list:element-key", "element stored under %s holds BLS key %s: %s", verifC39WKey(cur), verifC39Name(string(e.BLSPublicKey)), tr)
		}
		st.pos[string(e.BLSPublicKey)] = len(st.walk)
		st.walk = append(st.walk, string(e.BLSPublicKey))
		prev, last = cur, cur
		cur = e.NextKey
	}
	if uint32(len(st.walk)) != st.head.Length {
		c.Violation("C39:list:length", "length marker %d, walked %d element(s): %s", st.head.Length, len(st.walk), tr)
	}
	if !bytes.Equal(st.head.LastKey, last) {
		c.Violation("C39:list:last-key", "last marker %s, last walked element %s: %s", verifC39WKey(st.head.LastKey), verifC39WKey(last), tr)
	}
	if len(seen) != len(st.elems) {
		c.Violation("C39:list:orphan-element", "%d stored element(s), %d reachable from the first key: %s", len(st.elems), len(seen), tr)
	}
	if len(st.head.LastJailedKey) != 0 && !seen[string(st.head.LastJailedKey)] {
		c.Violation("C39:list:last-jailed-not-member", "last-jailed marker %s is not an element of the list: %s", verifC39WKey(st.head.LastJailedKey), tr)
	}
}

func verifC39Invariants(c *kit.Case, before, after *verifC39State, tr fmt.Stringer) {
	verifC39Walk(c, after, tr)
	// keys in the list == registered keys marked as waiting (both directions)
	for _, k := range after.regKeys {
		if _, in := after.pos[k]; after.regs[k].Waiting && !in {
			c.Violation("C39:waiting-flag-not-in-list", "key %s is marked waiting but is not in the list: %s", verifC39Name(k), tr)
		}
	}
	for _, k := range after.walk {
		r := after.regs[k]
		if r == nil {
			c.Violation("C39:in-list-not-registered", "list element %s is not a registered key: %s", verifC39Name(k), tr)
		}
		if !r.Waiting {
			c.Violation("C39:in-list-not-waiting", "list element %s is not marked waiting: %s", verifC39Name(k), tr)
		}
	}
	// staked-node counter == number of keys marked staked
	n := int64(0)
	for _, k := range after.regKeys {
		if after.regs[k].Staked {
			n++
		}
	}
	if n != after.cfg.StakedNodes {
		c.Violation("C39:staked-count", "StakedNodes counter %d, keys marked staked %d: %s", after.cfg.StakedNodes, n, tr)
	}
	// never above the maximum unless the maximum was lowered: no operation moves the counter above the
	// maximum (it may stay above it, not grow, after a lowering)
	limit := after.cfg.MaxNumNodes
	if before.cfg.StakedNodes > limit {
		limit = before.cfg.StakedNodes
	}
	if after.cfg.StakedNodes > limit {
		c.Violation("C39:staked-above-max", "StakedNodes %d > MaxNumNodes %d (was %d before the operation): %s", after.cfg.StakedNodes, after.cfg.MaxNumNodes, before.cfg.StakedNodes, tr)
	}
}

// verifC39Runner runs operations one by one with the oracle in between and keeps the model of the jailed prefix.
type verifC39Runner struct {
	f             *verifC39Fixture
	c             *kit.Case
	tr            *verifC39Trace
	before        *verifC39State
	prio          map[string]bool // keys in the list that were queued with priority (first unJail)
	middleRemoved bool
	nonTrivial    bool
	maxQueue      int
}

func verifC39NewRunner(f *verifC39Fixture, c *kit.Case, fatalf func(string, ...interface{})) *verifC39Runner {
	r := &verifC39Runner{f: f, c: c, tr: &verifC39Trace{cfg: f.cfg}, prio: map[string]bool{}}
	st, err := f.verifC39Decode()
	if err != nil {
		fatalf("fixture: %v", err)
	}
	verifC39Walk(c, st, r.tr)
	r.before = st
	return r
}

func (r *verifC39Runner) verifC39Step(op verifC39Op, fatalf func(string, ...interface{})) {
	f, c, tr, before := r.f, r.c, r.tr, r.before
	tr.ops = append(tr.ops, op.String())
	tr.before, tr.after = before, nil
	var res *verifC39Result
	var errExec error
	c.NoPanic("C39:panic", func() { res, errExec = f.verifC39Exec(op, before) })
	if errExec != nil {
		fatalf("fixture: %v (%s)", errExec, tr)
	}
	for _, rc := range res.rcs {
		c.Class("tx " + rc)
	}
	after, errDec := f.verifC39Decode()
	if errDec != nil {
		c.Violation("C39:storage-not-decodable", "%v: %s", errDec, tr)
	}
	tr.after = after
	verifC39Invariants(c, before, after, tr)

	flagOn := f.ch.epoch >= f.cfg.correctEpoch
	// model of the jailed prefix: which list members were queued with priority (unJail of a key jailed for the
	// first time, NumJailed == 1)
	for _, k := range after.walk {
		if _, was := before.pos[k]; was {
			continue
		}
		if op.kind == "unJail" && before.regs[k] != nil && before.regs[k].NumJailed == 1 {
			for _, ki := range op.keys {
				if string(f.keys[ki]) == k {
					r.prio[k] = true
				}
			}
		}
	}
	for _, k := range before.walk {
		if _, still := after.pos[k]; !still {
			delete(r.prio, k)
		}
	}
	if m := after.head.LastJailedKey; len(m) != 0 {
		p := after.pos[string(m[len(waitingElementPrefix):])]
		c.Class("last-jailed marker set")
		for j := 0; j <= p && j < len(after.walk); j++ {
			if r.prio[after.walk[j]] {
				continue
			}
			if flagOn {
				c.Violation("C39:last-jailed-prefix", "element %s at or before the last-jailed marker %s was not queued by a first unJail: %s", verifC39Name(after.walk[j]), verifC39WKey(m), tr)
			}
			// legacy behaviour before CorrectLastUnjailedEnableEpoch (removeFromWaitingList moves the marker to
			// the predecessor of any removed element): known, not judged
			c.Excluded("C39:last-jailed-prefix:legacy-flag-off")
			break
		}
	}

	// statistics and the non-trivial rule
	if len(after.walk) > r.maxQueue {
		r.maxQueue = len(after.walk)
	}
	promoted, middleNow := false, false
	for j, k := range before.walk {
		if _, still := after.pos[k]; still {
			continue
		}
		if reg := after.regs[k]; reg != nil && reg.Staked {
			promoted = true
		}
		if len(before.walk) >= 3 && j > 0 && j < len(before.walk)-1 {
			middleNow = true
		}
	}
	if promoted && r.middleRemoved {
		r.nonTrivial = true // the promotion comes in a later operation than the middle removal
	}
	if middleNow && !r.middleRemoved {
		r.middleRemoved = true
		c.Class("program removes a middle element of a queue >= 3")
	}
	r.before = after
}

// verifC39Program generates and runs one program.
func verifC39Program(rt *rapid.T, c *kit.Case) {
	cfg := verifC39DrawCfg(rt)
	maxKeys := 8
	if kit.Thorough() {
		maxKeys = 10
	}
	nKeys := rapid.IntRange(4, maxKeys).Draw(rt, "numKeys")
	if nKeys == 4 && rapid.IntRange(0, 2).Draw(rt, "keepFourKeys") != 0 {
		nKeys = 6
	}
	nOwners := rapid.IntRange(2, 3).Draw(rt, "numOwners")
	if int(cfg.maxNodes) > nKeys-3 && rapid.IntRange(0, 5).Draw(rt, "keepLargeMax") != 0 {
		// most programs: at least three places fewer than keys, so that a queue of three can build up
		cfg.maxNodes = uint64(nKeys - 3)
		if cfg.maxNodes < 2 {
			cfg.maxNodes = 2
		}
		if cfg.minNodes > cfg.maxNodes {
			cfg.minNodes = cfg.maxNodes
		}
	}
	warm := rapid.IntRange(0, 5).Draw(rt, "warmStart") != 0
	profile := rapid.IntRange(0, len(verifC39Profiles)-1).Draw(rt, "profile")
	c.Class("profile " + verifC39Profiles[profile].name)
	f, err := verifC39NewFixture(cfg, nKeys, nOwners)
	if err != nil {
		rt.Fatalf("fixture: %v", err)
	}
	maxOps := 50
	if kit.Thorough() && rapid.IntRange(0, 3).Draw(rt, "long") == 0 {
		maxOps = 120
	}
	minOps := 12
	if rapid.IntRange(0, 4).Draw(rt, "short") == 0 {
		minOps, maxOps = 1, 12
	}
	nOps := rapid.IntRange(minOps, maxOps).Draw(rt, "numOps")
	r := verifC39NewRunner(f, c, rt.Fatalf)
	if warm {
		// warm start: every owner stakes its home keys (up to three per transaction) with the exact value
		c.Class("warm start")
		for o := 0; o < nOwners; o++ {
			var chunk []int
			for k := o; k < nKeys; k += nOwners {
				chunk = append(chunk, k)
				if len(chunk) == 3 || k+nOwners >= nKeys {
					r.verifC39Step(verifC39Op{kind: "stake", owner: o, keys: chunk, value: int64(len(chunk)) * verifC39NodePrice}, rt.Fatalf)
					chunk = nil
				}
			}
		}
	}
	for i := 0; i < nOps; i++ {
		view, errView := f.verifC39ValidatorView()
		if errView != nil {
			rt.Fatalf("fixture: validator data does not decode: %v", errView)
		}
		r.verifC39Step(f.verifC39DrawOp(rt, r.before, view, profile), rt.Fatalf)
	}
	c.Class(fmt.Sprintf("max queue length %d", r.maxQueue))
	if f.ch.epoch >= cfg.correctEpoch {
		c.Class("ends with correct-last-unjailed on")
	} else {
		c.Class("ends with correct-last-unjailed off")
	}
	if r.nonTrivial {
		c.NonTrivial(cfg.String() + strings.Join(r.tr.ops, ";"))
		c.Sample("%s; %v", cfg, r.tr.ops)
	}
}

func TestVerifC39_Programs(t *testing.T) {
	kit.Run(t, "C39", kit.Budget{Quick: 1500, Thorough: 12000},
		"programs of 1-50 (thorough: up to 120) operations over 4-8 (10) BLS keys and 2-3 owners on real staking+validator contracts and vmContext: user transactions to the validator contract "+
			"(stake, top-up, unStake, unStakeNodes, unBond, unBondNodes, reStakeUnStakedNodes, unJail, unStakeTokens, unBondTokens), system transactions to the staking contract "+
			"(jail, switchJailedWithWaiting, unStakeAtEndOfEpoch[+stakeNodesFromQueue], updateConfigMaxNodes[+stakeNodesFromQueue], updateConfigMinNodes, stakeNodesFromQueue, cleanAdditionalQueue, resetLastUnJailedFromQueue), "+
			"environment steps (validator-statistics list / bad rating of a key, nonce, epoch with flag activation); MinNumNodes 1-3, MaxNumNodes 2-5, unbond period 0-3, enable epochs on/off/activating; four operation-mix profiles (mixed, jail-heavy, end-of-epoch-heavy, queue-churn); 5 of 6 programs start with every owner staking its keys; "+
			"after every operation the committed staking storage is decoded and the list walk, markers, waiting set, staked counter and maximum are checked; "+
			"non-trivial = a program that removes a middle element of a queue of >= 3 and in a later operation promotes a node from the queue; distinct by (config, operation list)",
		verifC39Program)
}

// TestVerifC39_Regress: minimal counterexample of the front-insert defect (insertAfterLastJailed with an empty
// last-jailed marker did not update the previous link of the element that used to be first).
func TestVerifC39_Regress(t *testing.T) {
	p := kit.NewPlain(t, "C39", "regression: two places, k0 k1 staked, k2 queued, k0 jailed and switched with k2, k3 queued, first unJail of k0 -> k0 is put in front of k3")
	defer p.Done()
	for _, correctEpoch := range []uint32{0, verifC39FarEpoch} {
		cfg := verifC39Cfg{minNodes: 1, maxNodes: 2, minStakeValue: "1", correctEpoch: correctEpoch, v2Epoch: verifC39FarEpoch,
			doubleKeyEpoch: 0, unbondV2Epoch: verifC39FarEpoch, startNonce: 5}
		f, err := verifC39NewFixture(cfg, 4, 2)
		if err != nil {
			t.Fatalf("fixture: %v", err)
		}
		ops := []verifC39Op{
			{kind: "stake", owner: 0, keys: []int{0, 2}, value: 2 * verifC39NodePrice},
			{kind: "stake", owner: 1, keys: []int{1}, value: verifC39NodePrice},
			{kind: "sys.switchJailedWithWaiting", owner: -1, keys: []int{0}},
			{kind: "stake", owner: 1, keys: []int{3}, value: verifC39NodePrice},
			{kind: "unJail", owner: 0, keys: []int{0}, value: verifC39UnJailPrice},
		}
		var trace []string
		for _, op := range ops {
			st, errDec := f.verifC39Decode()
			if errDec != nil {
				t.Fatalf("fixture: %v", errDec)
			}
			if _, err = f.verifC39Exec(op, st); err != nil {
				t.Fatalf("fixture: %v", err)
			}
			trace = append(trace, op.String())
		}
		p.Eval(1)
		st, errDec := f.verifC39Decode()
		if errDec != nil {
			t.Fatalf("fixture: %v", errDec)
		}
		first := st.elems[string(st.head.FirstKey)]
		if st.head.Length != 2 || first == nil || len(first.NextKey) == 0 || st.elems[string(first.NextKey)] == nil {
			t.Fatalf("fixture: the regression program no longer builds a queue of two: %v -> %s", trace, st)
		}
		p.NonTrivial(fmt.Sprint(correctEpoch))
		second := st.elems[string(first.NextKey)]
		if !bytes.Equal(second.PreviousKey, st.head.FirstKey) {
			p.Violation("C39:list:previous-link", "after %v the second element %s has previous %s, expected the first element %s: %s",
				trace, verifC39WKey(first.NextKey), verifC39WKey(second.PreviousKey), verifC39WKey(st.head.FirstKey), st)
		}
	}
}
