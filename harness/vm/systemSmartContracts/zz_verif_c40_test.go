package systemSmartContracts

// C40: A failed nested system contract call leaves no storage effects.
//
// Two generated checks and a regression table:
//   - TestVerifC40_CallTrees: generated call trees between three scriptable harness contracts registered
//     in the real vmContext's container. A reference interpreter with copy-on-call / discard-on-failure
//     semantics predicts the storage view at every point where a caller resumes after a nested call and
//     the final VM output; the real vmContext must agree. A before/after snapshot around every failed
//     ExecuteOnDestContext checks the statement literally.
//   - TestVerifC40_RealFlow: generated histories over the real validator + staking contracts; a spy
//     around ExecuteOnDestContext compares the pending-storage view before and after every nested
//     call that fails.

import (
	"bytes"
	"encoding/hex"
	"fmt"
	"math/big"
	"sort"
	"strings"
	"testing"

	"github.com/ElrondNetwork/elrond-go/config"
	kit "github.com/ElrondNetwork/elrond-go/verifkit"
	"github.com/ElrondNetwork/elrond-go/vm"
	vmcommon "github.com/ElrondNetwork/elrond-vm-common"
	"pgregory.net/rapid"
)

const (
	verifC40KeyStorage    = "C40:storage:failed-inner-write-visible"
	verifC40KeyStoreOther = "C40:storage:view-mismatch"
	verifC40KeyTransfer   = "C40:transfer:failed-inner-transfer-visible"
	verifC40KeyCallValue  = "C40:transfer:call-value-kept-after-failed-call"
	verifC40KeyCallerTr   = "C40:transfer:caller-transfers-changed-by-failed-call"
	verifC40KeyBalance    = "C40:transfer:balance-delta-mismatch"
)

const (
	verifC40Write = iota
	verifC40WriteForeign
	verifC40Transfer
	verifC40Call
)

type verifC40Action struct {
	Kind   int
	Addr   int    // foreign contract index / user index / callee contract index
	Key    int    // key index
	Val    string // value written ("" = delete)
	Amount int64  // transfer amount / call value
	Tag    string // transfer tag (unique)
	Child  *verifC40Node
}

type verifC40Node struct {
	ID       int
	Contract int
	Actions  []verifC40Action
	Ret      vmcommon.ReturnCode
}

func (n *verifC40Node) String() string {
	var sb strings.Builder
	fmt.Fprintf(&sb, "n%d@c%d{", n.ID, n.Contract)
	for i, a := range n.Actions {
		if i > 0 {
			sb.WriteString("; ")
		}
		switch a.Kind {
		case verifC40Write:
			fmt.Fprintf(&sb, "set k%d=%q", a.Key, a.Val)
		case verifC40WriteForeign:
			fmt.Fprintf(&sb, "set c%d.k%d=%q", a.Addr, a.Key, a.Val)
		case verifC40Transfer:
			fmt.Fprintf(&sb, "transfer %d->u%d", a.Amount, a.Addr)
		case verifC40Call:
			fmt.Fprintf(&sb, "call(value %d) %s", a.Amount, a.Child.String())
		}
	}
	fmt.Fprintf(&sb, "}=>%s", n.Ret.String())
	return sb.String()
}

const verifC40NumContracts = 3
const verifC40NumKeys = 2
const verifC40NumUsers = 2

func verifC40ContractAddr(i int) []byte { return verifVMASCAddr(100 + i) }
func verifC40UserAddr(i int) []byte     { return verifVMAUserAddr('u', i) }
func verifC40Key(i int) []byte          { return []byte(fmt.Sprintf("k%d", i)) }

type verifC40Gen struct {
	rt     *rapid.T
	nextID int
	calls  int
}

func (g *verifC40Gen) node(depth int, contract int, root bool) *verifC40Node {
	n := &verifC40Node{ID: g.nextID, Contract: contract}
	g.nextID++
	nAct := rapid.IntRange(0, 4).Draw(g.rt, "nActions")
	if root && nAct == 0 {
		nAct = 1
	}
	for i := 0; i < nAct; i++ {
		kind := rapid.IntRange(0, 9).Draw(g.rt, "kind")
		switch {
		case kind <= 2:
			n.Actions = append(n.Actions, verifC40Action{Kind: verifC40Write, Key: rapid.IntRange(0, verifC40NumKeys-1).Draw(g.rt, "key"), Val: g.value(n.ID, i)})
		case kind == 3:
			n.Actions = append(n.Actions, verifC40Action{Kind: verifC40WriteForeign, Addr: rapid.IntRange(0, verifC40NumContracts-1).Draw(g.rt, "faddr"),
				Key: rapid.IntRange(0, verifC40NumKeys-1).Draw(g.rt, "key"), Val: g.value(n.ID, i)})
		case kind <= 5:
			n.Actions = append(n.Actions, verifC40Action{Kind: verifC40Transfer, Addr: rapid.IntRange(0, verifC40NumUsers-1).Draw(g.rt, "user"),
				Amount: int64(rapid.IntRange(0, 3).Draw(g.rt, "amount")), Tag: fmt.Sprintf("t%d.%d", n.ID, i)})
		default:
			if depth >= 3 || g.calls >= 6 {
				n.Actions = append(n.Actions, verifC40Action{Kind: verifC40Write, Key: rapid.IntRange(0, verifC40NumKeys-1).Draw(g.rt, "key"), Val: g.value(n.ID, i)})
				continue
			}
			g.calls++
			callee := rapid.IntRange(0, verifC40NumContracts-1).Draw(g.rt, "callee")
			value := int64(0)
			if rapid.IntRange(0, 3).Draw(g.rt, "withValue") == 0 {
				value = int64(rapid.IntRange(1, 3).Draw(g.rt, "callValue"))
			}
			child := g.node(depth+1, callee, false)
			n.Actions = append(n.Actions, verifC40Action{Kind: verifC40Call, Addr: callee, Amount: value, Child: child})
		}
	}
	if root && g.calls == 0 {
		// a transaction without a nested call says nothing about the property: give the root one
		g.calls++
		callee := rapid.IntRange(0, verifC40NumContracts-1).Draw(g.rt, "callee")
		child := g.node(depth+1, callee, false)
		pos := rapid.IntRange(0, len(n.Actions)).Draw(g.rt, "callPos")
		call := verifC40Action{Kind: verifC40Call, Addr: callee, Child: child}
		n.Actions = append(n.Actions[:pos], append([]verifC40Action{call}, n.Actions[pos:]...)...)
	}
	n.Ret = vmcommon.Ok
	if !root {
		switch rapid.IntRange(0, 9).Draw(g.rt, "ret") {
		case 0, 1, 2:
			n.Ret = vmcommon.UserError
		case 3:
			n.Ret = vmcommon.OutOfGas
		case 4:
			n.Ret = vmcommon.ExecutionFailed
		}
	}
	return n
}

func (g *verifC40Gen) value(id, i int) string {
	if rapid.IntRange(0, 9).Draw(g.rt, "delete") == 0 {
		return ""
	}
	return fmt.Sprintf("v%d.%d", id, i)
}

// ---------- reference interpreter: copy on call, discard on failure ----------

type verifC40State struct {
	store map[string]string // "c<i>/k<j>" -> value ("" = empty)
	delta map[string]int64  // address label -> balance delta
	tags  []string          // surviving transfer tags, execution order
}

func (s *verifC40State) clone() *verifC40State {
	c := &verifC40State{store: make(map[string]string, len(s.store)), delta: make(map[string]int64, len(s.delta)), tags: append([]string(nil), s.tags...)}
	for k, v := range s.store {
		c.store[k] = v
	}
	for k, v := range s.delta {
		c.delta[k] = v
	}
	return c
}

func verifC40Slot(c, k int) string { return fmt.Sprintf("c%d/k%d", c, k) }

func (s *verifC40State) view() string {
	var sb strings.Builder
	for c := 0; c < verifC40NumContracts; c++ {
		for k := 0; k < verifC40NumKeys; k++ {
			fmt.Fprintf(&sb, "%s=%s ", verifC40Slot(c, k), s.store[verifC40Slot(c, k)])
		}
	}
	return sb.String()
}

type verifC40Obs struct {
	node        int
	action      int
	afterFailed bool
	view        string
}

type verifC40Model struct {
	obs          []verifC40Obs
	keepCallVal  bool // alternative semantics used only to classify a divergence: call value stays after a failure
	failedTags   map[string]bool
	failedWrites bool
}

func (m *verifC40Model) exec(n *verifC40Node, st *verifC40State) vmcommon.ReturnCode {
	self := fmt.Sprintf("c%d", n.Contract)
	for i, a := range n.Actions {
		switch a.Kind {
		case verifC40Write:
			st.store[verifC40Slot(n.Contract, a.Key)] = a.Val
		case verifC40WriteForeign:
			st.store[verifC40Slot(a.Addr, a.Key)] = a.Val
		case verifC40Transfer:
			st.delta[self] -= a.Amount
			st.delta[fmt.Sprintf("u%d", a.Addr)] += a.Amount
			st.tags = append(st.tags, a.Tag)
		case verifC40Call:
			callee := fmt.Sprintf("c%d", a.Addr)
			if m.keepCallVal {
				st.delta[self] -= a.Amount
				st.delta[callee] += a.Amount
			}
			inner := st.clone()
			if !m.keepCallVal {
				inner.delta[self] -= a.Amount
				inner.delta[callee] += a.Amount
			}
			code := m.exec(a.Child, inner)
			if code == vmcommon.Ok {
				*st = *inner
			} else {
				verifC40CollectTags(a.Child, m.failedTags)
				if verifC40HasWrite(a.Child) {
					m.failedWrites = true
				}
			}
			m.obs = append(m.obs, verifC40Obs{node: n.ID, action: i, afterFailed: code != vmcommon.Ok, view: st.view()})
		}
	}
	return n.Ret
}

func verifC40CollectTags(n *verifC40Node, into map[string]bool) {
	for _, a := range n.Actions {
		if a.Kind == verifC40Transfer {
			into[a.Tag] = true
		}
		if a.Kind == verifC40Call {
			verifC40CollectTags(a.Child, into)
		}
	}
}

func verifC40HasWrite(n *verifC40Node) bool {
	for _, a := range n.Actions {
		if a.Kind == verifC40Write || a.Kind == verifC40WriteForeign {
			return true
		}
		if a.Kind == verifC40Call && verifC40HasWrite(a.Child) {
			return true
		}
	}
	return false
}

// non-trivial: a failing inner call whose subtree wrote >= 1 key, followed by a further action of the caller
func verifC40NonTrivial(n *verifC40Node) bool {
	for i, a := range n.Actions {
		if a.Kind != verifC40Call {
			continue
		}
		if a.Child.Ret != vmcommon.Ok && verifC40HasWrite(a.Child) && i+1 < len(n.Actions) {
			return true
		}
		if verifC40NonTrivial(a.Child) {
			return true
		}
	}
	return false
}

// ---------- the scriptable contract run by the real vmContext ----------

type verifC40Finding struct{ key, msg string }

type verifC40Run struct {
	eei      *vmContext
	nodes    map[int]*verifC40Node
	obs      []verifC40Obs
	findings []verifC40Finding
}

func (r *verifC40Run) index(n *verifC40Node) {
	r.nodes[n.ID] = n
	for _, a := range n.Actions {
		if a.Kind == verifC40Call {
			r.index(a.Child)
		}
	}
}

func (r *verifC40Run) viewNow() string {
	var sb strings.Builder
	for c := 0; c < verifC40NumContracts; c++ {
		for k := 0; k < verifC40NumKeys; k++ {
			fmt.Fprintf(&sb, "%s=%s ", verifC40Slot(c, k), string(r.eei.GetStorageFromAddress(verifC40ContractAddr(c), verifC40Key(k))))
		}
	}
	return sb.String()
}

// pendingTransfers summarises the current frame's output accounts: tagged transfers per destination and
// balance deltas.
func verifC40OutputSummary(accs map[string]*vmcommon.OutputAccount) (tags map[string][]string, deltas map[string]int64) {
	tags = map[string][]string{}
	deltas = map[string]int64{}
	for addr, acc := range accs {
		for _, t := range acc.OutputTransfers {
			if len(t.Data) > 0 {
				tags[verifC40AddrLabel([]byte(addr))] = append(tags[verifC40AddrLabel([]byte(addr))], string(t.Data))
			}
		}
		if acc.BalanceDelta != nil && acc.BalanceDelta.Sign() != 0 {
			deltas[addr] = acc.BalanceDelta.Int64()
		}
	}
	return tags, deltas
}

type verifC40Contract struct{ run *verifC40Run }

func (c *verifC40Contract) CanUseContract() bool       { return true }
func (c *verifC40Contract) SetNewGasCost(_ vm.GasCost) {}
func (c *verifC40Contract) IsInterfaceNil() bool       { return c == nil }

func (c *verifC40Contract) Execute(args *vmcommon.ContractCallInput) vmcommon.ReturnCode {
	r := c.run
	if args.Function != "run" || len(args.Arguments) != 1 {
		return vmcommon.FunctionNotFound
	}
	n := r.nodes[int(big.NewInt(0).SetBytes(args.Arguments[0]).Int64())]
	if n == nil || !bytes.Equal(args.RecipientAddr, verifC40ContractAddr(n.Contract)) {
		panic("harness: node/contract mismatch")
	}
	eei := r.eei
	self := verifC40ContractAddr(n.Contract)
	for i, a := range n.Actions {
		switch a.Kind {
		case verifC40Write:
			eei.SetStorage(verifC40Key(a.Key), []byte(a.Val))
		case verifC40WriteForeign:
			eei.SetStorageForAddress(verifC40ContractAddr(a.Addr), verifC40Key(a.Key), []byte(a.Val))
		case verifC40Transfer:
			_ = eei.Transfer(verifC40UserAddr(a.Addr), self, big.NewInt(a.Amount), []byte(a.Tag), 0)
		case verifC40Call:
			callee := verifC40ContractAddr(a.Addr)
			tagsBefore, deltasBefore := verifC40OutputSummary(eei.outputAccounts)
			data := "run@" + hex.EncodeToString(big.NewInt(int64(a.Child.ID)+1).Bytes())
			out, err := eei.ExecuteOnDestContext(callee, self, big.NewInt(a.Amount), []byte(data))
			failed := err != nil || out == nil || out.ReturnCode != vmcommon.Ok
			if err != nil {
				panic(fmt.Sprintf("harness: unexpected error from ExecuteOnDestContext: %v", err))
			}
			if (out.ReturnCode != vmcommon.Ok) != (a.Child.Ret != vmcommon.Ok) {
				r.findings = append(r.findings, verifC40Finding{"C40:return-code", fmt.Sprintf("node n%d returned %s, caller saw %s", a.Child.ID, a.Child.Ret, out.ReturnCode)})
			}
			if failed {
				tagsAfter, deltasAfter := verifC40OutputSummary(eei.outputAccounts)
				if fmt.Sprint(tagsBefore) != fmt.Sprint(tagsAfter) {
					r.findings = append(r.findings, verifC40Finding{verifC40KeyCallerTr,
						fmt.Sprintf("after the failed call of n%d the caller frame n%d holds transfers %v, before the call %v", a.Child.ID, n.ID, tagsAfter, tagsBefore)})
				}
				if fmt.Sprint(deltasBefore) != fmt.Sprint(deltasAfter) {
					withValue := map[string]int64{}
					for k, v := range deltasBefore {
						withValue[k] = v
					}
					withValue[string(self)] -= a.Amount
					withValue[string(callee)] += a.Amount
					for k, v := range withValue {
						if v == 0 {
							delete(withValue, k)
						}
					}
					key := verifC40KeyCallerTr
					if fmt.Sprint(withValue) == fmt.Sprint(deltasAfter) {
						key = verifC40KeyCallValue
					}
					r.findings = append(r.findings, verifC40Finding{key,
						fmt.Sprintf("after the failed call of n%d (call value %d) the caller frame n%d has balance deltas %s, before the call %s",
							a.Child.ID, a.Amount, n.ID, verifC40FmtDeltas(deltasAfter), verifC40FmtDeltas(deltasBefore))})
				}
			}
			r.obs = append(r.obs, verifC40Obs{node: n.ID, action: i, afterFailed: failed, view: r.viewNow()})
		}
	}
	return n.Ret
}

func verifC40FmtDeltas(d map[string]int64) string {
	keys := make([]string, 0, len(d))
	for k := range d {
		keys = append(keys, k)
	}
	sort.Strings(keys)
	var sb strings.Builder
	sb.WriteString("{")
	for _, k := range keys {
		fmt.Fprintf(&sb, "%s:%d ", verifC40AddrLabel([]byte(k)), d[k])
	}
	sb.WriteString("}")
	return sb.String()
}

func verifC40AddrLabel(a []byte) string {
	for i := 0; i < verifC40NumContracts; i++ {
		if bytes.Equal(a, verifC40ContractAddr(i)) {
			return fmt.Sprintf("c%d", i)
		}
	}
	for i := 0; i < verifC40NumUsers; i++ {
		if bytes.Equal(a, verifC40UserAddr(i)) {
			return fmt.Sprintf("u%d", i)
		}
	}
	return hex.EncodeToString(a)
}

// verifC40RunTree executes the tree on a fresh world and returns every divergence from the reference.
// verifC40LostOnSuccess counts (measurement only, outside the statement) tagged transfers of successful
// frames that are missing from the final VM output.
var verifC40LostOnSuccess int

func verifC40RunTree(root *verifC40Node, base map[string]string) (findings []verifC40Finding, nFailedObs int, err error) {
	verifC40LostOnSuccess = 0
	w, err := verifVMANewWorld(verifVMADefaultConfig())
	if err != nil {
		return nil, 0, err
	}
	run := &verifC40Run{eei: w.eei, nodes: map[int]*verifC40Node{}}
	run.index(root)
	// node ids are sent +1 so that id 0 does not become an empty argument
	shifted := map[int]*verifC40Node{}
	for id, n := range run.nodes {
		shifted[id+1] = n
	}
	run.nodes = shifted
	contract := &verifC40Contract{run: run}
	for i := 0; i < verifC40NumContracts; i++ {
		w.contracts[string(verifC40ContractAddr(i))] = contract
	}
	st := &verifC40State{store: map[string]string{}, delta: map[string]int64{}}
	for c := 0; c < verifC40NumContracts; c++ {
		for k := 0; k < verifC40NumKeys; k++ {
			if v, ok := base[verifC40Slot(c, k)]; ok {
				w.commitStorage(verifC40ContractAddr(c), verifC40Key(k), []byte(v))
				st.store[verifC40Slot(c, k)] = v
			}
		}
	}
	model := &verifC40Model{failedTags: map[string]bool{}}
	model.exec(root, st)

	res, err := w.run(verifC40UserAddr(0), verifC40ContractAddr(root.Contract), "run", big.NewInt(0), big.NewInt(int64(root.ID)+1).Bytes())
	if err != nil {
		return nil, 0, err
	}
	if res.Code != vmcommon.Ok {
		return nil, 0, fmt.Errorf("root returned %s", res.Code)
	}
	findings = append(findings, run.findings...)

	// S1: storage view at every point where a caller resumes after a nested call
	if len(run.obs) != len(model.obs) {
		return nil, 0, fmt.Errorf("observation count %d != model %d", len(run.obs), len(model.obs))
	}
	failedWithWritesSoFar := false
	for i, o := range run.obs {
		mo := model.obs[i]
		if mo.afterFailed {
			nFailedObs++
			n := run.nodes[mo.node+1]
			if verifC40HasWrite(n.Actions[mo.action].Child) {
				failedWithWritesSoFar = true
			}
		}
		if o.view != mo.view {
			key := verifC40KeyStoreOther
			if failedWithWritesSoFar {
				key = verifC40KeyStorage
			}
			findings = append(findings, verifC40Finding{key, fmt.Sprintf("caller n%d after its action %d (nested call %s): storage view is\n  %s\nexpected (writes of failed calls discarded)\n  %s",
				mo.node, mo.action, map[bool]string{true: "failed", false: "succeeded"}[mo.afterFailed], o.view, mo.view)})
			break
		}
	}

	// final VM output: storage
	final := map[string]string{}
	for k, v := range base {
		final[k] = v
	}
	for c := 0; c < verifC40NumContracts; c++ {
		acc := res.Output.OutputAccounts[string(verifC40ContractAddr(c))]
		if acc == nil {
			continue
		}
		for k := 0; k < verifC40NumKeys; k++ {
			if su, ok := acc.StorageUpdates[string(verifC40Key(k))]; ok {
				final[verifC40Slot(c, k)] = string(su.Data)
			}
		}
	}
	finalState := &verifC40State{store: final}
	if finalState.view() != st.view() {
		key := verifC40KeyStoreOther
		if model.failedWrites {
			key = verifC40KeyStorage
		}
		findings = append(findings, verifC40Finding{key, fmt.Sprintf("committed storage after the transaction is\n  %s\nexpected\n  %s", finalState.view(), st.view())})
	}

	// final VM output: transfers of failed sub-calls must be absent; balance deltas as the reference
	actualDelta := map[string]int64{}
	present := map[string]bool{}
	for _, acc := range res.Output.OutputAccounts {
		for _, t := range acc.OutputTransfers {
			present[string(t.Data)] = true
		}
	}
	for _, tag := range st.tags {
		if !present[tag] {
			verifC40LostOnSuccess++
		}
	}
	for _, acc := range res.Output.OutputAccounts {
		for _, t := range acc.OutputTransfers {
			if len(t.Data) > 0 && model.failedTags[string(t.Data)] {
				findings = append(findings, verifC40Finding{verifC40KeyTransfer, fmt.Sprintf("transfer %s of a failed nested call is in the VM output (to %s, value %s)", t.Data, verifC40AddrLabel(acc.Address), t.Value)})
			}
		}
		if acc.BalanceDelta != nil && acc.BalanceDelta.Sign() != 0 {
			actualDelta[verifC40AddrLabel(acc.Address)] = acc.BalanceDelta.Int64()
		}
	}
	expDelta := map[string]int64{}
	for k, v := range st.delta {
		if v != 0 {
			expDelta[k] = v
		}
	}
	if fmt.Sprint(actualDelta) != fmt.Sprint(expDelta) {
		alt := &verifC40Model{failedTags: map[string]bool{}, keepCallVal: true}
		altSt := &verifC40State{store: map[string]string{}, delta: map[string]int64{}}
		alt.exec(root, altSt)
		altDelta := map[string]int64{}
		for k, v := range altSt.delta {
			if v != 0 {
				altDelta[k] = v
			}
		}
		key := verifC40KeyBalance
		if fmt.Sprint(actualDelta) == fmt.Sprint(altDelta) {
			key = verifC40KeyCallValue
		}
		findings = append(findings, verifC40Finding{key, fmt.Sprintf("balance deltas in the VM output %v, expected %v", actualDelta, expDelta)})
	}
	return findings, nFailedObs, nil
}

// verifC40Report raises the first finding that is not a listed known finding; known ones are counted.
func verifC40Report(c *kit.Case, findings []verifC40Finding, descr string) {
	seen := map[string]bool{}
	for _, f := range findings {
		if kit.IsKnown(f.key) {
			if !seen[f.key] {
				c.Excluded(f.key)
				seen[f.key] = true
			}
			continue
		}
		c.Violation(f.key, "%s\n%s", f.msg, descr)
	}
}

func TestVerifC40_CallTrees(t *testing.T) {
	kit.Run(t, "C40", kit.Budget{Quick: 3000, Thorough: 30000},
		"call trees (depth <= 3, <= 7 frames) over 3 scriptable contracts in the real vmContext: each frame does 0-4 actions (SetStorage, SetStorageForAddress on another contract, tagged Transfer to a user, nested ExecuteOnDestContext with call value 0..3) and returns Ok/UserError/OutOfGas/ExecutionFailed; 6 storage slots, some pre-committed; reference interpreter with copy-on-call/discard-on-failure; non-trivial = a failing inner call whose subtree wrote >= 1 key, followed by a further action of its caller",
		func(rt *rapid.T, c *kit.Case) {
			g := &verifC40Gen{rt: rt}
			root := g.node(0, rapid.IntRange(0, verifC40NumContracts-1).Draw(rt, "rootContract"), true)
			base := map[string]string{}
			for ci := 0; ci < verifC40NumContracts; ci++ {
				for k := 0; k < verifC40NumKeys; k++ {
					if rapid.IntRange(0, 2).Draw(rt, "committed") == 2 {
						base[verifC40Slot(ci, k)] = fmt.Sprintf("base%d.%d", ci, k)
					}
				}
			}
			descr := fmt.Sprintf("tree: %s\ncommitted before: %v", root.String(), base)
			if verifC40NonTrivial(root) {
				c.NonTrivial(descr)
				c.Sample("%s", descr)
			}
			var findings []verifC40Finding
			var nFailed int
			var err error
			c.NoPanic("C40:panic", func() { findings, nFailed, err = verifC40RunTree(root, base) })
			if err != nil {
				rt.Fatalf("fixture: %v", err)
			}
			if nFailed > 0 {
				c.Class("has-failed-nested-call")
			}
			if nFailed > 1 {
				c.Class("has->=2-failed-nested-calls")
			}
			if verifC40LostOnSuccess > 0 {
				c.Class("out-of-scope:transfer-entry-of-successful-frame-missing-in-output")
			}
			verifC40Report(c, findings, descr)
		})
}

// ---------- real contracts: validator -> staking ----------

// verifC40Spy wraps the vmContext handed to the *calling* contracts (validator): it snapshots the
// pending state before every nested call and compares after the call if the call failed.
type verifC40Spy struct {
	*vmContext
	world      *verifVMAWorld
	writes     *int
	findings   []verifC40Finding
	failed     int
	failedWrit int
}

func (s *verifC40Spy) snapshot() map[string]map[string]string {
	snap := map[string]map[string]string{}
	for addr, m := range s.vmContext.storageUpdate {
		snap[addr] = map[string]string{}
		for k, v := range m {
			snap[addr][k] = string(v)
		}
	}
	return snap
}

func (s *verifC40Spy) ExecuteOnDestContext(destination []byte, sender []byte, value *big.Int, input []byte) (*vmcommon.VMOutput, error) {
	before := s.snapshot()
	tagsBefore, deltasBefore := verifC40OutputSummary(s.vmContext.outputAccounts)
	nTransfersBefore := verifC40CountTransfers(s.vmContext.outputAccounts)
	writesBefore := *s.writes
	out, err := s.vmContext.ExecuteOnDestContext(destination, sender, value, input)
	if err == nil && out != nil && out.ReturnCode == vmcommon.Ok {
		return out, err
	}
	s.failed++
	if *s.writes > writesBefore {
		s.failedWrit++
	}
	// view comparison over every (address, key) pending before or after
	after := s.snapshot()
	view := func(snap map[string]map[string]string, addr, key string) string {
		if m, ok := snap[addr]; ok {
			if v, ok2 := m[key]; ok2 {
				return v
			}
		}
		return string(s.world.storage[addr][key])
	}
	var diffs []string
	for _, snap := range []map[string]map[string]string{before, after} {
		for addr, m := range snap {
			for key := range m {
				b, a := view(before, addr, key), view(after, addr, key)
				if a != b {
					diffs = append(diffs, fmt.Sprintf("%s/%q: before %x after %x", verifC40SysLabel([]byte(addr)), key, b, a))
				}
			}
		}
	}
	if len(diffs) > 0 {
		sort.Strings(diffs)
		diffs = verifC40Uniq(diffs)
		fn := string(input)
		if i := strings.IndexByte(fn, '@'); i >= 0 {
			fn = fn[:i]
		}
		s.findings = append(s.findings, verifC40Finding{verifC40KeyStorage,
			fmt.Sprintf("nested call %s on %s failed (%v) but %d storage slot(s) seen by the caller changed: %s", fn, verifC40SysLabel(destination), verifC40Code(out, err), len(diffs), strings.Join(diffs, "; "))})
	}
	tagsAfter, deltasAfter := verifC40OutputSummary(s.vmContext.outputAccounts)
	if fmt.Sprint(tagsBefore) != fmt.Sprint(tagsAfter) || nTransfersBefore+1 != verifC40CountTransfers(s.vmContext.outputAccounts) {
		// +1: the call-value transfer entry the vmContext records for every nested call (value 0 here)
		s.findings = append(s.findings, verifC40Finding{verifC40KeyCallerTr, fmt.Sprintf("transfers of the caller changed across a failed nested call: tagged %v -> %v, entries %d -> %d (expected +1 zero-value call entry)",
			tagsBefore, tagsAfter, nTransfersBefore, verifC40CountTransfers(s.vmContext.outputAccounts))})
	}
	if fmt.Sprint(deltasBefore) != fmt.Sprint(deltasAfter) && value.Sign() == 0 {
		s.findings = append(s.findings, verifC40Finding{verifC40KeyCallerTr, fmt.Sprintf("balance deltas of the caller changed across a failed nested call: %v -> %v", deltasBefore, deltasAfter)})
	}
	return out, err
}

func verifC40CountTransfers(accs map[string]*vmcommon.OutputAccount) int {
	n := 0
	for _, a := range accs {
		n += len(a.OutputTransfers)
	}
	return n
}

func verifC40Uniq(s []string) []string {
	out := s[:0]
	for i, x := range s {
		if i == 0 || x != s[i-1] {
			out = append(out, x)
		}
	}
	return out
}

func verifC40Code(out *vmcommon.VMOutput, err error) string {
	if err != nil {
		return "error " + err.Error()
	}
	return out.ReturnCode.String() + ": " + out.ReturnMessage
}

func verifC40SysLabel(a []byte) string {
	switch {
	case bytes.Equal(a, vm.StakingSCAddress):
		return "stakingSC"
	case bytes.Equal(a, vm.ValidatorSCAddress):
		return "validatorSC"
	}
	return hex.EncodeToString(a)
}

// verifC40WriteCounter is the vmContext handed to the *called* contract (staking): it counts writes so
// that the harness can tell which failed nested calls had written something.
type verifC40WriteCounter struct {
	*vmContext
	writes *int
}

func (s *verifC40WriteCounter) SetStorage(key []byte, value []byte) {
	*s.writes++
	s.vmContext.SetStorage(key, value)
}

func (s *verifC40WriteCounter) SetStorageForAddress(address []byte, key []byte, value []byte) {
	*s.writes++
	s.vmContext.SetStorageForAddress(address, key, value)
}

type verifC40RealOp struct {
	Kind  string
	Owner int
	Keys  []int
	Value int64
}

func (o verifC40RealOp) String() string {
	return fmt.Sprintf("%s(owner %d keys %v value %d)", o.Kind, o.Owner, o.Keys, o.Value)
}

type verifC40RealCfg struct {
	Min, Max                  uint64
	StakingV2, CorrectLastUnj bool
}

func verifC40BlsKey(i int) []byte {
	k := bytes.Repeat([]byte{byte('A' + i)}, 96)
	return k
}

func verifC40RealWorld(cfg verifC40RealCfg) (*verifVMAWorld, *verifC40Spy, error) {
	wc := verifVMADefaultConfig()
	wc.MinNumNodes = cfg.Min
	wc.MaxNumNodes = cfg.Max
	wc.NodePrice = 100
	wc.UnBondPeriod = 1
	never := uint32(1000000)
	wc.EnableEpochs = config.EnableEpochs{
		StakingV2EnableEpoch:               never,
		CorrectLastUnjailedEnableEpoch:     never,
		DelegationManagerEnableEpoch:       never,
		ValidatorToDelegationEnableEpoch:   never,
		UnbondTokensV2EnableEpoch:          never,
		DoubleKeyProtectionEnableEpoch:     0,
		ReDelegateBelowMinCheckEnableEpoch: never,
	}
	if cfg.StakingV2 {
		wc.EnableEpochs.StakingV2EnableEpoch = 0
	}
	if cfg.CorrectLastUnj {
		wc.EnableEpochs.CorrectLastUnjailedEnableEpoch = 0
	}
	w, err := verifVMANewWorld(wc)
	if err != nil {
		return nil, nil, err
	}
	writes := new(int)
	spy := &verifC40Spy{vmContext: w.eei, world: w, writes: writes}
	w.validator.eei = spy
	w.staking.eei = &verifC40WriteCounter{vmContext: w.eei, writes: writes}
	return w, spy, nil
}

func verifC40RealApply(w *verifVMAWorld, op verifC40RealOp) (verifVMAResult, error) {
	owner := verifVMAUserAddr('o', op.Owner)
	switch op.Kind {
	case "stake":
		args := [][]byte{big.NewInt(int64(len(op.Keys))).Bytes()}
		for _, k := range op.Keys {
			args = append(args, verifC40BlsKey(k), []byte("signed"))
		}
		return w.run(owner, vm.ValidatorSCAddress, "stake", big.NewInt(op.Value), args...)
	case "unStake", "unStakeNodes", "unBond", "unBondNodes", "unJail":
		var args [][]byte
		for _, k := range op.Keys {
			args = append(args, verifC40BlsKey(k))
		}
		return w.run(owner, vm.ValidatorSCAddress, op.Kind, big.NewInt(op.Value), args...)
	case "unStakeAtEndOfEpoch":
		return w.run(vm.EndOfEpochAddress, vm.StakingSCAddress, "unStakeAtEndOfEpoch", big.NewInt(0), verifC40BlsKey(op.Keys[0]))
	case "jail":
		return w.run(vm.JailingAddress, vm.StakingSCAddress, "jail", big.NewInt(0), verifC40BlsKey(op.Keys[0]))
	case "advance":
		w.nonce += uint64(op.Value)
		return verifVMAResult{}, nil
	}
	return verifVMAResult{}, fmt.Errorf("unknown op %s", op.Kind)
}

const verifC40RealKeys = 6
const verifC40RealOwners = 2

// verifC40KeyStatus reads a BLS key's registration from the committed staking storage (generation aid only).
func verifC40KeyStatus(w *verifVMAWorld, k int) (staked, waiting bool) {
	buf := w.storage[string(vm.StakingSCAddress)][string(verifC40BlsKey(k))]
	if len(buf) == 0 {
		return false, false
	}
	d := &StakedDataV2_0{}
	if w.marsh.Unmarshal(d, buf) != nil {
		return false, false
	}
	return d.Staked, d.Waiting
}

func verifC40GenRealOp(rt *rapid.T, w *verifVMAWorld) verifC40RealOp {
	kinds := []string{"stake", "stake", "stake", "unStake", "unStake", "unStakeNodes", "unStakeNodes", "unBond", "unBondNodes", "unJail", "unStakeAtEndOfEpoch", "unStakeAtEndOfEpoch", "unStakeAtEndOfEpoch", "jail", "advance"}
	kind := rapid.SampledFrom(kinds).Draw(rt, "op")
	op := verifC40RealOp{Kind: kind, Owner: rapid.IntRange(0, verifC40RealOwners-1).Draw(rt, "owner")}
	// keys of an owner: owner 0 -> keys 0..2, owner 1 -> keys 3..5 (a foreign key now and then)
	nKeys := 1
	if kind == "stake" || kind == "unStake" || kind == "unStakeNodes" || kind == "unBond" || kind == "unBondNodes" || kind == "unJail" {
		nKeys = rapid.IntRange(1, 3).Draw(rt, "nKeys")
	}
	preferStaked := kind == "unStake" || kind == "unStakeNodes" || kind == "unStakeAtEndOfEpoch" || kind == "jail"
	seen := map[int]bool{}
	for tries := 0; len(op.Keys) < nKeys && tries < 12; tries++ {
		k := op.Owner*3 + rapid.IntRange(0, 2).Draw(rt, "key")
		if rapid.IntRange(0, 15).Draw(rt, "foreignKey") == 0 {
			k = rapid.IntRange(0, verifC40RealKeys-1).Draw(rt, "anyKey")
		}
		if seen[k] {
			continue
		}
		if preferStaked && tries < 6 {
			if staked, _ := verifC40KeyStatus(w, k); !staked {
				continue
			}
		}
		seen[k] = true
		op.Keys = append(op.Keys, k)
	}
	if len(op.Keys) == 0 {
		op.Keys = []int{op.Owner * 3}
	}
	switch kind {
	case "stake":
		op.Value = int64(len(op.Keys))*100 + int64(rapid.SampledFrom([]int{0, 0, 0, 50, 100, -100}).Draw(rt, "topUp"))
		if op.Value < 0 {
			op.Value = 0
		}
	case "unJail":
		op.Value = int64(len(op.Keys)) * 10
	case "advance":
		op.Value = int64(rapid.IntRange(1, 3).Draw(rt, "nonces"))
	}
	return op
}

// verifC40RealPrefix builds (by construction) the situation the staking contract handles by writing first and
// failing afterwards: a non-empty waiting queue while fewer nodes are staked than the configured minimum.
func verifC40RealPrefix(w *verifVMAWorld, cfg verifC40RealCfg) []verifC40RealOp {
	ops := []verifC40RealOp{
		{Kind: "stake", Owner: 0, Keys: []int{0, 1, 2}, Value: 300},
		{Kind: "stake", Owner: 1, Keys: []int{3, 4, 5}, Value: 300},
	}
	// keys are staked in order until MaxNumNodes is reached, the rest waits
	drop := int(cfg.Max) - int(cfg.Min) + 1
	for k := 0; k < drop && k < int(cfg.Max)-1; k++ {
		ops = append(ops, verifC40RealOp{Kind: "unStakeAtEndOfEpoch", Keys: []int{k}})
	}
	return ops
}

func TestVerifC40_RealFlow(t *testing.T) {
	kit.Run(t, "C40", kit.Budget{Quick: 600, Thorough: 6000, Steps: 25},
		"histories of stake/unStake/unStakeNodes/unBond/unBondNodes/unJail through the real validator contract (2 owners x 3 BLS keys; 2 of 3 cases start with a constructed prefix: all 6 keys staked/queued, then nodes unstaked by the protocol until fewer than MinNumNodes remain) plus jail and unStakeAtEndOfEpoch sent to the staking contract by the system callers, MinNumNodes 1..3, MaxNumNodes Min..4, staking-v2 and correct-last-unjailed flags on/off; every nested validator->staking call that fails is checked by comparing the pending+committed storage view before and after; non-trivial = a failed nested call that had written storage, in a transaction the validator finished with Ok",
		func(rt *rapid.T, c *kit.Case) {
			cfg := verifC40RealCfg{}
			cfg.Min = uint64(rapid.SampledFrom([]int{1, 2, 2, 3, 3}).Draw(rt, "minNodes"))
			cfg.Max = cfg.Min + uint64(rapid.SampledFrom([]int{0, 0, 1, 2}).Draw(rt, "maxExtra"))
			cfg.StakingV2 = rapid.IntRange(0, 3).Draw(rt, "stakingV2") != 0
			cfg.CorrectLastUnj = rapid.Bool().Draw(rt, "correctLastUnjailed")
			w, spy, err := verifC40RealWorld(cfg)
			if err != nil {
				rt.Fatalf("fixture: %v", err)
			}
			var hist []string
			nt := false
			step := func(op verifC40RealOp) {
				spy.findings = nil
				failedWritBefore := spy.failedWrit
				var res verifVMAResult
				var errRun error
				c.NoPanic("C40:real-flow-panic", func() { res, errRun = verifC40RealApply(w, op) })
				if errRun != nil {
					rt.Fatalf("fixture: %v", errRun)
				}
				hist = append(hist, fmt.Sprintf("%s=>%s", op, res.Code))
				c.Class("op:" + op.Kind)
				if spy.failedWrit > failedWritBefore {
					c.Class("nested-call-failed-after-writing")
					if res.Code == vmcommon.Ok && op.Kind != "advance" {
						c.Class("nested-call-failed-after-writing+outer-ok")
						nt = true
					}
				}
				if res.Code != vmcommon.Ok {
					// the SC processor drops everything the transaction did: nothing of the inner call can surface
					return
				}
				verifC40Report(c, spy.findings, fmt.Sprintf("config %+v\nhistory: %s", cfg, strings.Join(hist, " ; ")))
			}
			if rapid.IntRange(0, 2).Draw(rt, "constructedPrefix") != 0 {
				c.Class("constructed-prefix")
				for _, op := range verifC40RealPrefix(w, cfg) {
					step(op)
				}
			}
			rt.Repeat(map[string]func(*rapid.T){
				"op": func(rt *rapid.T) { step(verifC40GenRealOp(rt, w)) },
			})
			if spy.failed > 0 {
				c.Class("case-with-failed-nested-call")
			}
			if nt {
				c.NonTrivial(strings.Join(hist, ";"))
				c.Sample("config %+v history: %s", cfg, strings.Join(hist, " ; "))
			}
		})
}

// ---------- regression table (minimal counterexamples found by the generated checks) ----------

func TestVerifC40_Regress(t *testing.T) {
	kit.Silence()
	// 1. scripted contracts: caller c0 calls c1, c1 writes its key k0 and fails; c0 then reads.
	tree := &verifC40Node{ID: 0, Contract: 0, Ret: vmcommon.Ok, Actions: []verifC40Action{
		{Kind: verifC40Call, Addr: 1, Child: &verifC40Node{ID: 1, Contract: 1, Ret: vmcommon.UserError, Actions: []verifC40Action{
			{Kind: verifC40Write, Key: 0, Val: "v1.0"},
		}}},
	}}
	findings, _, err := verifC40RunTree(tree, map[string]string{})
	if err != nil {
		t.Fatalf("fixture: %v", err)
	}
	for _, f := range findings {
		kit.FailPlain(t, "C40", f.key, "%s\ntree: %s", f.msg, tree.String())
	}

	// 2. real contracts: MinNumNodes = MaxNumNodes = 2; keys A,B staked, C waiting; A unstaked by the
	// protocol at end of epoch; the owner's unStakeNodes(B) makes the staking contract promote C from the
	// queue and only then fail with "unStake is not possible as too many left"; the validator contract
	// carries on and the transaction succeeds.
	for _, v2 := range []bool{true} {
		w, spy, err := verifC40RealWorld(verifC40RealCfg{Min: 2, Max: 2, StakingV2: v2, CorrectLastUnj: true})
		if err != nil {
			t.Fatalf("fixture: %v", err)
		}
		ops := []verifC40RealOp{
			{Kind: "stake", Owner: 0, Keys: []int{0, 1, 2}, Value: 300},
			{Kind: "unStakeAtEndOfEpoch", Keys: []int{0}},
			{Kind: "unStakeNodes", Owner: 0, Keys: []int{1}},
		}
		var hist []string
		for _, op := range ops {
			spy.findings = nil
			res, errRun := verifC40RealApply(w, op)
			if errRun != nil {
				t.Fatalf("fixture: %v", errRun)
			}
			hist = append(hist, fmt.Sprintf("%s=>%s", op, res.Code))
			if res.Code != vmcommon.Ok {
				t.Fatalf("fixture: %s returned %s (%s)", op, res.Code, res.Message)
			}
			for _, f := range spy.findings {
				kit.FailPlain(t, "C40", f.key, "%s\nhistory: %s", f.msg, strings.Join(hist, " ; "))
			}
		}
		if spy.failedWrit == 0 {
			t.Fatalf("fixture: the regression history no longer reaches a nested call that fails after writing (%s)", strings.Join(hist, " ; "))
		}
	}
}
