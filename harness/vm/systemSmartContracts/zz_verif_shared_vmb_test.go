package systemSmartContracts

import (
	"math/big"
	"sort"

	"github.com/ElrondNetwork/elrond-go/core"
	"github.com/ElrondNetwork/elrond-go/data/state"
	"github.com/ElrondNetwork/elrond-go/process/smartContract/hooks"
	"github.com/ElrondNetwork/elrond-go/testscommon"
	"github.com/ElrondNetwork/elrond-go/vm"
	"github.com/ElrondNetwork/elrond-go/vm/mock"
	vmcommon "github.com/ElrondNetwork/elrond-vm-common"
	"github.com/ElrondNetwork/elrond-vm-common/parsers"
)

// Shared fixture of C39/C41 ("SF" of DESIGN.md): a real vmContext over a harness-driven chain
// (committed storage, epoch, nonce, round, random seed, validator-statistics lists). The harness plays the
// role of the system VM between transactions (vm/process/systemVM.go RunSmartContractCall): clean the
// context, execute, and commit the storage updates of the VM output only when the return code is Ok.

type verifVMBChain struct {
	storage  map[string]map[string][]byte // committed storage: address -> key -> value
	epoch    uint32
	nonce    uint64
	round    uint64
	seed     []byte
	peerList map[string]string // BLS key -> list name in the validator statistics ("" = no peer account)
	badRate  map[string]bool   // BLS key -> temp rating under the jail limit
}

func verifVMBNewChain() *verifVMBChain {
	return &verifVMBChain{
		storage:  map[string]map[string][]byte{},
		seed:     []byte("seed"),
		peerList: map[string]string{},
		badRate:  map[string]bool{},
	}
}

func (ch *verifVMBChain) verifVMBGet(addr []byte, key []byte) []byte {
	m := ch.storage[string(addr)]
	if m == nil {
		return nil
	}
	v, ok := m[string(key)]
	if !ok {
		return nil
	}
	out := make([]byte, len(v))
	copy(out, v)
	return out
}

// verifVMBKeys returns the committed storage keys of an address in sorted order (never iterate the map directly).
func (ch *verifVMBChain) verifVMBKeys(addr []byte) []string {
	m := ch.storage[string(addr)]
	keys := make([]string, 0, len(m))
	for k := range m {
		keys = append(keys, k)
	}
	sort.Strings(keys)
	return keys
}

func (ch *verifVMBChain) verifVMBHook() *mock.BlockChainHookStub {
	return &mock.BlockChainHookStub{
		GetStorageDataCalled: func(addr []byte, index []byte) ([]byte, error) {
			return ch.verifVMBGet(addr, index), nil
		},
		CurrentNonceCalled:      func() uint64 { return ch.nonce },
		CurrentRoundCalled:      func() uint64 { return ch.round },
		CurrentEpochCalled:      func() uint32 { return ch.epoch },
		CurrentRandomSeedCalled: func() []byte { return ch.seed },
		NumberOfShardsCalled:    func() uint32 { return 3 },
	}
}

// verifVMBAccounts is the validator-statistics view used by eei.IsValidator/CanUnJail/IsBadRating.
func (ch *verifVMBChain) verifVMBAccounts() *testscommon.AccountsStub {
	return &testscommon.AccountsStub{
		GetExistingAccountCalled: func(address []byte) (vmcommon.AccountHandler, error) {
			list := ch.peerList[string(address)]
			if list == "" {
				return nil, state.ErrAccNotFound
			}
			acc, err := state.NewPeerAccount(address)
			if err != nil {
				return nil, err
			}
			acc.SetListAndIndex(0, list, 0)
			if ch.badRate[string(address)] {
				acc.SetTempRating(1)
			} else {
				acc.SetTempRating(50)
			}
			return acc, nil
		},
	}
}

// verifVMBRater: chance below the chance of rating 0 only for temp rating 1 (marks "bad rating").
func verifVMBRater() *mock.RaterMock {
	return &mock.RaterMock{GetChancesCalled: func(rating uint32) uint32 {
		if rating == 1 {
			return 1
		}
		return 10
	}}
}

func (ch *verifVMBChain) verifVMBNewEEI() (*vmContext, error) {
	return NewVMContext(ch.verifVMBHook(), hooks.NewVMCryptoHook(), parsers.NewCallArgsParser(), ch.verifVMBAccounts(), verifVMBRater())
}

// verifVMBCommit applies the storage updates of a successful VM output to the committed storage.
func (ch *verifVMBChain) verifVMBCommit(out *vmcommon.VMOutput) {
	for addr, acc := range out.OutputAccounts {
		for key, upd := range acc.StorageUpdates {
			if ch.storage[addr] == nil {
				ch.storage[addr] = map[string][]byte{}
			}
			if len(upd.Data) == 0 {
				delete(ch.storage[addr], key)
				continue
			}
			v := make([]byte, len(upd.Data))
			copy(v, upd.Data)
			ch.storage[addr][key] = v
		}
	}
}

// verifVMBRun plays one transaction the way systemVM.RunSmartContractCall does and commits on Ok.
func (ch *verifVMBChain) verifVMBRun(eei *vmContext, input *vmcommon.ContractCallInput) (vmcommon.ReturnCode, *vmcommon.VMOutput, error) {
	eei.CleanCache()
	eei.SetSCAddress(input.RecipientAddr)
	eei.AddTxValueToSmartContract(input.CallValue, input.RecipientAddr)
	eei.SetGasProvided(input.GasProvided)
	contract, err := eei.GetContract(input.RecipientAddr)
	if err != nil {
		return vmcommon.ExecutionFailed, nil, err
	}
	rc := contract.Execute(input)
	out := eei.CreateVMOutput()
	out.ReturnCode = rc
	if rc == vmcommon.Ok {
		ch.verifVMBCommit(out)
	}
	eei.CleanCache()
	return rc, out, nil
}

func verifVMBInput(caller, recipient []byte, function string, value *big.Int, args ...[]byte) *vmcommon.ContractCallInput {
	if value == nil {
		value = big.NewInt(0)
	}
	return &vmcommon.ContractCallInput{
		VMInput: vmcommon.VMInput{
			CallerAddr:  caller,
			Arguments:   args,
			CallValue:   value,
			GasProvided: 1 << 40,
			CallType:    vmcommon.DirectCall,
		},
		RecipientAddr: recipient,
		Function:      function,
	}
}

// verifVMBNotifier keeps the registered epoch subscribers so that the harness can confirm epochs.
type verifVMBNotifier struct {
	handlers []core.EpochSubscriberHandler
}

func (n *verifVMBNotifier) verifVMBStub(epoch uint32) *mock.EpochNotifierStub {
	return &mock.EpochNotifierStub{
		RegisterNotifyHandlerCalled: func(h core.EpochSubscriberHandler) {
			n.handlers = append(n.handlers, h)
			h.EpochConfirmed(epoch, 0)
		},
	}
}

func (n *verifVMBNotifier) verifVMBConfirm(epoch uint32) {
	for _, h := range n.handlers {
		h.EpochConfirmed(epoch, 0)
	}
}

// verifVMBContainer maps system SC addresses to contracts.
func verifVMBContainer(contracts map[string]vm.SystemSmartContract) *mock.SystemSCContainerStub {
	return &mock.SystemSCContainerStub{
		GetCalled: func(key []byte) (vm.SystemSmartContract, error) {
			c, ok := contracts[string(key)]
			if !ok {
				return nil, vm.ErrUnknownSystemSmartContract
			}
			return c, nil
		},
	}
}
