package systemSmartContracts

import (
	"bytes"
	"encoding/hex"
	"fmt"
	"math/big"
	"regexp"
	"sort"
	"strings"
	"testing"

	"github.com/ElrondNetwork/elrond-go/config"
	"github.com/ElrondNetwork/elrond-go/core"
	"github.com/ElrondNetwork/elrond-go/marshal"
	"github.com/ElrondNetwork/elrond-go/vm"
	"github.com/ElrondNetwork/elrond-go/vm/mock"
	kit "github.com/ElrondNetwork/elrond-go/verifkit"
	vmcommon "github.com/ElrondNetwork/elrond-vm-common"
	"pgregory.net/rapid"
)

// C41: Token identifiers are unique and well-formed (TICKER-xxxxxx, six lowercase hex digits).

const verifC41Retries = 50 // numOfRetriesForIdentifier as documented; kept as an own constant of the oracle
const verifC41Space = 1 << 24

var verifC41Suffix = regexp.MustCompile(`^[0-9a-f]{6}$`)

// verifC41TickerRule is the documented ticker rule of esdt.go (minLengthForTickerName = 3, maxLengthForTickerName = 10,
// isTickerValid: every byte 'A'..'Z' or '0'..'9'), written down independently: the TICKER part of an issued identifier.
var verifC41TickerRule = regexp.MustCompile(`^[A-Z0-9]{3,10}$`)

// verifC41Hasher is the harness hasher double: a 32-byte digest whose first three bytes are chosen by the
// generator (quantifying over hash outputs = quantifying over (caller, random seed) inputs of a real hasher).
type verifC41Hasher struct {
	next  uint32
	calls int
}

func (h *verifC41Hasher) Compute(s string) []byte {
	h.calls++
	out := make([]byte, 32)
	out[0] = byte(h.next >> 16)
	out[1] = byte(h.next >> 8)
	out[2] = byte(h.next)
	for i := 3; i < 32; i++ {
		out[i] = byte(len(s)*7 + i)
	}
	return out
}
func (h *verifC41Hasher) Size() int            { return 32 }
func (h *verifC41Hasher) IsInterfaceNil() bool { return h == nil }

type verifC41Fixture struct {
	ch     *verifVMBChain
	eei    *vmContext
	sc     *esdt
	hasher *verifC41Hasher
	cost   *big.Int
}

func verifC41NewFixture() (*verifC41Fixture, error) {
	ch := verifVMBNewChain()
	ch.nonce = 10
	eei, err := ch.verifVMBNewEEI()
	if err != nil {
		return nil, err
	}
	h := &verifC41Hasher{}
	args := ArgsNewESDTSmartContract{
		Eei:     eei,
		GasCost: vm.GasCost{MetaChainSystemSCsCost: vm.MetaChainSystemSCsCost{ESDTIssue: 10}},
		ESDTSCConfig: config.ESDTSystemSCConfig{
			BaseIssuingCost: "1000",
			OwnerAddress:    "owner",
		},
		ESDTSCAddress:          vm.ESDTSCAddress,
		Marshalizer:            &marshal.GogoProtoMarshalizer{},
		Hasher:                 h,
		EpochNotifier:          &mock.EpochNotifierStub{},
		AddressPubKeyConverter: mock.NewPubkeyConverterMock(32),
		EndOfEpochSCAddress:    vm.EndOfEpochAddress,
	}
	sc, err := NewESDTSmartContract(args)
	if err != nil {
		return nil, err
	}
	if err = eei.SetSystemSCContainer(verifVMBContainer(map[string]vm.SystemSmartContract{string(vm.ESDTSCAddress): sc})); err != nil {
		return nil, err
	}
	f := &verifC41Fixture{ch: ch, eei: eei, sc: sc, hasher: h, cost: big.NewInt(1000)}
	// deploy: the init endpoint writes the contract configuration
	eei.CleanCache()
	eei.SetSCAddress(vm.ESDTSCAddress)
	rc := sc.Execute(verifVMBInput([]byte("owner"), vm.ESDTSCAddress, core.SCDeployInitFunctionName, nil))
	if rc != vmcommon.Ok {
		return nil, fmt.Errorf("esdt init returned %s", rc)
	}
	ch.verifVMBCommit(eei.CreateVMOutput())
	eei.CleanCache()
	return f, nil
}

// verifC41Arg returns b the way the transaction argument parser delivers arguments (hex decoding in place:
// the slice has spare capacity), which matters for code that appends to its arguments.
func verifC41Arg(b []byte) []byte {
	out, _ := hex.DecodeString(hex.EncodeToString(b))
	return out
}

type verifC41Issue struct {
	kind   int // 0 fungible, 1 semi-fungible, 2 non-fungible
	ticker string
	caller int
	rnd    uint32
}

func (i verifC41Issue) String() string {
	tk := i.ticker
	if !verifC41TickerRule.MatchString(tk) {
		tk = fmt.Sprintf("%q", tk)
	}
	return fmt.Sprintf("%s(%s,caller%d,hash=%06x)", [...]string{"issue", "issueSemiFungible", "issueNonFungible"}[i.kind], tk, i.caller, i.rnd)
}

var verifC41Callers = [][]byte{
	bytes.Repeat([]byte{0x11}, 32),
	bytes.Repeat([]byte{0x22}, 32),
	append([]byte{0x33}, bytes.Repeat([]byte{0xab}, 31)...),
}

// verifC41Ctx renders the transaction trace lazily (only when a violation is reported).
type verifC41Ctx struct {
	step  int
	trace []string
}

func (x verifC41Ctx) String() string { return fmt.Sprintf("step %d of %v", x.step, x.trace) }

type verifC41Str string

func (x verifC41Str) String() string { return string(x) }

func verifC41Id(ticker string, v uint32) string { return fmt.Sprintf("%s-%06x", ticker, v) }

// verifC41FailureAllowed: creation may fail only if every one of the 50 candidates r, r+1, ... is occupied
// (a candidate beyond ffffff counts as unavailable as well as its wrapped value being occupied: both a
// wrapping and a refusing implementation are accepted).
func verifC41FailureAllowed(issued map[string]bool, ticker string, r uint32) bool {
	for i := uint32(0); i < verifC41Retries; i++ {
		c := r + i
		if c >= verifC41Space {
			// beyond the 6-digit space: a refusing implementation has no further candidate, a wrapping one
			// may find its wrapped candidate occupied; neither is judged
			continue
		}
		if !issued[verifC41Id(ticker, c)] {
			return false
		}
	}
	return true
}

// verifC41Execute runs one issue transaction; returns the identifier (from returned data / transfer data), the
// storage keys written under the ESDT address, and the return code.
func (f *verifC41Fixture) verifC41Execute(is verifC41Issue) (vmcommon.ReturnCode, string, []string, error) {
	f.hasher.next = is.rnd
	caller := verifC41Callers[is.caller]
	name := verifC41Arg([]byte(fmt.Sprintf("TokenName%d", is.kind)))
	ticker := verifC41Arg([]byte(is.ticker))
	var in *vmcommon.ContractCallInput
	switch is.kind {
	case 0:
		in = verifVMBInput(caller, vm.ESDTSCAddress, "issue", f.cost, name, ticker, verifC41Arg([]byte{100}), verifC41Arg([]byte{2}))
	case 1:
		in = verifVMBInput(caller, vm.ESDTSCAddress, "issueSemiFungible", f.cost, name, ticker)
	default:
		in = verifVMBInput(caller, vm.ESDTSCAddress, "issueNonFungible", f.cost, name, ticker, verifC41Arg([]byte("canFreeze")), verifC41Arg([]byte("true")))
	}
	rc, out, err := f.ch.verifVMBRun(f.eei, in)
	if err != nil {
		return rc, "", nil, err
	}
	if rc != vmcommon.Ok {
		return rc, out.ReturnMessage, nil, nil
	}
	var written []string
	if acc := out.OutputAccounts[string(vm.ESDTSCAddress)]; acc != nil {
		for k := range acc.StorageUpdates {
			written = append(written, k)
		}
		sort.Strings(written)
	}
	id := ""
	if is.kind == 0 {
		// fungible: the identifier travels in the ESDTTransfer data sent to the caller
		if acc := out.OutputAccounts[string(caller)]; acc != nil {
			for _, tr := range acc.OutputTransfers {
				parts := strings.Split(string(tr.Data), "@")
				if len(parts) >= 2 && parts[0] == core.BuiltInFunctionESDTTransfer {
					b, errDec := hex.DecodeString(parts[1])
					if errDec == nil {
						id = string(b)
					}
				}
			}
		}
	} else if len(out.ReturnData) > 0 {
		id = string(out.ReturnData[len(out.ReturnData)-1])
	}
	return rc, id, written, nil
}

func verifC41CheckWellFormed(c *kit.Case, where string, ticker string, id string, ctx fmt.Stringer) {
	prefix := ticker + "-"
	if !verifC41TickerRule.MatchString(ticker) || !strings.HasPrefix(id, prefix) || !verifC41Suffix.MatchString(id[len(prefix):]) {
		c.Violation("C41:"+where+":malformed-identifier", "identifier %q (ticker argument %q) is not TICKER-xxxxxx with TICKER = the ticker argument of 3-10 characters [A-Z0-9] and six lowercase hex digits (%s)", id, ticker, ctx)
	}
}

func verifC41DrawRnd(rt *rapid.T, earlier []uint32, label string) uint32 {
	k := rapid.IntRange(0, 11).Draw(rt, label+"Kind")
	switch {
	case k <= 3 && len(earlier) > 0:
		// repeat of (or a value just below) an earlier hash value: the first candidate(s) are occupied
		e := earlier[rapid.IntRange(0, len(earlier)-1).Draw(rt, label+"Earlier")]
		d := uint32(rapid.IntRange(0, 3).Draw(rt, label+"Back"))
		return (e + verifC41Space - d) % verifC41Space
	case k == 4:
		return uint32(rapid.IntRange(0, 2).Draw(rt, label+"Low"))
	case k <= 7:
		return uint32(verifC41Space - 1 - rapid.IntRange(0, 3).Draw(rt, label+"High"))
	case k == 8:
		return uint32(verifC41Space - 1 - rapid.IntRange(0, 60).Draw(rt, label+"High60"))
	default:
		return uint32(rapid.IntRange(0, verifC41Space-1).Draw(rt, label+"Any"))
	}
}

func verifC41Ticker(rt *rapid.T, label string) string {
	n := rapid.IntRange(3, 10).Draw(rt, label+"Len")
	b := make([]byte, n)
	const alphabet = "ABCDEFGHIJKLMNOPQRSTUVWXYZ0123456789"
	for i := range b {
		b[i] = alphabet[rapid.IntRange(0, len(alphabet)-1).Draw(rt, label+"Ch")]
	}
	return string(b)
}

// verifC41OddTicker derives a ticker argument that breaks the documented rule from a valid one. A ticker is an
// arbitrary byte string chosen by the sender of the transaction (hex-encoded argument), so every byte value and
// every length can reach the contract.
func verifC41OddTicker(rt *rapid.T, base string) string {
	b := []byte(base)
	oddByte := func(label string) byte {
		switch rapid.IntRange(0, 3).Draw(rt, label+"Class") {
		case 0:
			return byte(rapid.IntRange(0x80, 0xff).Draw(rt, label+"High"))
		case 1:
			return byte(rapid.IntRange('a', 'z').Draw(rt, label+"Lower"))
		case 2:
			return rapid.SampledFrom([]byte{0x00, ' ', '-', '/', ':', '@', '[', '`', '{', 0x7f, '_', '.', '$'}).Draw(rt, label+"Punct")
		default:
			for {
				x := rapid.Byte().Draw(rt, label+"Any")
				if !(x >= 'A' && x <= 'Z') && !(x >= '0' && x <= '9') {
					return x
				}
			}
		}
	}
	switch rapid.IntRange(0, 7).Draw(rt, "oddKind") {
	case 0, 1, 2: // one byte outside the alphabet
		b[rapid.IntRange(0, len(b)-1).Draw(rt, "oddPos")] = oddByte("odd")
	case 3: // two bytes outside the alphabet
		b[rapid.IntRange(0, len(b)-1).Draw(rt, "oddPos")] = oddByte("odd")
		b[rapid.IntRange(0, len(b)-1).Draw(rt, "oddPos2")] = oddByte("odd2")
	case 4: // too short: 0, 1 or 2 characters of the alphabet
		b = b[:rapid.IntRange(0, 2).Draw(rt, "shortLen")]
	case 5: // too long: 11 or 12 characters of the alphabet
		target := 11 + rapid.IntRange(0, 1).Draw(rt, "longLen")
		for len(b) < target {
			b = append(b, 'A')
		}
	case 6: // nothing from the alphabet
		for i := range b {
			b[i] = oddByte("all")
		}
	default: // right alphabet in lower case
		b = []byte(strings.ToLower(string(b)))
		if string(b) == base {
			b[0] = 'x'
		}
	}
	return string(b)
}

func TestVerifC41_Issue(t *testing.T) {
	kit.Run(t, "C41", kit.Budget{Quick: 2500, Thorough: 20000},
		"sequences of 1-70 issue/issueSemiFungible/issueNonFungible transactions over 1-3 tickers (3-10 chars [A-Z0-9]) and 3 callers through the real ESDT contract and vmContext; "+
			"the first three bytes of the hasher output are drawn per transaction (000000.., ..ffffff, repeats of earlier values, uniform); "+
			"one transaction in eight carries a ticker argument that breaks the documented rule (one or two bytes outside [A-Z0-9]: high bytes, lower case, punctuation, NUL; length 0-2 or 11-12; all bytes odd; lower-cased); "+
			"oracle: a transaction either fails or the returned identifier == the single storage key written, is TICKER-[0-9a-f]{6} with TICKER == the ticker argument matching ^[A-Z0-9]{3,10}$, and is not in the harness' set of identifiers issued before; with a valid ticker failure only if all 50 candidates are occupied/unavailable; "+
			"non-trivial = a transaction whose first candidate was already taken, whose hash value is within 50 of ffffff, or whose ticker breaks the rule; distinct by transaction sequence",
		func(rt *rapid.T, c *kit.Case) {
			f, err := verifC41NewFixture()
			if err != nil {
				rt.Fatalf("fixture: %v", err)
			}
			nTick := rapid.IntRange(1, 3).Draw(rt, "nTickers")
			tickers := make([]string, nTick)
			for i := range tickers {
				tickers[i] = verifC41Ticker(rt, "ticker")
			}
			maxLen := 40
			if rapid.IntRange(0, 4).Draw(rt, "long") == 0 {
				maxLen = 70
			}
			n := rapid.IntRange(1, maxLen).Draw(rt, "n")
			issued := map[string]bool{}
			var earlier []uint32
			var trace []string
			nonTrivial := false
			for step := 0; step < n; step++ {
				is := verifC41Issue{
					kind:   rapid.IntRange(0, 2).Draw(rt, "kind"),
					ticker: tickers[rapid.IntRange(0, nTick-1).Draw(rt, "tickerIdx")],
					caller: rapid.IntRange(0, 2).Draw(rt, "caller"),
				}
				is.rnd = verifC41DrawRnd(rt, earlier, "rnd")
				earlier = append(earlier, is.rnd)
				if rapid.IntRange(0, 7).Draw(rt, "oddTicker") == 0 {
					is.ticker = verifC41OddTicker(rt, is.ticker)
				}
				validTicker := verifC41TickerRule.MatchString(is.ticker)
				if !validTicker {
					c.Class("ticker outside the documented rule")
					nonTrivial = true
				}
				trace = append(trace, is.String())
				firstTaken := issued[verifC41Id(is.ticker, is.rnd)]
				nearTop := is.rnd >= verifC41Space-verifC41Retries
				if firstTaken {
					c.Class("first-candidate-taken")
				}
				if nearTop {
					c.Class("within-50-of-ffffff")
				}
				if firstTaken && nearTop {
					c.Class("taken-and-near-top")
				}
				if firstTaken || nearTop {
					nonTrivial = true
				}
				ctx := verifC41Ctx{step: step, trace: trace}

				var rc vmcommon.ReturnCode
				var id string
				var written []string
				var errRun error
				c.NoPanic("C41:issue:panic", func() { rc, id, written, errRun = f.verifC41Execute(is) })
				if errRun != nil {
					rt.Fatalf("fixture: %v", errRun)
				}
				if rc != vmcommon.Ok && !validTicker {
					c.Class("ticker outside the documented rule: rejected")
					continue
				}
				if rc != vmcommon.Ok {
					c.Class("issue-failed")
					if !verifC41FailureAllowed(issued, is.ticker, is.rnd) {
						c.Violation("C41:issue:spurious-failure", "issue failed (%s: %s) although one of the 50 candidates from %06x is free (%s)", rc, id, is.rnd, ctx)
					}
					c.Class("issue-failed-50-occupied")
					continue
				}
				c.Class("issue-ok")
				if len(written) != 1 {
					c.Violation("C41:issue:storage-keys", "a successful issue wrote %d storage keys %q, expected exactly the token identifier (%s)", len(written), written, ctx)
				}
				if id != written[0] {
					c.Violation("C41:issue:returned-vs-stored", "returned identifier %q differs from the storage key %q (%s)", id, written[0], ctx)
				}
				verifC41CheckWellFormed(c, "issue", is.ticker, id, ctx)
				if issued[id] {
					c.Violation("C41:issue:duplicate-identifier", "identifier %q was issued before (%s)", id, ctx)
				}
				// the stored token must be the one just issued (owner and ticker), i.e. nothing older was overwritten silently
				tok, errTok := f.verifC41Token(id)
				if errTok != nil || string(tok.TickerName) != is.ticker || !bytes.Equal(tok.OwnerAddress, verifC41Callers[is.caller]) {
					c.Violation("C41:issue:stored-token", "storage under %q does not hold the issued token (err %v) (%s)", id, errTok, ctx)
				}
				issued[id] = true
			}
			if nonTrivial {
				c.NonTrivial(strings.Join(trace, ";"))
				c.Sample("%v", trace)
			}
		})
}

func (f *verifC41Fixture) verifC41Token(id string) (*ESDTData, error) {
	b := f.ch.verifVMBGet(vm.ESDTSCAddress, []byte(id))
	if len(b) == 0 {
		return nil, fmt.Errorf("no data")
	}
	tok := &ESDTData{}
	err := (&marshal.GogoProtoMarshalizer{}).Unmarshal(tok, b)
	return tok, err
}

// TestVerifC41_Direct drives createNewTokenIdentifier directly over drawn occupancy patterns around the hash
// value (incl. across the ffffff boundary and 49/50 occupied candidates), which the transaction-level test
// reaches only with long sequences.
func TestVerifC41_Direct(t *testing.T) {
	kit.Run(t, "C41", kit.Budget{Quick: 6000, Thorough: 60000},
		"createNewTokenIdentifier(caller, ticker) with the storage pre-populated under a drawn subset of the 60 identifiers following the hash value (runs of 0..60 occupied candidates, holes), hash value boundary-biased; "+
			"oracle: result is TICKER-[0-9a-f]{6} and not occupied; an error only if the 50 candidates are all occupied/unavailable; non-trivial = first candidate occupied or hash within 50 of ffffff; distinct by (hash, occupancy)",
		func(rt *rapid.T, c *kit.Case) {
			f, err := verifC41NewFixture()
			if err != nil {
				rt.Fatalf("fixture: %v", err)
			}
			ticker := verifC41Ticker(rt, "ticker")
			r := verifC41DrawRnd(rt, nil, "rnd")
			run := rapid.IntRange(0, 60).Draw(rt, "run")
			switch rapid.IntRange(0, 5).Draw(rt, "runKind") {
			case 0:
				run = 49
			case 1:
				run = 50
			case 2:
				run = 0
			}
			holes := rapid.IntRange(0, 2).Draw(rt, "holes")
			occupied := map[string]bool{}
			for i := 0; i < run; i++ {
				occupied[verifC41Id(ticker, (r+uint32(i))%verifC41Space)] = true
			}
			for i := 0; i < holes && run > 0; i++ {
				h := rapid.IntRange(0, run-1).Draw(rt, "hole")
				delete(occupied, verifC41Id(ticker, (r+uint32(h))%verifC41Space))
			}
			// some unrelated occupied identifiers (other ticker, far values)
			occupied[verifC41Id(ticker+"X", r)] = true
			f.eei.CleanCache()
			f.eei.SetSCAddress(vm.ESDTSCAddress)
			ids := make([]string, 0, len(occupied))
			for id := range occupied {
				ids = append(ids, id)
			}
			sort.Strings(ids)
			for _, id := range ids {
				f.eei.SetStorage([]byte(id), []byte{1})
			}
			f.hasher.next = r
			caller := verifC41Arg(verifC41Callers[rapid.IntRange(0, 2).Draw(rt, "caller")])
			tk := verifC41Arg([]byte(ticker))
			var id []byte
			var errCreate error
			c.NoPanic("C41:direct:panic", func() { id, errCreate = f.sc.createNewTokenIdentifier(caller, tk) })
			firstTaken := occupied[verifC41Id(ticker, r)]
			nearTop := r >= verifC41Space-verifC41Retries
			if firstTaken {
				c.Class("first-candidate-taken")
			}
			if nearTop {
				c.Class("within-50-of-ffffff")
			}
			if firstTaken && nearTop {
				c.Class("taken-and-near-top")
			}
			ctx := verifC41Str(fmt.Sprintf("ticker %s hash %06x run %d holes %d", ticker, r, run, holes))
			if firstTaken || nearTop {
				c.NonTrivial(fmt.Sprint(r, run, len(occupied), ids))
				c.Sample("%s", ctx.String())
			}
			if string(tk) != ticker {
				c.Violation("C41:direct:ticker-argument-modified", "ticker argument changed to %q (%s)", tk, ctx)
			}
			if errCreate != nil {
				c.Class("error")
				if !verifC41FailureAllowed(occupied, ticker, r) {
					c.Violation("C41:direct:spurious-failure", "error %v although one of the 50 candidates is free (%s)", errCreate, ctx)
				}
				return
			}
			c.Class("ok")
			verifC41CheckWellFormed(c, "direct", ticker, string(id), ctx)
			if occupied[string(id)] {
				c.Violation("C41:direct:duplicate-identifier", "identifier %q is already occupied (%s)", id, ctx)
			}
		})
}

// TestVerifC41_Regress: the minimal counterexample of the wrap-around defect: ticker issued twice with a hash
// value of ffffff; the second identifier was "TCK-1000000" (seven digits).
func TestVerifC41_Regress(t *testing.T) {
	kit.Silence()
	f, err := verifC41NewFixture()
	if err != nil {
		t.Fatalf("fixture: %v", err)
	}
	for i := 0; i < 2; i++ {
		rc, id, _, errRun := f.verifC41Execute(verifC41Issue{kind: 0, ticker: "TCK", caller: 0, rnd: 0xffffff})
		if errRun != nil {
			t.Fatalf("fixture: %v", errRun)
		}
		if rc != vmcommon.Ok {
			continue // a refusing implementation is accepted
		}
		if !verifC41Suffix.MatchString(strings.TrimPrefix(id, "TCK-")) || !strings.HasPrefix(id, "TCK-") {
			kit.FailPlain(t, "C41", "C41:issue:malformed-identifier", "issue #%d of ticker TCK with hash value ffffff returned %q", i+1, id)
		}
	}
}

// TestVerifC41_TickerBytes: exhaustive sweep of the ticker alphabet and length rule through the three issue
// endpoints: ticker TKN7A with every byte value at its first, middle and last position, and alphabet-only tickers of
// length 0..12. A transaction either fails or returns a well-formed, new identifier; a ticker that satisfies the
// documented rule must be issued (its first candidate is free).
func TestVerifC41_TickerBytes(t *testing.T) {
	p := kit.NewPlain(t, "C41", "exhaustive: ticker TKN7A with each of the 256 byte values at position 0, 2 and 4, and alphabet-only tickers of length 0..12, through issue / issueSemiFungible / issueNonFungible (fresh hash value each time); "+
		"a transaction fails or returns TICKER-[0-9a-f]{6} with TICKER == the argument matching ^[A-Z0-9]{3,10}$, never issued before; a ticker satisfying the rule must be issued; non-trivial = ticker outside the rule")
	defer p.Done()
	f, err := verifC41NewFixture()
	if err != nil {
		t.Fatalf("fixture: %v", err)
	}
	issued := map[string]bool{}
	rnd := uint32(0x000100)
	run := func(ticker string, kind int) {
		rnd += 3
		is := verifC41Issue{kind: kind, ticker: ticker, caller: kind, rnd: rnd}
		rc, id, written, errRun := f.verifC41Execute(is)
		if errRun != nil {
			t.Fatalf("fixture: %v", errRun)
		}
		p.Eval(1)
		valid := verifC41TickerRule.MatchString(ticker)
		if !valid {
			p.NonTrivial(fmt.Sprintf("%d %x", kind, ticker))
		}
		if rc != vmcommon.Ok {
			p.Class("rejected", 1)
			if valid {
				p.Violation("C41:issue:spurious-failure", "%s failed (%s: %s) although the ticker satisfies the rule and its first candidate is free", is, rc, id)
			}
			return
		}
		p.Class("issued", 1)
		prefix := ticker + "-"
		if !valid || !strings.HasPrefix(id, prefix) || !verifC41Suffix.MatchString(id[len(prefix):]) {
			p.Violation("C41:issue:malformed-identifier", "%s returned identifier %q (ticker bytes %x): not TICKER-xxxxxx with TICKER of 3-10 characters [A-Z0-9]", is, id, ticker)
			return
		}
		if len(written) != 1 || written[0] != id {
			p.Violation("C41:issue:returned-vs-stored", "%s returned %q but wrote the storage keys %q", is, id, written)
		}
		if issued[id] {
			p.Violation("C41:issue:duplicate-identifier", "%s returned %q which was issued before", is, id)
		}
		issued[id] = true
	}
	for kind := 0; kind < 3; kind++ {
		for _, pos := range []int{0, 2, 4} {
			for v := 0; v < 256; v++ {
				b := []byte("TKN7A")
				b[pos] = byte(v)
				run(string(b), kind)
			}
		}
		for n := 0; n <= 12; n++ {
			run(strings.Repeat("Z9", 6)[:n], kind)
		}
	}
	p.Exhaustive()
}
