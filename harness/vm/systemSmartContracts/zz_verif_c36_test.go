package systemSmartContracts

// C36 (second target): "splitting rewards between a delegation owner and delegators this way hands out exactly
// the rewards to distribute" checked on the REAL delegation contract (real vmContext, validator and staking
// contracts, fixture of zz_verif_shared_vma_test.go), not on a model of its arithmetic:
// the owner creates the contract, 0-4 delegators join, the end-of-epoch caller sends rewards R_e for 1-4 epochs
// (service fee possibly changed in between), then everybody claims. The payouts are read from the VM outputs.

import (
	"fmt"
	"math/big"
	"strings"
	"testing"

	"github.com/ElrondNetwork/elrond-go/config"
	kit "github.com/ElrondNetwork/elrond-go/verifkit"
	"github.com/ElrondNetwork/elrond-go/vm"
	vmcommon "github.com/ElrondNetwork/elrond-vm-common"
	"pgregory.net/rapid"
)

const verifC36MaxFee = 10000

type verifC36Epoch struct {
	Advance int   // epochs to advance before the reward call (>= 1)
	Rewards int64 // value sent with updateRewards
	Fee     int64 // service fee in force when the rewards arrive
	// NothingActive: before the reward call everybody (owner last) undelegates his whole stake, so that the reward
	// data is recorded with TotalActive == 0; right after the reward call everybody delegates the same stake again
	NothingActive bool
}

type verifC36Scenario struct {
	StakingV2  bool
	OwnerStake int64
	Stakes     []int64 // the other delegators
	Epochs     []verifC36Epoch
	FirstFee   int64
	ClaimOrder []int // permutation of 0..len(Stakes) (0 = owner)
}

func (sc verifC36Scenario) String() string {
	var eps []string
	for _, e := range sc.Epochs {
		na := ""
		if e.NothingActive {
			na = " [all undelegate before, re-delegate after]"
		}
		eps = append(eps, fmt.Sprintf("+%d epoch(s): fee %d/10000, updateRewards(%d)%s", e.Advance, e.Fee, e.Rewards, na))
	}
	return fmt.Sprintf("stakingV2 %v, owner stake %d, delegator stakes %v, initial fee %d; %s; claim order %v",
		sc.StakingV2, sc.OwnerStake, sc.Stakes, sc.FirstFee, strings.Join(eps, "; "), sc.ClaimOrder)
}

type verifC36Outcome struct {
	claims   []*big.Int // by actor (0 = owner)
	received *big.Int   // all rewards sent
	idle     *big.Int   // of which: sent while nothing was active
}

func verifC36Run(sc verifC36Scenario) (*verifC36Outcome, error) {
	wc := verifVMADefaultConfig()
	wc.MaxServiceFee = verifC36MaxFee
	wc.StartEpoch = 2
	never := uint32(1000000)
	wc.EnableEpochs = config.EnableEpochs{
		StakingV2EnableEpoch:               never,
		ValidatorToDelegationEnableEpoch:   never,
		ReDelegateBelowMinCheckEnableEpoch: never,
		UnbondTokensV2EnableEpoch:          never,
		DelegationManagerEnableEpoch:       never,
	}
	if sc.StakingV2 {
		wc.EnableEpochs.StakingV2EnableEpoch = 0
	}
	scAddr := verifVMASCAddr(1)
	w, err := verifVMANewWorld(wc, scAddr)
	if err != nil {
		return nil, err
	}
	mgmt := &DelegationManagement{MaxServiceFee: verifC36MaxFee, MinDeposit: big.NewInt(1), MinDelegationAmount: big.NewInt(1)}
	buf, err := w.marsh.Marshal(mgmt)
	if err != nil {
		return nil, err
	}
	w.commitStorage(vm.DelegationManagerSCAddress, []byte(delegationManagementKey), buf)

	actors := [][]byte{verifVMAUserAddr('d', 0)}
	for i := range sc.Stakes {
		actors = append(actors, verifVMAUserAddr('d', i+1))
	}
	must := func(what string, res verifVMAResult, err error) error {
		if err != nil {
			return fmt.Errorf("%s: %v", what, err)
		}
		if res.Code != vmcommon.Ok {
			return fmt.Errorf("%s returned %s: %s", what, res.Code, res.Message)
		}
		return nil
	}
	zero := big.NewInt(0)
	res, err := w.runInit(actors[0], scAddr, big.NewInt(sc.OwnerStake), zero.Bytes(), big.NewInt(sc.FirstFee).Bytes())
	if e := must("init", res, err); e != nil {
		return nil, e
	}
	for i, st := range sc.Stakes {
		res, err = w.run(actors[i+1], scAddr, "delegate", big.NewInt(st))
		if e := must("delegate", res, err); e != nil {
			return nil, e
		}
	}
	out := &verifC36Outcome{received: big.NewInt(0), idle: big.NewInt(0)}
	stakeOf := func(a int) int64 {
		if a == 0 {
			return sc.OwnerStake
		}
		return sc.Stakes[a-1]
	}
	fee := sc.FirstFee
	for _, ep := range sc.Epochs {
		w.setEpoch(w.epoch + uint32(ep.Advance))
		if ep.Fee != fee {
			res, err = w.run(actors[0], scAddr, "changeServiceFee", zero, big.NewInt(ep.Fee).Bytes())
			if e := must("changeServiceFee", res, err); e != nil {
				return nil, e
			}
			fee = ep.Fee
		}
		if ep.NothingActive {
			for a := len(actors) - 1; a >= 0; a-- {
				res, err = w.run(actors[a], scAddr, "unDelegate", zero, big.NewInt(stakeOf(a)).Bytes())
				if e := must("unDelegate", res, err); e != nil {
					return nil, e
				}
			}
			out.idle.Add(out.idle, big.NewInt(ep.Rewards))
		}
		res, err = w.run(vm.EndOfEpochAddress, scAddr, "updateRewards", big.NewInt(ep.Rewards))
		if e := must("updateRewards", res, err); e != nil {
			return nil, e
		}
		out.received.Add(out.received, big.NewInt(ep.Rewards))
		if ep.NothingActive {
			for a := range actors {
				res, err = w.run(actors[a], scAddr, "delegate", big.NewInt(stakeOf(a)))
				if e := must("delegate", res, err); e != nil {
					return nil, e
				}
			}
		}
	}
	out.claims = make([]*big.Int, len(actors))
	for _, a := range sc.ClaimOrder {
		res, err = w.run(actors[a], scAddr, "claimRewards", zero)
		if e := must("claimRewards", res, err); e != nil {
			return nil, e
		}
		out.claims[a] = verifVMATransfersTo(res.Output, actors[a])
	}
	return out, nil
}

type verifC36Finding struct{ key, msg string }

// verifC36Check is the oracle; everything is recomputed with exact integer arithmetic from the scenario.
func verifC36Check(sc verifC36Scenario, o *verifC36Outcome) []verifC36Finding {
	var f []verifC36Finding
	total := big.NewInt(0)
	for _, c := range o.claims {
		total.Add(total, c)
	}
	// Rewards sent while nothing is active ("idle"): the contract's rule for such an epoch is "everything to the
	// owner", but the owner can only collect while he has an active fund and every way to get one again moves
	// his checkpoint past the epoch, so with the present code they are not handed out to anybody (measured as a
	// class, reported in notes/reports/C36.md). The clauses below are therefore two-sided: exact for the rewards of
	// epochs with active stake, and the idle rewards may or may not reach the owner - never anybody else, never more.
	active := new(big.Int).Sub(o.received, o.idle)
	if len(sc.Stakes) == 0 {
		// the owner is the only delegator: service fee + delegators' part both go to him
		if total.Cmp(active) < 0 || total.Cmp(o.received) > 0 {
			f = append(f, verifC36Finding{"C36:delegation:sole-owner-not-exact", fmt.Sprintf("the owner is the only delegator and can claim %s, rewards distributed %s (of which %s while nothing was active)", total, o.received, o.idle)})
		}
	}
	if total.Cmp(o.received) > 0 {
		f = append(f, verifC36Finding{"C36:delegation:handed-out-more-than-rewards", fmt.Sprintf("claims add up to %s, rewards distributed %s", total, o.received)})
	}
	pairs := int64(0)
	for _, ep := range sc.Epochs {
		if !ep.NothingActive {
			pairs += int64(len(sc.Stakes) + 1)
		}
	}
	low := new(big.Int).Sub(active, big.NewInt(pairs))
	if total.Cmp(low) < 0 {
		f = append(f, verifC36Finding{"C36:delegation:lost-more-than-floor-dust", fmt.Sprintf("claims add up to %s, rewards distributed while stake was active %s: %s lost, at most one unit per delegator and epoch (%d) can be lost to rounding down",
			total, active, new(big.Int).Sub(active, total), pairs)})
	}
	if sc.StakingV2 {
		// the owner's cut of every epoch is floor(R*fee/10000); as a delegator he also gets floor(rest*stake/totalStake)
		totalStake := big.NewInt(sc.OwnerStake)
		for _, s := range sc.Stakes {
			totalStake.Add(totalStake, big.NewInt(s))
		}
		expOwner := big.NewInt(0)
		cuts := big.NewInt(0)
		expOthers := big.NewInt(0)
		for _, ep := range sc.Epochs {
			if ep.NothingActive {
				continue
			}
			r := big.NewInt(ep.Rewards)
			cut := new(big.Int).Mul(r, big.NewInt(ep.Fee))
			cut.Div(cut, big.NewInt(verifC36MaxFee))
			rest := new(big.Int).Sub(r, cut)
			share := new(big.Int).Mul(rest, big.NewInt(sc.OwnerStake))
			share.Div(share, totalStake)
			expOwner.Add(expOwner, cut)
			expOwner.Add(expOwner, share)
			cuts.Add(cuts, cut)
			for _, st := range sc.Stakes {
				sh := new(big.Int).Mul(rest, big.NewInt(st))
				expOthers.Add(expOthers, sh.Div(sh, totalStake))
			}
		}
		expOwnerMax := new(big.Int).Add(expOwner, o.idle)
		if o.claims[0].Cmp(expOwner) < 0 || o.claims[0].Cmp(expOwnerMax) > 0 || (o.idle.Sign() == 0 && o.claims[0].Cmp(expOwner) != 0) {
			f = append(f, verifC36Finding{"C36:delegation:owner-cut", fmt.Sprintf("the owner claims %s; sum over the epochs with active stake of floor(R*fee/10000) = %s plus his share as a delegator of what is left gives %s (rewards sent while nothing was active: %s)", o.claims[0], cuts, expOwner, o.idle)})
		}
		others := new(big.Int).Sub(total, o.claims[0])
		if others.Cmp(expOthers) > 0 {
			f = append(f, verifC36Finding{"C36:delegation:delegators-got-more-than-their-part", fmt.Sprintf("the delegators other than the owner claim %s, their floor shares of the delegators' parts add up to %s", others, expOthers)})
		}
	}
	return f
}

func verifC36GenScenario(rt *rapid.T) verifC36Scenario {
	sc := verifC36Scenario{}
	sc.StakingV2 = rapid.IntRange(0, 3).Draw(rt, "stakingV2") != 0
	stake := func(label string) int64 {
		switch rapid.IntRange(0, 5).Draw(rt, label+"Kind") {
		case 0:
			return 1
		case 1:
			return rapid.SampledFrom([]int64{1000, 1250, 2500, 1000000}).Draw(rt, label+"Round")
		case 2:
			return rapid.SampledFrom([]int64{7, 997, 1000003, 2147483647}).Draw(rt, label+"Prime")
		}
		return rapid.Int64Range(1, 1000000000000).Draw(rt, label)
	}
	sc.OwnerStake = stake("ownerStake")
	n := rapid.SampledFrom([]int{0, 0, 1, 2, 3, 4}).Draw(rt, "delegators")
	for i := 0; i < n; i++ {
		sc.Stakes = append(sc.Stakes, stake("stake"))
	}
	fee := func() int64 {
		switch rapid.IntRange(0, 4).Draw(rt, "feeKind") {
		case 0:
			return rapid.SampledFrom([]int64{0, 1, 9999, 10000}).Draw(rt, "feeEdge")
		case 1:
			return rapid.SampledFrom([]int64{1000, 1234, 3333, 5000, 1500, 789}).Draw(rt, "feeUsual")
		}
		return rapid.Int64Range(0, verifC36MaxFee).Draw(rt, "fee")
	}
	sc.FirstFee = fee()
	cur := sc.FirstFee
	ne := rapid.IntRange(1, 4).Draw(rt, "epochs")
	for i := 0; i < ne; i++ {
		ep := verifC36Epoch{Advance: rapid.SampledFrom([]int{1, 1, 1, 2}).Draw(rt, "advance"), Fee: cur}
		if rapid.IntRange(0, 3).Draw(rt, "changeFee") == 0 {
			ep.Fee = fee()
			cur = ep.Fee
		}
		switch rapid.IntRange(0, 5).Draw(rt, "rewardsKind") {
		case 0:
			ep.Rewards = rapid.SampledFrom([]int64{0, 1, 2, 9999, 10000, 10001}).Draw(rt, "rewardsSmall")
		case 1:
			ep.Rewards = rapid.SampledFrom([]int64{1000003, 1001, 999999999989, 123456789}).Draw(rt, "rewardsOdd")
		case 2:
			ep.Rewards = rapid.SampledFrom([]int64{1000, 100000, 1000000000000}).Draw(rt, "rewardsRound")
		default:
			ep.Rewards = rapid.Int64Range(0, 1000000000000000).Draw(rt, "rewards")
		}
		// nothing active when the rewards arrive (needs unDelegate, which the validator contract only serves with staking v2)
		if sc.StakingV2 && rapid.IntRange(0, 5).Draw(rt, "nothingActive") == 0 {
			ep.NothingActive = true
		}
		sc.Epochs = append(sc.Epochs, ep)
	}
	// claim order: a drawn permutation
	order := make([]int, n+1)
	for i := range order {
		order[i] = i
	}
	for i := len(order) - 1; i > 0; i-- {
		j := rapid.IntRange(0, i).Draw(rt, "perm")
		order[i], order[j] = order[j], order[i]
	}
	sc.ClaimOrder = order
	return sc
}

func TestVerifC36_RealDelegationSplit(t *testing.T) {
	kit.Run(t, "C36", kit.Budget{Quick: 1500, Thorough: 20000},
		"real delegation contract: owner (stake 1..10^12) + 0-4 delegators (joined before the first reward epoch, stakes unchanged), staking-v2 rounding on (3 of 4) or off, 1-4 reward epochs with updateRewards(R) once per epoch (R: 0, 1, around 10000, odd amounts, round amounts, random up to 10^15), service fee 0..10000 possibly changed between epochs, idle epochs in between; then everybody claims in a drawn order; oracle: sole owner claims exactly sum(R); sum of claims <= sum(R) and >= sum(R) - epochs*(delegators+1); staking-v2: owner's claim == sum floor(R*fee/10000) + his floor share of the rest; non-trivial = some epoch with R*fee not divisible by 10000 and fee > 0",
		func(rt *rapid.T, c *kit.Case) {
			sc := verifC36GenScenario(rt)
			nonInt := false
			for _, ep := range sc.Epochs {
				if ep.Fee > 0 && new(big.Int).Mod(new(big.Int).Mul(big.NewInt(ep.Rewards), big.NewInt(ep.Fee)), big.NewInt(verifC36MaxFee)).Sign() != 0 {
					nonInt = true
				}
			}
			if nonInt {
				c.NonTrivial(sc.String())
				c.Sample("%s", sc.String())
				if sc.StakingV2 {
					c.Class("non-integer-cut+stakingV2")
				}
			}
			if len(sc.Stakes) == 0 {
				c.Class("sole-owner")
			}
			for _, ep := range sc.Epochs {
				if ep.NothingActive {
					c.Class("epoch-with-nothing-active")
					if ep.Fee > 0 && ep.Rewards > 0 {
						c.Class("epoch-with-nothing-active+fee>0")
					}
				}
			}
			if !sc.StakingV2 {
				c.Class("stakingV2-off")
			}
			var o *verifC36Outcome
			var err error
			c.NoPanic("C36:delegation:panic", func() { o, err = verifC36Run(sc) })
			if err != nil {
				rt.Fatalf("fixture: %v\n%s", err, sc)
			}
			if o.idle.Sign() > 0 {
				total := big.NewInt(0)
				for _, cl := range o.claims {
					total.Add(total, cl)
				}
				if total.Cmp(new(big.Int).Sub(o.received, o.idle)) > 0 {
					c.Class("idle-rewards:some-reached-the-owner")
				} else {
					c.Class("idle-rewards:not-handed-out")
				}
			}
			for _, f := range verifC36Check(sc, o) {
				if kit.IsKnown(f.key) {
					c.Excluded(f.key)
					continue
				}
				c.Violation(f.key, "%s\nscenario: %s\nclaims (owner first): %v", f.msg, sc, o.claims)
			}
		})
}

func TestVerifC36_RealDelegationRegress(t *testing.T) {
	kit.Silence()
	table := []verifC36Scenario{
		// amounts whose owner cut is not an integer; the owner alone must still receive everything
		{StakingV2: true, OwnerStake: 1250, FirstFee: 1234, Epochs: []verifC36Epoch{{Advance: 1, Rewards: 1000003, Fee: 1234}}, ClaimOrder: []int{0}},
		{StakingV2: true, OwnerStake: 1000, FirstFee: 1000, Epochs: []verifC36Epoch{{Advance: 1, Rewards: 1001, Fee: 1000}, {Advance: 2, Rewards: 7, Fee: 3333}}, ClaimOrder: []int{0}},
		{StakingV2: false, OwnerStake: 1000, FirstFee: 1234, Epochs: []verifC36Epoch{{Advance: 1, Rewards: 1000003, Fee: 1234}}, ClaimOrder: []int{0}},
		// two delegators: 1000003 at 12.34 %: cut 123400, rest 876603 split 1:2 between owner(1000)... and the others
		{StakingV2: true, OwnerStake: 1000, Stakes: []int64{1000, 1000}, FirstFee: 1234, Epochs: []verifC36Epoch{{Advance: 1, Rewards: 1000003, Fee: 1234}}, ClaimOrder: []int{2, 0, 1}},
	}
	for _, sc := range table {
		o, err := verifC36Run(sc)
		if err != nil {
			t.Fatalf("fixture: %v (%s)", err, sc)
		}
		for _, f := range verifC36Check(sc, o) {
			kit.FailPlain(t, "C36", f.key, "%s\nscenario: %s\nclaims (owner first): %v", f.msg, sc, o.claims)
		}
	}
	// hand-computed: 1000003 * 1234 / 10000 = 123400.37 -> cut 123400, rest 876603, a third each = 292201
	o, err := verifC36Run(table[3])
	if err != nil {
		t.Fatalf("fixture: %v", err)
	}
	if o.claims[0].Int64() != 123400+292201 || o.claims[1].Int64() != 292201 || o.claims[2].Int64() != 292201 {
		kit.FailPlain(t, "C36", "C36:delegation:owner-cut", "hand-computed split of 1000003 at 1234/10000 over three equal stakes: got %v, want [415601 292201 292201]", o.claims)
	}
}
